// parent crate for /verif/fuzzing/fuzz (cargo-fuzz)
