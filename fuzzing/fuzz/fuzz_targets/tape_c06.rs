#![no_main]
//! Coverage-guided search over the c06 case functions: the input bytes are the choice tape.
use libfuzzer_sys::fuzz_target;
use std::sync::OnceLock;

static HOST: OnceLock<vmodel::FuzzHost> = OnceLock::new();

fuzz_target!(|data: &[u8]| {
    HOST.get_or_init(|| vmodel::FuzzHost::new(c06::spec())).one(data);
});
