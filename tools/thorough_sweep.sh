#!/bin/sh
# Run the thorough tier of the given properties one after another (used with `vp run` as a background sweep).
for id in "$@"; do
  echo "=== $id $(date +%T)"
  /usr/bin/time -f "$id wall %es maxrss %MkB" bin/check $id thorough 2>&1 | grep -E "^C[0-9]+ \[|VIOLATION|INCONCL|KNOWN-FINDING|wall|^FAIL" | cut -c1-300
  echo "exit=$?"
done
