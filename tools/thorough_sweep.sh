#!/bin/sh
# Run the thorough tier of the given properties one after another (used with `vp run` as a background sweep).
# VERIF_SEED is honoured.
for id in "$@"; do
  echo "=== $id $(date +%T) seed=${VERIF_SEED:-0}"
  /usr/bin/time -f "$id wall %es maxrss %MkB" bin/check $id thorough 2>&1 | grep -E "^C[0-9]+ \[|VIOLATION|INCONCL|KNOWN-FINDING|wall|^FAIL" | cut -c1-300
  echo "exit=$?"
done
