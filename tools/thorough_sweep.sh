#!/bin/sh
# Run the thorough tier of the given properties one after another (used with `vp run` as a background sweep).
# VERIF_SEED is honoured. Prints the real exit status of every check.
for id in "$@"; do
  echo "=== $id $(date +%T) seed=${VERIF_SEED:-0}"
  out=$(mktemp)
  /usr/bin/time -f "$id wall %es maxrss %MkB" bin/check $id thorough > $out 2>&1
  rc=$?
  grep -E "^C[0-9]+ \[|VIOLATION|INCONCL|KNOWN-FINDING|wall|^FAIL" $out | cut -c1-300
  rm -f $out
  echo "exit=$rc"
done
