#!/bin/sh
# Confirm a seeded change independently, in a scratch worktree of /repo HEAD (never in /repo):
#   demo passes without the patch, fails with it; the full existing suite still passes with it.
# usage: tools/confirm_seed.sh <PROPERTY-ID> <label> <dir containing patch.diff demo.rs notes.md>
# Writes /verif/seeded/<ID>-<label>/{patch.diff,demo.rs,notes.md,confirm.log,meta.json(stub)}.
id=$1; lab=$2; src=$3
out=/verif/seeded/$id-$lab
wt=/tmp/cs/$id-$lab
mkdir -p $out /tmp/cs
cp $src/patch.diff $src/demo.rs $out/ 2>/dev/null
cp $src/notes.md $out/notes.md 2>/dev/null
git -C /repo worktree remove --force $wt 2>/dev/null
git -C /repo worktree add -q --detach $wt HEAD || exit 2
cd $wt
log=$out/confirm.log
: > $log
feat=""
if grep -qi "alloc\|all-features" $out/demo.rs $out/notes.md 2>/dev/null; then feat="--all-features"; fi
cp $out/demo.rs tests/seed_demo.rs
echo "== demo WITHOUT patch (expect pass) [cargo test --offline $feat --test seed_demo]" >> $log
cargo test --offline -j 6 $feat $DEMO_FLAGS --test seed_demo >> $log 2>&1; r_clean=$?
git apply $out/patch.diff >> $log 2>&1; r_apply=$?
echo "== demo WITH patch (expect fail)" >> $log
cargo test --offline -j 6 $feat $DEMO_FLAGS --test seed_demo >> $log 2>&1; r_mut=$?
rm tests/seed_demo.rs
echo "== full suite WITH patch (expect pass) [cargo test --workspace --no-fail-fast --offline]" >> $log
cargo test --workspace --no-fail-fast --offline -j 6 >> $log 2>&1; r_suite=$?
echo "== full suite WITH patch --all-features (expect pass)" >> $log
cargo test --workspace --no-fail-fast --offline -j 6 --all-features >> $log 2>&1; r_suite_all=$?
head=$(git -C /repo rev-parse --short HEAD)
echo "RESULT id=$id label=$lab base=$head apply=$r_apply demo_clean=$r_clean demo_mutant=$r_mut suite=$r_suite suite_all_features=$r_suite_all" | tee -a $log
cd /
git -C /repo worktree remove --force $wt
# keep the log small
grep -E "^==|^test result|^RESULT|FAILED|panicked|error\[" $log > $log.short; mv $log.short $log
