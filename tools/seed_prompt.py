#!/usr/bin/env python3
"""Print the prompt given to an independent mutant-seeding sub-agent for one property.
Only the property text and a scratch worktree path are given (nothing from /verif)."""
import json, sys
pid, wt = sys.argv[1], sys.argv[2]
hard = len(sys.argv) > 3 and sys.argv[3] in ("hard", "surface")
surface = len(sys.argv) > 3 and sys.argv[3] == "surface"
p = next(json.loads(l) for l in open('/verif/properties.jsonl') if json.loads(l)['id'] == pid)
HARD = """

IMPORTANT - make them HARD to find: assume that, besides the existing suite, a strong randomized property-based test harness already exists for this property, with edge-biased generators (0, 1, MAX, 2^k and 2^k +- 1, limbs drawn from {0, MAX, 1, 2^63, ...}, runs of ones ending at limb boundaries, random bit lengths, operands related to each other as a, a +- 1, !a, -a, zero-padded values), all the limb widths the property lists, and an exact big-integer oracle for every API form. Your changes should SURVIVE such a harness unless its generator happens to be built for exactly your trigger. Good directions: a trigger that is a conjunction of two or three independent conditions (a specific width AND a specific operand relation AND a specific form); only ONE of the many API forms affected (one operator impl such as `&T op T`, one trait impl that delegates differently, one `_assign` form, one wrapper type); only one unusual width (a non-power-of-two limb count, a specific boxed precision such as 3 or 33 limbs, or mixed left/right widths); a value class that edge-biased generators do not produce (e.g. a specific middle limb equal to a constant while its neighbours are random, an interior carry pattern, a magic constant); history / state dependence (a value that was produced by a particular earlier operation, an object reused after a particular call); or behaviour that differs only between the optimized and the debug-assertion build.""" if hard else ""
if surface:
    HARD += """

FOR THIS ROUND, look for your two sites in the RARELY USED API SURFACE that still belongs to this property: trait impls that duplicate an inherent method (num-traits traits such as WrappingAdd / CheckedMul / Zero / One / Num / Bounded / ConstZero, subtle traits, core::ops impls for every reference / value / assign combination, From / TryFrom / AsRef conversions, Default / Ord / Hash impls), wrapper types (Wrapping, Checked, NonZero, Odd) forwarding to the inner type, feature-gated code (serde, der, rlp, hybrid-array, zeroize, rand_core, extra-sizes), macro-generated impls that exist only for particular type aliases or size combinations (e.g. one concat / split / rem_mixed combination, one alias's Encoding impl, the extra-sizes aliases), const fns versus their trait counterparts, and rarely taken early-return / fallback branches. A change that alters ONE such impl (one size combination of a macro, one forwarding impl, one reference/value form) while every commonly used route stays correct is ideal."""
print(f"""You are helping evaluate a verification effort for the Rust crate RustCrypto/crypto-bigint (a constant-time big-integer library). You have your own scratch git worktree of the crate at {wt} (work ONLY there; never read or touch /repo or /verif; the machine is offline, use `cargo ... --offline`; keep build output inside the worktree's own target/ directory, and limit builds to `-j 4`).

Here is a semantic property the crate should satisfy:

TITLE: {p['title']}
STATEMENT: {p['statement']}
QUANTIFIER: {p['quantifier']['text']}
RELEVANT FILES: {', '.join(p['anchors']['files'])}

Your job: produce TWO different, independent, realistic code changes (call them A and B) to the crate's source under {wt}/src, each of which BREAKS this property while the crate still compiles and the ENTIRE existing test suite still passes (`cargo test --offline -j 4` with default features, and also `cargo test --offline -j 4 --all-features`; unit tests, integration tests in tests/, and doc-tests must all still pass, unedited). The changes should look like plausible bugs a maintainer could introduce (an off-by-one in a loop bound, a dropped carry, a wrong mask, a swapped select, a boundary comparison, a missed special case, a helper replaced by a subtly different one), NOT ones that ordinary use would expose at once: each should need something specific to manifest — an unusual input (particular limb pattern, a specific width/precision, a boundary value), a multi-step sequence of operations, a rare internal path (e.g. a correction step that triggers with probability 2^-64 on random input but can be constructed), or two cooperating sites that each look fine alone. Prefer the two changes to be in different files / code paths and of different character. Do not edit any existing test.{HARD}

For each change X in {{A, B}} deliver, in the directory {wt}/SEED/X/ :
  - patch.diff : `git diff` of the source change only (relative to the worktree HEAD; src/ files only), applicable with `git apply`.
  - demo.rs : a self-contained integration test file (to be dropped into tests/ of the crate) with one or more #[test] functions that FAIL with the change applied and PASS without it. It may use dev-dependencies already in Cargo.toml (num-bigint, proptest, rand_chacha, ...). State in a comment at the top the cargo features it needs.
  - notes.md : which part of the property it breaks, exactly what is needed for it to manifest (the specific inputs / sequence), and the exact commands you ran with their outcome (full test suite with the change: pass; demo with the change: fail; demo without the change: pass).

Procedure: read the relevant source, design change A, apply it, run the whole suite (both feature sets) to confirm it still passes, write the demo and confirm it fails with the change and passes after `git stash`/revert; save the artefacts; revert the source (`git checkout -- src`); repeat for B. At the end the worktree's src/ must be back at HEAD and SEED/A, SEED/B populated; remove your demo from tests/ (keep it only under SEED/). Finally run `cargo clean` in the worktree to free disk. Report briefly what A and B are.""")
