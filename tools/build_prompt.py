#!/usr/bin/env python3
"""Prompt for a harness-building sub-agent for one property (these agents may read /verif)."""
import json, re, sys
pid = sys.argv[1]
p = next(json.loads(l) for l in open('/verif/properties.jsonl') if json.loads(l)['id'] == pid)
design = open('/verif/DESIGN.md').read()
m = re.search(r'(### %s .*?)(?=\n### C\d\d |\n-{20,})' % pid, design, re.S)
section = m.group(1)
rows = [l for l in design.split('\n') if l.startswith('| F-') and pid in l.split('|')[2]]
pkg = pid.lower()
print(f"""You are building one property check of a property-based-testing harness for the Rust crate RustCrypto/crypto-bigint 0.7.0-pre.0 (source at /repo, read-only for you: NEVER edit anything under /repo). The harness lives in /verif/harness (cargo workspace, offline). Your deliverable is ONE new crate /verif/harness/props/{pkg}/ (Cargo.toml, src/main.rs, src/lib.rs [+ more modules]) implementing the check for property {pid}. Do not edit any other file under /verif (not vmodel, not other props crates, not DESIGN.md / MANIFEST.json / known_findings.json). If you need a helper that vmodel lacks, write it inside your crate.

FIRST read: /verif/harness/GUIDE.md (engine API contract), /verif/harness/props/c03/src/lib.rs (worked example), /verif/harness/vmodel/src/{{gen,bridge,tape,engine}}.rs, and /verif/DESIGN.md §2 and §6. Then read the crypto-bigint source files the property anchors (listed below) so that every assertion you write is grounded in the property text AND the documentation of the API item (doc comments), never in a guess.

PROPERTY {pid}: {p['title']}
STATEMENT: {p['statement']}
QUANTIFIER: {p['quantifier']['text']}
WHY TESTS CAN'T: {p['why_tests_cant']}
ANCHOR FILES: {', '.join(p['anchors']['files'])}

DESIGN FOR THIS PROPERTY (from /verif/DESIGN.md §3 — G generators, O oracle, NT non-triviality rule, B bounds, M planned mutants):
{section}

DEFECTS ALREADY SUSPECTED ON THE UNCHANGED TREE THAT TOUCH THIS PROPERTY (from DESIGN.md §5; ids are the known-finding signature ids to use with Fail::known):
{chr(10).join(rows) if rows else '(none listed)'}
The main session is landing small "fix:" commits in /repo for some of these WHILE you work (F-03 is already fixed), so a listed defect may disappear under you; that is fine. For each listed defect write an exact signature matcher: when (and only when) the inputs are in the defect's class AND the observed wrong result is the specific known wrong result, `return Err(Fail::known("F-xx", msg))`; every other deviation must be an ordinary failure. While developing, to see past a not-yet-fixed defect, run with a private findings file: `mkdir -p /tmp/vr/{pkg} && echo '{{"findings":[{{"id":"F-xx","properties":["{pid}"],"status":"known","what":"..."}}]}}' > /tmp/vr/{pkg}/known_findings.json` and `VERIF_ROOT=/tmp/vr/{pkg} <binary> ...` (replays are then written under /tmp/vr/{pkg}/replays).
If your check finds a NEW deviation: first re-derive the oracle and the input domain from the docs (most surprises are harness mistakes or inputs outside a documented precondition). If it is a genuine defect of crypto-bigint (you can show the failing input against the real code), do NOT loosen the assertion: give it a new signature id "F-{pid[1:]}x" (x = a, b, …), match it exactly with Fail::known, and describe it in your final report (API, minimal input, observed vs expected, which doc promises otherwise, and whether a small fix exists).

COVERAGE EXPECTED: cover the APIs listed in the design section as completely as the public API allows (inherent methods, trait methods, operators by value / by reference / assigning, Wrapping / Checked wrappers, fixed Uint<N> for the widths of the quantifier via const-generic functions + macros, BoxedUint with runtime precisions, Int, Limb, NonZero / Odd inputs as applicable). One generated case should exercise many API forms on the same operands (one oracle computation, many assertions). Label classes (`c.label`) so the evidence shows the generator reaches the adversarial shapes named in the quantifier, and implement the NT rule (`c.nontrivial`) as stated in the design (write the exact rule you implemented into `PropSpec::rule`). Add the property-specific adversarial constructions named in the design/quantifier, not just `gen::limbs`.

BUILD/RUN: use your own target dir to avoid lock contention with other agents: `cd /verif/harness && CARGO_TARGET_DIR=/tmp/tgt/{pkg} cargo build --offline --release -p {pkg}` (and `--profile chk` for the checked profile); run `/tmp/tgt/{pkg}/release/{pkg} --seed N` (see GUIDE.md for flags). The crate is picked up automatically by the workspace glob `props/*`. Keep compile time reasonable (instantiate each generic case function for the widths needed, not more).

ACCEPTANCE (do all of it, report the numbers):
 1. `--list` shows your sub-checks; quick tier wall time in rel on this 16-core box roughly 5–40 s (raise case counts until it is at least a few seconds; cheap ops deserve 10^5+ cases); distinct_nontrivial is a large fraction of evaluations; skipped < 5%.
 2. Passes (exit 0, no VIOLATION) for seeds 0,1,2,3,4 in BOTH profiles from fresh processes — apart from genuine defects, which must surface only as exact known signatures (with the private findings file).
 3. Sensitivity: `git -C /repo worktree add --detach /tmp/mut/{pkg} HEAD`, then for at least 5 of the planned mutants (M. list above, or similar realistic ones you devise: each a small plausible change that still compiles) apply the mutant there, run `/verif/tools/mutant_run.sh {pkg}-m <patch-file-or-'-'> {pid}` style or simply copy /verif/harness to /tmp/h-{pkg} with `path = "/repo"` replaced by `path = "/tmp/mut/{pkg}"` in its Cargo.toml and a private target dir, rebuild your crate there and confirm the quick tier reports a VIOLATION; revert the mutant (`git -C /tmp/mut/{pkg} checkout -- .`) before the next. If a mutant survives, strengthen the generator / oracle and say what you changed. Remove everything you created under /tmp at the end (`git -C /repo worktree remove --force /tmp/mut/{pkg}`; rm -rf /tmp/tgt/{pkg} /tmp/h-{pkg} /tmp/vr/{pkg}).
 4. `--replay` of a saved failing case reproduces the failure (try one from a mutant run).
FINAL REPORT (concise): sub-check list with quick case counts and measured wall time; evaluations / distinct_nontrivial; class histogram highlights; which mutants were caught / missed; every genuine defect found or confirmed with its signature id, minimal input, and suggested fix; anything in the design you could not cover and why.""")
