#!/bin/sh
# Like mutant_run.sh but for the C01 (instrumented) workspace.
# usage: tools/mutant_run_ct.sh <name> <patch.diff|-> [args for c01 binary...]
set -e
# VERIF_SRC: take the harness sources from another checkout of /verif (e.g. a worktree of an older commit)
src=${VERIF_SRC:-/verif}
name=$1; patch=$2; shift 2
base=/tmp/mw/$name
if [ ! -d $base/repo ]; then
  mkdir -p $base
  git -C /repo worktree add -q --detach $base/repo HEAD
  if [ "$patch" != "-" ]; then git -C $base/repo apply "$patch"; fi
fi
rm -rf $base/harness $base/harness-ct
mkdir -p $base/harness $base/harness-ct/.cargo
cp -r $src/harness/Cargo.toml $src/harness/Cargo.lock $src/harness/vmodel $base/harness/
cp -r $src/harness-ct/Cargo.toml $src/harness-ct/Cargo.lock $src/harness-ct/ctwrap $src/harness-ct/c01 $base/harness-ct/
printf '[net]\noffline = true\n[build]\ntarget-dir = "%s/target-ct"\nrustc-wrapper = "/verif/bin/rustc-sancov"\n' $base > $base/harness-ct/.cargo/config.toml
sed -i "s#path = \"/repo\"#path = \"$base/repo\"#" $base/harness-ct/Cargo.toml $base/harness/Cargo.toml
cd $base/harness-ct
cargo build --offline -q --release -p c01 2>&1 | grep -E "^error" -A8 || true
mkdir -p $base/vroot
[ -f $base/vroot/known_findings.json ] || cp $src/known_findings.json $base/vroot/
VERIF_REPO=$base/repo VERIF_ROOT=$base/vroot $base/target-ct/release/c01 "$@"
