#!/bin/sh
# Run property checks against a *scratch copy* of /repo with a patch applied (never touches /repo).
# usage: tools/mutant_run.sh <name> <patch.diff|-> <ID> [extra args for the check binary...]
#   - creates (or reuses) worktree /tmp/mw/<name>/repo at /repo's HEAD, applies the patch,
#   - copies /verif/harness to /tmp/mw/<name>/harness with the crypto-bigint path rewritten,
#   - builds the property crate (release unless PROFILE=chk) and runs it (quick tier by default).
# cleanup: tools/mutant_run.sh --clean <name>
set -e
# VERIF_SRC: take the harness sources from another checkout of /verif (e.g. a worktree of an older commit)
src=${VERIF_SRC:-/verif}
if [ "$1" = "--clean" ]; then
  git -C /repo worktree remove --force /tmp/mw/$2/repo 2>/dev/null || true
  rm -rf /tmp/mw/$2
  git -C /repo worktree prune
  exit 0
fi
name=$1; patch=$2; id=$3; shift 3
case "$patch" in /*|-) ;; *) patch=$(pwd)/$patch ;; esac   # git -C <scratch> apply needs an absolute path
base=/tmp/mw/$name
pkg=$(echo $id | tr A-Z a-z)
if [ ! -d $base/repo ]; then
  mkdir -p $base
  git -C /repo worktree add -q --detach $base/repo HEAD
  if [ "$patch" != "-" ]; then git -C $base/repo apply "$patch"; fi
fi
rm -rf $base/harness
mkdir -p $base/harness
cp -r $src/harness/Cargo.toml $src/harness/Cargo.lock $src/harness/vmodel $src/harness/props $src/harness/mc01 $base/harness/
rm -rf $base/harness-ct; mkdir -p $base/harness-ct; cp -r $src/harness-ct/ctwrap $src/harness-ct/c01 $src/harness-ct/Cargo.toml $src/harness-ct/Cargo.lock $base/harness-ct/
sed -i "s#path = \"/repo\"#path = \"$base/repo\"#" $base/harness-ct/Cargo.toml
mkdir -p $base/harness/.cargo
printf '[net]\noffline = true\n[build]\ntarget-dir = "%s/target"\n' $base > $base/harness/.cargo/config.toml
sed -i "s#path = \"/repo\"#path = \"$base/repo\"#" $base/harness/Cargo.toml
cd $base/harness
if [ "${PROFILE:-rel}" = "chk" ]; then
  cargo build --offline -q --profile chk -p $pkg 2>&1 | grep -E "^error" -A8 || true
  bin=$base/target/chk/$pkg
else
  cargo build --offline -q --release -p $pkg 2>&1 | grep -E "^error" -A8 || true
  bin=$base/target/release/$pkg
fi
VERIF_ROOT=${VERIF_ROOT_OVERRIDE:-$base/vroot}
mkdir -p $base/vroot
cp $src/known_findings.json $base/vroot/ 2>/dev/null || true
[ -d $src/regressions ] && cp -r $src/regressions $base/vroot/ 2>/dev/null || true
VERIF_REPO=$base/repo VERIF_ROOT=$base/vroot $bin "$@"
