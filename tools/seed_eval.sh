#!/bin/sh
# Run a property's quick check against a confirmed seeded change (scratch copy, never /repo) and
# record the outcome.   usage: tools/seed_eval.sh <seed-dir-name e.g. C02-A> [ID to run, default = property of the seed] [extra args]
seed=$1; id=${2:-$(echo $seed | cut -d- -f1)}
if [ $# -ge 2 ]; then shift 2; else shift 1; fi
dir=/verif/seeded/$seed
out=$(/verif/tools/mutant_run.sh se-$seed $dir/patch.diff $id "$@" 2>/dev/null | grep -E "^VIOLATION|^C[0-9]+ \[|^FAIL" | cut -c1-260)
/verif/tools/mutant_run.sh --clean se-$seed
nv=$(echo "$out" | grep -c "^VIOLATION")
echo "$seed vs $id: violations_lines=$nv"
echo "$out" | grep -E "^FAIL" | head -2
echo "$out" | grep -E "^C[0-9]+ \["
