#!/usr/bin/env python3
"""Write /verif/seeded/<ID>-<label>/meta.json from confirm.log + a one-line 'needs' text + check outcomes.
usage: seed_meta.py <seed> <property> "<what it breaks>" "<needs>" "<caught_by text>" """
import json, sys, os, re
seed, prop, breaks, needs, caught = sys.argv[1:6]
d = f"/verif/seeded/{seed}"
log = open(os.path.join(d, "confirm.log")).read()
res = re.search(r"RESULT .*", log).group(0)
kv = dict(x.split("=") for x in res.split()[1:])
meta = {
    "seed": seed,
    "breaks_property": prop,
    "what_it_breaks": breaks,
    "needs_to_manifest": needs,
    "origin": "independent sub-agent given only the property text and a scratch worktree; nothing from /verif",
    "confirmed_by_me": {
        "base_commit": kv.get("base"),
        "commands": [
            "git worktree add --detach /tmp/cs/<seed> HEAD (scratch, never /repo)",
            "cargo test --offline [--all-features] --test seed_demo   (demo without the patch: pass)",
            "git apply patch.diff; cargo test ... --test seed_demo    (demo with the patch: fail)",
            "cargo test --workspace --no-fail-fast --offline          (existing suite with the patch: pass)",
            "cargo test --workspace --no-fail-fast --offline --all-features (pass)",
        ],
        "patch_applies": kv.get("apply") == "0",
        "demo_passes_without_patch": kv.get("demo_clean") == "0",
        "demo_fails_with_patch": kv.get("demo_mutant") not in ("0", None),
        "existing_suite_passes_with_patch": kv.get("suite") == "0",
        "existing_suite_all_features_passes_with_patch": kv.get("suite_all_features") == "0",
    },
    "checks_run_against_it": caught,
}
json.dump(meta, open(os.path.join(d, "meta.json"), "w"), indent=1)
print("wrote", d)
