#!/bin/sh
# Produce committed regression replays for a *fixed* finding: revert the fix in a scratch copy of
# /repo, run the property's quick check there, and keep the shrunk failing tapes.
# usage: tools/make_regression.sh <finding-id> <fix-commit> <PROPERTY-ID> [max files]
fid=$1; commit=$2; id=$3; max=${4:-3}
name=rg-$fid
base=/tmp/mw/$name
rm -rf $base; mkdir -p $base
git -C /repo diff $commit $commit^ -- src > $base/revert.diff
if [ "$id" = "C01" ]; then
  /verif/tools/mutant_run_ct.sh $name $base/revert.diff > $base/out.log 2>/dev/null
else
  /verif/tools/mutant_run.sh $name $base/revert.diff $id > $base/out.log 2>/dev/null
fi
n=$(grep -c "^VIOLATION" $base/out.log)
echo "$fid ($commit) reverted: $id reports $n violation line(s)"
mkdir -p /verif/regressions/$id
k=0
for f in $(grep "^VIOLATION" $base/out.log | sed 's/.*replay=//' | head -$max); do
  k=$((k+1))
  python3 - "$f" "/verif/regressions/$id/$fid-$k.json" "$fid" "$commit" <<'PY'
import json,sys
src,dst,fid,commit=sys.argv[1:5]
d=json.load(open(src))
d["regression_of"]=fid
d["note"]=f"shrunk failing case found with fix {commit} reverted in a scratch tree; must pass on the repaired tree"
m=d.get("message","")
d["message"]=m[:600]
json.dump(d,open(dst,"w"),indent=1)
PY
done
/verif/tools/mutant_run.sh --clean $name
