#!/bin/sh
# Measure which parts of /repo/src the quick tiers of all functional checks execute
# (source-based coverage, nightly -C instrument-coverage). Scratch under /tmp/cov, removed by the caller.
# usage: tools/coverage.sh [scale]   -> writes /verif/coverage/{summary.txt,uncovered_functions.txt}
set -e
scale=${1:-0.05}
T=/root/.rustup/toolchains/nightly-x86_64-unknown-linux-gnu/lib/rustlib/x86_64-unknown-linux-gnu/bin
rm -rf /tmp/cov; mkdir -p /tmp/cov/prof /verif/coverage
cd /verif/harness
export CARGO_TARGET_DIR=/tmp/cov/target RUSTFLAGS="-C instrument-coverage" CARGO_NET_OFFLINE=true
pk=""; for p in c02 c03 c04 c05 c06 c07 c08 c09 c10 c12 c13 c14 c15 c16 c17 c18 c19 c20 c11; do pk="$pk -p $p"; done
cargo +nightly build --offline --release $pk 2>&1 | tail -1
objs=""
for p in c02 c03 c04 c05 c06 c07 c08 c09 c10 c12 c13 c14 c15 c16 c17 c18 c19 c20 c11; do
  LLVM_PROFILE_FILE=/tmp/cov/prof/$p-%p.profraw VERIF_ROOT=/verif /tmp/cov/target/release/$p --scale $scale >/dev/null 2>&1 || true
  objs="$objs -object /tmp/cov/target/release/$p"
done
$T/llvm-profdata merge -sparse /tmp/cov/prof/*.profraw -o /tmp/cov/all.profdata
first=$(echo $objs | cut -d' ' -f2)
rest=$(echo $objs | cut -d' ' -f3-)
$T/llvm-cov report $first $rest -instr-profile=/tmp/cov/all.profdata --ignore-filename-regex='(registry|rustc|/verif/|library/)' > /verif/coverage/summary.txt 2>/dev/null
$T/llvm-cov report $first $rest -instr-profile=/tmp/cov/all.profdata --ignore-filename-regex='(registry|rustc|/verif/|library/)' --show-functions /repo/src 2>/dev/null | awk '$0 ~ /^File/ {f=$0} NF>=7 && $4=="0.00%" {print f" :: "$1}' > /verif/coverage/uncovered_raw.txt || true
tail -3 /verif/coverage/summary.txt
