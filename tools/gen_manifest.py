#!/usr/bin/env python3
"""Regenerate /verif/MANIFEST.json from tools/manifest_data.json (claimed checks) and properties.jsonl."""
import json, os
ROOT = os.path.dirname(os.path.dirname(os.path.abspath(__file__)))
data = json.load(open(os.path.join(ROOT, "tools", "manifest_data.json")))
props = [json.loads(l) for l in open(os.path.join(ROOT, "properties.jsonl"))]
checks, na = [], []
for p in props:
    pid = p["id"]
    d = data["checks"].get(pid)
    if d is None:
        na.append({"property_id": pid, "reason": data["not_applicable"].get(pid, "check not built yet in this session (planned in DESIGN.md §3); nothing is claimed")})
        continue
    checks.append({
        "property_id": pid,
        "quick_cmd": f"bin/check {pid} quick",
        "thorough_cmd": f"bin/check {pid} thorough",
        "evidence_file": f"/verif/evidence/{pid}.json",
        "replay_cmd_template": f"bin/check {pid} --replay {{path}}",
        "engine": d.get("engine", "vmodel"),
        "level_claimed": {"category": "exploration", "text": d["level_text"], "design_ref": f"DESIGN.md §3 {pid}"},
        "level_note": d["level_note"],
        "technique": d["technique"],
    })
m = {
    "version": 1,
    "setup_cmd": data["setup_cmd"],
    "hooks": data["hooks"],
    "engines": data["engines"],
    "checks": checks,
    "not_applicable": na,
    "notes": data["notes"],
}
json.dump(m, open(os.path.join(ROOT, "MANIFEST.json"), "w"), indent=1)
print("checks:", [c["property_id"] for c in checks], "n/a:", [x["property_id"] for x in na])
