//! C01 driver (NOT instrumented): SanitizerCoverage callbacks, per-thread bump arena, trace
//! hashing / logging, divergence localisation, and the trace-differential property check run by the
//! vmodel engine.

use ctwrap::{Arg, Inputs, Op, Ref};
use std::alloc::{GlobalAlloc, Layout, System};
use std::cell::{Cell, RefCell};
use std::collections::HashMap;
use std::sync::atomic::{AtomicUsize, Ordering};
use std::sync::{Arc, Mutex, OnceLock};
use vmodel::gen;
mod amm;
use vmodel::*;

// ------------------------------------------------------------------------------------------------
// per-thread bump arena: equal allocation sequences give equal addresses

const ARENA_SIZE: usize = 256 << 20;

struct ArenaAlloc;

thread_local! {
    static ARENA_BASE: Cell<usize> = const { Cell::new(0) };
    static ARENA_OFF: Cell<usize> = const { Cell::new(0) };
    static ARENA_ON: Cell<bool> = const { Cell::new(false) };
}

unsafe impl GlobalAlloc for ArenaAlloc {
    unsafe fn alloc(&self, layout: Layout) -> *mut u8 {
        let on = ARENA_ON.try_with(|a| a.get()).unwrap_or(false);
        if on {
            let base = ARENA_BASE.with(|b| b.get());
            let off = ARENA_OFF.with(|o| o.get());
            let start = (base + off + layout.align() - 1) & !(layout.align() - 1);
            let end = start + layout.size();
            if end <= base + ARENA_SIZE {
                ARENA_OFF.with(|o| o.set(end - base));
                return start as *mut u8;
            }
            // arena exhausted: fall back (the trace will then not be reproducible and the
            // self-test reports it as inconclusive)
        }
        System.alloc(layout)
    }
    unsafe fn dealloc(&self, ptr: *mut u8, layout: Layout) {
        // a block may be released by another thread than the one whose arena it came from (a panic
        // message handed to the reporting thread): look at every arena
        let p = ptr as usize;
        for slot in ARENAS.iter() {
            let base = slot.load(Ordering::Relaxed);
            if base == 0 {
                break;
            }
            if p >= base && p < base + ARENA_SIZE {
                return;
            }
        }
        System.dealloc(ptr, layout)
    }
    unsafe fn realloc(&self, ptr: *mut u8, layout: Layout, new_size: usize) -> *mut u8 {
        // never hand an arena block to the system realloc
        let new_layout = Layout::from_size_align_unchecked(new_size, layout.align());
        let new_ptr = self.alloc(new_layout);
        if !new_ptr.is_null() {
            std::ptr::copy_nonoverlapping(ptr, new_ptr, layout.size().min(new_size));
            self.dealloc(ptr, layout);
        }
        new_ptr
    }
}

const MAX_ARENAS: usize = 256;
static ARENAS: [AtomicUsize; MAX_ARENAS] = [const { AtomicUsize::new(0) }; MAX_ARENAS];

#[global_allocator]
static GLOBAL: ArenaAlloc = ArenaAlloc;

fn arena_begin() {
    if ARENA_BASE.with(|b| b.get()) == 0 {
        let p = unsafe { System.alloc(Layout::from_size_align(ARENA_SIZE, 4096).unwrap()) };
        assert!(!p.is_null());
        ARENA_BASE.with(|b| b.set(p as usize));
        let mut registered = false;
        for slot in ARENAS.iter() {
            if slot.compare_exchange(0, p as usize, Ordering::SeqCst, Ordering::SeqCst).is_ok() {
                registered = true;
                break;
            }
        }
        assert!(registered, "more than {MAX_ARENAS} tracing threads");
    }
    ARENA_OFF.with(|o| o.set(0));
    ARENA_ON.with(|a| a.set(true));
}
fn arena_end() {
    ARENA_ON.with(|a| a.set(false));
}

// ------------------------------------------------------------------------------------------------
// trace state + sancov callbacks

const K_EDGE: u8 = 1;
const K_LOAD: u8 = 2;
const K_STORE: u8 = 3;
const K_DIV: u8 = 4;
const K_GEP: u8 = 5;
const KIND_NAMES: [&str; 6] = ["?", "edge", "load", "store", "div", "gep"];

#[derive(Clone, Copy, PartialEq, Eq, Debug, Default)]
struct Summary {
    h1: u64,
    h2: u64,
    n: u64,
}

thread_local! {
    static T_ON: Cell<bool> = const { Cell::new(false) };
    static T_H1: Cell<u64> = const { Cell::new(0) };
    static T_H2: Cell<u64> = const { Cell::new(0) };
    static T_N: Cell<u64> = const { Cell::new(0) };
    static T_LAST_GUARD: Cell<u32> = const { Cell::new(0) };
    static T_LOG: RefCell<Option<Vec<(u8, u64, u32)>>> = const { RefCell::new(None) };
}

const LOG_CAP: usize = 4_000_000;

#[inline(always)]
fn event(kind: u8, v: u64) {
    if !T_ON.with(|t| t.get()) {
        return;
    }
    let x = v ^ ((kind as u64) << 56);
    T_H1.with(|h| h.set((h.get() ^ x).wrapping_mul(0x0000_0100_0000_01B3)));
    T_H2.with(|h| h.set((h.get().rotate_left(23) ^ x).wrapping_mul(0x9E37_79B9_7F4A_7C15)));
    T_N.with(|n| n.set(n.get() + 1));
    if kind == K_EDGE {
        T_LAST_GUARD.with(|g| g.set(v as u32));
    }
    T_LOG.with(|l| {
        if let Ok(mut l) = l.try_borrow_mut() {
            if let Some(vv) = l.as_mut() {
                if vv.len() < LOG_CAP {
                    // logging allocates: must not go through the arena
                    let was = ARENA_ON.with(|a| a.replace(false));
                    vv.push((kind, v, T_LAST_GUARD.with(|g| g.get())));
                    ARENA_ON.with(|a| a.set(was));
                }
            }
        }
    });
}

static N_GUARDS: AtomicUsize = AtomicUsize::new(0);
static GUARD_START: AtomicUsize = AtomicUsize::new(0);
static PCS_START: AtomicUsize = AtomicUsize::new(0);

#[no_mangle]
pub unsafe extern "C" fn __sanitizer_cov_trace_pc_guard_init(start: *mut u32, stop: *mut u32) {
    if start == stop || *start != 0 {
        return;
    }
    GUARD_START.store(start as usize, Ordering::SeqCst);
    let mut p = start;
    let mut i = 1u32;
    while p < stop {
        *p = i;
        i += 1;
        p = p.add(1);
    }
    N_GUARDS.store((i - 1) as usize, Ordering::SeqCst);
}
#[no_mangle]
pub unsafe extern "C" fn __sanitizer_cov_pcs_init(beg: *const usize, _end: *const usize) {
    if PCS_START.load(Ordering::SeqCst) == 0 {
        PCS_START.store(beg as usize, Ordering::SeqCst);
    }
}
#[no_mangle]
pub unsafe extern "C" fn __sanitizer_cov_trace_pc_guard(g: *mut u32) {
    event(K_EDGE, *g as u64);
}
macro_rules! mem_cb {
    ($($name:ident, $kind:expr, $sz:expr);*) => { $(
        #[no_mangle]
        pub unsafe extern "C" fn $name(addr: *const u8) { event($kind, (addr as u64) ^ (($sz as u64) << 48)); }
    )* };
}
mem_cb!(__sanitizer_cov_load1, K_LOAD, 1; __sanitizer_cov_load2, K_LOAD, 2; __sanitizer_cov_load4, K_LOAD, 4; __sanitizer_cov_load8, K_LOAD, 8; __sanitizer_cov_load16, K_LOAD, 16;
        __sanitizer_cov_store1, K_STORE, 1; __sanitizer_cov_store2, K_STORE, 2; __sanitizer_cov_store4, K_STORE, 4; __sanitizer_cov_store8, K_STORE, 8; __sanitizer_cov_store16, K_STORE, 16);
#[no_mangle]
pub unsafe extern "C" fn __sanitizer_cov_trace_div4(v: u32) {
    event(K_DIV, v as u64);
}
#[no_mangle]
pub unsafe extern "C" fn __sanitizer_cov_trace_div8(v: u64) {
    event(K_DIV, v);
}
#[no_mangle]
pub unsafe extern "C" fn __sanitizer_cov_trace_gep(v: usize) {
    event(K_GEP, v as u64);
}

#[inline(never)]
fn trace(run: fn(&Inputs), inp: &Inputs, log: bool) -> (Summary, Option<Vec<(u8, u64, u32)>>) {
    if log {
        T_LOG.with(|l| *l.borrow_mut() = Some(Vec::with_capacity(1 << 16)));
    }
    T_H1.with(|h| h.set(0xcbf2_9ce4_8422_2325));
    T_H2.with(|h| h.set(0x1234_5678_9abc_def1));
    T_N.with(|n| n.set(0));
    T_LAST_GUARD.with(|g| g.set(0));
    // tracing and the arena are switched off by a drop guard, so that a panic inside the operation
    // (reported by the engine as an unguarded panic) leaves this thread in a usable state
    struct Off;
    impl Drop for Off {
        fn drop(&mut self) {
            T_ON.with(|t| t.set(false));
            arena_end();
        }
    }
    arena_begin();
    T_ON.with(|t| t.set(true));
    {
        let _off = Off;
        run(std::hint::black_box(inp));
    }
    let s = Summary { h1: T_H1.with(|h| h.get()), h2: T_H2.with(|h| h.get()), n: T_N.with(|n| n.get()) };
    let l = if log { T_LOG.with(|l| l.borrow_mut().take()) } else { None };
    (s, l)
}

// ------------------------------------------------------------------------------------------------
// symbolisation of a guard id -> function chain (llvm-symbolizer on our own executable)

fn load_base() -> usize {
    static BASE: OnceLock<usize> = OnceLock::new();
    *BASE.get_or_init(|| {
        let exe = std::env::current_exe().ok().and_then(|p| p.canonicalize().ok()).map(|p| p.to_string_lossy().to_string()).unwrap_or_default();
        let maps = std::fs::read_to_string("/proc/self/maps").unwrap_or_default();
        for line in maps.lines() {
            if line.ends_with(&exe) {
                let mut it = line.split_whitespace();
                let range = it.next().unwrap_or("");
                let _perms = it.next();
                let off = it.next().unwrap_or("1");
                if off.trim_start_matches('0').is_empty() {
                    if let Some(start) = range.split('-').next() {
                        return usize::from_str_radix(start, 16).unwrap_or(0);
                    }
                }
            }
        }
        0
    })
}

fn guard_pc(guard: u32) -> usize {
    let pcs = PCS_START.load(Ordering::SeqCst) as *const usize;
    if pcs.is_null() || guard == 0 || guard as usize > N_GUARDS.load(Ordering::SeqCst) {
        return 0;
    }
    unsafe { *pcs.add(2 * (guard as usize - 1)) }
}

/// innermost-first chain of function names for the basic block of `guard`
fn symbolize(guard: u32) -> Vec<String> {
    static CACHE: OnceLock<Mutex<HashMap<u32, Vec<String>>>> = OnceLock::new();
    let cache = CACHE.get_or_init(|| Mutex::new(HashMap::new()));
    if let Some(v) = cache.lock().unwrap().get(&guard) {
        return v.clone();
    }
    let pc = guard_pc(guard);
    let mut out = vec![];
    if pc != 0 {
        let exe = std::env::current_exe().unwrap();
        let addr = pc - load_base();
        if let Ok(o) = std::process::Command::new("llvm-symbolizer")
            .arg(format!("--obj={}", exe.display()))
            .arg("--inlines")
            .arg("--demangle")
            .arg("--output-style=LLVM")
            .arg(format!("{:#x}", addr))
            .output()
        {
            let text = String::from_utf8_lossy(&o.stdout);
            let lines: Vec<&str> = text.lines().collect();
            let mut i = 0;
            while i + 1 < lines.len() {
                if lines[i].trim().is_empty() {
                    i += 1;
                    continue;
                }
                let f = lines[i].trim();
                let loc = lines[i + 1].trim();
                let short = loc.rsplit('/').take(3).collect::<Vec<_>>().into_iter().rev().collect::<Vec<_>>().join("/");
                out.push(format!("{f} [{short}]"));
                i += 2;
            }
        }
    }
    if out.is_empty() {
        out.push(format!("<guard {guard}, pc {:#x}: not symbolised>", pc));
    }
    cache.lock().unwrap().insert(guard, out.clone());
    out
}

// ------------------------------------------------------------------------------------------------
// operand generation

fn resolve<'a>(r: Ref, s: &'a [Vec<u64>], p: &'a [Vec<u64>]) -> &'a [u64] {
    match r {
        Ref::S(i) => &s[i],
        Ref::P(i) => &p[i],
    }
}

fn gen_arg(t: &mut Tape, a: &Arg, s: &[Vec<u64>], p: &[Vec<u64>]) -> Vec<u64> {
    match *a {
        Arg::Any(n) | Arg::Signed(n) => gen::limbs(t, n),
        Arg::NonZero(n) | Arg::SignedNonZero(n) => gen::nonzero(t, n),
        Arg::Odd(n) => gen::odd(t, n),
        Arg::OddGe3(n) => {
            let (mut v, _) = gen::odd_modulus(t, n);
            if bit_len(&v) <= 1 {
                v[0] = 3;
            }
            v
        }
        Arg::Below(n, r) => {
            let m = big(resolve(r, s, p));
            limbs_exact(&gen::residue(t, &m), n)
        }
        Arg::TwoPowMinus(n, r) => {
            let c = big(resolve(r, s, p));
            limbs_exact(&(pow2(64 * n as u64) - c), n)
        }
        Arg::Word => vec![gen::word(t)],
        Arg::WordNonZero => vec![gen::word(t).max(1)],
        Arg::UpTo(max) => vec![t.edgy(max)],
        Arg::Bit => vec![t.bool() as u64],
        Arg::OddBand(n) => {
            let mut v = t.expand(n);
            v[n - 1] = t.range(0x6B85_1EB8_51EB_851F, 0x7EB8_51EB_851E_B851);
            v[0] |= 1;
            v
        }
        Arg::ExpDoubleReduction { base, modulus } => {
            if t.bool() {
                let ml = resolve(modulus, s, p);
                let m = big(ml);
                let x = big(resolve(base, s, p)) % &m;
                let x_mont = (x << (64 * ml.len())) % &m;
                let (off1, off2) = (t.below(15), t.below(16));
                vec![amm::Amm::new(&m, ml.len()).search_double_reduction(&x_mont, off1, off2).0]
            } else {
                vec![t.below(4096)]
            }
        }
    }
}

/// Bring a value derived by a relation back into the operand's domain.
fn fix_arg(a: &Arg, mut v: Vec<u64>, s: &[Vec<u64>], p: &[Vec<u64>]) -> Vec<u64> {
    match *a {
        Arg::Any(_) | Arg::Signed(_) | Arg::Word => v,
        Arg::NonZero(_) | Arg::SignedNonZero(_) | Arg::WordNonZero => {
            if is_zero(&v) {
                v[0] = 1;
            }
            v
        }
        Arg::Odd(_) => {
            v[0] |= 1;
            v
        }
        Arg::OddGe3(_) => {
            v[0] |= 1;
            if bit_len(&v) <= 1 {
                v[0] = 3;
            }
            v
        }
        Arg::Below(n, r) => {
            let m = big(resolve(r, s, p));
            limbs_exact(&(big(&v) % m), n)
        }
        Arg::TwoPowMinus(n, r) => {
            let c = big(resolve(r, s, p));
            limbs_exact(&(pow2(64 * n as u64) - c), n)
        }
        Arg::UpTo(max) => {
            v[0] = v[0].min(max);
            v
        }
        Arg::OddBand(n) => {
            v[0] |= 1;
            v[n - 1] = v[n - 1].clamp(0x6B85_1EB8_51EB_851F, 0x7EB8_51EB_851E_B851);
            v
        }
        Arg::ExpDoubleReduction { .. } => {
            v[0] &= 4095;
            v
        }
        Arg::Bit => {
            v[0] &= 1;
            v
        }
    }
}

/// classic leak predicates of one secret tuple: bit length, zero-ness, parity per operand and
/// equality between operands
fn class_of(s: &[Vec<u64>]) -> Vec<u64> {
    let mut c = vec![];
    for v in s {
        c.push(bit_len(v));
        c.push(v[0] & 1);
    }
    for i in 0..s.len() {
        for j in i + 1..s.len() {
            c.push((s[i] == s[j]) as u64);
        }
    }
    c
}

// ------------------------------------------------------------------------------------------------
// the property: trace(op, pub, s1) == trace(op, pub, s2)

/// Known-finding signature for a divergence located in `chain` (innermost first) of operation `op`.
fn signature(op: &Op, chain: &[String]) -> Option<&'static str> {
    let joined = chain.join(" <- ");
    if joined.contains("safegcd") || (op.family == "safegcd" && (joined.contains("gcd") || joined.contains("inv"))) {
        return Some("F-01b");
    }
    if joined.contains("shl_limb") || joined.contains("rem_limb_with_reciprocal") {
        return Some("F-01a");
    }
    None
}

fn ct_case(op: Arc<Op>) -> impl Fn(&mut Tape, &mut Case) -> CaseResult {
    move |t, c| {
        let mut publics: Vec<Vec<u64>> = vec![];
        for a in &op.public {
            let v = gen_arg(t, a, &[], &publics);
            publics.push(v);
        }
        let mut s1: Vec<Vec<u64>> = vec![];
        for a in &op.secret {
            let v = gen_arg(t, a, &s1, &publics);
            s1.push(v);
        }
        // second secret tuple: independent, or operand-wise related to the first
        let mut s2: Vec<Vec<u64>> = vec![];
        let independent = t.bool();
        for (k, a) in op.secret.iter().enumerate() {
            let v = if independent || t.chance(1, 3) {
                gen_arg(t, a, &s2, &publics)
            } else {
                let base = match t.below(3) {
                    0 if k > 0 && s2[k - 1].len() == s1[k].len() => s2[k - 1].clone(), // equal to its partner
                    _ => s1[k].clone(),
                };
                let r = if base.len() > 1 || !matches!(a, Arg::UpTo(_) | Arg::Bit) { gen::related(t, &base) } else { base };
                fix_arg(a, r, &s2, &publics)
            };
            s2.push(v);
        }
        for (k, v) in publics.iter().enumerate() {
            c.limbs(if k == 0 { "public0" } else { "public" }, v);
        }
        for v in &s1 {
            c.limbs("secret1", v);
        }
        for v in &s2 {
            c.limbs("secret2", v);
        }
        let (c1, c2) = (class_of(&s1), class_of(&s2));
        c.nontrivial(c1 != c2);
        if s1 == s2 {
            c.label("identical secrets");
        }

        let mut inp = Inputs { s: s1.clone(), p: publics.clone() };
        // warm-up (one-time initialisation), then reference trace twice (determinism self-test)
        (op.run)(&inp);
        let (t1, _) = trace(op.run, &inp, false);
        let (t1b, _) = trace(op.run, &inp, false);
        if t1 != t1b {
            // not a verdict: the observation itself is not reproducible
            eprintln!("INCONCLUSIVE: trace of {} is not reproducible for identical inputs ({:?} vs {:?})", op.name, t1, t1b);
            std::process::exit(2);
        }
        for (k, v) in s2.iter().enumerate() {
            inp.s[k].copy_from_slice(v);
        }
        let (t2, _) = trace(op.run, &inp, false);
        c.note("events", || t1.n.to_string());
        if t1 == t2 {
            return Ok(());
        }
        // locate the first divergence
        for (k, v) in s1.iter().enumerate() {
            inp.s[k].copy_from_slice(v);
        }
        let (_, l1) = trace(op.run, &inp, true);
        for (k, v) in s2.iter().enumerate() {
            inp.s[k].copy_from_slice(v);
        }
        let (_, l2) = trace(op.run, &inp, true);
        let (l1, l2) = (l1.unwrap_or_default(), l2.unwrap_or_default());
        let mut idx = 0;
        while idx < l1.len() && idx < l2.len() && l1[idx].0 == l2[idx].0 && l1[idx].1 == l2[idx].1 {
            idx += 1;
        }
        let describe = |l: &Vec<(u8, u64, u32)>| -> String {
            match l.get(idx) {
                Some(e) => format!("{} {:#x}", KIND_NAMES[e.0 as usize], e.1),
                None => "<end of trace>".to_string(),
            }
        };
        // block in which the traces were last together
        let g = if idx > 0 { l1[idx - 1].2 } else { 0 };
        let g_here = l1.get(idx).map(|e| e.2).unwrap_or(g);
        let chain = symbolize(if g != 0 { g } else { g_here });
        let kind = l1.get(idx).map(|e| KIND_NAMES[e.0 as usize]).unwrap_or("length");
        let msg = format!(
            "leakage traces differ for {}: events {} vs {}; first divergence at event #{idx} ({} vs {}), kind={kind}, after block in: {}",
            op.name,
            t1.n,
            t2.n,
            describe(&l1),
            describe(&l2),
            chain.iter().take(6).cloned().collect::<Vec<_>>().join(" <- ")
        );
        match signature(&op, &chain) {
            Some(sig) => Err(Fail::known(sig, msg)),
            None => Err(Fail::new(msg)),
        }
    }
}

fn cases_for(op: &Op) -> u64 {
    let limbs: usize = op.secret.iter().map(|a| a.limbs()).max().unwrap_or(1);
    let base: u64 = match op.family {
        "limb" => 4000,
        "monty-pow" => 40,
        "safegcd" => 24,
        "monty-params" => 250,
        "uint-sqrt" | "boxed-sqrt" | "uint-div" | "boxed-div" | "int-div" => 500,
        "uint-inv2k" | "boxed-inv2k" => 150,
        _ => 1000,
    };
    let scale = if limbs >= 32 { 8 } else if limbs >= 8 { 3 } else { 1 };
    (base / scale).max(3)
}

fn subchecks(ctx: &Ctx) -> Vec<SubCheck> {
    let ops = ctwrap::ops(ctx.thorough());
    ops.into_iter()
        .map(|op| {
            let name = op.name.clone();
            let cases = cases_for(&op);
            let words: usize = op.secret.iter().chain(op.public.iter()).map(|a| a.limbs()).sum();
            SubCheck::new(name, cases, ct_case(Arc::new(op))).tape(48 + 6 * words.min(64)).thorough(12).shrink(300).timeout(300)
        })
        .collect()
}

fn main() {
    vmodel::cli_main(PropSpec {
        id: "C01",
        rule: "case = (operation, public operands fixed as property C01 lists them, two secret operand tuples); the leakage trace (every CFG edge, load/store address, non-constant GEP index and hardware-division operand of the optimised IR of crypto_bigint + subtle + wrappers, via SanitizerCoverage callbacks) of the two runs must be identical; each reference trace is taken twice and must reproduce itself. Secrets come from the edge shapes (0, 1, MAX, 2^k±1, patterned limbs, bit lengths at limb multiples), and the second tuple is independent or related to the first (equal, ±1, complement, equal to its partner operand). non-trivial: the two secret tuples differ in a classic leak predicate (bit length, zero-ness, parity of an operand, or equality between operands); distinct by (operation, publics, both tuples).",
        assumptions: vec![
            "observation point is the optimised LLVM IR (SanitizerCoverage runs after the optimisation pipeline): branch conversion in the x86 back end, instruction latency and the dividend of hardware division are below it".into(),
            "non-generic std/core callees (memcpy, allocator internals) are opaque; heap addresses are made comparable by a per-thread bump arena reset before each run".into(),
            "only the registered operations and widths are covered (listed as sub-checks)".into(),
        ],
        subchecks,
    })
}
