//! Oracle-side model of the boxed almost-Montgomery exponentiation ladder (copy of
//! /verif/harness/props/c09/src/model.rs, kept here so that the C01 workspace stays self-contained).
//! Used only to *choose* exponents for the operation `boxed-monty/pow_bounded_exp(12 bits; ...)`:
//! never part of a verdict.

#![allow(dead_code)]
use num_bigint::BigUint;
use num_traits::One;
use vmodel::*;

pub struct Amm {
    m: BigUint,
    rbits: u64,
    rmask: BigUint,
    /// -1/m mod R
    k: BigUint,
    pub one: BigUint,
}

impl Amm {
    pub fn new(m: &BigUint, n: usize) -> Self {
        let rbits = 64 * n as u64;
        let rmask = mask(rbits);
        // Newton iteration for 1/m mod 2^rbits (m odd): inv <- inv * (2 - m*inv)
        let mut inv = BigUint::one();
        let r = pow2(rbits);
        let two = BigUint::from(2u32);
        let mut bits = 1;
        while bits < rbits {
            let t = (&r + &two - (m * &inv & &rmask)) & &rmask;
            inv = (inv * t) & &rmask;
            bits *= 2;
        }
        debug_assert!(((m * &inv) & &rmask).is_one());
        let k = (&r - &inv) & &rmask;
        Amm { m: m.clone(), rbits, rmask, k, one: &r % m }
    }

    pub fn mul(&self, a: &BigUint, b: &BigUint) -> BigUint {
        let ab = a * b;
        let t = ((&ab & &self.rmask) * &self.k) & &self.rmask;
        let mut z = (ab + t * &self.m) >> self.rbits;
        if z.bits() > self.rbits {
            z -= &self.m;
        }
        z
    }

    fn sq4(&self, z: &BigUint) -> BigUint {
        let mut z = self.mul(z, z);
        for _ in 0..3 {
            z = self.mul(&z, &z);
        }
        z
    }

    /// powers[i] = x^i as the boxed ladder builds them (x in Montgomery form, reduced)
    pub fn powers(&self, x: &BigUint) -> Vec<BigUint> {
        let mut p = vec![self.one.clone(), x.clone()];
        for i in 2..16 {
            let nx = self.mul(&p[i - 1], x);
            p.push(nx);
        }
        p
    }

    /// Search 12-bit exponents `i1 i2 best` (three 4-bit windows, `exponent_bits = 12`) for one on
    /// which the accumulator after the last multiplication is `>= 2m`. The last window selects the
    /// largest table entry; `i1`, `i2` are enumerated starting from tape-chosen offsets.
    /// Returns (exponent, found).
    pub fn search_double_reduction(&self, x: &BigUint, off1: u64, off2: u64) -> (u64, bool) {
        let p = self.powers(x);
        let best = (1..16).max_by_key(|&i| p[i].clone()).unwrap();
        let two_m = &self.m << 1u32;
        let mut fallback = (1u64 << 8) | best as u64;
        let mut fallback_val = BigUint::from(0u32);
        for a in 0..15u64 {
            let i1 = 1 + (a + off1) % 15;
            let z1 = self.sq4(&self.mul(&self.one, &p[i1 as usize]));
            for b in 0..16u64 {
                let i2 = (b + off2) % 16;
                let z2 = self.sq4(&self.mul(&z1, &p[i2 as usize]));
                let f = self.mul(&z2, &p[best]);
                let e = (i1 << 8) | (i2 << 4) | best as u64;
                if f >= two_m {
                    return (e, true);
                }
                if f > fallback_val {
                    fallback_val = f;
                    fallback = e;
                }
            }
        }
        (fallback, false)
    }
}
