//! C01: monomorphic wrappers around the non-vartime public API of crypto-bigint, instrumented with
//! SanitizerCoverage together with crypto_bigint and subtle (all generic code of the two crates is
//! instantiated here, so it has to be instrumented here).
//!
//! Each operation declares which operands are *secret* and which are *public* exactly as property
//! C01 lists them (widths, shift counts of `_vartime` helpers, exponent bit bounds, divisors of
//! `_vartime` divisions, the modulus behind runtime Montgomery parameters). The driver fixes the
//! public operands, draws pairs of secret operands and requires identical leakage traces.

#![allow(clippy::needless_range_loop)]

use core::hint::black_box;
use crypto_bigint::modular::{BoxedMontyForm, BoxedMontyParams, ConstMontyForm, MontyForm, MontyParams};
use crypto_bigint::subtle::{ConditionallyNegatable, ConditionallySelectable, ConstantTimeEq, ConstantTimeGreater, ConstantTimeLess};
use crypto_bigint::{BitOps, BoxedUint, Checked, CheckedAdd, CheckedMul, CheckedSub, ConstChoice, ConstantTimeSelect, Gcd, Int, Encoding, Integer, Limb, NonZero, Odd, Reciprocal, Uint, Wrapping, WrappingSub, Zero};

/// Reference to another operand (for dependent domains such as "residue below the modulus").
#[derive(Clone, Copy, Debug)]
pub enum Ref {
    S(usize),
    P(usize),
}

/// Domain of one operand.
#[derive(Clone, Copy, Debug)]
pub enum Arg {
    /// n limbs, any value
    Any(usize),
    /// n limbs, non-zero
    NonZero(usize),
    /// n limbs, odd
    Odd(usize),
    /// n limbs, odd and >= 3 (moduli for which every residue class exists)
    OddGe3(usize),
    /// n limbs, value strictly below the referenced operand (which must be non-zero)
    Below(usize, Ref),
    /// n limbs, two's complement, any value
    Signed(usize),
    /// n limbs, two's complement, non-zero
    SignedNonZero(usize),
    /// n limbs, the value 2^(64 n) - (referenced one-word operand)
    TwoPowMinus(usize, Ref),
    /// one word, any value
    Word,
    /// one word, non-zero
    WordNonZero,
    /// one word in 0..=max
    UpTo(u64),
    /// n limbs, odd, top limb in [0.42, 0.495) * 2^64: one leading zero bit, so that an almost-
    /// Montgomery ladder can leave its loop at or above 2m
    OddBand(usize),
    /// one word: a 12-bit exponent; half of the draws are searched (with an oracle-side model of the
    /// almost-Montgomery ladder) so that the accumulator of `BoxedMontyForm::pow_bounded_exp(.., 12)`
    /// for the referenced base (already reduced, ordinary representation) and modulus leaves the loop
    /// at or above 2m, i.e. the second final subtraction is needed
    ExpDoubleReduction { base: Ref, modulus: Ref },
    /// 0 or 1
    Bit,
}

impl Arg {
    pub fn limbs(&self) -> usize {
        match self {
            Arg::Any(n) | Arg::NonZero(n) | Arg::Odd(n) | Arg::OddGe3(n) | Arg::OddBand(n) | Arg::Below(n, _) | Arg::Signed(n) | Arg::SignedNonZero(n) | Arg::TwoPowMinus(n, _) => *n,
            _ => 1,
        }
    }
}

/// Operand slots (allocated once per operation by the driver; contents overwritten in place).
pub struct Inputs {
    pub s: Vec<Vec<u64>>,
    pub p: Vec<Vec<u64>>,
}

pub struct Op {
    pub name: String,
    pub secret: Vec<Arg>,
    pub public: Vec<Arg>,
    pub run: fn(&Inputs),
    /// family tag used to group findings (e.g. "safegcd")
    pub family: &'static str,
}

#[inline(always)]
fn sink<T>(t: T) {
    black_box(t);
}

#[inline(always)]
fn u<const N: usize>(v: &[u64]) -> Uint<N> {
    let mut w = [0u64; N];
    w.copy_from_slice(&v[..N]);
    Uint::from_words(w)
}
#[inline(always)]
fn si<const N: usize>(v: &[u64]) -> Int<N> {
    let mut w = [0u64; N];
    w.copy_from_slice(&v[..N]);
    Int::from_words(w)
}
#[inline(always)]
fn bx(v: &[u64]) -> BoxedUint {
    BoxedUint::from_words(v.iter().copied())
}
#[inline(always)]
fn choice(w: u64) -> ConstChoice {
    ConstChoice::from(sub_choice(w))
}
#[inline(always)]
fn sub_choice(w: u64) -> crypto_bigint::subtle::Choice {
    crypto_bigint::subtle::Choice::from((w & 1) as u8)
}

macro_rules! op {
    ($v:ident, $fam:expr, $name:expr, [$($s:expr),*], [$($p:expr),*], $f:expr) => {
        $v.push(Op { name: $name, secret: vec![$($s),*], public: vec![$($p),*], run: $f, family: $fam })
    };
}

// ------------------------------------------------------------------------------------------------
// Limb

fn limb_ops(v: &mut Vec<Op>) {
    #[inline(never)]
    fn adc(i: &Inputs) {
        sink(Limb(i.s[0][0]).adc(Limb(i.s[1][0]), Limb(i.s[2][0])));
    }
    #[inline(never)]
    fn sbb(i: &Inputs) {
        sink(Limb(i.s[0][0]).sbb(Limb(i.s[1][0]), Limb(i.s[2][0])));
    }
    #[inline(never)]
    fn mac(i: &Inputs) {
        sink(Limb(i.s[0][0]).mac(Limb(i.s[1][0]), Limb(i.s[2][0]), Limb(i.s[3][0])));
    }
    #[inline(never)]
    fn cmp(i: &Inputs) {
        let (a, b) = (Limb(i.s[0][0]), Limb(i.s[1][0]));
        sink((a.ct_eq(&b), a.ct_lt(&b), a.ct_gt(&b), Ord::cmp(&a, &b), a.is_zero()));
    }
    #[inline(never)]
    fn select(i: &Inputs) {
        let (a, b) = (Limb(i.s[0][0]), Limb(i.s[1][0]));
        sink(Limb::conditional_select(&a, &b, sub_choice(i.s[2][0])));
    }
    #[inline(never)]
    fn wrapping(i: &Inputs) {
        let (a, b) = (Limb(i.s[0][0]), Limb(i.s[1][0]));
        sink((a.wrapping_add(b), a.wrapping_sub(b), a.wrapping_mul(b), a.wrapping_neg()));
    }
    #[inline(never)]
    fn saturating_addsub(i: &Inputs) {
        let (a, b) = (Limb(i.s[0][0]), Limb(i.s[1][0]));
        sink((a.saturating_add(b), a.saturating_sub(b)));
    }
    #[inline(never)]
    fn saturating_mul(i: &Inputs) {
        let (a, b) = (Limb(i.s[0][0]), Limb(i.s[1][0]));
        sink(a.saturating_mul(b));
    }
    #[inline(never)]
    fn checked(i: &Inputs) {
        let (a, b) = (Limb(i.s[0][0]), Limb(i.s[1][0]));
        sink((a.checked_add(&b), a.checked_sub(&b), a.checked_mul(&b)));
    }
    #[inline(never)]
    fn bits(i: &Inputs) {
        let a = Limb(i.s[0][0]);
        sink((a.bits(), a.leading_zeros(), a.trailing_zeros(), a.trailing_ones()));
    }
    op!(v, "limb", "limb/adc".into(), [Arg::Word, Arg::Word, Arg::Word], [], adc);
    op!(v, "limb", "limb/sbb".into(), [Arg::Word, Arg::Word, Arg::Word], [], sbb);
    op!(v, "limb", "limb/mac".into(), [Arg::Word, Arg::Word, Arg::Word, Arg::Word], [], mac);
    op!(v, "limb", "limb/cmp".into(), [Arg::Word, Arg::Word], [], cmp);
    op!(v, "limb", "limb/select".into(), [Arg::Word, Arg::Word, Arg::Bit], [], select);
    op!(v, "limb", "limb/wrapping_add+sub+mul+neg".into(), [Arg::Word, Arg::Word], [], wrapping);
    op!(v, "limb", "limb/saturating_add+sub".into(), [Arg::Word, Arg::Word], [], saturating_addsub);
    op!(v, "limb", "limb/saturating_mul".into(), [Arg::Word, Arg::Word], [], saturating_mul);
    op!(v, "limb", "limb/checked_add+sub+mul".into(), [Arg::Word, Arg::Word], [], checked);
    op!(v, "limb", "limb/bits".into(), [Arg::Word], [], bits);
}

// ------------------------------------------------------------------------------------------------
// Uint<N>

fn uint_ops<const N: usize>(v: &mut Vec<Op>) {
    let b = 64 * N as u64;
    let nm = |s: &str| format!("uint/{s}/U{}", 64 * N);

    #[inline(never)]
    fn addsub<const N: usize>(i: &Inputs) {
        let (a, b) = (u::<N>(&i.s[0]), u::<N>(&i.s[1]));
        let c = Limb(i.s[2][0] & 1);
        sink((a.adc(&b, c), a.sbb(&b, Limb(0u64.wrapping_sub(c.0)))));
        sink((a.wrapping_add(&b), a.wrapping_sub(&b), a.saturating_add(&b), a.saturating_sub(&b)));
        sink((a.checked_add(&b), a.checked_sub(&b)));
        sink((a.wrapping_neg(), a.carrying_neg(), a.wrapping_neg_if(choice(i.s[2][0]))));
    }
    op!(v, "uint-addsub", nm("add+sub+neg"), [Arg::Any(N), Arg::Any(N), Arg::Bit], [], addsub::<N>);

    #[inline(never)]
    fn mul<const N: usize>(i: &Inputs) {
        let (a, b) = (u::<N>(&i.s[0]), u::<N>(&i.s[1]));
        sink((a.split_mul(&b), a.wrapping_mul(&b), a.saturating_mul(&b), CheckedMul::checked_mul(&a, &b)));
        sink((a.square_wide(), a.checked_square(), a.saturating_square()));
    }
    op!(v, "uint-mul", nm("mul+square"), [Arg::Any(N), Arg::Any(N)], [], mul::<N>);

    #[inline(never)]
    fn cmp<const N: usize>(i: &Inputs) {
        let (a, b) = (u::<N>(&i.s[0]), u::<N>(&i.s[1]));
        sink((a.ct_eq(&b), a.ct_lt(&b), a.ct_gt(&b), Ord::cmp(&a, &b), a == b, a.is_zero(), a.is_odd()));
    }
    op!(v, "uint-cmp", nm("cmp"), [Arg::Any(N), Arg::Any(N)], [], cmp::<N>);

    #[inline(never)]
    fn select<const N: usize>(i: &Inputs) {
        let (mut a, mut b) = (u::<N>(&i.s[0]), u::<N>(&i.s[1]));
        let c = sub_choice(i.s[2][0]);
        sink(Uint::conditional_select(&a, &b, c));
        Uint::conditional_swap(&mut a, &mut b, c);
        a.conditional_assign(&b, c);
        sink((a, b));
    }
    op!(v, "uint-select", nm("select+swap"), [Arg::Any(N), Arg::Any(N), Arg::Bit], [], select::<N>);

    #[inline(never)]
    fn bits<const N: usize>(i: &Inputs) {
        let a = u::<N>(&i.s[0]);
        sink((a.bits(), a.leading_zeros(), a.trailing_zeros(), a.trailing_ones()));
    }
    op!(v, "uint-bits", nm("bits+zeros"), [Arg::Any(N)], [], bits::<N>);

    #[inline(never)]
    fn bit<const N: usize>(i: &Inputs) {
        let a = u::<N>(&i.s[0]);
        sink(a.bit(i.s[1][0] as u32));
    }
    op!(v, "uint-bits", nm("bit(secret index)"), [Arg::Any(N), Arg::UpTo(b - 1)], [], bit::<N>);

    #[inline(never)]
    fn shift_ct<const N: usize>(i: &Inputs) {
        let a = u::<N>(&i.s[0]);
        let s = i.s[1][0] as u32;
        sink((a.overflowing_shl(s), a.overflowing_shr(s), a.wrapping_shl(s), a.wrapping_shr(s)));
    }
    op!(v, "uint-shift", nm("shl+shr(secret shift incl. >= BITS)"), [Arg::Any(N), Arg::UpTo(2 * b + 1)], [], shift_ct::<N>);

    #[inline(never)]
    fn shift_ct_in_range<const N: usize>(i: &Inputs) {
        let a = u::<N>(&i.s[0]);
        let s = i.s[1][0] as u32;
        sink((a.shl(s), a.shr(s), a << s, a >> s));
    }
    op!(v, "uint-shift", nm("shl+shr(secret shift < BITS)"), [Arg::Any(N), Arg::UpTo(b - 1)], [], shift_ct_in_range::<N>);

    #[inline(never)]
    fn shift_vt<const N: usize>(i: &Inputs) {
        let a = u::<N>(&i.s[0]);
        let s = i.p[0][0] as u32;
        sink((a.overflowing_shl_vartime(s), a.overflowing_shr_vartime(s), a.wrapping_shl_vartime(s), a.wrapping_shr_vartime(s)));
        let hi = u::<N>(&i.s[1]);
        sink((Uint::overflowing_shl_vartime_wide((a, hi), s), Uint::overflowing_shr_vartime_wide((a, hi), s)));
    }
    op!(v, "uint-shift", nm("sh*_vartime(public shift)"), [Arg::Any(N), Arg::Any(N)], [Arg::UpTo(2 * b + 1)], shift_vt::<N>);

    #[inline(never)]
    fn div_rem<const N: usize>(i: &Inputs) {
        let a = u::<N>(&i.s[0]);
        let d = NonZero::new(u::<N>(&i.s[1])).unwrap();
        sink(a.div_rem(&d));
    }
    op!(v, "uint-div", nm("div_rem(secret divisor)"), [Arg::Any(N), Arg::NonZero(N)], [], div_rem::<N>);

    #[inline(never)]
    fn rem<const N: usize>(i: &Inputs) {
        let a = u::<N>(&i.s[0]);
        let d = NonZero::new(u::<N>(&i.s[1])).unwrap();
        sink((a.rem(&d), a.wrapping_div(&d), a.checked_div(&d), a.checked_rem(&d)));
    }
    op!(v, "uint-div", nm("rem+wrapping_div+checked_div(secret divisor)"), [Arg::Any(N), Arg::NonZero(N)], [], rem::<N>);

    #[inline(never)]
    fn div_vt<const N: usize>(i: &Inputs) {
        let a = u::<N>(&i.s[0]);
        let hi = u::<N>(&i.s[1]);
        let d = NonZero::new(u::<N>(&i.p[0])).unwrap();
        sink((a.div_rem_vartime(&d), a.rem_vartime(&d), a.wrapping_div_vartime(&d)));
        sink(Uint::rem_wide_vartime((a, hi), &d));
    }
    op!(v, "uint-div", nm("div_rem_vartime+rem_wide_vartime(public divisor)"), [Arg::Any(N), Arg::Any(N)], [Arg::NonZero(N)], div_vt::<N>);

    #[inline(never)]
    fn div_limb<const N: usize>(i: &Inputs) {
        let a = u::<N>(&i.s[0]);
        let d = NonZero::new(Limb(i.s[1][0])).unwrap();
        sink((a.div_rem_limb(d), a.rem_limb(d)));
    }
    op!(v, "uint-div", nm("div_rem_limb(secret limb)"), [Arg::Any(N), Arg::WordNonZero], [], div_limb::<N>);

    #[inline(never)]
    fn div_limb_recip<const N: usize>(i: &Inputs) {
        // the reciprocal is precomputed outside of the secret-dependent part: the divisor is public
        let a = u::<N>(&i.s[0]);
        let r = Reciprocal::new(NonZero::new(Limb(i.p[0][0])).unwrap());
        sink((a.div_rem_limb_with_reciprocal(&r), a.rem_limb_with_reciprocal(&r)));
    }
    op!(v, "uint-div", nm("div_rem_limb_with_reciprocal(public limb)"), [Arg::Any(N)], [Arg::WordNonZero], div_limb_recip::<N>);

    #[inline(never)]
    fn modadd<const N: usize>(i: &Inputs) {
        let p = u::<N>(&i.s[0]);
        let (a, b) = (u::<N>(&i.s[1]), u::<N>(&i.s[2]));
        sink((a.add_mod(&b, &p), a.sub_mod(&b, &p), a.neg_mod(&p), a.double_mod(&p)));
    }
    op!(v, "uint-mod", nm("add_mod+sub_mod+neg_mod+double_mod(secret modulus)"), [Arg::NonZero(N), Arg::Below(N, Ref::S(0)), Arg::Below(N, Ref::S(0))], [], modadd::<N>);

    #[inline(never)]
    fn mod_special<const N: usize>(i: &Inputs) {
        // p = 2^BITS - c; operands are reduced by the driver (Below the public p)
        let c = Limb(i.p[0][0]);
        let (a, b) = (u::<N>(&i.s[0]), u::<N>(&i.s[1]));
        sink((a.add_mod_special(&b, c), a.sub_mod_special(&b, c), a.neg_mod_special(c), a.mul_mod_special(&b, c)));
    }
    op!(v, "uint-mod", nm("*_mod_special(public c)"), [Arg::Below(N, Ref::P(1)), Arg::Below(N, Ref::P(1))], [Arg::WordNonZero, Arg::TwoPowMinus(N, Ref::P(0))], mod_special::<N>);

    #[inline(never)]
    fn mulmod_vt<const N: usize>(i: &Inputs) {
        let p = NonZero::new(u::<N>(&i.p[0])).unwrap();
        let (a, b) = (u::<N>(&i.s[0]), u::<N>(&i.s[1]));
        sink(a.mul_mod_vartime(&b, &p));
    }
    op!(v, "uint-mod", nm("mul_mod_vartime(public modulus)"), [Arg::Below(N, Ref::P(0)), Arg::Below(N, Ref::P(0))], [Arg::NonZero(N)], mulmod_vt::<N>);

    #[inline(never)]
    fn inv2k<const N: usize>(i: &Inputs) {
        let a = u::<N>(&i.s[0]);
        sink(a.inv_mod2k(i.s[1][0] as u32));
    }
    op!(v, "uint-inv2k", nm("inv_mod2k(secret k)"), [Arg::Any(N), Arg::UpTo(b)], [], inv2k::<N>);

    #[inline(never)]
    fn inv2k_vt<const N: usize>(i: &Inputs) {
        let a = u::<N>(&i.s[0]);
        sink(a.inv_mod2k_vartime(i.p[0][0] as u32));
    }
    op!(v, "uint-inv2k", nm("inv_mod2k_vartime(public k)"), [Arg::Any(N)], [Arg::UpTo(b)], inv2k_vt::<N>);

    #[inline(never)]
    fn sqrt<const N: usize>(i: &Inputs) {
        let a = u::<N>(&i.s[0]);
        sink((a.sqrt(), a.checked_sqrt()));
    }
    op!(v, "uint-sqrt", nm("sqrt"), [Arg::Any(N)], [], sqrt::<N>);

    #[inline(never)]
    fn nz_odd<const N: usize>(i: &Inputs) {
        let a = u::<N>(&i.s[0]);
        sink((NonZero::new(a).is_some(), Odd::new(a).is_some(), a.to_nz().is_some(), a.to_odd().is_some()));
    }
    op!(v, "uint-wrappers", nm("NonZero::new+Odd::new"), [Arg::Any(N)], [], nz_odd::<N>);

    #[inline(never)]
    fn bitops<const N: usize>(i: &Inputs) {
        let (a, b) = (u::<N>(&i.s[0]), u::<N>(&i.s[1]));
        sink((a & b, a | b, a ^ b, !a, a.bitand_limb(Limb(i.s[1][0]))));
    }
    op!(v, "uint-bits", nm("bitops"), [Arg::Any(N), Arg::Any(N)], [], bitops::<N>);

    #[inline(never)]
    fn monty_new_retrieve<const N: usize>(i: &Inputs) {
        let params = MontyParams::<N>::new_vartime(Odd::new(u::<N>(&i.p[0])).unwrap());
        let a = MontyForm::new(&u::<N>(&i.s[0]), params);
        sink((a.retrieve(), a.to_montgomery()));
    }
    op!(v, "monty-arith", format!("monty/new+retrieve/U{}", 64 * N), [Arg::Any(N)], [Arg::OddGe3(N)], monty_new_retrieve::<N>);

    #[inline(never)]
    fn monty_addsub<const N: usize>(i: &Inputs) {
        let params = MontyParams::<N>::new_vartime(Odd::new(u::<N>(&i.p[0])).unwrap());
        let a = MontyForm::from_montgomery(u::<N>(&i.s[0]), params);
        let b = MontyForm::from_montgomery(u::<N>(&i.s[1]), params);
        sink((a.add(&b), a.sub(&b), a.neg(), a.double(), a + b, a - b, -a));
    }
    op!(v, "monty-arith", format!("monty/add+sub+neg+double/U{}", 64 * N), [Arg::Below(N, Ref::P(0)), Arg::Below(N, Ref::P(0))], [Arg::OddGe3(N)], monty_addsub::<N>);

    #[inline(never)]
    fn monty_mul<const N: usize>(i: &Inputs) {
        let params = MontyParams::<N>::new_vartime(Odd::new(u::<N>(&i.p[0])).unwrap());
        let a = MontyForm::from_montgomery(u::<N>(&i.s[0]), params);
        let b = MontyForm::from_montgomery(u::<N>(&i.s[1]), params);
        sink((a.mul(&b), a.square(), a * b));
    }
    op!(v, "monty-arith", format!("monty/mul+square/U{}", 64 * N), [Arg::Below(N, Ref::P(0)), Arg::Below(N, Ref::P(0))], [Arg::OddGe3(N)], monty_mul::<N>);

    #[inline(never)]
    fn monty_halve<const N: usize>(i: &Inputs) {
        let params = MontyParams::<N>::new_vartime(Odd::new(u::<N>(&i.p[0])).unwrap());
        let a = MontyForm::from_montgomery(u::<N>(&i.s[0]), params);
        sink(a.div_by_2());
    }
    op!(v, "monty-arith", format!("monty/div_by_2/U{}", 64 * N), [Arg::Below(N, Ref::P(0))], [Arg::OddGe3(N)], monty_halve::<N>);

    #[inline(never)]
    fn monty_cteq<const N: usize>(i: &Inputs) {
        let params = MontyParams::<N>::new_vartime(Odd::new(u::<N>(&i.p[0])).unwrap());
        let a = MontyForm::from_montgomery(u::<N>(&i.s[0]), params);
        let b = MontyForm::from_montgomery(u::<N>(&i.s[1]), params);
        sink(a.ct_eq(&b));
    }
    op!(v, "monty-arith", format!("monty/ct_eq/U{}", 64 * N), [Arg::Below(N, Ref::P(0)), Arg::Below(N, Ref::P(0))], [Arg::OddGe3(N)], monty_cteq::<N>);

    #[inline(never)]
    fn monty_select<const N: usize>(i: &Inputs) {
        let params = MontyParams::<N>::new_vartime(Odd::new(u::<N>(&i.p[0])).unwrap());
        let a = MontyForm::from_montgomery(u::<N>(&i.s[0]), params);
        let b = MontyForm::from_montgomery(u::<N>(&i.s[1]), params);
        sink(MontyForm::conditional_select(&a, &b, sub_choice(i.s[2][0])));
    }
    op!(v, "monty-arith", format!("monty/conditional_select/U{}", 64 * N), [Arg::Below(N, Ref::P(0)), Arg::Below(N, Ref::P(0)), Arg::Bit], [Arg::OddGe3(N)], monty_select::<N>);

    #[inline(never)]
    fn monty_pow<const N: usize>(i: &Inputs) {
        let params = MontyParams::<N>::new_vartime(Odd::new(u::<N>(&i.p[0])).unwrap());
        let a = MontyForm::new(&u::<N>(&i.s[0]), params);
        let e = u::<N>(&i.s[1]);
        sink(a.pow(&e).retrieve());
    }
    op!(v, "monty-pow", format!("monty/pow(secret base+exponent)/U{}", 64 * N), [Arg::Any(N), Arg::Any(N)], [Arg::OddGe3(N)], monty_pow::<N>);

    #[inline(never)]
    fn monty_pow_bounded<const N: usize>(i: &Inputs) {
        let params = MontyParams::<N>::new_vartime(Odd::new(u::<N>(&i.p[0])).unwrap());
        let a = MontyForm::new(&u::<N>(&i.s[0]), params);
        let e = u::<N>(&i.s[1]);
        sink(a.pow_bounded_exp(&e, i.p[1][0] as u32).retrieve());
    }
    op!(v, "monty-pow", format!("monty/pow_bounded_exp(public bits)/U{}", 64 * N), [Arg::Any(N), Arg::Any(N)], [Arg::OddGe3(N), Arg::UpTo(b)], monty_pow_bounded::<N>);
}


fn uint_ops_more<const N: usize>(v: &mut Vec<Op>) {
    let b = 64 * N as u64;
    let nm = |s: &str| format!("uint/{s}/U{}", 64 * N);

    #[inline(never)]
    fn set_bit<const N: usize>(i: &Inputs) {
        let mut a = u::<N>(&i.s[0]);
        BitOps::set_bit(&mut a, i.s[1][0] as u32, sub_choice(i.s[2][0]));
        sink(a);
    }
    op!(v, "uint-bits", nm("set_bit(secret index+value)"), [Arg::Any(N), Arg::UpTo(b - 1), Arg::Bit], [], set_bit::<N>);

    #[inline(never)]
    fn rem2k<const N: usize>(i: &Inputs) {
        sink(u::<N>(&i.s[0]).rem2k_vartime(i.p[0][0] as u32));
    }
    op!(v, "uint-div", nm("rem2k_vartime(public k)"), [Arg::Any(N)], [Arg::UpTo(b + 1)], rem2k::<N>);

    #[inline(never)]
    fn words<const N: usize>(i: &Inputs) {
        let a = u::<N>(&i.s[0]);
        sink((a.to_words(), a.to_limbs(), Uint::<N>::from_words(a.to_words())));
    }
    op!(v, "uint-encoding", nm("to_words+from_words"), [Arg::Any(N)], [], words::<N>);

    #[inline(never)]
    fn wrappers<const N: usize>(i: &Inputs) {
        let (a, b) = (u::<N>(&i.s[0]), u::<N>(&i.s[1]));
        sink((Wrapping(a) + Wrapping(b), Wrapping(a) - Wrapping(b), Wrapping(a) * Wrapping(b), -Wrapping(a)));
        sink((Checked::new(a) + Checked::new(b), Checked::new(a) - Checked::new(b), Checked::new(a) * Checked::new(b)));
    }
    op!(v, "uint-wrappers", nm("Wrapping+Checked add/sub/mul"), [Arg::Any(N), Arg::Any(N)], [], wrappers::<N>);

    #[inline(never)]
    fn checked_state<const N: usize>(i: &Inputs) {
        // the is_some flag of a Checked value is the (secret) outcome of earlier checked operations
        let mk = |v: &[u64], f: u64| Checked::<Uint<N>>(crypto_bigint::subtle::CtOption::new(u::<N>(v), sub_choice(f)));
        let (a, b) = (mk(&i.s[0], i.s[2][0]), mk(&i.s[1], i.s[3][0]));
        sink((a + b, a + &b, &a + b, &a + &b, a - b, a - &b, &a - b, &a - &b, a * b, a * &b, &a * b, &a * &b));
        let mut x = a;
        x += b;
        x += &b;
        x -= b;
        x -= &b;
        x *= b;
        x *= &b;
        sink(x);
    }
    op!(v, "uint-wrappers", nm("Checked all operator forms(secret is_some flags)"), [Arg::Any(N), Arg::Any(N), Arg::Bit, Arg::Bit], [], checked_state::<N>);

    #[inline(never)]
    fn nz_select<const N: usize>(i: &Inputs) {
        let a = NonZero::new(u::<N>(&i.s[0])).unwrap();
        let b = NonZero::new(u::<N>(&i.s[1])).unwrap();
        let c = sub_choice(i.s[2][0]);
        sink((NonZero::conditional_select(&a, &b, c), a.ct_eq(&b)));
        let (x, y) = (Odd::new(u::<N>(&i.s[3])).unwrap(), Odd::new(u::<N>(&i.s[4])).unwrap());
        sink((Odd::conditional_select(&x, &y, c), x.ct_eq(&y)));
    }
    op!(v, "uint-wrappers", nm("NonZero/Odd select+ct_eq"), [Arg::NonZero(N), Arg::NonZero(N), Arg::Bit, Arg::Odd(N), Arg::Odd(N)], [], nz_select::<N>);

    #[inline(never)]
    fn int_mul_uint<const N: usize>(i: &Inputs) {
        let (a, b) = (si::<N>(&i.s[0]), u::<N>(&i.s[1]));
        sink((a.split_mul_uint(&b), CheckedMul::checked_mul(&a, &b), a.checked_mul_uint_right(&b)));
        sink((Int::new_from_abs_sign(b, choice(i.s[2][0])), a.resize::<N>()));
    }
    op!(v, "int-arith", format!("int/mul_uint+new_from_abs_sign/I{}", 64 * N), [Arg::Signed(N), Arg::Any(N), Arg::Bit], [], int_mul_uint::<N>);

    #[inline(never)]
    fn lincomb<const N: usize>(i: &Inputs) {
        let params = MontyParams::<N>::new_vartime(Odd::new(u::<N>(&i.p[0])).unwrap());
        let f = |k: usize| MontyForm::from_montgomery(u::<N>(&i.s[k]), params);
        let (a, b, c, d) = (f(0), f(1), f(2), f(3));
        sink(MontyForm::lincomb_vartime(&[(&a, &b), (&c, &d)]));
    }
    op!(v, "monty-arith", format!("monty/lincomb_vartime(public modulus, secret operands)/U{}", 64 * N), [Arg::Below(N, Ref::P(0)), Arg::Below(N, Ref::P(0)), Arg::Below(N, Ref::P(0)), Arg::Below(N, Ref::P(0))], [Arg::OddGe3(N)], lincomb::<N>);
}

/// the cheap families only, for the widest instantiations (thorough tier)
fn uint_ops_light<const N: usize>(v: &mut Vec<Op>) {
    let b = 64 * N as u64;
    let nm = |s: &str| format!("uint/{s}/U{}", 64 * N);
    #[inline(never)]
    fn addsub<const N: usize>(i: &Inputs) {
        let (a, b) = (u::<N>(&i.s[0]), u::<N>(&i.s[1]));
        let c = Limb(i.s[2][0] & 1);
        sink((a.adc(&b, c), a.sbb(&b, Limb(0u64.wrapping_sub(c.0))), a.checked_add(&b), a.checked_sub(&b), a.wrapping_neg()));
    }
    op!(v, "uint-addsub", nm("add+sub+neg"), [Arg::Any(N), Arg::Any(N), Arg::Bit], [], addsub::<N>);
    #[inline(never)]
    fn mul<const N: usize>(i: &Inputs) {
        let (a, b) = (u::<N>(&i.s[0]), u::<N>(&i.s[1]));
        sink((a.split_mul(&b), a.square_wide()));
    }
    op!(v, "uint-mul", nm("mul+square"), [Arg::Any(N), Arg::Any(N)], [], mul::<N>);
    #[inline(never)]
    fn cmp<const N: usize>(i: &Inputs) {
        let (a, b) = (u::<N>(&i.s[0]), u::<N>(&i.s[1]));
        sink((a.ct_eq(&b), a.ct_lt(&b), a.ct_gt(&b), Ord::cmp(&a, &b), a.is_zero()));
        sink(Uint::conditional_select(&a, &b, sub_choice(i.s[2][0])));
    }
    op!(v, "uint-cmp", nm("cmp+select"), [Arg::Any(N), Arg::Any(N), Arg::Bit], [], cmp::<N>);
    #[inline(never)]
    fn bits<const N: usize>(i: &Inputs) {
        let a = u::<N>(&i.s[0]);
        sink((a.bits(), a.leading_zeros(), a.trailing_zeros(), a.trailing_ones(), a.bit(i.s[1][0] as u32)));
    }
    op!(v, "uint-bits", nm("bits+zeros+bit"), [Arg::Any(N), Arg::UpTo(b - 1)], [], bits::<N>);
    #[inline(never)]
    fn shift_ct<const N: usize>(i: &Inputs) {
        let a = u::<N>(&i.s[0]);
        let s = i.s[1][0] as u32;
        sink((a.overflowing_shl(s), a.overflowing_shr(s)));
    }
    op!(v, "uint-shift", nm("shl+shr(secret shift incl. >= BITS)"), [Arg::Any(N), Arg::UpTo(2 * b + 1)], [], shift_ct::<N>);
    #[inline(never)]
    fn modadd<const N: usize>(i: &Inputs) {
        let p = u::<N>(&i.s[0]);
        let (a, b) = (u::<N>(&i.s[1]), u::<N>(&i.s[2]));
        sink((a.add_mod(&b, &p), a.sub_mod(&b, &p), a.neg_mod(&p)));
    }
    op!(v, "uint-mod", nm("add_mod+sub_mod+neg_mod(secret modulus)"), [Arg::NonZero(N), Arg::Below(N, Ref::S(0)), Arg::Below(N, Ref::S(0))], [], modadd::<N>);
    #[inline(never)]
    fn div_rem<const N: usize>(i: &Inputs) {
        let a = u::<N>(&i.s[0]);
        let d = NonZero::new(u::<N>(&i.s[1])).unwrap();
        sink(a.div_rem(&d));
    }
    op!(v, "uint-div", nm("div_rem(secret divisor)"), [Arg::Any(N), Arg::NonZero(N)], [], div_rem::<N>);
}

/// operations that exist only for the alias sizes (safegcd inverter, Concat)
macro_rules! uint_alias_ops {
    ($v:ident; $($n:literal),*) => { $( {
        const N: usize = $n;
        #[inline(never)]
        fn inv_odd(i: &Inputs) {
            let m = Odd::new(u::<N>(&i.s[1])).unwrap();
            sink(u::<N>(&i.s[0]).inv_odd_mod(&m));
        }
        op!($v, "safegcd", format!("uint/inv_odd_mod(secret modulus)/U{}", 64 * N), [Arg::Any(N), Arg::Odd(N)], [], inv_odd);
        #[inline(never)]
        fn inv_mod(i: &Inputs) {
            sink(u::<N>(&i.s[0]).inv_mod(&u::<N>(&i.s[1])));
        }
        op!($v, "safegcd", format!("uint/inv_mod(secret modulus)/U{}", 64 * N), [Arg::Any(N), Arg::NonZero(N)], [], inv_mod);
        #[inline(never)]
        fn gcd(i: &Inputs) {
            sink(u::<N>(&i.s[0]).gcd(&u::<N>(&i.s[1])));
        }
        op!($v, "safegcd", format!("uint/gcd/U{}", 64 * N), [Arg::Any(N), Arg::Any(N)], [], gcd);
        #[inline(never)]
        fn monty_inv(i: &Inputs) {
            let params = MontyParams::<N>::new_vartime(Odd::new(u::<N>(&i.p[0])).unwrap());
            let a = MontyForm::new(&u::<N>(&i.s[0]), params);
            sink(a.inv());
        }
        op!($v, "safegcd", format!("monty/inv(public modulus)/U{}", 64 * N), [Arg::Any(N)], [Arg::OddGe3(N)], monty_inv);
    } )* };
}

macro_rules! uint_encoding_ops {
    ($v:ident; $(($n:literal, $t:ident)),*) => { $( {
        const N: usize = $n;
        #[inline(never)]
        fn bytes(i: &Inputs) {
            let a = u::<N>(&i.s[0]);
            let be = Encoding::to_be_bytes(&a);
            let le = Encoding::to_le_bytes(&a);
            sink((<crypto_bigint::$t as Encoding>::from_be_bytes(be), <crypto_bigint::$t as Encoding>::from_le_bytes(le)));
            sink((crypto_bigint::$t::from_be_slice(be.as_ref()), crypto_bigint::$t::from_le_slice(le.as_ref())));
        }
        op!($v, "uint-encoding", format!("uint/to+from be/le bytes/U{}", 64 * N), [Arg::Any(N)], [], bytes);
    } )* };
}

mod cmoduli {
    use crypto_bigint::{impl_modulus, U128, U256, U64};
    impl_modulus!(M64, U64, "ffffffff00000001");
    impl_modulus!(M128, U128, "ffffffffffffffffffffffffffffff61");
    impl_modulus!(M256, U256, "ffffffff00000000ffffffffffffffffbce6faada7179e84f3b9cac2fc632551");
}

macro_rules! const_monty_ops {
    ($v:ident; $(($n:literal, $m:ident)),*) => { $( {
        const N: usize = $n;
        type F = ConstMontyForm<cmoduli::$m, N>;
        #[inline(never)]
        fn arith(i: &Inputs) {
            let a = F::new(&u::<N>(&i.s[0]));
            let b = F::new(&u::<N>(&i.s[1]));
            let r = (a.add(&b), a.sub(&b), a.neg(), a.double(), a.mul(&b), a.square(), a.div_by_2());
            sink((r.0.retrieve(), r.4.retrieve(), r.6.retrieve(), a.ct_eq(&b), F::conditional_select(&a, &b, sub_choice(i.s[2][0]))));
        }
        op!($v, "monty-arith", format!("const-monty/new+add+sub+neg+mul+square+halve+retrieve+select/U{}", 64 * N), [Arg::Any(N), Arg::Any(N), Arg::Bit], [], arith);
        #[inline(never)]
        fn pow(i: &Inputs) {
            let a = F::new(&u::<N>(&i.s[0]));
            sink(a.pow(&u::<N>(&i.s[1])).retrieve());
        }
        op!($v, "monty-pow", format!("const-monty/pow(secret base+exponent)/U{}", 64 * N), [Arg::Any(N), Arg::Any(N)], [], pow);
        #[inline(never)]
        fn inv(i: &Inputs) {
            sink(F::new(&u::<N>(&i.s[0])).inv());
        }
        op!($v, "safegcd", format!("const-monty/inv/U{}", 64 * N), [Arg::Any(N)], [], inv);
    } )* };
}

macro_rules! uint_mulmod_ops {
    ($v:ident; $($n:literal),*) => { $( {
        const N: usize = $n;
        #[inline(never)]
        fn monty_params_new(i: &Inputs) {
            sink(MontyParams::<N>::new(Odd::new(u::<N>(&i.s[0])).unwrap()));
        }
        op!($v, "monty-params", format!("monty/MontyParams::new(secret modulus)/U{}", 64 * N), [Arg::Odd(N)], [], monty_params_new);
        #[inline(never)]
        fn mul_mod(i: &Inputs) {
            let p = NonZero::new(u::<N>(&i.s[0])).unwrap();
            sink(u::<N>(&i.s[1]).mul_mod(&u::<N>(&i.s[2]), &p));
        }
        op!($v, "monty-params", format!("uint/mul_mod(secret odd modulus)/U{}", 64 * N), [Arg::OddGe3(N), Arg::Below(N, Ref::S(0)), Arg::Below(N, Ref::S(0))], [], mul_mod);
    } )* };
}

// ------------------------------------------------------------------------------------------------
// Int<N>

fn int_ops<const N: usize>(v: &mut Vec<Op>) {
    let b = 64 * N as u64;
    let nm = |s: &str| format!("int/{s}/I{}", 64 * N);
    #[inline(never)]
    fn arith<const N: usize>(i: &Inputs) {
        let (a, b) = (si::<N>(&i.s[0]), si::<N>(&i.s[1]));
        sink((a.checked_add(&b), a.overflowing_add(&b), a.wrapping_add(&b), a.checked_sub(&b), a.wrapping_sub(&b)));
        sink((a.overflowing_neg(), a.wrapping_neg(), a.checked_neg(), a.wrapping_neg_if(choice(i.s[2][0]))));
        sink((a.split_mul(&b), CheckedMul::checked_mul(&a, &b), a.checked_square(), a.wrapping_square(), a.saturating_square()));
        sink((a.abs_sign(), a.abs(), a.is_negative(), a.is_positive()));
    }
    op!(v, "int-arith", nm("add+sub+neg+mul+abs"), [Arg::Signed(N), Arg::Signed(N), Arg::Bit], [], arith::<N>);

    #[inline(never)]
    fn cmp<const N: usize>(i: &Inputs) {
        let (a, b) = (si::<N>(&i.s[0]), si::<N>(&i.s[1]));
        sink((a.ct_eq(&b), a.ct_lt(&b), a.ct_gt(&b), Ord::cmp(&a, &b), a == b));
        sink(Int::conditional_select(&a, &b, sub_choice(i.s[2][0])));
    }
    op!(v, "int-cmp", nm("cmp+select"), [Arg::Signed(N), Arg::Signed(N), Arg::Bit], [], cmp::<N>);

    #[inline(never)]
    fn div<const N: usize>(i: &Inputs) {
        let a = si::<N>(&i.s[0]);
        let d = NonZero::new(si::<N>(&i.s[1])).unwrap();
        sink((a.checked_div_rem(&d), a.rem(&d), a.checked_div_rem_floor(&d)));
    }
    op!(v, "int-div", nm("checked_div_rem+rem+floor(secret divisor)"), [Arg::Signed(N), Arg::SignedNonZero(N)], [], div::<N>);

    #[inline(never)]
    fn div_uint<const N: usize>(i: &Inputs) {
        let a = si::<N>(&i.s[0]);
        let d = NonZero::new(u::<N>(&i.s[1])).unwrap();
        sink((a.div_rem_uint(&d), a.div_rem_floor_uint(&d), a.normalized_rem(&d)));
    }
    op!(v, "int-div", nm("div_rem_uint+floor+normalized_rem(secret divisor)"), [Arg::Signed(N), Arg::NonZero(N)], [], div_uint::<N>);

    #[inline(never)]
    fn div_vt<const N: usize>(i: &Inputs) {
        let a = si::<N>(&i.s[0]);
        let d = NonZero::new(si::<N>(&i.p[0])).unwrap();
        sink((a.checked_div_rem_vartime(&d), a.rem_vartime(&d), a.checked_div_rem_floor_vartime(&d)));
    }
    op!(v, "int-div", nm("checked_div_rem_vartime(public divisor)"), [Arg::Signed(N)], [Arg::SignedNonZero(N)], div_vt::<N>);

    #[inline(never)]
    fn shift<const N: usize>(i: &Inputs) {
        let a = si::<N>(&i.s[0]);
        let s = i.s[1][0] as u32;
        sink((a.overflowing_shr(s), a.wrapping_shr(s), a.overflowing_shl(s), a.wrapping_shl(s)));
    }
    op!(v, "int-shift", nm("shl+shr(secret shift incl. >= BITS)"), [Arg::Signed(N), Arg::UpTo(2 * b + 1)], [], shift::<N>);

    #[inline(never)]
    fn shift_vt<const N: usize>(i: &Inputs) {
        let a = si::<N>(&i.s[0]);
        let s = i.p[0][0] as u32;
        sink((a.overflowing_shr_vartime(s), a.wrapping_shr_vartime(s), a.overflowing_shl_vartime(s), a.wrapping_shl_vartime(s)));
    }
    op!(v, "int-shift", nm("sh*_vartime(public shift)"), [Arg::Signed(N)], [Arg::UpTo(2 * b + 1)], shift_vt::<N>);
}

/// branch-free lower-case hex of little-endian words, most significant digit first (big-endian text)
#[inline(always)]
fn hex_be(words: &[u64], out: &mut [u8]) {
    let n = words.len();
    for k in 0..n {
        let w = words[n - 1 - k];
        for d in 0..16 {
            let nib = ((w >> (60 - 4 * d)) & 15) as u8;
            // 0..=9 -> '0'.., 10..=15 -> 'a'..
            let adj = (((9i16 - nib as i16) >> 15) as u8) & 39;
            out[16 * k + d] = 48 + nib + adj;
        }
    }
}

fn uint_ops_extra<const N: usize>(v: &mut Vec<Op>) {
    let nm = |s: &str| format!("uint/{s}/U{}", 64 * N);
    #[inline(never)]
    fn named_bits<const N: usize>(i: &Inputs) {
        let (a, b) = (u::<N>(&i.s[0]), u::<N>(&i.s[1]));
        sink((a.bitand(&b), a.bitor(&b), a.bitxor(&b), a.not()));
        sink((a.wrapping_and(&b), a.checked_and(&b), a.wrapping_or(&b), a.checked_or(&b), a.wrapping_xor(&b), a.checked_xor(&b)));
        sink((Wrapping(a) & Wrapping(b), Wrapping(a) | Wrapping(b), Wrapping(a) ^ Wrapping(b), !Wrapping(a)));
        sink((a.wrapping_square(), a.wrapping_sqrt(), a.as_int()));
    }
    op!(v, "uint-bits", nm("named bit ops+wrapping_square+wrapping_sqrt"), [Arg::Any(N), Arg::Any(N)], [], named_bits::<N>);

    #[inline(never)]
    fn hex<const N: usize>(i: &Inputs) {
        let mut buf = [0u8; 16 * 32];
        hex_be(&i.s[0][..N], &mut buf[..16 * N]);
        // SAFETY-free: the buffer holds ASCII hex digits only
        let text = core::str::from_utf8(&buf[..16 * N]).unwrap();
        sink((Uint::<N>::from_be_hex(text), Uint::<N>::from_le_hex(text)));
    }
    op!(v, "uint-encoding", nm("from_be_hex+from_le_hex(secret digits)"), [Arg::Any(N)], [], hex::<N>);
}

// more of the Int surface: every non-vartime public item of src/int/* that `int_ops` leaves out
fn int_ops_more<const N: usize>(v: &mut Vec<Op>) {
    let nm = |s: &str| format!("int/{s}/I{}", 64 * N);

    #[inline(never)]
    fn mul_uint<const N: usize>(i: &Inputs) {
        let (a, b) = (si::<N>(&i.s[0]), u::<N>(&i.s[1]));
        sink((a.split_mul_uint(&b), a.split_mul_uint_right(&b), a.checked_mul_uint_right(&b), CheckedMul::<Uint<N>>::checked_mul(&a, &b)));
    }
    op!(v, "int-arith", nm("mul_uint forms"), [Arg::Signed(N), Arg::Any(N)], [], mul_uint::<N>);

    #[inline(never)]
    fn div_more<const N: usize>(i: &Inputs) {
        let (a, b) = (si::<N>(&i.s[0]), si::<N>(&i.s[1]));
        let d = NonZero::new(b).unwrap();
        sink((a.checked_div(&b), a.checked_div_floor(&b), crypto_bigint::CheckedDiv::checked_div(&a, &b)));
        // `Int / NonZero<Int>` and `Wrapping<Int> / NonZero<Int>` panic for MIN / -1 (stated in their
        // expect messages; C14 accepts it): a value-dependent panic by contract, not registered here
        sink((a % d, &a % &d, Wrapping(a) % d));
    }
    op!(v, "int-div", nm("checked_div+checked_div_floor+Rem operators(secret divisor)"), [Arg::Signed(N), Arg::SignedNonZero(N)], [], div_more::<N>);

    #[inline(never)]
    fn div_uint_more<const N: usize>(i: &Inputs) {
        let a = si::<N>(&i.s[0]);
        let d = NonZero::new(u::<N>(&i.s[1])).unwrap();
        sink((a.div_uint(&d), a.rem_uint(&d), a.div_floor_uint(&d), a / d, &a / &d, a % d, Wrapping(a) / d));
    }
    op!(v, "int-div", nm("div_uint+rem_uint+div_floor_uint+operators(secret divisor)"), [Arg::Signed(N), Arg::NonZero(N)], [], div_uint_more::<N>);

    #[inline(never)]
    fn bits<const N: usize>(i: &Inputs) {
        let (a, b) = (si::<N>(&i.s[0]), si::<N>(&i.s[1]));
        sink((a.bitand(&b), a.bitor(&b), a.bitxor(&b), a.not(), a.bitand_limb(Limb(i.s[1][0]))));
        sink((a.wrapping_and(&b), a.checked_and(&b), a.wrapping_or(&b), a.checked_or(&b), a.wrapping_xor(&b), a.checked_xor(&b)));
        sink((a & b, &a | &b, a ^ &b, !a, Wrapping(a) & Wrapping(b), Wrapping(a) | Wrapping(b), Wrapping(a) ^ Wrapping(b), !Wrapping(a)));
    }
    op!(v, "int-bits", nm("and+or+xor+not"), [Arg::Signed(N), Arg::Signed(N)], [], bits::<N>);

    #[inline(never)]
    fn pred<const N: usize>(i: &Inputs) {
        let a = si::<N>(&i.s[0]);
        sink((a.is_min(), a.is_max(), a.to_nz(), a.to_odd(), *a.as_uint(), a.abs_sign()));
        sink(Int::<N>::new_from_abs_sign(u::<N>(&i.s[1]), choice(i.s[2][0])));
        sink(Zero::is_zero(&a));
    }
    op!(v, "int-pred", nm("is_min+is_max+to_nz+to_odd+new_from_abs_sign"), [Arg::Signed(N), Arg::Any(N), Arg::Bit], [], pred::<N>);

    #[inline(never)]
    fn wrappers<const N: usize>(i: &Inputs) {
        let (a, b) = (si::<N>(&i.s[0]), si::<N>(&i.s[1]));
        let (wa, wb) = (Wrapping(a), Wrapping(b));
        let mut w = wa + wb;
        w += wb;
        w -= &wa;
        sink((w, wa - wb));
        let (ca, cb) = (Checked::new(a), Checked::new(b));
        let mut c = ca + cb;
        c += cb;
        c -= &ca;
        c *= cb;
        sink((c, ca - cb, ca * cb));
    }
    op!(v, "int-wrappers", nm("Wrapping+Checked add/sub/mul"), [Arg::Signed(N), Arg::Signed(N)], [], wrappers::<N>);

    #[inline(never)]
    fn resize_up<const N: usize>(i: &Inputs) {
        let a = si::<N>(&i.s[0]);
        sink((a.resize::<9>(), a.resize::<1>()));
    }
    op!(v, "int-resize", nm("resize(sign extension / truncation)"), [Arg::Signed(N)], [], resize_up::<N>);
}

macro_rules! int_widening_ops {
    ($v:ident; $(($n:literal, $w:literal)),*) => { $( {
        const N: usize = $n;
        const W: usize = $w;
        #[inline(never)]
        fn widening(i: &Inputs) {
            let (a, b) = (si::<N>(&i.s[0]), si::<N>(&i.s[1]));
            let wm: Int<W> = a.widening_mul(&b);
            let ws: Uint<W> = a.widening_square();
            let wu: Int<W> = a.widening_mul_uint(&u::<N>(&i.s[1]));
            sink((wm, ws, wu));
            let (x, y) = (u::<N>(&i.s[0]), u::<N>(&i.s[1]));
            let um: Uint<W> = x.widening_mul(&y);
            let us: Uint<W> = x.widening_square();
            sink((um, us));
            let cat: Uint<W> = crypto_bigint::Concat::concat(&x, &y);
            let (lo, hi): (Uint<N>, Uint<N>) = crypto_bigint::Split::split(&cat);
            sink((cat, lo, hi));
        }
        op!($v, "widening", format!("int+uint/widening_mul+widening_square+widening_mul_uint/{}", 64 * N), [Arg::Signed(N), Arg::Signed(N)], [], widening);
        #[inline(never)]
        fn int_gcd(i: &Inputs) {
            let (a, b) = (si::<N>(&i.s[0]), si::<N>(&i.s[1]));
            sink((Gcd::gcd(&a, &b), Gcd::gcd(&a, &u::<N>(&i.s[1])), Gcd::gcd(&u::<N>(&i.s[0]), &b)));
        }
        op!($v, "safegcd", format!("int/gcd(Int, Int)+(Int, Uint)+(Uint, Int)/I{}", 64 * N), [Arg::Signed(N), Arg::Signed(N)], [], int_gcd);
        #[inline(never)]
        fn int_inv(i: &Inputs) {
            let m = Odd::new(u::<N>(&i.p[0])).unwrap();
            sink(si::<N>(&i.s[0]).inv_odd_mod(&m));
        }
        op!($v, "safegcd", format!("int/inv_odd_mod(public modulus)/I{}", 64 * N), [Arg::Signed(N)], [Arg::OddGe3(N)], int_inv);
    } )* };
}

// ------------------------------------------------------------------------------------------------
// BoxedUint of n limbs

fn boxed_ops(v: &mut Vec<Op>, n: usize, heavy: bool) {
    let b = 64 * n as u64;
    let nm = |s: &str| format!("boxed/{s}/{n} limbs");

    #[inline(never)]
    fn addsub(i: &Inputs) {
        let (a, b) = (bx(&i.s[0]), bx(&i.s[1]));
        let c = Limb(i.s[2][0] & 1);
        sink((a.adc(&b, c), a.sbb(&b, Limb(0u64.wrapping_sub(c.0)))));
        sink((a.wrapping_add(&b), a.wrapping_sub(&b), a.checked_add(&b), a.checked_sub(&b), a.wrapping_neg()));
    }
    op!(v, "boxed-addsub", nm("add+sub+neg"), [Arg::Any(n), Arg::Any(n), Arg::Bit], [], addsub);

    #[inline(never)]
    fn mul(i: &Inputs) {
        let (a, b) = (bx(&i.s[0]), bx(&i.s[1]));
        sink((a.mul(&b), a.wrapping_mul(&b), a.checked_mul(&b), a.square()));
    }
    op!(v, "boxed-mul", nm("mul+square"), [Arg::Any(n), Arg::Any(n)], [], mul);

    #[inline(never)]
    fn cmp(i: &Inputs) {
        let (a, b) = (bx(&i.s[0]), bx(&i.s[1]));
        sink((a.ct_eq(&b), a.ct_lt(&b), a.ct_gt(&b), Ord::cmp(&a, &b), a == b, a.is_zero(), a.is_odd()));
    }
    op!(v, "boxed-cmp", nm("cmp"), [Arg::Any(n), Arg::Any(n)], [], cmp);

    #[inline(never)]
    fn select(i: &Inputs) {
        let (mut a, mut b) = (bx(&i.s[0]), bx(&i.s[1]));
        let c = sub_choice(i.s[2][0]);
        sink(BoxedUint::ct_select(&a, &b, c));
        BoxedUint::ct_swap(&mut a, &mut b, c);
        a.ct_assign(&b, c);
        sink((a, b));
    }
    op!(v, "boxed-select", nm("select+swap+assign"), [Arg::Any(n), Arg::Any(n), Arg::Bit], [], select);

    #[inline(never)]
    fn bits(i: &Inputs) {
        let a = bx(&i.s[0]);
        sink((a.bits(), a.leading_zeros(), a.trailing_zeros(), a.trailing_ones()));
    }
    op!(v, "boxed-bits", nm("bits+zeros"), [Arg::Any(n)], [], bits);

    #[inline(never)]
    fn shift_ct(i: &Inputs) {
        let a = bx(&i.s[0]);
        let s = i.s[1][0] as u32;
        sink((a.overflowing_shl(s), a.overflowing_shr(s), a.wrapping_shl(s), a.wrapping_shr(s)));
    }
    op!(v, "boxed-shift", nm("shl+shr(secret shift incl. >= BITS)"), [Arg::Any(n), Arg::UpTo(2 * b + 1)], [], shift_ct);

    #[inline(never)]
    fn shift_vt(i: &Inputs) {
        let a = bx(&i.s[0]);
        let s = i.p[0][0] as u32;
        sink((a.shl_vartime(s), a.shr_vartime(s), a.wrapping_shl_vartime(s), a.wrapping_shr_vartime(s)));
    }
    op!(v, "boxed-shift", nm("sh*_vartime(public shift)"), [Arg::Any(n)], [Arg::UpTo(2 * b + 1)], shift_vt);

    #[inline(never)]
    fn div_rem(i: &Inputs) {
        let a = bx(&i.s[0]);
        let d = NonZero::new(bx(&i.s[1])).unwrap();
        sink((a.div_rem(&d), a.rem(&d)));
    }
    op!(v, "boxed-div", nm("div_rem+rem(secret divisor)"), [Arg::Any(n), Arg::NonZero(n)], [], div_rem);

    #[inline(never)]
    fn div_vt(i: &Inputs) {
        let a = bx(&i.s[0]);
        let d = NonZero::new(bx(&i.p[0])).unwrap();
        sink((a.div_rem_vartime(&d), a.rem_vartime(&d)));
    }
    op!(v, "boxed-div", nm("div_rem_vartime(public divisor)"), [Arg::Any(n)], [Arg::NonZero(n)], div_vt);

    #[inline(never)]
    fn div_limb(i: &Inputs) {
        let a = bx(&i.s[0]);
        let d = NonZero::new(Limb(i.s[1][0])).unwrap();
        sink((a.div_rem_limb(d), a.rem_limb(d)));
    }
    op!(v, "boxed-div", nm("div_rem_limb(secret limb)"), [Arg::Any(n), Arg::WordNonZero], [], div_limb);

    #[inline(never)]
    fn modadd(i: &Inputs) {
        let p = bx(&i.s[0]);
        let (a, b) = (bx(&i.s[1]), bx(&i.s[2]));
        sink((a.add_mod(&b, &p), a.sub_mod(&b, &p), a.neg_mod(&p), a.double_mod(&p)));
    }
    op!(v, "boxed-mod", nm("add_mod+sub_mod+neg_mod+double_mod(secret modulus)"), [Arg::NonZero(n), Arg::Below(n, Ref::S(0)), Arg::Below(n, Ref::S(0))], [], modadd);

    #[inline(never)]
    fn inv2k(i: &Inputs) {
        let a = bx(&i.s[0]);
        sink(a.inv_mod2k(i.s[1][0] as u32));
    }
    op!(v, "boxed-inv2k", nm("inv_mod2k(secret k)"), [Arg::Any(n), Arg::UpTo(b)], [], inv2k);

    #[inline(never)]
    fn sqrt(i: &Inputs) {
        sink(bx(&i.s[0]).sqrt());
    }
    op!(v, "boxed-sqrt", nm("sqrt"), [Arg::Any(n)], [], sqrt);

    #[inline(never)]
    fn inv_odd(i: &Inputs) {
        let m = Odd::new(bx(&i.s[1])).unwrap();
        sink(bx(&i.s[0]).inv_odd_mod(&m));
    }
    op!(v, "safegcd", nm("inv_odd_mod(secret modulus)"), [Arg::Any(n), Arg::Odd(n)], [], inv_odd);

    #[inline(never)]
    fn gcd(i: &Inputs) {
        sink(bx(&i.s[0]).gcd(&bx(&i.s[1])));
    }
    op!(v, "safegcd", nm("gcd"), [Arg::Any(n), Arg::Any(n)], [], gcd);

    #[inline(never)]
    fn monty_params_new(i: &Inputs) {
        sink(BoxedMontyParams::new(Odd::new(bx(&i.s[0])).unwrap()));
    }
    op!(v, "monty-params", format!("boxed-monty/BoxedMontyParams::new(secret modulus)/{n} limbs"), [Arg::Odd(n)], [], monty_params_new);

    #[inline(never)]
    fn monty_new_retrieve(i: &Inputs) {
        let params = BoxedMontyParams::new_vartime(Odd::new(bx(&i.p[0])).unwrap());
        let a = BoxedMontyForm::new(bx(&i.s[0]), params);
        sink(a.retrieve());
    }
    op!(v, "monty-arith", format!("boxed-monty/new+retrieve/{n} limbs"), [Arg::Any(n)], [Arg::OddGe3(n)], monty_new_retrieve);

    #[inline(never)]
    fn monty_addsub(i: &Inputs) {
        let params = BoxedMontyParams::new_vartime(Odd::new(bx(&i.p[0])).unwrap());
        let a = BoxedMontyForm::from_montgomery(bx(&i.s[0]), params.clone());
        let b = BoxedMontyForm::from_montgomery(bx(&i.s[1]), params);
        sink((a.add(&b), a.sub(&b), a.neg(), a.double()));
    }
    op!(v, "monty-arith", format!("boxed-monty/add+sub+neg+double/{n} limbs"), [Arg::Below(n, Ref::P(0)), Arg::Below(n, Ref::P(0))], [Arg::OddGe3(n)], monty_addsub);

    #[inline(never)]
    fn monty_mul(i: &Inputs) {
        let params = BoxedMontyParams::new_vartime(Odd::new(bx(&i.p[0])).unwrap());
        let a = BoxedMontyForm::from_montgomery(bx(&i.s[0]), params.clone());
        let b = BoxedMontyForm::from_montgomery(bx(&i.s[1]), params);
        sink((a.mul(&b), a.square()));
    }
    op!(v, "monty-arith", format!("boxed-monty/mul+square/{n} limbs"), [Arg::Below(n, Ref::P(0)), Arg::Below(n, Ref::P(0))], [Arg::OddGe3(n)], monty_mul);

    #[inline(never)]
    fn monty_halve(i: &Inputs) {
        let params = BoxedMontyParams::new_vartime(Odd::new(bx(&i.p[0])).unwrap());
        let a = BoxedMontyForm::from_montgomery(bx(&i.s[0]), params);
        sink(a.div_by_2());
    }
    op!(v, "monty-arith", format!("boxed-monty/div_by_2/{n} limbs"), [Arg::Below(n, Ref::P(0))], [Arg::OddGe3(n)], monty_halve);

    #[inline(never)]
    fn bit(i: &Inputs) {
        let mut a = bx(&i.s[0]);
        sink(a.bit(i.s[1][0] as u32));
        BitOps::set_bit(&mut a, i.s[1][0] as u32, sub_choice(i.s[2][0]));
        sink(a);
    }
    op!(v, "boxed-bits", nm("bit+set_bit(secret index)"), [Arg::Any(n), Arg::UpTo(b - 1), Arg::Bit], [], bit);

    #[inline(never)]
    fn negate(i: &Inputs) {
        let mut a = bx(&i.s[0]);
        a.conditional_negate(sub_choice(i.s[1][0]));
        sink(a);
    }
    op!(v, "boxed-select", nm("conditional_negate"), [Arg::Any(n), Arg::Bit], [], negate);

    #[inline(never)]
    fn bitops(i: &Inputs) {
        let (a, b) = (bx(&i.s[0]), bx(&i.s[1]));
        sink((&a & &b, &a | &b, &a ^ &b, !a.clone()));
    }
    op!(v, "boxed-bits", nm("bitops"), [Arg::Any(n), Arg::Any(n)], [], bitops);

    #[inline(never)]
    fn mul_mod(i: &Inputs) {
        let p = NonZero::new(bx(&i.s[0])).unwrap();
        sink(bx(&i.s[1]).mul_mod(&bx(&i.s[2]), &p));
    }
    op!(v, "monty-params", nm("mul_mod(secret odd modulus)"), [Arg::OddGe3(n), Arg::Below(n, Ref::S(0)), Arg::Below(n, Ref::S(0))], [], mul_mod);

    #[inline(never)]
    fn bytes(i: &Inputs) {
        let a = bx(&i.s[0]);
        let (be, le) = (a.to_be_bytes(), a.to_le_bytes());
        sink((BoxedUint::from_be_slice(&be, a.bits_precision()).is_ok(), BoxedUint::from_le_slice(&le, a.bits_precision()).is_ok()));
    }
    op!(v, "boxed-encoding", nm("to+from be/le bytes"), [Arg::Any(n)], [], bytes);

    if heavy {
        #[inline(never)]
        fn monty_pow12(i: &Inputs) {
            let params = BoxedMontyParams::new_vartime(Odd::new(bx(&i.p[0])).unwrap());
            let a = BoxedMontyForm::new(bx(&i.s[0]), params);
            sink(a.pow_bounded_exp(&bx(&i.s[1]), 12).retrieve());
        }
        op!(
            v,
            "monty-pow",
            format!("boxed-monty/pow_bounded_exp(12 bits; ladder result >= 2m for half of the exponents)/{n} limbs"),
            [Arg::Below(n, Ref::P(0)), Arg::ExpDoubleReduction { base: Ref::S(0), modulus: Ref::P(0) }],
            [Arg::OddBand(n)],
            monty_pow12
        );

        #[inline(never)]
        fn monty_pow(i: &Inputs) {
            let params = BoxedMontyParams::new_vartime(Odd::new(bx(&i.p[0])).unwrap());
            let a = BoxedMontyForm::new(bx(&i.s[0]), params);
            sink(a.pow(&bx(&i.s[1])).retrieve());
        }
        op!(v, "monty-pow", format!("boxed-monty/pow(secret base+exponent)/{n} limbs"), [Arg::Any(n), Arg::Any(n)], [Arg::OddGe3(n)], monty_pow);

        #[inline(never)]
        fn monty_pow_bounded(i: &Inputs) {
            let params = BoxedMontyParams::new_vartime(Odd::new(bx(&i.p[0])).unwrap());
            let a = BoxedMontyForm::new(bx(&i.s[0]), params);
            sink(a.pow_bounded_exp(&bx(&i.s[1]), i.p[1][0] as u32).retrieve());
        }
        op!(v, "monty-pow", format!("boxed-monty/pow_bounded_exp(public bits)/{n} limbs"), [Arg::Any(n), Arg::Any(n)], [Arg::OddGe3(n), Arg::UpTo(b)], monty_pow_bounded);

        #[inline(never)]
        fn monty_invert(i: &Inputs) {
            let params = BoxedMontyParams::new_vartime(Odd::new(bx(&i.p[0])).unwrap());
            let a = BoxedMontyForm::new(bx(&i.s[0]), params);
            sink(a.invert());
        }
        op!(v, "safegcd", format!("boxed-monty/invert(public modulus)/{n} limbs"), [Arg::Any(n)], [Arg::OddGe3(n)], monty_invert);
    }
}

/// More of the boxed surface: in-place forms, predicates, special-modulus arithmetic, wrappers, the
/// Monty multiplier object and operator forms of BoxedMontyForm.
fn boxed_ops_more(v: &mut Vec<Op>, n: usize) {
    use crypto_bigint::{Monty, MontyMultiplier, Square, SquareAssign};
    let b = 64 * n as u64;
    let nm = |s: &str| format!("boxed/{s}/{n} limbs");

    #[inline(never)]
    fn assign(i: &Inputs) {
        let (mut a, b) = (bx(&i.s[0]), bx(&i.s[1]));
        let c = Limb(i.s[2][0] & 1);
        sink(a.adc_assign(&b, c));
        sink(a.sbb_assign(&b, Limb(0u64.wrapping_sub(c.0))));
        let mut w = Wrapping(a.clone());
        w += Wrapping(b.clone());
        w -= &Wrapping(b.clone());
        w *= &Wrapping(b.clone());
        sink((w.clone() + Wrapping(b.clone()), &w - &Wrapping(b.clone()), &w * &Wrapping(b.clone()), -w));
    }
    op!(v, "boxed-addsub", nm("adc_assign+sbb_assign+Wrapping forms"), [Arg::Any(n), Arg::Any(n), Arg::Bit], [], assign);

    #[inline(never)]
    fn pred(i: &Inputs) {
        let (a, b) = (bx(&i.s[0]), bx(&i.s[1]));
        sink((a.is_nonzero(), a.is_one(), a.to_odd().is_some(), NonZero::new(a.clone()).is_some(), Integer::is_even(&a)));
        sink((a.wrapping_and(&b), a.checked_and(&b), a.wrapping_or(&b), a.checked_or(&b), a.wrapping_xor(&b), a.checked_xor(&b), a.bitand_limb(Limb(i.s[1][0]))));
    }
    op!(v, "boxed-bits", nm("predicates+named bit ops"), [Arg::Any(n), Arg::Any(n)], [], pred);

    #[inline(never)]
    fn shift_assign(i: &Inputs) {
        let mut a = bx(&i.s[0]);
        let s = i.s[1][0] as u32;
        sink(a.overflowing_shl_assign(s));
        sink(a.overflowing_shr_assign(s));
        sink(a);
    }
    op!(v, "boxed-shift", nm("overflowing_sh*_assign(secret shift incl. >= BITS)"), [Arg::Any(n), Arg::UpTo(2 * b + 1)], [], shift_assign);

    #[inline(never)]
    fn shift_inrange(i: &Inputs) {
        let mut a = bx(&i.s[0]);
        let s = i.s[1][0] as u32;
        sink((a.shl(s), a.shr(s), &a << s, &a >> s));
        a.shl_assign(s);
        a.shr_assign(s);
        sink(a);
    }
    op!(v, "boxed-shift", nm("shl+shr+operators+assign(secret shift < BITS)"), [Arg::Any(n), Arg::UpTo(b - 1)], [], shift_inrange);

    #[inline(never)]
    fn special(i: &Inputs) {
        // modulus 2^BITS - c with c = p[0]; operands below the modulus
        let (a, b) = (bx(&i.s[0]), bx(&i.s[1]));
        let c = Limb(i.p[0][0]);
        sink((a.sub_mod_special(&b, c), a.neg_mod_special(c), a.mul_mod_special(&b, c)));
    }
    op!(v, "boxed-mod", nm("sub/neg/mul_mod_special(public c)"), [Arg::TwoPowMinus(n, Ref::P(0)), Arg::TwoPowMinus(n, Ref::P(0))], [Arg::WordNonZero], special);

    #[inline(never)]
    fn mod_assign(i: &Inputs) {
        let p = bx(&i.s[0]);
        let (mut a, b) = (bx(&i.s[1]), bx(&i.s[2]));
        a.add_mod_assign(&b, &p);
        sink(a);
    }
    op!(v, "boxed-mod", nm("add_mod_assign(secret modulus)"), [Arg::NonZero(n), Arg::Below(n, Ref::S(0)), Arg::Below(n, Ref::S(0))], [], mod_assign);

    #[inline(never)]
    fn sqrt_more(i: &Inputs) {
        let a = bx(&i.s[0]);
        sink((a.wrapping_sqrt(), a.checked_sqrt()));
    }
    op!(v, "boxed-sqrt", nm("wrapping_sqrt+checked_sqrt"), [Arg::Any(n)], [], sqrt_more);

    #[inline(never)]
    fn resize(i: &Inputs) {
        let a = bx(&i.s[0]);
        let bits = a.bits_precision();
        sink((a.widen(bits + 64), a.widen(bits + 65), a.shorten(bits - 63), a.shorten(bits)));
    }
    op!(v, "boxed-resize", nm("widen+shorten(public precision)"), [Arg::Any(n)], [], resize);

    #[inline(never)]
    fn div_more(i: &Inputs) {
        let a = bx(&i.s[0]);
        let d = NonZero::new(bx(&i.s[1])).unwrap();
        sink((&a / &d, &a % &d, Wrapping(a.clone()) / &d));
        let l = NonZero::new(Limb(i.s[2][0])).unwrap();
        let r = Reciprocal::new(l);
        sink((a.div_rem_limb_with_reciprocal(&r), a.rem_limb_with_reciprocal(&r)));
    }
    op!(v, "boxed-div", nm("operators+reciprocal forms(secret divisor)"), [Arg::Any(n), Arg::NonZero(n), Arg::WordNonZero], [], div_more);

    #[inline(never)]
    fn monty_more(i: &Inputs) {
        let params = BoxedMontyParams::new_vartime(Odd::new(bx(&i.p[0])).unwrap());
        let a = BoxedMontyForm::from_montgomery(bx(&i.s[0]), params.clone());
        let b = BoxedMontyForm::from_montgomery(bx(&i.s[1]), params.clone());
        sink((a.is_zero(), a.is_nonzero()));
        sink((&a + &b, &a - &b, &a * &b, -&a, Square::square(&a)));
        let mut x = a.clone();
        x += &b;
        x -= &b;
        x *= &b;
        x.div_by_2_assign();
        SquareAssign::square_assign(&mut x);
        sink(x);
        let mut m = <BoxedMontyForm as Monty>::Multiplier::from(&params);
        let mut y = a.clone();
        m.mul_assign(&mut y, &b);
        m.square_assign(&mut y);
        sink(y);
        sink((a.to_montgomery(), Monty::as_montgomery(&a).clone(), Monty::div_by_2(&a), Monty::double(&a)));
    }
    op!(v, "monty-arith", format!("boxed-monty/operators+assign+multiplier+predicates/{n} limbs"), [Arg::Below(n, Ref::P(0)), Arg::Below(n, Ref::P(0))], [Arg::OddGe3(n)], monty_more);
}

/// BoxedUint multiplication with operands of different lengths (Karatsuba trailing-limb paths)
fn boxed_mul_mixed(v: &mut Vec<Op>, la: usize, lb: usize) {
    #[inline(never)]
    fn mul(i: &Inputs) {
        let (a, b) = (bx(&i.s[0]), bx(&i.s[1]));
        sink((a.mul(&b), a.wrapping_mul(&b), a.checked_mul(&b)));
    }
    op!(v, "boxed-mul", format!("boxed/mul(mixed lengths)/{la}x{lb} limbs"), [Arg::Any(la), Arg::Any(lb)], [], mul);
}

/// The registry. `thorough` adds the wide and slow instantiations.
pub fn ops(thorough: bool) -> Vec<Op> {
    let mut v = Vec::new();
    limb_ops(&mut v);
    uint_ops::<1>(&mut v);
    uint_ops::<2>(&mut v);
    uint_ops::<3>(&mut v);
    uint_ops::<4>(&mut v);
    uint_ops::<8>(&mut v);
    uint_ops_more::<1>(&mut v);
    uint_ops_more::<2>(&mut v);
    uint_ops_more::<4>(&mut v);
    uint_ops_more::<8>(&mut v);
    uint_alias_ops!(v; 1, 2, 4);
    uint_mulmod_ops!(v; 2, 4);
    uint_encoding_ops!(v; (1, U64), (2, U128), (4, U256), (8, U512));
    const_monty_ops!(v; (1, M64), (2, M128), (4, M256));
    int_ops::<1>(&mut v);
    int_ops::<2>(&mut v);
    int_ops::<4>(&mut v);
    uint_ops_extra::<1>(&mut v);
    uint_ops_extra::<2>(&mut v);
    uint_ops_extra::<3>(&mut v);
    uint_ops_extra::<4>(&mut v);
    uint_ops_extra::<8>(&mut v);
    int_ops_more::<1>(&mut v);
    int_ops_more::<2>(&mut v);
    int_ops_more::<4>(&mut v);
    int_widening_ops!(v; (1, 2), (2, 4), (4, 8));
    for n in [1usize, 2, 4] {
        boxed_ops(&mut v, n, true);
    }
    boxed_ops(&mut v, 8, false);
    boxed_ops(&mut v, 33, false);
    for n in [1usize, 2, 3, 4, 8] {
        boxed_ops_more(&mut v, n);
    }
    for (la, lb) in [(3usize, 5usize), (5, 3), (35, 33), (33, 35), (36, 33), (34, 32), (64, 33)] {
        boxed_mul_mixed(&mut v, la, lb);
    }
    if thorough {
        uint_ops::<16>(&mut v);
        uint_ops::<32>(&mut v);
        uint_ops_more::<3>(&mut v);
        uint_ops_more::<16>(&mut v);
        uint_ops_light::<64>(&mut v);
        uint_ops_light::<128>(&mut v);
        uint_encoding_ops!(v; (3, U192), (16, U1024), (32, U2048));
        uint_alias_ops!(v; 8, 16);
        uint_mulmod_ops!(v; 8, 16);
        int_ops::<8>(&mut v);
        int_ops::<3>(&mut v);
        int_ops_more::<3>(&mut v);
        int_ops_more::<8>(&mut v);
        int_widening_ops!(v; (8, 16));
        boxed_ops(&mut v, 16, true);
        boxed_ops_more(&mut v, 16);
        boxed_ops_more(&mut v, 33);
        boxed_ops(&mut v, 70, false);
    }
    v
}
