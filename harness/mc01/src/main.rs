//! C01 machine-level spot check (thorough tier).
//!
//! `mc01 run <index> <input-file>` runs one registered operation (the wrappers of
//! harness-ct/ctwrap, built here WITHOUT SanitizerCoverage: the code a user runs) on operands read
//! as raw bytes from a file. `mc01 check` generates, per operation, one assignment of the public
//! operands and several secret operand tuples, runs the worker under
//! `valgrind --tool=lackey --trace-mem=yes` for each tuple and requires the machine-level traces —
//! the address of every executed instruction and of every load / store, in order — to be identical.
//! Events attributed to instructions of the dynamic loader are excluded (its start-up code does one
//! AT_RANDOM-dependent table read that differs between any two processes). Data addresses are
//! compared at 8-byte granularity (see `hash_trace`).
//!
//!   mc01 list
//!   mc01 run <index> <input-file>
//!   mc01 check [--seed N] [--secrets K] [--jobs J] [--out FILE] [--only substr] [--scratch DIR]
use ctwrap::{Arg, Inputs, Op, Ref};
use std::io::{BufRead, BufReader, Read, Write};
use std::sync::atomic::{AtomicUsize, Ordering};
use std::sync::Mutex;
use vmodel::gen;
use vmodel::serde_json::{json, Value};
use vmodel::tape::splitmix;
use vmodel::*;

fn shape(op: &Op) -> (Vec<usize>, Vec<usize>) {
    (op.secret.iter().map(|a| a.limbs()).collect(), op.public.iter().map(|a| a.limbs()).collect())
}

fn resolve<'a>(r: Ref, s: &'a [Vec<u64>], p: &'a [Vec<u64>]) -> &'a [u64] {
    match r {
        Ref::S(i) => &s[i],
        Ref::P(i) => &p[i],
    }
}

fn gen_arg(t: &mut Tape, a: &Arg, s: &[Vec<u64>], p: &[Vec<u64>]) -> Vec<u64> {
    match *a {
        Arg::Any(n) | Arg::Signed(n) => gen::limbs(t, n),
        Arg::NonZero(n) | Arg::SignedNonZero(n) => gen::nonzero(t, n),
        Arg::Odd(n) => gen::odd(t, n),
        Arg::OddGe3(n) => {
            let (mut v, _) = gen::odd_modulus(t, n);
            if bit_len(&v) <= 1 {
                v[0] = 3;
            }
            v
        }
        Arg::Below(n, r) => limbs_exact(&gen::residue(t, &big(resolve(r, s, p))), n),
        Arg::TwoPowMinus(n, r) => limbs_exact(&(pow2(64 * n as u64) - big(resolve(r, s, p))), n),
        Arg::Word => vec![gen::word(t)],
        Arg::WordNonZero => vec![gen::word(t).max(1)],
        Arg::UpTo(max) => vec![t.edgy(max)],
        Arg::Bit => vec![t.bool() as u64],
        Arg::OddBand(n) => {
            let mut v = t.expand(n);
            v[n - 1] = t.range(0x6B85_1EB8_51EB_851F, 0x7EB8_51EB_851E_B851);
            v[0] |= 1;
            v
        }
        Arg::ExpDoubleReduction { base, modulus } => {
            // as in the IR-level driver: half of the exponents are searched with the oracle-side ladder
            // model so that the boxed accumulator leaves the loop at or above 2m
            if t.bool() {
                let ml = resolve(modulus, s, p);
                let m = big(ml);
                let x = big(resolve(base, s, p)) % &m;
                let x_mont = (x << (64 * ml.len())) % &m;
                let (off1, off2) = (t.below(15), t.below(16));
                vec![c09::model::Amm::new(&m, ml.len()).search_double_reduction(&x_mont, off1, off2).0]
            } else {
                vec![t.below(4096)]
            }
        }
    }
}

fn tape_for(seed: u64, name: &str, k: u64) -> Tape {
    let mut s = seed ^ vmodel::tape::fnv1a(name.as_bytes()).rotate_left(13) ^ k.wrapping_mul(0x9E37_79B9_7F4A_7C15);
    Tape::new((0..512).map(|_| splitmix(&mut s)).collect())
}

fn selected_quick(op: &Op) -> bool {
    let n = &op.name;
    if n.contains("ladder result") {
        return n.ends_with("/1 limbs");
    }
    selected(op) && (n.ends_with("/U256") || n.ends_with("/I256") || n.starts_with("limb/")) && op.family != "monty-pow"
}

fn selected(op: &Op) -> bool {
    // safegcd family: known finding F-01b; pow: long traces, covered at IR level
    if op.family == "safegcd" {
        return false;
    }
    let n = &op.name;
    if n.contains("ladder result") {
        return n.ends_with("/1 limbs") || n.ends_with("/2 limbs");
    }
    let small = n.ends_with("/U64") || n.ends_with("/U256") || n.ends_with("/I256") || n.ends_with("/4 limbs") || n.starts_with("limb/");
    small && !(op.family == "monty-pow" && !n.ends_with("/U64"))
}

#[derive(Default, Clone)]
struct Trace {
    h1: u64,
    h2: u64,
    lines: u64,
    instrs: u64,
}

/// hash the lackey trace, skipping events of the dynamic loader (instruction addresses in `skip`)
fn hash_trace(path: &str, skip: (u64, u64), keep: Option<&mut Vec<String>>) -> std::io::Result<Trace> {
    let f = BufReader::with_capacity(1 << 20, std::fs::File::open(path)?);
    let mut t = Trace { h1: 0xcbf2_9ce4_8422_2325, h2: 0x1234_5678_9abc_def1, ..Default::default() };
    let mut in_skip = false;
    let mut keep = keep;
    for line in f.split(b'\n') {
        let line = line?;
        if line.len() < 4 {
            continue;
        }
        let is_i = line[0] == b'I' && line[1] == b' ';
        let is_m = line[0] == b' ' && matches!(line[1], b'L' | b'S' | b'M') && line[2] == b' ';
        if !is_i && !is_m {
            continue;
        }
        if is_i {
            let hex = &line[3..];
            let end = hex.iter().position(|&c| c == b',').unwrap_or(hex.len());
            let addr = u64::from_str_radix(std::str::from_utf8(&hex[..end]).unwrap_or("0").trim(), 16).unwrap_or(0);
            in_skip = addr >= skip.0 && addr < skip.1;
            if !in_skip {
                t.instrs += 1;
            }
        }
        if in_skip {
            continue;
        }
        // Data addresses are compared at 8-byte granularity (size dropped): valgrind models
        // `bt m64, r64` as a 1-byte access at base + bit/8, whereas the hardware reads the aligned
        // word containing the bit (Intel SDM, BT), so byte offsets inside one word are a modelling
        // artefact of the tracer, not an access pattern of the code.
        let mut canon: Vec<u8> = Vec::with_capacity(line.len());
        if is_m {
            let hex = &line[3..];
            let end = hex.iter().position(|&c| c == b',').unwrap_or(hex.len());
            let addr = u64::from_str_radix(std::str::from_utf8(&hex[..end]).unwrap_or("0").trim(), 16).unwrap_or(0) & !7;
            canon.extend_from_slice(&line[..3]);
            canon.extend_from_slice(format!("{addr:x}").as_bytes());
        } else {
            canon.extend_from_slice(&line);
        }
        let line = canon;
        for &b in &line {
            t.h1 = (t.h1 ^ b as u64).wrapping_mul(0x0000_0100_0000_01B3);
        }
        t.h2 = (t.h2.rotate_left(23) ^ t.h1).wrapping_mul(0x9E37_79B9_7F4A_7C15);
        t.lines += 1;
        if let Some(k) = keep.as_mut() {
            k.push(String::from_utf8_lossy(&line).to_string());
        }
    }
    Ok(t)
}

fn write_input(path: &str, publics: &[Vec<u64>], secrets: &[Vec<u64>]) {
    let mut f = std::fs::File::create(path).unwrap();
    for v in publics.iter().chain(secrets.iter()) {
        for w in v {
            f.write_all(&w.to_le_bytes()).unwrap();
        }
    }
}

fn run_lackey(exe: &str, idx: usize, input: &str, log: &str) -> bool {
    let _ = std::fs::remove_file(log);
    let st = std::process::Command::new("valgrind")
        .args(["--tool=lackey", "--trace-mem=yes", &format!("--log-file={log}"), exe, "run", &idx.to_string(), input])
        .env_clear()
        .env("PATH", "/usr/bin:/bin")
        .stdout(std::process::Stdio::null())
        .stderr(std::process::Stdio::null())
        .status();
    matches!(st, Ok(s) if s.success())
}

fn main() {
    let args: Vec<String> = std::env::args().collect();
    let ops = ctwrap::ops(false);
    match args.get(1).map(|s| s.as_str()) {
        Some("list") => {
            for (i, op) in ops.iter().enumerate() {
                let (s, p) = shape(op);
                println!("{i}\t{}\t{}\t{:?}\t{:?}\t{}", op.name, op.family, s, p, if selected(op) { "selected" } else { "-" });
            }
        }
        Some("run") => {
            let idx: usize = args[2].parse().unwrap();
            let op = &ops[idx];
            let (s, p) = shape(op);
            let mut raw = Vec::new();
            std::fs::File::open(&args[3]).unwrap().read_to_end(&mut raw).unwrap();
            let total: usize = s.iter().chain(p.iter()).sum();
            assert_eq!(raw.len(), total * 8, "input file size");
            let mut words = raw.chunks(8).map(|c| u64::from_le_bytes(c.try_into().unwrap()));
            let mut inp = Inputs { s: vec![], p: vec![] };
            for n in &p {
                inp.p.push((0..*n).map(|_| words.next().unwrap()).collect());
            }
            for n in &s {
                inp.s.push((0..*n).map(|_| words.next().unwrap()).collect());
            }
            (op.run)(std::hint::black_box(&inp));
        }
        Some("check") => check(&args[2..], &ops),
        _ => {
            eprintln!("usage: mc01 list | mc01 run <index> <input-file> | mc01 check [...]");
            std::process::exit(2);
        }
    }
}

fn check(args: &[String], ops: &[Op]) {
    let mut seed = 0u64;
    let mut secrets = 4usize;
    let mut jobs = std::thread::available_parallelism().map(|n| n.get()).unwrap_or(8);
    let mut out: Option<String> = None;
    let mut only: Option<String> = None;
    let mut scratch = String::from("mc01-scratch");
    let mut quick = false;
    let mut it = args.iter();
    while let Some(a) = it.next() {
        match a.as_str() {
            "--seed" => seed = it.next().and_then(|s| s.parse::<i128>().ok()).map(|v| v as u64).unwrap_or(0),
            "--secrets" => secrets = it.next().and_then(|s| s.parse().ok()).unwrap_or(4),
            "--jobs" => jobs = it.next().and_then(|s| s.parse().ok()).unwrap_or(8),
            "--out" => out = it.next().cloned(),
            "--only" => only = it.next().cloned(),
            "--scratch" => scratch = it.next().cloned().unwrap(),
            "--tier" => quick = it.next().map(|s| s == "quick").unwrap_or(false),
            x => {
                eprintln!("unknown argument {x}");
                std::process::exit(2);
            }
        }
    }
    let exe = std::env::current_exe().unwrap().to_string_lossy().to_string();
    std::fs::create_dir_all(&scratch).unwrap();
    if std::process::Command::new("valgrind").arg("--version").output().is_err() {
        println!("INCONCLUSIVE: valgrind not available for the machine-level spot check");
        std::process::exit(2);
    }
    let sel: Vec<usize> = (0..ops.len()).filter(|&i| (if quick { selected_quick(&ops[i]) } else { selected(&ops[i]) }) && only.as_ref().map(|o| ops[i].name.contains(o.as_str())).unwrap_or(true)).collect();
    // valgrind loads the dynamic loader at 0x0400_0000 on x86-64 linux; its events are skipped
    let skip = (0x0400_0000u64, 0x0404_0000u64);
    let next = AtomicUsize::new(0);
    let results: Mutex<Vec<Value>> = Mutex::new(vec![]);
    let violations: Mutex<Vec<String>> = Mutex::new(vec![]);
    let inconclusive: Mutex<Vec<String>> = Mutex::new(vec![]);
    let retried = AtomicUsize::new(0);
    let t0 = std::time::Instant::now();
    std::thread::scope(|sc| {
        for tid in 0..jobs {
            let (next, results, violations, inconclusive, sel, scratch, exe, retried) = (&next, &results, &violations, &inconclusive, &sel, &scratch, &exe, &retried);
            sc.spawn(move || loop {
                let j = next.fetch_add(1, Ordering::SeqCst);
                if j >= sel.len() {
                    break;
                }
                let idx = sel[j];
                let op = &ops[idx];
                // one public assignment, `secrets` secret tuples (the first two from the edge end of the generators)
                let mut t = tape_for(seed, &op.name, 0);
                let mut publics: Vec<Vec<u64>> = vec![];
                for a in &op.public {
                    let v = gen_arg(&mut t, a, &[], &publics);
                    publics.push(v);
                }
                let mut tuples: Vec<Vec<Vec<u64>>> = vec![];
                for k in 0..secrets {
                    let mut t = tape_for(seed, &op.name, 1 + k as u64);
                    let mut s: Vec<Vec<u64>> = vec![];
                    for a in &op.secret {
                        let v = gen_arg(&mut t, a, &s, &publics);
                        s.push(v);
                    }
                    tuples.push(s);
                }
                let input = format!("{scratch}/in-{tid}.bin");
                let log = format!("{scratch}/log-{tid}");
                // One attempt: trace every secret tuple, re-trace the first one (the reference trace must
                // reproduce for identical inputs), compare. A disturbed attempt (worker or valgrind
                // failure, unreadable trace, irreproducible reference, a divergence that does not show up
                // again when the two runs are repeated) is retried; only an operation that stays
                // disturbed in every attempt is reported as inconclusive.
                enum Attempt {
                    Equal(Vec<Trace>),
                    Diverged(Vec<Trace>, String),
                    Disturbed(String),
                }
                let attempt = || -> Attempt {
                    let mut traces: Vec<Trace> = vec![];
                    for s in &tuples {
                        write_input(&input, &publics, s);
                        if !run_lackey(exe, idx, &input, &log) {
                            return Attempt::Disturbed("worker failed under valgrind".into());
                        }
                        match hash_trace(&log, skip, None) {
                            Ok(tr) => traces.push(tr),
                            Err(e) => return Attempt::Disturbed(format!("cannot read trace: {e}")),
                        }
                    }
                    write_input(&input, &publics, &tuples[0]);
                    let again = if run_lackey(exe, idx, &input, &log) { hash_trace(&log, skip, None).ok() } else { None };
                    match again {
                        Some(a) if a.h1 == traces[0].h1 && a.h2 == traces[0].h2 && a.lines == traces[0].lines => {}
                        _ => return Attempt::Disturbed("machine-level trace not reproducible for identical inputs".into()),
                    }
                    let mut diverged: Option<usize> = None;
                    for (k, tr) in traces.iter().enumerate().skip(1) {
                        if tr.h1 != traces[0].h1 || tr.h2 != traces[0].h2 || tr.lines != traces[0].lines {
                            diverged = Some(k);
                            break;
                        }
                    }
                    let Some(k) = diverged else { return Attempt::Equal(traces) };
                    // locate the first differing event (both runs repeated, full event lists kept)
                    let (mut l0, mut l1) = (vec![], vec![]);
                    write_input(&input, &publics, &tuples[0]);
                    run_lackey(exe, idx, &input, &log);
                    let _ = hash_trace(&log, skip, Some(&mut l0));
                    write_input(&input, &publics, &tuples[k]);
                    run_lackey(exe, idx, &input, &log);
                    let _ = hash_trace(&log, skip, Some(&mut l1));
                    let mut i = 0;
                    while i < l0.len() && i < l1.len() && l0[i] == l1[i] {
                        i += 1;
                    }
                    if i == l0.len() && i == l1.len() {
                        return Attempt::Disturbed("a divergence between two secret tuples did not reproduce when both runs were repeated".into());
                    }
                    let ctx0: Vec<&String> = l0.iter().skip(i.saturating_sub(3)).take(6).collect();
                    let ctx1: Vec<&String> = l1.iter().skip(i.saturating_sub(3)).take(6).collect();
                    let replay = json!({
                        "property": "C01", "layer": "machine-level (valgrind lackey)", "operation": op.name, "index": idx,
                        "publics": publics.iter().map(|v| hex(v)).collect::<Vec<_>>(),
                        "secret1": tuples[0].iter().map(|v| hex(v)).collect::<Vec<_>>(),
                        "secret2": tuples[k].iter().map(|v| hex(v)).collect::<Vec<_>>(),
                        "events": [traces[0].lines, traces[k].lines], "first_divergence_at_event": i,
                        "context1": ctx0, "context2": ctx1,
                    });
                    Attempt::Diverged(traces, replay.to_string())
                };
                let mut outcome = attempt();
                let mut tries = 1;
                while matches!(outcome, Attempt::Disturbed(_)) && tries < 4 {
                    std::thread::sleep(std::time::Duration::from_millis(500 * tries));
                    retried.fetch_add(1, Ordering::SeqCst);
                    outcome = attempt();
                    tries += 1;
                }
                let (traces, diverged) = match outcome {
                    Attempt::Equal(t) => (t, false),
                    Attempt::Diverged(t, replay) => {
                        violations.lock().unwrap().push(format!("{}\u{1}{}", op.name, replay));
                        (t, true)
                    }
                    Attempt::Disturbed(why) => {
                        inconclusive.lock().unwrap().push(format!("{}: {why} (in {tries} attempts)", op.name));
                        continue;
                    }
                };
                let diverged = if diverged { Some(1usize) } else { None };
                results.lock().unwrap().push(json!({"operation": op.name, "secret_tuples": tuples.len(), "events_per_run": traces[0].lines, "instructions_per_run": traces[0].instrs, "equal": diverged.is_none(),
                    "sample": {"publics": publics.iter().map(|v| hex(v)).collect::<Vec<_>>(), "secret1": tuples[0].iter().map(|v| hex(v)).collect::<Vec<_>>(), "secret2": tuples[1 % tuples.len()].iter().map(|v| hex(v)).collect::<Vec<_>>()}}));
            });
        }
    });
    let results = results.into_inner().unwrap();
    let violations = violations.into_inner().unwrap();
    let inconclusive = inconclusive.into_inner().unwrap();
    let root = vmodel::engine::verif_root();
    let mut nviol = 0;
    for v in &violations {
        let (name, body) = v.split_once('\u{1}').unwrap();
        let dir = root.join("replays").join("C01");
        let _ = std::fs::create_dir_all(&dir);
        let safe: String = name.chars().map(|c| if c.is_ascii_alphanumeric() { c } else { '_' }).collect();
        let path = dir.join(format!("machine-level-{safe}.json"));
        let _ = std::fs::write(&path, body);
        println!("FAIL [machine-level] {name}: lackey traces differ between two secret tuples; {}", &body[..body.len().min(600)]);
        println!("VIOLATION property=C01 replay={}", path.display());
        nviol += 1;
    }
    for m in &inconclusive {
        println!("INCONCLUSIVE: {m}");
    }
    let runs: u64 = results.iter().map(|r| r["secret_tuples"].as_u64().unwrap_or(0) + 1).sum();
    let events: u64 = results.iter().map(|r| r["events_per_run"].as_u64().unwrap_or(0) * (r["secret_tuples"].as_u64().unwrap_or(0))).sum();
    println!("C01 [machine-level] operations={} runs={} events_compared={} violations={} inconclusive={} retried_attempts={} wall={:.1}s", results.len(), runs, events, nviol, inconclusive.len(), retried.load(Ordering::SeqCst), t0.elapsed().as_secs_f64());
    if let Some(o) = out {
        let ev = json!({"layer": "machine-level traces (valgrind --tool=lackey --trace-mem=yes) of the uninstrumented optimized build: address of every executed instruction and of every load/store, compared between secret tuples; dynamic-loader events excluded",
            "operations": results.len(), "valgrind_runs": runs, "events_compared": events, "violations": nviol, "inconclusive": inconclusive, "retried_attempts": retried.load(Ordering::SeqCst), "per_operation": results, "wall_s": t0.elapsed().as_secs_f64()});
        std::fs::write(o, vmodel::serde_json::to_string_pretty(&ev).unwrap()).unwrap();
    }
    std::process::exit(if nviol > 0 { 1 } else if !inconclusive.is_empty() { 2 } else { 0 });
}
