fn main() {
    vmodel::cli_main(c13::spec())
}
