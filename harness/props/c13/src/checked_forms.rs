//! `Checked<T>` over operation *histories*: a `none` operand (the state an earlier overflowing
//! checked operation leaves behind, whatever value it hides) must stay `none` through EVERY operator
//! form — `x op y`, `x op &y`, `&x op y`, `&x op &y`, `x op= y`, `x op= &y` for op in {+, -, *} — whether
//! it is the left operand, the right operand or both, and whatever the other operand is (in
//! particular 0 and 1, which make the arithmetic itself succeed). Added after the round-2 seeded change
//! C13-D (`Checked<Int> -= &Checked<Int>` ignoring a none right-hand side) was missed: the first
//! version only probed `none op some` for the by-value forms.
//!
//! Non-trivial: the visible operand is 0 or 1 (the arithmetic on the hidden value would succeed), or
//! both are none.

#[macro_export]
macro_rules! checked_none_forms {
    ($fname:ident, $t:ty, $mk:expr) => {
        pub fn $fname(t: &mut vmodel::Tape, c: &mut vmodel::Case) -> vmodel::CaseResult {
            use crypto_bigint::Checked;
            use vmodel::subtle::CtOption;
            let mk = $mk;
            let pick = |t: &mut vmodel::Tape| -> (Vec<u64>, $t) {
                let l: Vec<u64> = match t.weighted(&[3, 3, 4]) {
                    0 => { let mut v = vmodel::gen::limbs(t, 1); v[0] = 0; mk_limbs::<$t>(t, v, 0) }
                    1 => mk_limbs::<$t>(t, vec![], 1),
                    _ => mk_limbs::<$t>(t, vec![], 2),
                };
                let x: $t = mk(&l);
                (l, x)
            };
            let (al, a) = pick(t);
            let (bl, b) = pick(t);
            c.limbs("a", &al);
            c.limbs("b", &bl);
            let which = t.below(3); // 0: lhs none, 1: rhs none, 2: both
            c.num("none_operand", which);
            let some = |x: $t| Checked::new(x);
            let none = |x: $t| Checked::<$t>(CtOption::new(x, 0.into()));
            let (x, y) = match which {
                0 => (none(a), some(b)),
                1 => (some(a), none(b)),
                _ => (none(a), none(b)),
            };
            let small = |l: &Vec<u64>| l.iter().skip(1).all(|&w| w == 0) && l[0] <= 1;
            c.nontrivial(which == 2 || (which == 0 && small(&bl)) || (which == 1 && small(&al)));
            c.label(match which { 0 => "lhs none", 1 => "rhs none", _ => "both none" });
            macro_rules! op_forms {
                ($opname:literal, $op:tt, $opa:tt) => {{
                    let r: [(&str, Checked<$t>); 6] = [
                        (concat!("Checked ", $opname, " Checked"), x $op y),
                        (concat!("Checked ", $opname, " &Checked"), x $op &y),
                        (concat!("&Checked ", $opname, " Checked"), &x $op y),
                        (concat!("&Checked ", $opname, " &Checked"), &x $op &y),
                        (concat!("Checked ", $opname, "= Checked"), { let mut z = x; z $opa y; z }),
                        (concat!("Checked ", $opname, "= &Checked"), { let mut z = x; z $opa &y; z }),
                    ];
                    for (name, v) in r.iter() {
                        vmodel::vensure!(!bool::from(v.0.is_some()), "{} ({}): a none operand must stay none, but the result is some", name, stringify!($t));
                    }
                }};
            }
            op_forms!("+", +, +=);
            op_forms!("-", -, -=);
            op_forms!("*", *, *=);
            Ok(())
        }
    };
}

/// limbs for the visible / hidden values: kind 0 = zero, 1 = one, 2 = arbitrary
pub fn mk_limbs<T>(t: &mut vmodel::Tape, _seed: Vec<u64>, kind: u8) -> Vec<u64> {
    let n = core::mem::size_of::<T>() / 8;
    match kind {
        0 => vec![0; n],
        1 => { let mut v = vec![0; n]; v[0] = 1; v }
        _ => vmodel::gen::limbs(t, n),
    }
}
