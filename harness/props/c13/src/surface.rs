//! C13 surface — API-surface audit of the signed-integer family (see /verif/audit/D.md).
//!
//! Every `impl` block / public inherent fn of `src/int.rs`, `src/int/{add,sub,neg,mul,mul_uint,sign,
//! resize,from,types}.rs` and the `Int` instantiations of `Wrapping<T>` / `Checked<T>` was listed with
//! its user-reachable instantiation families; the families no C13 sub-check called are exercised
//! here. Oracle and generators are the ones of the crate (BigInt; `gens.rs`).
//!
//! * `surface/widths/*`  — the complete add/sub/neg, mul/square, widening, sign/abs, from-primitive
//!   and zero/one case functions at limb counts outside the property's list (5, 6, 7, 9 limbs; 32 and
//!   64 limbs through the aliases `I2048` / `I4096` of `src/int/types.rs`), mixed pairs with such a
//!   width on either side, and `resize` / `From<&Int>` to targets 5, 6, 7, 9, 32.
//! * `surface/routes/*`  — the same operations reached through a generic function bounded by the
//!   trait (`fn f<T: CheckedAdd>`, `A: Add<B, Output = O>`, `AddAssign<B>`, `Zero`-seeded folds),
//!   through method-call syntax on trait-only methods, through `.into()`, and the ways a caller reads
//!   a checked result: `ConstCtOption<Int>::{is_some, is_none, unwrap_or, expect, unwrap}`,
//!   `CtOption::from(ConstCtOption)`, `CtOption::{unwrap_or, is_some}`, `Option::from(Checked)`,
//!   `CtOption::from(Checked)`, `Checked::from(CtOption)`, `Checked::default()`.
//! * `surface/history/*` — `Checked<Int>` / `Wrapping<Int>` over operation histories: the `none` state
//!   is produced by a real overflow (not constructed), flows through later operator forms chosen per
//!   step, through `conditional_select` against a fresh value and through the conversions.
//! * `surface/views/*`   — `AsRef<[Word; N]>`, `AsMut<[Word; N]>`, `AsRef<[Limb]>`, `AsMut<[Limb]>`,
//!   `as_words_mut`, `as_limbs_mut` of `Int` (the value read back is the two's-complement value of the
//!   words written), `Int::{BYTES, LIMBS}`, `Bounded::{BITS, BYTES}`.
//! * `surface/nonzero-abs-sign/*` — `NonZero<Int>::abs_sign` (value-exact incl. MIN), reconstruction.
//!
//! Documentation the assertions rest on (nothing beyond it is asserted):
//! * property statement: "wrapping forms return the result modulo 2^BITS reinterpreted in two's
//!   complement, and checked or overflowing forms report overflow exactly when the true result lies
//!   outside [MIN, MAX]"; "reconstruction from (magnitude, sign) [is] exact, including for MIN".
//! * `ConstCtOption<Int>::unwrap_or`: "returns the underlying value if it is `Some` or the provided
//!   value otherwise"; `expect`: "Panics if the value is none"; `unwrap`: "returns the underlying value
//!   but panics if it is not `Some`"; `is_some` / `is_none`: "a true ConstChoice if this value is
//!   `Some`" / "`None`".
//! * `subtle::ConditionallySelectable::conditional_select(a, b, choice)`: "Returns `a` if `choice ==
//!   Choice(0)`; `b` if `choice == Choice(1)`".
//! * `NonZero<Int>::abs_sign`: "Convert a `NonZero<Int>` to its sign and `NonZero<Uint>` magnitude".
//! * `Int::as_words_mut` / `as_limbs_mut`: "Borrow the inner limbs as a mutable array of `Word`s" /
//!   "Borrow the limbs of this `Int` mutably"; `BYTES`: "Total size of the represented integer in
//!   bytes"; `LIMBS`: "The number of limbs used on this platform"; `Bounded::BITS/BYTES`: "Size of this
//!   integer in bits / bytes".
//! * The `AsRef` / `AsMut` impls of `Int` and `Default for Checked<T>` carry no documentation.
//!   `AsRef`/`AsMut`: only "the view shows / stores the words of the value" is asserted (the only
//!   reading under which `Int` is the documented newtype of its limbs). `Checked::default()`: nothing
//!   is asserted about which state it is (labelled); whatever the state, arithmetic on it must follow
//!   the checked semantics.
//! * `Int::resize`: as in `resize_case` (narrowing = truncated representation, documented lossy).
//!
//! Non-trivial (per family, the crate's rule): widths — the rule of the reused case function; routes —
//! one of a+b, a-b, -a, m*n, m*u outside [MIN, MAX] or within 1 of MIN / MAX, or an operand in {MIN, -1};
//! history — some step overflowed (the accumulator is none from there on) or a partial result lies
//! within 1 of MIN / MAX; views — the written word changes the sign bit or the value is within 1 of
//! MIN / MAX or -1; nonzero-abs-sign — operand within 1 of MIN / MAX or -1; resize — as `resize_case`.

use core::ops::{Add, AddAssign, Mul, MulAssign, Sub, SubAssign};

use crate::gens::*;
use crate::{addsub_case, cc, copt, from_case, label_operand, mul_case, mul_eq_case, resize_case, sign_case, sopt, wide_case, wide_eq_case};
use crypto_bigint::{
    Bounded, Checked, CheckedAdd, CheckedMul, CheckedSub, Int, Limb, NonZero, Word, Wrapping, WrappingAdd, WrappingSub, I2048, I4096,
};
use num_bigint::{BigInt, Sign};
use num_traits::{One, Zero};
use subtle::{Choice, ConditionallySelectable, CtOption};
use vmodel::gen;
use vmodel::*;

// ------------------------------------------------------------------------------------------------
// generic-function routes: the body only knows the trait bound

fn g_checked_add<T: CheckedAdd>(a: &T, b: &T) -> CtOption<T> {
    a.checked_add(b)
}
fn g_checked_sub<T: CheckedSub>(a: &T, b: &T) -> CtOption<T> {
    a.checked_sub(b)
}
fn g_checked_mul<T: CheckedMul<R>, R>(a: &T, b: &R) -> CtOption<T> {
    a.checked_mul(b)
}
fn g_wrapping_add<T: WrappingAdd>(a: &T, b: &T) -> T {
    a.wrapping_add(b)
}
fn g_wrapping_sub<T: WrappingSub>(a: &T, b: &T) -> T {
    a.wrapping_sub(b)
}
fn g_add<A: Add<B, Output = O>, B, O>(a: A, b: B) -> O {
    a + b
}
fn g_sub<A: Sub<B, Output = O>, B, O>(a: A, b: B) -> O {
    a - b
}
fn g_mul<A: Mul<B, Output = O>, B, O>(a: A, b: B) -> O {
    a * b
}
fn g_add_assign<A: AddAssign<B>, B>(mut a: A, b: B) -> A {
    a += b;
    a
}
fn g_sub_assign<A: SubAssign<B>, B>(mut a: A, b: B) -> A {
    a -= b;
    a
}
fn g_mul_assign<A: MulAssign<B>, B>(mut a: A, b: B) -> A {
    a *= b;
    a
}
/// `Zero`-seeded left fold with `+` (what `Iterator::fold(T::zero(), Add::add)` does).
fn g_sum<T: num_traits::Zero + Copy>(xs: &[T]) -> T {
    xs.iter().fold(T::zero(), |s, x| s + *x)
}
/// `One`-seeded left fold with `*`.
fn g_product<T: num_traits::One + Copy>(xs: &[T]) -> T {
    xs.iter().fold(T::one(), |s, x| s * *x)
}

fn routes_case<const N: usize>(t: &mut Tape, c: &mut Case) -> CaseResult {
    let (al, bl_) = addsub_pair(t, N);
    let dl = sint(t, N);
    let (ml, nl, how) = mul_pair(t, N, N);
    let ul_ = mul_uint_operand(t, &ml, &nl, N);
    c.limbs("a", &al);
    c.limbs("b", &bl_);
    c.limbs("d", &dl);
    c.limbs("m", &ml);
    c.limbs("n", &nl);
    c.limbs("u", &ul_);
    c.label(how);
    let w = Wd::new(N);
    let (a, b, d, m, n, u) = (int::<N>(&al), int::<N>(&bl_), int::<N>(&dl), int::<N>(&ml), int::<N>(&nl), uint::<N>(&ul_));
    let (av, bv, mv, nv, uv) = (sbig(&al), sbig(&bl_), sbig(&ml), sbig(&nl), pbig(big(&ul_)));
    label_operand(c, &w, &av);
    label_operand(c, &w, &bv);
    let sum = &av + &bv;
    let diff = &av - &bv;
    let na = -&av;
    let p = &mv * &nv;
    let q = &mv * &uv;
    c.nontrivial(
        w.edge_or_out(&sum) || w.edge_or_out(&diff) || w.edge_or_out(&na) || w.edge_or_out(&p) || w.edge_or_out(&q) || w.special(&av) || w.special(&bv) || w.special(&mv) || w.special(&nv),
    );
    c.label(if w.fits(&sum) { "routes: sum fits" } else { "routes: sum overflows" });
    c.label(if w.fits(&diff) { "routes: difference fits" } else { "routes: difference overflows" });
    c.label(if w.fits(&p) { "routes: m*n fits" } else { "routes: m*n overflows" });
    let (s_fits, s_want) = (w.fits(&sum), twos(&sum, N));
    let (d_fits, d_want) = (w.fits(&diff), twos(&diff, N));
    let (n_fits, n_want) = (w.fits(&na), twos(&na, N));
    let (p_fits, p_want) = (w.fits(&p), twos(&p, N));
    let (q_fits, q_want) = (w.fits(&q), twos(&q, N));

    // ---- generic functions bounded by the crate's / num_traits' traits ----
    chk_opt!("fn<T: CheckedAdd>", sopt(g_checked_add(&a, &b)), s_fits, s_want);
    chk_opt!("fn<T: CheckedSub>", sopt(g_checked_sub(&a, &b)), d_fits, d_want);
    chk_opt!("fn<T: CheckedMul<Int>>", sopt(g_checked_mul(&m, &n)), p_fits, p_want);
    chk_opt!("fn<T: CheckedMul<Uint>>", sopt(g_checked_mul(&m, &u)), q_fits, q_want);
    veq!(il(&g_wrapping_add(&a, &b)), s_want, "fn<T: WrappingAdd>");
    veq!(il(&g_wrapping_sub(&a, &b)), d_want, "fn<T: WrappingSub>");
    // ---- generic functions bounded by the operator traits ----
    chk_op!("fn<A: Add<B>> (Int, Int)", g_add(a, b), s_fits, s_want);
    chk_op!("fn<A: Add<B>> (Int, &Int)", g_add(a, &b), s_fits, s_want);
    chk_op!("fn<A: AddAssign<B>> (Int, Int)", g_add_assign(a, b), s_fits, s_want);
    chk_op!("fn<A: AddAssign<B>> (Int, &Int)", g_add_assign(a, &b), s_fits, s_want);
    chk_op!("fn<A: Sub<B>> (Int, Int)", g_sub(a, b), d_fits, d_want);
    chk_op!("fn<A: Sub<B>> (Int, &Int)", g_sub(a, &b), d_fits, d_want);
    chk_op!("fn<A: Mul<B>> (Int, Int)", g_mul(m, n), p_fits, p_want);
    chk_op!("fn<A: Mul<B>> (Int, &Int)", g_mul(m, &n), p_fits, p_want);
    chk_op!("fn<A: Mul<B>> (&Int, Int)", g_mul(&m, n), p_fits, p_want);
    chk_op!("fn<A: Mul<B>> (&Int, &Int)", g_mul(&m, &n), p_fits, p_want);
    chk_op!("fn<A: Mul<B>> (Int, Uint)", g_mul(m, u), q_fits, q_want);
    chk_op!("fn<A: Mul<B>> (Int, &Uint)", g_mul(m, &u), q_fits, q_want);
    chk_op!("fn<A: Mul<B>> (&Int, Uint)", g_mul(&m, u), q_fits, q_want);
    chk_op!("fn<A: Mul<B>> (&Int, &Uint)", g_mul(&m, &u), q_fits, q_want);
    // wrappers through the same generic functions
    veq!(il(&g_add(Wrapping(a), Wrapping(b)).0), s_want, "fn<A: Add<B>> (Wrapping, Wrapping)");
    veq!(il(&g_add(Wrapping(a), &Wrapping(b)).0), s_want, "fn<A: Add<B>> (Wrapping, &Wrapping)");
    veq!(il(&g_add(&Wrapping(a), Wrapping(b)).0), s_want, "fn<A: Add<B>> (&Wrapping, Wrapping)");
    veq!(il(&g_add(&Wrapping(a), &Wrapping(b)).0), s_want, "fn<A: Add<B>> (&Wrapping, &Wrapping)");
    veq!(il(&g_add_assign(Wrapping(a), Wrapping(b)).0), s_want, "fn<A: AddAssign<B>> (Wrapping, Wrapping)");
    veq!(il(&g_add_assign(Wrapping(a), &Wrapping(b)).0), s_want, "fn<A: AddAssign<B>> (Wrapping, &Wrapping)");
    veq!(il(&g_sub(Wrapping(a), Wrapping(b)).0), d_want, "fn<A: Sub<B>> (Wrapping, Wrapping)");
    veq!(il(&g_sub(Wrapping(a), &Wrapping(b)).0), d_want, "fn<A: Sub<B>> (Wrapping, &Wrapping)");
    veq!(il(&g_sub(&Wrapping(a), Wrapping(b)).0), d_want, "fn<A: Sub<B>> (&Wrapping, Wrapping)");
    veq!(il(&g_sub(&Wrapping(a), &Wrapping(b)).0), d_want, "fn<A: Sub<B>> (&Wrapping, &Wrapping)");
    veq!(il(&g_sub_assign(Wrapping(a), Wrapping(b)).0), d_want, "fn<A: SubAssign<B>> (Wrapping, Wrapping)");
    veq!(il(&g_sub_assign(Wrapping(a), &Wrapping(b)).0), d_want, "fn<A: SubAssign<B>> (Wrapping, &Wrapping)");
    let (ca, cb, cm, cn) = (Checked::new(a), Checked::new(b), Checked::new(m), Checked::new(n));
    chk_opt!("fn<A: Add<B>> (Checked, Checked)", sopt(g_add(ca, cb).0), s_fits, s_want);
    chk_opt!("fn<A: Add<B>> (&Checked, &Checked)", sopt(g_add(&ca, &cb).0), s_fits, s_want);
    chk_opt!("fn<A: AddAssign<B>> (Checked, &Checked)", sopt(g_add_assign(ca, &cb).0), s_fits, s_want);
    chk_opt!("fn<A: Sub<B>> (Checked, &Checked)", sopt(g_sub(ca, &cb).0), d_fits, d_want);
    chk_opt!("fn<A: Sub<B>> (&Checked, Checked)", sopt(g_sub(&ca, cb).0), d_fits, d_want);
    chk_opt!("fn<A: SubAssign<B>> (Checked, Checked)", sopt(g_sub_assign(ca, cb).0), d_fits, d_want);
    chk_opt!("fn<A: SubAssign<B>> (Checked, &Checked)", sopt(g_sub_assign(ca, &cb).0), d_fits, d_want);
    chk_opt!("fn<A: Mul<B>> (Checked, Checked)", sopt(g_mul(cm, cn).0), p_fits, p_want);
    chk_opt!("fn<A: Mul<B>> (&Checked, &Checked)", sopt(g_mul(&cm, &cn).0), p_fits, p_want);
    chk_opt!("fn<A: MulAssign<B>> (Checked, Checked)", sopt(g_mul_assign(cm, cn).0), p_fits, p_want);
    chk_opt!("fn<A: MulAssign<B>> (Checked, &Checked)", sopt(g_mul_assign(cm, &cn).0), p_fits, p_want);

    // ---- Zero / One seeded folds: 0 + a + b + d and 1 * m * n (panicking operators: the fold panics
    //      exactly when a partial result leaves [MIN, MAX]; Wrapping never panics) ----
    let s3 = &sum + sbig(&dl);
    let fold_fits = s_fits && w.fits(&s3);
    chk_op!("fold(Int::zero(), +) over [a, b, d]", g_sum(&[a, b, d]), fold_fits, twos(&s3, N));
    let got = total("fold(Wrapping::zero(), +)", || g_sum(&[Wrapping(a), Wrapping(b), Wrapping(d)]))?;
    veq!(il(&got.0), twos(&s3, N), "fold(Wrapping<Int>::zero(), +) over [a, b, d]");
    chk_op!("fold(Int::one(), *) over [m, n]", g_product(&[m, n]), p_fits, p_want);

    // ---- method-call syntax on trait-only methods (no inherent method of that name) ----
    chk_opt!("a.checked_sub(&b)", sopt(a.checked_sub(&b)), d_fits, d_want);
    veq!(il(&a.wrapping_sub(&b)), d_want, "a.wrapping_sub(&b)");
    chk_opt!("m.checked_mul(&n)", sopt(m.checked_mul(&n)), p_fits, p_want);
    chk_opt!("m.checked_mul(&u)", sopt(m.checked_mul(&u)), q_fits, q_want);

    // ---- reading a ConstCtOption<Int> ----
    veq!(bool::from(a.checked_add(&b).is_some()), s_fits, "Int::checked_add(..).is_some()");
    veq!(bool::from(a.checked_add(&b).is_none()), !s_fits, "Int::checked_add(..).is_none()");
    veq!(il(&a.checked_add(&b).unwrap_or(d)), if s_fits { s_want.clone() } else { dl.clone() }, "Int::checked_add(..).unwrap_or(d)");
    chk_op!("Int::checked_add(..).expect(..)", a.checked_add(&b).expect("surface"), s_fits, s_want);
    chk_op!("Int::checked_add(..).unwrap()", a.checked_add(&b).unwrap(), s_fits, s_want);
    chk_opt!("CtOption::from(Int::checked_add(..))", sopt(CtOption::from(a.checked_add(&b))), s_fits, s_want);
    veq!(bool::from(a.checked_neg().is_some()), n_fits, "Int::checked_neg().is_some()");
    veq!(il(&a.checked_neg().unwrap_or(d)), if n_fits { n_want.clone() } else { dl.clone() }, "Int::checked_neg().unwrap_or(d)");
    chk_op!("Int::checked_neg().expect(..)", a.checked_neg().expect("surface"), n_fits, n_want);
    chk_opt!("CtOption::from(Int::checked_neg())", sopt(CtOption::from(a.checked_neg())), n_fits, n_want);
    // (|b|, sign of a): representable exactly when the signed value fits
    let (mag, _) = b.abs_sign();
    let sg = av.sign() == Sign::Minus;
    let rv = if sg { -pbig(big(&ul(&mag))) } else { pbig(big(&ul(&mag))) };
    let (r_fits, r_want) = (w.fits(&rv), twos(&rv, N));
    veq!(bool::from(Int::<N>::new_from_abs_sign(mag, cc(sg)).is_some()), r_fits, "Int::new_from_abs_sign(..).is_some()");
    veq!(il(&Int::<N>::new_from_abs_sign(mag, cc(sg)).unwrap_or(d)), if r_fits { r_want.clone() } else { dl.clone() }, "Int::new_from_abs_sign(..).unwrap_or(d)");
    chk_op!("Int::new_from_abs_sign(..).expect(..)", Int::<N>::new_from_abs_sign(mag, cc(sg)).expect("surface"), r_fits, r_want);

    // ---- reading a CtOption<Int> (unwrap_or goes through Int::conditional_select) ----
    veq!(il(&CheckedSub::checked_sub(&a, &b).unwrap_or(d)), if d_fits { d_want.clone() } else { dl.clone() }, "CheckedSub::checked_sub(..).unwrap_or(d)");
    veq!(bool::from(CheckedSub::checked_sub(&a, &b).is_some()), d_fits, "CheckedSub::checked_sub(..).is_some()");
    veq!(il(&CheckedMul::checked_mul(&m, &n).unwrap_or(d)), if p_fits { p_want.clone() } else { dl.clone() }, "CheckedMul::checked_mul(..).unwrap_or(d)");
    veq!(bool::from(CheckedMul::checked_mul(&m, &u).is_none()), !q_fits, "CheckedMul<Uint>::checked_mul(..).is_none()");

    // ---- Checked<Int> conversions ----
    chk_opt!("Option::from(Checked + Checked)", Option::<Int<N>>::from(ca + cb), s_fits, s_want);
    chk_opt!("CtOption::from(Checked - Checked)", sopt(CtOption::<Int<N>>::from(ca - cb)), d_fits, d_want);
    chk_opt!("Option::from(Checked * Checked)", Option::<Int<N>>::from(cm * cn), p_fits, p_want);
    // a result wrapped back into Checked keeps its state: (a + b) - b is a exactly when a + b fitted
    let back = Checked::<Int<N>>::from(CheckedAdd::checked_add(&a, &b));
    chk_opt!("Checked::from(CtOption of a + b) - Checked(b)", sopt((back - cb).0), s_fits, al.clone());
    let back = Checked::<Int<N>>::from(CtOption::from(a.checked_neg()));
    chk_opt!("Checked::from(CtOption of -a) + Checked(a)", sopt((back + ca).0), n_fits, vec![0u64; N]);
    // Checked::default(): undocumented which state; arithmetic on it must follow the checked semantics
    let dflt = total("Checked::<Int>::default", Checked::<Int<N>>::default)?;
    match Option::<Int<N>>::from(dflt) {
        Some(z) => {
            c.label(if is_zero(&il(&z)) { "Checked::default() = some(0)" } else { "Checked::default() = some(non-zero)" });
            let e = ibig(&z) + &av;
            chk_opt!("Checked::default() + Checked(a)", sopt((dflt + ca).0), w.fits(&e), twos(&e, N));
        }
        None => {
            c.label("Checked::default() = none");
            vensure!(sopt((dflt + ca).0).is_none(), "Checked::default() is none but default() + a is some");
        }
    }
    Ok(())
}

/// `.into()` / `From` routes of the primitive and width conversions.
fn into_case<const N: usize, const T1: usize, const T2: usize>(t: &mut Tape, c: &mut Case) -> CaseResult {
    let x8 = prim(t, 8) as i8;
    let x16 = prim(t, 16) as i16;
    let x32 = prim(t, 32) as i32;
    let x64 = prim(t, 64) as i64;
    let al = sint(t, N);
    c.inum("i8", x8 as i128);
    c.inum("i16", x16 as i128);
    c.inum("i32", x32 as i128);
    c.inum("i64", x64 as i128);
    c.limbs("a", &al);
    let w = Wd::new(N);
    let av = sbig(&al);
    label_operand(c, &w, &av);
    c.nontrivial(x8 < 0 || x16 < 0 || x32 < 0 || (x64 < 0 && N > 1) || x64 == i64::MIN || x64 == i64::MAX || w.edge_or_out(&av) || Wd::is_minus_one(&av));
    let v: Int<N> = total("i8.into()", || x8.into())?;
    veq!(il(&v), twos(&BigInt::from(x8), N), "let _: Int<{}> = {}i8.into()", N, x8);
    let v: Int<N> = total("i16.into()", || x16.into())?;
    veq!(il(&v), twos(&BigInt::from(x16), N), "let _: Int<{}> = {}i16.into()", N, x16);
    let v: Int<N> = total("i32.into()", || x32.into())?;
    veq!(il(&v), twos(&BigInt::from(x32), N), "let _: Int<{}> = {}i32.into()", N, x32);
    let v: Int<N> = total("i64.into()", || x64.into())?;
    veq!(il(&v), twos(&BigInt::from(x64), N), "let _: Int<{}> = {}i64.into()", N, x64);
    // width conversion through Into (From<&Int<N>> for Int<T>): sign extension / truncated representation
    let a = int::<N>(&al);
    let v: Int<T1> = total("(&Int).into()", || (&a).into())?;
    veq!(il(&v), twos(&av, T1), "let _: Int<{}> = (&Int<{}>).into()", T1, N);
    let v: Int<T2> = total("(&Int).into()", || (&a).into())?;
    veq!(il(&v), twos(&av, T2), "let _: Int<{}> = (&Int<{}>).into()", T2, N);
    if T1 > N || T2 > N {
        c.nontrivial(av.sign() == Sign::Minus);
    }
    Ok(())
}

// ------------------------------------------------------------------------------------------------
// Checked<Int> / Wrapping<Int> over operation histories

const YN: [&str; 6] = ["y0", "y1", "y2", "y3", "y4", "y5"];
const OPN: [&str; 6] = ["op0", "op1", "op2", "op3", "op4", "op5"];
const FORMN: [&str; 6] = ["form0", "form1", "form2", "form3", "form4", "form5"];

fn history_case<const N: usize>(t: &mut Tape, c: &mut Case) -> CaseResult {
    let w = Wd::new(N);
    let x0 = sint(t, N);
    c.limbs("x0", &x0);
    let steps = t.usize_in(2, 6);
    // oracle: `exact` is the Checked state (None once a step overflowed), `wr` the wrapped value
    let mut exact: Option<BigInt> = Some(sbig(&x0));
    let mut wr: BigInt = sbig(&x0);
    let mut acc = Checked::new(int::<N>(&x0));
    let mut wacc = Wrapping(int::<N>(&x0));
    let mut overflowed_at: Option<usize> = None;
    let mut edge = false;
    for i in 0..steps {
        let op = t.weighted(&[3, 3, 2, 1]); // + - * select
        let cur = exact.clone().unwrap_or_else(|| wr.clone());
        // operand steering the exact result to a boundary of [MIN, MAX]
        let yl: Limbs = match op {
            0 | 1 => {
                let target = match t.below(7) {
                    0 => smax(N),
                    1 => smax(N) + 1,
                    2 => smin(N),
                    3 => smin(N) - 1,
                    4 => BigInt::zero(),
                    _ => sbig(&sint(t, N)),
                };
                let y = if op == 0 { &target - &cur } else { &cur - &target };
                if fits_signed(&y, N) {
                    twos(&y, N)
                } else {
                    sint(t, N)
                }
            }
            2 => match t.below(8) {
                0 => twos(&BigInt::zero(), N),
                1 => twos(&BigInt::one(), N),
                2 => twos(&-BigInt::one(), N),
                3 => twos(&BigInt::from(2), N),
                4 => twos(&BigInt::from(-2), N),
                5 if !cur.is_zero() => {
                    // quotient of a boundary by the current value (+-1)
                    let bound = if t.bool() { smax(N) } else { smin(N) };
                    let q = &bound / &cur + BigInt::from(t.below(3) as i64 - 1);
                    if fits_signed(&q, N) {
                        twos(&q, N)
                    } else {
                        sint(t, N)
                    }
                }
                _ => sint(t, N),
            },
            _ => sint(t, N),
        };
        let form = t.below(6);
        c.num(OPN[i], op as u64);
        c.num(FORMN[i], form);
        c.limbs(YN[i], &yl);
        let yv = sbig(&yl);
        let y = int::<N>(&yl);
        let (cy, wy) = (Checked::new(y), Wrapping(y));
        macro_rules! step {
            ($x:expr, $y:expr, $op:tt, $opa:tt) => {
                match form {
                    0 => $x $op $y,
                    1 => $x $op &$y,
                    2 => &$x $op $y,
                    3 => &$x $op &$y,
                    4 => { let mut z = $x; z $opa $y; z }
                    _ => { let mut z = $x; z $opa &$y; z }
                }
            };
        }
        match op {
            0 => {
                acc = step!(acc, cy, +, +=);
                wacc = step!(wacc, wy, +, +=);
                exact = exact.map(|e| e + &yv).filter(|e| w.fits(e));
                wr = sbig(&twos(&(&wr + &yv), N));
                c.label("history: +");
            }
            1 => {
                acc = step!(acc, cy, -, -=);
                wacc = step!(wacc, wy, -, -=);
                exact = exact.map(|e| e - &yv).filter(|e| w.fits(e));
                wr = sbig(&twos(&(&wr - &yv), N));
                c.label("history: -");
            }
            2 => {
                // Wrapping<Int> has no `*` (Int does not implement WrappingMul): only the Checked accumulator moves
                acc = step!(acc, cy, *, *=);
                exact = exact.map(|e| e * &yv).filter(|e| w.fits(e));
                c.label("history: *");
            }
            _ => {
                // "Returns a if choice == Choice(0); b if choice == Choice(1)"
                let ch = t.bool();
                c.num("choice", ch as u64);
                let choice = Choice::from(ch as u8);
                acc = if form % 2 == 0 {
                    Checked::conditional_select(&acc, &cy, choice)
                } else {
                    let mut z = acc;
                    z.conditional_assign(&cy, choice);
                    z
                };
                wacc = Wrapping::conditional_select(&wacc, &wy, choice);
                if ch {
                    exact = Some(yv.clone());
                    wr = yv.clone();
                }
                c.label(if ch { "history: select the fresh value" } else { "history: select keeps the accumulator" });
            }
        }
        if exact.is_none() && overflowed_at.is_none() {
            overflowed_at = Some(i);
        }
        if let Some(e) = &exact {
            edge |= w.edge_or_out(e);
        }
        // the state after every step, read through a different conversion each time
        let got: Option<Int<N>> = match i % 3 {
            0 => sopt(acc.0),
            1 => Option::<Int<N>>::from(acc),
            _ => sopt(CtOption::<Int<N>>::from(acc)),
        };
        match (&got, &exact) {
            (Some(g), Some(e)) => veq!(il(g), twos(e, N), "Checked<Int> history: value after step {} (op {}, form {})", i, op, form),
            (None, None) => {}
            (Some(g), None) => vfail!(
                "Checked<Int> history: some({}) after step {} (op {}, form {}) although a partial result left [MIN, MAX]",
                hex(g.as_words()),
                i,
                op,
                form
            ),
            (None, Some(e)) => vfail!("Checked<Int> history: none after step {} (op {}, form {}) although every partial result fits (exact {})", i, op, form, e),
        }
        veq!(il(&wacc.0), twos(&wr, N), "Wrapping<Int> history: value after step {} (op {}, form {})", i, op, form);
    }
    c.nontrivial(overflowed_at.is_some() || edge);
    match overflowed_at {
        Some(i) if i + 1 < steps => c.label("history: none reached before the last step (must stay none)"),
        Some(_) => c.label("history: none reached at the last step"),
        None => c.label("history: every step fits"),
    }
    Ok(())
}

// ------------------------------------------------------------------------------------------------
// word / limb views, size constants

fn views_case<const N: usize>(t: &mut Tape, c: &mut Case) -> CaseResult {
    let al = sint(t, N);
    let i = match t.weighted(&[2, 3]) {
        0 => t.index(N),
        _ => N - 1, // the limb holding the sign bit
    };
    let nw = match t.weighted(&[2, 2, 1, 1, 2]) {
        0 => al[i] ^ (1 << 63),
        1 => gen::word(t),
        2 => 0,
        3 => u64::MAX,
        _ => t.u64(),
    };
    c.limbs("a", &al);
    c.num("i", i as u64);
    c.num("word", nw);
    let w = Wd::new(N);
    let a = int::<N>(&al);
    let av = sbig(&al);
    let mut want = al.clone();
    want[i] = nw;
    let wv = sbig(&want);
    label_operand(c, &w, &av);
    let flips = (av.sign() == Sign::Minus) != (wv.sign() == Sign::Minus);
    c.nontrivial(flips || w.edge_or_out(&av) || w.edge_or_out(&wv) || Wd::is_minus_one(&av) || Wd::is_minus_one(&wv));
    if flips {
        c.label("views: the written word flips the sign");
    }
    // read views
    veq!(AsRef::<[Word; N]>::as_ref(&a).to_vec(), al, "AsRef<[Word; N]> for Int");
    veq!(AsRef::<[Limb]>::as_ref(&a).iter().map(|l| l.0).collect::<Vec<u64>>(), al, "AsRef<[Limb]> for Int");
    // write views: the value read back is the two's-complement value of the words written
    macro_rules! written {
        ($name:literal, $y:ident, $write:expr) => {{
            let mut $y = a;
            $write;
            veq!(il(&$y), want, "{}: words after the write", $name);
            veq!(bool::from($y.is_negative()), wv.sign() == Sign::Minus, "{}: is_negative after the write", $name);
            let (mag, sg) = $y.abs_sign();
            veq!(ul(&mag), limbs_exact(wv.magnitude(), N), "{}: abs_sign magnitude after the write", $name);
            veq!(bool::from(sg), wv.sign() == Sign::Minus, "{}: abs_sign sign after the write", $name);
        }};
    }
    written!("AsMut<[Word; N]> for Int", y, AsMut::<[Word; N]>::as_mut(&mut y)[i] = nw);
    written!("AsMut<[Limb]> for Int", y, AsMut::<[Limb]>::as_mut(&mut y)[i] = Limb(nw));
    written!("Int::as_words_mut", y, y.as_words_mut()[i] = nw);
    written!("Int::as_limbs_mut", y, y.as_limbs_mut()[i] = Limb(nw));
    // size constants
    veq!(Int::<N>::BYTES, 8 * N, "Int::BYTES");
    veq!(Int::<N>::LIMBS, N, "Int::LIMBS");
    veq!(<Int<N> as Bounded>::BITS as usize, 64 * N, "<Int as Bounded>::BITS");
    veq!(<Int<N> as Bounded>::BYTES, 8 * N, "<Int as Bounded>::BYTES");
    Ok(())
}

// ------------------------------------------------------------------------------------------------
// NonZero<Int>::abs_sign

fn nz_case<const N: usize>(t: &mut Tape, c: &mut Case) -> CaseResult {
    let mut al = sint(t, N);
    if is_zero(&al) {
        // construct instead of reject: the three non-zero neighbours / extremes
        al = match t.below(3) {
            0 => twos(&BigInt::one(), N),
            1 => twos(&-BigInt::one(), N),
            _ => twos(&smin(N), N),
        };
    }
    c.limbs("a", &al);
    let w = Wd::new(N);
    let av = sbig(&al);
    label_operand(c, &w, &av);
    c.nontrivial(w.edge_or_out(&av) || Wd::is_minus_one(&av));
    let a = int::<N>(&al);
    let nz: NonZero<Int<N>> = match copt(a.to_nz()) {
        Some(x) => x,
        None => vfail!("Int::to_nz returned none for the non-zero value {}", hex(&al)),
    };
    let (mag, sg) = total("NonZero<Int>::abs_sign", || nz.abs_sign())?;
    let neg = av.sign() == Sign::Minus;
    veq!(ul(&mag.get()), limbs_exact(av.magnitude(), N), "NonZero<Int>::abs_sign magnitude");
    veq!(bool::from(sg), neg, "NonZero<Int>::abs_sign sign");
    // reconstruction from (magnitude, sign) is exact, including for MIN
    chk_opt!("Int::new_from_abs_sign(NonZero<Int>::abs_sign)", copt(Int::<N>::new_from_abs_sign(mag.get(), sg)), true, al.clone());
    // the opposite sign is representable unless the value is MIN (|MIN| = MAX + 1)
    let ov = -&av;
    chk_opt!("Int::new_from_abs_sign(magnitude, !sign)", copt(Int::<N>::new_from_abs_sign(mag.get(), cc(!neg))), w.fits(&ov), twos(&ov, N));
    Ok(())
}

// ------------------------------------------------------------------------------------------------
// resize / From<&Int> to limb counts outside the usual list

const ODD_TARGETS: [usize; 5] = [5, 6, 7, 9, 32];

fn resize_odd_operand(t: &mut Tape, l: usize) -> Limbs {
    let narrower: Vec<usize> = ODD_TARGETS.iter().copied().filter(|&w| w < l).collect();
    if narrower.is_empty() || t.chance(1, 2) {
        return sint(t, l);
    }
    let wd = t.pick(&narrower);
    let x = match t.below(10) {
        0 => smin(wd),
        1 => smin(wd) - 1,
        2 => smax(wd),
        3 => smax(wd) + 1,
        4 => smin(wd) + 1,
        5 => smax(wd) - 1,
        _ => sbig(&sint(t, wd)),
    };
    twos(&x, l)
}

fn resize_odd_case<const L: usize>(t: &mut Tape, c: &mut Case) -> CaseResult {
    let al = resize_odd_operand(t, L);
    c.limbs("a", &al);
    let w = Wd::new(L);
    let a = int::<L>(&al);
    let av = sbig(&al);
    label_operand(c, &w, &av);
    c.nontrivial(w.edge_or_out(&av) || Wd::is_minus_one(&av));
    let negative = av.sign() == Sign::Minus;
    macro_rules! to {
        ($($t:literal),*) => { $( {
            const T: usize = $t;
            let wt = Wd::new(T);
            // sign extension when widening, truncated representation when narrowing (documented lossy)
            let want = twos(&av, T);
            let fits = wt.fits(&av);
            if T > L {
                c.nontrivial(negative);
                c.label(if negative { "resize: widen a negative value" } else { "resize: widen a non-negative value" });
            } else if T < L {
                c.nontrivial(!fits || wt.edge_or_out(&av));
                if av == wt.min || av == wt.max {
                    c.label("resize: narrow, value = MIN/MAX of the target");
                } else if av == &wt.min - 1 || av == &wt.max + 1 {
                    c.label("resize: narrow, value one outside the target range");
                } else if fits {
                    c.label("resize: narrow, value fits");
                } else {
                    c.label("resize: narrow, value does not fit (truncation)");
                }
            }
            let r: Int<T> = total("Int::resize", || a.resize::<T>())?;
            veq!(il(&r), want, "Int::resize I{} -> I{}", 64 * L, 64 * T);
            if fits {
                veq!(ibig(&r), av, "Int::resize I{} -> I{} must preserve a value that fits", 64 * L, 64 * T);
            }
            let r2: Int<T> = total("From<&Int>", || Int::<T>::from(&a))?;
            veq!(il(&r2), want, "From<&Int<{}>> for Int<{}>", L, T);
        } )* };
    }
    to!(5, 6, 7, 9, 32);
    Ok(())
}

// ------------------------------------------------------------------------------------------------
// Checked<Int> none operand through every operator form, at limb counts 3 and 5

use crate::checked_forms::mk_limbs;
crate::checked_none_forms!(checked_none_i192, crypto_bigint::Int<3>, |l: &Vec<u64>| vmodel::int::<3>(l));
crate::checked_none_forms!(checked_none_i320, crypto_bigint::Int<5>, |l: &Vec<u64>| vmodel::int::<5>(l));

// ------------------------------------------------------------------------------------------------

const L2048: usize = I2048::LIMBS;
const L4096: usize = I4096::LIMBS;

macro_rules! widths {
    ($v:ident, $name:literal, $q:expr, $th:expr, $f:ident, $tape:expr; $($n:expr),*) => { $(
        $v.push(SubCheck::new(format!("surface/widths/{}/I{}", $name, 64 * $n), $q, $f::<{ $n }>).tape($tape + 8 * $n).thorough($th));
    )* };
}
macro_rules! s_mul_mixed {
    ($v:ident, $q:expr; $(($l:literal, $r:literal)),*) => { $(
        $v.push(SubCheck::new(format!("surface/widths/mul/I{}xI{}", 64 * $l, 64 * $r), $q, mul_case::<$l, $r>).tape(40 + 5 * ($l + $r)).thorough(20));
    )* };
}
macro_rules! s_wide_eq {
    ($v:ident, $q:expr; $(($l:literal, $w:literal)),*) => { $(
        $v.push(SubCheck::new(format!("surface/widths/widening/I{}xI{}", 64 * $l, 64 * $l), $q, wide_eq_case::<$l, $w>).tape(40 + 10 * $l).thorough(20));
    )* };
}
macro_rules! s_wide_mixed {
    ($v:ident, $q:expr; $(($l:literal, $r:literal, $w:literal)),*) => { $(
        $v.push(SubCheck::new(format!("surface/widths/widening/I{}xI{}", 64 * $l, 64 * $r), $q, wide_case::<$l, $r, $w>).tape(40 + 5 * ($l + $r)).thorough(20));
    )* };
}
macro_rules! per_n {
    ($v:ident, $name:literal, $q:expr, $f:ident, $tape:expr; $($n:literal),*) => { $(
        $v.push(SubCheck::new(format!("surface/{}/I{}", $name, 64 * $n), $q, $f::<$n>).tape($tape + 8 * $n));
    )* };
}

pub fn subchecks(_ctx: &Ctx) -> Vec<SubCheck> {
    let mut v = vec![];
    // limb counts outside the property's list, every form of the reused case functions
    widths!(v, "add+sub+neg", 15_000, 30, addsub_case, 32; 5, 6, 7, 9);
    widths!(v, "add+sub+neg", 5_000, 10, addsub_case, 32; L2048, L4096);
    widths!(v, "mul+square", 10_000, 30, mul_eq_case, 40; 5, 6, 7);
    widths!(v, "mul+square", 2_000, 10, mul_eq_case, 40; 9, L2048);
    s_mul_mixed!(v, 8_000; (5, 7), (7, 5), (1, 5), (5, 1), (6, 2), (2, 6), (7, 16), (9, 3));
    s_wide_eq!(v, 8_000; (5, 10), (6, 12), (7, 14));
    s_wide_mixed!(v, 8_000; (5, 4, 9), (4, 5, 9), (2, 7, 9), (7, 2, 9), (5, 6, 11), (6, 5, 11), (6, 7, 13), (7, 6, 13));
    widths!(v, "sign+abs", 15_000, 30, sign_case, 32; 5, 6, 7, 9);
    widths!(v, "sign+abs", 5_000, 10, sign_case, 32; L2048, L4096);
    widths!(v, "resize", 10_000, 30, resize_case, 24; 5, 7);
    widths!(v, "from-primitive", 10_000, 30, from_case, 24; 5, 7);
    {
        use crate::extra::int_case;
        widths!(v, "zero+one", 8_000, 30, int_case, 24; 3, 5, 7);
    }
    per_n!(v, "resize-odd-targets", 12_000, resize_odd_case, 24; 1, 2, 3, 5, 6, 7, 8, 9, 16);
    v.push(SubCheck::new("surface/resize-odd-targets/I2112", 4_000, resize_odd_case::<33>).tape(24 + 8 * 33).thorough(10));
    v.push(SubCheck::new("surface/checked-none-all-forms/I192", 20_000, checked_none_i192).tape(32));
    v.push(SubCheck::new("surface/checked-none-all-forms/I320", 20_000, checked_none_i320).tape(40));
    // routes, histories, views
    per_n!(v, "routes", 20_000, routes_case, 96; 1, 2, 3, 4, 5);
    per_n!(v, "routes", 6_000, routes_case, 96; 8, 16);
    v.push(SubCheck::new("surface/into/I64", 15_000, into_case::<1, 2, 5>).tape(40));
    v.push(SubCheck::new("surface/into/I192", 15_000, into_case::<3, 1, 7>).tape(48));
    v.push(SubCheck::new("surface/into/I320", 15_000, into_case::<5, 4, 8>).tape(64));
    per_n!(v, "history", 40_000, history_case, 96; 1, 2, 3);
    per_n!(v, "history", 15_000, history_case, 96; 4, 5, 8);
    per_n!(v, "views", 20_000, views_case, 32; 1, 2, 3, 4, 7);
    per_n!(v, "nonzero-abs-sign", 20_000, nz_case, 24; 1, 2, 3, 4, 7, 16);
    v
}
