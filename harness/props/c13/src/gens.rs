//! Generators for signed operands (two's complement limb vectors) and the adversarial pair
//! constructions named in the C13 quantifier. Everything draws from the tape.

use num_bigint::{BigInt, BigUint, Sign};
use num_traits::{One, Zero};
use vmodel::gen;
use vmodel::*;

/// Per-width constants of the oracle side.
pub struct Wd {
    pub bits: u64,
    pub min: BigInt,
    pub max: BigInt,
}

impl Wd {
    pub fn new(n: usize) -> Self {
        Wd { bits: 64 * n as u64, min: smin(n), max: smax(n) }
    }
    pub fn fits(&self, x: &BigInt) -> bool {
        *x >= self.min && *x <= self.max
    }
    /// outside [MIN, MAX] or within 1 of MIN / MAX
    pub fn edge_or_out(&self, x: &BigInt) -> bool {
        *x <= &self.min + 1 || *x >= &self.max - 1
    }
    pub fn is_min(&self, x: &BigInt) -> bool {
        *x == self.min
    }
    pub fn is_minus_one(x: &BigInt) -> bool {
        x.sign() == Sign::Minus && x.magnitude().is_one()
    }
    /// operand in {MIN, -1}
    pub fn special(&self, x: &BigInt) -> bool {
        self.is_min(x) || Self::is_minus_one(x)
    }
}

pub fn pbig(x: BigUint) -> BigInt {
    BigInt::from_biguint(Sign::Plus, x)
}

pub const N_EDGE: u64 = 21;

/// The named edge values of the quantifier at width n (index 0 = simplest).
pub fn edge(n: usize, i: u64) -> BigInt {
    let b = 64 * n as u64;
    let p = |k: u64| pbig(pow2(k));
    match i {
        0 => BigInt::zero(),
        1 => BigInt::one(),
        2 => -BigInt::one(),
        3 => smin(n),
        4 => smax(n),
        5 => smin(n) + 1,
        6 => smax(n) - 1,
        7 => p(b / 2),
        8 => -p(b / 2),
        9 => p(b / 2) - 1,
        10 => p(b / 2) + 1,
        11 => -p(b / 2) + 1,
        12 => -p(b / 2) - 1,
        13 => BigInt::from(2),
        14 => BigInt::from(-2),
        15 => p(b - 2),
        16 => -p(b - 2),
        17 => smin(n) + 2,
        18 => smax(n) - 2,
        19 => p(b / 2 - 1),
        _ => -p(b / 2 - 1),
    }
}

fn with_sign(t: &mut Tape, mut v: Limbs) -> Limbs {
    if t.bool() {
        gen::neg(&mut v);
    }
    v
}

/// A signed operand of n limbs (any bit pattern is a valid `Int`), biased to the edge values,
/// limb patterns (shape L) and random bit lengths (shape T) with a random sign.
pub fn sint(t: &mut Tape, n: usize) -> Limbs {
    match t.weighted(&[2, 3, 4, 2, 4, 1]) {
        0 => {
            let i = t.below(N_EDGE);
            twos(&edge(n, i), n)
        }
        1 => {
            let v = gen::shape_l(t, n);
            with_sign(t, v)
        }
        2 => {
            let v = gen::shape_t(t, n);
            with_sign(t, v)
        }
        3 => {
            // magnitude below 2^64, either sign (sign extension over all high limbs)
            let mut v = vec![0u64; n];
            v[0] = gen::word(t);
            with_sign(t, v)
        }
        4 => gen::limbs(t, n),
        _ => {
            // a few steps away from MIN / MAX / 0
            let d = BigInt::from(t.below(4));
            let x = match t.below(3) {
                0 => smin(n) + d,
                1 => smax(n) - d,
                _ => -d,
            };
            twos(&x, n)
        }
    }
}

/// Pair for add / sub: independent, related, or constructed so that a + b or a - b lands exactly on
/// MAX, MAX+1, MIN, MIN-1, 0, -1, ... (the overflow boundary from both sides), including a = -b.
pub fn addsub_pair(t: &mut Tape, n: usize) -> (Limbs, Limbs) {
    let a = sint(t, n);
    let b = match t.weighted(&[4, 6, 2]) {
        0 => sint(t, n),
        1 => {
            let av = sbig(&a);
            let target = match t.below(9) {
                0 => BigInt::zero(), // a = -b (sum) / a = b (difference)
                1 => smax(n),
                2 => smax(n) + 1,
                3 => smin(n),
                4 => smin(n) - 1,
                5 => -BigInt::one(),
                6 => BigInt::one(),
                7 => smax(n) - 1,
                _ => smin(n) + 1,
            };
            // a + b = target  or  a - b = target
            let bv = if t.bool() { &target - &av } else { &av - &target };
            if fits_signed(&bv, n) {
                twos(&bv, n)
            } else {
                sint(t, n)
            }
        }
        _ => gen::related(t, &a),
    };
    let (mut a, mut b) = if t.bool() { (a, b) } else { (b, a) };
    // a limb tied to an integer literal of the source under test (fuzzer-style dictionary)
    gen::dict_salt(t, &mut a, &mut b);
    (a, b)
}

/// A magnitude of exactly k bits (k = 0 gives 0): random, all ones, or only the top bit.
pub fn bits_value(t: &mut Tape, k: u64) -> BigUint {
    if k == 0 {
        return BigUint::zero();
    }
    match t.weighted(&[3, 1, 1]) {
        0 => {
            let n = ((k + 63) / 64) as usize;
            let v = t.expand(n);
            (big(&v) & mask(k)) | pow2(k - 1)
        }
        1 => mask(k),
        _ => pow2(k - 1),
    }
}

/// Give a magnitude a sign so that it fits n limbs signed: 2^(B-1) only as negative; None if larger.
pub fn to_signed(t: &mut Tape, mag: &BigUint, n: usize) -> Option<Limbs> {
    let neg = t.bool();
    let top = pow2(64 * n as u64 - 1);
    if *mag > top {
        return None;
    }
    let v = pbig(mag.clone());
    let v = if *mag == top || neg { -v } else { v };
    Some(twos(&v, n))
}

/// The bit position of the boundary a product is steered to: the signed limit of the lhs width
/// (mostly), of the rhs width (checked_mul_uint_right), or the unsigned limit of the lhs width
/// (hi half of split_mul becomes non-zero).
fn pick_bound(t: &mut Tape, l: usize, r: usize) -> u64 {
    match t.weighted(&[5, 2, 2]) {
        0 => 64 * l as u64 - 1,
        1 => 64 * r as u64 - 1,
        _ => 64 * l as u64,
    }
}

/// Partner magnitude y for x != 0 such that x*y is within x of 2^bound.
fn quotient_partner(t: &mut Tape, x: &BigUint, bound: u64) -> BigUint {
    let q = pow2(bound) / x;
    match t.below(4) {
        0 => q,
        1 => q + 1u32,
        2 => {
            if q.is_zero() {
                q
            } else {
                q - 1u32
            }
        }
        _ => mask(bound) / x,
    }
}

/// A non-zero magnitude that fits n limbs as a positive signed value.
fn free_magnitude(t: &mut Tape, n: usize) -> BigUint {
    let mut v = match t.weighted(&[3, 2, 2]) {
        0 => gen::shape_t(t, n),
        1 => gen::shape_l(t, n),
        _ => {
            let mut v = vec![0u64; n];
            v[0] = gen::word(t);
            v
        }
    };
    v[n - 1] &= u64::MAX >> 1;
    if is_zero(&v) {
        v[0] = 1;
    }
    big(&v)
}

/// Signed pair (a: l limbs, b: r limbs) for multiplication.
pub fn mul_pair(t: &mut Tape, l: usize, r: usize) -> (Limbs, Limbs, &'static str) {
    let lb = 64 * l as u64;
    let rb = 64 * r as u64;
    let mode = t.weighted(&[3, 3, 4, 3, 2]);
    let built: Option<(Limbs, Limbs, &'static str)> = match mode {
        0 => None,
        1 => {
            // |a| = 2^k, |b| = 2^(bound-k) (+-1): products exactly at +-2^(B-1) / +-2^B
            let bound = pick_bound(t, l, r);
            let k = t.edgy(bound.min(lb - 1));
            let j = bound - k;
            let ma = pow2(k);
            let mut mb = pow2(j);
            match t.below(4) {
                0 | 1 => {}
                2 => mb += 1u32,
                _ => mb -= 1u32,
            }
            match (to_signed(t, &ma, l), to_signed(t, &mb, r)) {
                (Some(a), Some(b)) => Some((a, b, "gen: powers of two at a boundary")),
                _ => None,
            }
        }
        2 if t.chance(1, 3) => {
            // exact factorisations of a boundary value +-1: T = 2^bound + {-1, 0, +1} = k * (T / k) with
            // a small divisor k, so that the product is EXACTLY MAX, MAX + 1, |MIN| + 1, 2^B - 1, 2^B + 1
            let bound = pick_bound(t, l, r);
            let target = match t.below(3) {
                0 => pow2(bound) - 1u32,
                1 => pow2(bound) + 1u32,
                _ => pow2(bound),
            };
            // divisors below 2^10 (there always is one: 1)
            let divs: Vec<u32> = (1u32..1024).filter(|d| (&target % *d).is_zero()).collect();
            let k = divs[t.index(divs.len())];
            let small = BigUint::from(k);
            let large = &target / k;
            let (ma, mb) = if t.bool() { (small, large) } else { (large, small) };
            match (to_signed(t, &ma, l), to_signed(t, &mb, r)) {
                (Some(a), Some(b)) => Some((a, b, "gen: exact factorisation of a boundary +-1")),
                _ => None,
            }
        }
        2 => {
            // one operand free, the other the quotient of the boundary by it (+-1)
            let bound = pick_bound(t, l, r);
            let a_free = l < r || (l == r && t.bool());
            if a_free {
                let ma = free_magnitude(t, l);
                let mb = quotient_partner(t, &ma, bound);
                match (to_signed(t, &ma, l), to_signed(t, &mb, r)) {
                    (Some(a), Some(b)) => Some((a, b, "gen: quotient of a boundary")),
                    _ => None,
                }
            } else {
                let mb = free_magnitude(t, r);
                let ma = quotient_partner(t, &mb, bound);
                match (to_signed(t, &ma, l), to_signed(t, &mb, r)) {
                    (Some(a), Some(b)) => Some((a, b, "gen: quotient of a boundary")),
                    _ => None,
                }
            }
        }
        3 => {
            // bit budget: bits(a) + bits(b) <= B - 1, the product fits the lhs width
            let total = lb - 1;
            let ka = t.edgy(total);
            let slack = t.below(3);
            let kb = (total - ka).saturating_sub(slack).min(rb - 1);
            let ma = bits_value(t, ka);
            let mb = bits_value(t, kb);
            match (to_signed(t, &ma, l), to_signed(t, &mb, r)) {
                (Some(a), Some(b)) => Some((a, b, "gen: bit budget (product fits)")),
                _ => None,
            }
        }
        _ => {
            // a special operand times anything
            let pick_special = |t: &mut Tape, n: usize| -> Limbs {
                let i = t.pick(&[2u64, 3, 4, 1, 0, 5]);
                twos(&edge(n, i), n)
            };
            if t.bool() {
                let a = pick_special(t, l);
                Some((a, sint(t, r), "gen: special operand"))
            } else {
                let b = pick_special(t, r);
                Some((sint(t, l), b, "gen: special operand"))
            }
        }
    };
    built.unwrap_or_else(|| {
        let a = sint(t, l);
        let b = sint(t, r);
        (a, b, "gen: independent operands")
    })
}

/// Unsigned r-limb operand for Int x Uint, given the signed pair.
pub fn mul_uint_operand(t: &mut Tape, a: &[u64], b: &[u64], r: usize) -> Limbs {
    let l = a.len();
    match t.weighted(&[3, 3, 3]) {
        0 => {
            // |b| (2^(64r-1) for b = MIN): same boundary structure as the signed pair
            limbs_exact(sbig(b).magnitude(), r)
        }
        1 => gen::limbs(t, r),
        _ => {
            let ma = sbig(a).magnitude().clone();
            if ma.is_zero() {
                return gen::limbs(t, r);
            }
            let bound = pick_bound(t, l, r);
            let u = quotient_partner(t, &ma, bound);
            if fits_unsigned(&u, r) {
                limbs_exact(&u, r)
            } else {
                gen::limbs(t, r)
            }
        }
    }
}

/// (magnitude, sign) input of `new_from_abs_sign`: edge magnitudes around 2^(B-1), zero with
/// either sign, or any bit pattern.
pub fn abs_sign_input(t: &mut Tape, n: usize) -> (Limbs, bool) {
    let b = 64 * n as u64;
    let m = match t.weighted(&[5, 4, 2]) {
        0 => {
            let top = pow2(b - 1);
            let x = match t.below(9) {
                0 => BigUint::zero(),
                1 => BigUint::one(),
                2 => top.clone(),
                3 => &top - 1u32,
                4 => &top + 1u32,
                5 => mask(b),
                6 => &top - 2u32,
                7 => pow2(b / 2),
                _ => mask(b) - 1u32,
            };
            limbs_exact(&x, n)
        }
        1 => gen::limbs(t, n),
        _ => {
            // the magnitude of a signed operand (always representable with the right sign)
            limbs_exact(sbig(&sint(t, n)).magnitude(), n)
        }
    };
    (m, t.bool())
}

pub const WIDTHS: [usize; 6] = [1, 2, 3, 4, 8, 16];

/// Source operand for resize: a signed operand of l limbs, or a value at the signed boundary of a
/// narrower target width (MIN_T, MIN_T - 1, MAX_T, MAX_T + 1, ...), or a narrow value sign-extended.
pub fn resize_operand(t: &mut Tape, l: usize) -> Limbs {
    let narrower: Vec<usize> = WIDTHS.iter().copied().filter(|&w| w < l).collect();
    if narrower.is_empty() || t.chance(1, 2) {
        return sint(t, l);
    }
    let w = t.pick(&narrower);
    let x = match t.below(12) {
        0 => smin(w),
        1 => smin(w) - 1,
        2 => smax(w),
        3 => smax(w) + 1,
        4 => smin(w) + 1,
        5 => smax(w) - 1,
        _ => sbig(&sint(t, w)),
    };
    twos(&x, l)
}

/// A primitive signed value of the given bit width (as i128), edge biased.
pub fn prim(t: &mut Tape, bits: u32) -> i128 {
    let min: i128 = if bits == 128 { i128::MIN } else { -(1i128 << (bits - 1)) };
    let max: i128 = if bits == 128 { i128::MAX } else { (1i128 << (bits - 1)) - 1 };
    match t.weighted(&[5, 3, 4]) {
        0 => match t.below(9) {
            0 => 0,
            1 => 1,
            2 => -1,
            3 => min,
            4 => max,
            5 => min + 1,
            6 => max - 1,
            7 => 2,
            _ => -2,
        },
        1 => {
            // +-2^k, +-(2^k +- 1) inside the range
            let k = t.below(bits as u64 - 1) as u32;
            let base = 1i128 << k;
            let v = match t.below(3) {
                0 => base,
                1 => base - 1,
                _ => base.saturating_add(1).min(max),
            };
            if t.bool() {
                -v
            } else {
                v
            }
        }
        _ => {
            let raw = ((t.u64() as u128) << 64 | t.u64() as u128) as i128;
            // arithmetic shift keeps the sign: uniform in the type's range
            raw >> (128 - bits)
        }
    }
}
