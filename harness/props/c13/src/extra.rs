//! C13 extra — identity items of `Int<N>` that no other sub-check reaches:
//! `num_traits::Zero::{zero, is_zero, set_zero}`, `num_traits::One::{one, is_one, set_one}`, the crate's
//! `Zero::{zero, is_zero, set_zero, zero_like}` (provided `set_zero`), `ConstZero::ZERO`,
//! `Constants::ONE`, `Default`, and `num_traits::Zero` / crate `Zero` of `Wrapping<Int<N>>`.
//!
//! Oracle: BigInt of the two's-complement limbs. `zero()` is 0, `one()` is 1; `a + zero()`,
//! `zero() + a`, `a * one()`, `one() * a` equal `a` (checked operators; the exact result always fits,
//! so a panic is a failure); `is_zero` / `is_one` agree with the value; `set_zero` / `set_one` leave
//! 0 / 1.
//!
//! Operands: 0, 1, -1, MIN, MAX, 0 / 1 with one further bit set in a random limb (so the predicates
//! must look at every limb, incl. the sign bit), and the signed shapes of C13. Non-trivial: the
//! operand is 0, 1, -1, MIN or MAX, or differs from 0 or from 1 in exactly one limb.

use crate::gens::sint;
use crypto_bigint::{ConstZero, Constants, Int, Wrapping, Zero};
use num_bigint::BigInt;
use num_traits::{One as _, Zero as _};
use vmodel::*;

fn operand(t: &mut Tape, n: usize) -> Limbs {
    let mut v = vec![0u64; n];
    match t.weighted(&[2, 2, 4, 1, 1, 1, 4]) {
        0 => {}
        1 => v[0] = 1,
        2 => {
            v[0] = t.below(2);
            let i = t.index(n);
            v[i] ^= match t.weighted(&[3, 1, 1, 1]) {
                0 => 1u64 << t.below(64),
                1 => 1u64 << 63,
                2 => u64::MAX,
                _ => t.u64() | 2,
            };
        }
        3 => v = vec![u64::MAX; n],
        4 => v[n - 1] = 1 << 63,
        5 => {
            v = vec![u64::MAX; n];
            v[n - 1] = u64::MAX >> 1;
        }
        _ => v = sint(t, n),
    }
    v
}

fn special(a: &[u64]) -> bool {
    let n = a.len();
    let diff = |base: u64| a.iter().enumerate().filter(|&(i, &w)| w != if i == 0 { base } else { 0 }).count();
    let x = sbig(a);
    diff(0) <= 1 || diff(1) <= 1 || x == BigInt::from(-1) || x == smin(n) || x == smax(n)
}

fn nt_check<T>(ty: &str, a: &T, val: &impl Fn(&T) -> BigInt) -> CaseResult
where
    T: num_traits::Zero + Clone,
{
    let av = val(a);
    let z = total("num_traits::Zero::zero", || <T as num_traits::Zero>::zero())?;
    vensure!(val(&z).is_zero(), "{ty}: num_traits::Zero::zero() has the value {}", val(&z));
    vensure!(num_traits::Zero::is_zero(&z), "{ty}: num_traits::Zero::is_zero(zero()) is false");
    veq!(num_traits::Zero::is_zero(a), av.is_zero(), "{ty}: num_traits::Zero::is_zero(a)");
    let s = total("a + zero()", || a.clone() + <T as num_traits::Zero>::zero())?;
    veq!(val(&s), av, "{ty}: a + zero()");
    let s = total("zero() + a", || <T as num_traits::Zero>::zero() + a.clone())?;
    veq!(val(&s), av, "{ty}: zero() + a");
    let mut m = a.clone();
    total("num_traits::Zero::set_zero", || num_traits::Zero::set_zero(&mut m))?;
    vensure!(val(&m).is_zero() && num_traits::Zero::is_zero(&m), "{ty}: after num_traits::Zero::set_zero the value is {}", val(&m));
    Ok(())
}

fn one_check<T>(ty: &str, a: &T, val: &impl Fn(&T) -> BigInt) -> CaseResult
where
    T: num_traits::Zero + num_traits::One + Clone + PartialEq,
{
    let av = val(a);
    let o = total("num_traits::One::one", || <T as num_traits::One>::one())?;
    vensure!(val(&o).is_one(), "{ty}: num_traits::One::one() has the value {}", val(&o));
    vensure!(num_traits::One::is_one(&o), "{ty}: num_traits::One::is_one(one()) is false");
    vensure!(!num_traits::Zero::is_zero(&o), "{ty}: num_traits::Zero::is_zero(one()) is true");
    vensure!(!num_traits::One::is_one(&<T as num_traits::Zero>::zero()), "{ty}: num_traits::One::is_one(zero()) is true");
    veq!(num_traits::One::is_one(a), av.is_one(), "{ty}: num_traits::One::is_one(a)");
    let p = total("a * one()", || a.clone() * <T as num_traits::One>::one())?;
    veq!(val(&p), av, "{ty}: a * one()");
    let p = total("one() * a", || <T as num_traits::One>::one() * a.clone())?;
    veq!(val(&p), av, "{ty}: one() * a");
    let mut m = a.clone();
    total("num_traits::One::set_one", || num_traits::One::set_one(&mut m))?;
    vensure!(val(&m).is_one() && num_traits::One::is_one(&m), "{ty}: after num_traits::One::set_one the value is {}", val(&m));
    Ok(())
}

fn cz_check<T>(ty: &str, a: &T, val: &impl Fn(&T) -> BigInt) -> CaseResult
where
    T: Zero + Clone,
{
    let av = val(a);
    let z = total("Zero::zero", || <T as Zero>::zero())?;
    vensure!(val(&z).is_zero(), "{ty}: Zero::zero() has the value {}", val(&z));
    vensure!(bool::from(Zero::is_zero(&z)), "{ty}: Zero::is_zero(zero()) is false");
    veq!(bool::from(Zero::is_zero(a)), av.is_zero(), "{ty}: Zero::is_zero(a)");
    let mut m = a.clone();
    total("Zero::set_zero", || Zero::set_zero(&mut m))?;
    vensure!(val(&m).is_zero() && bool::from(Zero::is_zero(&m)), "{ty}: after Zero::set_zero the value is {}", val(&m));
    let zl = total("Zero::zero_like", || <T as Zero>::zero_like(a))?;
    vensure!(val(&zl).is_zero(), "{ty}: Zero::zero_like(a) has the value {}", val(&zl));
    veq!(val(a), av, "{ty}: operand modified");
    Ok(())
}

pub(crate) fn int_case<const N: usize>(t: &mut Tape, c: &mut Case) -> CaseResult {
    let al = operand(t, N);
    c.limbs("a", &al);
    c.nontrivial(special(&al));
    let a = int::<N>(&al);
    let iv = |x: &Int<N>| ibig(x);
    nt_check("Int", &a, &iv)?;
    one_check("Int", &a, &iv)?;
    cz_check("Int", &a, &iv)?;
    vensure!(is_zero(&il(&<Int<N> as ConstZero>::ZERO)), "Int: ConstZero::ZERO is not zero");
    vensure!(ibig(&<Int<N> as Constants>::ONE).is_one(), "Int: Constants::ONE is not one");
    veq!(ibig(&<Int<N> as Constants>::MAX), smax(N), "Int: Constants::MAX");
    vensure!(is_zero(&il(&Int::<N>::default())), "Int::default() is not zero");
    let wv = |x: &Wrapping<Int<N>>| ibig(&x.0);
    nt_check("Wrapping<Int>", &Wrapping(a), &wv)?;
    cz_check("Wrapping<Int>", &Wrapping(a), &wv)?;
    Ok(())
}

macro_rules! ints {
    ($v:ident, $q:expr; $($n:literal),*) => { $(
        $v.push(SubCheck::new(format!("extra/zero+one/I{}", 64 * $n), $q, int_case::<$n>).tape(24 + 3 * $n));
    )* };
}

crate::checked_none_forms!(checked_none_i64, crypto_bigint::Int<1>, |l: &Vec<u64>| vmodel::int::<1>(l));
crate::checked_none_forms!(checked_none_i128, crypto_bigint::Int<2>, |l: &Vec<u64>| vmodel::int::<2>(l));
crate::checked_none_forms!(checked_none_i256, crypto_bigint::Int<4>, |l: &Vec<u64>| vmodel::int::<4>(l));
use crate::checked_forms::mk_limbs;

pub fn subchecks(_ctx: &Ctx) -> Vec<SubCheck> {
    let mut v = vec![];
    ints!(v, 30_000; 1, 2, 4, 8);
    v.push(SubCheck::new("extra/checked-none-all-forms/I64", 60_000, checked_none_i64).tape(24));
    v.push(SubCheck::new("extra/checked-none-all-forms/I128", 60_000, checked_none_i128).tape(24));
    v.push(SubCheck::new("extra/checked-none-all-forms/I256", 40_000, checked_none_i256).tape(32));
    v
}
