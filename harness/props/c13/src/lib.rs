//! C13 — signed integers (`Int<LIMBS>`) behave as two's-complement mathematical integers.
//!
//! Oracle: `num_bigint::BigInt`. Wrapping forms must equal the exact result modulo 2^BITS
//! reinterpreted in two's complement; checked / overflowing forms and the panicking operators must
//! report overflow exactly when the exact result lies outside [MIN, MAX].
//!
//! Documentation notes that shape the assertions (nothing beyond them is asserted):
//! * `split_mul*`: "even if `negate` is truthy, the magnitude might be zero" — the flag is only
//!   compared with the sign of the product when the product is non-zero.
//! * `checked_square` / `wrapping_square` / `saturating_square` / `widening_square` return `Uint`s
//!   ("fits in the original Uint size"): their range is [0, 2^BITS), not [MIN, MAX].
//! * `resize`: "may lead to loss of information" — a narrowing resize is compared with the value
//!   modulo 2^(64 T) (truncated representation); widening must be exact (sign extension).
//! * `from_i128` / `From<i128>` into a 1-limb Int has no documented truncation: acceptable is a panic
//!   or the exact value; the silently truncated value is finding F-11b.
//! * A `none` CtOption / ConstCtOption carries an unspecified value: never inspected.

mod extra;
pub mod checked_forms;
mod gens;

use crypto_bigint::{
    Checked, CheckedAdd, CheckedMul, CheckedSub, ConcatMixed, ConstChoice, ConstCtOption, Int, Uint, Wrapping, WrappingAdd,
    WrappingSub, I128, I64,
};
use gens::*;
use num_bigint::{BigInt, Sign};
use num_traits::{One, Zero};
use subtle::CtOption;
use vmodel::*;

pub fn spec() -> PropSpec {
    PropSpec {
        id: "C13",
        rule: "cases: signed operands as two's-complement limb vectors at 1,2,3,4,8,16 limbs (mixed widths for mul / resize) drawn from the named edge values (MIN, MIN+1, MIN+2, -1, 0, 1, MAX, MAX-1, +-2^(B/2), +-(2^(B/2)+-1), +-2^(B-2), +-2), limb patterns (shape L) and random bit lengths (shape T) with a random sign, sign-extended single words, any bit pattern, values a few steps from MIN/MAX; add/sub pairs constructed so that a+b or a-b lands exactly on MAX, MAX+1, MIN, MIN-1, 0 (a = -b), +-1; mul pairs constructed as powers of two whose product is exactly +-2^(B-1) / +-2^B (+-1), as (x, floor(2^(B-1)/x) + {-1,0,1}) with every sign combination, as a bit budget bits(a)+bits(b) <= B-1, and special operand (MIN, -1, MAX, 0, 1) times anything; (magnitude, sign) inputs around 2^(B-1) with either sign including negative zero; resize sources at the signed boundaries of every narrower target width; primitives at their MIN/MAX/+-2^k. Every API form of the family is checked on the same operands against BigInt. non-trivial (per family): add/sub/neg: one of a+b, a-b, -a, -b is outside [MIN,MAX] or within 1 of MIN or MAX, or an operand is MIN or -1; mul: the exact product a*b or a*u is outside [MIN,MAX] of the result width or within 1 of MIN/MAX, or an operand is MIN or -1 (squares: a^2 >= 2^BITS - 1, the range of the returned Uint, or operand in {MIN,-1}); widening mul: the exact product does not fit the lhs width, or an operand is MIN or -1; abs/sign: operand within 1 of MIN/MAX or -1, or the (magnitude, sign) input is unrepresentable, or its value is within 1 of MIN/MAX, or it is negative zero; resize: the value does not fit some target width, or is within 1 of MIN/MAX of the source or a target width, or is -1, or is negative and widened (sign extension); primitives: value within 1 of the primitive's MIN/MAX, or -1, or negative with a target wider than the primitive (sign extension), or does not fit the target. distinct by the operand limbs (+ widths via the sub-check). surface/* (API-surface audit): the same case functions at 5, 6, 7, 9, 32, 64 limbs and resize targets 5, 6, 7, 9, 32 (rule of the reused family); routes (generic-function, method-call, Into, ConstCtOption / CtOption / Checked conversions): one of a+b, a-b, -a, m*n, m*u is outside [MIN,MAX] or within 1 of MIN/MAX, or an operand is MIN or -1; history (Checked / Wrapping accumulators over 2..6 steps of + - * select with a per-step operator form, operands steered to MAX, MAX+1, MIN, MIN-1, 0): some step overflowed or a partial result is within 1 of MIN/MAX; views (AsRef / AsMut / as_*_mut): the written word flips the sign or the value before / after is within 1 of MIN/MAX or -1; nonzero-abs-sign: operand within 1 of MIN/MAX or -1. Since seeding round 4: exact factorisations k x (T/k) of T = 2^bound + {-1,0,1} for multiplication, and the source-literal dictionary for add/sub pairs.",
        assumptions: vec![
            "num-bigint BigInt arithmetic is correct (independent implementation)".into(),
            "bridging uses from_words/to_words/as_words only; the oracle never calls crypto-bigint arithmetic".into(),
            "split_mul* negate flag is unspecified for a zero product (documented), so it is asserted only for non-zero products".into(),
            "narrowing Int::resize is documented lossy: compared with the truncated two's-complement representation".into(),
            "64-bit limbs (target_pointer_width = 64)".into(),
        ],
        subchecks,
    }
}

// ------------------------------------------------------------------------------------------------
// helpers

fn cc(b: bool) -> ConstChoice {
    if b {
        ConstChoice::TRUE
    } else {
        ConstChoice::FALSE
    }
}

fn copt<T>(o: ConstCtOption<T>) -> Option<T> {
    o.into()
}

fn sopt<T>(o: CtOption<T>) -> Option<T> {
    o.into()
}

fn none_checked<const N: usize>(x: Int<N>) -> Checked<Int<N>> {
    Checked(CtOption::new(x, 0.into()))
}

/// An option-returning checked form: `is_some` exactly when the exact result fits, value exact.
macro_rules! chk_opt {
    ($name:expr, $got:expr, $fits:expr, $want:expr) => {{
        let g: Option<_> = $got;
        match g {
            Some(v) => {
                vensure!($fits, "{}: returned Some({}) although the exact result is outside the range", $name, hex(v.as_words()));
                veq!(v.as_words().to_vec(), $want, "{}", $name);
            }
            None => vensure!(!$fits, "{}: returned none although the exact result {} fits", $name, hex(&$want)),
        }
    }};
}

/// A panicking operator: panics exactly when the exact result does not fit, value exact otherwise.
macro_rules! chk_op {
    ($name:expr, $e:expr, $fits:expr, $want:expr) => {{
        match guard(|| $e) {
            Ok(v) => {
                vensure!($fits, "{}: returned {} although the exact result is outside [MIN, MAX]", $name, hex(v.as_words()));
                veq!(v.as_words().to_vec(), $want, "{}", $name);
            }
            Err(m) => vensure!(!$fits, "{}: panicked ({}) although the exact result {} fits", $name, m, hex(&$want)),
        }
    }};
}

fn label_operand(c: &mut Case, w: &Wd, x: &BigInt) {
    let half = pbig(pow2(w.bits / 2));
    if *x == w.min {
        c.label("operand = MIN");
    } else if *x == w.max {
        c.label("operand = MAX");
    } else if Wd::is_minus_one(x) {
        c.label("operand = -1");
    } else if x.is_zero() {
        c.label("operand = 0");
    } else if x.is_one() {
        c.label("operand = 1");
    } else if *x == &w.min + 1 {
        c.label("operand = MIN+1");
    } else if *x == &w.max - 1 {
        c.label("operand = MAX-1");
    } else if *x.magnitude() == *half.magnitude() {
        c.label("operand = +-2^(B/2)");
    }
}

// ------------------------------------------------------------------------------------------------
// add / sub / neg

fn addsub_case<const N: usize>(t: &mut Tape, c: &mut Case) -> CaseResult {
    let (al, bl_) = addsub_pair(t, N);
    c.limbs("a", &al);
    c.limbs("b", &bl_);
    let w = Wd::new(N);
    let (a, b) = (int::<N>(&al), int::<N>(&bl_));
    let (av, bv) = (sbig(&al), sbig(&bl_));
    let sum = &av + &bv;
    let diff = &av - &bv;
    let (na, nb) = (-&av, -&bv);
    label_operand(c, &w, &av);
    label_operand(c, &w, &bv);
    c.nontrivial(w.edge_or_out(&sum) || w.edge_or_out(&diff) || w.edge_or_out(&na) || w.edge_or_out(&nb) || w.special(&av) || w.special(&bv));
    if sum.is_zero() {
        c.label("a = -b");
    }
    for (x, what) in [(&sum, "sum"), (&diff, "difference")] {
        let l = if *x == w.max {
            format!("{what} = MAX")
        } else if *x == &w.max + 1 {
            format!("{what} = MAX+1 (overflow by one)")
        } else if *x == w.min {
            format!("{what} = MIN")
        } else if *x == &w.min - 1 {
            format!("{what} = MIN-1 (overflow by one)")
        } else if !w.fits(x) {
            format!("{what} overflows")
        } else {
            format!("{what} fits")
        };
        c.label(l);
    }

    // ---- addition ----
    let s_fits = w.fits(&sum);
    let s_want = twos(&sum, N);
    chk_opt!("Int::checked_add", copt(a.checked_add(&b)), s_fits, s_want);
    chk_opt!("Int::checked_add commuted", copt(b.checked_add(&a)), s_fits, s_want);
    chk_opt!("CheckedAdd::checked_add", sopt(CheckedAdd::checked_add(&a, &b)), s_fits, s_want);
    let (ov, of) = a.overflowing_add(&b);
    veq!(il(&ov), s_want, "Int::overflowing_add value");
    veq!(bool::from(of), !s_fits, "Int::overflowing_add overflow flag");
    veq!(il(&a.wrapping_add(&b)), s_want, "Int::wrapping_add");
    veq!(il(&WrappingAdd::wrapping_add(&a, &b)), s_want, "WrappingAdd::wrapping_add");
    chk_op!("Int + Int", a + b, s_fits, s_want);
    chk_op!("Int + &Int", a + &b, s_fits, s_want);
    chk_op!("Int += Int", { let mut x = a; x += b; x }, s_fits, s_want);
    chk_op!("Int += &Int", { let mut x = a; x += &b; x }, s_fits, s_want);
    veq!(il(&(Wrapping(a) + Wrapping(b)).0), s_want, "Wrapping + Wrapping");
    veq!(il(&(Wrapping(a) + &Wrapping(b)).0), s_want, "Wrapping + &Wrapping");
    veq!(il(&(&Wrapping(a) + Wrapping(b)).0), s_want, "&Wrapping + Wrapping");
    veq!(il(&(&Wrapping(a) + &Wrapping(b)).0), s_want, "&Wrapping + &Wrapping");
    let mut x = Wrapping(a);
    x += Wrapping(b);
    veq!(il(&x.0), s_want, "Wrapping += Wrapping");
    let mut x = Wrapping(a);
    x += &Wrapping(b);
    veq!(il(&x.0), s_want, "Wrapping += &Wrapping");
    let (ca, cb) = (Checked::new(a), Checked::new(b));
    chk_opt!("Checked + Checked", sopt((ca + cb).0), s_fits, s_want);
    chk_opt!("Checked + &Checked", sopt((ca + &cb).0), s_fits, s_want);
    chk_opt!("&Checked + Checked", sopt((&ca + cb).0), s_fits, s_want);
    chk_opt!("&Checked + &Checked", sopt((&ca + &cb).0), s_fits, s_want);
    let mut x = ca;
    x += cb;
    chk_opt!("Checked += Checked", sopt(x.0), s_fits, s_want);
    let mut x = ca;
    x += &cb;
    chk_opt!("Checked += &Checked", sopt(x.0), s_fits, s_want);
    vensure!(sopt((none_checked(a) + Checked::new(Int::<N>::ZERO)).0).is_none(), "Checked: none + 0 must stay none");
    vensure!(sopt((Checked::new(Int::<N>::ZERO) + none_checked(a)).0).is_none(), "Checked: 0 + none must stay none");

    // ---- subtraction ----
    let d_fits = w.fits(&diff);
    let d_want = twos(&diff, N);
    chk_opt!("CheckedSub::checked_sub", sopt(CheckedSub::checked_sub(&a, &b)), d_fits, d_want);
    veq!(il(&WrappingSub::wrapping_sub(&a, &b)), d_want, "WrappingSub::wrapping_sub");
    chk_op!("Int - Int", a - b, d_fits, d_want);
    chk_op!("Int - &Int", a - &b, d_fits, d_want);
    veq!(il(&(Wrapping(a) - Wrapping(b)).0), d_want, "Wrapping - Wrapping");
    veq!(il(&(Wrapping(a) - &Wrapping(b)).0), d_want, "Wrapping - &Wrapping");
    veq!(il(&(&Wrapping(a) - Wrapping(b)).0), d_want, "&Wrapping - Wrapping");
    veq!(il(&(&Wrapping(a) - &Wrapping(b)).0), d_want, "&Wrapping - &Wrapping");
    let mut x = Wrapping(a);
    x -= Wrapping(b);
    veq!(il(&x.0), d_want, "Wrapping -= Wrapping");
    let mut x = Wrapping(a);
    x -= &Wrapping(b);
    veq!(il(&x.0), d_want, "Wrapping -= &Wrapping");
    chk_opt!("Checked - Checked", sopt((ca - cb).0), d_fits, d_want);
    chk_opt!("Checked - &Checked", sopt((ca - &cb).0), d_fits, d_want);
    chk_opt!("&Checked - Checked", sopt((&ca - cb).0), d_fits, d_want);
    chk_opt!("&Checked - &Checked", sopt((&ca - &cb).0), d_fits, d_want);
    let mut x = ca;
    x -= cb;
    chk_opt!("Checked -= Checked", sopt(x.0), d_fits, d_want);
    let mut x = ca;
    x -= &cb;
    chk_opt!("Checked -= &Checked", sopt(x.0), d_fits, d_want);
    vensure!(sopt((none_checked(a) - Checked::new(Int::<N>::ZERO)).0).is_none(), "Checked: none - 0 must stay none");
    // the reverse difference has its own overflow condition (b - a)
    let rdiff = &bv - &av;
    chk_opt!("CheckedSub::checked_sub commuted", sopt(CheckedSub::checked_sub(&b, &a)), w.fits(&rdiff), twos(&rdiff, N));

    // ---- negation ----
    for (x, xl, xv, nv, who) in [(a, &al, &av, &na, "a"), (b, &bl_, &bv, &nb, "b")] {
        let n_fits = w.fits(nv);
        let n_want = twos(nv, N);
        let (v, o) = x.overflowing_neg();
        veq!(il(&v), n_want, "Int::overflowing_neg value ({who})");
        veq!(bool::from(o), !n_fits, "Int::overflowing_neg overflow flag ({who})");
        veq!(n_fits, !w.is_min(xv), "oracle self-check: negation overflows only for MIN");
        veq!(il(&x.wrapping_neg()), n_want, "Int::wrapping_neg ({who})");
        veq!(il(&x.wrapping_neg_if(cc(true))), n_want, "Int::wrapping_neg_if(true) ({who})");
        veq!(il(&x.wrapping_neg_if(cc(false))), *xl, "Int::wrapping_neg_if(false) ({who})");
        chk_opt!(format!("Int::checked_neg ({who})"), copt(x.checked_neg()), n_fits, n_want);
    }
    Ok(())
}

// ------------------------------------------------------------------------------------------------
// multiplication

struct MulIn {
    al: Limbs,
    bl: Limbs,
    ul: Limbs,
}

fn mul_inputs(t: &mut Tape, c: &mut Case, l: usize, r: usize) -> MulIn {
    let (al, bl, how) = mul_pair(t, l, r);
    let ul = mul_uint_operand(t, &al, &bl, r);
    c.limbs("a", &al);
    c.limbs("b", &bl);
    c.limbs("u", &ul);
    c.label(how);
    MulIn { al, bl, ul }
}

fn label_product(c: &mut Case, w: &Wd, p: &BigInt, what: &str) {
    let l = if *p == w.min {
        format!("{what} = MIN exactly (-2^(B-1))")
    } else if *p == &w.max + 1 {
        format!("{what} = +2^(B-1) (overflow by one)")
    } else if *p == w.max || *p == &w.min + 1 || *p == &w.max - 1 {
        format!("{what} fits, within 1 of MIN/MAX")
    } else if *p == &w.min - 1 || *p == &w.max + 2 {
        format!("{what} overflows by at most two")
    } else if p.is_zero() {
        format!("{what} = 0")
    } else if w.fits(p) {
        format!("{what} fits")
    } else {
        format!("{what} overflows")
    };
    c.label(l);
}

/// All Int x Int and Int x Uint forms of the width pair (L, R).
fn mul_checks<const L: usize, const R: usize>(c: &mut Case, m: &MulIn) -> CaseResult {
    let (wl, wr) = (Wd::new(L), Wd::new(R));
    let (a, b, u) = (int::<L>(&m.al), int::<R>(&m.bl), uint::<R>(&m.ul));
    let (av, bv, uv) = (sbig(&m.al), sbig(&m.bl), pbig(big(&m.ul)));
    label_operand(c, &wl, &av);
    label_operand(c, &wr, &bv);

    // ---- Int x Int ----
    let p = &av * &bv;
    label_product(c, &wl, &p, "a*b");
    c.nontrivial(wl.edge_or_out(&p) || wl.special(&av) || wr.special(&bv));
    let mag = p.magnitude();
    let (lo, hi, neg) = total("Int::split_mul", || a.split_mul(&b))?;
    veq!(ul(&lo), limbs_of(mag, L), "Int::split_mul lo (I{}xI{})", 64 * L, 64 * R);
    veq!(ul(&hi), limbs_of(&(mag >> (64 * L)), R), "Int::split_mul hi (I{}xI{})", 64 * L, 64 * R);
    if !p.is_zero() {
        veq!(bool::from(neg), p.sign() == Sign::Minus, "Int::split_mul negate flag for a non-zero product");
    }
    let p_fits = wl.fits(&p);
    let p_want = twos(&p, L);
    chk_opt!("CheckedMul<Int>::checked_mul", sopt(CheckedMul::checked_mul(&a, &b)), p_fits, p_want);
    chk_op!("Int * Int", a * b, p_fits, p_want);
    chk_op!("Int * &Int", a * &b, p_fits, p_want);
    chk_op!("&Int * Int", &a * b, p_fits, p_want);
    chk_op!("&Int * &Int", &a * &b, p_fits, p_want);

    // ---- Int x Uint ----
    let q = &av * &uv;
    label_product(c, &wl, &q, "a*u");
    c.nontrivial(wl.edge_or_out(&q));
    let qmag = q.magnitude();
    let a_neg = av.sign() == Sign::Minus;
    let (lo, hi, neg) = total("Int::split_mul_uint", || a.split_mul_uint(&u))?;
    veq!(ul(&lo), limbs_of(qmag, L), "Int::split_mul_uint lo (I{}xU{})", 64 * L, 64 * R);
    veq!(ul(&hi), limbs_of(&(qmag >> (64 * L)), R), "Int::split_mul_uint hi (I{}xU{})", 64 * L, 64 * R);
    if !q.is_zero() {
        veq!(bool::from(neg), a_neg, "Int::split_mul_uint negate flag for a non-zero product");
    }
    let (lo, hi, neg) = total("Int::split_mul_uint_right", || a.split_mul_uint_right(&u))?;
    veq!(ul(&lo), limbs_of(qmag, R), "Int::split_mul_uint_right lo (I{}xU{})", 64 * L, 64 * R);
    veq!(ul(&hi), limbs_of(&(qmag >> (64 * R)), L), "Int::split_mul_uint_right hi (I{}xU{})", 64 * L, 64 * R);
    if !q.is_zero() {
        veq!(bool::from(neg), a_neg, "Int::split_mul_uint_right negate flag for a non-zero product");
    }
    let q_fits = wl.fits(&q);
    let q_want = twos(&q, L);
    chk_opt!("CheckedMul<Uint>::checked_mul", sopt(CheckedMul::checked_mul(&a, &u)), q_fits, q_want);
    chk_op!("Int * Uint", a * u, q_fits, q_want);
    chk_op!("Int * &Uint", a * &u, q_fits, q_want);
    chk_op!("&Int * Uint", &a * u, q_fits, q_want);
    chk_op!("&Int * &Uint", &a * &u, q_fits, q_want);
    // result stored in the width of the Uint operand
    let qr_fits = wr.fits(&q);
    if L != R {
        label_product(c, &wr, &q, "a*u (rhs width)");
        c.nontrivial(wr.edge_or_out(&q));
    }
    chk_opt!("Int::checked_mul_uint_right", sopt(a.checked_mul_uint_right(&u)), qr_fits, twos(&q, R));
    Ok(())
}

fn mul_case<const L: usize, const R: usize>(t: &mut Tape, c: &mut Case) -> CaseResult {
    let m = mul_inputs(t, c, L, R);
    mul_checks::<L, R>(c, &m)
}

/// Equal widths: everything of `mul_checks` plus the `Checked<Int>` wrapper and the squarings.
fn mul_eq_case<const L: usize>(t: &mut Tape, c: &mut Case) -> CaseResult {
    let m = mul_inputs(t, c, L, L);
    mul_checks::<L, L>(c, &m)?;
    let w = Wd::new(L);
    let (a, b) = (int::<L>(&m.al), int::<L>(&m.bl));
    let (av, bv) = (sbig(&m.al), sbig(&m.bl));
    let p = &av * &bv;
    let p_fits = w.fits(&p);
    let p_want = twos(&p, L);
    let (ca, cb) = (Checked::new(a), Checked::new(b));
    chk_opt!("Checked * Checked", sopt((ca * cb).0), p_fits, p_want);
    chk_opt!("Checked * &Checked", sopt((ca * &cb).0), p_fits, p_want);
    chk_opt!("&Checked * Checked", sopt((&ca * cb).0), p_fits, p_want);
    chk_opt!("&Checked * &Checked", sopt((&ca * &cb).0), p_fits, p_want);
    let mut x = ca;
    x *= cb;
    chk_opt!("Checked *= Checked", sopt(x.0), p_fits, p_want);
    let mut x = ca;
    x *= &cb;
    chk_opt!("Checked *= &Checked", sopt(x.0), p_fits, p_want);
    vensure!(sopt((none_checked(a) * Checked::new(Int::<L>::ONE)).0).is_none(), "Checked: none * 1 must stay none");
    vensure!(sopt((Checked::new(Int::<L>::ONE) * none_checked(a)).0).is_none(), "Checked: 1 * none must stay none");

    // squarings return the square as a Uint<L>: range [0, 2^BITS)
    let ubits = 64 * L as u64;
    for (x, xv, who) in [(a, &av, "a"), (b, &bv, "b")] {
        let sq = (xv * xv).magnitude().clone();
        let s_fits = sq.bits() <= ubits;
        let s_lo = limbs_of(&sq, L);
        c.nontrivial(sq >= mask(ubits));
        if sq == pow2(ubits) {
            c.label("square = 2^BITS exactly (overflow by one)");
        } else if !s_fits {
            c.label("square overflows the Uint");
        } else {
            c.label("square fits the Uint");
        }
        chk_opt!(format!("Int::checked_square ({who})"), copt(x.checked_square()), s_fits, s_lo);
        veq!(ul(&x.wrapping_square()), s_lo, "Int::wrapping_square ({who})");
        let sat = if s_fits { s_lo.clone() } else { vec![u64::MAX; L] };
        veq!(ul(&x.saturating_square()), sat, "Int::saturating_square ({who})");
    }
    Ok(())
}

/// Widening forms where `ConcatMixed` exists (W = L + R).
fn wide_checks<const L: usize, const R: usize, const W: usize>(c: &mut Case, m: &MulIn) -> CaseResult
where
    Uint<L>: ConcatMixed<Uint<R>, MixedOutput = Uint<W>>,
{
    let (wl, wr) = (Wd::new(L), Wd::new(R));
    let (a, b, u) = (int::<L>(&m.al), int::<R>(&m.bl), uint::<R>(&m.ul));
    let (av, bv, uv) = (sbig(&m.al), sbig(&m.bl), pbig(big(&m.ul)));
    label_operand(c, &wl, &av);
    label_operand(c, &wr, &bv);
    let p = &av * &bv;
    let q = &av * &uv;
    c.nontrivial(!wl.fits(&p) || !wl.fits(&q) || wl.special(&av) || wr.special(&bv));
    c.label(if wl.fits(&p) { "wide: a*b fits the lhs width" } else { "wide: a*b needs the upper half" });
    if wl.is_min(&av) && wr.is_min(&bv) {
        c.label("wide: MIN * MIN");
    }
    let got: Int<W> = total("Int::widening_mul", || a.widening_mul(&b))?;
    veq!(il(&got), twos(&p, W), "Int::widening_mul (I{}xI{})", 64 * L, 64 * R);
    let got: Int<W> = total("Int::widening_mul_uint", || a.widening_mul_uint(&u))?;
    veq!(il(&got), twos(&q, W), "Int::widening_mul_uint (I{}xU{})", 64 * L, 64 * R);
    Ok(())
}

fn wide_case<const L: usize, const R: usize, const W: usize>(t: &mut Tape, c: &mut Case) -> CaseResult
where
    Uint<L>: ConcatMixed<Uint<R>, MixedOutput = Uint<W>>,
{
    let m = mul_inputs(t, c, L, R);
    wide_checks::<L, R, W>(c, &m)
}

fn wide_eq_case<const L: usize, const W: usize>(t: &mut Tape, c: &mut Case) -> CaseResult
where
    Uint<L>: ConcatMixed<Uint<L>, MixedOutput = Uint<W>>,
{
    let m = mul_inputs(t, c, L, L);
    wide_checks::<L, L, W>(c, &m)?;
    for (xl, who) in [(&m.al, "a"), (&m.bl, "b")] {
        let x = int::<L>(xl);
        let xv = sbig(xl);
        let sq = (&xv * &xv).magnitude().clone();
        let got: Uint<W> = total("Int::widening_square", || x.widening_square())?;
        veq!(ul(&got), limbs_of(&sq, W), "Int::widening_square ({who}, I{})", 64 * L);
    }
    Ok(())
}

// ------------------------------------------------------------------------------------------------
// sign / abs / reconstruction / predicates / constants

fn sign_case<const N: usize>(t: &mut Tape, c: &mut Case) -> CaseResult {
    let al = sint(t, N);
    let (ml, s) = abs_sign_input(t, N);
    c.limbs("a", &al);
    c.limbs("abs", &ml);
    c.num("negative", s as u64);
    let w = Wd::new(N);
    let a = int::<N>(&al);
    let av = sbig(&al);
    label_operand(c, &w, &av);
    c.nontrivial(w.edge_or_out(&av) || Wd::is_minus_one(&av));

    // predicates
    veq!(bool::from(a.is_negative()), av.sign() == Sign::Minus, "Int::is_negative");
    veq!(bool::from(a.is_positive()), av.sign() == Sign::Plus, "Int::is_positive");
    veq!(bool::from(a.is_min()), av == w.min, "Int::is_min");
    veq!(bool::from(a.is_max()), av == w.max, "Int::is_max");
    // decomposition
    let mag = limbs_exact(av.magnitude(), N);
    let (abs, sg) = a.abs_sign();
    veq!(ul(&abs), mag, "Int::abs_sign magnitude");
    veq!(bool::from(sg), av.sign() == Sign::Minus, "Int::abs_sign sign");
    veq!(ul(&a.abs()), mag, "Int::abs");
    // reconstruction round trip (exact for every value, including MIN)
    chk_opt!("new_from_abs_sign(abs_sign(a))", copt(Int::<N>::new_from_abs_sign(abs, sg)), true, al.clone());
    // bit reinterpretation and limb constructors
    veq!(ul(a.as_uint()), al, "Int::as_uint");
    veq!(il(&uint::<N>(&al).as_int()), al, "Uint::as_int");
    veq!(il(&Int::<N>::new(a.to_limbs())), al, "Int::new(to_limbs)");
    veq!(a.as_limbs().iter().map(|l| l.0).collect::<Vec<u64>>(), al, "Int::as_limbs");
    veq!(a.to_words().to_vec(), al, "Int::to_words");
    // zero / one / parity predicates and the NonZero / Odd wrappers of a signed value
    veq!(num_traits::Zero::is_zero(&a), av.is_zero(), "Zero::is_zero for Int");
    veq!(num_traits::One::is_one(&a), av.is_one(), "One::is_one for Int");
    chk_opt!("Int::to_nz", copt(a.to_nz()).map(|x| x.get()), !av.is_zero(), al.clone());
    let odd = al[0] & 1 == 1; // parity of the mathematical integer = low bit in two's complement
    chk_opt!("Int::to_odd", copt(a.to_odd()).map(|x| x.get()), odd, al.clone());

    // reconstruction from an arbitrary (magnitude, sign)
    let mv = pbig(big(&ml));
    let v = if s { -mv.clone() } else { mv.clone() };
    let fits = w.fits(&v);
    c.nontrivial(!fits || w.edge_or_out(&v) || (s && mv.is_zero()));
    if s && mv.is_zero() {
        c.label("new_from_abs_sign: negative zero");
    } else if *mv.magnitude() == pow2(w.bits - 1) {
        c.label(if s { "new_from_abs_sign: magnitude 2^(B-1), negative (= MIN)" } else { "new_from_abs_sign: magnitude 2^(B-1), positive (unrepresentable)" });
    } else if !fits {
        c.label("new_from_abs_sign: unrepresentable");
    } else {
        c.label("new_from_abs_sign: representable");
    }
    chk_opt!("Int::new_from_abs_sign", copt(Int::<N>::new_from_abs_sign(uint::<N>(&ml), cc(s))), fits, twos(&v, N));

    // constants
    veq!(il(&Int::<N>::MIN), twos(&w.min, N), "Int::MIN");
    veq!(il(&Int::<N>::MAX), twos(&w.max, N), "Int::MAX");
    veq!(il(&Int::<N>::ZERO), vec![0u64; N], "Int::ZERO");
    veq!(il(&Int::<N>::default()), vec![0u64; N], "Int::default");
    veq!(il(&Int::<N>::ONE), twos(&BigInt::one(), N), "Int::ONE");
    veq!(il(&Int::<N>::MINUS_ONE), vec![u64::MAX; N], "Int::MINUS_ONE");
    veq!(il(&Int::<N>::SIGN_MASK), twos(&w.min, N), "Int::SIGN_MASK");
    veq!(il(&Int::<N>::FULL_MASK), vec![u64::MAX; N], "Int::FULL_MASK");
    veq!(Int::<N>::BITS as u64, w.bits, "Int::BITS");
    Ok(())
}

// ------------------------------------------------------------------------------------------------
// resize

fn resize_case<const L: usize>(t: &mut Tape, c: &mut Case) -> CaseResult {
    let al = resize_operand(t, L);
    c.limbs("a", &al);
    let w = Wd::new(L);
    let a = int::<L>(&al);
    let av = sbig(&al);
    label_operand(c, &w, &av);
    c.nontrivial(w.edge_or_out(&av) || Wd::is_minus_one(&av));
    let negative = av.sign() == Sign::Minus;
    macro_rules! to {
        ($($t:literal),*) => { $( {
            const T: usize = $t;
            let wt = Wd::new(T);
            // sign extension when widening, truncated representation when narrowing (documented lossy)
            let want = twos(&av, T);
            let fits = wt.fits(&av);
            if T > L {
                c.nontrivial(negative);
                c.label(if negative { "resize: widen a negative value" } else { "resize: widen a non-negative value" });
            } else if T < L {
                c.nontrivial(!fits || wt.edge_or_out(&av));
                if av == wt.min || av == wt.max {
                    c.label("resize: narrow, value = MIN/MAX of the target");
                } else if av == &wt.min - 1 || av == &wt.max + 1 {
                    c.label("resize: narrow, value one outside the target range");
                } else if fits {
                    c.label("resize: narrow, value fits");
                } else {
                    c.label("resize: narrow, value does not fit (truncation)");
                }
            }
            let r: Int<T> = total("Int::resize", || a.resize::<T>())?;
            veq!(il(&r), want, "Int::resize I{} -> I{}", 64 * L, 64 * T);
            if fits {
                veq!(ibig(&r), av, "Int::resize I{} -> I{} must preserve a value that fits", 64 * L, 64 * T);
            }
            let r2: Int<T> = total("From<&Int>", || Int::<T>::from(&a))?;
            veq!(il(&r2), want, "From<&Int<{}>> for Int<{}>", L, T);
        } )* };
    }
    to!(1, 2, 3, 4, 8, 16);
    Ok(())
}


// ------------------------------------------------------------------------------------------------
// conversions from / to primitives

fn from_case<const N: usize>(t: &mut Tape, c: &mut Case) -> CaseResult {
    let x8 = prim(t, 8);
    let x16 = prim(t, 16);
    let x32 = prim(t, 32);
    let x64 = prim(t, 64);
    let x128 = prim(t, 128);
    c.inum("i8", x8);
    c.inum("i16", x16);
    c.inum("i32", x32);
    c.inum("i64", x64);
    c.inum("i128", x128);
    let w = Wd::new(N);
    macro_rules! small {
        ($x:expr, $ty:ty, $f:ident, $bits:literal) => {{
            let x = $x as $ty;
            let xv = BigInt::from(x);
            let want = twos(&xv, N);
            let edge = x == <$ty>::MIN || x == <$ty>::MAX || x == <$ty>::MIN + 1 || x == <$ty>::MAX - 1 || x == -1;
            c.nontrivial(edge || (x < 0 && 64 * N > $bits));
            if x == <$ty>::MIN {
                c.label(concat!(stringify!($ty), "::MIN"));
            } else if x == <$ty>::MAX {
                c.label(concat!(stringify!($ty), "::MAX"));
            } else if x < 0 {
                c.label(concat!(stringify!($ty), " negative"));
            }
            let got = total(concat!("Int::", stringify!($f)), || Int::<N>::$f(x))?;
            veq!(il(&got), want, "Int::<{}>::{}({})", N, stringify!($f), x);
            let got = total(concat!("From<", stringify!($ty), ">"), || Int::<N>::from(x))?;
            veq!(il(&got), want, "Int::<{}>::from({}{})", N, x, stringify!($ty));
        }};
    }
    small!(x8, i8, from_i8, 8);
    small!(x16, i16, from_i16, 16);
    small!(x32, i32, from_i32, 32);
    small!(x64, i64, from_i64, 64);

    // i128
    let x = x128;
    let xv = BigInt::from(x);
    let edge = x == i128::MIN || x == i128::MAX || x == i128::MIN + 1 || x == i128::MAX - 1 || x == -1;
    if N >= 2 {
        c.nontrivial(edge || (x < 0 && N > 2));
        let want = twos(&xv, N);
        let got = total("Int::from_i128", || Int::<N>::from_i128(x))?;
        veq!(il(&got), want, "Int::<{}>::from_i128({})", N, x);
        let got = total("From<i128>", || Int::<N>::from(x))?;
        veq!(il(&got), want, "Int::<{}>::from({}i128)", N, x);
    } else {
        // Narrowing: i128 into one 64-bit limb. No documentation promises truncation (the unsigned
        // twin `Uint::from_u128` asserts the width), so: a panic, or the exact value if it fits.
        let fits = w.fits(&xv);
        c.nontrivial(edge || !fits);
        c.label(if fits { "i128 -> 1 limb: value fits" } else { "i128 -> 1 limb: value does not fit" });
        let forms: [(&str, Result<Int<N>, String>); 2] =
            [("Int::from_i128", guard(|| Int::<N>::from_i128(x))), ("From<i128>", guard(|| Int::<N>::from(x)))];
        for (name, r) in forms {
            match r {
                Err(_) => {} // acceptable: refuses a type that cannot hold an i128
                Ok(v) => {
                    let got = il(&v);
                    if fits {
                        veq!(got, twos(&xv, N), "{name}: Int::<1> from {x}i128 (fits one limb)");
                    } else if got == vec![x as u64] {
                        return Err(Fail::known(
                            "F-11b",
                            format!("{name}: Int::<1> from {x}i128 silently returned the truncated value {} [{}]", hex(&got), PROFILE),
                        ));
                    } else {
                        vfail!("{name}: Int::<1> from {x}i128 returned {} (neither a panic nor the exact value nor the known truncation)", hex(&got));
                    }
                }
            }
        }
    }
    Ok(())
}

/// `I64 -> i64`, `I128 -> i128` and the round trips through `from_i64` / `from_i128`.
fn to_prim_case(t: &mut Tape, c: &mut Case) -> CaseResult {
    let a1 = sint(t, 1);
    let a2 = sint(t, 2);
    let x64 = prim(t, 64) as i64;
    let x128 = prim(t, 128);
    c.limbs("I64", &a1);
    c.limbs("I128", &a2);
    c.inum("i64", x64 as i128);
    c.inum("i128", x128);
    let (w1, w2) = (Wd::new(1), Wd::new(2));
    let (v1, v2) = (sbig(&a1), sbig(&a2));
    label_operand(c, &w1, &v1);
    label_operand(c, &w2, &v2);
    c.nontrivial(w1.edge_or_out(&v1) || w2.edge_or_out(&v2) || Wd::is_minus_one(&v1) || Wd::is_minus_one(&v2));
    c.nontrivial(x64 == i64::MIN || x64 == i64::MAX || x64 == -1 || x128 == i128::MIN || x128 == i128::MAX || x128 == -1);
    let i1: I64 = int::<1>(&a1);
    let i2: I128 = int::<2>(&a2);
    veq!(BigInt::from(i64::from(i1)), v1, "i64::from(I64)");
    veq!(BigInt::from(i128::from(i2)), v2, "i128::from(I128)");
    veq!(i64::from(I64::from_i64(x64)), x64, "i64::from(I64::from_i64(x))");
    veq!(i64::from(I64::from(x64)), x64, "i64::from(I64::from(x))");
    veq!(i128::from(I128::from_i128(x128)), x128, "i128::from(I128::from_i128(x))");
    veq!(i128::from(I128::from(x128)), x128, "i128::from(I128::from(x))");
    veq!(i128::from(I128::from_i64(x64)), x64 as i128, "i128::from(I128::from_i64(x))");
    Ok(())
}

// ------------------------------------------------------------------------------------------------

// declared after the verdict macros (`chk_opt!`, `chk_op!`) so that they are in scope there
mod surface;

macro_rules! per_width {
    ($v:ident, $name:literal, $q:expr, $f:ident, $tape:expr; $($n:literal),*) => { $(
        $v.push(SubCheck::new(format!("{}/I{}", $name, 64 * $n), $q, $f::<$n>).tape($tape + 8 * $n));
    )* };
}
macro_rules! mul_mixed {
    ($v:ident, $q:expr; $(($l:literal, $r:literal)),*) => { $(
        $v.push(SubCheck::new(format!("mul/I{}xI{}", 64 * $l, 64 * $r), $q, mul_case::<$l, $r>).tape(40 + 5 * ($l + $r)));
    )* };
}
macro_rules! wide_eq {
    ($v:ident, $q:expr; $(($l:literal, $w:literal)),*) => { $(
        $v.push(SubCheck::new(format!("widening/I{}xI{}", 64 * $l, 64 * $l), $q, wide_eq_case::<$l, $w>).tape(40 + 10 * $l));
    )* };
}
macro_rules! wide_mixed {
    ($v:ident, $q:expr; $(($l:literal, $r:literal, $w:literal)),*) => { $(
        $v.push(SubCheck::new(format!("widening/I{}xI{}", 64 * $l, 64 * $r), $q, wide_case::<$l, $r, $w>).tape(40 + 5 * ($l + $r)));
    )* };
}

fn subchecks(ctx: &Ctx) -> Vec<SubCheck> {
    let mut v = vec![];
    per_width!(v, "add+sub+neg", 150_000, addsub_case, 32; 1, 2, 3, 4);
    per_width!(v, "add+sub+neg", 80_000, addsub_case, 32; 8, 16);
    per_width!(v, "mul+square", 80_000, mul_eq_case, 40; 1, 2, 3, 4);
    per_width!(v, "mul+square", 40_000, mul_eq_case, 40; 8, 16);
    mul_mixed!(v, 40_000; (1, 2), (2, 1), (1, 4), (4, 1), (2, 3), (3, 2), (3, 4), (4, 3));
    mul_mixed!(v, 20_000; (4, 8), (8, 4), (1, 16), (16, 1), (8, 16), (16, 8), (2, 8), (3, 16));
    wide_eq!(v, 30_000; (1, 2), (2, 4), (3, 6), (4, 8));
    wide_eq!(v, 15_000; (8, 16), (16, 32));
    wide_mixed!(v, 20_000; (1, 2, 3), (2, 1, 3), (1, 3, 4), (3, 1, 4), (2, 3, 5), (4, 3, 7), (3, 4, 7));
    wide_mixed!(v, 10_000; (8, 4, 12), (4, 8, 12), (15, 1, 16), (1, 15, 16));
    per_width!(v, "sign+abs", 120_000, sign_case, 32; 1, 2, 3, 4);
    per_width!(v, "sign+abs", 60_000, sign_case, 32; 8, 16);
    per_width!(v, "resize", 60_000, resize_case, 24; 1, 2, 3, 4, 8, 16);
    per_width!(v, "from-primitive", 40_000, from_case, 24; 1, 2, 3, 4, 8, 16);
    v.push(SubCheck::new("to-primitive/I64,I128", 100_000, to_prim_case).tape(40));
    if ctx.thorough() {
        per_width!(v, "add+sub+neg", 20_000, addsub_case, 32; 5, 32);
        per_width!(v, "mul+square", 10_000, mul_eq_case, 40; 5, 32);
        per_width!(v, "sign+abs", 20_000, sign_case, 32; 5, 32);
    }
    v.extend(extra::subchecks(ctx));
    v.extend(surface::subchecks(ctx));
    v
}
