//! C05 — shifts and bit queries agree with the binary expansion for every shift amount.
//!
//! Oracle: `num_bigint` `floor(x * 2^(+-s)) mod 2^BITS` (BigInt `div_floor` for the arithmetic right
//! shift of `Int`), overflow <=> s >= BITS; bit queries straight from the binary expansion of the
//! input limbs. Nothing on the oracle side calls crypto-bigint.
//!
//! Documentation conflicts handled here (GUIDE "assert what all documents agree on"):
//! * `Limb::shl/shr` and `WrappingShl/Shr for Limb`: only shift < 64 is asserted (DESIGN scope note;
//!   the >= 64 divergence is F-11c under C11).
//! * "wrapping" shifts with s >= BITS: the property statement and the inherent `Uint`/`Int` docs say
//!   *zero* (sign fill for `Int >>`); the docs of `num_traits::WrappingShl/Shr`,
//!   `ShlVartime/ShrVartime::wrapping_sh*_vartime` and the inherent `BoxedUint::wrapping_sh*` say
//!   "masking off bits of `shift` which would cause the shift to exceed the type's width". For the
//!   forms whose own documentation says "masking" both results are accepted (zero / sign fill, or the
//!   shift by `s mod BITS`, or by `s & (next_power_of_two(BITS) - 1)` when that is < BITS); for
//!   s < BITS every document agrees and the exact value is asserted.
//! * `overflowing_sh*_vartime_wide`: the doc comment says `None` if `shift >= Self::BITS`, the crate's
//!   own tests pin `Some` for BITS <= shift < 2*BITS. Asserted: s < BITS => Some(exact);
//!   s >= 2*BITS => None; in between either `None` or `Some(exact)`.
//! * the value carried inside a `None` `ConstCtOption` is unspecified and never inspected.

use crypto_bigint::{BoxedUint, Int, Limb, Uint, Wrapping};
use num_bigint::{BigInt, BigUint};
use num_integer::Integer;
use vmodel::*;

mod boxedu;
mod fixed;
mod limbw;
mod mixed;
mod signed;
mod surface;

pub fn spec() -> PropSpec {
    PropSpec {
        id: "C05",
        rule: "cases: a value x (n limbs) built from shapes K constants (0,1,MAX,2^(B-1)..), P single bit 2^k (+-1) with k uniform over every bit position or edge-biased, R run of ones with one end on a limb boundary, L patterned limbs, 'low ones run ending exactly at a limb boundary + stopper limb', 'low zero limbs then a marker limb', 'zero high limbs below a top-limb edge', T random bit length, U uniform. shift-sweep sub-checks: for each x (and a second value `hi` for the double-width forms) EVERY shift in 0..=2*BITS+1 and u32::MAX is evaluated (Limb: every shift 0..64) on all constant-time / vartime / overflowing / wrapping / panicking / wide forms; shift-forms sub-checks: one (x, s) pair, s from classes {0, 1..63, 64k, 64k+-1, BITS-1, BITS, BITS+1, (BITS,2BITS), 2BITS, 2BITS+1, u32::MAX, uniform, huge} on every operator / trait / Wrapping / assign form incl. i32, usize, negative i32; bits sub-checks: every bit index 0..=BITS+1 (+ far out-of-range indices) for bit/bit_vartime and every index 0..BITS with both values for set_bit(_vartime), plus bits / leading / trailing zeros / ones in ct and vartime forms; bitops sub-checks: pairs (a, b) and a limb on every & | ^ ! form. non-trivial: shift-forms: s % 64 == 0, or s == BITS-1, or s >= BITS, or x has a set bit that lands in a different limb (and stays inside the width) under << s or >> s; shift-sweep and bits: x != 0 (the sweep always contains the special shifts, and a non-zero x has a bit that crosses a limb boundary or leaves the width for some swept shift); bitops: a != 0, b != 0 and a != b. surface sub-checks (API-surface audit, /verif/audit/C.md): boxed-mixed-precision-forms: pairs (a, b) of BoxedUint with DIFFERENT limb counts 1..=20 (adjacent counts over-weighted; one case in three forces the wider operand non-zero above the narrower precision) on the operator / checked_* / Wrapping<BoxedUint> by-reference and assigning forms not covered by boxed/bitops-mixed-precision, non-trivial: a != 0, b != 0 and the wider operand has a non-zero limb above the narrower operand's precision; widths: the fixed / int sub-checks repeated at 7, 9, 12 (Uint) and 5, 7 (Int) limbs with their own rules. distinct by the recorded inputs (x [, hi] [, s] or a, b, limb; boxed cases include the limb count through the limb vector length). Since seeding round 4: far shifts congruent to an in-range shift modulo 2^j (r 2^j + k, j <= 31) in the shift-forms classes and in the exhaustive sweeps.",
        assumptions: vec![
            "num-bigint shifts / div_floor are correct (independent implementation)".into(),
            "bridging uses from_words/as_words only".into(),
            "target has 64-bit limbs (Word = u64)".into(),
        ],
        subchecks,
    }
}

// ------------------------------------------------------------------------------------------------
// oracle

/// floor(x * 2^s) mod 2^(64 n)
pub(crate) fn shl_b(x: &BigUint, n: usize, s: u64) -> Limbs {
    if s >= 64 * n as u64 {
        return vec![0; n];
    }
    limbs_of(&(x << s), n)
}

/// floor(x / 2^s) (x < 2^(64 n))
pub(crate) fn shr_b(x: &BigUint, n: usize, s: u64) -> Limbs {
    if s >= 64 * n as u64 {
        return vec![0; n];
    }
    limbs_of(&(x >> s), n)
}

pub(crate) fn shl_o(x: &[u64], s: u64) -> Limbs {
    shl_b(&big(x), x.len(), s)
}

pub(crate) fn shr_o(x: &[u64], s: u64) -> Limbs {
    shr_b(&big(x), x.len(), s)
}

/// floor(x / 2^s) for the two's complement value x (arithmetic shift); for s >= BITS-1 this is the
/// sign fill (0 or -1), so clamping s at BITS is exact.
pub(crate) fn sar_o(x: &[u64], s: u64) -> Limbs {
    let n = x.len();
    let s = s.min(64 * n as u64);
    let d = BigInt::from(pow2(s));
    twos(&sbig(x).div_floor(&d), n)
}

pub(crate) fn sign_fill(x: &[u64]) -> Limbs {
    let neg = x.last().map(|w| w >> 63 == 1).unwrap_or(false);
    vec![if neg { u64::MAX } else { 0 }; x.len()]
}

/// Results accepted from a "wrapping" form whose own documentation says "masking" (see module doc).
pub(crate) fn wrap_accept(x: &[u64], s: u64, f: fn(&[u64], u64) -> Limbs, fill: Limbs) -> Vec<Limbs> {
    let bits = 64 * x.len() as u64;
    if s < bits {
        return vec![f(x, s)];
    }
    let mut v = vec![fill, f(x, s % bits)];
    let m = s & (bits.next_power_of_two() - 1);
    if m < bits {
        v.push(f(x, m));
    }
    v
}

pub(crate) fn bit_o(x: &[u64], i: u64) -> bool {
    let l = (i / 64) as usize;
    l < x.len() && (x[l] >> (i % 64)) & 1 == 1
}

/// (bit length, leading zeros, trailing zeros, trailing ones) by walking the binary expansion.
pub(crate) fn queries_o(x: &[u64]) -> (u32, u32, u32, u32) {
    let bits = 64 * x.len() as u64;
    let mut len = 0u64;
    for i in (0..bits).rev() {
        if bit_o(x, i) {
            len = i + 1;
            break;
        }
    }
    let mut tz = 0u64;
    while tz < bits && !bit_o(x, tz) {
        tz += 1;
    }
    let mut to = 0u64;
    while to < bits && bit_o(x, to) {
        to += 1;
    }
    (len as u32, (bits - len) as u32, tz as u32, to as u32)
}

pub(crate) fn set_bit_o(x: &[u64], i: u64, v: bool) -> Limbs {
    let mut r = x.to_vec();
    let l = (i / 64) as usize;
    if v {
        r[l] |= 1 << (i % 64);
    } else {
        r[l] &= !(1 << (i % 64));
    }
    r
}

// ------------------------------------------------------------------------------------------------
// comparing results

pub(crate) trait Words {
    fn w(&self) -> &[u64];
}
impl<const N: usize> Words for Uint<N> {
    fn w(&self) -> &[u64] {
        self.as_words()
    }
}
impl<const N: usize> Words for Int<N> {
    fn w(&self) -> &[u64] {
        self.as_words()
    }
}
impl Words for BoxedUint {
    fn w(&self) -> &[u64] {
        self.as_words()
    }
}
impl Words for Limb {
    fn w(&self) -> &[u64] {
        core::slice::from_ref(&self.0)
    }
}
impl<T: Words> Words for Wrapping<T> {
    fn w(&self) -> &[u64] {
        self.0.w()
    }
}

#[inline]
pub(crate) fn eqw<T: Words>(got: &T, want: &[u64], name: &str, s: u64) -> CaseResult {
    if got.w() != want {
        return Err(Fail::new(format!("{name} (shift/index {s}): got {}, want {}", hex(got.w()), hex(want))));
    }
    Ok(())
}

/// `Some` exactly when there is no overflow, and then the exact value.
#[inline]
pub(crate) fn opt_eq<T: Words>(got: &Option<T>, over: bool, want: &[u64], name: &str, s: u64) -> CaseResult {
    match got {
        Some(v) => {
            if over {
                return Err(Fail::new(format!("{name} (shift {s}): reported no overflow (Some {}) although shift >= BITS", hex(v.w()))));
            }
            eqw(v, want, name, s)
        }
        None => {
            if !over {
                return Err(Fail::new(format!("{name} (shift {s}): reported overflow (None) although shift < BITS")));
            }
            Ok(())
        }
    }
}

/// A form documented to panic exactly when shift >= BITS.
pub(crate) fn panics_iff<T: Words>(r: Result<T, String>, over: bool, want: &[u64], name: &str, s: u64) -> CaseResult {
    match r {
        Ok(v) => {
            if over {
                return Err(Fail::new(format!("{name} (shift {s}): returned {} although the shift is out of range (documented panic)", hex(v.w()))));
            }
            eqw(&v, want, name, s)
        }
        Err(m) => {
            if !over {
                return Err(Fail::new(format!("{name} (shift {s}): panicked ({m}) although shift < BITS")));
            }
            Ok(())
        }
    }
}

pub(crate) fn in_set<T: Words>(got: &T, accept: &[Limbs], name: &str, s: u64) -> CaseResult {
    if accept.iter().any(|a| a.as_slice() == got.w()) {
        return Ok(());
    }
    Err(Fail::new(format!(
        "{name} (shift {s}): got {}, want one of [{}]",
        hex(got.w()),
        accept.iter().map(|a| hex(a)).collect::<Vec<_>>().join(", ")
    )))
}

/// In-domain operation inside a sweep: must not panic.
#[inline]
pub(crate) fn tot<R>(what: &str, s: u64, f: impl FnOnce() -> R) -> Result<R, Fail> {
    guard(f).map_err(|p| Fail::new(format!("{what} (shift/index {s}): unexpected panic: {p}")))
}

/// Push guard results of the three operator forms (by value, by reference, assigning) for `<<` and
/// `>>` with one shift-amount expression.
#[macro_export]
macro_rules! shift_ops {
    ($l:ident, $r:ident, $a:expr, $amt:expr, $tag:literal) => {{
        let a = $a.clone();
        let amt = $amt;
        $l.push((concat!("val << ", $tag), guard(|| a.clone() << amt)));
        $l.push((concat!("&val << ", $tag), guard(|| &a << amt)));
        $l.push((concat!("val <<= ", $tag), guard(|| {
            let mut x = a.clone();
            x <<= amt;
            x
        })));
        $r.push((concat!("val >> ", $tag), guard(|| a.clone() >> amt)));
        $r.push((concat!("&val >> ", $tag), guard(|| &a >> amt)));
        $r.push((concat!("val >>= ", $tag), guard(|| {
            let mut x = a.clone();
            x >>= amt;
            x
        })));
    }};
}

/// All `& | ^` forms shared by Uint / Int / BoxedUint (inherent, wrapping_*, operators by value / by
/// reference / assigning, Wrapping<T>) for one operator; `$chk` converts the `checked_*` result to
/// `Option`.
#[macro_export]
macro_rules! bitop_forms {
    ($ty:ty, $a:expr, $b:expr, $want:expr, $op:tt, $opa:tt, $inh:ident, $wr:ident, $ck:ident, $sym:literal) => {{
        let (a, b) = ($a.clone(), $b.clone());
        let want: &[u64] = $want;
        $crate::eqw(&a.$inh(&b), want, concat!("inherent bit", $sym), 0)?;
        $crate::eqw(&a.$wr(&b), want, concat!("wrapping_", $sym), 0)?;
        let ck: Option<$ty> = a.$ck(&b).into();
        match ck {
            Some(v) => $crate::eqw(&v, want, concat!("checked_", $sym), 0)?,
            None => vfail!(concat!("checked_", $sym, " returned none (documented: is_some always)")),
        }
        $crate::eqw(&(a.clone() $op b.clone()), want, concat!("a ", $sym, " b"), 0)?;
        $crate::eqw(&(a.clone() $op &b), want, concat!("a ", $sym, " &b"), 0)?;
        $crate::eqw(&(&a $op b.clone()), want, concat!("&a ", $sym, " b"), 0)?;
        $crate::eqw(&(&a $op &b), want, concat!("&a ", $sym, " &b"), 0)?;
        let mut x = a.clone();
        x $opa b.clone();
        $crate::eqw(&x, want, concat!("a ", $sym, "= b"), 0)?;
        let mut x = a.clone();
        x $opa &b;
        $crate::eqw(&x, want, concat!("a ", $sym, "= &b"), 0)?;
        let (wa, wb) = (Wrapping(a.clone()), Wrapping(b.clone()));
        $crate::eqw(&(wa.clone() $op wb.clone()), want, concat!("Wrapping a ", $sym, " b"), 0)?;
        $crate::eqw(&(wa.clone() $op &wb), want, concat!("Wrapping a ", $sym, " &b"), 0)?;
        $crate::eqw(&(&wa $op wb.clone()), want, concat!("Wrapping &a ", $sym, " b"), 0)?;
        $crate::eqw(&(&wa $op &wb), want, concat!("Wrapping &a ", $sym, " &b"), 0)?;
        let mut x = wa.clone();
        x $opa wb.clone();
        $crate::eqw(&x, want, concat!("Wrapping a ", $sym, "= b"), 0)?;
        let mut x = wa.clone();
        x $opa &wb;
        $crate::eqw(&x, want, concat!("Wrapping a ", $sym, "= &b"), 0)?;
    }};
}

pub(crate) fn zip_limbs(a: &[u64], b: &[u64], f: fn(u64, u64) -> u64) -> Limbs {
    a.iter().zip(b.iter()).map(|(x, y)| f(*x, *y)).collect()
}

// ------------------------------------------------------------------------------------------------
// generators

pub(crate) mod g {
    use vmodel::gen::{self, M};
    use vmodel::*;

    fn set(v: &mut [u64], k: u64) {
        v[(k / 64) as usize] |= 1 << (k % 64);
    }

    const STOP_ONES: [u64; 6] = [0, M - 1, 1 << 63, 2, 0xAAAA_AAAA_AAAA_AAAA, M << 32];
    const MARK: [u64; 7] = [1, M, 1 << 63, 3, 1 << 32, 0x5555_5555_5555_5555, (1 << 63) | 1];

    /// A value of n limbs with its shape recorded as a class label.
    pub fn value(t: &mut Tape, c: &mut Case, n: usize) -> Limbs {
        let (v, lab) = value_raw(t, n);
        c.label(lab);
        v
    }

    pub fn value_raw(t: &mut Tape, n: usize) -> (Limbs, &'static str) {
        let bits = 64 * n as u64;
        // single-limb values have few distinct shaped forms: lean on random bit lengths / uniform there
        let weights: [u32; 9] = if n == 1 { [1, 3, 1, 3, 1, 1, 1, 5, 5] } else { [2, 4, 3, 3, 2, 2, 2, 2, 2] };
        match t.weighted(&weights) {
            0 => (gen::shape_k(t, n), "x: K constant"),
            1 => {
                // every bit position (uniform) or edge-biased position
                let k = if t.bool() { t.below(bits) } else { t.edgy(bits - 1) };
                let mut v = vec![0u64; n];
                set(&mut v, k);
                match t.weighted(&[3, 1, 1]) {
                    0 => {}
                    1 => gen::dec(&mut v),
                    _ => gen::inc(&mut v),
                }
                (v, "x: P single bit 2^k (+-1)")
            }
            2 => {
                // run of ones with one end exactly on a limb boundary
                let j = 64 * t.below(n as u64 + 1);
                let o = t.edgy(bits);
                let (lo, hi) = if j <= o { (j, o) } else { (o, j) };
                let mut v = vec![0u64; n];
                for k in lo..hi {
                    set(&mut v, k);
                }
                (v, "x: R run of ones ending at a limb boundary")
            }
            3 => (gen::shape_l(t, n), "x: L patterned limbs"),
            4 => {
                // ones in [0, 64 j), then a limb with bit 0 clear: trailing_ones == 64 j exactly
                let j = t.usize_in(0, n);
                let mut v: Limbs = (0..n).map(|_| gen::limb_word(t)).collect();
                for w in v.iter_mut().take(j) {
                    *w = M;
                }
                if j < n {
                    v[j] = t.pick(&STOP_ONES);
                }
                (v, "x: low ones run ends exactly at a limb boundary")
            }
            5 => {
                // zeros in [0, 64 j), then a marker limb
                let j = t.usize_in(0, n - 1);
                let mut v: Limbs = (0..n).map(|_| gen::limb_word(t)).collect();
                for w in v.iter_mut().take(j) {
                    *w = 0;
                }
                v[j] = t.pick(&MARK) << t.pick(&[0u32, 0, 1, 31, 62]);
                if v[j] == 0 {
                    v[j] = 1 << 63;
                }
                (v, "x: low zero limbs then a marker limb")
            }
            6 => {
                // zero high limbs from j, limb j-1 a top-limb edge
                let j = t.usize_in(1, n);
                let mut v: Limbs = (0..n).map(|_| gen::limb_word(t)).collect();
                for w in v.iter_mut().skip(j) {
                    *w = 0;
                }
                v[j - 1] = t.pick(&[1u64, M, 1 << 63, M >> 1, 2]);
                (v, "x: zero high limbs, top limb edge")
            }
            7 => (gen::shape_t(t, n), "x: T random bit length"),
            _ => (gen::shape_u(t, n), "x: U uniform"),
        }
    }

    /// One shift amount, classes over-weighted at the boundaries named by the quantifier.
    pub fn shift(t: &mut Tape, bits: u64) -> u64 {
        match t.weighted(&[1, 2, 3, 3, 2, 2, 2, 2, 1, 1, 2, 3, 1]) {
            0 => 0,
            1 => t.range(1, 63),
            2 => 64 * t.range(0, 2 * bits / 64),
            3 => {
                let k = 64 * t.range(1, 2 * bits / 64);
                if t.bool() {
                    k + 1
                } else {
                    k - 1
                }
            }
            4 => bits - 1,
            5 => bits,
            6 => bits + 1,
            7 => t.range(bits + 1, 2 * bits - 1),
            8 => 2 * bits,
            9 => 2 * bits + 1,
            10 => u32::MAX as u64,
            11 => t.range(0, 2 * bits + 1),
            _ => {
                // far out of range: uniform, or (two times in three) congruent to an in-range shift
                // modulo a power of two, r * 2^j + k — what a truncated / masked / partially compared
                // shift amount would be mistaken for
                if t.chance(2, 3) {
                    let jmin = 64 - (2 * bits + 1).leading_zeros() as u64;
                    let j = match t.weighted(&[2, 1]) {
                        0 => t.pick(&[31u64, 30, 16, 24]).max(jmin),
                        _ => t.range(jmin, 31),
                    };
                    let r = t.range(1, 3);
                    let k = t.range(0, bits + 1);
                    let s = ((r << j) + k) & (u32::MAX as u64);
                    if s > 2 * bits + 1 {
                        s
                    } else {
                        (1 << 31) + k
                    }
                } else {
                    t.range(2 * bits + 2, u32::MAX as u64)
                }
            }
        }
    }

    pub fn label_shift(c: &mut Case, s: u64, bits: u64) {
        let l = if s == 0 {
            "s = 0"
        } else if s == bits - 1 {
            "s = BITS-1"
        } else if s < bits {
            if s % 64 == 0 {
                "0 < s < BITS, s % 64 == 0"
            } else if s % 64 == 1 || s % 64 == 63 {
                "0 < s < BITS, s = 64k+-1"
            } else {
                "0 < s < BITS, other"
            }
        } else if s == bits {
            "s = BITS"
        } else if s < 2 * bits {
            "BITS < s < 2*BITS"
        } else if s == 2 * bits {
            "s = 2*BITS"
        } else if s == u32::MAX as u64 {
            "s = u32::MAX"
        } else {
            "s > 2*BITS"
        };
        c.label(l);
    }

    /// x has a set bit that lands in a different limb, still inside the width, under `<< s` or `>> s`.
    pub fn crosses(x: &[u64], s: u64) -> bool {
        let n = x.len();
        let bits = 64 * n as u64;
        if s == 0 || s >= bits {
            return false;
        }
        for p in 0..bits {
            if (x[(p / 64) as usize] >> (p % 64)) & 1 == 1 {
                if p + s < bits && (p + s) / 64 != p / 64 {
                    return true;
                }
                if p >= s && (p - s) / 64 != p / 64 {
                    return true;
                }
            }
        }
        false
    }

    /// The design's non-triviality rule for one (x, s) pair.
    pub fn pair_nontrivial(x: &[u64], s: u64) -> bool {
        let bits = 64 * x.len() as u64;
        s % 64 == 0 || s == bits - 1 || s >= bits || crosses(x, s)
    }

    /// A negative i32 shift amount.
    pub fn neg_i32(t: &mut Tape, s: u64) -> i32 {
        match t.weighted(&[2, 1, 2, 1]) {
            0 => -1,
            1 => i32::MIN,
            2 => -((s.min(i32::MAX as u64) as i32).max(1)),
            _ => -(t.range(1, i32::MAX as u64) as i32),
        }
    }

    /// Every shift of the exhaustive sweep: 0..=2*BITS+1, u32::MAX, and far shifts that are congruent
    /// to small in-range shifts modulo 2^16, 2^24, 2^30, 2^31.
    pub fn sweep_shifts(bits: u64) -> impl Iterator<Item = u64> {
        let far = [16u64, 24, 30, 31]
            .into_iter()
            .flat_map(move |j| [0u64, 1, 63, 64, 65, bits - 1, bits].into_iter().map(move |k| (1u64 << j) + k))
            .chain([(3u64 << 30) + 1, (1u64 << 32) - bits, (1u64 << 32) - 64])
            .filter(move |&s| s > 2 * bits + 1 && s < u32::MAX as u64);
        (0..=2 * bits + 1).chain(std::iter::once(u32::MAX as u64)).chain(far)
    }
}

// ------------------------------------------------------------------------------------------------

macro_rules! fixed_set {
    ($v:ident, $sweep:expr, $forms:expr, $bits:expr, $ops:expr; $($n:literal),*) => { $(
        $v.push(SubCheck::new(format!("fixed/shift-sweep/U{}", 64*$n), $sweep, fixed::sweep::<$n>).tape(40 + 6 * $n).thorough(10));
        $v.push(SubCheck::new(format!("fixed/shift-forms/U{}", 64*$n), $forms, fixed::forms::<$n>).tape(40 + 6 * $n).thorough(20));
        $v.push(SubCheck::new(format!("fixed/bits/U{}", 64*$n), $bits, fixed::bits::<$n>).tape(24 + 3 * $n).thorough(10));
        $v.push(SubCheck::new(format!("fixed/bitops/U{}", 64*$n), $ops, fixed::bitops::<$n>).tape(40 + 6 * $n).thorough(10));
    )* };
}
macro_rules! int_set {
    ($v:ident, $sweep:expr, $forms:expr, $ops:expr; $($n:literal),*) => { $(
        $v.push(SubCheck::new(format!("int/shift-sweep/I{}", 64*$n), $sweep, signed::sweep::<$n>).tape(24 + 3 * $n).thorough(10));
        $v.push(SubCheck::new(format!("int/shift-forms/I{}", 64*$n), $forms, signed::forms::<$n>).tape(32 + 3 * $n).thorough(20));
        $v.push(SubCheck::new(format!("int/bitops/I{}", 64*$n), $ops, signed::bitops::<$n>).tape(40 + 6 * $n).thorough(10));
    )* };
}

fn subchecks(ctx: &Ctx) -> Vec<SubCheck> {
    let mut v = vec![];
    v.push(SubCheck::new("limb/shift-sweep", 40000, limbw::sweep).tape(12).thorough(10));
    v.push(SubCheck::new("limb/bits+bitops", 100000, limbw::bits_ops).tape(16).thorough(10));
    fixed_set!(v, 6000, 60000, 6000, 30000; 1);
    fixed_set!(v, 3000, 60000, 4000, 30000; 2, 3);
    fixed_set!(v, 1500, 50000, 2500, 20000; 4, 5, 6);
    fixed_set!(v, 800, 40000, 1500, 20000; 8);
    fixed_set!(v, 250, 30000, 600, 10000; 16);
    int_set!(v, 5000, 60000, 20000; 1);
    int_set!(v, 2500, 60000, 20000; 2, 3);
    int_set!(v, 1500, 50000, 20000; 4);
    if ctx.thorough() {
        fixed_set!(v, 600, 30000, 1200, 10000; 7);
        fixed_set!(v, 60, 10000, 200, 5000; 32);
        int_set!(v, 1000, 30000, 10000; 5, 8);
    }
    v.push(SubCheck::new("boxed/shift-sweep/1..=20", 3000, boxedu::sweep(20)).tape(160).thorough(10));
    v.push(SubCheck::new("boxed/shift-forms/1..=20", 80000, boxedu::forms(20)).tape(160).thorough(20));
    v.push(SubCheck::new("boxed/bits/1..=20", 8000, boxedu::bits(20)).tape(100).thorough(10));
    v.push(SubCheck::new("boxed/bitops/1..=20", 40000, boxedu::bitops(20)).tape(160).thorough(10));
    v.push(SubCheck::new("boxed/bitops-mixed-precision/1..=20", 60000, mixed::bitops_mixed(20)).tape(160).thorough(10));
    v.extend(surface::subchecks(ctx));
    v
}
