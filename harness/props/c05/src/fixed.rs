//! `Uint<N>`: shifts (all forms), bit queries, bitwise operators.

use crate::*;
use crypto_bigint::{BitOps, ShlVartime, ShrVartime, WrappingShl, WrappingShr};
use num_bigint::BigUint;
use subtle::Choice;

/// One double-width shift of `(lo, hi)`; `bw` = lo + hi * 2^BITS. A hit of the F-05 signature is
/// returned as a known failure.
fn wide<const N: usize>(left: bool, lo: &Uint<N>, hi: &Uint<N>, bw: &BigUint, s: u64) -> CaseResult {
    let bits = 64 * N as u64;
    let name = if left { "Uint::overflowing_shl_vartime_wide" } else { "Uint::overflowing_shr_vartime_wide" };
    let r = guard(|| {
        let o = if left {
            Uint::overflowing_shl_vartime_wide((*lo, *hi), s as u32)
        } else {
            Uint::overflowing_shr_vartime_wide((*lo, *hi), s as u32)
        };
        Option::<(Uint<N>, Uint<N>)>::from(o)
    });
    let r = match r {
        Ok(r) => r,
        Err(m) => {
            // F-05: exactly shift == 0 and the internal `expect("shift within range")`
            if s == 0 && m.contains("shift within range") {
                return Err(Fail::known("F-05", format!("{name}(_, 0) panics: {m}")));
            }
            return Err(Fail::new(format!("{name} (shift {s}): unexpected panic: {m}")));
        }
    };
    match r {
        Some((l, h)) => {
            vensure!(s < 2 * bits, "{name} (shift {s}): returned Some although shift >= 2*BITS");
            let want = if left { shl_b(bw, 2 * N, s) } else { shr_b(bw, 2 * N, s) };
            eqw(&l, &want[..N], &format!("{name} lower"), s)?;
            eqw(&h, &want[N..], &format!("{name} upper"), s)?;
        }
        None => {
            // BITS <= s < 2*BITS: the doc comment says None, the crate's tests say Some (module doc)
            vensure!(s >= bits, "{name} (shift {s}): returned None although shift < BITS");
        }
    }
    Ok(())
}

/// Every shift 0..=2*BITS+1 and u32::MAX on one value.
pub fn sweep<const N: usize>(t: &mut Tape, c: &mut Case) -> CaseResult {
    let bits = 64 * N as u64;
    let xl = g::value(t, c, N);
    let hl = g::value_raw(t, N).0;
    c.limbs("x", &xl);
    c.limbs("hi", &hl);
    c.nontrivial(!is_zero(&xl));
    let (a, h) = (uint::<N>(&xl), uint::<N>(&hl));
    let bx = big(&xl);
    let bw = big(&[xl.clone(), hl.clone()].concat());
    let mut known: Option<Fail> = None;
    for s in g::sweep_shifts(bits) {
        let s32 = s as u32;
        let over = s >= bits;
        let wl = shl_b(&bx, N, s);
        let wr = shr_b(&bx, N, s);
        let (o1, o2, w1, w2) = tot("Uint overflowing/wrapping shl", s, || {
            (
                Option::<Uint<N>>::from(a.overflowing_shl(s32)),
                Option::<Uint<N>>::from(a.overflowing_shl_vartime(s32)),
                a.wrapping_shl(s32),
                a.wrapping_shl_vartime(s32),
            )
        })?;
        opt_eq(&o1, over, &wl, "Uint::overflowing_shl", s)?;
        opt_eq(&o2, over, &wl, "Uint::overflowing_shl_vartime", s)?;
        eqw(&w1, &wl, "Uint::wrapping_shl", s)?;
        eqw(&w2, &wl, "Uint::wrapping_shl_vartime", s)?;
        let (o1, o2, w1, w2) = tot("Uint overflowing/wrapping shr", s, || {
            (
                Option::<Uint<N>>::from(a.overflowing_shr(s32)),
                Option::<Uint<N>>::from(a.overflowing_shr_vartime(s32)),
                a.wrapping_shr(s32),
                a.wrapping_shr_vartime(s32),
            )
        })?;
        opt_eq(&o1, over, &wr, "Uint::overflowing_shr", s)?;
        opt_eq(&o2, over, &wr, "Uint::overflowing_shr_vartime", s)?;
        eqw(&w1, &wr, "Uint::wrapping_shr", s)?;
        eqw(&w2, &wr, "Uint::wrapping_shr_vartime", s)?;
        if !over {
            let (p1, p2, p3, p4, p5, p6) =
                tot("Uint shl/shr/<</>>", s, || (a.shl(s32), a.shl_vartime(s32), a.shr(s32), a.shr_vartime(s32), a << s32, a >> s32))?;
            eqw(&p1, &wl, "Uint::shl", s)?;
            eqw(&p2, &wl, "Uint::shl_vartime", s)?;
            eqw(&p3, &wr, "Uint::shr", s)?;
            eqw(&p4, &wr, "Uint::shr_vartime", s)?;
            eqw(&p5, &wl, "Uint << u32", s)?;
            eqw(&p6, &wr, "Uint >> u32", s)?;
        } else if s == bits || s == bits + 1 || s == 2 * bits + 1 || s == u32::MAX as u64 || (s > 2 * bits + 1 && (s & 63) <= 1 && (s >> 31 == 1 || s >> 16 == 1)) {
            panics_iff(guard(|| a.shl(s32)), true, &wl, "Uint::shl", s)?;
            panics_iff(guard(|| a.shl_vartime(s32)), true, &wl, "Uint::shl_vartime", s)?;
            panics_iff(guard(|| a.shr(s32)), true, &wr, "Uint::shr", s)?;
            panics_iff(guard(|| a.shr_vartime(s32)), true, &wr, "Uint::shr_vartime", s)?;
        }
        for left in [true, false] {
            match wide(left, &a, &h, &bw, s) {
                Ok(()) => {}
                Err(f) if f.known.is_some() => {
                    known.get_or_insert(f);
                }
                Err(f) => return Err(f),
            }
        }
    }
    match known {
        Some(k) => Err(k),
        None => Ok(()),
    }
}

/// One (x, s) pair on every form: inherent, traits, Wrapping, operators with u32 / i32 / usize by
/// value / by reference / assigning, invalid amounts, double-width.
pub fn forms<const N: usize>(t: &mut Tape, c: &mut Case) -> CaseResult {
    let bits = 64 * N as u64;
    let xl = g::value(t, c, N);
    let s = g::shift(t, bits);
    let hl = g::value_raw(t, N).0;
    let neg = g::neg_i32(t, s);
    c.limbs("x", &xl);
    c.num("s", s);
    c.limbs("hi", &hl);
    c.inum("neg", neg as i128);
    g::label_shift(c, s, bits);
    c.nontrivial(g::pair_nontrivial(&xl, s));
    if g::crosses(&xl, s) {
        c.label("a set bit crosses a limb boundary");
    }
    let (a, h) = (uint::<N>(&xl), uint::<N>(&hl));
    let s32 = s as u32;
    let over = s >= bits;
    let (wl, wr) = (shl_o(&xl, s), shr_o(&xl, s));
    let zero = vec![0u64; N];

    // inherent
    opt_eq(&Option::<Uint<N>>::from(total("overflowing_shl", || a.overflowing_shl(s32))?), over, &wl, "Uint::overflowing_shl", s)?;
    opt_eq(&Option::<Uint<N>>::from(total("overflowing_shl_vartime", || a.overflowing_shl_vartime(s32))?), over, &wl, "Uint::overflowing_shl_vartime", s)?;
    opt_eq(&Option::<Uint<N>>::from(total("overflowing_shr", || a.overflowing_shr(s32))?), over, &wr, "Uint::overflowing_shr", s)?;
    opt_eq(&Option::<Uint<N>>::from(total("overflowing_shr_vartime", || a.overflowing_shr_vartime(s32))?), over, &wr, "Uint::overflowing_shr_vartime", s)?;
    eqw(&total("wrapping_shl", || a.wrapping_shl(s32))?, &wl, "Uint::wrapping_shl", s)?;
    eqw(&total("wrapping_shl_vartime", || a.wrapping_shl_vartime(s32))?, &wl, "Uint::wrapping_shl_vartime", s)?;
    eqw(&total("wrapping_shr", || a.wrapping_shr(s32))?, &wr, "Uint::wrapping_shr", s)?;
    eqw(&total("wrapping_shr_vartime", || a.wrapping_shr_vartime(s32))?, &wr, "Uint::wrapping_shr_vartime", s)?;
    panics_iff(guard(|| a.shl(s32)), over, &wl, "Uint::shl", s)?;
    panics_iff(guard(|| a.shl_vartime(s32)), over, &wl, "Uint::shl_vartime", s)?;
    panics_iff(guard(|| a.shr(s32)), over, &wr, "Uint::shr", s)?;
    panics_iff(guard(|| a.shr_vartime(s32)), over, &wr, "Uint::shr_vartime", s)?;

    // traits and Wrapping
    let o: Option<Uint<N>> = total("ShlVartime::overflowing_shl_vartime", || ShlVartime::overflowing_shl_vartime(&a, s32))?.into();
    opt_eq(&o, over, &wl, "ShlVartime::overflowing_shl_vartime", s)?;
    let o: Option<Uint<N>> = total("ShrVartime::overflowing_shr_vartime", || ShrVartime::overflowing_shr_vartime(&a, s32))?.into();
    opt_eq(&o, over, &wr, "ShrVartime::overflowing_shr_vartime", s)?;
    let acc_l = wrap_accept(&xl, s, shl_o, zero.clone());
    let acc_r = wrap_accept(&xl, s, shr_o, zero.clone());
    in_set(&total("ShlVartime::wrapping_shl_vartime", || ShlVartime::wrapping_shl_vartime(&a, s32))?, &acc_l, "ShlVartime::wrapping_shl_vartime", s)?;
    in_set(&total("ShrVartime::wrapping_shr_vartime", || ShrVartime::wrapping_shr_vartime(&a, s32))?, &acc_r, "ShrVartime::wrapping_shr_vartime", s)?;
    in_set(&total("WrappingShl", || WrappingShl::wrapping_shl(&a, s32))?, &acc_l, "WrappingShl::wrapping_shl", s)?;
    in_set(&total("WrappingShr", || WrappingShr::wrapping_shr(&a, s32))?, &acc_r, "WrappingShr::wrapping_shr", s)?;
    in_set(&total("Wrapping << u32", || Wrapping(a) << s32)?, &acc_l, "Wrapping<Uint> << u32", s)?;
    in_set(&total("&Wrapping << u32", || &Wrapping(a) << s32)?, &acc_l, "&Wrapping<Uint> << u32", s)?;
    in_set(&total("Wrapping >> u32", || Wrapping(a) >> s32)?, &acc_r, "Wrapping<Uint> >> u32", s)?;
    in_set(&total("&Wrapping >> u32", || &Wrapping(a) >> s32)?, &acc_r, "&Wrapping<Uint> >> u32", s)?;

    // operators
    let (mut l, mut r) = (vec![], vec![]);
    shift_ops!(l, r, a, s32, "u32");
    shift_ops!(l, r, a, s as usize, "usize");
    if s <= i32::MAX as u64 {
        shift_ops!(l, r, a, s as i32, "i32");
    }
    for (name, res) in l {
        panics_iff(res, over, &wl, &format!("Uint: {name}"), s)?;
    }
    for (name, res) in r {
        panics_iff(res, over, &wr, &format!("Uint: {name}"), s)?;
    }
    // amounts that are not a valid u32: must panic
    let (mut l, mut r) = (vec![], vec![]);
    shift_ops!(l, r, a, neg, "negative i32");
    shift_ops!(l, r, a, (s as usize) + (1usize << 32), "usize > u32::MAX");
    for (name, res) in l.into_iter().chain(r) {
        panics_iff(res, true, &zero, &format!("Uint: {name}"), s)?;
    }

    // double-width
    let bw = big(&[xl.clone(), hl.clone()].concat());
    if s >= bits && s < 2 * bits {
        c.label("wide shift: BITS <= s < 2*BITS branch");
    }
    wide(true, &a, &h, &bw, s)?;
    wide(false, &a, &h, &bw, s)?;
    Ok(())
}

pub fn bits<const N: usize>(t: &mut Tape, c: &mut Case) -> CaseResult {
    let bits = 64 * N as u64;
    let xl = g::value(t, c, N);
    c.limbs("x", &xl);
    c.nontrivial(!is_zero(&xl));
    let a = uint::<N>(&xl);
    let (len, lz, tz, to) = queries_o(&xl);
    vensure!(len as u64 == big(&xl).bits(), "harness: bit length oracle disagrees with BigUint::bits");
    label_queries(c, len, tz, to, bits);
    total("Uint bit queries", || -> CaseResult {
        veq!(a.bits(), len, "Uint::bits");
        veq!(a.bits_vartime(), len, "Uint::bits_vartime");
        veq!(a.leading_zeros(), lz, "Uint::leading_zeros");
        veq!(a.leading_zeros_vartime(), lz, "Uint::leading_zeros_vartime");
        veq!(a.trailing_zeros(), tz, "Uint::trailing_zeros");
        veq!(a.trailing_zeros_vartime(), tz, "Uint::trailing_zeros_vartime");
        veq!(a.trailing_ones(), to, "Uint::trailing_ones");
        veq!(a.trailing_ones_vartime(), to, "Uint::trailing_ones_vartime");
        veq!(BitOps::bits_precision(&a) as u64, bits, "BitOps::bits_precision");
        veq!(BitOps::bytes_precision(&a), 8 * N, "BitOps::bytes_precision");
        veq!(BitOps::log2_bits(&a), 63 - bits.leading_zeros(), "BitOps::log2_bits");
        veq!(BitOps::bits(&a), len, "BitOps::bits");
        veq!(BitOps::bits_vartime(&a), len, "BitOps::bits_vartime");
        veq!(BitOps::leading_zeros(&a), lz, "BitOps::leading_zeros");
        veq!(BitOps::leading_zeros_vartime(&a), lz, "BitOps::leading_zeros_vartime");
        veq!(BitOps::trailing_zeros(&a), tz, "BitOps::trailing_zeros");
        veq!(BitOps::trailing_zeros_vartime(&a), tz, "BitOps::trailing_zeros_vartime");
        veq!(BitOps::trailing_ones(&a), to, "BitOps::trailing_ones");
        veq!(BitOps::trailing_ones_vartime(&a), to, "BitOps::trailing_ones_vartime");
        for i in bit_indices(bits) {
            let want = bit_o(&xl, i);
            let i32_ = i as u32;
            veq!(bool::from(a.bit(i32_)), want, "Uint::bit({i})");
            veq!(a.bit_vartime(i32_), want, "Uint::bit_vartime({i})");
            veq!(bool::from(BitOps::bit(&a, i32_)), want, "BitOps::bit({i})");
            veq!(BitOps::bit_vartime(&a, i32_), want, "BitOps::bit_vartime({i})");
        }
        for i in 0..bits {
            for v in [false, true] {
                let want = set_bit_o(&xl, i, v);
                let mut y = a;
                BitOps::set_bit(&mut y, i as u32, Choice::from(v as u8));
                eqw(&y, &want, if v { "BitOps::set_bit(_, 1)" } else { "BitOps::set_bit(_, 0)" }, i)?;
                let mut y = a;
                BitOps::set_bit_vartime(&mut y, i as u32, v);
                eqw(&y, &want, if v { "BitOps::set_bit_vartime(_, true)" } else { "BitOps::set_bit_vartime(_, false)" }, i)?;
            }
        }
        Ok(())
    })?
}

/// every index 0..=BITS+1 plus far out-of-range ones
pub(crate) fn bit_indices(bits: u64) -> impl Iterator<Item = u64> {
    (0..=bits + 1).chain([bits + 63, bits + 64, bits + 65, 2 * bits, 2 * bits + 1, (1 << 31) + 1, u32::MAX as u64 - 64, u32::MAX as u64])
}

pub(crate) fn label_queries(c: &mut Case, len: u32, tz: u32, to: u32, bits: u64) {
    if len == 0 {
        c.label("bits: x = 0");
    } else if len as u64 == bits {
        c.label("bits: top bit set");
    } else if len % 64 == 0 {
        c.label("bits: bit length = 64k (0 < k < n)");
    } else if len % 64 == 1 {
        c.label("bits: bit length = 64k+1");
    }
    if to as u64 == bits {
        c.label("bits: x = MAX");
    } else if to > 0 && to % 64 == 0 {
        c.label("bits: trailing ones = 64k exactly");
    } else if to >= 64 {
        c.label("bits: trailing ones > 64, not a multiple");
    }
    if len != 0 && tz > 0 && tz % 64 == 0 {
        c.label("bits: trailing zeros = 64k exactly");
    } else if len != 0 && tz >= 64 {
        c.label("bits: trailing zeros > 64, not a multiple");
    }
}

pub fn bitops<const N: usize>(t: &mut Tape, c: &mut Case) -> CaseResult {
    let al = g::value(t, c, N);
    let bl_ = if t.chance(1, 3) { vmodel::gen::related(t, &al) } else { g::value_raw(t, N).0 };
    let lw = vmodel::gen::word(t);
    c.limbs("a", &al);
    c.limbs("b", &bl_);
    c.num("limb", lw);
    c.nontrivial(!is_zero(&al) && !is_zero(&bl_) && al != bl_);
    let (a, b) = (uint::<N>(&al), uint::<N>(&bl_));
    total("Uint bitwise operators", || -> CaseResult {
        bitop_forms!(Uint<N>, a, b, &zip_limbs(&al, &bl_, |x, y| x & y), &, &=, bitand, wrapping_and, checked_and, "and");
        bitop_forms!(Uint<N>, a, b, &zip_limbs(&al, &bl_, |x, y| x | y), |, |=, bitor, wrapping_or, checked_or, "or");
        bitop_forms!(Uint<N>, a, b, &zip_limbs(&al, &bl_, |x, y| x ^ y), ^, ^=, bitxor, wrapping_xor, checked_xor, "xor");
        let want: Limbs = al.iter().map(|x| x & lw).collect();
        eqw(&a.bitand_limb(Limb(lw)), &want, "Uint::bitand_limb", 0)?;
        let want: Limbs = al.iter().map(|x| !x).collect();
        eqw(&a.not(), &want, "Uint::not", 0)?;
        eqw(&!a, &want, "!Uint", 0)?;
        eqw(&!Wrapping(a), &want, "!Wrapping<Uint>", 0)?;
        Ok(())
    })?
}
