fn main() {
    vmodel::cli_main(c05::spec())
}
