//! `BoxedUint` with runtime precision 1..=max limbs.

use crate::*;
use crypto_bigint::{BitOps, ShlVartime, ShrVartime, WrappingShl, WrappingShr};
use subtle::Choice;

fn nlimbs(t: &mut Tape, c: &mut Case, max: usize) -> usize {
    let n = match t.weighted(&[2, 3]) {
        0 => t.pick(&[1usize, 2, 3, 4, 5, 7, 8, 9, 15, 16, 17, 20]).min(max),
        _ => t.usize_in(1, max),
    };
    c.label(match n {
        1 => "boxed: 1 limb",
        2..=4 => "boxed: 2..=4 limbs",
        5..=8 => "boxed: 5..=8 limbs",
        9..=16 => "boxed: 9..=16 limbs",
        _ => "boxed: 17..=20 limbs",
    });
    if !n.is_power_of_two() {
        c.label("boxed: limb count not a power of two");
    }
    n
}

/// `(value, overflow Choice)` form: overflow <=> s >= BITS, value exact, and zero on overflow
/// ("Returns a zero and a truthy `Choice` if `shift >= self.bits_precision()`").
fn ovf_pair(r: &(BoxedUint, Choice), over: bool, want: &[u64], name: &str, s: u64) -> CaseResult {
    let rep = bool::from(r.1);
    vensure!(rep == over, "{name} (shift {s}): overflow reported = {rep}, want {over}");
    eqw(&r.0, want, name, s) // want is zero when over
}

pub fn sweep(max: usize) -> impl Fn(&mut Tape, &mut Case) -> CaseResult {
    move |t, c| {
        let n = nlimbs(t, c, max);
        let bits = 64 * n as u64;
        let xl = g::value(t, c, n);
        c.limbs("x", &xl);
        c.nontrivial(!is_zero(&xl));
        let a = boxed(&xl);
        let bx = big(&xl);
        for s in g::sweep_shifts(bits) {
            let s32 = s as u32;
            let over = s >= bits;
            let wl = shl_b(&bx, n, s);
            let wr = shr_b(&bx, n, s);
            let (o1, o2, o3) = tot("BoxedUint shl forms", s, || {
                let mut y = a.clone();
                let ch = y.overflowing_shl_assign(s32);
                (a.overflowing_shl(s32), (y, ch), a.shl_vartime(s32))
            })?;
            ovf_pair(&o1, over, &wl, "BoxedUint::overflowing_shl", s)?;
            ovf_pair(&o2, over, &wl, "BoxedUint::overflowing_shl_assign", s)?;
            opt_eq(&o3, over, &wl, "BoxedUint::shl_vartime", s)?;
            let (o1, o2, o3) = tot("BoxedUint shr forms", s, || {
                let mut y = a.clone();
                let ch = y.overflowing_shr_assign(s32);
                (a.overflowing_shr(s32), (y, ch), a.shr_vartime(s32))
            })?;
            ovf_pair(&o1, over, &wr, "BoxedUint::overflowing_shr", s)?;
            ovf_pair(&o2, over, &wr, "BoxedUint::overflowing_shr_assign", s)?;
            opt_eq(&o3, over, &wr, "BoxedUint::shr_vartime", s)?;
            if !over {
                // every document agrees for s < BITS
                let (w1, w2, w3, w4, p1, p2) = tot("BoxedUint wrapping / panicking forms", s, || {
                    (a.wrapping_shl(s32), a.wrapping_shl_vartime(s32), a.wrapping_shr(s32), a.wrapping_shr_vartime(s32), a.shl(s32), a.shr(s32))
                })?;
                eqw(&w1, &wl, "BoxedUint::wrapping_shl", s)?;
                eqw(&w2, &wl, "BoxedUint::wrapping_shl_vartime", s)?;
                eqw(&w3, &wr, "BoxedUint::wrapping_shr", s)?;
                eqw(&w4, &wr, "BoxedUint::wrapping_shr_vartime", s)?;
                eqw(&p1, &wl, "BoxedUint::shl", s)?;
                eqw(&p2, &wr, "BoxedUint::shr", s)?;
            } else if s == bits || s == bits + 1 || s == 2 * bits + 1 || s == u32::MAX as u64 || (s > 2 * bits + 1 && (s & 63) <= 1 && (s >> 31 == 1 || s >> 16 == 1)) {
                panics_iff(guard(|| a.shl(s32)), true, &wl, "BoxedUint::shl", s)?;
                panics_iff(guard(|| a.shr(s32)), true, &wr, "BoxedUint::shr", s)?;
                let acc_l = wrap_accept(&xl, s, shl_o, wl.clone());
                let acc_r = wrap_accept(&xl, s, shr_o, wr.clone());
                in_set(&tot("wrapping_shl", s, || a.wrapping_shl(s32))?, &acc_l, "BoxedUint::wrapping_shl", s)?;
                in_set(&tot("wrapping_shl_vartime", s, || a.wrapping_shl_vartime(s32))?, &acc_l, "BoxedUint::wrapping_shl_vartime", s)?;
                in_set(&tot("wrapping_shr", s, || a.wrapping_shr(s32))?, &acc_r, "BoxedUint::wrapping_shr", s)?;
                in_set(&tot("wrapping_shr_vartime", s, || a.wrapping_shr_vartime(s32))?, &acc_r, "BoxedUint::wrapping_shr_vartime", s)?;
            }
        }
        Ok(())
    }
}

pub fn forms(max: usize) -> impl Fn(&mut Tape, &mut Case) -> CaseResult {
    move |t, c| {
        let n = nlimbs(t, c, max);
        let bits = 64 * n as u64;
        let xl = g::value(t, c, n);
        let s = g::shift(t, bits);
        let neg = g::neg_i32(t, s);
        c.limbs("x", &xl);
        c.num("s", s);
        c.inum("neg", neg as i128);
        g::label_shift(c, s, bits);
        c.nontrivial(g::pair_nontrivial(&xl, s));
        if g::crosses(&xl, s) {
            c.label("a set bit crosses a limb boundary");
        }
        let a = boxed(&xl);
        let s32 = s as u32;
        let over = s >= bits;
        let (wl, wr) = (shl_o(&xl, s), shr_o(&xl, s));
        let zero = vec![0u64; n];
        let acc_l = wrap_accept(&xl, s, shl_o, zero.clone());
        let acc_r = wrap_accept(&xl, s, shr_o, zero.clone());

        // inherent
        ovf_pair(&total("overflowing_shl", || a.overflowing_shl(s32))?, over, &wl, "BoxedUint::overflowing_shl", s)?;
        ovf_pair(&total("overflowing_shr", || a.overflowing_shr(s32))?, over, &wr, "BoxedUint::overflowing_shr", s)?;
        let r = total("overflowing_shl_assign", || {
            let mut y = a.clone();
            let ch = y.overflowing_shl_assign(s32);
            (y, ch)
        })?;
        ovf_pair(&r, over, &wl, "BoxedUint::overflowing_shl_assign", s)?;
        let r = total("overflowing_shr_assign", || {
            let mut y = a.clone();
            let ch = y.overflowing_shr_assign(s32);
            (y, ch)
        })?;
        ovf_pair(&r, over, &wr, "BoxedUint::overflowing_shr_assign", s)?;
        opt_eq(&total("shl_vartime", || a.shl_vartime(s32))?, over, &wl, "BoxedUint::shl_vartime", s)?;
        opt_eq(&total("shr_vartime", || a.shr_vartime(s32))?, over, &wr, "BoxedUint::shr_vartime", s)?;
        // the inherent wrapping forms are documented as "masking" (module doc): accept set for s >= BITS
        in_set(&total("wrapping_shl", || a.wrapping_shl(s32))?, &acc_l, "BoxedUint::wrapping_shl", s)?;
        in_set(&total("wrapping_shl_vartime", || a.wrapping_shl_vartime(s32))?, &acc_l, "BoxedUint::wrapping_shl_vartime", s)?;
        in_set(&total("wrapping_shr", || a.wrapping_shr(s32))?, &acc_r, "BoxedUint::wrapping_shr", s)?;
        in_set(&total("wrapping_shr_vartime", || a.wrapping_shr_vartime(s32))?, &acc_r, "BoxedUint::wrapping_shr_vartime", s)?;
        panics_iff(guard(|| a.shl(s32)), over, &wl, "BoxedUint::shl", s)?;
        panics_iff(guard(|| a.shr(s32)), over, &wr, "BoxedUint::shr", s)?;
        panics_iff(
            guard(|| {
                let mut y = a.clone();
                y.shl_assign(s32);
                y
            }),
            over,
            &wl,
            "BoxedUint::shl_assign",
            s,
        )?;
        panics_iff(
            guard(|| {
                let mut y = a.clone();
                y.shr_assign(s32);
                y
            }),
            over,
            &wr,
            "BoxedUint::shr_assign",
            s,
        )?;

        // traits and Wrapping
        let o: Option<BoxedUint> = total("ShlVartime::overflowing_shl_vartime", || ShlVartime::overflowing_shl_vartime(&a, s32))?.into();
        opt_eq(&o, over, &wl, "ShlVartime::overflowing_shl_vartime (boxed)", s)?;
        let o: Option<BoxedUint> = total("ShrVartime::overflowing_shr_vartime", || ShrVartime::overflowing_shr_vartime(&a, s32))?.into();
        opt_eq(&o, over, &wr, "ShrVartime::overflowing_shr_vartime (boxed)", s)?;
        in_set(&total("ShlVartime::wrapping_shl_vartime", || ShlVartime::wrapping_shl_vartime(&a, s32))?, &acc_l, "ShlVartime::wrapping_shl_vartime (boxed)", s)?;
        in_set(&total("ShrVartime::wrapping_shr_vartime", || ShrVartime::wrapping_shr_vartime(&a, s32))?, &acc_r, "ShrVartime::wrapping_shr_vartime (boxed)", s)?;
        in_set(&total("WrappingShl", || WrappingShl::wrapping_shl(&a, s32))?, &acc_l, "WrappingShl::wrapping_shl (boxed)", s)?;
        in_set(&total("WrappingShr", || WrappingShr::wrapping_shr(&a, s32))?, &acc_r, "WrappingShr::wrapping_shr (boxed)", s)?;
        in_set(&total("Wrapping << u32", || Wrapping(a.clone()) << s32)?, &acc_l, "Wrapping<BoxedUint> << u32", s)?;
        in_set(&total("&Wrapping << u32", || &Wrapping(a.clone()) << s32)?, &acc_l, "&Wrapping<BoxedUint> << u32", s)?;
        in_set(&total("Wrapping >> u32", || Wrapping(a.clone()) >> s32)?, &acc_r, "Wrapping<BoxedUint> >> u32", s)?;
        in_set(&total("&Wrapping >> u32", || &Wrapping(a.clone()) >> s32)?, &acc_r, "&Wrapping<BoxedUint> >> u32", s)?;

        // operators
        let (mut l, mut r) = (vec![], vec![]);
        shift_ops!(l, r, a, s32, "u32");
        shift_ops!(l, r, a, s as usize, "usize");
        if s <= i32::MAX as u64 {
            shift_ops!(l, r, a, s as i32, "i32");
        }
        for (name, res) in l {
            panics_iff(res, over, &wl, &format!("BoxedUint: {name}"), s)?;
        }
        for (name, res) in r {
            panics_iff(res, over, &wr, &format!("BoxedUint: {name}"), s)?;
        }
        let (mut l, mut r) = (vec![], vec![]);
        shift_ops!(l, r, a, neg, "negative i32");
        shift_ops!(l, r, a, (s as usize) + (1usize << 32), "usize > u32::MAX");
        for (name, res) in l.into_iter().chain(r) {
            panics_iff(res, true, &zero, &format!("BoxedUint: {name}"), s)?;
        }
        Ok(())
    }
}

pub fn bits(max: usize) -> impl Fn(&mut Tape, &mut Case) -> CaseResult {
    move |t, c| {
        let n = nlimbs(t, c, max);
        let bits = 64 * n as u64;
        let xl = g::value(t, c, n);
        c.limbs("x", &xl);
        c.nontrivial(!is_zero(&xl));
        let a = boxed(&xl);
        let (len, lz, tz, to) = queries_o(&xl);
        vensure!(len as u64 == big(&xl).bits(), "harness: bit length oracle disagrees with BigUint::bits");
        crate::fixed::label_queries(c, len, tz, to, bits);
        total("BoxedUint bit queries", || -> CaseResult {
            veq!(a.bits_precision() as u64, bits, "BoxedUint::bits_precision");
            veq!(a.bits(), len, "BoxedUint::bits");
            veq!(a.bits_vartime(), len, "BoxedUint::bits_vartime");
            veq!(a.leading_zeros(), lz, "BoxedUint::leading_zeros");
            veq!(a.trailing_zeros(), tz, "BoxedUint::trailing_zeros");
            veq!(a.trailing_zeros_vartime(), tz, "BoxedUint::trailing_zeros_vartime");
            veq!(a.trailing_ones(), to, "BoxedUint::trailing_ones");
            veq!(a.trailing_ones_vartime(), to, "BoxedUint::trailing_ones_vartime");
            veq!(BitOps::bits_precision(&a) as u64, bits, "BitOps::bits_precision (boxed)");
            veq!(BitOps::bytes_precision(&a), 8 * n, "BitOps::bytes_precision (boxed)");
            veq!(BitOps::log2_bits(&a), 63 - bits.leading_zeros(), "BitOps::log2_bits (boxed)");
            veq!(BitOps::bits(&a), len, "BitOps::bits (boxed)");
            veq!(BitOps::bits_vartime(&a), len, "BitOps::bits_vartime (boxed)");
            veq!(BitOps::leading_zeros(&a), lz, "BitOps::leading_zeros (boxed)");
            veq!(BitOps::leading_zeros_vartime(&a), lz, "BitOps::leading_zeros_vartime (boxed)");
            veq!(BitOps::trailing_zeros(&a), tz, "BitOps::trailing_zeros (boxed)");
            veq!(BitOps::trailing_zeros_vartime(&a), tz, "BitOps::trailing_zeros_vartime (boxed)");
            veq!(BitOps::trailing_ones(&a), to, "BitOps::trailing_ones (boxed)");
            veq!(BitOps::trailing_ones_vartime(&a), to, "BitOps::trailing_ones_vartime (boxed)");
            for i in crate::fixed::bit_indices(bits) {
                let want = bit_o(&xl, i);
                let iu = i as u32;
                veq!(bool::from(a.bit(iu)), want, "BoxedUint::bit({i})");
                veq!(a.bit_vartime(iu), want, "BoxedUint::bit_vartime({i})");
                veq!(bool::from(BitOps::bit(&a, iu)), want, "BitOps::bit({i}) (boxed)");
                veq!(BitOps::bit_vartime(&a, iu), want, "BitOps::bit_vartime({i}) (boxed)");
            }
            for i in 0..bits {
                for v in [false, true] {
                    let want = set_bit_o(&xl, i, v);
                    let mut y = a.clone();
                    BitOps::set_bit(&mut y, i as u32, Choice::from(v as u8));
                    eqw(&y, &want, if v { "BitOps::set_bit(_, 1) (boxed)" } else { "BitOps::set_bit(_, 0) (boxed)" }, i)?;
                    let mut y = a.clone();
                    BitOps::set_bit_vartime(&mut y, i as u32, v);
                    eqw(&y, &want, if v { "BitOps::set_bit_vartime(_, true) (boxed)" } else { "BitOps::set_bit_vartime(_, false) (boxed)" }, i)?;
                }
            }
            Ok(())
        })?
    }
}

pub fn bitops(max: usize) -> impl Fn(&mut Tape, &mut Case) -> CaseResult {
    move |t, c| {
        let n = nlimbs(t, c, max);
        let al = g::value(t, c, n);
        // equal precisions only (mixed-precision bitwise operators are not specified by this property)
        let bl_ = if t.chance(1, 3) { vmodel::gen::related(t, &al) } else { g::value_raw(t, n).0 };
        let lw = vmodel::gen::word(t);
        c.limbs("a", &al);
        c.limbs("b", &bl_);
        c.num("limb", lw);
        c.nontrivial(!is_zero(&al) && !is_zero(&bl_) && al != bl_);
        let (a, b) = (boxed(&al), boxed(&bl_));
        total("BoxedUint bitwise operators", || -> CaseResult {
            bitop_forms!(BoxedUint, a, b, &zip_limbs(&al, &bl_, |x, y| x & y), &, &=, bitand, wrapping_and, checked_and, "and");
            bitop_forms!(BoxedUint, a, b, &zip_limbs(&al, &bl_, |x, y| x | y), |, |=, bitor, wrapping_or, checked_or, "or");
            bitop_forms!(BoxedUint, a, b, &zip_limbs(&al, &bl_, |x, y| x ^ y), ^, ^=, bitxor, wrapping_xor, checked_xor, "xor");
            let want: Limbs = al.iter().map(|x| x & lw).collect();
            eqw(&a.bitand_limb(Limb(lw)), &want, "BoxedUint::bitand_limb", 0)?;
            let want: Limbs = al.iter().map(|x| !x).collect();
            eqw(&a.not(), &want, "BoxedUint::not", 0)?;
            eqw(&!a.clone(), &want, "!BoxedUint", 0)?;
            eqw(&!Wrapping(a.clone()), &want, "!Wrapping<BoxedUint>", 0)?;
            Ok(())
        })?
    }
}
