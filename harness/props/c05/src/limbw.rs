//! `Limb`: shifts for shift < 64 only (DESIGN scope note: the documents conflict for >= 64, F-11c),
//! bit queries and bitwise operators.

use crate::*;
use crypto_bigint::{WrappingShl, WrappingShr};

/// every shift 0..64 on one word, all forms
pub fn sweep(t: &mut Tape, c: &mut Case) -> CaseResult {
    let x = vmodel::gen::word(t);
    let k = t.below(64);
    let neg = g::neg_i32(t, k);
    c.num("x", x);
    c.inum("neg", neg as i128);
    c.nontrivial(x != 0);
    let a = Limb(x);
    for s in 0..64u64 {
        let s32 = s as u32;
        // binary expansion: floor(x * 2^s) mod 2^64, floor(x / 2^s)
        let wl = [((x as u128) << s) as u64];
        let wr = [((x as u128) >> s) as u64];
        vensure!(wl.as_slice() == shl_o(&[x], s).as_slice() && wr.as_slice() == shr_o(&[x], s).as_slice(), "harness: u128 and BigUint oracles disagree");
        let (p1, p2, p3, p4) = tot("Limb shl/shr/wrapping", s, || (a.shl(s32), a.shr(s32), WrappingShl::wrapping_shl(&a, s32), WrappingShr::wrapping_shr(&a, s32)))?;
        eqw(&p1, &wl, "Limb::shl", s)?;
        eqw(&p2, &wr, "Limb::shr", s)?;
        eqw(&p3, &wl, "WrappingShl for Limb", s)?;
        eqw(&p4, &wr, "WrappingShr for Limb", s)?;
        eqw(&tot("Wrapping<Limb> <<", s, || Wrapping(a) << s32)?, &wl, "Wrapping<Limb> << u32", s)?;
        eqw(&tot("&Wrapping<Limb> <<", s, || &Wrapping(a) << s32)?, &wl, "&Wrapping<Limb> << u32", s)?;
        eqw(&tot("Wrapping<Limb> >>", s, || Wrapping(a) >> s32)?, &wr, "Wrapping<Limb> >> u32", s)?;
        eqw(&tot("&Wrapping<Limb> >>", s, || &Wrapping(a) >> s32)?, &wr, "&Wrapping<Limb> >> u32", s)?;
        let (mut l, mut r) = (vec![], vec![]);
        shift_ops!(l, r, a, s32, "u32");
        shift_ops!(l, r, a, s as usize, "usize");
        shift_ops!(l, r, a, s as i32, "i32");
        for (name, res) in l {
            panics_iff(res, false, &wl, &format!("Limb: {name}"), s)?;
        }
        for (name, res) in r {
            panics_iff(res, false, &wr, &format!("Limb: {name}"), s)?;
        }
    }
    // amounts that are not a valid u32 fail the conversion in both profiles ("invalid shift")
    let (mut l, mut r) = (vec![], vec![]);
    shift_ops!(l, r, a, neg, "negative i32");
    shift_ops!(l, r, a, (x as usize & 63) + (1usize << 32), "usize > u32::MAX");
    for (name, res) in l.into_iter().chain(r) {
        panics_iff(res, true, &[0], &format!("Limb: {name}"), 0)?;
    }
    Ok(())
}

pub fn bits_ops(t: &mut Tape, c: &mut Case) -> CaseResult {
    let x = vmodel::gen::word(t);
    let y = if t.chance(1, 4) { t.pick(&[x, !x, x.wrapping_add(1), x.wrapping_sub(1), x >> 1, x << 1]) } else { vmodel::gen::word(t) };
    c.num("x", x);
    c.num("y", y);
    c.nontrivial(x != 0 && y != 0 && x != y);
    let (a, b) = (Limb(x), Limb(y));
    let (len, lz, tz, to) = queries_o(&[x]);
    total("Limb bit queries / operators", || -> CaseResult {
        veq!(a.bits(), len, "Limb::bits");
        veq!(a.leading_zeros(), lz, "Limb::leading_zeros");
        veq!(a.trailing_zeros(), tz, "Limb::trailing_zeros");
        veq!(a.trailing_ones(), to, "Limb::trailing_ones");
        let (and, or, xor, not) = ([x & y], [x | y], [x ^ y], [!x]);
        eqw(&a.bitand(b), &and, "Limb::bitand", 0)?;
        eqw(&(a & b), &and, "Limb & Limb", 0)?;
        let mut z = a;
        z &= b;
        eqw(&z, &and, "Limb &= Limb", 0)?;
        let mut z = a;
        z &= &b;
        eqw(&z, &and, "Limb &= &Limb", 0)?;
        eqw(&a.bitor(b), &or, "Limb::bitor", 0)?;
        eqw(&(a | b), &or, "Limb | Limb", 0)?;
        let mut z = a;
        z |= b;
        eqw(&z, &or, "Limb |= Limb", 0)?;
        let mut z = a;
        z |= &b;
        eqw(&z, &or, "Limb |= &Limb", 0)?;
        eqw(&a.bitxor(b), &xor, "Limb::bitxor", 0)?;
        eqw(&(a ^ b), &xor, "Limb ^ Limb", 0)?;
        let mut z = a;
        z ^= b;
        eqw(&z, &xor, "Limb ^= Limb", 0)?;
        eqw(&a.not(), &not, "Limb::not", 0)?;
        eqw(&!a, &not, "!Limb", 0)?;
        Ok(())
    })?
}
