//! API-surface audit additions (table: /verif/audit/C.md).
//!
//! Every sub-check here calls an `impl` block / instantiation that the other C05 modules reach only
//! through an equivalent sibling:
//!
//! * `surface/boxed-mixed-precision-forms`: the bitwise operator impls of `BoxedUint` and
//!   `Wrapping<BoxedUint>` on operands of DIFFERENT precision that `mixed.rs` leaves out:
//!   `a | &b`, `a ^ &b`, `&a & b`, `&a ^ b`, `checked_or`, `checked_xor`, the by-reference forms of
//!   `Wrapping<BoxedUint>` (`w op &w`, `&w op w`, `&w op &w`) and its six assigning forms. At equal
//!   precision all of them are exercised by `bitop_forms!`; a defect that only shows when one operand
//!   is narrower was invisible there.
//!   Expected result: the property statement ("the bitwise operators agree with the binary expansion
//!   of the value"): the value of the result is the bitwise operation on the zero-extended operands.
//!   The precision of the result is not documented, so it is only recorded as a label; for the
//!   assigning forms the value truncated to the receiver's precision is accepted as well (same
//!   reading as `mixed.rs`: `|=` / `^=` keep the receiver's limbs on the unchanged tree, `&=` widens).
//!   `checked_or` / `checked_xor`: "returning a [`CtOption`] which `is_some` always" (doc comment).
//! * `surface/widths/...`: the existing `Uint` / `Int` case functions at limb counts outside the
//!   quick-tier list (7, 9 and 12 limbs for `Uint`, 5 and 7 for `Int`): the code is generic over
//!   `LIMBS`, so a width-specific defect is reachable by a user at any limb count.

use crate::mixed::{ops_value, same_value};
use crate::*;
use vmodel::gen;

/// (la, lb) with la != lb, both in 1..=max; adjacent precisions over-weighted (a one-limb difference
/// is where an off-by-one in a zero-extension loop shows).
fn two_precisions(t: &mut Tape, max: usize) -> (usize, usize) {
    let la = t.usize_in(1, max);
    let lb = match t.weighted(&[2, 2, 3]) {
        0 if la < max => la + 1,
        1 if la > 1 => la - 1,
        _ => {
            let l = t.usize_in(1, max);
            if l == la {
                if la < max {
                    la + 1
                } else {
                    la - 1
                }
            } else {
                l
            }
        }
    };
    (la, lb.max(1))
}

pub fn boxed_mixed_forms(max: usize) -> impl Fn(&mut Tape, &mut Case) -> CaseResult {
    move |t, c| {
        let (la, lb) = two_precisions(t, max);
        if la == lb {
            // only possible for max == 1
            c.skip();
            return Ok(());
        }
        let al = g::value(t, c, la);
        let mut bl_ = match t.weighted(&[2, 1]) {
            0 => g::value_raw(t, lb).0,
            _ => gen::limbs(t, lb),
        };
        // one case in three: force the wider operand non-zero above the narrower operand's precision
        // (otherwise a result truncated to the narrower precision has the right value)
        let mut al = al;
        if t.chance(1, 3) {
            let w = gen::word(t) | 1;
            if la < lb {
                let i = la + t.index(lb - la);
                bl_[i] |= w;
            } else {
                let i = lb + t.index(la - lb);
                al[i] |= w;
            }
        }
        c.limbs("a", &al);
        c.limbs("b", &bl_);
        let narrow_lhs = la < lb;
        c.label(if narrow_lhs { "surface: narrow op wide" } else { "surface: wide op narrow" });
        if la.abs_diff(lb) == 1 {
            c.label("surface: precisions differ by one limb");
        }
        let hi_nonzero = if narrow_lhs { bl_[la..].iter().any(|&w| w != 0) } else { al[lb..].iter().any(|&w| w != 0) };
        if hi_nonzero {
            c.label("surface: wider operand non-zero above the narrower precision");
        }
        // crate rule for bitops (a != 0, b != 0, a != b) + the part only the wider operand has is non-zero
        c.nontrivial(hi_nonzero && !is_zero(&al) && !is_zero(&bl_));
        let (a, b) = (boxed(&al), boxed(&bl_));
        let (wand, wor, wxor) = ops_value(&al, &bl_);

        macro_rules! chk {
            ($name:expr, $e:expr, $want:expr) => {{
                let r: BoxedUint = total($name, || $e)?;
                vensure!(same_value(&r, &$want), "{} ({} limbs op {} limbs): got {}, want value {}", $name, la, lb, hex(r.as_words()), hex(&$want));
                r.nlimbs()
            }};
        }
        // ---- BoxedUint operator forms missing from mixed.rs
        chk!("BoxedUint | &BoxedUint", a.clone() | &b, wor);
        chk!("BoxedUint ^ &BoxedUint", a.clone() ^ &b, wxor);
        chk!("&BoxedUint & BoxedUint", &a & b.clone(), wand);
        chk!("&BoxedUint ^ BoxedUint", &a ^ b.clone(), wxor);
        // ---- checked_or / checked_xor: "returning a [`CtOption`] which `is_some` always"
        let ck = total("BoxedUint::checked_or", || a.checked_or(&b))?;
        vensure!(bool::from(ck.is_some()), "BoxedUint::checked_or ({la} limbs, {lb} limbs) returned none (documented: is_some always)");
        chk!("BoxedUint::checked_or", Option::<BoxedUint>::from(ck.clone()).expect("is_some checked"), wor);
        let ck = total("BoxedUint::checked_xor", || a.checked_xor(&b))?;
        vensure!(bool::from(ck.is_some()), "BoxedUint::checked_xor ({la} limbs, {lb} limbs) returned none (documented: is_some always)");
        chk!("BoxedUint::checked_xor", Option::<BoxedUint>::from(ck.clone()).expect("is_some checked"), wxor);
        let ck = total("BoxedUint::checked_and", || a.checked_and(&b))?;
        vensure!(bool::from(ck.is_some()), "BoxedUint::checked_and ({la} limbs, {lb} limbs) returned none (documented: is_some always)");

        // ---- Wrapping<BoxedUint>: by-reference operator forms
        let (wa, wb) = (Wrapping(a.clone()), Wrapping(b.clone()));
        let n = chk!("Wrapping<BoxedUint> & &Wrapping", (wa.clone() & &wb).0, wand);
        c.label(if n == la.max(lb) { "surface: result has the wider precision" } else { "surface: result precision differs from the wider operand" });
        chk!("&Wrapping<BoxedUint> & Wrapping", (&wa & wb.clone()).0, wand);
        chk!("&Wrapping<BoxedUint> & &Wrapping", (&wa & &wb).0, wand);
        chk!("Wrapping<BoxedUint> | &Wrapping", (wa.clone() | &wb).0, wor);
        chk!("&Wrapping<BoxedUint> | Wrapping", (&wa | wb.clone()).0, wor);
        chk!("&Wrapping<BoxedUint> | &Wrapping", (&wa | &wb).0, wor);
        chk!("Wrapping<BoxedUint> ^ &Wrapping", (wa.clone() ^ &wb).0, wxor);
        chk!("&Wrapping<BoxedUint> ^ Wrapping", (&wa ^ wb.clone()).0, wxor);
        chk!("&Wrapping<BoxedUint> ^ &Wrapping", (&wa ^ &wb).0, wxor);

        // ---- Wrapping<BoxedUint>: assigning forms. Which operand's precision an assigning form keeps
        // is undocumented: the exact value, or the exact value truncated to the receiver's precision.
        let mut kept_receiver = false;
        macro_rules! chk_assign {
            ($name:expr, $e:expr, $want:expr) => {{
                let r: BoxedUint = total($name, || $e)?;
                let mut trunc: Vec<u64> = $want.clone();
                trunc.truncate(la);
                let exact = same_value(&r, &$want);
                let cut = r.nlimbs() == la && same_value(&r, &trunc);
                vensure!(exact || cut, "{} ({} limbs op {} limbs): got {}, want value {} (or its truncation to the receiver)", $name, la, lb, hex(r.as_words()), hex(&$want));
                if !exact {
                    kept_receiver = true;
                }
            }};
        }
        chk_assign!("Wrapping<BoxedUint> &= Wrapping", { let mut x = wa.clone(); x &= wb.clone(); x.0 }, wand);
        chk_assign!("Wrapping<BoxedUint> &= &Wrapping", { let mut x = wa.clone(); x &= &wb; x.0 }, wand);
        chk_assign!("Wrapping<BoxedUint> |= Wrapping", { let mut x = wa.clone(); x |= wb.clone(); x.0 }, wor);
        chk_assign!("Wrapping<BoxedUint> |= &Wrapping", { let mut x = wa.clone(); x |= &wb; x.0 }, wor);
        chk_assign!("Wrapping<BoxedUint> ^= Wrapping", { let mut x = wa.clone(); x ^= wb.clone(); x.0 }, wxor);
        chk_assign!("Wrapping<BoxedUint> ^= &Wrapping", { let mut x = wa.clone(); x ^= &wb; x.0 }, wxor);
        if kept_receiver {
            c.label("surface: an assigning form kept the receiver's precision (value truncated)");
        }
        // the operands are untouched by the by-reference forms
        vensure!(a.as_words() == al.as_slice() && b.as_words() == bl_.as_slice() && wa.0.as_words() == al.as_slice() && wb.0.as_words() == bl_.as_slice(), "an operand was modified by a by-reference operator form");
        Ok(())
    }
}

macro_rules! wide_fixed {
    ($v:ident, $sweep:expr, $forms:expr, $bits:expr, $ops:expr; $($n:literal),*) => { $(
        $v.push(SubCheck::new(format!("surface/widths/fixed/shift-sweep/U{}", 64*$n), $sweep, crate::fixed::sweep::<$n>).tape(40 + 6 * $n).thorough(10));
        $v.push(SubCheck::new(format!("surface/widths/fixed/shift-forms/U{}", 64*$n), $forms, crate::fixed::forms::<$n>).tape(40 + 6 * $n).thorough(20));
        $v.push(SubCheck::new(format!("surface/widths/fixed/bits/U{}", 64*$n), $bits, crate::fixed::bits::<$n>).tape(24 + 3 * $n).thorough(10));
        $v.push(SubCheck::new(format!("surface/widths/fixed/bitops/U{}", 64*$n), $ops, crate::fixed::bitops::<$n>).tape(40 + 6 * $n).thorough(10));
    )* };
}
macro_rules! wide_int {
    ($v:ident, $sweep:expr, $forms:expr, $ops:expr; $($n:literal),*) => { $(
        $v.push(SubCheck::new(format!("surface/widths/int/shift-sweep/I{}", 64*$n), $sweep, crate::signed::sweep::<$n>).tape(24 + 3 * $n).thorough(10));
        $v.push(SubCheck::new(format!("surface/widths/int/shift-forms/I{}", 64*$n), $forms, crate::signed::forms::<$n>).tape(32 + 3 * $n).thorough(20));
        $v.push(SubCheck::new(format!("surface/widths/int/bitops/I{}", 64*$n), $ops, crate::signed::bitops::<$n>).tape(40 + 6 * $n).thorough(10));
    )* };
}

pub fn subchecks(_ctx: &Ctx) -> Vec<SubCheck> {
    let mut v = vec![];
    v.push(SubCheck::new("surface/boxed-mixed-precision-forms/1..=20", 40000, boxed_mixed_forms(20)).tape(160).thorough(10));
    // limb counts outside the quick list 1,2,3,4,5,6,8,16 (Uint) / 1,2,3,4 (Int)
    wide_fixed!(v, 150, 6000, 250, 3000; 7, 9, 12);
    wide_int!(v, 250, 8000, 3000; 5, 7);
    v
}
