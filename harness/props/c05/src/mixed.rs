//! Boxed bitwise operators on operands of DIFFERENT precision (added after seeded change C05-D, which
//! broke `narrow & wide` only). The documentation does not state the precision of the result, so
//! only the *value* is asserted: it must equal the bitwise operation on the zero-extended operands
//! (and the result must have at least as many limbs as the value needs).
use crypto_bigint::{BoxedUint, Wrapping};
use vmodel::gen;
use vmodel::*;

pub(crate) fn ops_value(a: &[u64], b: &[u64]) -> (Vec<u64>, Vec<u64>, Vec<u64>) {
    let n = a.len().max(b.len());
    let g = |v: &[u64], i: usize| v.get(i).copied().unwrap_or(0);
    ((0..n).map(|i| g(a, i) & g(b, i)).collect(), (0..n).map(|i| g(a, i) | g(b, i)).collect(), (0..n).map(|i| g(a, i) ^ g(b, i)).collect())
}

pub(crate) fn same_value(got: &BoxedUint, want: &[u64]) -> bool {
    big(got.as_words()) == big(want)
}

pub fn bitops_mixed(max: usize) -> impl Fn(&mut Tape, &mut Case) -> CaseResult {
    move |t, c| {
        let la = t.usize_in(1, max);
        let mut lb = t.usize_in(1, max);
        if lb == la {
            lb = if la < max { la + 1 } else { la - 1 }.max(1);
        }
        let al = gen::limbs(t, la);
        let bl_ = match t.weighted(&[2, 4]) {
            0 => {
                // the wider operand non-zero above the narrower operand's precision
                let mut v = gen::limbs(t, lb);
                let i = t.index(lb);
                v[i] |= gen::word(t) | 1;
                v
            }
            _ => gen::limbs(t, lb),
        };
        c.limbs("a", &al);
        c.limbs("b", &bl_);
        let narrow_lhs = la < lb;
        c.label(if narrow_lhs { "narrow op wide" } else { "wide op narrow" });
        let hi_nonzero = if narrow_lhs { bl_[la..].iter().any(|&w| w != 0) } else { al[lb..].iter().any(|&w| w != 0) };
        c.nontrivial(hi_nonzero);
        let (a, b) = (boxed(&al), boxed(&bl_));
        let (wand, wor, wxor) = ops_value(&al, &bl_);
        macro_rules! chk {
            ($name:expr, $e:expr, $want:expr) => {{
                let r = total($name, || $e)?;
                vensure!(same_value(&r, &$want), "{} ({} limbs op {} limbs): got {}, want value {}", $name, la, lb, hex(r.as_words()), hex(&$want));
            }};
        }
        chk!("BoxedUint::bitand", a.bitand(&b), wand);
        chk!("BoxedUint::bitor", a.bitor(&b), wor);
        chk!("BoxedUint::bitxor", a.bitxor(&b), wxor);
        chk!("BoxedUint::wrapping_and", a.wrapping_and(&b), wand);
        chk!("BoxedUint::wrapping_or", a.wrapping_or(&b), wor);
        chk!("BoxedUint::wrapping_xor", a.wrapping_xor(&b), wxor);
        chk!("&BoxedUint & &BoxedUint", &a & &b, wand);
        chk!("&BoxedUint | &BoxedUint", &a | &b, wor);
        chk!("&BoxedUint ^ &BoxedUint", &a ^ &b, wxor);
        chk!("BoxedUint & BoxedUint", a.clone() & b.clone(), wand);
        chk!("BoxedUint | BoxedUint", a.clone() | b.clone(), wor);
        chk!("BoxedUint ^ BoxedUint", a.clone() ^ b.clone(), wxor);
        chk!("BoxedUint & &BoxedUint", a.clone() & &b, wand);
        chk!("&BoxedUint | BoxedUint", &a | b.clone(), wor);
        // Assigning forms: the precision of the result is undocumented and differs between the
        // operators on the unchanged tree (`&=` widens to the wider operand, `|=` / `^=` keep the
        // receiver's precision and drop the limbs of a wider right-hand side). Both readings are
        // accepted: the exact value, or the exact value truncated to the receiver's precision.
        macro_rules! chk_assign {
            ($name:expr, $e:expr, $want:expr) => {{
                let r = total($name, || $e)?;
                let mut trunc: Vec<u64> = $want.clone();
                trunc.truncate(la);
                vensure!(same_value(&r, &$want) || (r.nlimbs() == la && same_value(&r, &trunc)), "{} ({} limbs op {} limbs): got {}, want value {} (or its truncation to the receiver)", $name, la, lb, hex(r.as_words()), hex(&$want));
            }};
        }
        chk_assign!("BoxedUint &= &BoxedUint", { let mut x = a.clone(); x &= &b; x }, wand);
        chk_assign!("BoxedUint &= BoxedUint", { let mut x = a.clone(); x &= b.clone(); x }, wand);
        chk_assign!("BoxedUint |= BoxedUint", { let mut x = a.clone(); x |= b.clone(); x }, wor);
        chk_assign!("BoxedUint |= &BoxedUint", { let mut x = a.clone(); x |= &b; x }, wor);
        chk_assign!("BoxedUint ^= &BoxedUint", { let mut x = a.clone(); x ^= &b; x }, wxor);
        chk_assign!("BoxedUint ^= BoxedUint", { let mut x = a.clone(); x ^= b.clone(); x }, wxor);
        chk!("Wrapping<BoxedUint> &", (Wrapping(a.clone()) & Wrapping(b.clone())).0, wand);
        chk!("Wrapping<BoxedUint> |", (Wrapping(a.clone()) | Wrapping(b.clone())).0, wor);
        chk!("Wrapping<BoxedUint> ^", (Wrapping(a.clone()) ^ Wrapping(b.clone())).0, wxor);
        let ck = total("checked_and", || a.checked_and(&b))?;
        if bool::from(ck.is_some()) {
            let v = Option::<BoxedUint>::from(ck).unwrap();
            vensure!(same_value(&v, &wand), "BoxedUint::checked_and: got {}, want value {}", hex(v.as_words()), hex(&wand));
        }
        Ok(())
    }
}
