//! `Int<N>`: left shift on the two's complement bits, arithmetic right shift (sign fill), bitwise
//! operators.

use crate::*;
use crypto_bigint::{ShlVartime, ShrVartime, WrappingShl, WrappingShr};

fn label_sign(c: &mut Case, xl: &[u64]) {
    let neg = xl.last().unwrap() >> 63 == 1;
    c.label(if neg { "Int: negative" } else { "Int: non-negative" });
}

pub fn sweep<const N: usize>(t: &mut Tape, c: &mut Case) -> CaseResult {
    let bits = 64 * N as u64;
    let xl = g::value(t, c, N);
    c.limbs("x", &xl);
    c.nontrivial(!is_zero(&xl));
    label_sign(c, &xl);
    let a = int::<N>(&xl);
    let bx = big(&xl);
    let fill = sign_fill(&xl);
    for s in g::sweep_shifts(bits) {
        let s32 = s as u32;
        let over = s >= bits;
        let wl = shl_b(&bx, N, s);
        let wr = sar_o(&xl, s); // == sign fill when over
        let (o1, o2, w1, w2) = tot("Int overflowing/wrapping shl", s, || {
            (
                Option::<Int<N>>::from(a.overflowing_shl(s32)),
                Option::<Int<N>>::from(a.overflowing_shl_vartime(s32)),
                a.wrapping_shl(s32),
                a.wrapping_shl_vartime(s32),
            )
        })?;
        opt_eq(&o1, over, &wl, "Int::overflowing_shl", s)?;
        opt_eq(&o2, over, &wl, "Int::overflowing_shl_vartime", s)?;
        eqw(&w1, &wl, "Int::wrapping_shl", s)?;
        eqw(&w2, &wl, "Int::wrapping_shl_vartime", s)?;
        let (o1, o2, w1, w2) = tot("Int overflowing/wrapping shr", s, || {
            (
                Option::<Int<N>>::from(a.overflowing_shr(s32)),
                Option::<Int<N>>::from(a.overflowing_shr_vartime(s32)),
                a.wrapping_shr(s32),
                a.wrapping_shr_vartime(s32),
            )
        })?;
        opt_eq(&o1, over, &wr, "Int::overflowing_shr", s)?;
        opt_eq(&o2, over, &wr, "Int::overflowing_shr_vartime", s)?;
        if over {
            vensure!(wr == fill, "harness: arithmetic shift oracle must equal the sign fill for s >= BITS");
        }
        eqw(&w1, &wr, "Int::wrapping_shr", s)?;
        eqw(&w2, &wr, "Int::wrapping_shr_vartime", s)?;
        if !over {
            let (p1, p2, p3, p4, p5, p6) =
                tot("Int shl/shr/<</>>", s, || (a.shl(s32), a.shl_vartime(s32), a.shr(s32), a.shr_vartime(s32), a << s32, a >> s32))?;
            eqw(&p1, &wl, "Int::shl", s)?;
            eqw(&p2, &wl, "Int::shl_vartime", s)?;
            eqw(&p3, &wr, "Int::shr", s)?;
            eqw(&p4, &wr, "Int::shr_vartime", s)?;
            eqw(&p5, &wl, "Int << u32", s)?;
            eqw(&p6, &wr, "Int >> u32", s)?;
        } else if s == bits || s == bits + 1 || s == 2 * bits + 1 || s == u32::MAX as u64 || (s > 2 * bits + 1 && (s & 63) <= 1 && (s >> 31 == 1 || s >> 16 == 1)) {
            panics_iff(guard(|| a.shl(s32)), true, &wl, "Int::shl", s)?;
            panics_iff(guard(|| a.shl_vartime(s32)), true, &wl, "Int::shl_vartime", s)?;
            panics_iff(guard(|| a.shr(s32)), true, &wr, "Int::shr", s)?;
            panics_iff(guard(|| a.shr_vartime(s32)), true, &wr, "Int::shr_vartime", s)?;
        }
    }
    Ok(())
}

pub fn forms<const N: usize>(t: &mut Tape, c: &mut Case) -> CaseResult {
    let bits = 64 * N as u64;
    let xl = g::value(t, c, N);
    let s = g::shift(t, bits);
    let neg = g::neg_i32(t, s);
    c.limbs("x", &xl);
    c.num("s", s);
    c.inum("neg", neg as i128);
    g::label_shift(c, s, bits);
    label_sign(c, &xl);
    c.nontrivial(g::pair_nontrivial(&xl, s));
    let a = int::<N>(&xl);
    let s32 = s as u32;
    let over = s >= bits;
    let (wl, wr) = (shl_o(&xl, s), sar_o(&xl, s));
    let zero = vec![0u64; N];
    let fill = sign_fill(&xl);

    opt_eq(&Option::<Int<N>>::from(total("overflowing_shl", || a.overflowing_shl(s32))?), over, &wl, "Int::overflowing_shl", s)?;
    opt_eq(&Option::<Int<N>>::from(total("overflowing_shl_vartime", || a.overflowing_shl_vartime(s32))?), over, &wl, "Int::overflowing_shl_vartime", s)?;
    opt_eq(&Option::<Int<N>>::from(total("overflowing_shr", || a.overflowing_shr(s32))?), over, &wr, "Int::overflowing_shr", s)?;
    opt_eq(&Option::<Int<N>>::from(total("overflowing_shr_vartime", || a.overflowing_shr_vartime(s32))?), over, &wr, "Int::overflowing_shr_vartime", s)?;
    eqw(&total("wrapping_shl", || a.wrapping_shl(s32))?, &wl, "Int::wrapping_shl", s)?;
    eqw(&total("wrapping_shl_vartime", || a.wrapping_shl_vartime(s32))?, &wl, "Int::wrapping_shl_vartime", s)?;
    eqw(&total("wrapping_shr", || a.wrapping_shr(s32))?, &wr, "Int::wrapping_shr", s)?;
    eqw(&total("wrapping_shr_vartime", || a.wrapping_shr_vartime(s32))?, &wr, "Int::wrapping_shr_vartime", s)?;
    panics_iff(guard(|| a.shl(s32)), over, &wl, "Int::shl", s)?;
    panics_iff(guard(|| a.shl_vartime(s32)), over, &wl, "Int::shl_vartime", s)?;
    panics_iff(guard(|| a.shr(s32)), over, &wr, "Int::shr", s)?;
    panics_iff(guard(|| a.shr_vartime(s32)), over, &wr, "Int::shr_vartime", s)?;

    let o: Option<Int<N>> = total("ShlVartime::overflowing_shl_vartime", || ShlVartime::overflowing_shl_vartime(&a, s32))?.into();
    opt_eq(&o, over, &wl, "ShlVartime::overflowing_shl_vartime (Int)", s)?;
    let o: Option<Int<N>> = total("ShrVartime::overflowing_shr_vartime", || ShrVartime::overflowing_shr_vartime(&a, s32))?.into();
    opt_eq(&o, over, &wr, "ShrVartime::overflowing_shr_vartime (Int)", s)?;
    let acc_l = wrap_accept(&xl, s, shl_o, zero.clone());
    let acc_r = wrap_accept(&xl, s, sar_o, fill);
    in_set(&total("ShlVartime::wrapping_shl_vartime", || ShlVartime::wrapping_shl_vartime(&a, s32))?, &acc_l, "ShlVartime::wrapping_shl_vartime (Int)", s)?;
    in_set(&total("ShrVartime::wrapping_shr_vartime", || ShrVartime::wrapping_shr_vartime(&a, s32))?, &acc_r, "ShrVartime::wrapping_shr_vartime (Int)", s)?;
    in_set(&total("WrappingShl", || WrappingShl::wrapping_shl(&a, s32))?, &acc_l, "WrappingShl::wrapping_shl (Int)", s)?;
    in_set(&total("WrappingShr", || WrappingShr::wrapping_shr(&a, s32))?, &acc_r, "WrappingShr::wrapping_shr (Int)", s)?;
    in_set(&total("Wrapping << u32", || Wrapping(a) << s32)?, &acc_l, "Wrapping<Int> << u32", s)?;
    in_set(&total("&Wrapping << u32", || &Wrapping(a) << s32)?, &acc_l, "&Wrapping<Int> << u32", s)?;
    in_set(&total("Wrapping >> u32", || Wrapping(a) >> s32)?, &acc_r, "Wrapping<Int> >> u32", s)?;
    in_set(&total("&Wrapping >> u32", || &Wrapping(a) >> s32)?, &acc_r, "&Wrapping<Int> >> u32", s)?;

    let (mut l, mut r) = (vec![], vec![]);
    shift_ops!(l, r, a, s32, "u32");
    shift_ops!(l, r, a, s as usize, "usize");
    if s <= i32::MAX as u64 {
        shift_ops!(l, r, a, s as i32, "i32");
    }
    for (name, res) in l {
        panics_iff(res, over, &wl, &format!("Int: {name}"), s)?;
    }
    for (name, res) in r {
        panics_iff(res, over, &wr, &format!("Int: {name}"), s)?;
    }
    let (mut l, mut r) = (vec![], vec![]);
    shift_ops!(l, r, a, neg, "negative i32");
    shift_ops!(l, r, a, (s as usize) + (1usize << 32), "usize > u32::MAX");
    for (name, res) in l.into_iter().chain(r) {
        panics_iff(res, true, &zero, &format!("Int: {name}"), s)?;
    }
    Ok(())
}

pub fn bitops<const N: usize>(t: &mut Tape, c: &mut Case) -> CaseResult {
    let al = g::value(t, c, N);
    let bl_ = if t.chance(1, 3) { vmodel::gen::related(t, &al) } else { g::value_raw(t, N).0 };
    let lw = vmodel::gen::word(t);
    c.limbs("a", &al);
    c.limbs("b", &bl_);
    c.num("limb", lw);
    c.nontrivial(!is_zero(&al) && !is_zero(&bl_) && al != bl_);
    let (a, b) = (int::<N>(&al), int::<N>(&bl_));
    total("Int bitwise operators", || -> CaseResult {
        bitop_forms!(Int<N>, a, b, &zip_limbs(&al, &bl_, |x, y| x & y), &, &=, bitand, wrapping_and, checked_and, "and");
        bitop_forms!(Int<N>, a, b, &zip_limbs(&al, &bl_, |x, y| x | y), |, |=, bitor, wrapping_or, checked_or, "or");
        bitop_forms!(Int<N>, a, b, &zip_limbs(&al, &bl_, |x, y| x ^ y), ^, ^=, bitxor, wrapping_xor, checked_xor, "xor");
        let want: Limbs = al.iter().map(|x| x & lw).collect();
        eqw(&a.bitand_limb(Limb(lw)), &want, "Int::bitand_limb", 0)?;
        let want: Limbs = al.iter().map(|x| !x).collect();
        eqw(&a.not(), &want, "Int::not", 0)?;
        eqw(&!a, &want, "!Int", 0)?;
        eqw(&!Wrapping(a), &want, "!Wrapping<Int>", 0)?;
        Ok(())
    })?
}
