//! concat / split for every macro-generated (lo, hi) combination, resize between all quantifier widths.

use crate::*;
use crypto_bigint::{Concat, ConcatMixed, Int, Split, SplitMixed, Uint};
use num_bigint::BigInt;

pub(crate) type Mono = fn(&[u64], &[u64], &[u64]) -> CaseResult;

/// (lo: L limbs, hi: H limbs) <-> wide: O = L + H limbs
fn cs_mixed<const L: usize, const H: usize, const O: usize>(lo: &[u64], hi: &[u64], wide: &[u64]) -> CaseResult
where
    Uint<L>: ConcatMixed<Uint<H>, MixedOutput = Uint<O>>,
    Uint<O>: SplitMixed<Uint<L>, Uint<H>>,
{
    let (a, b, w) = (uint::<L>(lo), uint::<H>(hi), uint::<O>(wide));
    let cat = [lo, hi].concat();
    veq!(ul(&Uint::<L>::concat_mixed(&a, &b)), cat, "Uint::concat_mixed ({L}+{H} limbs)");
    veq!(ul(&ConcatMixed::concat_mixed(&a, &b)), cat, "ConcatMixed::concat_mixed ({L}+{H} limbs)");
    veq!(ul(&Uint::<O>::from((a, b))), cat, "From<(lo, hi)> ({L}+{H} limbs)");
    veq!(ul(&Uint::<O>::from(&(a, b))), cat, "From<&(lo, hi)> ({L}+{H} limbs)");
    let (wl, wh) = (&wide[..L], &wide[L..]);
    let (s0, s1) = Uint::<O>::split_mixed(&w);
    veq!((ul(&s0), ul(&s1)), (wl.to_vec(), wh.to_vec()), "Uint::split_mixed ({O} -> {L}+{H} limbs)");
    let (s0, s1): (Uint<L>, Uint<H>) = SplitMixed::split_mixed(&w);
    veq!((ul(&s0), ul(&s1)), (wl.to_vec(), wh.to_vec()), "SplitMixed::split_mixed ({O} -> {L}+{H} limbs)");
    let (s0, s1) = <(Uint<L>, Uint<H>)>::from(w);
    veq!((ul(&s0), ul(&s1)), (wl.to_vec(), wh.to_vec()), "Into<(lo, hi)> ({O} -> {L}+{H} limbs)");
    // mutually inverse
    veq!(ul(&Uint::<L>::concat_mixed(&s0, &s1)), wide.to_vec(), "concat_mixed(split_mixed(w)) ({L}+{H} limbs)");
    Ok(())
}

/// equal halves: additionally `concat` / `split` and the `Concat` / `Split` traits
pub(crate) fn cs_even<const L: usize, const O: usize>(lo: &[u64], hi: &[u64], wide: &[u64]) -> CaseResult
where
    Uint<L>: ConcatMixed<Uint<L>, MixedOutput = Uint<O>> + Concat<Output = Uint<O>>,
    Uint<O>: SplitMixed<Uint<L>, Uint<L>> + Split<Output = Uint<L>>,
{
    cs_mixed::<L, L, O>(lo, hi, wide)?;
    let (a, b, w) = (uint::<L>(lo), uint::<L>(hi), uint::<O>(wide));
    let cat = [lo, hi].concat();
    veq!(ul(&Uint::<L>::concat(&a, &b)), cat, "Uint::concat ({L}+{L} limbs)");
    veq!(ul(&Concat::concat(&a, &b)), cat, "Concat::concat ({L}+{L} limbs)");
    let (wl, wh) = (&wide[..L], &wide[L..]);
    let (s0, s1) = Uint::<O>::split(&w);
    veq!((ul(&s0), ul(&s1)), (wl.to_vec(), wh.to_vec()), "Uint::split ({O} limbs)");
    let (s0, s1) = Split::split(&w);
    veq!((ul(&s0), ul(&s1)), (wl.to_vec(), wh.to_vec()), "Split::split ({O} limbs)");
    Ok(())
}

pub(crate) fn cs_case(combos: Vec<(usize, usize, Mono)>) -> impl Fn(&mut Tape, &mut Case) -> CaseResult {
    move |t, c| {
        let (l, h, f) = combos[t.index(combos.len())];
        c.num("lo_limbs", l as u64);
        c.num("hi_limbs", h as u64);
        let wide = value(t, l + h);
        // lo / hi: the halves of another value of the combined width, or related to `wide`
        let other = match t.weighted(&[3, 1, 1]) {
            0 => value(t, l + h),
            1 => wide.iter().rev().copied().collect(),
            _ => wide.clone(),
        };
        let (lo, hi) = (other[..l].to_vec(), other[l..].to_vec());
        c.limbs("lo", &lo);
        c.limbs("hi", &hi);
        c.limbs("wide", &wide);
        c.nontrivial(asymmetric(&wide) && asymmetric(&other));
        if lo == hi[..l.min(h)] || hi == lo[..l.min(h)] {
            c.label("concat: lo and hi share a prefix / are equal");
        }
        c.label(if l == h { "concat/split: equal halves" } else if l < h { "concat/split: lo narrower" } else { "concat/split: lo wider" });
        f(&lo, &hi, &wide)
    }
}

macro_rules! mixed_total {
    ($v:ident, $q:expr; $tot:literal: $($l:literal),*) => {{
        let combos: Vec<(usize, usize, Mono)> = vec![ $( ($l, $tot - $l, cs_mixed::<$l, { $tot - $l }, $tot> as Mono) ),* ];
        $v.push(SubCheck::new(format!("concat+split/mixed/U{}", 64 * $tot), $q, cs_case(combos)).tape(24 + 6 * $tot));
    }};
}

macro_rules! even_list {
    ($c:ident; $($l:literal),*) => { $( $c.push(($l, $l, cs_even::<$l, { 2 * $l }> as Mono)); )* };
}

// ------------------------------------------------------------------------------------------------
// resize

type Rz = fn(&[u64]) -> CaseResult;

fn resize_one<const A: usize, const B: usize>(xl: &[u64]) -> CaseResult {
    let x = uint::<A>(xl);
    // Uint: "truncating the upper bits if the value is too large": zero extend or keep the low B limbs
    let mut want = xl.to_vec();
    want.resize(B, 0);
    veq!(ul(&x.resize::<B>()), want, "Uint::<{A}>::resize::<{B}>");
    veq!(ul(&Uint::<B>::from(&x)), want, "Uint<{B}>: From<&Uint<{A}>>");
    // Int: sign extend when widening; the low B limbs when narrowing (value preserved whenever it fits)
    let xi = int::<A>(xl);
    let v: BigInt = sbig(xl);
    let want_i = twos(&v, B);
    veq!(il(&xi.resize::<B>()), want_i, "Int::<{A}>::resize::<{B}>");
    veq!(il(&Int::<B>::from(&xi)), want_i, "Int<{B}>: From<&Int<{A}>>");
    if fits_signed(&v, B) {
        vensure!(ibig(&xi.resize::<B>()) == v, "Int::<{A}>::resize::<{B}> changed a value that fits");
    }
    Ok(())
}

macro_rules! rz_row {
    ($c:ident, $a:literal, [$($b:literal),*]) => { $( $c.push(($a, $b, resize_one::<$a, $b> as Rz)); )* };
}
macro_rules! rz_cross {
    ($c:ident, [$($a:literal),*], $bs:tt) => { $( rz_row!($c, $a, $bs); )* };
}

fn resize_case(combos: Vec<(usize, usize, Rz)>) -> impl Fn(&mut Tape, &mut Case) -> CaseResult {
    move |t, c| {
        let (a, b, f) = combos[t.index(combos.len())];
        c.num("from_limbs", a as u64);
        c.num("to_limbs", b as u64);
        let mut xl = value(t, a);
        // sign / truncation boundaries: force the bits around the cut and the sign bit
        match t.weighted(&[4, 1, 1, 1, 1]) {
            0 => {}
            1 => xl[a - 1] |= 1 << 63,
            2 => xl[a - 1] &= !(1 << 63),
            3 if b < a => {
                // value that just fits / just does not fit the narrower signed width
                for w in xl[b..].iter_mut() {
                    *w = u64::MAX;
                }
                if t.bool() {
                    xl[b - 1] |= 1 << 63;
                } else {
                    xl[b - 1] &= !(1 << 63);
                }
            }
            _ if b < a => {
                for w in xl[b..].iter_mut() {
                    *w = 0;
                }
                if t.bool() {
                    xl[b - 1] |= 1 << 63;
                }
            }
            _ => {}
        }
        c.limbs("x", &xl);
        c.nontrivial(asymmetric(&xl));
        c.label(if b > a { "resize: widen" } else if b < a { "resize: narrow" } else { "resize: same width" });
        if xl[a - 1] >> 63 == 1 {
            c.label("resize: negative as Int");
            if b < a && fits_signed(&sbig(&xl), b) {
                c.label("resize: negative, narrowed, fits");
            }
        }
        f(&xl)
    }
}

pub fn push(v: &mut Vec<SubCheck>, ctx: &Ctx) {
    // every (lo, hi) with lo + hi = total limbs, lo != hi, as generated by impl_uint_concat_split_mixed!
    mixed_total!(v, 6000; 3: 1, 2);
    mixed_total!(v, 6000; 4: 1, 3);
    mixed_total!(v, 8000; 5: 1, 2, 3, 4);
    mixed_total!(v, 8000; 6: 1, 2, 4, 5);
    mixed_total!(v, 9000; 7: 1, 2, 3, 4, 5, 6);
    mixed_total!(v, 9000; 8: 1, 2, 3, 5, 6, 7);
    mixed_total!(v, 10000; 9: 1, 2, 3, 4, 5, 6, 7, 8);
    mixed_total!(v, 10000; 10: 1, 2, 3, 4, 6, 7, 8, 9);
    mixed_total!(v, 10000; 11: 1, 2, 3, 4, 5, 6, 7, 8, 9, 10);
    mixed_total!(v, 10000; 12: 1, 2, 3, 4, 5, 7, 8, 9, 10, 11);
    mixed_total!(v, 10000; 13: 1, 2, 3, 4, 5, 6, 7, 8, 9, 10, 11, 12);
    mixed_total!(v, 10000; 14: 1, 2, 3, 4, 5, 6, 8, 9, 10, 11, 12, 13);
    mixed_total!(v, 10000; 15: 1, 2, 3, 4, 5, 6, 7, 8, 9, 10, 11, 12, 13, 14);
    mixed_total!(v, 10000; 16: 1, 2, 3, 4, 5, 6, 7, 9, 10, 11, 12, 13, 14, 15);
    // equal halves, as generated by impl_uint_concat_split_even!
    let mut ev: Vec<(usize, usize, Mono)> = vec![];
    even_list!(ev; 1, 2, 3, 4, 5, 6, 7, 8);
    v.push(SubCheck::new("concat+split/even/U128..U1024", 16000, cs_case(ev)).tape(24 + 6 * 16));
    let mut ev: Vec<(usize, usize, Mono)> = vec![];
    even_list!(ev; 10, 12, 14, 16, 24, 28, 32, 33, 34);
    v.push(SubCheck::new("concat+split/even/U1280..U4352", 5000, cs_case(ev)).tape(24 + 6 * 68));
    let mut ev: Vec<(usize, usize, Mono)> = vec![];
    even_list!(ev; 48, 64);
    if ctx.thorough() {
        even_list!(ev; 128);
    }
    v.push(SubCheck::new("concat+split/even/U6144+", 600, cs_case(ev)).tape(24 + 6 * 256));

    let mut rz: Vec<(usize, usize, Rz)> = vec![];
    rz_cross!(rz, [1, 2, 3, 4, 5, 6, 7, 8, 16, 32], [1, 2, 3, 4, 5, 6, 7, 8, 16, 32]);
    v.push(SubCheck::new("resize/all-pairs", 100000, resize_case(rz)).tape(24 + 3 * 32));
}
