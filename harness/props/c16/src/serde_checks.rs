//! serde via bincode (binary form) and serde_json (human readable = hex form).
//!
//! The documentation does not fix the byte order of the serialized form, so the checks accept the
//! little- or the big-endian positional encoding, but require the binary and the hex form to agree,
//! both to round-trip, and the deserializers to refuse wrong sizes, non-hex characters, and values
//! that violate the wrapper's invariant (zero for NonZero, even for Odd, unreduced for ConstMontyForm).

use crate::*;
use crypto_bigint::modular::ConstMontyForm;
use crypto_bigint::{impl_modulus, Checked, Encoding, Limb, NonZero, Odd, Uint, Wrapping, U128, U256, U64};
use serde::{de::DeserializeOwned, Serialize};

pub(crate) fn bin<T: Serialize>(what: &str, v: &T) -> Result<Vec<u8>, Fail> {
    bincode::serialize(v).map_err(|e| Fail::new(format!("{what}: bincode serialize failed: {e}")))
}
pub(crate) fn unbin<T: DeserializeOwned>(what: &str, b: &[u8]) -> Result<T, Fail> {
    bincode::deserialize(b).map_err(|e| Fail::new(format!("{what}: bincode deserialize of its own output failed: {e}")))
}
pub(crate) fn json<T: Serialize>(what: &str, v: &T) -> Result<String, Fail> {
    serde_json::to_string(v).map_err(|e| Fail::new(format!("{what}: JSON serialize failed: {e}")))
}
pub(crate) fn unjson<T: DeserializeOwned>(what: &str, s: &str) -> Result<T, Fail> {
    serde_json::from_str(s).map_err(|e| Fail::new(format!("{what}: JSON deserialize of its own output {s} failed: {e}")))
}

pub(crate) fn serde_fixed<const N: usize>(t: &mut Tape, c: &mut Case) -> CaseResult
where
    Uint<N>: Encoding,
{
    let nb = 8 * N;
    let xl = value(t, N);
    c.limbs("x", &xl);
    let x = uint::<N>(&xl);
    let (be, le) = (be_bytes_of(&xl), le_bytes_of(&xl));

    // ---- binary form
    let b = bin("Uint", &x)?;
    vensure!(b.len() >= nb, "bincode(Uint<{N}>) has only {} bytes", b.len());
    let tail = &b[b.len() - nb..];
    vensure!(tail == &le[..] || tail == &be[..], "bincode(Uint<{N}>) = {} is neither the LE nor the BE positional encoding of {}", hex_lower(&b), hex(&xl));
    let order_le = tail == &le[..];
    veq!(ul(&unbin::<Uint<N>>("Uint", &b)?), xl, "bincode round trip");
    if let Ok(v) = bincode::deserialize::<Uint<N>>(&b[..b.len() - 1]) {
        vfail!("bincode: a truncated encoding was accepted as {}", hex(&ul(&v)));
    }
    // a byte string of another length is not a Uint<N>
    let wl = match t.weighted(&[2, 2, 1, 2]) {
        0 => nb - 1,
        1 => nb + 1,
        2 => 0,
        _ => t.usize_in(0, nb + 9),
    };
    if wl != nb {
        let mut wb = tail.to_vec();
        wb.resize(wl, 0);
        // a Vec<u8> goes over the wire as a length-prefixed byte string, the shape serdect reads
        let enc = bincode::serialize(&wb).unwrap();
        if let Ok(v) = bincode::deserialize::<Uint<N>>(&enc) {
            vfail!("bincode: a byte string of {} bytes was accepted as Uint<{N}> = {}", wl, hex(&ul(&v)));
        }
    }

    // ---- hex form
    let j = json("Uint", &x)?;
    let want_hex = hex_lower(if order_le { &le } else { &be });
    veq!(j, format!("\"{want_hex}\""), "JSON form must be the lower-case hex of the same bytes as the binary form");
    veq!(ul(&unjson::<Uint<N>>("Uint", &j)?), xl, "JSON round trip");

    // strictness of the hex form: mutated text
    let ht = hex_text(t, if order_le { &le } else { &be });
    let s = ht.text.as_str();
    c.text("hex", s);
    c.label(ht.kind);
    let dec = hex_decode_exact(s, nb);
    c.label(if dec.is_some() { "serde hex: must be accepted" } else { "serde hex: must be rejected" });
    c.nontrivial(asymmetric(&xl) || one_neighbour(s, 2 * nb));
    let js = serde_json::to_string(s).unwrap();
    match (serde_json::from_str::<Uint<N>>(&js), dec) {
        (Ok(v), Some(d)) => {
            let want = if order_le { limbs_from_le(&d, N) } else { limbs_from_be(&d, N) }.unwrap();
            veq!(ul(&v), want, "JSON deserialize of {s:?}");
        }
        (Ok(v), None) => {
            // F-16b: a well-formed but too short hex string is accepted; the missing trailing bytes
            // of the serialized form are taken as zero
            let sb = s.as_bytes();
            if sb.len() < 2 * nb && sb.len() % 2 == 0 && sb.iter().all(|&ch| hex_digit(ch).is_some()) {
                let mut d = hex_decode_exact(s, sb.len() / 2).unwrap();
                d.resize(nb, 0);
                let padded = if order_le { limbs_from_le(&d, N) } else { limbs_from_be(&d, N) }.unwrap();
                if ul(&v) == padded {
                    c.label("serde hex: too short, even length, all hex");
                    return Err(Fail::known("F-16b", format!("serde_json::from_str::<Uint<{N}>>({js}) accepted a hex string of {} instead of {} digits as {}", sb.len(), 2 * nb, hex(&padded))));
                }
            }
            vfail!("JSON deserialize accepted the malformed hex string {s:?} as {}", hex(&ul(&v)))
        }
        (Err(e), Some(_)) => vfail!("JSON deserialize refused the well-formed hex string {s:?}: {e}"),
        (Err(_), None) => {}
    }

    // ---- in-place decoding over a live value (`Deserialize::deserialize_in_place`, what containers
    //      that reuse storage call): same result as the by-value route, nothing left of the old value
    {
        use bincode::Options;
        let opts = bincode::DefaultOptions::new().with_fixint_encoding().allow_trailing_bytes();
        let mut place = !x;
        let ok = total("deserialize_in_place::<Uint> (bincode)", || {
            let mut de = bincode::Deserializer::from_slice(&b, opts);
            serde::Deserialize::deserialize_in_place(&mut de, &mut place).is_ok()
        })?;
        vensure!(ok, "bincode deserialize_in_place refused the type's own output");
        veq!(ul(&place), xl, "bincode deserialize_in_place round trip");
        let mut place = Wrapping(!x);
        let ok = total("deserialize_in_place::<Wrapping<Uint>> (JSON)", || {
            let mut de = serde_json::Deserializer::from_str(&j);
            serde::Deserialize::deserialize_in_place(&mut de, &mut place).is_ok()
        })?;
        vensure!(ok, "JSON deserialize_in_place refused the type's own output");
        veq!(ul(&place.0), xl, "JSON deserialize_in_place round trip (Wrapping)");
        // a truncated encoding decoded in place fails like the by-value route
        let mut place = x;
        let ok = total("deserialize_in_place::<Uint> (truncated)", || {
            let mut de = bincode::Deserializer::from_slice(&b[..b.len() - 1], opts);
            serde::Deserialize::deserialize_in_place(&mut de, &mut place).is_ok()
        })?;
        vensure!(!ok, "bincode deserialize_in_place accepted a truncated encoding");
    }

    // ---- wrappers
    let w = Wrapping(x);
    veq!(ul(&unbin::<Wrapping<Uint<N>>>("Wrapping", &bin("Wrapping", &w)?)?.0), xl, "Wrapping bincode round trip");
    veq!(ul(&unjson::<Wrapping<Uint<N>>>("Wrapping", &json("Wrapping", &w)?)?.0), xl, "Wrapping JSON round trip");
    let ck = Checked::new(x);
    let r: Checked<Uint<N>> = unbin("Checked", &bin("Checked", &ck)?)?;
    veq!(Option::<Uint<N>>::from(r.0).map(|v| ul(&v)), Some(xl.clone()), "Checked(some) bincode round trip");
    let r: Checked<Uint<N>> = unjson("Checked", &json("Checked", &ck)?)?;
    veq!(Option::<Uint<N>>::from(r.0).map(|v| ul(&v)), Some(xl.clone()), "Checked(some) JSON round trip");
    let none = Checked::<Uint<N>>(subtle::CtOption::new(x, 0.into()));
    let r: Checked<Uint<N>> = unbin("Checked", &bin("Checked", &none)?)?;
    vensure!(!bool::from(r.0.is_some()), "Checked(none) bincode round trip became some");
    let r: Checked<Uint<N>> = unjson("Checked", &json("Checked", &none)?)?;
    vensure!(!bool::from(r.0.is_some()), "Checked(none) JSON round trip became some");

    if is_zero(&xl) {
        c.label("serde: zero (NonZero must refuse)");
        // whatever the wire format of the wrapper, a decoded NonZero must not hold zero
        if let Ok(v) = bincode::deserialize::<NonZero<Uint<N>>>(&b) {
            vensure!(!is_zero(&ul(&v.get())), "bincode: NonZero<Uint<{N}>> deserialized to zero");
        }
        if let Ok(v) = serde_json::from_str::<NonZero<Uint<N>>>(&j) {
            vensure!(!is_zero(&ul(&v.get())), "JSON: NonZero<Uint<{N}>> deserialized to zero");
        }
    } else {
        let nz = NonZero::new(x).unwrap();
        veq!(ul(&unbin::<NonZero<Uint<N>>>("NonZero", &bin("NonZero", &nz)?)?.get()), xl, "NonZero bincode round trip");
        veq!(ul(&unjson::<NonZero<Uint<N>>>("NonZero", &json("NonZero", &nz)?)?.get()), xl, "NonZero JSON round trip");
    }
    if xl[0] & 1 == 0 {
        c.label("serde: even (Odd must refuse)");
        if let Ok(v) = bincode::deserialize::<Odd<Uint<N>>>(&b) {
            vensure!(ul(&v.get())[0] & 1 == 1, "bincode: Odd<Uint<{N}>> deserialized to the even value {}", hex(&ul(&v.get())));
        }
        if let Ok(v) = serde_json::from_str::<Odd<Uint<N>>>(&j) {
            vensure!(ul(&v.get())[0] & 1 == 1, "JSON: Odd<Uint<{N}>> deserialized to the even value {}", hex(&ul(&v.get())));
        }
    } else {
        let o = Odd::new(x).unwrap();
        veq!(ul(&unbin::<Odd<Uint<N>>>("Odd", &bin("Odd", &o)?)?.get()), xl, "Odd bincode round trip");
        veq!(ul(&unjson::<Odd<Uint<N>>>("Odd", &json("Odd", &o)?)?.get()), xl, "Odd JSON round trip");
    }
    Ok(())
}

fn serde_limb(t: &mut Tape, c: &mut Case) -> CaseResult {
    let w = gen::word(t);
    c.num("w", w);
    c.nontrivial(asymmetric(&[w]));
    let l = Limb(w);
    veq!(unbin::<Limb>("Limb", &bin("Limb", &l)?)?.0, w, "Limb bincode round trip");
    veq!(unjson::<Limb>("Limb", &json("Limb", &l)?)?.0, w, "Limb JSON round trip");
    let b = bin("Limb", &l)?;
    vensure!(b == le_bytes_of(&[w]) || b == be_bytes_of(&[w]), "bincode(Limb) = {} is not a positional encoding of {w:#x}", hex_lower(&b));
    veq!(unbin::<Wrapping<Limb>>("Wrapping<Limb>", &bin("Wrapping<Limb>", &Wrapping(l))?)?.0 .0, w, "Wrapping<Limb> bincode round trip");
    if w != 0 {
        let nz = NonZero::new(l).unwrap();
        veq!(unbin::<NonZero<Limb>>("NonZero<Limb>", &bin("NonZero<Limb>", &nz)?)?.get().0, w, "NonZero<Limb> bincode round trip");
        veq!(unjson::<NonZero<Limb>>("NonZero<Limb>", &json("NonZero<Limb>", &nz)?)?.get().0, w, "NonZero<Limb> JSON round trip");
    } else {
        if let Ok(v) = bincode::deserialize::<NonZero<Limb>>(&b) {
            vensure!(v.get().0 != 0, "bincode: NonZero<Limb> deserialized to zero");
        }
    }
    Ok(())
}

impl_modulus!(M64, U64, "ffffffffffffffc5");
impl_modulus!(M128, U128, "000000000000000100000000000000d1");
impl_modulus!(M256, U256, "ffffffff00000001000000000000000000000000ffffffffffffffffffffffff");

pub(crate) fn monty_case<const N: usize, MOD>(modulus_be_hex: &'static str) -> impl Fn(&mut Tape, &mut Case) -> CaseResult
where
    MOD: crypto_bigint::modular::ConstMontyParams<N>,
    Uint<N>: Encoding,
{
    move |t, c| {
        let m = limbs_from_be(&hex_decode_exact(modulus_be_hex, 8 * N).unwrap(), N).unwrap();
        let mb = big(&m);
        // a representative: reduced (accepted) or not (must be refused)
        let xl = match t.weighted(&[4, 1, 1, 1, 2]) {
            0 => limbs_of(&gen::residue(t, &mb), N),
            1 => m.clone(),
            2 => {
                let mut v = m.clone();
                gen::inc(&mut v);
                v
            }
            3 => vec![u64::MAX; N],
            _ => value(t, N),
        };
        c.limbs("montgomery_form", &xl);
        let reduced = big(&xl) < mb;
        c.label(if reduced { "monty serde: reduced" } else { "monty serde: not reduced (must be refused)" });
        c.nontrivial(asymmetric(&xl));
        let x = uint::<N>(&xl);
        let enc = bin("Uint", &x)?;
        let js = json("Uint", &x)?;
        let a = bincode::deserialize::<ConstMontyForm<MOD, N>>(&enc);
        let b = serde_json::from_str::<ConstMontyForm<MOD, N>>(&js);
        if reduced {
            let f = ConstMontyForm::<MOD, N>::from_montgomery(x);
            veq!(ul(unbin::<ConstMontyForm<MOD, N>>("ConstMontyForm", &bin("ConstMontyForm", &f)?)?.as_montgomery()), xl, "ConstMontyForm bincode round trip");
            veq!(ul(unjson::<ConstMontyForm<MOD, N>>("ConstMontyForm", &json("ConstMontyForm", &f)?)?.as_montgomery()), xl, "ConstMontyForm JSON round trip");
        }
        // whatever the wire format, a decoded ConstMontyForm must hold a reduced representative
        // ("montgomery form must be reduced")
        if let Ok(f) = a {
            vensure!(big(&ul(f.as_montgomery())) < mb, "bincode: ConstMontyForm deserialized to the unreduced representative {}", hex(&ul(f.as_montgomery())));
        }
        if let Ok(f) = b {
            vensure!(big(&ul(f.as_montgomery())) < mb, "JSON: ConstMontyForm deserialized to the unreduced representative {}", hex(&ul(f.as_montgomery())));
        }
        Ok(())
    }
}

macro_rules! serdes {
    ($v:ident, $q:expr; $($n:literal),*) => { $(
        $v.push(SubCheck::new(format!("serde/U{}+wrappers", 64 * $n), $q, serde_fixed::<$n>).tape(32 + 3 * $n));
    )* };
}

pub fn push(v: &mut Vec<SubCheck>, _ctx: &Ctx) {
    v.push(SubCheck::new("serde/limb", 20000, serde_limb).tape(8));
    serdes!(v, 12000; 1, 2, 3, 4);
    serdes!(v, 8000; 5, 6, 7, 8);
    serdes!(v, 3000; 16, 32);
    v.push(SubCheck::new("serde/const-monty/U64", 8000, monty_case::<1, M64>("ffffffffffffffc5")).tape(16));
    v.push(SubCheck::new("serde/const-monty/U128", 8000, monty_case::<2, M128>("000000000000000100000000000000d1")).tape(16));
    v.push(SubCheck::new("serde/const-monty/U256", 8000, monty_case::<4, M256>("ffffffff00000001000000000000000000000000ffffffffffffffffffffffff")).tape(24));
}
