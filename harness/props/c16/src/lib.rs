//! C16 — byte, hex, word and primitive conversions are lossless, positional and strict.
//!
//! Oracle: the positional formula on the little-endian `u64` limb vector (byte `j` counted from the
//! least significant end is `(limb[j / 8] >> 8 (j % 8)) mod 256`, i.e. `floor(x / 256^j) mod 256`),
//! own hex tables, `num_bigint` for the boxed precision classes. Nothing on the oracle side calls
//! crypto-bigint.

use vmodel::gen;
use vmodel::*;

mod boxed;
mod cs;
mod extra;
mod fixed;
mod prim;
mod serde_checks;
mod surface;

pub fn spec() -> PropSpec {
    PropSpec {
        id: "C16",
        rule: "cases: (a) values = mixture of the shared edge shapes (K constants, P 2^k(+-1), L patterned limbs, R runs, T random bit length, U uniform, Z zero padded) and byte-level constructions (counting bytes so every byte differs, one non-zero byte at a random position, all-0xff with one other byte, edge-alphabet byte strings) at Uint/Int 1..8,16,32 limbs and BoxedUint 1..9 limbs; every encoder/decoder form of the width (inherent, Encoding, ArrayEncoding/ArrayDecoding, slices incl. wrong sizes, NonZero/Odd decoders, words/limbs views, fmt traits, serde bincode+JSON) is checked on the same value against the positional formula; (b) hex strings built from a value in lower/upper/mixed case, then left valid (35%), or given exactly one character adjacent to a valid range ('/', ':', '@', 'G', '`', 'g') at a random position (35%), another invalid ASCII byte, a multi-byte UTF-8 character (bytes 0x80..0xf4; bytes that cannot occur in a &str are not generated), a wrong length, or several invalid characters; accepted <=> exact length and all characters in [0-9a-fA-F]; (c) boxed byte-string decoding with bits_precision in 0..=520 biased to multiples of 8 / 64 +-1 and byte strings of length 0..=precision/8+9 built as in-range / exactly 2^precision / 2^precision-1 / a bit above the precision / too long / random; (d) primitives at their boundaries (0, 1, MAX, MIN, -1, 2^k, 2^k+-1, random) into every width; (e) concat/split for every macro-generated (lo, hi) limb combination and resize between all pairs of the quantifier widths. non-trivial: (a, d, e) the byte string of the value is asymmetric (big-endian bytes != little-endian bytes); (b) a valid string of a byte-asymmetric value, or a string of the exact length with exactly one invalid character which is adjacent to a valid range; (c) bits_precision is not a multiple of 64 and the input is non-empty; the few constructor-of-nothing cases (empty limb slice / no words / numeral 0 must give a one-limb zero) all count; surface/* sub-checks run the same case functions (same rules) at the alias widths 9..=24, 28, 33, 48, 56, 64, 66, 68, 96, 127, 128, 256, 512 limbs, the equal-halves concat/split of the extra-size aliases and U16384, and serde of Wrapping<Limb> / Checked<Limb> / a 3-limb ConstMontyForm. distinct by the recorded inputs (limbs / strings / precision / primitive). Since seeding round 4: BoxedUint::from_words with inexact-size_hint iterators, From<Vec<_>> with spare capacity, in-place deserialization.",
        assumptions: vec![
            "the positional oracle works on u64 limb vectors and own hex tables; num-bigint is used only for the boxed precision classes".into(),
            "bridging uses from_words/to_words/as_words only".into(),
            "serde: the docs do not fix a byte order, so the serialized bytes may be the little- or big-endian positional encoding (binary and hex forms must agree and round-trip)".into(),
            "hex strings are &str, so bytes 0xc0, 0xc1, 0xf5..0xff (impossible in UTF-8) cannot be presented to the decoders".into(),
        ],
        subchecks,
    }
}

// ------------------------------------------------------------------------------------------------
// positional oracle on limb vectors

/// little-endian byte string of the limb vector: byte j = floor(x / 256^j) mod 256
pub fn le_bytes_of(l: &[u64]) -> Vec<u8> {
    (0..8 * l.len()).map(|j| ((l[j / 8] >> (8 * (j % 8))) & 0xff) as u8).collect()
}

/// big-endian byte string: byte i of n is floor(x / 256^(n-1-i)) mod 256
pub fn be_bytes_of(l: &[u64]) -> Vec<u8> {
    let n = 8 * l.len();
    (0..n).map(|i| {
        let j = n - 1 - i;
        ((l[j / 8] >> (8 * (j % 8))) & 0xff) as u8
    })
    .collect()
}

/// value of a little-endian byte string as `n` limbs (None if it does not fit)
pub fn limbs_from_le(b: &[u8], n: usize) -> Option<Limbs> {
    let mut v = vec![0u64; n];
    for (j, &x) in b.iter().enumerate() {
        if x == 0 {
            continue;
        }
        if j / 8 >= n {
            return None;
        }
        v[j / 8] |= (x as u64) << (8 * (j % 8));
    }
    Some(v)
}

pub fn limbs_from_be(b: &[u8], n: usize) -> Option<Limbs> {
    let r: Vec<u8> = b.iter().rev().copied().collect();
    limbs_from_le(&r, n)
}

pub fn rev(b: &[u8]) -> Vec<u8> {
    b.iter().rev().copied().collect()
}

pub fn asymmetric(l: &[u64]) -> bool {
    let le = le_bytes_of(l);
    le.iter().ne(le.iter().rev())
}

// ------------------------------------------------------------------------------------------------
// text oracle

const LOWER: &[u8; 16] = b"0123456789abcdef";
const UPPER: &[u8; 16] = b"0123456789ABCDEF";

pub fn hex_lower(b: &[u8]) -> String {
    let mut s = String::with_capacity(2 * b.len());
    for x in b {
        s.push(LOWER[(x >> 4) as usize] as char);
        s.push(LOWER[(x & 15) as usize] as char);
    }
    s
}
pub fn hex_upper(b: &[u8]) -> String {
    let mut s = String::with_capacity(2 * b.len());
    for x in b {
        s.push(UPPER[(x >> 4) as usize] as char);
        s.push(UPPER[(x & 15) as usize] as char);
    }
    s
}
pub fn bin_text(b: &[u8]) -> String {
    let mut s = String::with_capacity(8 * b.len());
    for x in b {
        for k in (0..8).rev() {
            s.push(if (x >> k) & 1 == 1 { '1' } else { '0' });
        }
    }
    s
}

pub fn hex_digit(c: u8) -> Option<u8> {
    match c {
        b'0'..=b'9' => Some(c - b'0'),
        b'a'..=b'f' => Some(c - b'a' + 10),
        b'A'..=b'F' => Some(c - b'A' + 10),
        _ => None,
    }
}

/// decode a hex string of exactly `2 * nbytes` hex digits; None for anything else
pub fn hex_decode_exact(s: &str, nbytes: usize) -> Option<Vec<u8>> {
    let b = s.as_bytes();
    if b.len() != 2 * nbytes {
        return None;
    }
    let mut out = Vec::with_capacity(nbytes);
    for p in b.chunks(2) {
        out.push((hex_digit(p[0])? << 4) | hex_digit(p[1])?);
    }
    Some(out)
}

// ------------------------------------------------------------------------------------------------
// generators

/// a value of n limbs: shared shapes plus byte-level constructions
pub fn value(t: &mut Tape, n: usize) -> Limbs {
    let nb = 8 * n;
    match t.weighted(&[4, 2, 2, 1, 2]) {
        0 => gen::limbs(t, n),
        1 => {
            // counting bytes: every byte position carries a different value (mod 256)
            let start = t.below(256);
            let step = t.pick(&[1u64, 1, 3, 7, 17, 255]);
            let b: Vec<u8> = (0..nb as u64).map(|j| (start + 1 + j * step) as u8).collect();
            limbs_from_le(&b, n).unwrap()
        }
        2 => {
            let mut b = vec![0u8; nb];
            let j = t.index(nb);
            b[j] = t.pick(&[1u8, 0x80, 0xff, 0x0f, 0xf0, 0x5a]);
            limbs_from_le(&b, n).unwrap()
        }
        3 => {
            let mut b = vec![0xffu8; nb];
            let j = t.index(nb);
            b[j] = t.below(255) as u8;
            limbs_from_le(&b, n).unwrap()
        }
        _ => limbs_from_le(&gen::bytes(t, nb), n).unwrap(),
    }
}

pub const NEIGHBOURS: [u8; 6] = [b'/', b':', b'@', b'G', b'`', b'g'];
const OTHER_ASCII: [u8; 16] = [b' ', b'+', b'-', b'_', b'x', b'X', 0, 0x7f, b'h', b'z', b'Z', b'.', b'\n', b'"', b'\\', b'O'];

/// A UTF-8 encoded scalar of exactly k bytes (k in 2..=4), edge biased.
fn utf8_char(t: &mut Tape, k: usize) -> Vec<u8> {
    let (lo, hi) = match k {
        2 => (0x80u32, 0x7ff),
        3 => (0x800, 0xffff),
        _ => (0x10000, 0x10ffff),
    };
    let mut cp = match t.weighted(&[1, 1, 3]) {
        0 => lo,
        1 => hi,
        _ => t.u32_in(lo, hi),
    };
    if (0xd800..=0xdfff).contains(&cp) {
        cp = 0xd7ff;
    }
    let ch = char::from_u32(cp).unwrap();
    let mut buf = [0u8; 4];
    let s = ch.encode_utf8(&mut buf);
    assert_eq!(s.len(), k);
    s.as_bytes().to_vec()
}

pub struct HexText {
    pub text: String,
    pub kind: &'static str,
}

/// Build a hex string for the byte payload (most significant text position first), then mutate it.
pub fn hex_text(t: &mut Tape, payload: &[u8]) -> HexText {
    let n = payload.len();
    let style = t.weighted(&[2, 2, 3]);
    let bits = if style == 2 { t.expand((2 * n).div_ceil(64).max(1)) } else { vec![] };
    let mut s: Vec<u8> = Vec::with_capacity(2 * n + 20);
    for (i, x) in payload.iter().enumerate() {
        for (h, nib) in [(0usize, x >> 4), (1, x & 15)] {
            let pos = 2 * i + h;
            let up = match style {
                0 => false,
                1 => true,
                _ => (bits[pos / 64] >> (pos % 64)) & 1 == 1,
            };
            s.push(if up { UPPER[nib as usize] } else { LOWER[nib as usize] });
        }
    }
    let len = s.len();
    let kind = match t.weighted(&[35, 35, 8, 8, 8, 6]) {
        0 => "hex: valid",
        1 if len > 0 => {
            let p = t.index(len);
            s[p] = t.pick(&NEIGHBOURS);
            "hex: one invalid char adjacent to a valid range"
        }
        2 if len > 0 => {
            let p = t.index(len);
            s[p] = match t.weighted(&[3, 1]) {
                0 => t.pick(&OTHER_ASCII),
                _ => {
                    let b = t.below(128) as u8;
                    if hex_digit(b).is_some() {
                        b'~'
                    } else {
                        b
                    }
                }
            };
            "hex: one other invalid ASCII char"
        }
        3 if len >= 2 => {
            let k = t.usize_in(2, len.min(4));
            let p = t.index(len - k + 1);
            let ch = utf8_char(t, k);
            s[p..p + k].copy_from_slice(&ch);
            "hex: multi-byte UTF-8 char (bytes >= 0x80), exact length"
        }
        4 => {
            match t.below(10) {
                0 => {
                    s.pop();
                }
                1 if len > 0 => {
                    s.remove(0);
                }
                2 => s.push(b'0'),
                3 => s.insert(0, b'0'),
                4 => {
                    s.truncate(len.saturating_sub(2));
                }
                5 => s.extend_from_slice(b"00"),
                6 => {
                    s.truncate(len.saturating_sub(16));
                }
                7 => s.extend_from_slice(b"0000000000000000"),
                8 => s.clear(),
                _ => {
                    s.insert(0, b'x');
                    s.insert(0, b'0');
                }
            }
            "hex: wrong length"
        }
        5 if len > 0 => {
            let k = t.usize_in(2, 3);
            for _ in 0..k {
                let p = t.index(len);
                s[p] = if t.bool() { t.pick(&NEIGHBOURS) } else { t.pick(&OTHER_ASCII) };
            }
            "hex: several invalid chars"
        }
        _ => "hex: valid",
    };
    HexText { text: String::from_utf8(s).expect("harness: generated text must be UTF-8"), kind }
}

/// exact length, exactly one invalid byte, and that byte is adjacent to a valid range
pub fn one_neighbour(s: &str, want_len: usize) -> bool {
    let b = s.as_bytes();
    if b.len() != want_len {
        return false;
    }
    let bad: Vec<u8> = b.iter().copied().filter(|&c| hex_digit(c).is_none()).collect();
    bad.len() == 1 && NEIGHBOURS.contains(&bad[0])
}

// ------------------------------------------------------------------------------------------------

fn subchecks(ctx: &Ctx) -> Vec<SubCheck> {
    let mut v = vec![];
    prim::push(&mut v, ctx);
    fixed::push(&mut v, ctx);
    serde_checks::push(&mut v, ctx);
    cs::push(&mut v, ctx);
    boxed::push(&mut v, ctx);
    v.extend(extra::subchecks(ctx));
    v.extend(surface::subchecks(ctx));
    v
}
