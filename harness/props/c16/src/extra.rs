//! C16 extra — public formatting / view items that no other C16 sub-check reaches:
//!
//!  * `fmt::{Display, Binary, LowerHex, UpperHex}` (with and without the `#` flag) of the forwarding
//!    wrappers `Wrapping<Uint>`, `Wrapping<Limb>`, `Wrapping<BoxedUint>`, `Odd<Uint>`, `Odd<BoxedUint>`,
//!    `NonZero<Uint>`, `NonZero<Limb>`, `NonZero<BoxedUint>`, and of `Int` (incl. `Debug`);
//!  * `fmt::Octal` of `Wrapping<T>` / `NonZero<T>`: no integer type of the crate implements `Octal`, so the
//!    forwarding impls are reachable only with a primitive inner type (`Wrapping(u64)`, `NonZero::<u64>::new`);
//!    `Odd<T>` needs `T: Integer` to be constructed, so `Octal for Odd<T>` is unreachable;
//!  * `Display` of `DecodeError` and `RandomBitsError<E>`;
//!  * `AsRef<[Word; N]>` / `AsMut<[Word; N]>` / `AsRef<[Limb]>` / `AsMut<[Limb]>` of `Int<N>` and the
//!    trait forms `AsRef<T>` / `AsRef<[Limb]>` of `Odd<T>`.
//!
//! Oracle: the fixed-width, zero-padded text of the limb vector produced by the crate-local tables
//! (`hex_lower` / `hex_upper` / `bin_text` over the positional big-endian bytes) and an own octal
//! renderer; `Display` is the upper-case hex form, as implemented for every integer type.
//!
//! Non-trivial (same rule as the other value sub-checks of C16): the byte string of the value is
//! asymmetric; the error-display sub-check has a handful of distinct cases which all count.

use crate::*;
use crypto_bigint::{BoxedUint, DecodeError, Limb, NonZero, Odd, RandomBitsError, Uint, Word, Wrapping};
use std::fmt::{Binary, Debug, Display, LowerHex, UpperHex};

/// The seven renderings of one value; `what` names the type.
fn fmt7<T: Display + Binary + LowerHex + UpperHex>(what: &str, x: &T, be: &[u8]) -> CaseResult {
    let (lo, up, bi) = (hex_lower(be), hex_upper(be), bin_text(be));
    veq!(total(what, || format!("{x:x}"))?, lo, "{what} LowerHex");
    veq!(total(what, || format!("{x:X}"))?, up, "{what} UpperHex");
    veq!(total(what, || format!("{x:b}"))?, bi, "{what} Binary");
    veq!(total(what, || format!("{x}"))?, up, "{what} Display");
    veq!(total(what, || format!("{x:#x}"))?, format!("0x{lo}"), "{what} LowerHex #");
    veq!(total(what, || format!("{x:#X}"))?, format!("0x{up}"), "{what} UpperHex #");
    veq!(total(what, || format!("{x:#b}"))?, format!("0b{bi}"), "{what} Binary #");
    Ok(())
}

fn debug_is<T: Debug>(what: &str, x: &T, want: String) -> CaseResult {
    veq!(total(what, || format!("{x:?}"))?, want, "{what} Debug");
    Ok(())
}

/// octal numeral of a u64 (no padding), own code
fn octal(mut x: u64) -> String {
    if x == 0 {
        return "0".into();
    }
    let mut d = vec![];
    while x != 0 {
        d.push(b'0' + (x & 7) as u8);
        x >>= 3;
    }
    d.reverse();
    String::from_utf8(d).unwrap()
}

// ------------------------------------------------------------------------------------------------

fn fixed_fmt<const N: usize>(t: &mut Tape, c: &mut Case) -> CaseResult {
    let xl = value(t, N);
    c.limbs("x", &xl);
    c.nontrivial(asymmetric(&xl));
    let be = be_bytes_of(&xl);
    let x = uint::<N>(&xl);
    let up = hex_upper(&be);

    fmt7("Wrapping<Uint>", &Wrapping(x), &be)?;
    debug_is("Uint", &x, format!("Uint(0x{up})"))?;
    let xi = int::<N>(&xl);
    fmt7("Int", &xi, &be)?;
    debug_is("Int", &xi, format!("Int(0x{up})"))?;
    fmt7("Wrapping<Int>", &Wrapping(xi), &be)?;

    // non-zero / odd neighbours of the value (constructed, not filtered)
    let mut nz = xl.clone();
    if is_zero(&nz) {
        nz[t.index(N)] = 1 << t.below(64);
        c.label("zero value: NonZero built from a single bit");
    }
    let nzb = be_bytes_of(&nz);
    let n = Option::<NonZero<Uint<N>>>::from(NonZero::new(uint::<N>(&nz)));
    vensure!(n.is_some(), "NonZero::new(non-zero) is none");
    fmt7("NonZero<Uint>", &n.unwrap(), &nzb)?;

    let mut od = xl.clone();
    od[0] |= 1;
    let odb = be_bytes_of(&od);
    let o = Option::<Odd<Uint<N>>>::from(Odd::new(uint::<N>(&od)));
    vensure!(o.is_some(), "Odd::new(odd) is none");
    let o = o.unwrap();
    fmt7("Odd<Uint>", &o, &odb)?;

    // ---- views of Odd (trait forms; the inherent const `as_ref` is a different item)
    let r: &Uint<N> = AsRef::<Uint<N>>::as_ref(&o);
    veq!(ul(r), od, "AsRef<Uint> for Odd<Uint>");
    let ls: &[Limb] = AsRef::<[Limb]>::as_ref(&o);
    veq!(ls.iter().map(|l| l.0).collect::<Vec<u64>>(), od, "AsRef<[Limb]> for Odd<Uint>");

    // ---- views of Int
    let w: &[Word; N] = AsRef::<[Word; N]>::as_ref(&xi);
    veq!(w.to_vec(), xl, "AsRef<[Word; N]> for Int");
    let ls: &[Limb] = AsRef::<[Limb]>::as_ref(&xi);
    veq!(ls.iter().map(|l| l.0).collect::<Vec<u64>>(), xl, "AsRef<[Limb]> for Int");
    let i = t.index(N);
    let nw = gen::word(t);
    c.num("i", i as u64);
    c.num("new word", nw);
    let mut want = xl.clone();
    want[i] = nw;
    let mut y = xi;
    AsMut::<[Word; N]>::as_mut(&mut y)[i] = nw;
    veq!(il(&y), want, "AsMut<[Word; N]> for Int");
    let mut y = xi;
    veq!(AsMut::<[Limb]>::as_mut(&mut y).len(), N, "AsMut<[Limb]> for Int: length");
    AsMut::<[Limb]>::as_mut(&mut y)[i] = Limb(nw);
    veq!(il(&y), want, "AsMut<[Limb]> for Int");
    veq!(il(&xi), xl, "Int: the source of the copies is unchanged");
    Ok(())
}

fn limb_fmt(t: &mut Tape, c: &mut Case) -> CaseResult {
    let w = gen::word(t);
    c.num("w", w);
    c.nontrivial(asymmetric(&[w]));
    let be = be_bytes_of(&[w]);
    fmt7("Limb", &Limb(w), &be)?;
    debug_is("Limb", &Limb(w), format!("Limb(0x{})", hex_upper(&be)))?;
    fmt7("Wrapping<Limb>", &Wrapping(Limb(w)), &be)?;
    let nzw = if w == 0 { 1u64 << t.below(64) } else { w };
    c.num("nz", nzw);
    let n = Option::<NonZero<Limb>>::from(NonZero::new(Limb(nzw)));
    vensure!(n.is_some(), "NonZero::new(non-zero limb) is none");
    fmt7("NonZero<Limb>", &n.unwrap(), &be_bytes_of(&[nzw]))?;

    // Octal forwarding: only a primitive inner type implements Octal
    let o = octal(w);
    let wr = Wrapping(w);
    veq!(total("Wrapping<u64> Octal", || format!("{wr:o}"))?, o, "Wrapping<u64> Octal");
    veq!(total("Wrapping<u64> Octal #", || format!("{wr:#o}"))?, format!("0o{o}"), "Wrapping<u64> Octal #");
    let on = octal(nzw);
    let nz = Option::<NonZero<u64>>::from(NonZero::new(nzw));
    vensure!(nz.is_some(), "NonZero::<u64>::new(non-zero) is none");
    let nz = nz.unwrap();
    veq!(total("NonZero<u64> Octal", || format!("{nz:o}"))?, on, "NonZero<u64> Octal");
    veq!(total("NonZero<u64> Octal #", || format!("{nz:#o}"))?, format!("0o{on}"), "NonZero<u64> Octal #");
    // zero-padded width is a Formatter option the forwarding impl must pass on
    let width = t.usize_in(0, 30);
    c.num("width", width as u64);
    let padded = format!("{}{on}", "0".repeat(width.saturating_sub(on.len())));
    veq!(total("NonZero<u64> Octal 0width", || format!("{nz:0width$o}"))?, padded, "NonZero<u64> Octal zero-padded to {width}");
    let padded = format!("{}{o}", "0".repeat(width.saturating_sub(o.len())));
    veq!(total("Wrapping<u64> Octal 0width", || format!("{wr:0width$o}"))?, padded, "Wrapping<u64> Octal zero-padded to {width}");
    Ok(())
}

fn boxed_fmt(t: &mut Tape, c: &mut Case) -> CaseResult {
    let n = t.usize_in(1, 9);
    let xl = value(t, n);
    c.limbs("x", &xl);
    c.nontrivial(asymmetric(&xl));
    let be = be_bytes_of(&xl);
    let x = boxed(&xl);
    fmt7("BoxedUint", &x, &be)?;
    debug_is("BoxedUint", &x, format!("BoxedUint(0x{})", hex_upper(&be)))?;
    fmt7("Wrapping<BoxedUint>", &Wrapping(x.clone()), &be)?;

    let mut nz = xl.clone();
    if is_zero(&nz) {
        nz[t.index(n)] = 1 << t.below(64);
    }
    let v = Option::<NonZero<BoxedUint>>::from(NonZero::new(boxed(&nz)));
    vensure!(v.is_some(), "NonZero::new(non-zero boxed) is none");
    fmt7("NonZero<BoxedUint>", &v.unwrap(), &be_bytes_of(&nz))?;

    let mut od = xl.clone();
    od[0] |= 1;
    let o = Option::<Odd<BoxedUint>>::from(Odd::new(boxed(&od)));
    vensure!(o.is_some(), "Odd::new(odd boxed) is none");
    let o = o.unwrap();
    fmt7("Odd<BoxedUint>", &o, &be_bytes_of(&od))?;
    let r: &BoxedUint = AsRef::<BoxedUint>::as_ref(&o);
    veq!(bl(r), od, "AsRef<BoxedUint> for Odd<BoxedUint>");
    let ls: &[Limb] = AsRef::<[Limb]>::as_ref(&o);
    veq!(ls.iter().map(|l| l.0).collect::<Vec<u64>>(), od, "AsRef<[Limb]> for Odd<BoxedUint>");
    Ok(())
}

/// `Display` of the two error enums: total, non-empty, and the variants are told apart.
fn error_display(t: &mut Tape, c: &mut Case) -> CaseResult {
    let (a, b) = (gen::word(t) as u32, gen::word(t) as u32);
    let msg = t.pick(&["rng failure", "x", "entropy source unavailable"]);
    c.num("a", a as u64);
    c.num("b", b as u64);
    c.text("inner", msg);
    c.nontrivial(true);
    let de = [DecodeError::Empty, DecodeError::InvalidDigit, DecodeError::InputSize, DecodeError::Precision];
    let mut texts = vec![];
    for e in de {
        let s = total("DecodeError Display", || format!("{e}"))?;
        vensure!(!s.is_empty(), "Display of DecodeError::{e:?} is empty");
        texts.push((format!("DecodeError::{e:?}"), s));
    }
    for i in 0..texts.len() {
        for j in 0..i {
            vensure!(texts[i].1 != texts[j].1, "{} and {} display identically: {:?}", texts[i].0, texts[j].0, texts[i].1);
        }
    }
    let re: [RandomBitsError<String>; 3] = [
        RandomBitsError::RandCore(msg.to_string()),
        RandomBitsError::BitsPrecisionMismatch { bits_precision: a, integer_bits: b },
        RandomBitsError::BitLengthTooLarge { bit_length: a, bits_precision: b },
    ];
    let mut texts = vec![];
    for e in re.iter() {
        let s = total("RandomBitsError Display", || format!("{e}"))?;
        vensure!(!s.is_empty(), "Display of RandomBitsError {e:?} is empty");
        texts.push((format!("{e:?}"), s));
    }
    for i in 0..texts.len() {
        for j in 0..i {
            vensure!(texts[i].1 != texts[j].1, "{} and {} display identically: {:?}", texts[i].0, texts[j].0, texts[i].1);
        }
    }
    Ok(())
}

macro_rules! widths {
    ($v:ident, $q:expr; $($n:literal),*) => { $(
        $v.push(SubCheck::new(format!("extra/fmt+views/wrappers+int/U{}", 64 * $n), $q, fixed_fmt::<$n>).tape(32 + 3 * $n));
    )* };
}

pub fn subchecks(_ctx: &Ctx) -> Vec<SubCheck> {
    let mut v = vec![];
    widths!(v, 30_000; 1, 2, 3, 4);
    widths!(v, 20_000; 8);
    v.push(SubCheck::new("extra/fmt/limb+octal", 60_000, limb_fmt).tape(16));
    v.push(SubCheck::new("extra/fmt+views/boxed-wrappers/1..=9", 40_000, boxed_fmt).tape(64));
    v.push(SubCheck::new("extra/error-display", 5_000, error_display).tape(8));
    v
}
