//! BoxedUint: byte-string decoding with a runtime precision, bytes / fmt / words views, widen /
//! shorten, hex decoding, constructors that must never produce a zero-limb value.

use crate::*;
use crypto_bigint::{BoxedUint, DecodeError, Limb, NonZero, Word};
use num_bigint::BigUint;
use num_traits::Zero as _;

fn big_from_be(b: &[u8]) -> BigUint {
    // x = sum b[i] * 256^(n-1-i)
    let mut x = BigUint::zero();
    for &d in b {
        x = (x << 8u32) + BigUint::from(d);
    }
    x
}

fn be_of_big(x: &BigUint, n: usize) -> Vec<u8> {
    let l = limbs_of(x, n.div_ceil(8).max(1));
    let le = le_bytes_of(&l);
    (0..n).map(|i| le[n - 1 - i]).collect()
}

fn limbs_for(p: u32) -> usize {
    (p as usize).div_ceil(64).max(1)
}

fn precision(t: &mut Tape) -> u32 {
    let p = match t.weighted(&[2, 4, 2]) {
        0 => t.pick(&[0u32, 1, 7, 8, 9, 63, 64, 65, 127, 128, 129, 191, 192, 193, 255, 256, 257, 511, 512, 513, 519, 520]),
        1 => {
            let k = t.below(66) as i64 * 8 + t.below(3) as i64 - 1;
            k.clamp(0, 520) as u32
        }
        _ => t.u32_in(0, 520),
    };
    p.min(520)
}

/// what `from_be_slice(b, p)` must return per its documentation
fn decode_oracle(b: &[u8], p: u32) -> Result<(BigUint, usize), DecodeError> {
    if b.len() > (p as usize).div_ceil(8) {
        return Err(DecodeError::InputSize);
    }
    let v = big_from_be(b);
    if v.bits() > p as u64 {
        return Err(DecodeError::Precision);
    }
    Ok((v, limbs_for(p)))
}

fn check_decode(name: &str, got: Result<BoxedUint, DecodeError>, b_be: &[u8], p: u32) -> CaseResult {
    let want = decode_oracle(b_be, p);
    match (got, want) {
        (Ok(g), Ok((v, nl))) => {
            vensure!(bbig(&g) == v, "{name}(len {}, precision {p}): got {}, want {:#x}", b_be.len(), hex(&bl(&g)), v);
            veq!(g.nlimbs(), nl, "{name}(len {}, precision {p}): limbs (precision rounded up to a multiple of 64)", b_be.len());
        }
        (Err(e), Err(w)) => veq!(e, w, "{name}(len {}, precision {p}): error kind", b_be.len()),
        (Ok(g), Err(w)) => vfail!("{name}(len {}, precision {p}): accepted {} although {:?} is documented", b_be.len(), hex(&bl(&g)), w),
        (Err(e), Ok((v, _))) => vfail!("{name}(len {}, precision {p}): refused ({e:?}) the in-range value {:#x}", b_be.len(), v),
    }
    Ok(())
}

fn slice_decode(t: &mut Tape, c: &mut Case) -> CaseResult {
    let p = precision(t);
    c.num("bits_precision", p as u64);
    let full = (p as usize).div_ceil(8);
    let in_range = |t: &mut Tape| -> BigUint {
        let raw = gen::bytes(t, full);
        let v = big_from_be(&raw) & mask(p as u64);
        match t.weighted(&[4, 1, 1]) {
            0 => v,
            1 => v >> (t.below(p as u64 + 1)),
            _ => BigUint::zero(),
        }
    };
    let (b, class): (Vec<u8>, &'static str) = match t.weighted(&[5, 3, 2, 3, 2, 3]) {
        0 => {
            let v = in_range(t);
            let minimal = (v.bits() as usize).div_ceil(8);
            let len = match t.weighted(&[2, 2, 1]) {
                0 => full,
                1 => minimal,
                _ => t.usize_in(minimal, full),
            };
            (be_of_big(&v, len), "boxed decode: in range")
        }
        1 => (be_of_big(&pow2(p as u64), p as usize / 8 + 1), "boxed decode: value exactly 2^precision"),
        2 => (be_of_big(&mask(p as u64), full), "boxed decode: value 2^precision - 1"),
        3 if p % 8 != 0 => {
            let v = in_range(t);
            let q = t.range(p as u64, 8 * full as u64 - 1);
            (be_of_big(&(v | pow2(q)), full), "boxed decode: a bit above the precision in the top byte")
        }
        4 | 3 => {
            let v = in_range(t);
            let len = t.usize_in(full + 1, p as usize / 8 + 9);
            (be_of_big(&v, len), "boxed decode: too long (zero padded)")
        }
        _ => {
            let len = t.usize_in(0, p as usize / 8 + 9);
            (gen::bytes(t, len), "boxed decode: random bytes")
        }
    };
    c.bytes("bytes_be", &b);
    c.label(class);
    c.label(match (p % 64, p % 8) {
        (0, _) => "precision: multiple of 64",
        (_, 0) => "precision: multiple of 8, not of 64",
        _ => "precision: not a multiple of 8",
    });
    match decode_oracle(&b, p) {
        Ok(_) => c.label("boxed decode: expect Ok"),
        Err(DecodeError::InputSize) => c.label("boxed decode: expect InputSize"),
        Err(_) => c.label("boxed decode: expect Precision"),
    }
    c.nontrivial(p % 64 != 0 && !b.is_empty());
    let r = rev(&b);
    check_decode("BoxedUint::from_be_slice", total("from_be_slice", || BoxedUint::from_be_slice(&b, p))?, &b, p)?;
    check_decode("BoxedUint::from_le_slice", total("from_le_slice", || BoxedUint::from_le_slice(&r, p))?, &b, p)?;
    // the same strings read in the other byte order
    check_decode("BoxedUint::from_le_slice (other order)", total("from_le_slice", || BoxedUint::from_le_slice(&b, p))?, &r, p)?;
    check_decode("BoxedUint::from_be_slice (other order)", total("from_be_slice", || BoxedUint::from_be_slice(&r, p))?, &r, p)?;
    Ok(())
}

fn wl(x: &BoxedUint) -> Limbs {
    x.as_limbs().iter().map(|l| l.0).collect()
}

fn bytes_views(max_limbs: usize) -> impl Fn(&mut Tape, &mut Case) -> CaseResult {
    move |t, c| {
        let nl = match t.weighted(&[3, 1]) {
            0 => t.usize_in(1, 9.min(max_limbs)),
            _ => t.usize_in(1, max_limbs),
        };
        let xl = value(t, nl);
        c.limbs("x", &xl);
        let (be, le) = (be_bytes_of(&xl), le_bytes_of(&xl));
        let asym = be != le;
        c.nontrivial(asym);
        c.label(if asym { "bytes: BE != LE" } else { "bytes: palindromic" });
        let x = boxed(&xl);
        let p = 64 * nl as u32;

        // ---- bytes
        veq!(x.to_be_bytes().to_vec(), be, "BoxedUint::to_be_bytes ({nl} limbs)");
        veq!(x.to_le_bytes().to_vec(), le, "BoxedUint::to_le_bytes ({nl} limbs)");
        check_decode("from_be_slice(to_be_bytes)", total("from_be_slice", || BoxedUint::from_be_slice(&be, p))?, &be, p)?;
        check_decode("from_le_slice(to_le_bytes)", total("from_le_slice", || BoxedUint::from_le_slice(&le, p))?, &be, p)?;
        veq!(bl(&BoxedUint::from_be_slice(&be, p).unwrap()), xl, "from_be_slice(to_be_bytes(x)) == x");
        veq!(bl(&BoxedUint::from_le_slice(&le, p).unwrap()), xl, "from_le_slice(to_le_bytes(x)) == x");
        // a precision just below / at / above the bit length of x, minimal-length string
        let bits = bit_len(&xl) as u32;
        let q = (bits + t.below(3) as u32).saturating_sub(1);
        c.num("q", q as u64);
        let trimmed: Vec<u8> = be.iter().copied().skip_while(|&d| d == 0).collect();
        check_decode("from_be_slice(trimmed, q)", total("from_be_slice", || BoxedUint::from_be_slice(&trimmed, q))?, &trimmed, q)?;
        check_decode("from_le_slice(trimmed, q)", total("from_le_slice", || BoxedUint::from_le_slice(&rev(&trimmed), q))?, &trimmed, q)?;

        // ---- words / limbs
        veq!(x.nlimbs(), nl, "nlimbs");
        veq!(x.bits_precision(), p, "bits_precision");
        veq!(x.to_words().to_vec(), xl, "to_words");
        veq!(x.as_words().to_vec(), xl, "as_words");
        veq!(wl(&x), xl, "as_limbs");
        veq!(x.to_limbs().iter().map(|l| l.0).collect::<Vec<_>>(), xl, "to_limbs");
        veq!(x.clone().into_limbs().iter().map(|l| l.0).collect::<Vec<_>>(), xl, "into_limbs");
        veq!(AsRef::<[Word]>::as_ref(&x).to_vec(), xl, "AsRef<[Word]>");
        veq!(AsRef::<[Limb]>::as_ref(&x).iter().map(|l| l.0).collect::<Vec<_>>(), xl, "AsRef<[Limb]>");
        let lv: Vec<Limb> = xl.iter().map(|&w| Limb(w)).collect();
        veq!(bl(&BoxedUint::from(lv.clone())), xl, "From<Vec<Limb>>");
        veq!(bl(&BoxedUint::from(&lv[..])), xl, "From<&[Limb]>");
        veq!(bl(&BoxedUint::from(lv.clone().into_boxed_slice())), xl, "From<Box<[Limb]>>");
        veq!(bl(&BoxedUint::from(xl.clone())), xl, "From<Vec<Word>>");
        veq!(bl(&BoxedUint::from_words(xl.iter().copied())), xl, "from_words");
        // the same conversions with the argument object in another state: iterators whose size_hint
        // is not exact (lower bound 0, or below the length) and vectors with spare capacity
        veq!(bl(&BoxedUint::from_words(xl.iter().copied().filter(|_| true))), xl, "from_words(filter iterator, size_hint lower bound 0)");
        {
            let h = nl / 2;
            let it = xl[..h].iter().copied().chain(xl[h..].iter().copied().filter(|_| true));
            veq!(bl(&BoxedUint::from_words(it)), xl, "from_words(chain of exact and filtered parts)");
            let mut k = 0;
            let src = xl.clone();
            let it = core::iter::from_fn(move || {
                k += 1;
                src.get(k - 1).copied()
            });
            veq!(bl(&BoxedUint::from_words(it)), xl, "from_words(from_fn iterator)");
        }
        {
            let mut wv: Vec<Word> = Vec::with_capacity(nl + 1 + (xl[0] % 5) as usize);
            wv.extend_from_slice(&xl);
            veq!(bl(&BoxedUint::from(wv)), xl, "From<Vec<Word>> (spare capacity)");
            let mut wv: Vec<Word> = xl.clone();
            wv.push(7);
            wv.pop();
            veq!(bl(&BoxedUint::from(wv)), xl, "From<Vec<Word>> (after push + pop)");
            let mut lv2: Vec<Limb> = Vec::with_capacity(2 * nl + 3);
            lv2.extend_from_slice(&lv);
            veq!(bl(&BoxedUint::from(lv2)), xl, "From<Vec<Limb>> (spare capacity)");
        }
        let i = t.index(nl);
        let nw = gen::word(t);
        c.num("i", i as u64);
        c.num("new_word", nw);
        let mut want = xl.clone();
        want[i] = nw;
        let mut y = x.clone();
        y.as_words_mut()[i] = nw;
        veq!(bl(&y), want, "as_words_mut");
        let mut y = x.clone();
        y.as_limbs_mut()[i] = Limb(nw);
        veq!(bl(&y), want, "as_limbs_mut");
        let mut y = x.clone();
        AsMut::<[Word]>::as_mut(&mut y)[i] = nw;
        veq!(bl(&y), want, "AsMut<[Word]>");
        let mut y = x.clone();
        AsMut::<[Limb]>::as_mut(&mut y)[i] = Limb(nw);
        veq!(bl(&y), want, "AsMut<[Limb]>");

        // ---- fmt
        let (lo, up, bi) = (hex_lower(&be), hex_upper(&be), bin_text(&be));
        veq!(format!("{x:x}"), lo, "LowerHex");
        veq!(format!("{x:X}"), up, "UpperHex");
        veq!(format!("{x:b}"), bi, "Binary");
        veq!(format!("{x}"), up, "Display");
        veq!(format!("{x:#x}"), format!("0x{lo}"), "LowerHex #");
        veq!(format!("{x:#X}"), format!("0x{up}"), "UpperHex #");
        veq!(format!("{x:#b}"), format!("0b{bi}"), "Binary #");
        let back = total("from_be_hex", || BoxedUint::from_be_hex(&lo, p))?;
        vensure!(bool::from(back.is_some()), "from_be_hex(format!(\"{{:x}}\")) is none");
        veq!(bl(&back.unwrap()), xl, "from_be_hex(format!(\"{{:x}}\"))");

        // ---- widen / shorten
        let w = match t.weighted(&[2, 2, 2]) {
            0 => t.u32_in(0, p + 200),
            1 => (p as i64 + t.below(5) as i64 - 2).max(0) as u32,
            _ => (64 * t.below(nl as u64 + 4) as i64 + t.below(3) as i64 - 1).max(0) as u32,
        };
        c.num("resize_to", w as u64);
        match guard(|| x.widen(w)) {
            Ok(g) => {
                vensure!(w >= p, "widen({w}) of a {p}-bit value returned instead of panicking (documented: panics if smaller than the current precision)");
                let mut want = xl.clone();
                want.resize(limbs_for(w), 0);
                veq!(bl(&g), want, "widen({w}) of {p} bits");
                c.label("boxed: widen ok");
            }
            Err(m) => {
                vensure!(w < p, "widen({w}) of a {p}-bit value panicked: {m}");
                c.label("boxed: widen panics (smaller)");
            }
        }
        match guard(|| x.shorten(w)) {
            Ok(g) => {
                vensure!(w <= p, "shorten({w}) of a {p}-bit value returned instead of panicking (documented: panics if larger than the current precision)");
                veq!(bl(&g), xl[..limbs_for(w)].to_vec(), "shorten({w}) of {p} bits");
                c.label("boxed: shorten ok");
            }
            Err(m) => {
                vensure!(w > p, "shorten({w}) of a {p}-bit value panicked: {m}");
                c.label("boxed: shorten panics (larger)");
            }
        }
        if !is_zero(&xl) {
            let nz = NonZero::new(x.clone()).unwrap();
            match guard(|| nz.widen(w)) {
                Ok(g) => {
                    vensure!(w >= p, "NonZero::widen({w}) of a {p}-bit value returned instead of panicking");
                    let mut want = xl.clone();
                    want.resize(limbs_for(w), 0);
                    veq!(bl(&g.get()), want, "NonZero::widen({w}) of {p} bits");
                }
                Err(m) => vensure!(w < p, "NonZero::widen({w}) of a {p}-bit value panicked: {m}"),
            }
        }
        Ok(())
    }
}

fn boxed_hex(t: &mut Tape, c: &mut Case) -> CaseResult {
    let (p, strict) = match t.weighted(&[8, 2]) {
        0 => (64 * t.range(1, 9) as u32, true),
        _ => {
            let p = precision(t);
            (p, p % 64 == 0 && p >= 64)
        }
    };
    c.num("bits_precision", p as u64);
    c.label(if strict { "boxed hex: precision a multiple of 64" } else { "boxed hex: precision not a multiple of 64 (or 0)" });
    let nl = (p / 64) as usize; // limbs whose hex digits the decoder takes
    let payload = if nl == 0 { vec![] } else { be_bytes_of(&value(t, nl)) };
    let ht = hex_text(t, &payload);
    let s = ht.text.as_str();
    c.text("hex", s);
    c.label(ht.kind);
    let got = guard(|| BoxedUint::from_be_hex(s, p)).map(|o| Option::<BoxedUint>::from(o));
    if strict {
        let dec = hex_decode_exact(s, 8 * nl);
        c.label(if dec.is_some() { "hex: must be accepted" } else { "hex: must be rejected" });
        c.nontrivial((dec.is_some() && payload.iter().ne(payload.iter().rev())) || one_neighbour(s, 16 * nl));
        match (got, dec) {
            (Ok(Some(g)), Some(d)) => {
                veq!(bl(&g), limbs_from_be(&d, nl).unwrap(), "BoxedUint::from_be_hex({s:?}, {p})");
            }
            (Ok(Some(g)), None) => vfail!("BoxedUint::from_be_hex({s:?}, {p}) accepted a malformed string and returned {}", hex(&bl(&g))),
            (Ok(None), Some(_)) => vfail!("BoxedUint::from_be_hex({s:?}, {p}) returned none for a well-formed string"),
            (Err(m), Some(_)) => vfail!("BoxedUint::from_be_hex({s:?}, {p}) panicked ({m}) on a well-formed string"),
            (Ok(None), None) | (Err(_), None) => {}
        }
    } else {
        // how a precision that is not a multiple of the limb size is rounded is not documented for
        // this constructor: only require that nothing malformed is decoded and that a returned
        // value is the value of the text, in at least one limb
        c.nontrivial(one_neighbour(s, 16 * nl));
        if let Ok(Some(g)) = got {
            let all_hex = s.len() % 2 == 0 && s.bytes().all(|b| hex_digit(b).is_some());
            vensure!(all_hex, "BoxedUint::from_be_hex({s:?}, {p}) accepted a malformed string and returned {}", hex(&bl(&g)));
            let d = hex_decode_exact(s, s.len() / 2).unwrap();
            if g.nlimbs() == 0 && s.is_empty() && p < 64 {
                return Err(Fail::known("F-16a", format!("BoxedUint::from_be_hex(\"\", {p}) is some(value with zero limbs)")));
            }
            vensure!(g.nlimbs() >= 1, "BoxedUint::from_be_hex({s:?}, {p}) returned a zero-limb value");
            vensure!(bbig(&g) == big_from_be(&d), "BoxedUint::from_be_hex({s:?}, {p}): got {}", hex(&bl(&g)));
        }
    }
    Ok(())
}

/// constructors given "nothing": the value zero in at least one limb, which formats as one zero limb
fn zero_ctors(t: &mut Tape, c: &mut Case) -> CaseResult {
    let k = t.index(9);
    c.num("ctor", k as u64);
    let radix = t.u32_in(2, 36);
    let numeral = t.pick(&["0", "00", "+0", "0_0", "+000"]);
    let (name, b): (String, BoxedUint) = match k {
        0 => ("From<&[Limb]> (empty)".into(), BoxedUint::from(&[][..] as &[Limb])),
        1 => ("From<Vec<Limb>> (empty)".into(), BoxedUint::from(Vec::<Limb>::new())),
        2 => ("From<Vec<Word>> (empty)".into(), BoxedUint::from(Vec::<Word>::new())),
        3 => ("From<Box<[Limb]>> (empty)".into(), BoxedUint::from(Vec::<Limb>::new().into_boxed_slice())),
        4 => ("from_words (empty)".into(), BoxedUint::from_words(core::iter::empty())),
        5 => ("zero_with_precision(0)".into(), BoxedUint::zero_with_precision(0)),
        6 => ("from_be_slice(&[], 0)".into(), BoxedUint::from_be_slice(&[], 0).map_err(|e| Fail::new(format!("from_be_slice(&[], 0): {e:?}")))?),
        7 => ("from_le_slice(&[], 0)".into(), BoxedUint::from_le_slice(&[], 0).map_err(|e| Fail::new(format!("from_le_slice(&[], 0): {e:?}")))?),
        _ => {
            c.num("radix", radix as u64);
            c.text("numeral", numeral);
            let r = total("from_str_radix_vartime", || BoxedUint::from_str_radix_vartime(numeral, radix))?;
            (format!("from_str_radix_vartime({numeral:?}, {radix})"), r.map_err(|e| Fail::new(format!("from_str_radix_vartime({numeral:?}, {radix}): {e:?}")))?)
        }
    };
    c.nontrivial(true);
    let text = guard(|| format!("{b:x}|{b:X}|{b}|{b:#x}"));
    if b.nlimbs() == 0 {
        // F-17: zero-limb value (formats as the empty string or trips an assertion)
        if matches!(k, 0 | 4 | 8) {
            return Err(Fail::known("F-17", format!("BoxedUint {name} has zero limbs (formats as {text:?})")));
        }
        vfail!("BoxedUint {name} has zero limbs (formats as {text:?})");
    }
    vensure!(is_zero(&bl(&b)), "BoxedUint {name}: value is not zero: {}", hex(&bl(&b)));
    let z = "0".repeat(16 * b.nlimbs());
    veq!(text, Ok::<String, String>(format!("{z}|{z}|{z}|0x{z}")), "BoxedUint {name}: formatting");
    veq!(b.to_be_bytes().to_vec(), vec![0u8; 8 * b.nlimbs()], "BoxedUint {name}: to_be_bytes");
    Ok(())
}

pub fn push(v: &mut Vec<SubCheck>, ctx: &Ctx) {
    v.push(SubCheck::new("boxed/slice-decode/precision-0..=520", 250000, slice_decode).tape(48));
    v.push(SubCheck::new("boxed/bytes+words+fmt+widen/1..=9-limbs", 60000, bytes_views(9)).tape(64));
    if ctx.thorough() {
        v.push(SubCheck::new("boxed/bytes+words+fmt+widen/1..=70-limbs", 300, bytes_views(70)).tape(200));
    }
    v.push(SubCheck::new("boxed/hex/precision-0..=576", 120000, boxed_hex).tape(64));
    v.push(SubCheck::new("boxed/zero-constructors", 3000, zero_ctors).tape(8));
}
