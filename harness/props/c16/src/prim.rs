//! Conversions from and to primitive integers (Limb, Uint, Int, NonZero, BoxedUint).

use crate::*;
use core::num::{NonZeroU128, NonZeroU16, NonZeroU32, NonZeroU64, NonZeroU8};
use crypto_bigint::{BoxedUint, Encoding, Int, Limb, NonZero, Uint, WideWord, Word, I128, I64, U128, U64};
use num_bigint::BigInt;

/// a 128-bit pattern with the boundaries of every primitive width over-weighted
fn prim128(t: &mut Tape) -> u128 {
    match t.weighted(&[2, 4, 2, 6]) {
        0 => t.pick(&[0u128, 1, u128::MAX, u128::MAX - 1, 1 << 127, (1 << 127) - 1, (1 << 127) + 1, 2, 0x80, 0x7f, 0xff, 0x100]),
        1 => {
            // 2^k, 2^k - 1, 2^k + 1, and their negations, k at the primitive widths +-1 or anywhere
            let k = match t.weighted(&[3, 1]) {
                0 => t.pick(&[7u32, 8, 9, 15, 16, 17, 31, 32, 33, 63, 64, 65, 126, 127]),
                _ => t.u32_in(0, 127),
            };
            let b = 1u128 << k;
            let v = match t.below(3) {
                0 => b,
                1 => b.wrapping_sub(1),
                _ => b.wrapping_add(1),
            };
            if t.bool() {
                v.wrapping_neg()
            } else {
                v
            }
        }
        2 => {
            // byte-asymmetric counting pattern
            let s = t.below(256) as u8;
            u128::from_le_bytes(core::array::from_fn(|j| s.wrapping_add(1 + j as u8)))
        }
        _ => (t.u64() as u128) << 64 | t.u64() as u128,
    }
}

fn ulimbs(v: u128, n: usize) -> Limbs {
    let mut l = vec![0u64; n];
    l[0] = v as u64;
    if n > 1 {
        l[1] = (v >> 64) as u64;
    }
    l
}

/// panic, or (only if the value really fits) the exact value
fn fits_or_panics(name: &str, got: Result<Limbs, String>, want_full: &[u64], n: usize) -> CaseResult {
    if let Ok(g) = got {
        let fits = want_full[n..].iter().all(|&w| w == 0);
        vensure!(fits && g[..] == want_full[..n], "{name}: returned {} for a value that needs {} limbs ({})", hex(&g), want_full.len(), hex(want_full));
    }
    Ok(())
}

pub fn prim_fixed<const N: usize>(t: &mut Tape, c: &mut Case) -> CaseResult {
    let v = prim128(t);
    c.limbs("v", &[v as u64, (v >> 64) as u64]);
    c.nontrivial(asymmetric(&[v as u64, (v >> 64) as u64]));
    if v as u64 == 0 || v as u64 == u64::MAX || v as i64 == i64::MIN || v as i64 == i64::MAX {
        c.label("prim: 64-bit boundary");
    }
    if v == 0 || v == u128::MAX || v as i128 == i128::MIN || v as i128 == i128::MAX {
        c.label("prim: 128-bit boundary");
    }
    let (a8, a16, a32, a64) = (v as u8, v as u16, v as u32, v as u64);

    // ---- unsigned into Uint<N>: zero extended
    veq!(ul(&Uint::<N>::from_u8(a8)), ulimbs(a8 as u128, N), "Uint::from_u8");
    veq!(ul(&Uint::<N>::from(a8)), ulimbs(a8 as u128, N), "Uint: From<u8>");
    veq!(ul(&Uint::<N>::from_u16(a16)), ulimbs(a16 as u128, N), "Uint::from_u16");
    veq!(ul(&Uint::<N>::from(a16)), ulimbs(a16 as u128, N), "Uint: From<u16>");
    veq!(ul(&Uint::<N>::from_u32(a32)), ulimbs(a32 as u128, N), "Uint::from_u32");
    veq!(ul(&Uint::<N>::from(a32)), ulimbs(a32 as u128, N), "Uint: From<u32>");
    veq!(ul(&Uint::<N>::from_u64(a64)), ulimbs(a64 as u128, N), "Uint::from_u64");
    veq!(ul(&Uint::<N>::from(a64)), ulimbs(a64 as u128, N), "Uint: From<u64>");
    veq!(ul(&Uint::<N>::from_word(a64 as Word)), ulimbs(a64 as u128, N), "Uint::from_word");
    veq!(ul(&Uint::<N>::from(Limb(a64))), ulimbs(a64 as u128, N), "Uint: From<Limb>");
    let full = [v as u64, (v >> 64) as u64];
    if N >= 2 {
        veq!(ul(&total("from_u128", || Uint::<N>::from_u128(v))?), ulimbs(v, N), "Uint::from_u128");
        veq!(ul(&total("From<u128>", || Uint::<N>::from(v))?), ulimbs(v, N), "Uint: From<u128>");
        veq!(ul(&total("from_wide_word", || Uint::<N>::from_wide_word(v as WideWord))?), ulimbs(v, N), "Uint::from_wide_word");
    } else {
        // one limb cannot hold a u128: the constructors assert on the width; never a silently truncated value
        fits_or_panics("Uint::<1>::from_u128", guard(|| ul(&Uint::<N>::from_u128(v))), &full, N)?;
        fits_or_panics("Uint::<1>: From<u128>", guard(|| ul(&Uint::<N>::from(v))), &full, N)?;
        fits_or_panics("Uint::<1>::from_wide_word", guard(|| ul(&Uint::<N>::from_wide_word(v as WideWord))), &full, N)?;
    }

    // ---- signed into Int<N>: sign extended
    let sx = |x: i128| twos(&BigInt::from(x), N);
    let (i8_, i16_, i32_, i64_, i128_) = (v as i8, v as i16, v as i32, v as i64, v as i128);
    veq!(il(&Int::<N>::from_i8(i8_)), sx(i8_ as i128), "Int::from_i8({i8_})");
    veq!(il(&Int::<N>::from(i8_)), sx(i8_ as i128), "Int: From<i8>");
    veq!(il(&Int::<N>::from_i16(i16_)), sx(i16_ as i128), "Int::from_i16({i16_})");
    veq!(il(&Int::<N>::from(i16_)), sx(i16_ as i128), "Int: From<i16>");
    veq!(il(&Int::<N>::from_i32(i32_)), sx(i32_ as i128), "Int::from_i32({i32_})");
    veq!(il(&Int::<N>::from(i32_)), sx(i32_ as i128), "Int: From<i32>");
    veq!(il(&Int::<N>::from_i64(i64_)), sx(i64_ as i128), "Int::from_i64({i64_})");
    veq!(il(&Int::<N>::from(i64_)), sx(i64_ as i128), "Int: From<i64>");
    if N >= 2 {
        veq!(il(&total("from_i128", || Int::<N>::from_i128(i128_))?), sx(i128_), "Int::from_i128({i128_})");
        veq!(il(&total("From<i128>", || Int::<N>::from(i128_))?), sx(i128_), "Int: From<i128>");
    } else {
        for (name, got) in [("Int::<1>::from_i128", guard(|| il(&Int::<N>::from_i128(i128_)))), ("Int::<1>: From<i128>", guard(|| il(&Int::<N>::from(i128_))))] {
            if let Ok(g) = got {
                let fits = i128_ >= i64::MIN as i128 && i128_ <= i64::MAX as i128;
                vensure!(fits && g == sx(i128_), "{name}({i128_}): returned {} although the value does not fit / differs", hex(&g));
            }
        }
    }

    // ---- NonZero from core NonZero primitives
    if let Some(p) = NonZeroU8::new(a8) {
        veq!(ul(&NonZero::<Uint<N>>::from_u8(p).get()), ulimbs(a8 as u128, N), "NonZero<Uint>::from_u8");
        veq!(ul(&NonZero::<Uint<N>>::from(p).get()), ulimbs(a8 as u128, N), "NonZero<Uint>: From<NonZeroU8>");
    }
    if let Some(p) = NonZeroU16::new(a16) {
        veq!(ul(&NonZero::<Uint<N>>::from_u16(p).get()), ulimbs(a16 as u128, N), "NonZero<Uint>::from_u16");
        veq!(ul(&NonZero::<Uint<N>>::from(p).get()), ulimbs(a16 as u128, N), "NonZero<Uint>: From<NonZeroU16>");
    }
    if let Some(p) = NonZeroU32::new(a32) {
        veq!(ul(&NonZero::<Uint<N>>::from_u32(p).get()), ulimbs(a32 as u128, N), "NonZero<Uint>::from_u32");
        veq!(ul(&NonZero::<Uint<N>>::from(p).get()), ulimbs(a32 as u128, N), "NonZero<Uint>: From<NonZeroU32>");
    }
    if let Some(p) = NonZeroU64::new(a64) {
        veq!(ul(&NonZero::<Uint<N>>::from_u64(p).get()), ulimbs(a64 as u128, N), "NonZero<Uint>::from_u64");
        veq!(ul(&NonZero::<Uint<N>>::from(p).get()), ulimbs(a64 as u128, N), "NonZero<Uint>: From<NonZeroU64>");
    }
    if let Some(p) = NonZeroU128::new(v) {
        if N >= 2 {
            veq!(ul(&total("NonZero::from_u128", || NonZero::<Uint<N>>::from_u128(p))?.get()), ulimbs(v, N), "NonZero<Uint>::from_u128");
            veq!(ul(&total("NonZero: From<NonZeroU128>", || NonZero::<Uint<N>>::from(p))?.get()), ulimbs(v, N), "NonZero<Uint>: From<NonZeroU128>");
        } else {
            fits_or_panics("NonZero<Uint<1>>::from_u128", guard(|| ul(&NonZero::<Uint<N>>::from_u128(p).get())), &full, N)?;
        }
    }
    Ok(())
}

/// Limb, U64 <-> u64, U128 <-> u128, I64 <-> i64, I128 <-> i128, BoxedUint from primitives
pub fn prim_misc(t: &mut Tape, c: &mut Case) -> CaseResult {
    let v = prim128(t);
    c.limbs("v", &[v as u64, (v >> 64) as u64]);
    c.nontrivial(asymmetric(&[v as u64, (v >> 64) as u64]));
    let (a8, a16, a32, a64) = (v as u8, v as u16, v as u32, v as u64);

    // Limb
    veq!(Limb::from_u8(a8).0, a8 as u64, "Limb::from_u8");
    veq!(Limb::from(a8).0, a8 as u64, "Limb: From<u8>");
    veq!(Limb::from_u16(a16).0, a16 as u64, "Limb::from_u16");
    veq!(Limb::from(a16).0, a16 as u64, "Limb: From<u16>");
    veq!(Limb::from_u32(a32).0, a32 as u64, "Limb::from_u32");
    veq!(Limb::from(a32).0, a32 as u64, "Limb: From<u32>");
    veq!(Limb::from_u64(a64).0, a64, "Limb::from_u64");
    veq!(Limb::from(a64).0, a64, "Limb: From<u64>");
    veq!(Word::from(Limb(a64)), a64, "Word: From<Limb>");
    veq!(WideWord::from(Limb(a64)), a64 as u128, "WideWord: From<Limb>");
    let l = Limb(a64);
    let (be, le) = (be_bytes_of(&[a64]), le_bytes_of(&[a64]));
    veq!(Encoding::to_be_bytes(&l).to_vec(), be, "Limb: Encoding::to_be_bytes");
    veq!(Encoding::to_le_bytes(&l).to_vec(), le, "Limb: Encoding::to_le_bytes");
    let arr = |b: &[u8]| <[u8; 8]>::try_from(b).unwrap();
    veq!(<Limb as Encoding>::from_be_bytes(arr(&be)).0, a64, "Limb: Encoding::from_be_bytes");
    veq!(<Limb as Encoding>::from_le_bytes(arr(&le)).0, a64, "Limb: Encoding::from_le_bytes");
    veq!(<Limb as Encoding>::from_le_bytes(arr(&be)).0, limbs_from_le(&be, 1).unwrap()[0], "Limb: from_le_bytes of the reversed string");
    let (lo, up, bi) = (hex_lower(&be), hex_upper(&be), bin_text(&be));
    veq!(format!("{l:x}"), lo, "Limb LowerHex");
    veq!(format!("{l:X}"), up, "Limb UpperHex");
    veq!(format!("{l:b}"), bi, "Limb Binary");
    veq!(format!("{l}"), up, "Limb Display");
    veq!(format!("{l:#x}"), format!("0x{lo}"), "Limb LowerHex #");
    veq!(format!("{l:#X}"), format!("0x{up}"), "Limb UpperHex #");
    veq!(format!("{l:#b}"), format!("0b{bi}"), "Limb Binary #");
    if let Some(p) = NonZeroU8::new(a8) {
        veq!(NonZero::<Limb>::from_u8(p).get().0, a8 as u64, "NonZero<Limb>::from_u8");
        veq!(NonZero::<Limb>::from(p).get().0, a8 as u64, "NonZero<Limb>: From<NonZeroU8>");
    }
    if let Some(p) = NonZeroU16::new(a16) {
        veq!(NonZero::<Limb>::from_u16(p).get().0, a16 as u64, "NonZero<Limb>::from_u16");
        veq!(NonZero::<Limb>::from(p).get().0, a16 as u64, "NonZero<Limb>: From<NonZeroU16>");
    }
    if let Some(p) = NonZeroU32::new(a32) {
        veq!(NonZero::<Limb>::from_u32(p).get().0, a32 as u64, "NonZero<Limb>::from_u32");
        veq!(NonZero::<Limb>::from(p).get().0, a32 as u64, "NonZero<Limb>: From<NonZeroU32>");
    }
    if let Some(p) = NonZeroU64::new(a64) {
        veq!(NonZero::<Limb>::from_u64(p).get().0, a64, "NonZero<Limb>::from_u64");
        veq!(NonZero::<Limb>::from(p).get().0, a64, "NonZero<Limb>: From<NonZeroU64>");
    }

    // back to primitives
    veq!(u64::from(uint::<1>(&[a64])), a64, "u64: From<U64>");
    veq!(u128::from(uint::<2>(&[v as u64, (v >> 64) as u64])), v, "u128: From<U128>");
    veq!(i64::from(int::<1>(&[a64])), a64 as i64, "i64: From<I64>");
    veq!(i128::from(int::<2>(&[v as u64, (v >> 64) as u64])), v as i128, "i128: From<I128>");
    // and round trips through the aliases
    veq!(u64::from(U64::from(a64)), a64, "u64 -> U64 -> u64");
    veq!(u128::from(U128::from(v)), v, "u128 -> U128 -> u128");
    veq!(i64::from(I64::from(a64 as i64)), a64 as i64, "i64 -> I64 -> i64");
    veq!(i128::from(I128::from(v as i128)), v as i128, "i128 -> I128 -> i128");
    veq!(i128::from(I128::from(a64 as i64)), a64 as i64 as i128, "i64 -> I128 -> i128 (sign extension)");

    // BoxedUint from primitives: the value, in at least one limb
    let bx = |name: &str, b: BoxedUint, want: u128| -> CaseResult {
        vensure!(b.nlimbs() >= 1, "{name}: zero limbs");
        vensure!(bbig(&b) == num_bigint::BigUint::from(want), "{name}: got {}, want {want:#x}", hex(&bl(&b)));
        Ok(())
    };
    bx("BoxedUint: From<u8>", BoxedUint::from(a8), a8 as u128)?;
    bx("BoxedUint: From<u16>", BoxedUint::from(a16), a16 as u128)?;
    bx("BoxedUint: From<u32>", BoxedUint::from(a32), a32 as u128)?;
    bx("BoxedUint: From<u64>", BoxedUint::from(a64), a64 as u128)?;
    bx("BoxedUint: From<u128>", BoxedUint::from(v), v)?;
    bx("BoxedUint: From<Limb>", BoxedUint::from(Limb(a64)), a64 as u128)?;
    Ok(())
}

macro_rules! prims {
    ($v:ident, $q:expr; $($n:literal),*) => { $(
        $v.push(SubCheck::new(format!("prim/U{}+I{}", 64 * $n, 64 * $n), $q, prim_fixed::<$n>).tape(12));
    )* };
}

pub fn push(v: &mut Vec<SubCheck>, _ctx: &Ctx) {
    v.push(SubCheck::new("prim/limb+aliases+boxed", 40000, prim_misc).tape(12));
    prims!(v, 20000; 1, 2, 3, 4);
    prims!(v, 10000; 5, 6, 7, 8, 16, 32);
}
