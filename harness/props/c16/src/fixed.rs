//! Fixed-width `Uint<N>` / `Int<N>`: bytes, slices, arrays, words / limbs views, fmt, hex strings.

use crate::*;
use crypto_bigint::{ArrayDecoding, ArrayEncoding, BoxedUint, ByteArray, Encoding, Int, Limb, NonZero, Odd, Uint, Word};

/// Width-specific (macro-generated, not const-generic) API items.
#[derive(Clone, Copy)]
pub struct Inh<const N: usize> {
    pub to_be: fn(&Uint<N>) -> Vec<u8>,
    pub to_le: fn(&Uint<N>) -> Vec<u8>,
    pub array: Option<fn(&Uint<N>, &[u64], &[u8], &[u8]) -> CaseResult>,
}

fn repr<const N: usize>(b: &[u8]) -> <Uint<N> as Encoding>::Repr
where
    Uint<N>: Encoding,
{
    match <Uint<N> as Encoding>::Repr::try_from(b) {
        Ok(r) => r,
        Err(_) => panic!("harness: Repr has another size than {} bytes", b.len()),
    }
}

fn wrong_len(t: &mut Tape, nb: usize) -> usize {
    let l = match t.weighted(&[2, 2, 1, 1, 1, 2]) {
        0 => nb - 1,
        1 => nb + 1,
        2 => nb - 8,
        3 => nb + 8,
        4 => 0,
        _ => t.usize_in(0, nb + 9),
    };
    if l == nb {
        nb + 1
    } else {
        l
    }
}

pub fn fixed_bytes<const N: usize>(t: &mut Tape, c: &mut Case, inh: &Inh<N>) -> CaseResult
where
    Uint<N>: Encoding,
{
    let nb = 8 * N;
    let xl = value(t, N);
    c.limbs("x", &xl);
    let le = le_bytes_of(&xl);
    let be = be_bytes_of(&xl);
    let asym = be != le;
    c.nontrivial(asym);
    c.label(if asym { "bytes: BE != LE" } else { "bytes: palindromic" });
    let x = uint::<N>(&xl);
    // the byte-reversed value: what decoding the other endianness must give
    let rl = limbs_from_le(&be, N).unwrap();

    // ---- encoders
    veq!(Encoding::to_be_bytes(&x).as_ref().to_vec(), be, "Encoding::to_be_bytes (U{})", 64 * N);
    veq!(Encoding::to_le_bytes(&x).as_ref().to_vec(), le, "Encoding::to_le_bytes (U{})", 64 * N);
    veq!((inh.to_be)(&x), be, "Uint::to_be_bytes (inherent, U{})", 64 * N);
    veq!((inh.to_le)(&x), le, "Uint::to_le_bytes (inherent, U{})", 64 * N);

    // ---- decoders, exact size
    veq!(ul(&<Uint<N> as Encoding>::from_be_bytes(repr::<N>(&be))), xl, "Encoding::from_be_bytes");
    veq!(ul(&<Uint<N> as Encoding>::from_le_bytes(repr::<N>(&le))), xl, "Encoding::from_le_bytes");
    veq!(ul(&<Uint<N> as Encoding>::from_be_bytes(repr::<N>(&le))), rl, "Encoding::from_be_bytes of the reversed string");
    veq!(ul(&<Uint<N> as Encoding>::from_le_bytes(repr::<N>(&be))), rl, "Encoding::from_le_bytes of the reversed string");
    veq!(ul(&total("from_be_slice", || Uint::<N>::from_be_slice(&be))?), xl, "Uint::from_be_slice");
    veq!(ul(&total("from_le_slice", || Uint::<N>::from_le_slice(&le))?), xl, "Uint::from_le_slice");
    veq!(ul(&total("from_be_slice", || Uint::<N>::from_be_slice(&le))?), rl, "Uint::from_be_slice of the reversed string");
    veq!(ul(&total("from_le_slice", || Uint::<N>::from_le_slice(&be))?), rl, "Uint::from_le_slice of the reversed string");

    // ---- decoders, wrong size: a slice of another length is not an encoding of a U{64N}; it must be
    // refused (the functions return Self, so refusing means the "expected size" assertion)
    let wl = wrong_len(t, nb);
    c.num("wrong_len", wl as u64);
    let mut wb = be.clone();
    wb.resize(wl, 0);
    if let Ok(v) = guard(|| Uint::<N>::from_be_slice(&wb)) {
        vfail!("Uint::<{N}>::from_be_slice accepted {} bytes and returned {}", wl, hex(&ul(&v)));
    }
    if let Ok(v) = guard(|| Uint::<N>::from_le_slice(&wb)) {
        vfail!("Uint::<{N}>::from_le_slice accepted {} bytes and returned {}", wl, hex(&ul(&v)));
    }

    // ---- NonZero decoders
    let nz = !is_zero(&xl);
    let r = NonZero::<Uint<N>>::from_be_bytes(repr::<N>(&be));
    veq!(bool::from(r.is_some()), nz, "NonZero::from_be_bytes is_some");
    if nz {
        veq!(ul(&r.unwrap().get()), xl, "NonZero::from_be_bytes value");
    }
    let r = NonZero::<Uint<N>>::from_le_bytes(repr::<N>(&le));
    veq!(bool::from(r.is_some()), nz, "NonZero::from_le_bytes is_some");
    if nz {
        veq!(ul(&r.unwrap().get()), xl, "NonZero::from_le_bytes value");
    }
    if nz {
        let r = NonZero::<Uint<N>>::from_le_bytes(repr::<N>(&be));
        veq!(ul(&r.unwrap().get()), rl, "NonZero::from_le_bytes of the reversed string");
    }

    if nz {
        // NonZero formats as the inner value
        let n = NonZero::new(x).unwrap();
        veq!(format!("{n:x}|{n:X}|{n:b}|{n}"), format!("{}|{}|{}|{}", hex_lower(&be), hex_upper(&be), bin_text(&be), hex_upper(&be)), "NonZero<Uint> LowerHex|UpperHex|Binary|Display");
    }

    // ---- hybrid-array forms (widths that have them)
    if let Some(f) = inh.array {
        f(&x, &xl, &be, &le)?;
    }

    // ---- words / limbs
    let mut w = [0 as Word; N];
    w.copy_from_slice(&xl);
    let lim: [Limb; N] = core::array::from_fn(|i| Limb(xl[i]));
    veq!(x.to_words().to_vec(), xl, "to_words");
    veq!(x.as_words().to_vec(), xl, "as_words");
    veq!(x.as_limbs().iter().map(|l| l.0).collect::<Vec<_>>(), xl, "as_limbs");
    veq!(x.to_limbs().iter().map(|l| l.0).collect::<Vec<_>>(), xl, "to_limbs");
    veq!(ul(&Uint::<N>::new(lim)), xl, "Uint::new");
    veq!(ul(&Uint::<N>::from(w)), xl, "From<[Word; N]>");
    veq!(ul(&Uint::<N>::from(lim)), xl, "From<[Limb; N]>");
    veq!(<[Word; N]>::from(x).to_vec(), xl, "Into<[Word; N]>");
    veq!(<[Limb; N]>::from(x).iter().map(|l| l.0).collect::<Vec<_>>(), xl, "Into<[Limb; N]>");
    veq!(AsRef::<[Word; N]>::as_ref(&x).to_vec(), xl, "AsRef<[Word; N]>");
    veq!(AsRef::<[Limb]>::as_ref(&x).iter().map(|l| l.0).collect::<Vec<_>>(), xl, "AsRef<[Limb]>");
    // mutable views write through, positionally
    let i = t.index(N);
    let nw = gen::word(t);
    c.num("i", i as u64);
    c.num("new_word", nw);
    let mut want = xl.clone();
    want[i] = nw;
    let mut y = x;
    y.as_words_mut()[i] = nw;
    veq!(ul(&y), want, "as_words_mut()[{i}] = w");
    let mut y = x;
    y.as_limbs_mut()[i] = Limb(nw);
    veq!(ul(&y), want, "as_limbs_mut()[{i}] = w");
    let mut y = x;
    AsMut::<[Word; N]>::as_mut(&mut y)[i] = nw;
    veq!(ul(&y), want, "AsMut<[Word; N]>");
    let mut y = x;
    AsMut::<[Limb]>::as_mut(&mut y)[i] = Limb(nw);
    veq!(ul(&y), want, "AsMut<[Limb]>");

    // ---- Int views of the same bits
    let xi = Int::<N>::from_words(w);
    veq!(xi.to_words().to_vec(), xl, "Int::from_words/to_words");
    veq!(xi.as_words().to_vec(), xl, "Int::as_words");
    veq!(xi.as_limbs().iter().map(|l| l.0).collect::<Vec<_>>(), xl, "Int::as_limbs");
    veq!(xi.to_limbs().iter().map(|l| l.0).collect::<Vec<_>>(), xl, "Int::to_limbs");
    veq!(il(&Int::<N>::new(lim)), xl, "Int::new");
    veq!(ul(xi.as_uint()), xl, "Int::as_uint");
    veq!(il(&x.as_int()), xl, "Uint::as_int");
    let mut yi = xi;
    yi.as_words_mut()[i] = nw;
    veq!(il(&yi), want, "Int::as_words_mut");
    let mut yi = xi;
    yi.as_limbs_mut()[i] = Limb(nw);
    veq!(il(&yi), want, "Int::as_limbs_mut");

    // ---- boxed from fixed
    let b = BoxedUint::from(x);
    veq!(bl(&b), xl, "BoxedUint::from(Uint)");
    veq!(bl(&BoxedUint::from(&x)), xl, "BoxedUint::from(&Uint)");
    if xl[0] & 1 == 1 {
        let o = Odd::new(x).unwrap();
        veq!(bl(&BoxedUint::from(o)), xl, "BoxedUint::from(Odd<Uint>)");
        veq!(bl(&BoxedUint::from(&o)), xl, "BoxedUint::from(&Odd<Uint>)");
        veq!(bl(&Odd::<BoxedUint>::from(o).get()), xl, "Odd<BoxedUint>::from(Odd<Uint>)");
        veq!(bl(&Odd::<BoxedUint>::from(&o).get()), xl, "Odd<BoxedUint>::from(&Odd<Uint>)");
    }

    // ---- fmt
    let (lo, up, bi) = (hex_lower(&be), hex_upper(&be), bin_text(&be));
    veq!(format!("{x:x}"), lo, "LowerHex");
    veq!(format!("{x:X}"), up, "UpperHex");
    veq!(format!("{x:b}"), bi, "Binary");
    veq!(format!("{x}"), up, "Display");
    veq!(format!("{x:#x}"), format!("0x{lo}"), "LowerHex #");
    veq!(format!("{x:#X}"), format!("0x{up}"), "UpperHex #");
    veq!(format!("{x:#b}"), format!("0b{bi}"), "Binary #");
    veq!(format!("{xi:x}"), lo, "Int LowerHex");
    veq!(format!("{xi:X}"), up, "Int UpperHex");
    veq!(format!("{xi:b}"), bi, "Int Binary");
    veq!(format!("{xi}"), up, "Int Display");
    veq!(format!("{xi:#x}"), format!("0x{lo}"), "Int LowerHex #");
    veq!(format!("{xi:#X}"), format!("0x{up}"), "Int UpperHex #");
    veq!(format!("{xi:#b}"), format!("0b{bi}"), "Int Binary #");
    // formatted output is accepted back by the hex decoders
    veq!(ul(&total("from_be_hex", || Uint::<N>::from_be_hex(&lo))?), xl, "from_be_hex(format!(\"{{:x}}\"))");
    veq!(ul(&total("from_be_hex", || Uint::<N>::from_be_hex(&up))?), xl, "from_be_hex(format!(\"{{:X}}\"))");
    veq!(ul(&total("from_le_hex", || Uint::<N>::from_le_hex(&hex_lower(&le)))?), xl, "from_le_hex(hex(le bytes))");
    Ok(())
}

pub fn array_checks<const N: usize>(x: &Uint<N>, xl: &[u64], be: &[u8], le: &[u8]) -> CaseResult
where
    Uint<N>: ArrayEncoding,
    ByteArray<Uint<N>>: ArrayDecoding<Output = Uint<N>>,
{
    let arr = |b: &[u8]| ByteArray::<Uint<N>>::try_from(b).expect("harness: byte array size");
    let rl = limbs_from_le(be, N).unwrap();
    veq!(x.to_be_byte_array().to_vec(), be.to_vec(), "ArrayEncoding::to_be_byte_array");
    veq!(x.to_le_byte_array().to_vec(), le.to_vec(), "ArrayEncoding::to_le_byte_array");
    veq!(ul(&Uint::<N>::from_be_byte_array(arr(be))), xl, "ArrayEncoding::from_be_byte_array");
    veq!(ul(&Uint::<N>::from_le_byte_array(arr(le))), xl, "ArrayEncoding::from_le_byte_array");
    veq!(ul(&Uint::<N>::from_be_byte_array(arr(le))), rl, "ArrayEncoding::from_be_byte_array of the reversed string");
    veq!(ul(&Uint::<N>::from_le_byte_array(arr(be))), rl, "ArrayEncoding::from_le_byte_array of the reversed string");
    veq!(ul(&arr(be).into_uint_be()), xl, "ArrayDecoding::into_uint_be");
    veq!(ul(&arr(le).into_uint_le()), xl, "ArrayDecoding::into_uint_le");
    veq!(ul(&arr(be).into_uint_le()), rl, "ArrayDecoding::into_uint_le of the reversed string");
    let nz = !is_zero(xl);
    let r = NonZero::<Uint<N>>::from_be_byte_array(arr(be));
    veq!(bool::from(r.is_some()), nz, "NonZero::from_be_byte_array is_some");
    if nz {
        veq!(ul(&r.unwrap().get()), xl, "NonZero::from_be_byte_array value");
    }
    let r = NonZero::<Uint<N>>::from_le_byte_array(arr(le));
    veq!(bool::from(r.is_some()), nz, "NonZero::from_le_byte_array is_some");
    if nz {
        let got = ul(&r.unwrap().get());
        if got != xl {
            // F-12c: decoded the little-endian array as big endian
            if got == rl {
                return Err(Fail::known("F-12c", format!("NonZero::<U{}>::from_le_byte_array({}) = {} (the big-endian reading), want {}", 64 * N, hex_lower(le), hex(&got), hex(xl))));
            }
            vfail!("NonZero::from_le_byte_array: got {}, want {}", hex(&got), hex(xl));
        }
    }
    Ok(())
}

// ------------------------------------------------------------------------------------------------
// hex strings

pub fn fixed_hex<const N: usize>(t: &mut Tape, c: &mut Case) -> CaseResult {
    let nb = 8 * N;
    let xl = value(t, N);
    let be = be_bytes_of(&xl);
    let ht = hex_text(t, &be);
    let s = ht.text.as_str();
    c.text("hex", s);
    c.label(ht.kind);
    // oracle from the final string only
    let dec = hex_decode_exact(s, nb);
    let valid = dec.is_some();
    c.label(if valid { "hex: must be accepted" } else { "hex: must be rejected" });
    if s.bytes().any(|b| b >= 0x80) {
        c.label("hex: contains bytes >= 0x80");
    }
    if valid {
        if s.bytes().any(|b| b.is_ascii_uppercase()) && s.bytes().any(|b| b.is_ascii_lowercase()) {
            c.label("hex: mixed case");
        }
    }
    c.nontrivial((valid && asymmetric(&xl)) || one_neighbour(s, 2 * nb));
    let want_be = dec.as_ref().map(|b| limbs_from_be(b, N).unwrap());
    let want_le = dec.as_ref().map(|b| limbs_from_le(b, N).unwrap());

    let chk = |name: &str, got: Result<Limbs, String>, want: &Option<Limbs>| -> CaseResult {
        match (got, want) {
            (Ok(g), Some(w)) => {
                vensure!(&g == w, "{name}({s:?}): got {}, want {}", hex(&g), hex(w));
            }
            (Ok(g), None) => vfail!("{name}({s:?}) accepted a malformed string and returned {}", hex(&g)),
            (Err(m), Some(w)) => vfail!("{name}({s:?}) panicked ({m}) on a well-formed string of value {}", hex(w)),
            (Err(_), None) => {}
        }
        Ok(())
    };
    chk("Uint::from_be_hex", guard(|| ul(&Uint::<N>::from_be_hex(s))), &want_be)?;
    chk("Uint::from_le_hex", guard(|| ul(&Uint::<N>::from_le_hex(s))), &want_le)?;
    chk("Int::from_be_hex", guard(|| il(&Int::<N>::from_be_hex(s))), &want_be)?;
    // Odd: additionally panics if the value is even
    let odd_of = |w: &Option<Limbs>| w.clone().filter(|l| l[0] & 1 == 1);
    chk("Odd::from_be_hex", guard(|| ul(&Odd::<Uint<N>>::from_be_hex(s).get())), &odd_of(&want_be))?;
    let got = guard(|| ul(&Odd::<Uint<N>>::from_le_hex(s).get()));
    let want = odd_of(&want_le);
    if got.clone().ok() != want {
        // F-12b: parsed as big endian (value and the oddness test both taken from the BE reading)
        if valid && got.clone().ok() == odd_of(&want_be) {
            return Err(Fail::known("F-12b", format!("Odd::<U{}>::from_le_hex({s:?}) behaved as from_be_hex: got {:?}, want {:?}", 64 * N, got.ok().map(|g| hex(&g)), want.map(|w| hex(&w)))));
        }
    }
    chk("Odd::from_le_hex", got, &want)?;
    Ok(())
}

// ------------------------------------------------------------------------------------------------

macro_rules! inh {
    ($n:literal, array) => {
        Inh::<$n> { to_be: |x| x.to_be_bytes().to_vec(), to_le: |x| x.to_le_bytes().to_vec(), array: Some(array_checks::<$n>) }
    };
    ($n:literal, noarray) => {
        Inh::<$n> { to_be: |x| x.to_be_bytes().to_vec(), to_le: |x| x.to_le_bytes().to_vec(), array: None }
    };
}

macro_rules! widths {
    ($v:ident, $qb:expr, $qh:expr; $(($n:literal, $arr:ident)),*) => { $(
        {
            let inh = inh!($n, $arr);
            $v.push(SubCheck::new(format!("fixed/bytes+words+fmt/U{}", 64 * $n), $qb, move |t: &mut Tape, c: &mut Case| fixed_bytes::<$n>(t, c, &inh)).tape(24 + 3 * $n));
            $v.push(SubCheck::new(format!("fixed/hex/U{}", 64 * $n), $qh, fixed_hex::<$n>).tape(32 + 3 * $n));
        }
    )* };
}

pub fn push(v: &mut Vec<SubCheck>, _ctx: &Ctx) {
    widths!(v, 40000, 40000; (1, array), (2, array), (3, array), (4, array));
    widths!(v, 25000, 25000; (5, noarray), (6, array), (7, array), (8, array));
    widths!(v, 12000, 12000; (16, array));
    widths!(v, 6000, 6000; (32, array));
}
