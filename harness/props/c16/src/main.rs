fn main() {
    vmodel::cli_main(c16::spec())
}
