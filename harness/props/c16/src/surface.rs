//! API-surface audit (see /verif/audit/F.md): instantiation families of the conversion / encoding
//! items that the other modules of this crate do not reach.
//!
//! * `impl_uint_aliases!` generates `Encoding`, the inherent `to_be_bytes` / `to_le_bytes` (and thereby
//!   serde) separately for every alias: the core sizes U576..U960, U1280..U32768 and the ~100
//!   `extra-sizes` aliases were never instantiated here (only 1..=8, 16, 32 limbs). A table of widths
//!   runs the *existing* case functions (`fixed_bytes`, `fixed_hex`, `serde_fixed`, `prim_fixed`) at
//!   9..=15, 17..=24 (incl. extra-size aliases), 28, 33, 48, 56, 64, 66, 68, 96, 127, 128, 256, 512 limbs.
//! * `impl_uint_concat_split_even!` of the `extra-sizes` module (halves of 9, 11, 13, … 63 limbs) and
//!   U16384 = 2 x U8192 (quick tier): inherent `concat` / `split`, the `Concat` / `Split` /
//!   `ConcatMixed` / `SplitMixed` trait routes and the tuple `From` impls (`cs_even`).
//! * serde of the single-limb wrappers `Wrapping<Limb>` (JSON), `Checked<Limb>` and of a three-limb
//!   `ConstMontyForm`.
//!
//! Oracles and non-triviality rules are those of the reused case functions (positional formula).

use crate::cs::{cs_case, cs_even, Mono};
use crate::fixed::{array_checks, fixed_bytes, fixed_hex, Inh};
use crate::prim::prim_fixed;
use crate::serde_checks::{bin, json, monty_case, serde_fixed, unbin, unjson};
use crate::*;
use crypto_bigint::{impl_modulus, Checked, Encoding, Limb, Uint, Wrapping, U192};

type Entry = (usize, Box<dyn Fn(&mut Tape, &mut Case) -> CaseResult + Send + Sync>);

/// every per-width form family on one value / string of the width
fn forms<const N: usize>(t: &mut Tape, c: &mut Case, inh: &Inh<N>) -> CaseResult
where
    Uint<N>: Encoding,
{
    c.num("limbs", N as u64);
    match t.weighted(&[4, 2, 2, 1]) {
        0 => {
            c.label("surface form: bytes + words + fmt (Encoding, inherent, slices, views)");
            fixed_bytes::<N>(t, c, inh)
        }
        1 => {
            c.label("surface form: hex strings");
            fixed_hex::<N>(t, c)
        }
        2 => {
            c.label("surface form: serde (bincode + JSON, wrappers)");
            serde_fixed::<N>(t, c)
        }
        _ => {
            c.label("surface form: primitives");
            prim_fixed::<N>(t, c)
        }
    }
}

macro_rules! entry {
    ($tab:ident; $(($n:literal, array)),*) => { $(
        {
            let inh = Inh::<$n> { to_be: |x| x.to_be_bytes().to_vec(), to_le: |x| x.to_le_bytes().to_vec(), array: Some(array_checks::<$n>) };
            $tab.push(($n, Box::new(move |t: &mut Tape, c: &mut Case| forms::<$n>(t, c, &inh))));
        }
    )* };
    ($tab:ident; $(($n:literal, noarray)),*) => { $(
        {
            let inh = Inh::<$n> { to_be: |x| x.to_be_bytes().to_vec(), to_le: |x| x.to_le_bytes().to_vec(), array: None };
            $tab.push(($n, Box::new(move |t: &mut Tape, c: &mut Case| forms::<$n>(t, c, &inh))));
        }
    )* };
}

fn width_table_case(table: Vec<Entry>) -> impl Fn(&mut Tape, &mut Case) -> CaseResult {
    move |t, c| {
        let (n, f) = &table[t.index(table.len())];
        c.label(format!("surface width: {n} limbs"));
        f(t, c)
    }
}

// ------------------------------------------------------------------------------------------------
// serde of the single-limb wrappers (C16: "serde encodings ... are mutually inverse")

fn serde_limb_wrappers(t: &mut Tape, c: &mut Case) -> CaseResult {
    let w = gen::word(t);
    c.num("w", w);
    c.nontrivial(asymmetric(&[w]));
    let l = Limb(w);
    let wr = Wrapping(l);
    veq!(unjson::<Wrapping<Limb>>("Wrapping<Limb>", &json("Wrapping<Limb>", &wr)?)?.0 .0, w, "Wrapping<Limb> JSON round trip");
    // the wrapper adds nothing to the wire form of the inner limb (Serialize delegates)
    veq!(bin("Wrapping<Limb>", &wr)?, bin("Limb", &l)?, "bincode(Wrapping<Limb>) == bincode(Limb)");
    veq!(json("Wrapping<Limb>", &wr)?, json("Limb", &l)?, "JSON(Wrapping<Limb>) == JSON(Limb)");
    let some = Checked::new(l);
    let r: Checked<Limb> = unbin("Checked<Limb>", &bin("Checked<Limb>", &some)?)?;
    veq!(Option::<Limb>::from(r.0).map(|v| v.0), Some(w), "Checked<Limb>(some) bincode round trip");
    let r: Checked<Limb> = unjson("Checked<Limb>", &json("Checked<Limb>", &some)?)?;
    veq!(Option::<Limb>::from(r.0).map(|v| v.0), Some(w), "Checked<Limb>(some) JSON round trip");
    let none = Checked::<Limb>(subtle::CtOption::new(l, 0.into()));
    let r: Checked<Limb> = unbin("Checked<Limb>", &bin("Checked<Limb>", &none)?)?;
    vensure!(!bool::from(r.0.is_some()), "Checked<Limb>(none) bincode round trip became some");
    let r: Checked<Limb> = unjson("Checked<Limb>", &json("Checked<Limb>", &none)?)?;
    vensure!(!bool::from(r.0.is_some()), "Checked<Limb>(none) JSON round trip became some");
    Ok(())
}

impl_modulus!(M192, U192, "fffffffffffffffffffffffffffffffeffffffffffffffff");

// ------------------------------------------------------------------------------------------------

macro_rules! even_list {
    ($c:ident; $($l:literal),*) => { $( $c.push(($l, $l, cs_even::<$l, { 2 * $l }> as Mono)); )* };
}

pub fn subchecks(_ctx: &Ctx) -> Vec<SubCheck> {
    let mut v = vec![];

    let mut tab: Vec<Entry> = vec![];
    entry!(tab; (9, array), (12, array), (13, array), (14, array), (24, array));
    entry!(tab; (10, noarray), (11, noarray), (15, noarray), (17, noarray), (18, noarray), (19, noarray), (20, noarray), (21, noarray), (22, noarray), (23, noarray));
    v.push(SubCheck::new("surface/alias-forms/U576..U1536", 40_000, width_table_case(tab)).tape(48 + 3 * 24).thorough(10));

    let mut tab: Vec<Entry> = vec![];
    entry!(tab; (28, array), (48, array), (56, array), (64, array), (96, array), (128, array));
    entry!(tab; (33, noarray), (66, noarray), (68, noarray), (127, noarray));
    v.push(SubCheck::new("surface/alias-forms/U1792..U8192", 6_000, width_table_case(tab)).tape(48 + 3 * 128).thorough(10));

    let mut tab: Vec<Entry> = vec![];
    entry!(tab; (256, noarray), (512, noarray));
    v.push(SubCheck::new("surface/alias-forms/U16384+U32768", 400, width_table_case(tab)).tape(48 + 3 * 512).thorough(5));

    // impl_uint_concat_split_even! invocations of src/uint/extra_sizes.rs (halves), and U16384
    let mut ev: Vec<(usize, usize, Mono)> = vec![];
    even_list!(ev; 9, 11, 13, 15, 17, 18, 19, 20, 21, 22, 23, 25, 26, 27, 29, 30, 31);
    v.push(SubCheck::new("surface/concat+split/even/extra-sizes/U1152..U3968", 8_000, cs_case(ev)).tape(24 + 6 * 62).thorough(10));
    let mut ev: Vec<(usize, usize, Mono)> = vec![];
    even_list!(ev; 35, 36, 37, 38, 39, 40, 41, 42, 43, 44, 45, 46, 47, 49, 50, 51, 52, 53, 54, 55, 56, 57, 58, 59, 60, 61, 62, 63);
    v.push(SubCheck::new("surface/concat+split/even/extra-sizes/U4480..U8064", 4_000, cs_case(ev)).tape(24 + 6 * 126).thorough(10));
    let mut ev: Vec<(usize, usize, Mono)> = vec![];
    even_list!(ev; 128);
    v.push(SubCheck::new("surface/concat+split/even/U16384", 300, cs_case(ev)).tape(24 + 6 * 256).thorough(5));

    v.push(SubCheck::new("surface/serde/limb-wrappers", 20_000, serde_limb_wrappers).tape(8).thorough(10));
    v.push(SubCheck::new("surface/serde/const-monty/U192", 8_000, monty_case::<3, M192>("fffffffffffffffffffffffffffffffeffffffffffffffff")).tape(24).thorough(10));
    v
}
