//! Deserialization of NonZero / Odd (serde: bincode = binary, serde_json = human readable / hex).
//!
//! Reference: the inner type's own `Deserialize` decides which encodings parse and to what value
//! (format questions are C16's); the wrapper must accept exactly the parses whose value is valid and
//! hold that value, and reject everything else.

use crate::*;
use crypto_bigint::Encoding;
use serde::de::DeserializeOwned;

#[derive(Clone, Debug)]
enum Enc {
    Bin(Vec<u8>),
    Json(String),
}

fn parse<T: DeserializeOwned>(e: &Enc, reader: bool) -> Option<T> {
    // a panic while decoding is a failure to produce a value, like an error
    match e {
        Enc::Bin(b) => {
            // the configuration of `bincode::deserialize` plus a size limit: a garbage length prefix
            // must be an error inside bincode, not a multi-exabyte allocation that aborts the process
            use bincode::Options;
            let opts = || bincode::DefaultOptions::new().with_fixint_encoding().allow_trailing_bytes().with_limit(1 << 20);
            if reader {
                guard(|| opts().deserialize_from::<_, T>(b.as_slice()).ok()).ok().flatten()
            } else {
                guard(|| opts().deserialize::<T>(b).ok()).ok().flatten()
            }
        }
        Enc::Json(s) => guard(|| serde_json::from_str::<T>(s).ok()).ok().flatten(),
    }
}

/// `Deserialize::deserialize_in_place` into a live, valid wrapper (what `Vec<T>` / tuple / struct
/// field decoding with reused storage does): whatever the outcome, the wrapper must still be valid
/// afterwards; on success it holds the decoded value.
fn in_place<T>(what: &str, e: &Enc, place: &mut T) -> Result<bool, Fail>
where
    T: DeserializeOwned,
{
    use bincode::Options;
    let r = guard(|| match e {
        Enc::Bin(b) => {
            let opts = bincode::DefaultOptions::new().with_fixint_encoding().allow_trailing_bytes().with_limit(1 << 20);
            let mut de = bincode::Deserializer::from_slice(b, opts);
            serde::Deserialize::deserialize_in_place(&mut de, place).is_ok()
        }
        Enc::Json(s) => {
            let mut de = serde_json::Deserializer::from_str(s);
            serde::Deserialize::deserialize_in_place(&mut de, place).is_ok()
        }
    });
    match r {
        Ok(ok) => Ok(ok),
        // a panic while decoding: no value produced; the place is still inspected by the caller
        Err(_) => {
            let _ = what;
            Ok(false)
        }
    }
}

/// `framed`: the wire form of the payload carries a u64 length prefix (serdect writes byte arrays
/// through `serialize_bytes`; a Limb is a bare u64).
fn mangle_bin(t: &mut Tape, c: &mut Case, payload: Vec<u8>, framed: bool) -> Vec<u8> {
    let frame = |p: &[u8], len: u64| {
        let mut v = len.to_le_bytes().to_vec();
        v.extend_from_slice(p);
        v
    };
    let good = if framed { frame(&payload, payload.len() as u64) } else { payload.clone() };
    let bad = |c: &mut Case, l: &'static str| {
        c.label(l);
        c.nontrivial(true);
    };
    match t.weighted(&[8, 1, 1, 1, 1, 1, 1, 1, 1]) {
        0 => good,
        1 => {
            bad(c, "serde/bin: one byte short");
            good[..good.len() - 1].to_vec()
        }
        2 => {
            bad(c, "serde/bin: empty");
            vec![]
        }
        3 => {
            bad(c, "serde/bin: trailing byte");
            let mut b = good;
            b.push(t.pick(&[0u8, 1, 0xff]));
            b
        }
        4 => {
            bad(c, "serde/bin: framing swapped (prefix dropped / added)");
            if framed {
                payload
            } else {
                frame(&payload, payload.len() as u64)
            }
        }
        5 => {
            bad(c, "serde/bin: half length");
            good[..good.len() / 2].to_vec()
        }
        6 => {
            bad(c, "serde/bin: well-framed, one byte shorter");
            let p = &payload[..payload.len() - 1];
            if framed {
                frame(p, p.len() as u64)
            } else {
                p.to_vec()
            }
        }
        7 => {
            bad(c, "serde/bin: well-framed, one byte longer");
            let mut p = payload.clone();
            p.push(t.pick(&[0u8, 1]));
            if framed {
                frame(&p, p.len() as u64)
            } else {
                p
            }
        }
        _ => {
            bad(c, "serde/bin: huge length prefix");
            frame(&payload, t.pick(&[u64::MAX, 1 << 40, (payload.len() as u64) << 32]))
        }
    }
}

fn mangle_hex(t: &mut Tape, c: &mut Case, s: String) -> String {
    match t.weighted(&[6, 1, 1, 1, 1, 1, 1]) {
        0 => format!("\"{s}\""),
        1 => {
            c.label("serde/json: upper-case hex");
            format!("\"{}\"", s.to_uppercase())
        }
        2 => {
            c.label("serde/json: two characters short");
            c.nontrivial(true);
            format!("\"{}\"", &s[..s.len().saturating_sub(2)])
        }
        3 => {
            c.label("serde/json: two characters long");
            c.nontrivial(true);
            format!("\"{s}00\"")
        }
        4 => {
            c.label("serde/json: invalid character");
            c.nontrivial(true);
            let mut b = s.into_bytes();
            if !b.is_empty() {
                let i = t.index(b.len());
                b[i] = t.pick(b"gxz -");
            }
            format!("\"{}\"", String::from_utf8(b).unwrap())
        }
        5 => {
            c.label("serde/json: not a string");
            c.nontrivial(true);
            t.pick(&["0", "1", "null", "[]", "[1]", "true", "{}"]).to_string()
        }
        _ => {
            c.label("serde/json: empty string");
            c.nontrivial(true);
            "\"\"".to_string()
        }
    }
}

pub fn uint_serde_case<const N: usize, const B: usize>(t: &mut Tape, c: &mut Case) -> CaseResult
where
    Uint<N>: Encoding<Repr = [u8; B]>,
{
    let al = value(t, N);
    let xl = valid_nz(t, N);
    let pl = valid_odd(t, N);
    c.limbs("a", &al);
    c.limbs("x", &xl);
    c.limbs("p", &pl);
    classify(c, &al, true);
    // the value's bytes in either order: one of them is the wire order, the other reads as the
    // byte-reversed value (exercises zero / parity asymmetry)
    let base = if t.chance(1, 4) { be_bytes(&al) } else { le_bytes(&al) };
    let enc = if t.bool() {
        let b = mangle_bin(t, c, base, true);
        c.bytes("bincode", &b);
        Enc::Bin(b)
    } else {
        let s = mangle_hex(t, c, hex_lower(&base));
        c.text("json", &s);
        Enc::Json(s)
    };
    let kind = if matches!(enc, Enc::Bin(_)) { "bincode" } else { "json" };
    let inner: Option<Uint<N>> = parse(&enc, false);
    let (nz_ok, odd_ok, want) = match &inner {
        Some(u) => {
            let w = u.as_words().to_vec();
            c.label(format!(
                "serde/{kind}: inner parses, {}",
                if is_zero(&w) {
                    "zero"
                } else if w[0] & 1 == 0 {
                    "even non-zero"
                } else {
                    "odd"
                }
            ));
            c.nontrivial(w[0] & 1 == 0);
            (!is_zero(&w), w[0] & 1 == 1, w)
        }
        None => {
            c.label(format!("serde/{kind}: inner rejects"));
            (false, false, vec![])
        }
    };
    expect_nz(&format!("{kind} deserialize::<NonZero<Uint>>"), parse::<NonZero<Uint<N>>>(&enc, false), nz_ok, &want)?;
    expect_odd(&format!("{kind} deserialize::<Odd<Uint>>"), parse::<Odd<Uint<N>>>(&enc, false), odd_ok, &want)?;
    if matches!(enc, Enc::Bin(_)) {
        expect_nz("bincode deserialize_from::<NonZero<Uint>>", parse::<NonZero<Uint<N>>>(&enc, true), nz_ok, &want)?;
        expect_odd("bincode deserialize_from::<Odd<Uint>>", parse::<Odd<Uint<N>>>(&enc, true), odd_ok, &want)?;
    }

    // round trips of valid wrappers (Serialize delegates to the inner value)
    let x = total("NonZero::new(valid)", || NonZero::new(uint::<N>(&xl)).unwrap())?;
    let p = total("Odd::new(valid)", || Odd::new(uint::<N>(&pl)).unwrap())?;
    // the same encoding decoded *in place* over a live valid wrapper
    {
        let mut place = x;
        let ok = in_place(&format!("{kind} deserialize_in_place::<NonZero<Uint>>"), &enc, &mut place)?;
        inv_nz(&format!("{kind} deserialize_in_place::<NonZero<Uint>> (place after the call, success = {ok})"), &place)?;
        veq!(ok, nz_ok, "{kind} deserialize_in_place::<NonZero<Uint>>: success");
        if ok {
            veq!((*place).words(), want.clone(), "{kind} deserialize_in_place::<NonZero<Uint>>: value");
        }
        let mut place = p;
        let ok = in_place(&format!("{kind} deserialize_in_place::<Odd<Uint>>"), &enc, &mut place)?;
        inv_odd(&format!("{kind} deserialize_in_place::<Odd<Uint>> (place after the call, success = {ok})"), &place)?;
        veq!(ok, odd_ok, "{kind} deserialize_in_place::<Odd<Uint>>: success");
        if ok {
            veq!((*place).words(), want.clone(), "{kind} deserialize_in_place::<Odd<Uint>>: value");
        }
        // containers that reuse storage: Vec<T>::deserialize_in_place over a vector of valid wrappers
        let mut places = vec![x, x];
        let two = match &enc {
            Enc::Bin(b) => {
                let mut v = 2u64.to_le_bytes().to_vec();
                v.extend_from_slice(b);
                v.extend_from_slice(b);
                Enc::Bin(v)
            }
            Enc::Json(s) => Enc::Json(format!("[{s},{s}]")),
        };
        let _ = in_place("deserialize_in_place::<Vec<NonZero<Uint>>>", &two, &mut places)?;
        for q in places.iter() {
            inv_nz(&format!("{kind} deserialize_in_place::<Vec<NonZero<Uint>>> (element after the call)"), q)?;
        }
    }
    let bx = total("bincode::serialize(NonZero)", || bincode::serialize(&x).unwrap())?;
    expect_nz("bincode round trip NonZero<Uint>", parse::<NonZero<Uint<N>>>(&Enc::Bin(bx), false), true, &xl)?;
    let bp = total("bincode::serialize(Odd)", || bincode::serialize(&p).unwrap())?;
    expect_odd("bincode round trip Odd<Uint>", parse::<Odd<Uint<N>>>(&Enc::Bin(bp.clone()), false), true, &pl)?;
    expect_nz("bincode: an Odd encoding read as NonZero", parse::<NonZero<Uint<N>>>(&Enc::Bin(bp), false), true, &pl)?;
    let jx = total("serde_json::to_string(NonZero)", || serde_json::to_string(&x).unwrap())?;
    expect_nz("json round trip NonZero<Uint>", parse::<NonZero<Uint<N>>>(&Enc::Json(jx), false), true, &xl)?;
    let jp = total("serde_json::to_string(Odd)", || serde_json::to_string(&p).unwrap())?;
    expect_odd("json round trip Odd<Uint>", parse::<Odd<Uint<N>>>(&Enc::Json(jp), false), true, &pl)?;
    // the encoding of zero / of an even value, produced by the inner type's own serializer
    let z = bincode::serialize(&Uint::<N>::ZERO).unwrap();
    expect_nz("bincode: encoding of zero as NonZero", parse::<NonZero<Uint<N>>>(&Enc::Bin(z.clone()), false), false, &[])?;
    expect_odd("bincode: encoding of zero as Odd", parse::<Odd<Uint<N>>>(&Enc::Bin(z), false), false, &[])?;
    let mut el = pl.clone();
    el[0] &= !1;
    let e = serde_json::to_string(&uint::<N>(&el)).unwrap();
    expect_odd("json: encoding of an even value as Odd", parse::<Odd<Uint<N>>>(&Enc::Json(e.clone()), false), false, &[])?;
    expect_nz("json: encoding of an even value as NonZero", parse::<NonZero<Uint<N>>>(&Enc::Json(e), false), !is_zero(&el), &el)?;
    Ok(())
}

pub fn limb_serde_case(t: &mut Tape, c: &mut Case) -> CaseResult {
    let w = fixed::limb_value(t);
    let xw = valid_nz(t, 1)[0];
    c.num("a", w);
    c.num("x", xw);
    classify(c, &[w], true);
    let enc = if t.bool() {
        let base = if t.chance(1, 4) { w.to_be_bytes().to_vec() } else { w.to_le_bytes().to_vec() };
        let b = mangle_bin(t, c, base, false);
        c.bytes("bincode", &b);
        Enc::Bin(b)
    } else {
        let s = match t.weighted(&[6, 1, 1, 1, 1, 1]) {
            0 => w.to_string(),
            1 => {
                c.label("serde/json: out of range number");
                c.nontrivial(true);
                t.pick(&["18446744073709551616", "-1", "-0", "340282366920938463463374607431768211455"]).to_string()
            }
            2 => {
                c.label("serde/json: float");
                c.nontrivial(true);
                t.pick(&["0.0", "1.0", "1.5", "1e0", "0e0"]).to_string()
            }
            3 => {
                c.label("serde/json: number in a string");
                c.nontrivial(true);
                format!("\"{w}\"")
            }
            4 => {
                c.label("serde/json: not a number");
                c.nontrivial(true);
                t.pick(&["null", "[]", "[0]", "true", "{}", ""]).to_string()
            }
            _ => format!(" {w} "),
        };
        c.text("json", &s);
        Enc::Json(s)
    };
    let kind = if matches!(enc, Enc::Bin(_)) { "bincode" } else { "json" };
    let inner: Option<Limb> = parse(&enc, false);
    let (ok, want) = match inner {
        Some(l) => {
            c.label(format!("serde/{kind}: inner parses, {}", if l.0 == 0 { "zero" } else { "non-zero" }));
            c.nontrivial(l.0 == 0);
            (l.0 != 0, vec![l.0])
        }
        None => {
            c.label(format!("serde/{kind}: inner rejects"));
            (false, vec![])
        }
    };
    expect_nz(&format!("{kind} deserialize::<NonZero<Limb>>"), parse::<NonZero<Limb>>(&enc, false), ok, &want)?;
    if matches!(enc, Enc::Bin(_)) {
        expect_nz("bincode deserialize_from::<NonZero<Limb>>", parse::<NonZero<Limb>>(&enc, true), ok, &want)?;
    }
    let x = total("NonZero::new(valid)", || NonZero::new(Limb(xw)).unwrap())?;
    let bx = total("bincode::serialize(NonZero<Limb>)", || bincode::serialize(&x).unwrap())?;
    expect_nz("bincode round trip NonZero<Limb>", parse::<NonZero<Limb>>(&Enc::Bin(bx), false), true, &[xw])?;
    let jx = total("serde_json::to_string(NonZero<Limb>)", || serde_json::to_string(&x).unwrap())?;
    expect_nz("json round trip NonZero<Limb>", parse::<NonZero<Limb>>(&Enc::Json(jx), false), true, &[xw])?;
    let z = bincode::serialize(&Limb(0)).unwrap();
    expect_nz("bincode: encoding of Limb(0) as NonZero", parse::<NonZero<Limb>>(&Enc::Bin(z), false), false, &[])?;
    expect_nz("json: \"0\" as NonZero<Limb>", parse::<NonZero<Limb>>(&Enc::Json("0".into()), false), false, &[])?;
    Ok(())
}
