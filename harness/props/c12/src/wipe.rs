//! `Zeroize` on the wrappers and on `MontyParams`: `zeroize(&mut self)` is a safe public method that
//! leaves the object usable, so the wrapper it leaves behind is a produced value like any other.
//!
//! F-12d: `NonZero<T>::zeroize` / `Odd<T>::zeroize` (and `MontyParams::zeroize`, through
//! `modulus()`) overwrite the wrapped value with zero and leave the wrapper accessible.

use crate::*;
use crypto_bigint::modular::MontyParams;
use crypto_bigint::zeroize::Zeroize;

fn after_nz<T: Val>(what: &str, w: &NonZero<T>) -> CaseResult {
    let l = (**w).words();
    if is_zero(&l) {
        return Err(Fail::known("F-12d", format!("{what}: the wrapper is still accessible and now holds zero")));
    }
    inv_nz(what, w)
}
fn after_odd<T: Val>(what: &str, w: &Odd<T>) -> CaseResult {
    let l = (**w).words();
    if is_zero(&l) {
        return Err(Fail::known("F-12d", format!("{what}: the wrapper is still accessible and now holds the even value zero")));
    }
    inv_odd(what, w)
}

pub fn wipe_fixed_case<const N: usize>(t: &mut Tape, c: &mut Case) -> CaseResult {
    // (Int<N> does not implement Zeroize, so NonZero<Int> / Odd<Int> have no zeroize)
    let form = t.below(4);
    let xl = valid_nz(t, N);
    let pl = valid_odd(t, N);
    c.num("form", form);
    c.limbs("x", &xl);
    c.limbs("p", &pl);
    c.nontrivial(true);
    match form {
        0 => {
            c.label("zeroize: NonZero<Limb>");
            let mut w = total("NonZero::new(valid)", || NonZero::new(Limb(xl[0] | (xl[0] == 0) as u64)).unwrap())?;
            w.zeroize();
            after_nz("NonZero<Limb>::zeroize()", &w)
        }
        1 => {
            c.label("zeroize: NonZero<Uint>");
            let mut w = total("NonZero::new(valid)", || NonZero::new(uint::<N>(&xl)).unwrap())?;
            w.zeroize();
            after_nz("NonZero<Uint>::zeroize()", &w)
        }
        2 => {
            c.label("zeroize: Odd<Uint>");
            let mut w = total("Odd::new(valid)", || Odd::new(uint::<N>(&pl)).unwrap())?;
            w.zeroize();
            after_odd("Odd<Uint>::zeroize()", &w)
        }
        _ => {
            c.label("zeroize: MontyParams");
            let mut params = total("MontyParams::new_vartime(valid)", || MontyParams::<N>::new_vartime(Odd::new(uint::<N>(&pl)).unwrap()))?;
            chk_odd("MontyParams::modulus()", params.modulus(), &pl)?;
            params.zeroize();
            after_odd("MontyParams::zeroize(); modulus()", params.modulus())
        }
    }
}

pub fn wipe_boxed_case(t: &mut Tape, c: &mut Case) -> CaseResult {
    let form = t.below(2);
    let n = t.pick(&[1usize, 2, 4, 9]);
    let xl = valid_nz(t, n);
    let pl = valid_odd(t, n);
    c.num("form", form);
    c.limbs("x", &xl);
    c.limbs("p", &pl);
    c.nontrivial(true);
    if form == 0 {
        c.label("zeroize: NonZero<BoxedUint>");
        let mut w = total("NonZero::new(valid)", || NonZero::new(boxed(&xl)).unwrap())?;
        w.zeroize();
        after_nz("NonZero<BoxedUint>::zeroize()", &w)
    } else {
        c.label("zeroize: Odd<BoxedUint>");
        let mut w = total("Odd::new(valid)", || Odd::new(boxed(&pl)).unwrap())?;
        w.zeroize();
        after_odd("Odd<BoxedUint>::zeroize()", &w)
    }
}
