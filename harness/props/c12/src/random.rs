//! Random generation of NonZero / Odd on scripted streams (zero words first, finite streams).

use crate::rng::{Budget, FiniteRng, ScriptRng};
use crate::*;
use crypto_bigint::rand_core::SeedableRng;
use crypto_bigint::Random;
use vmodel::rand_chacha::ChaCha8Rng;

fn stream_word(t: &mut Tape) -> u64 {
    match t.weighted(&[4, 1, 1, 1, 2, 2, 1]) {
        0 => 0,
        1 => 1,
        2 => 2,
        3 => M,
        4 => t.u64() & !1,
        5 => t.u64() | 1,
        _ => 1 << 63,
    }
}

/// stream: `k` zero words, then a body drawn from {0, 1, 2, MAX, even, odd, 2^63}
pub(crate) fn stream(t: &mut Tape, n: usize) -> Vec<u64> {
    let k = if t.chance(1, 8) {
        // a long run of zero draws of the type (d draws of n words, minus / plus a word): a rejection
        // loop with a hidden bound on the number of attempts gives in here
        let d = t.pick(&[7usize, 8, 15, 16, 17, 31, 32, 33, 63, 64, 65, 100, 127, 128, 129, 255, 256, 257, 300, 511, 512, 513, 1000, 1023, 1024, 1025, 2047, 2048, 2049]);
        (d * n + t.pick(&[0usize, 0, 1]) * (n - 1)).saturating_sub(t.pick(&[0usize, 0, 1]))
    } else {
        t.pick(&[0, 0, 1, n.saturating_sub(1), n, n + 1, 2 * n, 2 * n + 1, 3 * n])
    };
    let m = t.usize_in(0, 2 * n + 2);
    let mut w = vec![0u64; k];
    for _ in 0..m {
        w.push(stream_word(t));
    }
    w
}

/// Rejection sampling as documented ("uses rejection sampling to avoid zero"): repeat the inner
/// type's own sampler on the same stream until it yields a non-zero value or the stream fails.
fn model_nz<T: Random + Val>(rng: &mut FiniteRng) -> (Option<Limbs>, usize) {
    let mut rejected = 0;
    loop {
        match T::try_random(rng) {
            Err(_) => return (None, rejected),
            Ok(v) => {
                let l = v.words();
                if !is_zero(&l) {
                    return (Some(l), rejected);
                }
                rejected += 1;
            }
        }
    }
}

pub(crate) fn nz_finite<T: Random + Val>(name: &str, words: &[u64], c: &mut Case) -> CaseResult
where
    NonZero<T>: Random,
{
    let mut rng = FiniteRng::new(words.to_vec());
    let got = total(name, || NonZero::<T>::try_random(&mut rng))?;
    let (want, rejected) = model_nz::<T>(&mut FiniteRng::new(words.to_vec()));
    if rejected > 0 {
        c.label("rng: first draw of the type is zero (rejection taken)");
        c.nontrivial(true);
    }
    match (&got, &want) {
        (Ok(w), _) => {
            inv_nz(name, w)?;
            match &want {
                Some(l) => veq!((**w).words(), *l, "{name}: value vs repeated inner sampling"),
                None => vfail!("{name}: returned a value although the inner sampler runs out of stream"),
            }
        }
        (Err(_), Some(l)) => vfail!("{name}: reported an RNG error although the stream yields the non-zero value {}", hex(l)),
        (Err(_), None) => {
            vensure!(rng.errors > 0, "{name}: returned an error that the RNG never reported");
            c.label("rng: finite stream exhausted -> error returned");
            c.nontrivial(true);
        }
    }
    Ok(())
}

pub(crate) fn nz_infinite<T: Random + Val>(name: &str, words: &[u64], tail: u64) -> CaseResult
where
    NonZero<T>: Random,
{
    let mut rng = ScriptRng::new(words.to_vec(), tail);
    let got = total(name, || NonZero::<T>::random(&mut rng))?;
    inv_nz(name, &got)?;
    // same stream through the inner sampler
    let mut m = ScriptRng::new(words.to_vec(), tail);
    let want = loop {
        let l = T::random(&mut m).words();
        if !is_zero(&l) {
            break l;
        }
    };
    veq!((*got).words(), want, "{name}: value vs repeated inner sampling");
    Ok(())
}

pub fn random_fixed_case<const N: usize>(t: &mut Tape, c: &mut Case) -> CaseResult {
    let words = stream(t, N);
    let tail = t.u64();
    let seed = t.u64();
    let lead = words.iter().take_while(|&&w| w == 0).count();
    c.num("leading zero words", lead as u64);
    c.limbs("stream after the leading zero words", &words[lead..]);
    if lead >= 7 * N {
        c.label(match lead / N {
            0..=63 => "rng: 7..=63 zero draws of Uint<N> first",
            64..=255 => "rng: 64..=255 zero draws of Uint<N> first",
            256..=1023 => "rng: 256..=1023 zero draws of Uint<N> first",
            _ => "rng: >= 1024 zero draws of Uint<N> first",
        });
    }
    c.num("tail seed", tail);
    c.num("chacha seed", seed);
    if words.first() == Some(&0) {
        c.label("rng: stream starts with a zero word");
        c.nontrivial(true);
    }
    if !words.is_empty() && words.iter().all(|&w| w == 0) {
        c.label("rng: all-zero finite stream");
    }
    if words.first().map(|w| w & 1 == 0).unwrap_or(false) {
        c.label("rng: first word even");
        c.nontrivial(true);
    }
    if words.is_empty() {
        c.label("rng: empty stream");
        c.nontrivial(true);
    }

    // finite streams: a value that is valid, or the RNG's error
    nz_finite::<Limb>("NonZero::<Limb>::try_random", &words, c)?;
    nz_finite::<Uint<N>>("NonZero::<Uint>::try_random", &words, c)?;
    nz_finite::<Int<N>>("NonZero::<Int>::try_random", &words, c)?;
    {
        let mut rng = FiniteRng::new(words.clone());
        match total("Odd::<Uint>::try_random", || Odd::<Uint<N>>::try_random(&mut rng))? {
            Ok(w) => inv_odd("Odd::<Uint>::try_random", &w)?,
            Err(_) => {
                vensure!(rng.errors > 0, "Odd::<Uint>::try_random: returned an error that the RNG never reported");
                c.label("rng: Odd finite stream exhausted -> error returned");
            }
        }
    }
    // the same words, then a never-zero tail: the infallible entry points
    nz_infinite::<Limb>("NonZero::<Limb>::random", &words, tail)?;
    nz_infinite::<Uint<N>>("NonZero::<Uint>::random", &words, tail)?;
    nz_infinite::<Int<N>>("NonZero::<Int>::random", &words, tail)?;
    {
        let mut rng = ScriptRng::new(words.clone(), tail);
        let w = total("Odd::<Uint>::random", || Odd::<Uint<N>>::random(&mut rng))?;
        inv_odd("Odd::<Uint>::random", &w)?;
        chk_nz("Odd::<Uint>::random().as_nz_ref()", w.as_nz_ref(), &(*w).words())?;
    }
    // a real generator
    {
        let mut rng = Budget::new(ChaCha8Rng::seed_from_u64(seed));
        inv_nz("NonZero::<Limb>::random(ChaCha8)", &total("NonZero::<Limb>::random(ChaCha8)", || NonZero::<Limb>::random(&mut rng))?)?;
        inv_nz("NonZero::<Uint>::random(ChaCha8)", &total("NonZero::<Uint>::random(ChaCha8)", || NonZero::<Uint<N>>::random(&mut rng))?)?;
        inv_nz("NonZero::<Int>::random(ChaCha8)", &total("NonZero::<Int>::random(ChaCha8)", || NonZero::<Int<N>>::random(&mut rng))?)?;
        inv_odd("Odd::<Uint>::random(ChaCha8)", &total("Odd::<Uint>::random(ChaCha8)", || Odd::<Uint<N>>::random(&mut rng))?)?;
        inv_odd("Odd::<Uint>::try_random(ChaCha8)", &total("Odd::<Uint>::try_random(ChaCha8)", || Odd::<Uint<N>>::try_random(&mut rng).unwrap())?)?;
    }
    Ok(())
}

pub fn boxed_odd_case(t: &mut Tape, c: &mut Case) -> CaseResult {
    let bits = match t.weighted(&[2, 3, 2]) {
        0 => t.pick(&[1u32, 2, 0, 63, 64, 65, 127, 128, 129]),
        1 => t.edgy(64 * 24) as u32,
        _ => t.u32_in(1, 64 * 24),
    };
    let n = (bits as usize).div_ceil(64).max(1);
    let k = t.pick(&[0, 1, n, n + 1]);
    let m = t.usize_in(0, n + 1);
    let mut words = vec![0u64; k];
    for _ in 0..m {
        words.push(stream_word(t));
    }
    let tail = t.u64();
    c.num("bit_length", bits as u64);
    c.limbs("stream", &words);
    c.num("tail seed", tail);
    if words.first() == Some(&0) {
        c.label("rng: stream starts with a zero word");
        c.nontrivial(true);
    }
    if words.first().map(|w| w & 1 == 0).unwrap_or(false) {
        c.label("rng: first word even");
        c.nontrivial(true);
    }
    if bits % 64 == 0 || bits % 64 == 1 {
        c.label("bit_length at a limb boundary");
        c.nontrivial(true);
    }
    // infallible stream
    let mut rng = ScriptRng::new(words.clone(), tail);
    match guard(|| Odd::<BoxedUint>::random(&mut rng, bits)) {
        Ok(w) => {
            inv_odd("Odd::<BoxedUint>::random", &w)?;
            chk_nz("Odd::<BoxedUint>::random().as_nz_ref()", w.as_nz_ref(), &(*w).words())?;
            if bits > 0 && bbig(&w) < pow2(bits as u64) {
                c.label("boxed odd random: value below 2^bit_length");
            }
        }
        Err(m) => {
            // bit_length = 0 leaves no bit to set: failing is acceptable, an even value is not
            vensure!(bits == 0, "Odd::<BoxedUint>::random(bit_length = {bits}): unexpected panic: {m}");
            c.label("boxed odd random: bit_length 0 -> panic");
        }
    }
    // finite stream: a valid value or a failure (the constructor has no error channel: panic)
    let mut rng = FiniteRng::new(words.clone());
    match guard(|| Odd::<BoxedUint>::random(&mut rng, bits)) {
        Ok(w) => inv_odd("Odd::<BoxedUint>::random (finite stream)", &w)?,
        Err(m) => {
            vensure!(rng.errors > 0 || bits == 0, "Odd::<BoxedUint>::random (finite stream, bit_length = {bits}): panic although the RNG reported no error: {m}");
            c.label("boxed odd random: stream exhausted -> panic");
        }
    }
    Ok(())
}
