//! Const-evaluated producers: const constructors, associated constants, `impl_modulus!` /
//! `ConstMontyParams::MODULUS`, and the runtime parameter sets derived from them. The inputs are
//! fixed at compile time (an invalid argument is a compile error = failure), so this is a static
//! table; a case picks one row.

use crate::*;
use core::num::{NonZeroU128, NonZeroU16, NonZeroU32, NonZeroU64, NonZeroU8};
use crypto_bigint::modular::{BoxedMontyParams, ConstMontyParams, MontyParams};
use crypto_bigint::{impl_modulus, U128, U192, U256, U64};

impl_modulus!(ModP256, U256, "ffffffff00000001000000000000000000000000ffffffffffffffffffffffff");
impl_modulus!(ModSmall, U128, "000000000000000000000000000000ff");
impl_modulus!(ModTop, U64, "8000000000000001");

const NZ_NEW_UNWRAP: NonZero<U128> = NonZero::<U128>::new_unwrap(U128::from_u64(6));
const NZ_NEW_UNWRAP_HI: NonZero<U128> = NonZero::<U128>::new_unwrap(U128::from_u128(1 << 64));
const NZ_LIMB_NEW_UNWRAP: NonZero<Limb> = NonZero::<Limb>::new_unwrap(Limb(1 << 63));
const NZ_FROM_U8: NonZero<U64> = NonZero::<U64>::from_u8(NonZeroU8::MIN);
const NZ_FROM_U16: NonZero<U128> = NonZero::<U128>::from_u16(NonZeroU16::MAX);
const NZ_FROM_U32: NonZero<U128> = NonZero::<U128>::from_u32(NonZeroU32::MAX);
const NZ_FROM_U64: NonZero<U64> = NonZero::<U64>::from_u64(NonZeroU64::MAX);
const NZ_FROM_U128: NonZero<U192> = NonZero::<U192>::from_u128(NonZeroU128::MAX);
const NZ_LIMB_FROM_U8: NonZero<Limb> = NonZero::<Limb>::from_u8(NonZeroU8::MAX);
const NZ_LIMB_FROM_U16: NonZero<Limb> = NonZero::<Limb>::from_u16(NonZeroU16::MIN);
const NZ_LIMB_FROM_U32: NonZero<Limb> = NonZero::<Limb>::from_u32(NonZeroU32::MAX);
const NZ_LIMB_FROM_U64: NonZero<Limb> = NonZero::<Limb>::from_u64(NonZeroU64::MAX);
const NZ_TO_NZ: NonZero<U256> = U256::MAX.to_nz().expect("non-zero");
const NZ_LIMB_TO_NZ: NonZero<Limb> = Limb(2).to_nz().expect("non-zero");
const NZ_ONE: NonZero<U128> = NonZero::<U128>::ONE;
const NZ_MAX: NonZero<U128> = NonZero::<U128>::MAX;
const NZ_LIMB_ONE: NonZero<Limb> = NonZero::<Limb>::ONE;
const NZ_LIMB_MAX: NonZero<Limb> = NonZero::<Limb>::MAX;
const NZ_INT_ONE: NonZero<Int<2>> = NonZero::<Int<2>>::ONE;
const NZ_INT_MAX: NonZero<Int<2>> = NonZero::<Int<2>>::MAX;
const OD_BE_HEX: Odd<U128> = Odd::<U128>::from_be_hex("80000000000000000000000000000001");
// odd in both byte orders, different values (a big-endian parse is detectable, not a build error)
const OD_LE_HEX: Odd<U128> = Odd::<U128>::from_le_hex("03000000000000000000000000000005");
const OD_TO_ODD: Odd<U256> = U256::from_u64(u64::MAX).to_odd().expect("odd");
// (inputs of the const rows have several low bits set: a parity test reading a neighbouring bit
// then still evaluates, the build stays possible and the runtime sub-checks report the defect)
const OD_TO_ODD_SMALL: Odd<U64> = U64::from_u64(7).to_odd().expect("odd");
const OD_AS_NZ: &NonZero<U128> = OD_BE_HEX.as_nz_ref();
const OD_MODULUS: Odd<U256> = <ModP256 as ConstMontyParams<4>>::MODULUS;
const OD_MODULUS_SMALL: Odd<U128> = <ModSmall as ConstMontyParams<2>>::MODULUS;
const OD_MODULUS_TOP: Odd<U64> = <ModTop as ConstMontyParams<1>>::MODULUS;
const MP_CONST: MontyParams<4> = MontyParams::<4>::from_const_params::<ModP256>();
const MP_NEW_VARTIME: MontyParams<2> = MontyParams::<2>::new_vartime(OD_BE_HEX);
const MP_NEW: MontyParams<2> = MontyParams::<2>::new(OD_LE_HEX);

enum Row {
    Nz(&'static str, Limbs, Limbs),
    Od(&'static str, Limbs, Limbs),
}

const P256: [u64; 4] = [0xffff_ffff_ffff_ffff, 0x0000_0000_ffff_ffff, 0, 0xffff_ffff_0000_0001];

fn table() -> Vec<Row> {
    fn nz<T: Val>(name: &'static str, w: &NonZero<T>, want: &[u64]) -> Row {
        Row::Nz(name, (**w).words(), want.to_vec())
    }
    fn od<T: Val>(name: &'static str, w: &Odd<T>, want: &[u64]) -> Row {
        Row::Od(name, (**w).words(), want.to_vec())
    }
    vec![
        nz("const NonZero::<U128>::new_unwrap(6)", &NZ_NEW_UNWRAP, &[6, 0]),
        nz("const NonZero::<U128>::new_unwrap(2^64)", &NZ_NEW_UNWRAP_HI, &[0, 1]),
        nz("const NonZero::<Limb>::new_unwrap(2^63)", &NZ_LIMB_NEW_UNWRAP, &[1 << 63]),
        nz("const NonZero::<U64>::from_u8(1)", &NZ_FROM_U8, &[1]),
        nz("const NonZero::<U128>::from_u16(MAX)", &NZ_FROM_U16, &[0xffff, 0]),
        nz("const NonZero::<U128>::from_u32(MAX)", &NZ_FROM_U32, &[0xffff_ffff, 0]),
        nz("const NonZero::<U64>::from_u64(MAX)", &NZ_FROM_U64, &[M]),
        nz("const NonZero::<U192>::from_u128(MAX)", &NZ_FROM_U128, &[M, M, 0]),
        nz("const NonZero::<Limb>::from_u8(MAX)", &NZ_LIMB_FROM_U8, &[0xff]),
        nz("const NonZero::<Limb>::from_u16(1)", &NZ_LIMB_FROM_U16, &[1]),
        nz("const NonZero::<Limb>::from_u32(MAX)", &NZ_LIMB_FROM_U32, &[0xffff_ffff]),
        nz("const NonZero::<Limb>::from_u64(MAX)", &NZ_LIMB_FROM_U64, &[M]),
        nz("const U256::MAX.to_nz().expect()", &NZ_TO_NZ, &[M; 4]),
        nz("const Limb(2).to_nz().expect()", &NZ_LIMB_TO_NZ, &[2]),
        nz("const NonZero::<U128>::ONE", &NZ_ONE, &[1, 0]),
        nz("const NonZero::<U128>::MAX", &NZ_MAX, &[M, M]),
        nz("const NonZero::<Limb>::ONE", &NZ_LIMB_ONE, &[1]),
        nz("const NonZero::<Limb>::MAX", &NZ_LIMB_MAX, &[M]),
        nz("const NonZero::<Int<2>>::ONE", &NZ_INT_ONE, &[1, 0]),
        nz("const NonZero::<Int<2>>::MAX", &NZ_INT_MAX, &[M, M >> 1]),
        od("const Odd::<U128>::from_be_hex", &OD_BE_HEX, &[1, 1 << 63]),
        od("const Odd::<U128>::from_le_hex", &OD_LE_HEX, &[3, 5 << 56]),
        od("const U256::from_u64(MAX).to_odd().expect()", &OD_TO_ODD, &[M, 0, 0, 0]),
        od("const U64::from_u64(7).to_odd().expect()", &OD_TO_ODD_SMALL, &[7]),
        nz("const Odd::as_nz_ref()", OD_AS_NZ, &[1, 1 << 63]),
        od("impl_modulus!(U256) ConstMontyParams::MODULUS", &OD_MODULUS, &P256),
        od("impl_modulus!(U128) ConstMontyParams::MODULUS", &OD_MODULUS_SMALL, &[0xff, 0]),
        od("impl_modulus!(U64) ConstMontyParams::MODULUS", &OD_MODULUS_TOP, &[(1 << 63) | 1]),
        od("const MontyParams::from_const_params().modulus()", MP_CONST.modulus(), &P256),
        od("const MontyParams::new_vartime().modulus()", MP_NEW_VARTIME.modulus(), &[1, 1 << 63]),
        od("const MontyParams::new().modulus()", MP_NEW.modulus(), &[3, 5 << 56]),
        od("BoxedMontyParams::from_const_params().modulus()", BoxedMontyParams::from_const_params::<4, ModP256>().modulus(), &P256),
        nz("MODULUS.as_nz_ref()", <ModP256 as ConstMontyParams<4>>::MODULUS.as_nz_ref(), &P256),
    ]
}

pub fn const_case(t: &mut Tape, c: &mut Case) -> CaseResult {
    let tb = table();
    let i = t.index(tb.len());
    c.num("row", i as u64);
    c.nontrivial(true);
    match &tb[i] {
        Row::Nz(name, got, want) => {
            c.text("producer", name);
            c.label("const row: NonZero");
            vensure!(!is_zero(got), "{name}: obtained a NonZero holding zero");
            veq!(got, want, "{name}: wrapped value");
        }
        Row::Od(name, got, want) => {
            c.text("producer", name);
            c.label("const row: Odd");
            if name.contains("from_le_hex") || name.contains("MontyParams::new().modulus()") {
                // F-12b in a const context: the little-endian string parsed big-endian
                if *got == vec![5u64, 3 << 56] {
                    return Err(Fail::known("F-12b", format!("{name}: \"0300..05\" parsed big-endian ({})", hex(got))));
                }
            }
            vensure!(got[0] & 1 == 1, "{name}: obtained an Odd holding an even value ({})", hex(got));
            veq!(got, want, "{name}: wrapped value");
        }
    }
    Ok(())
}
