//! Scripted random number generators (rand_core 0.9): the words of the stream come from the tape.

use crypto_bigint::rand_core::{RngCore, TryRngCore};
use vmodel::tape::splitmix;

pub const DRAW_BUDGET: usize = 1 << 14;

/// A real generator with a draw budget (same reason as in [`ScriptRng`]).
pub struct Budget<R: RngCore> {
    pub inner: R,
    pub calls: usize,
}
impl<R: RngCore> Budget<R> {
    pub fn new(inner: R) -> Self {
        Budget { inner, calls: 0 }
    }
    fn tick(&mut self) {
        self.calls += 1;
        assert!(self.calls < DRAW_BUDGET, "generator: more than {DRAW_BUDGET} requests in one case (the sampler does not terminate)");
    }
}
impl<R: RngCore> RngCore for Budget<R> {
    fn next_u32(&mut self) -> u32 {
        self.tick();
        self.inner.next_u32()
    }
    fn next_u64(&mut self) -> u64 {
        self.tick();
        self.inner.next_u64()
    }
    fn fill_bytes(&mut self, dst: &mut [u8]) {
        self.tick();
        self.inner.fill_bytes(dst)
    }
}

/// Infallible: plays the script, then continues with a splitmix tail (so rejection sampling always
/// terminates). Words are consumed whole: `next_u32` / a 4-byte fill take the low half of a word.
#[derive(Clone, Debug)]
pub struct ScriptRng {
    pub words: Vec<u64>,
    pub pos: usize,
    tail: u64,
}

impl ScriptRng {
    pub fn new(words: Vec<u64>, tail_seed: u64) -> Self {
        ScriptRng { words, pos: 0, tail: tail_seed | 1 }
    }
    fn word(&mut self) -> u64 {
        // a sampler that keeps drawing from a stream of non-zero words does not terminate: make
        // that a panic (reported as a failure of the operation) instead of a hang
        assert!(self.pos < self.words.len() + DRAW_BUDGET, "scripted stream: more than {DRAW_BUDGET} words drawn past the script (the sampler does not terminate)");
        let w = if self.pos < self.words.len() {
            self.words[self.pos]
        } else {
            // never zero, so that a zero-avoiding sampler cannot spin
            splitmix(&mut self.tail) | (1 << 17)
        };
        self.pos += 1;
        w
    }
}

impl RngCore for ScriptRng {
    fn next_u32(&mut self) -> u32 {
        self.word() as u32
    }
    fn next_u64(&mut self) -> u64 {
        self.word()
    }
    fn fill_bytes(&mut self, dst: &mut [u8]) {
        for ch in dst.chunks_mut(8) {
            let w = self.word().to_le_bytes();
            ch.copy_from_slice(&w[..ch.len()]);
        }
    }
}

#[derive(Debug, Clone, Copy, PartialEq, Eq)]
pub struct ScriptEnd;
impl core::fmt::Display for ScriptEnd {
    fn fmt(&self, f: &mut core::fmt::Formatter<'_>) -> core::fmt::Result {
        write!(f, "scripted stream exhausted")
    }
}

/// Fallible: plays the script, then reports an error on every further request.
#[derive(Clone, Debug)]
pub struct FiniteRng {
    pub words: Vec<u64>,
    pub pos: usize,
    /// number of requests that were answered with an error
    pub errors: usize,
}

impl FiniteRng {
    pub fn new(words: Vec<u64>) -> Self {
        FiniteRng { words, pos: 0, errors: 0 }
    }
    fn word(&mut self) -> Result<u64, ScriptEnd> {
        if self.pos < self.words.len() {
            self.pos += 1;
            Ok(self.words[self.pos - 1])
        } else {
            self.errors += 1;
            Err(ScriptEnd)
        }
    }
}

impl TryRngCore for FiniteRng {
    type Error = ScriptEnd;
    fn try_next_u32(&mut self) -> Result<u32, ScriptEnd> {
        Ok(self.word()? as u32)
    }
    fn try_next_u64(&mut self) -> Result<u64, ScriptEnd> {
        self.word()
    }
    fn try_fill_bytes(&mut self, dst: &mut [u8]) -> Result<(), ScriptEnd> {
        for ch in dst.chunks_mut(8) {
            let w = self.word()?.to_le_bytes();
            ch.copy_from_slice(&w[..ch.len()]);
        }
        Ok(())
    }
}
