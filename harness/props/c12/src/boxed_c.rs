//! Producers of NonZero<BoxedUint> / Odd<BoxedUint> at runtime precisions.

use crate::*;
use crypto_bigint::modular::BoxedMontyParams;
use crypto_bigint::subtle::CtOption;

pub fn boxed_case(max: usize) -> impl Fn(&mut Tape, &mut Case) -> CaseResult {
    move |t, c| {
        let n = match t.weighted(&[3, 1]) {
            0 => t.pick(&[1usize, 2, 3, 4, 5, 8, 9, 16, 17]),
            _ => t.usize_in(1, max),
        }
        .min(max);
        let al = value(t, n);
        let xl = valid_nz(t, n);
        let pl = valid_odd(t, n);
        let ql = gen::limbs(t, n);
        let prec = 64 * n as u32;
        let widen_to = match t.weighted(&[3, 2, 2, 2, 2]) {
            0 => prec,
            1 => prec + t.pick(&[1u32, 63, 64, 65]),
            2 => 2 * prec,
            3 => prec - t.pick(&[1u32, 63, 64]).min(prec), // too small: documented panic
            _ => prec + t.u32_in(0, 256),
        };
        c.limbs("a", &al);
        c.limbs("x", &xl);
        c.limbs("p", &pl);
        c.limbs("q", &ql);
        c.num("widen_to", widen_to as u64);
        let cls = classify(c, &al, false);
        let (nzv, oddv) = (!cls.zero, cls.odd);
        let a = boxed(&al);

        // NonZero::new
        let r = total("NonZero::new(BoxedUint)", || NonZero::new(a.clone()))?;
        veq!(bool::from(r.is_some()), nzv, "NonZero::new(boxed).is_some()");
        expect_nz("NonZero::new(boxed)", r.into(), nzv, &al)?;
        expect_nz("NonZero::new(boxed).unwrap() (panics iff none)", guard(|| NonZero::new(a.clone()).unwrap()).ok(), nzv, &al)?;
        expect_nz("NonZero::new(boxed).expect() (panics iff none)", guard(|| NonZero::new(a.clone()).expect("c12")).ok(), nzv, &al)?;
        expect_nz("NonZero::new(boxed).into_option()", NonZero::new(a.clone()).into_option(), nzv, &al)?;

        // Odd::new / to_odd
        let r = total("Odd::new(BoxedUint)", || Odd::new(a.clone()))?;
        veq!(bool::from(r.is_some()), oddv, "Odd::new(boxed).is_some()");
        expect_odd("Odd::new(boxed)", r.into(), oddv, &al)?;
        expect_odd("Odd::new(boxed).unwrap() (panics iff none)", guard(|| Odd::new(a.clone()).unwrap()).ok(), oddv, &al)?;
        let r: CtOption<Odd<BoxedUint>> = total("BoxedUint::to_odd", || a.to_odd())?;
        veq!(bool::from(r.is_some()), oddv, "BoxedUint::to_odd().is_some()");
        expect_odd("BoxedUint::to_odd()", r.into(), oddv, &al)?;
        expect_odd("BoxedUint::to_odd().unwrap() (panics iff none)", guard(|| a.to_odd().unwrap()).ok(), oddv, &al)?;

        // valid operands
        let x = total("NonZero::new(x).unwrap()", || NonZero::new(boxed(&xl)).unwrap())?;
        let p = total("BoxedUint::to_odd().unwrap()", || boxed(&pl).to_odd().unwrap())?;
        chk_nz("NonZero::new(x)", &x, &xl)?;
        chk_odd("to_odd(p)", &p, &pl)?;
        chk_nz("NonZero<BoxedUint>::clone", &x.clone(), &xl)?;
        chk_odd("Odd<BoxedUint>::clone", &p.clone(), &pl)?;
        chk_nz("Odd<BoxedUint>::as_nz_ref", p.as_nz_ref(), &pl)?;
        chk_nz("AsRef<NonZero<BoxedUint>> for Odd", AsRef::<NonZero<BoxedUint>>::as_ref(&p), &pl)?;
        veq!(bl(&x.clone().get()), xl, "NonZero<BoxedUint>::get");
        veq!(bl(p.as_ref()), pl, "Odd<BoxedUint>::as_ref");

        // widen: "See BoxedUint::widen ... Panics if at_least_bits_precision is smaller than the current precision"
        match guard(|| x.widen(widen_to)) {
            Ok(w) => {
                inv_nz("NonZero<BoxedUint>::widen", &w)?;
                vensure!(widen_to >= prec, "NonZero<BoxedUint>::widen({widen_to}) returned although the precision is {prec} (documented panic)");
                let mut want = xl.clone();
                want.resize((widen_to as usize).div_ceil(64), 0);
                chk_nz("NonZero<BoxedUint>::widen", &w, &want)?;
                c.label("widen: grows or keeps");
            }
            Err(m) => {
                vensure!(widen_to < prec, "NonZero<BoxedUint>::widen({widen_to}) from precision {prec}: unexpected panic: {m}");
                c.label("widen: too small -> panic");
            }
        }
        match guard(|| p.as_nz_ref().widen(widen_to)) {
            Ok(w) => {
                inv_nz("Odd::as_nz_ref().widen", &w)?;
                vensure!(widen_to >= prec, "as_nz_ref().widen({widen_to}) returned although the precision is {prec}");
                vensure!(big(&(*w).words()) == big(&pl), "as_nz_ref().widen changed the value");
            }
            Err(m) => vensure!(widen_to < prec, "as_nz_ref().widen({widen_to}) from precision {prec}: unexpected panic: {m}"),
        }

        // Monty parameters hand back the modulus
        let params = total("BoxedMontyParams::new(odd)", || BoxedMontyParams::new(p.clone()))?;
        chk_odd("BoxedMontyParams::new(p).modulus()", params.modulus(), &pl)?;
        let params = total("BoxedMontyParams::new_vartime(odd)", || BoxedMontyParams::new_vartime(p.clone()))?;
        chk_odd("BoxedMontyParams::new_vartime(p).modulus()", params.modulus(), &pl)?;
        chk_nz("BoxedMontyParams::modulus().as_nz_ref()", params.modulus().as_nz_ref(), &pl)?;

        // consumers: produced wrappers are usable divisors
        let d = if nzv { NonZero::new(a.clone()).unwrap() } else { x.clone() };
        let dl = if nzv { &al } else { &xl };
        let num = boxed(&ql);
        let (quo, rem) = total("BoxedUint::div_rem(produced NonZero)", || num.div_rem(&d))?;
        veq!(bbig(&quo), big(&ql) / big(dl), "boxed div_rem quotient with a produced divisor");
        veq!(bbig(&rem), big(&ql) % big(dl), "boxed div_rem remainder with a produced divisor");
        let rem = total("BoxedUint::rem_vartime(Odd::as_nz_ref())", || num.rem_vartime(p.as_nz_ref()))?;
        veq!(bbig(&rem), big(&ql) % big(&pl), "boxed rem_vartime by Odd::as_nz_ref()");
        Ok(())
    }
}
