//! Coverage self-check (not a verdict): scan the crate sources for items that can produce or mutate
//! a `NonZero<_>` / `Odd<_>` and compare them with the registry of producers this harness drives.
//! Unregistered items (and stale registry rows) are listed in the evidence as class labels.
//!
//! Not visible to a signature scan (generic over the payload, driven anyway): `ConstCtOption::unwrap`,
//! `From<ConstCtOption<T>> for CtOption<T> / Option<T>`, subtle's `CtOption::{map, unwrap_or,
//! conditional_select}`, the provided methods `conditional_assign/swap`, `ct_assign/swap`,
//! `Random::random`, and `MontyParams::zeroize` (mutates the `Odd` modulus it owns).
//!
//! Source root: `$VERIF_REPO/src` (default `/repo/src`). The scan is a pure function of the tree.

use crate::*;
use std::path::{Path, PathBuf};

#[derive(Debug, Clone)]
pub struct Item {
    pub file: String,
    pub line: usize,
    pub ctx: String,
    pub name: String,
    pub kind: &'static str,
}

fn norm(s: &str) -> String {
    s.split_whitespace().collect::<Vec<_>>().join(" ")
}

fn mentions_wrapper(ty: &str) -> bool {
    ty.contains("NonZero<") || ty.contains("Odd<")
}

/// `Self` as a whole type (not `Self::Assoc`)
fn mentions_self(ty: &str) -> bool {
    let b = ty.as_bytes();
    let mut i = 0;
    while let Some(p) = ty[i..].find("Self") {
        let s = i + p;
        let e = s + 4;
        let before_ok = s == 0 || !(b[s - 1].is_ascii_alphanumeric() || b[s - 1] == b'_');
        let after_ok = e >= b.len() || !(b[e].is_ascii_alphanumeric() || b[e] == b'_' || (b[e] == b':' && e + 1 < b.len() && b[e + 1] == b':'));
        if before_ok && after_ok {
            return true;
        }
        i = e;
    }
    false
}

/// type an impl header implements for (after generics), e.g. "NonZero<T>" for "impl<T> Default for NonZero<T> where .."
fn impl_target(ctx: &str) -> String {
    let body = ctx.split(" where ").next().unwrap_or(ctx);
    if let Some(p) = body.rfind(" for ") {
        return body[p + 5..].trim().to_string();
    }
    // inherent: strip "impl" and a leading generic list
    let mut s = body.trim_start_matches("impl").trim_start();
    if s.starts_with('<') {
        let mut depth = 0;
        for (i, ch) in s.char_indices() {
            match ch {
                '<' => depth += 1,
                '>' => {
                    depth -= 1;
                    if depth == 0 {
                        s = s[i + 1..].trim_start();
                        break;
                    }
                }
                _ => {}
            }
        }
    }
    s.to_string()
}

fn is_wrapper_target(t: &str) -> bool {
    t.starts_with("NonZero<") || t.starts_with("Odd<") || t.starts_with("ConstCtOption<NonZero<") || t.starts_with("ConstCtOption<Odd<")
}

pub fn scan_file(rel: &str, text: &str, out: &mut Vec<Item>) {
    let lines: Vec<&str> = text.lines().collect();
    let mut ctx = String::new();
    let mut ctx_is_trait_or_traitimpl = false;
    let mut i = 0;
    while i < lines.len() {
        let tr = lines[i].trim();
        if tr.starts_with("#[cfg(test)]") || tr.starts_with("#[cfg(all(test") {
            break; // test modules close every file
        }
        if tr.starts_with("//") {
            i += 1;
            continue;
        }
        let is_impl = tr.starts_with("impl ") || tr.starts_with("impl<");
        let is_trait = tr.starts_with("pub trait ") || tr.starts_with("trait ");
        if is_impl || is_trait {
            let mut h = String::new();
            let mut j = i;
            while j < lines.len() {
                h.push_str(lines[j]);
                h.push(' ');
                if lines[j].contains('{') {
                    break;
                }
                j += 1;
            }
            let h = norm(h.split('{').next().unwrap_or(""));
            ctx_is_trait_or_traitimpl = is_trait || h.split(" where ").next().unwrap_or("").contains(" for ");
            ctx = h;
            i = j + 1;
            continue;
        }
        // const items
        let vis_stripped = tr.strip_prefix("pub ").unwrap_or(tr);
        if vis_stripped.starts_with("const ") && !vis_stripped.starts_with("const fn ") && tr.contains(':') {
            let rest = &vis_stripped[6..];
            let (name, after) = rest.split_once(':').unwrap_or((rest, ""));
            let name = name.trim().to_string();
            let ty = after.split(" = ").next().unwrap_or("").trim().trim_end_matches(';').to_string();
            let target = impl_target(&ctx);
            if mentions_wrapper(&ty) || (is_wrapper_target(&target) && mentions_self(&ty)) {
                out.push(Item { file: rel.into(), line: i + 1, ctx: ctx.clone(), name, kind: "const" });
            }
            i += 1;
            continue;
        }
        // fn items
        let (vis, after) = if let Some(r) = tr.strip_prefix("pub(crate) ") {
            ("crate", r)
        } else if let Some(r) = tr.strip_prefix("pub(super) ") {
            ("crate", r)
        } else if let Some(r) = tr.strip_prefix("pub ") {
            ("pub", r)
        } else {
            ("none", tr)
        };
        let after = after.strip_prefix("const ").unwrap_or(after);
        let after = after.strip_prefix("unsafe ").unwrap_or(after);
        if let Some(r) = after.strip_prefix("fn ") {
            let name: String = r.chars().take_while(|ch| ch.is_alphanumeric() || *ch == '_').collect();
            let mut sig = String::new();
            let mut j = i;
            while j < lines.len() {
                sig.push_str(lines[j]);
                sig.push(' ');
                let l = lines[j].trim_end();
                if l.contains('{') || l.ends_with(';') {
                    break;
                }
                j += 1;
            }
            let sig = norm(sig.split('{').next().unwrap_or(""));
            let public = vis == "pub" || (vis == "none" && ctx_is_trait_or_traitimpl);
            if public {
                let ret = sig.rfind(") ->").map(|p| sig[p + 4..].split(" where ").next().unwrap_or("").trim().to_string()).unwrap_or_default();
                let target = impl_target(&ctx);
                let wt = is_wrapper_target(&target);
                if mentions_wrapper(&ret) || (wt && mentions_self(&ret)) {
                    out.push(Item { file: rel.into(), line: i + 1, ctx: ctx.clone(), name, kind: "fn" });
                } else if wt && sig.contains("&mut self") {
                    out.push(Item { file: rel.into(), line: i + 1, ctx: ctx.clone(), name, kind: "mutator" });
                }
            }
            i = j + 1;
            continue;
        }
        i += 1;
    }
}

fn walk(dir: &Path, root: &Path, files: &mut Vec<(String, PathBuf)>) {
    let Ok(rd) = std::fs::read_dir(dir) else { return };
    let mut es: Vec<_> = rd.filter_map(|e| e.ok()).map(|e| e.path()).collect();
    es.sort();
    for p in es {
        if p.is_dir() {
            walk(&p, root, files);
        } else if p.extension().map(|x| x == "rs").unwrap_or(false) {
            let rel = p.strip_prefix(root).unwrap_or(&p).to_string_lossy().to_string();
            files.push((rel, p));
        }
    }
}

pub fn scan_tree(root: &Path) -> Option<Vec<Item>> {
    let mut files = vec![];
    walk(root, root, &mut files);
    if files.is_empty() {
        return None;
    }
    let mut out = vec![];
    for (rel, p) in files {
        if let Ok(text) = std::fs::read_to_string(&p) {
            scan_file(&rel, &text, &mut out);
        }
    }
    Some(out)
}

/// (file, substring of the impl/trait header, item name, where it is driven / why it is not)
pub const REGISTRY: &[(&str, &str, &str, &str)] = &[
    // non_zero.rs
    ("non_zero.rs", "impl<T> NonZero<T>", "new", "*/producers, boxed/producers"),
    ("non_zero.rs", "NonZero<T> where T: Constants", "ONE", "*/producers, const/static-table"),
    ("non_zero.rs", "NonZero<T> where T: Constants", "MAX", "*/producers, const/static-table"),
    ("non_zero.rs", "T: Encoding + Zero", "from_be_bytes", "limb/producers, uint/decode+monty"),
    ("non_zero.rs", "T: Encoding + Zero", "from_le_bytes", "limb/producers, uint/decode+monty"),
    ("non_zero.rs", "impl NonZero<Limb>", "new_unwrap", "limb/producers, const/static-table"),
    ("non_zero.rs", "impl NonZero<Limb>", "from_u8", "limb/producers, const/static-table"),
    ("non_zero.rs", "impl NonZero<Limb>", "from_u16", "limb/producers, const/static-table"),
    ("non_zero.rs", "impl NonZero<Limb>", "from_u32", "limb/producers, const/static-table"),
    ("non_zero.rs", "impl NonZero<Limb>", "from_u64", "limb/producers, const/static-table"),
    ("non_zero.rs", "NonZero<Uint<LIMBS>>", "new_unwrap", "uint/producers, const/static-table"),
    ("non_zero.rs", "NonZero<Uint<LIMBS>>", "from_u8", "uint/producers, const/static-table"),
    ("non_zero.rs", "NonZero<Uint<LIMBS>>", "from_u16", "uint/producers, const/static-table"),
    ("non_zero.rs", "NonZero<Uint<LIMBS>>", "from_u32", "uint/producers, const/static-table"),
    ("non_zero.rs", "NonZero<Uint<LIMBS>>", "from_u64", "uint/producers, const/static-table"),
    ("non_zero.rs", "NonZero<Uint<LIMBS>>", "from_u128", "uint/producers, const/static-table"),
    ("non_zero.rs", "NonZero<Int<LIMBS>>", "abs_sign", "int/producers"),
    ("non_zero.rs", "T: ArrayEncoding + Zero", "from_be_byte_array", "uint/decode+monty"),
    ("non_zero.rs", "T: ArrayEncoding + Zero", "from_le_byte_array", "uint/decode+monty (F-12c matcher)"),
    ("non_zero.rs", "ConditionallySelectable for NonZero<T>", "conditional_select", "*/producers (select forms)"),
    ("non_zero.rs", "Default for NonZero<T>", "default", "*/producers (+ CtOption::map route)"),
    ("non_zero.rs", "Random for NonZero<T>", "try_random", "random/fixed"),
    ("non_zero.rs", "From<NonZeroU8> for NonZero<Limb>", "from", "limb/producers"),
    ("non_zero.rs", "From<NonZeroU16> for NonZero<Limb>", "from", "limb/producers"),
    ("non_zero.rs", "From<NonZeroU32> for NonZero<Limb>", "from", "limb/producers"),
    ("non_zero.rs", "From<NonZeroU64> for NonZero<Limb>", "from", "limb/producers"),
    ("non_zero.rs", "From<NonZeroU8> for NonZero<Uint<LIMBS>>", "from", "uint/producers"),
    ("non_zero.rs", "From<NonZeroU16> for NonZero<Uint<LIMBS>>", "from", "uint/producers"),
    ("non_zero.rs", "From<NonZeroU32> for NonZero<Uint<LIMBS>>", "from", "uint/producers"),
    ("non_zero.rs", "From<NonZeroU64> for NonZero<Uint<LIMBS>>", "from", "uint/producers"),
    ("non_zero.rs", "From<NonZeroU128> for NonZero<Uint<LIMBS>>", "from", "uint/producers"),
    ("non_zero.rs", "Deserialize<'de> for NonZero<T>", "deserialize", "uint/serde, limb/serde"),
    ("non_zero.rs", "Zeroize for NonZero<T>", "zeroize", "zeroize/* (F-12d matcher)"),
    // odd.rs
    ("odd.rs", "Default for Odd<T>", "default", "*/producers (F-12a matcher)"),
    ("odd.rs", "impl<T> Odd<T>", "new", "uint/producers, boxed/producers"),
    ("odd.rs", "impl<T> Odd<T>", "as_nz_ref", "uint/producers, int/producers, boxed/producers"),
    ("odd.rs", "Odd<Uint<LIMBS>>", "from_be_hex", "uint/producers, const/static-table"),
    ("odd.rs", "Odd<Uint<LIMBS>>", "from_le_hex", "uint/producers, const/static-table (F-12b matcher)"),
    ("odd.rs", "AsRef<NonZero<T>> for Odd<T>", "as_ref", "uint/producers, boxed/producers"),
    ("odd.rs", "ConditionallySelectable for Odd<T>", "conditional_select", "uint/producers, int/producers (select forms)"),
    ("odd.rs", "Random for Odd<Uint<LIMBS>>", "try_random", "random/fixed"),
    ("odd.rs", "impl Odd<BoxedUint>", "random", "random/boxed-odd"),
    ("odd.rs", "Deserialize<'de> for Odd<T>", "deserialize", "uint/serde"),
    ("odd.rs", "Zeroize for Odd<T>", "zeroize", "zeroize/* (F-12d matcher)"),
    // conversions on the integer types
    ("uint.rs", "impl<const LIMBS: usize> Uint<LIMBS>", "to_nz", "uint/producers, const/static-table"),
    ("uint.rs", "impl<const LIMBS: usize> Uint<LIMBS>", "to_odd", "uint/producers, const/static-table"),
    ("int.rs", "impl<const LIMBS: usize> Int<LIMBS>", "to_nz", "int/producers"),
    ("int.rs", "impl<const LIMBS: usize> Int<LIMBS>", "to_odd", "int/producers"),
    ("limb.rs", "impl Limb", "to_nz", "limb/producers, const/static-table"),
    ("uint/boxed.rs", "impl BoxedUint", "to_odd", "boxed/producers"),
    ("uint/boxed.rs", "impl NonZero<BoxedUint>", "widen", "boxed/producers"),
    ("uint/boxed/from.rs", "From<Odd<Uint<LIMBS>>> for Odd<BoxedUint>", "from", "uint/producers"),
    ("uint/boxed/from.rs", "From<&Odd<Uint<LIMBS>>> for Odd<BoxedUint>", "from", "uint/producers"),
    ("const_choice.rs", "ConstCtOption<NonZero<Uint<LIMBS>>>", "expect", "uint/producers, const/static-table"),
    ("const_choice.rs", "ConstCtOption<Odd<Uint<LIMBS>>>", "expect", "uint/producers, const/static-table"),
    ("const_choice.rs", "ConstCtOption<NonZero<Limb>>", "expect", "limb/producers, const/static-table"),
    // Monty parameters
    ("modular/const_monty_form.rs", "trait ConstMontyParams", "MODULUS", "const/static-table"),
    ("modular/const_monty_form/macros.rs", "ConstMontyParams", "MODULUS", "const/static-table (impl_modulus!)"),
    ("modular/monty_form.rs", "impl<const LIMBS: usize> MontyParams<LIMBS>", "modulus", "uint/producers, uint/decode+monty, const/static-table, zeroize/fixed"),
    ("modular/boxed_monty_form.rs", "impl BoxedMontyParams", "modulus", "boxed/producers, const/static-table"),
];

pub fn scan_case(_t: &mut Tape, c: &mut Case) -> CaseResult {
    let root = std::env::var("VERIF_REPO").unwrap_or_else(|_| "/repo".into());
    let src = Path::new(&root).join("src");
    let Some(items) = scan_tree(&src) else {
        c.label("scan: source tree not readable (self-check skipped)");
        c.skip();
        return Ok(());
    };
    c.num("items found", items.len() as u64);
    c.nontrivial(true);
    let mut used = vec![false; REGISTRY.len()];
    let mut unregistered = vec![];
    for it in &items {
        let hit = REGISTRY.iter().position(|(f, cx, n, _)| it.file == *f && it.name == *n && it.ctx.contains(cx));
        match hit {
            Some(k) => used[k] = true,
            None => {
                c.label(format!("scan: UNREGISTERED {} {}:{} [{}] :: {}", it.kind, it.file, it.line, it.ctx, it.name));
                unregistered.push(format!("{}:{} {}", it.file, it.line, it.name));
            }
        }
    }
    c.label(format!("scan: {} of {} source items are registered producers driven by the harness", items.len() - unregistered.len(), items.len()));
    for (k, (f, cx, n, _)) in REGISTRY.iter().enumerate() {
        if !used[k] {
            c.label(format!("scan: registry row without a source match: {f} [{cx}] :: {n}"));
        }
    }
    c.note("unregistered", || unregistered.join("; "));
    Ok(())
}
