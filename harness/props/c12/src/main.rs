fn main() {
    vmodel::cli_main(c12::spec())
}
