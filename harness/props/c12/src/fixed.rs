//! Producers of NonZero / Odd over the fixed-size types: Limb, Uint<N>, Int<N>.

use crate::*;
use core::num::{NonZeroU128, NonZeroU16, NonZeroU32, NonZeroU64, NonZeroU8};
use crypto_bigint::hybrid_array::Array;
use crypto_bigint::modular::MontyParams;
use crypto_bigint::subtle::{Choice, ConditionallySelectable, CtOption};
use crypto_bigint::{ArrayEncoding, ByteArray, Concat, ConstantTimeSelect, Encoding, Split};
use num_bigint::BigUint;

// ------------------------------------------------------------------------------------------------
// shared form macros

/// conditional_select / conditional_assign / conditional_swap and ct_select / ct_assign / ct_swap
/// between two valid wrapped values: the result is the documented operand (a for choice 0, b for
/// choice 1), hence valid.
macro_rules! select_forms {
    ($W:ident, $chk:ident, $ty:ty, $x:expr, $y:expr, $xl:expr, $yl:expr, $ch:expr, $tag:literal) => {{
        let (x, y): ($W<$ty>, $W<$ty>) = ($x, $y);
        let ch: bool = $ch;
        let choice = Choice::from(ch as u8);
        let (want, other): (&[u64], &[u64]) = if ch { (&$yl, &$xl) } else { (&$xl, &$yl) };
        $chk(concat!($tag, "::conditional_select"), &<$W<$ty> as ConditionallySelectable>::conditional_select(&x, &y, choice), want)?;
        let mut z = x;
        ConditionallySelectable::conditional_assign(&mut z, &y, choice);
        $chk(concat!($tag, "::conditional_assign"), &z, want)?;
        let (mut p, mut q) = (x, y);
        <$W<$ty> as ConditionallySelectable>::conditional_swap(&mut p, &mut q, choice);
        $chk(concat!($tag, "::conditional_swap (first)"), &p, want)?;
        $chk(concat!($tag, "::conditional_swap (second)"), &q, other)?;
        $chk(concat!($tag, "::ct_select"), &<$W<$ty> as ConstantTimeSelect>::ct_select(&x, &y, choice), want)?;
        let mut z = x;
        <$W<$ty> as ConstantTimeSelect>::ct_assign(&mut z, &y, choice);
        $chk(concat!($tag, "::ct_assign"), &z, want)?;
        let (mut p, mut q) = (x, y);
        <$W<$ty> as ConstantTimeSelect>::ct_swap(&mut p, &mut q, choice);
        $chk(concat!($tag, "::ct_swap (first)"), &p, want)?;
        $chk(concat!($tag, "::ct_swap (second)"), &q, other)?;
        // selection between CtOptions of valid values, then the some-ness decides
        let (ox, oy) = (CtOption::new(x, Choice::from(1)), CtOption::new(y, Choice::from(1)));
        let sel = CtOption::conditional_select(&ox, &oy, choice);
        $chk(concat!($tag, ": CtOption::conditional_select(..).unwrap()"), &sel.unwrap(), want)?;
    }};
}

/// `CtOption::map` hands the closure `select(Default::default(), value, is_some)`: whatever the
/// option holds, the closure must observe a valid wrapper.
macro_rules! map_route {
    ($inv:ident, $opt:expr, $tag:literal) => {{
        let mut seen = None;
        let _ = $opt.map(|w| {
            seen = Some(w);
            0u8
        });
        match seen {
            Some(w) => $inv(concat!($tag, ".map(closure): value seen by the closure"), &w)?,
            None => vfail!(concat!($tag, ".map: closure was not called")),
        }
    }};
}

// (path-scoped re-export so that surface.rs can use the same forms)
pub(crate) use select_forms;

/// F-12a: `Odd::<T>::default()` was the derived `Odd(0)`.
fn default_odd<T: Val>(what: &str, d: Odd<T>) -> CaseResult {
    let l = (*d).words();
    if is_zero(&l) {
        return Err(Fail::known("F-12a", format!("{what} holds the even value zero")));
    }
    inv_odd(what, &d)
}

/// primitive argument for from_u8 .. from_u128: truncations that are zero at some widths
fn prim128(t: &mut Tape) -> u128 {
    match t.weighted(&[2, 2, 2, 3, 3, 3]) {
        0 => 1,
        1 => 2,
        2 => u128::MAX,
        3 => 1u128 << t.pick(&[8u32, 16, 32, 64, 7, 15, 31, 63, 127]),
        4 => t.pick(&[0xffu128, 0x100, 0xffff, 0x1_0000, 0xffff_ffff, 0x1_0000_0000, u64::MAX as u128, (u64::MAX as u128) + 1, 0xff00, 0xfffe]),
        _ => ((gen::word(t) as u128) << 64) | gen::word(t) as u128,
    }
}

fn ext(x: u128, n: usize) -> Limbs {
    let mut v = vec![0u64; n];
    v[0] = x as u64;
    if n > 1 {
        v[1] = (x >> 64) as u64;
    }
    v
}

// ------------------------------------------------------------------------------------------------
// Limb

pub fn limb_value(t: &mut Tape) -> u64 {
    value(t, 1)[0]
}

pub fn limb_case(t: &mut Tape, c: &mut Case) -> CaseResult {
    let w = limb_value(t);
    let xw = valid_nz(t, 1)[0];
    let yw = valid_nz(t, 1)[0];
    let ch = t.bool();
    let prim = prim128(t);
    let dividend = gen::limbs(t, 2);
    c.num("a", w);
    c.num("x", xw);
    c.num("y", yw);
    c.num("choice", ch as u64);
    c.limbs("prim", &ext(prim, 2));
    c.limbs("dividend", &dividend);
    let cls = classify(c, &[w], true);
    let nzv = !cls.zero;
    let a = Limb(w);
    let al = [w];
    let xwl = [xw];

    // NonZero::new
    let r = NonZero::new(a);
    veq!(bool::from(r.is_some()), nzv, "NonZero::<Limb>::new(a).is_some()");
    expect_nz("NonZero::<Limb>::new(a)", r.into(), nzv, &al)?;
    let x = total("NonZero::new(x).unwrap()", || NonZero::new(Limb(xw)).unwrap())?;
    let y = total("NonZero::new(y).unwrap()", || NonZero::new(Limb(yw)).unwrap())?;
    chk_nz("NonZero::<Limb>::new(x)", &x, &[xw])?;
    chk_nz("NonZero::<Limb>::new(y)", &y, &[yw])?;
    chk_nz("NonZero::<Limb>::new(a).unwrap_or(x)", &NonZero::new(a).unwrap_or(x), if nzv { &al } else { &xwl })?;
    map_route!(inv_nz, NonZero::new(a), "NonZero::<Limb>::new(a)");

    // new_unwrap: "Panics if the value is zero"
    expect_nz("NonZero::<Limb>::new_unwrap(a) (panics iff zero)", guard(|| NonZero::<Limb>::new_unwrap(a)).ok(), nzv, &al)?;

    // Limb::to_nz: "Returns some if the original value is non-zero"
    veq!(bool::from(a.to_nz().is_some()), nzv, "Limb::to_nz().is_some()");
    veq!(bool::from(a.to_nz().is_none()), !nzv, "Limb::to_nz().is_none()");
    expect_nz("Limb::to_nz().expect(..) (panics iff none)", guard(|| a.to_nz().expect("c12")).ok(), nzv, &al)?;
    expect_nz("Limb::to_nz().unwrap() (panics iff none)", guard(|| a.to_nz().unwrap()).ok(), nzv, &al)?;
    expect_nz("Option::from(Limb::to_nz())", Option::from(a.to_nz()), nzv, &al)?;
    expect_nz("CtOption::from(Limb::to_nz())", Option::from(CtOption::from(a.to_nz())), nzv, &al)?;
    map_route!(inv_nz, CtOption::from(a.to_nz()), "CtOption::from(Limb::to_nz())");

    // primitives
    if let Some(p) = NonZeroU8::new(prim as u8) {
        chk_nz("NonZero::<Limb>::from_u8", &NonZero::<Limb>::from_u8(p), &[p.get() as u64])?;
        chk_nz("NonZero::<Limb>::from(NonZeroU8)", &NonZero::<Limb>::from(p), &[p.get() as u64])?;
    }
    if let Some(p) = NonZeroU16::new(prim as u16) {
        chk_nz("NonZero::<Limb>::from_u16", &NonZero::<Limb>::from_u16(p), &[p.get() as u64])?;
        chk_nz("NonZero::<Limb>::from(NonZeroU16)", &NonZero::<Limb>::from(p), &[p.get() as u64])?;
    }
    if let Some(p) = NonZeroU32::new(prim as u32) {
        chk_nz("NonZero::<Limb>::from_u32", &NonZero::<Limb>::from_u32(p), &[p.get() as u64])?;
        chk_nz("NonZero::<Limb>::from(NonZeroU32)", &NonZero::<Limb>::from(p), &[p.get() as u64])?;
    }
    if let Some(p) = NonZeroU64::new(prim as u64) {
        chk_nz("NonZero::<Limb>::from_u64", &NonZero::<Limb>::from_u64(p), &[p.get()])?;
        chk_nz("NonZero::<Limb>::from(NonZeroU64)", &NonZero::<Limb>::from(p), &[p.get()])?;
    }

    // byte decoding: the same byte string through both decoders
    let bs = w.to_be_bytes();
    let rev = limbs_from_le(&bs);
    expect_nz("NonZero::<Limb>::from_be_bytes", NonZero::<Limb>::from_be_bytes(bs).into(), nzv, &limbs_from_be(&bs))?;
    expect_nz("NonZero::<Limb>::from_le_bytes", NonZero::<Limb>::from_le_bytes(bs).into(), nzv, &rev)?;

    // constants
    chk_nz("NonZero::<Limb>::ONE", &NonZero::<Limb>::ONE, &[1])?;
    chk_nz("NonZero::<Limb>::MAX", &NonZero::<Limb>::MAX, &[M])?;
    inv_nz("NonZero::<Limb>::default()", &NonZero::<Limb>::default())?;
    default_odd("Odd::<Limb>::default()", Odd::<Limb>::default())?;

    select_forms!(NonZero, chk_nz, Limb, x, y, [xw], [yw], ch, "NonZero<Limb>");

    // accessors agree
    veq!(x.get().0, xw, "NonZero::get");
    veq!(x.as_ref().0, xw, "NonZero::as_ref");
    veq!(AsRef::<Limb>::as_ref(&x).0, xw, "AsRef<Limb> for NonZero");

    // consumer: a produced NonZero<Limb> is a usable divisor
    let d = if nzv { NonZero::new(a).unwrap() } else { x };
    let dw = d.0;
    let num = uint::<2>(&dividend);
    let (q, rem) = total("Uint::div_rem_limb(produced NonZero<Limb>)", || num.div_rem_limb(d))?;
    let (bq, br) = (big(&dividend) / BigUint::from(dw), big(&dividend) % BigUint::from(dw));
    veq!(ubig(&q), bq, "div_rem_limb quotient with a produced divisor");
    veq!(BigUint::from(rem.0), br, "div_rem_limb remainder with a produced divisor");
    Ok(())
}

// ------------------------------------------------------------------------------------------------
// Uint<N>, any N

fn hex_malform(t: &mut Tape, s: &str) -> (String, &'static str) {
    let mut b = s.as_bytes().to_vec();
    let kind = match t.below(8) {
        7 => {
            // a non-ASCII character in place of two / three digits (the byte length is kept): its
            // UTF-8 bytes are 0xC2..=0xEF followed by 0x80..=0xBF, which a decoder that masks or
            // truncates the byte value could take for digits
            let three = b.len() >= 3 && t.bool();
            let cp = if three { t.range(0x800, 0xFFFF) as u32 } else { t.range(0x80, 0x7FF) as u32 };
            let ch = char::from_u32(cp).unwrap_or('\u{00f1}');
            let mut buf = [0u8; 4];
            let enc = ch.encode_utf8(&mut buf).as_bytes().to_vec();
            let i = t.index(b.len() + 1 - enc.len());
            b.splice(i..i + enc.len(), enc);
            "non-ASCII character"
        }
        0 => {
            b.truncate(b.len() - 2);
            "two characters short"
        }
        1 => {
            b.splice(0..0, *b"00");
            "two characters long"
        }
        2 => {
            b.pop();
            "odd number of characters"
        }
        3 => {
            let i = t.index(b.len());
            b[i] = if t.bool() {
                t.pick(b"gG zx+-/:@`")
            } else {
                // any 7-bit byte that is not a hex digit (control characters included)
                let mut ch = t.below(128) as u8;
                if ch.is_ascii_hexdigit() {
                    ch = b'g';
                }
                ch
            };
            "invalid character"
        }
        4 => {
            b[0] = b'0';
            b[1] = b'x';
            "0x prefix"
        }
        5 => {
            b.clear();
            "empty"
        }
        _ => {
            b.push(b'1');
            "one character long"
        }
    };
    (String::from_utf8(b).unwrap(), kind)
}

pub fn uint_core_case<const N: usize>(t: &mut Tape, c: &mut Case) -> CaseResult {
    let al = value(t, N);
    let xl = valid_nz(t, N);
    let yl = valid_nz(t, N);
    let pl = valid_odd(t, N);
    let ql = valid_odd(t, N);
    let ch = t.bool();
    let prim = prim128(t);
    c.limbs("a", &al);
    c.limbs("x", &xl);
    c.limbs("y", &yl);
    c.limbs("p", &pl);
    c.limbs("q", &ql);
    c.num("choice", ch as u64);
    c.limbs("prim", &ext(prim, 2));
    let cls = classify(c, &al, true);
    let (nzv, oddv) = (!cls.zero, cls.odd);
    let a = uint::<N>(&al);

    // ---- NonZero from a value
    let r = NonZero::new(a);
    veq!(bool::from(r.is_some()), nzv, "NonZero::new(a).is_some()");
    expect_nz("NonZero::new(a)", r.into(), nzv, &al)?;
    let x = total("NonZero::new(x).unwrap()", || NonZero::new(uint::<N>(&xl)).unwrap())?;
    let y = total("NonZero::new(y).unwrap()", || NonZero::new(uint::<N>(&yl)).unwrap())?;
    chk_nz("NonZero::new(x)", &x, &xl)?;
    chk_nz("NonZero::new(y)", &y, &yl)?;
    chk_nz("NonZero::new(a).unwrap_or(x)", &NonZero::new(a).unwrap_or(x), if nzv { &al } else { &xl })?;
    map_route!(inv_nz, NonZero::new(a), "NonZero::new(a)");
    expect_nz("NonZero::<Uint>::new_unwrap(a) (panics iff zero)", guard(|| NonZero::<Uint<N>>::new_unwrap(a)).ok(), nzv, &al)?;
    veq!(bool::from(a.to_nz().is_some()), nzv, "Uint::to_nz().is_some()");
    veq!(bool::from(a.to_nz().is_none()), !nzv, "Uint::to_nz().is_none()");
    expect_nz("Uint::to_nz().expect(..) (panics iff none)", guard(|| a.to_nz().expect("c12")).ok(), nzv, &al)?;
    expect_nz("Uint::to_nz().unwrap() (panics iff none)", guard(|| a.to_nz().unwrap()).ok(), nzv, &al)?;
    expect_nz("Option::from(Uint::to_nz())", Option::from(a.to_nz()), nzv, &al)?;
    expect_nz("CtOption::from(Uint::to_nz())", Option::from(CtOption::from(a.to_nz())), nzv, &al)?;
    map_route!(inv_nz, CtOption::from(a.to_nz()), "CtOption::from(Uint::to_nz())");

    // ---- Odd from a value
    let r = Odd::new(a);
    veq!(bool::from(r.is_some()), oddv, "Odd::new(a).is_some()");
    expect_odd("Odd::new(a)", r.into(), oddv, &al)?;
    let p = total("Odd::new(p).unwrap()", || Odd::new(uint::<N>(&pl)).unwrap())?;
    let q = total("Odd::new(q).unwrap()", || Odd::new(uint::<N>(&ql)).unwrap())?;
    chk_odd("Odd::new(p)", &p, &pl)?;
    chk_odd("Odd::new(q)", &q, &ql)?;
    match guard(|| Odd::new(a).unwrap_or(p)) {
        Ok(o) => chk_odd("Odd::new(a).unwrap_or(p)", &o, if oddv { &al } else { &pl })?,
        Err(m) => vfail!("Odd::new(a).unwrap_or(p): unexpected panic: {m}"),
    }
    {
        // CtOption::map needs Odd: Default; the closure sees select(default, value, is_some)
        let mut seen = None;
        let _ = Odd::new(a).map(|w| {
            seen = Some(w);
            0u8
        });
        match seen {
            Some(w) if !oddv => default_odd("Odd::new(even).map(closure): value seen by the closure (= Odd::default())", w)?,
            Some(w) => chk_odd("Odd::new(a).map(closure): value seen by the closure", &w, &al)?,
            None => vfail!("Odd::new(a).map: closure was not called"),
        }
    }
    veq!(bool::from(a.to_odd().is_some()), oddv, "Uint::to_odd().is_some()");
    veq!(bool::from(a.to_odd().is_none()), !oddv, "Uint::to_odd().is_none()");
    expect_odd("Uint::to_odd().expect(..) (panics iff none)", guard(|| a.to_odd().expect("c12")).ok(), oddv, &al)?;
    expect_odd("Uint::to_odd().unwrap() (panics iff none)", guard(|| a.to_odd().unwrap()).ok(), oddv, &al)?;
    expect_odd("Option::from(Uint::to_odd())", Option::from(a.to_odd()), oddv, &al)?;
    expect_odd("CtOption::from(Uint::to_odd())", Option::from(CtOption::from(a.to_odd())), oddv, &al)?;

    // ---- hex: the big-endian byte string of `a`, through both hex constructors
    // doc: "Panics if the hex is malformed or not zero-padded accordingly for the size, or if the value is even."
    let bs = be_bytes(&al);
    let hx = hex_lower(&bs);
    let (be_val, le_val) = (limbs_from_be(&bs), limbs_from_le(&bs));
    expect_odd("Odd::from_be_hex", guard(|| Odd::<Uint<N>>::from_be_hex(&hx)).ok(), be_val[0] & 1 == 1, &be_val)?;
    {
        let got = guard(|| Odd::<Uint<N>>::from_le_hex(&hx)).ok();
        let (le_ok, be_ok) = (le_val[0] & 1 == 1, be_val[0] & 1 == 1);
        let matches = |ok: bool, want: &Limbs| match &got {
            Some(w) => ok && (**w).words() == *want,
            None => !ok,
        };
        if !matches(le_ok, &le_val) && be_val != le_val && matches(be_ok, &be_val) {
            return Err(Fail::known(
                "F-12b",
                format!("Odd::from_le_hex(\"{hx}\") behaves as the big-endian parser: {} (little-endian value {})", if be_ok { format!("returned {}", hex(&be_val)) } else { "panicked for the even big-endian value".into() }, hex(&le_val)),
            ));
        }
        expect_odd("Odd::from_le_hex", got, le_ok, &le_val)?;
    }
    if t.chance(1, 3) {
        let (bad, kind) = hex_malform(t, &hx);
        c.text("malformed hex", &bad);
        c.label(format!("hex malformed: {kind}"));
        c.nontrivial(true);
        if let Ok(w) = guard(|| Odd::<Uint<N>>::from_be_hex(&bad)) {
            inv_odd("Odd::from_be_hex(malformed)", &w)?;
            vfail!("Odd::from_be_hex accepted the malformed string {bad:?} ({kind}); documented to panic");
        }
        if let Ok(w) = guard(|| Odd::<Uint<N>>::from_le_hex(&bad)) {
            inv_odd("Odd::from_le_hex(malformed)", &w)?;
            vfail!("Odd::from_le_hex accepted the malformed string {bad:?} ({kind}); documented to panic");
        }
    }

    // ---- primitives
    if let Some(pr) = NonZeroU8::new(prim as u8) {
        chk_nz("NonZero::<Uint>::from_u8", &NonZero::<Uint<N>>::from_u8(pr), &ext(pr.get() as u128, N))?;
        chk_nz("NonZero::<Uint>::from(NonZeroU8)", &NonZero::<Uint<N>>::from(pr), &ext(pr.get() as u128, N))?;
    }
    if let Some(pr) = NonZeroU16::new(prim as u16) {
        chk_nz("NonZero::<Uint>::from_u16", &NonZero::<Uint<N>>::from_u16(pr), &ext(pr.get() as u128, N))?;
        chk_nz("NonZero::<Uint>::from(NonZeroU16)", &NonZero::<Uint<N>>::from(pr), &ext(pr.get() as u128, N))?;
    }
    if let Some(pr) = NonZeroU32::new(prim as u32) {
        chk_nz("NonZero::<Uint>::from_u32", &NonZero::<Uint<N>>::from_u32(pr), &ext(pr.get() as u128, N))?;
        chk_nz("NonZero::<Uint>::from(NonZeroU32)", &NonZero::<Uint<N>>::from(pr), &ext(pr.get() as u128, N))?;
    }
    if let Some(pr) = NonZeroU64::new(prim as u64) {
        chk_nz("NonZero::<Uint>::from_u64", &NonZero::<Uint<N>>::from_u64(pr), &ext(pr.get() as u128, N))?;
        chk_nz("NonZero::<Uint>::from(NonZeroU64)", &NonZero::<Uint<N>>::from(pr), &ext(pr.get() as u128, N))?;
    }
    if let Some(pr) = NonZeroU128::new(prim) {
        // a 128-bit value does not fit Uint<1>: the constructor may only fail there, never truncate
        let fits = N >= 2;
        for (name, got) in [("NonZero::<Uint>::from_u128", guard(|| NonZero::<Uint<N>>::from_u128(pr))), ("NonZero::<Uint>::from(NonZeroU128)", guard(|| NonZero::<Uint<N>>::from(pr)))] {
            match got {
                Ok(w) => {
                    inv_nz(name, &w)?;
                    vensure!(fits || prim >> 64 == 0, "{name}: returned {} for the 128-bit argument {prim:#x}, which does not fit", hex(&(*w).words()));
                    chk_nz(name, &w, &ext(prim, N))?;
                }
                Err(m) => vensure!(!fits, "{name}: unexpected panic: {m}"),
            }
        }
    }

    // ---- constants, Default
    let mut one = vec![0u64; N];
    one[0] = 1;
    chk_nz("NonZero::<Uint>::ONE", &NonZero::<Uint<N>>::ONE, &one)?;
    chk_nz("NonZero::<Uint>::MAX", &NonZero::<Uint<N>>::MAX, &vec![M; N])?;
    inv_nz("NonZero::<Uint>::default()", &NonZero::<Uint<N>>::default())?;
    default_odd("Odd::<Uint>::default()", Odd::<Uint<N>>::default())?;

    // ---- selection between valid values
    select_forms!(NonZero, chk_nz, Uint<N>, x, y, xl, yl, ch, "NonZero<Uint>");
    select_forms!(Odd, chk_odd, Uint<N>, p, q, pl, ql, ch, "Odd<Uint>");

    // ---- views and conversions of a valid Odd
    chk_nz("Odd::as_nz_ref", p.as_nz_ref(), &pl)?;
    chk_nz("AsRef<NonZero<T>> for Odd", AsRef::<NonZero<Uint<N>>>::as_ref(&p), &pl)?;
    veq!(ul(&p.get()), pl, "Odd::get");
    veq!(ul(p.as_ref()), pl, "Odd::as_ref");
    veq!(ul(&x.get()), xl, "NonZero::get");
    veq!(ul(x.as_ref()), xl, "NonZero::as_ref");
    let bo: Odd<BoxedUint> = Odd::<BoxedUint>::from(p);
    chk_odd("Odd::<BoxedUint>::from(Odd<Uint>)", &bo, &pl)?;
    let bo: Odd<BoxedUint> = Odd::<BoxedUint>::from(&p);
    chk_odd("Odd::<BoxedUint>::from(&Odd<Uint>)", &bo, &pl)?;
    chk_nz("Odd<BoxedUint>::as_nz_ref (from Odd<Uint>)", bo.as_nz_ref(), &pl)?;

    // ---- Monty parameters hand back the modulus they were built from
    let params = total("MontyParams::new_vartime(odd)", || MontyParams::<N>::new_vartime(p))?;
    chk_odd("MontyParams::new_vartime(p).modulus()", params.modulus(), &pl)?;

    // ---- consumers: a produced NonZero is a usable divisor
    let d = if nzv { NonZero::new(a).unwrap() } else { x };
    let dl = if nzv { &al } else { &xl };
    let num = uint::<N>(&ql);
    let (quo, rem) = total("Uint::div_rem(produced NonZero)", || num.div_rem(&d))?;
    veq!(ubig(&quo), big(&ql) / big(dl), "div_rem quotient with a produced divisor");
    veq!(ubig(&rem), big(&ql) % big(dl), "div_rem remainder with a produced divisor");
    let rem2 = total("Uint::rem_vartime(Odd::as_nz_ref())", || uint::<N>(&xl).rem_vartime(p.as_nz_ref()))?;
    veq!(ubig(&rem2), big(&xl) % big(&pl), "rem_vartime by Odd::as_nz_ref()");
    Ok(())
}

// ------------------------------------------------------------------------------------------------
// Uint<N> with Encoding / ArrayEncoding / Concat (the named sizes): byte decoders, MontyParams::new

fn arr<const N: usize>(bs: &[u8]) -> ByteArray<Uint<N>>
where
    Uint<N>: ArrayEncoding,
{
    let mut a: ByteArray<Uint<N>> = Array::default();
    a.copy_from_slice(bs);
    a
}

pub fn uint_enc_case<const N: usize, const B: usize, const W: usize>(t: &mut Tape, c: &mut Case) -> CaseResult
where
    Uint<N>: Encoding<Repr = [u8; B]> + ArrayEncoding + Concat<Output = Uint<W>>,
    Uint<W>: Split<Output = Uint<N>>,
{
    let al = value(t, N);
    let pl = valid_odd(t, N);
    let garbage = match t.weighted(&[3, 1, 1]) {
        0 => gen::bytes(t, B),
        1 => vec![0u8; B],
        _ => {
            // a single non-zero byte at either end
            let mut g = vec![0u8; B];
            let i = if t.bool() { 0 } else { B - 1 };
            g[i] = t.pick(&[1u8, 2, 0x80, 0xff]);
            g
        }
    };
    c.limbs("a", &al);
    c.limbs("p", &pl);
    c.bytes("bytes", &garbage);
    let cls = classify(c, &al, true);
    let _ = cls;
    if garbage.iter().all(|&b| b == 0) {
        c.label("bytes: all zero");
        c.nontrivial(true);
    }
    let g_rev: Vec<u8> = garbage.iter().rev().copied().collect();
    if g_rev != garbage {
        c.label("bytes: not a palindrome");
    }

    for (src, bs) in [("a", be_bytes(&al)), ("bytes", garbage.clone())] {
        let (be_val, le_val) = (limbs_from_be(&bs), limbs_from_le(&bs));
        let some = !is_zero(&be_val);
        let repr: [u8; B] = bs.clone().try_into().expect("harness: B bytes");
        let r = NonZero::<Uint<N>>::from_be_bytes(repr);
        veq!(bool::from(r.is_some()), some, "NonZero::from_be_bytes({src}).is_some()");
        expect_nz("NonZero::from_be_bytes", r.into(), some, &be_val)?;
        let r = NonZero::<Uint<N>>::from_le_bytes(repr);
        veq!(bool::from(r.is_some()), some, "NonZero::from_le_bytes({src}).is_some()");
        expect_nz("NonZero::from_le_bytes", r.into(), some, &le_val)?;
        let r = NonZero::<Uint<N>>::from_be_byte_array(arr::<N>(&bs));
        veq!(bool::from(r.is_some()), some, "NonZero::from_be_byte_array({src}).is_some()");
        expect_nz("NonZero::from_be_byte_array", r.into(), some, &be_val)?;
        let r = NonZero::<Uint<N>>::from_le_byte_array(arr::<N>(&bs));
        veq!(bool::from(r.is_some()), some, "NonZero::from_le_byte_array({src}).is_some()");
        let got: Option<NonZero<Uint<N>>> = r.into();
        if let Some(w) = &got {
            if be_val != le_val && (**w).words() == be_val {
                return Err(Fail::known(
                    "F-12c",
                    format!("NonZero::from_le_byte_array({}) decoded big-endian: got {}, little-endian value is {}", hex_lower(&bs), hex(&be_val), hex(&le_val)),
                ));
            }
        }
        expect_nz("NonZero::from_le_byte_array", got, some, &le_val)?;
        map_route!(inv_nz, NonZero::<Uint<N>>::from_le_byte_array(arr::<N>(&bs)), "NonZero::from_le_byte_array(bytes)");
        map_route!(inv_nz, NonZero::<Uint<N>>::from_be_bytes(repr), "NonZero::from_be_bytes(bytes)");
    }

    // MontyParams::new (constant-time constructor; needs Concat/Split)
    let p = total("Odd::new(p).unwrap()", || Odd::new(uint::<N>(&pl)).unwrap())?;
    let params = total("MontyParams::new(odd)", || MontyParams::<N>::new(p))?;
    chk_odd("MontyParams::new(p).modulus()", params.modulus(), &pl)?;
    chk_nz("MontyParams::new(p).modulus().as_nz_ref()", params.modulus().as_nz_ref(), &pl)?;
    Ok(())
}

// ------------------------------------------------------------------------------------------------
// Int<N>

pub fn int_case<const N: usize>(t: &mut Tape, c: &mut Case) -> CaseResult {
    let al = value(t, N);
    let xl = valid_nz(t, N);
    let yl = valid_nz(t, N);
    let pl = valid_odd(t, N);
    let ql = valid_odd(t, N);
    let ch = t.bool();
    c.limbs("a", &al);
    c.limbs("x", &xl);
    c.limbs("y", &yl);
    c.limbs("p", &pl);
    c.limbs("q", &ql);
    c.num("choice", ch as u64);
    let cls = classify(c, &al, false);
    let (nzv, oddv) = (!cls.zero, cls.odd);
    let is_min = |l: &[u64]| l[N - 1] == 1 << 63 && l[..N - 1].iter().all(|&w| w == 0);
    if is_min(&al) {
        c.label("arg: Int::MIN");
        c.nontrivial(true);
    }
    if al[N - 1] >> 63 == 1 {
        c.label("arg: negative");
    }
    let a = int::<N>(&al);

    let r = NonZero::new(a);
    veq!(bool::from(r.is_some()), nzv, "NonZero::<Int>::new(a).is_some()");
    expect_nz("NonZero::<Int>::new(a)", r.into(), nzv, &al)?;
    let x = total("NonZero::new(x).unwrap()", || NonZero::new(int::<N>(&xl)).unwrap())?;
    let y = total("NonZero::new(y).unwrap()", || NonZero::new(int::<N>(&yl)).unwrap())?;
    chk_nz("NonZero::<Int>::new(x)", &x, &xl)?;
    chk_nz("NonZero::<Int>::new(y)", &y, &yl)?;
    chk_nz("NonZero::<Int>::new(a).unwrap_or(x)", &NonZero::new(a).unwrap_or(x), if nzv { &al } else { &xl })?;
    map_route!(inv_nz, NonZero::new(a), "NonZero::<Int>::new(a)");

    veq!(bool::from(a.to_nz().is_some()), nzv, "Int::to_nz().is_some()");
    veq!(bool::from(a.to_nz().is_none()), !nzv, "Int::to_nz().is_none()");
    expect_nz("Int::to_nz().unwrap() (panics iff none)", guard(|| a.to_nz().unwrap()).ok(), nzv, &al)?;
    expect_nz("Option::from(Int::to_nz())", Option::from(a.to_nz()), nzv, &al)?;
    expect_nz("CtOption::from(Int::to_nz())", Option::from(CtOption::from(a.to_nz())), nzv, &al)?;
    map_route!(inv_nz, CtOption::from(a.to_nz()), "CtOption::from(Int::to_nz())");

    veq!(bool::from(a.to_odd().is_some()), oddv, "Int::to_odd().is_some()");
    veq!(bool::from(a.to_odd().is_none()), !oddv, "Int::to_odd().is_none()");
    expect_odd("Int::to_odd().unwrap() (panics iff none)", guard(|| a.to_odd().unwrap()).ok(), oddv, &al)?;
    expect_odd("Option::from(Int::to_odd())", Option::from(a.to_odd()), oddv, &al)?;
    expect_odd("CtOption::from(Int::to_odd())", Option::from(CtOption::from(a.to_odd())), oddv, &al)?;
    let p = total("Int::to_odd().unwrap() of p", || int::<N>(&pl).to_odd().unwrap())?;
    let q = total("Int::to_odd().unwrap() of q", || int::<N>(&ql).to_odd().unwrap())?;
    chk_odd("Int::to_odd() of p", &p, &pl)?;
    chk_odd("Int::to_odd() of q", &q, &ql)?;
    {
        let o: CtOption<Odd<Int<N>>> = a.to_odd().into();
        chk_odd("CtOption::from(Int::to_odd()).unwrap_or(p)", &o.unwrap_or(p), if oddv { &al } else { &pl })?;
        let mut seen = None;
        let o: CtOption<Odd<Int<N>>> = a.to_odd().into();
        let _ = o.map(|w| {
            seen = Some(w);
            0u8
        });
        match seen {
            Some(w) if !oddv => default_odd("Int::to_odd() of an even value, .map(closure): value seen by the closure (= Odd::default())", w)?,
            Some(w) => chk_odd("Int::to_odd().map(closure)", &w, &al)?,
            None => vfail!("CtOption::map: closure was not called"),
        }
    }

    // constants
    let mut one = vec![0u64; N];
    one[0] = 1;
    let mut imax = vec![M; N];
    imax[N - 1] = M >> 1;
    chk_nz("NonZero::<Int>::ONE", &NonZero::<Int<N>>::ONE, &one)?;
    chk_nz("NonZero::<Int>::MAX", &NonZero::<Int<N>>::MAX, &imax)?;
    inv_nz("NonZero::<Int>::default()", &NonZero::<Int<N>>::default())?;
    default_odd("Odd::<Int>::default()", Odd::<Int<N>>::default())?;

    select_forms!(NonZero, chk_nz, Int<N>, x, y, xl, yl, ch, "NonZero<Int>");
    select_forms!(Odd, chk_odd, Int<N>, p, q, pl, ql, ch, "Odd<Int>");
    chk_nz("Odd<Int>::as_nz_ref", p.as_nz_ref(), &pl)?;

    // abs_sign: magnitude of a non-zero Int is a non-zero Uint (|MIN| = 2^(B-1))
    for (src, w, l) in [("x", x, &xl), ("y", y, &yl)] {
        let (mag, sign) = total("NonZero<Int>::abs_sign", || w.abs_sign())?;
        let v = sbig(l);
        let neg = v.sign() == num_bigint::Sign::Minus;
        let want = limbs_of(v.magnitude(), N);
        chk_nz("NonZero<Int>::abs_sign magnitude", &mag, &want)?;
        veq!(bool::from(sign), neg, "NonZero<Int>::abs_sign({src}) sign (true = negative)");
        if is_min(l) {
            c.label("abs_sign of Int::MIN");
        }
    }
    Ok(())
}
