//! API-surface audit (see /verif/audit/F.md): instantiation families of the `NonZero` / `Odd` producers
//! that the other modules do not reach.
//!
//! * `NonZero<T>` is generic over every `T: Zero`; besides Limb / Uint / Int / BoxedUint the crate makes
//!   `Wrapping<T>` (own `impl Zero for Wrapping<T>`, wrapping.rs) and `ConstMontyForm` (own `ConstZero`
//!   + `ConstantTimeEq`, const_monty_form.rs) eligible. `NonZero::new`, `ConditionallySelectable`,
//!   `Random` (rejection sampling) and `Deserialize` are driven with these inner types here.
//! * The existing case functions are additionally registered at limb counts that are not a power of
//!   two (3, 5, 6, 7) for the families that so far only ran 1, 2, 4 (8, 16).
//!
//! Expected results come from the C12 statement (a produced `NonZero` never holds zero; selection
//! between valid values yields the documented operand; random generation / deserialization yield a
//! valid value or fail) and from the item docs quoted at the assertions.

use crate::fixed::select_forms;
use crate::random::{nz_finite, nz_infinite, stream};
use crate::*;
use crypto_bigint::modular::{ConstMontyForm, ConstMontyParams};
use crypto_bigint::subtle::{Choice, ConditionallySelectable, CtOption};
use crypto_bigint::{impl_modulus, ConstantTimeSelect, Encoding, Wrapping, U192, U256, U64};
use serde::de::DeserializeOwned;

impl<T: Val> Val for Wrapping<T> {
    fn words(&self) -> Limbs {
        self.0.words()
    }
}
impl<MOD: ConstMontyParams<N>, const N: usize> Val for ConstMontyForm<MOD, N> {
    /// the Montgomery representative: zero iff the residue is zero (0·R mod m = 0)
    fn words(&self) -> Limbs {
        self.as_montgomery().as_words().to_vec()
    }
}

/// a panic while decoding is a failure to produce a value, like an error
fn from_bin<T: DeserializeOwned>(b: &[u8]) -> Option<T> {
    use bincode::Options;
    let opts = || bincode::DefaultOptions::new().with_fixint_encoding().allow_trailing_bytes().with_limit(1 << 20);
    guard(|| opts().deserialize::<T>(b).ok()).ok().flatten()
}
fn from_json<T: DeserializeOwned>(s: &str) -> Option<T> {
    guard(|| serde_json::from_str::<T>(s).ok()).ok().flatten()
}

// ------------------------------------------------------------------------------------------------
// NonZero<Wrapping<Uint<N>>>, NonZero<Wrapping<Limb>>

pub fn wrapping_uint_case<const N: usize, const B: usize>(t: &mut Tape, c: &mut Case) -> CaseResult
where
    Uint<N>: Encoding<Repr = [u8; B]>,
{
    let al = value(t, N);
    let xl = valid_nz(t, N);
    let yl = valid_nz(t, N);
    let ch = t.bool();
    let words = stream(t, N);
    let tail = t.u64();
    c.limbs("a", &al);
    c.limbs("x", &xl);
    c.limbs("y", &yl);
    c.num("choice", ch as u64);
    c.limbs("stream", &words);
    c.num("tail seed", tail);
    let cls = classify(c, &al, false);
    let nzv = !cls.zero;
    if words.first() == Some(&0) {
        c.label("rng: stream starts with a zero word");
        c.nontrivial(true);
    }
    let a = Wrapping(uint::<N>(&al));

    // NonZero::new — "Create a new non-zero integer." (some iff the argument is not zero)
    let r = NonZero::new(a);
    veq!(bool::from(r.is_some()), nzv, "NonZero::<Wrapping<Uint>>::new(a).is_some()");
    expect_nz("NonZero::<Wrapping<Uint>>::new(a)", r.into(), nzv, &al)?;
    let x = total("NonZero::new(Wrapping(x)).unwrap()", || NonZero::new(Wrapping(uint::<N>(&xl))).unwrap())?;
    let y = total("NonZero::new(Wrapping(y)).unwrap()", || NonZero::new(Wrapping(uint::<N>(&yl))).unwrap())?;
    chk_nz("NonZero::<Wrapping<Uint>>::new(x)", &x, &xl)?;
    chk_nz("NonZero::<Wrapping<Uint>>::new(a).unwrap_or(x)", &NonZero::new(a).unwrap_or(x), if nzv { &al } else { &xl })?;
    // the single-limb wrapper
    let aw = Wrapping(Limb(al[0]));
    let r = NonZero::new(aw);
    veq!(bool::from(r.is_some()), al[0] != 0, "NonZero::<Wrapping<Limb>>::new.is_some()");
    expect_nz("NonZero::<Wrapping<Limb>>::new", r.into(), al[0] != 0, &al[..1])?;

    // selection between valid values: "a if choice == Choice(0); b if choice == Choice(1)"
    select_forms!(NonZero, chk_nz, Wrapping<Uint<N>>, x, y, xl, yl, ch, "NonZero<Wrapping<Uint>>");

    // Random for NonZero<T>: "This uses rejection sampling to avoid zero."
    nz_finite::<Wrapping<Uint<N>>>("NonZero::<Wrapping<Uint>>::try_random", &words, c)?;
    nz_infinite::<Wrapping<Uint<N>>>("NonZero::<Wrapping<Uint>>::random", &words, tail)?;
    nz_finite::<Wrapping<Limb>>("NonZero::<Wrapping<Limb>>::try_random", &words, c)?;
    nz_infinite::<Wrapping<Limb>>("NonZero::<Wrapping<Limb>>::random", &words, tail)?;

    // Deserialize for NonZero<T>: the wire form is the inner integer's own; zero must be refused
    let inner = uint::<N>(&al);
    let wire = total("bincode::serialize(Uint)", || bincode::serialize(&inner).unwrap())?;
    let js = total("serde_json::to_string(Uint)", || serde_json::to_string(&inner).unwrap())?;
    expect_nz("bincode deserialize::<NonZero<Wrapping<Uint>>>", from_bin::<NonZero<Wrapping<Uint<N>>>>(&wire), nzv, &al)?;
    expect_nz("json deserialize::<NonZero<Wrapping<Uint>>>", from_json::<NonZero<Wrapping<Uint<N>>>>(&js), nzv, &al)?;
    let wire = total("bincode::serialize(Limb)", || bincode::serialize(&Limb(al[0])).unwrap())?;
    expect_nz("bincode deserialize::<NonZero<Wrapping<Limb>>>", from_bin::<NonZero<Wrapping<Limb>>>(&wire), al[0] != 0, &al[..1])?;
    // round trip of a valid wrapper through its own Serialize
    let bx = total("bincode::serialize(NonZero<Wrapping<Uint>>)", || bincode::serialize(&x).unwrap())?;
    expect_nz("bincode round trip NonZero<Wrapping<Uint>>", from_bin::<NonZero<Wrapping<Uint<N>>>>(&bx), true, &xl)?;
    Ok(())
}

// ------------------------------------------------------------------------------------------------
// NonZero<Wrapping<BoxedUint>>: the zero test has to look at every limb of a runtime precision

pub fn wrapping_boxed_case(t: &mut Tape, c: &mut Case) -> CaseResult {
    let n = t.pick(&[1usize, 2, 3, 4, 5, 7, 8, 9, 17]);
    let al = value(t, n);
    c.limbs("a", &al);
    let cls = classify(c, &al, false);
    let nzv = !cls.zero;
    if n > 1 && cls.zero {
        c.label("arg: multi-limb zero (differs in precision from Zero::zero())");
    }
    let r = total("NonZero::new(Wrapping(BoxedUint))", || NonZero::new(Wrapping(boxed(&al))))?;
    veq!(bool::from(r.is_some()), nzv, "NonZero::<Wrapping<BoxedUint>>::new(a).is_some()");
    expect_nz("NonZero::<Wrapping<BoxedUint>>::new(a)", r.into(), nzv, &al)?;
    expect_nz("NonZero::<Wrapping<BoxedUint>>::new(a).unwrap() (panics iff none)", guard(|| NonZero::new(Wrapping(boxed(&al))).unwrap()).ok(), nzv, &al)?;
    Ok(())
}

// ------------------------------------------------------------------------------------------------
// NonZero<ConstMontyForm<MOD, N>>

impl_modulus!(S64, U64, "ffffffffffffffc5");
impl_modulus!(S192, U192, "fffffffffffffffffffffffffffffffeffffffffffffffff");
impl_modulus!(S256Small, U256, "00000000000000000000000000000000000000000000000100000000000000d1");

pub fn const_monty_case<MOD: ConstMontyParams<N>, const N: usize, const B: usize>(t: &mut Tape, c: &mut Case) -> CaseResult
where
    Uint<N>: Encoding<Repr = [u8; B]>,
{
    let m: Limbs = MOD::MODULUS.as_ref().as_words().to_vec();
    let mb = big(&m);
    // a Montgomery representative: 0 (the residue zero), other reduced values, unreduced values (wire only)
    let (rl, class) = match t.weighted(&[3, 4, 1, 1, 1]) {
        0 => (vec![0u64; N], "representative: zero"),
        1 => (limbs_of(&gen::residue(t, &mb), N), "representative: reduced"),
        2 => (m.clone(), "representative: the modulus (wire only)"),
        3 => (vec![M; N], "representative: MAX (wire only)"),
        _ => (gen::limbs(t, N), "representative: arbitrary"),
    };
    let words = {
        // zero candidates of the modular sampler first: all-zero words
        let k = t.pick(&[0usize, 1, N, N + 1, 2 * N, 3 * N]);
        let mut w = vec![0u64; k];
        for _ in 0..t.usize_in(0, N + 2) {
            w.push(t.pick(&[0u64, 1, M, 2]) ^ (t.u64() & t.pick(&[0u64, M])));
        }
        w
    };
    let tail = t.u64();
    c.limbs("representative", &rl);
    c.limbs("stream", &words);
    c.num("tail seed", tail);
    c.label(class);
    let reduced = big(&rl) < mb;
    let zero = is_zero(&rl);
    c.nontrivial(zero || !reduced || words.first() == Some(&0));

    if reduced {
        let f = ConstMontyForm::<MOD, N>::from_montgomery(uint::<N>(&rl));
        let r = NonZero::new(f);
        veq!(bool::from(r.is_some()), !zero, "NonZero::<ConstMontyForm>::new(f).is_some()");
        expect_nz("NonZero::<ConstMontyForm>::new(f)", r.into(), !zero, &rl)?;
    }
    // ConstMontyForm::new: "represents this integer mod MOD": the multiples 0 and m are the residue zero
    for (what, v) in [("0", vec![0u64; N]), ("m", m.clone())] {
        let f = total("ConstMontyForm::new", || ConstMontyForm::<MOD, N>::new(&uint::<N>(&v)))?;
        if let Some(w) = Option::<NonZero<ConstMontyForm<MOD, N>>>::from(NonZero::new(f)) {
            inv_nz("NonZero::new(ConstMontyForm::new(multiple of m))", &w)?;
            vfail!("NonZero::new(ConstMontyForm::new(&{what})) is some although the residue is zero");
        }
    }

    // Random: rejection sampling on top of the modular sampler
    nz_finite::<ConstMontyForm<MOD, N>>("NonZero::<ConstMontyForm>::try_random", &words, c)?;
    nz_infinite::<ConstMontyForm<MOD, N>>("NonZero::<ConstMontyForm>::random", &words, tail)?;

    // Deserialize: the inner type's own Deserialize is the reference for what parses
    let wire = total("bincode::serialize(Uint)", || bincode::serialize(&uint::<N>(&rl)).unwrap())?;
    let js = total("serde_json::to_string(Uint)", || serde_json::to_string(&uint::<N>(&rl)).unwrap())?;
    let inner_ok = from_bin::<ConstMontyForm<MOD, N>>(&wire).is_some();
    c.label(if inner_ok { "serde: inner ConstMontyForm parses" } else { "serde: inner ConstMontyForm rejects" });
    expect_nz("bincode deserialize::<NonZero<ConstMontyForm>>", from_bin::<NonZero<ConstMontyForm<MOD, N>>>(&wire), inner_ok && !zero, &rl)?;
    let inner_ok = from_json::<ConstMontyForm<MOD, N>>(&js).is_some();
    expect_nz("json deserialize::<NonZero<ConstMontyForm>>", from_json::<NonZero<ConstMontyForm<MOD, N>>>(&js), inner_ok && !zero, &rl)?;
    Ok(())
}

// ------------------------------------------------------------------------------------------------

pub fn subchecks(_ctx: &Ctx) -> Vec<SubCheck> {
    let mut v = vec![];
    v.push(SubCheck::new("surface/nonzero-generic/wrapping-uint/128", 20_000, wrapping_uint_case::<2, 16>).tape(96).thorough(10));
    v.push(SubCheck::new("surface/nonzero-generic/wrapping-uint/192", 20_000, wrapping_uint_case::<3, 24>).tape(110).thorough(10));
    v.push(SubCheck::new("surface/nonzero-generic/wrapping-boxed", 20_000, wrapping_boxed_case).tape(64).thorough(10));
    v.push(SubCheck::new("surface/nonzero-generic/const-monty/U64", 15_000, const_monty_case::<S64, 1, 8>).tape(48).thorough(10));
    v.push(SubCheck::new("surface/nonzero-generic/const-monty/U192", 15_000, const_monty_case::<S192, 3, 24>).tape(64).thorough(10));
    v.push(SubCheck::new("surface/nonzero-generic/const-monty/U256-small-modulus", 15_000, const_monty_case::<S256Small, 4, 32>).tape(72).thorough(10));
    // the existing producer families at limb counts that are not a power of two
    v.push(SubCheck::new("surface/widths/int/producers/192", 20_000, fixed::int_case::<3>).tape(40 + 36).thorough(10));
    v.push(SubCheck::new("surface/widths/int/producers/320", 20_000, fixed::int_case::<5>).tape(40 + 60).thorough(10));
    v.push(SubCheck::new("surface/widths/uint/producers/384", 15_000, fixed::uint_core_case::<6>).tape(40 + 72).thorough(10));
    v.push(SubCheck::new("surface/widths/uint/producers/448", 15_000, fixed::uint_core_case::<7>).tape(40 + 84).thorough(10));
    v.push(SubCheck::new("surface/widths/uint/decode+monty/384", 15_000, fixed::uint_enc_case::<6, 48, 12>).tape(96).thorough(10));
    v.push(SubCheck::new("surface/widths/uint/decode+monty/448", 15_000, fixed::uint_enc_case::<7, 56, 14>).tape(100).thorough(10));
    v.push(SubCheck::new("surface/widths/uint/serde/192", 20_000, serde_c::uint_serde_case::<3, 24>).tape(56).thorough(10));
    v.push(SubCheck::new("surface/widths/uint/serde/320", 15_000, serde_c::uint_serde_case::<5, 40>).tape(64).thorough(10));
    v.push(SubCheck::new("surface/widths/uint/serde/448", 15_000, serde_c::uint_serde_case::<7, 56>).tape(72).thorough(10));
    v.push(SubCheck::new("surface/widths/random/fixed/320", 15_000, random::random_fixed_case::<5>).tape(40 + 60).thorough(10));
    v.push(SubCheck::new("surface/widths/random/fixed/448", 15_000, random::random_fixed_case::<7>).tape(40 + 84).thorough(10));
    v
}
