//! C12 — `NonZero` and `Odd` wrappers can never hold an invalid value.
//!
//! Every safe public way of producing a `NonZero<T>` / `Odd<T>` (T in Limb, Uint<N>, Int<N>,
//! BoxedUint) that was found by reading the sources is driven with boundary arguments; after each
//! production the invariant predicate is evaluated on the wrapped value (value != 0 / value odd),
//! or the documented failure (none / panic / error) is required. Decoders are additionally compared
//! with a positional oracle for the byte order the item's name and documentation state.
//!
//! The oracle side only looks at raw words (`as_words` / `.0`) and at byte strings it built itself.

use crypto_bigint::{BoxedUint, Int, Limb, NonZero, Odd, Uint};
use vmodel::gen;
use vmodel::*;

mod boxed_c;
mod consts;
mod fixed;
mod random;
mod rng;
mod scan;
mod serde_c;
mod surface;
mod wipe;

pub fn spec() -> PropSpec {
    PropSpec {
        id: "C12",
        rule: "cases: one argument value a per case (0, 1, 2, MAX, MAX-1, only the top limb / only the top byte set, even with arbitrary high limbs, odd, 2^k, small bit0/bit1 patterns, low and top byte of opposite parity, generic edge shapes) plus valid operands x,y (non-zero) and p,q (odd), a primitive, a selection bit and malformed-encoding choices; every producer of NonZero<T>/Odd<T> of the type (new, new_unwrap, to_nz/to_odd + ConstCtOption expect/unwrap/into, from_u8..u128 / From<NonZeroU*>, from_be/le_bytes, from_be/le_byte_array, from_be/le_hex, ONE/MAX/Default, CtOption map/unwrap_or, conditional_select/assign/swap and ct_select/assign/swap between valid values, as_nz_ref, abs_sign, widen, Odd<Uint> -> Odd<BoxedUint>, Monty params modulus(), serde bincode+JSON, Random/try_random on scripted streams, zeroize) is run on it and the invariant (value != 0 / value odd) or the documented failure is asserted; decoders are compared with a positional oracle of the stated byte order. non-trivial: a is 0, 1, 2, MAX or MAX-1, or a is even, or (sub-checks that decode bytes / hex / serde: limb, uint/producers, uint/decode+monty, serde) the big-endian byte string of a differs from its little-endian one; Int: a = MIN; or a malformed hex string / encoding was drawn, the extra byte string is all-zero, the inner value parsed by serde is zero or even; RNG sub-checks: the stream is empty or starts with a zero or even word, the first draw of the target type is zero (rejection taken), a finite stream ends in the RNG error, boxed bit_length = 0 or 1 mod 64; zeroize, const table and source scan: every case. surface/* sub-checks: the same rules with the inner types Wrapping<Uint>, Wrapping<Limb>, Wrapping<BoxedUint>, ConstMontyForm (representative zero, unreduced wire value, or a stream starting with a zero word count as well) and the existing case functions at 3, 5, 6, 7 limbs. distinct by all recorded inputs. Since seeding round 4: malformed hex with non-ASCII characters; Deserialize::deserialize_in_place over live valid wrappers (single and Vec): valid afterwards whatever the outcome.",
        assumptions: vec![
            "the invariant is observed through Deref / get / as_ref and as_words only (no crate arithmetic on the oracle side)".into(),
            "num-bigint from_bytes_be/le give the positional value of a byte string".into(),
            "serde: the inner type's own Deserialize is the reference for which encodings parse (format questions belong to C16/C18); the wrapper must accept exactly the parses whose value is valid".into(),
            "rejection sampling (NonZero::try_random) is modelled as repeated T::try_random on a clone of the same scripted stream".into(),
        ],
        subchecks,
    }
}

// ------------------------------------------------------------------------------------------------
// observing wrapped values

pub trait Val {
    fn words(&self) -> Limbs;
}
impl Val for Limb {
    fn words(&self) -> Limbs {
        vec![self.0]
    }
}
impl<const N: usize> Val for Uint<N> {
    fn words(&self) -> Limbs {
        self.as_words().to_vec()
    }
}
impl<const N: usize> Val for Int<N> {
    fn words(&self) -> Limbs {
        self.as_words().to_vec()
    }
}
impl Val for BoxedUint {
    fn words(&self) -> Limbs {
        self.as_words().to_vec()
    }
}

/// the invariant of `NonZero`: the wrapped value is not zero
pub fn inv_nz<T: Val>(what: &str, nz: &NonZero<T>) -> CaseResult {
    let l = (**nz).words();
    vensure!(!l.is_empty() && !is_zero(&l), "{what}: obtained a NonZero holding zero ({})", hex(&l));
    Ok(())
}
/// the invariant of `Odd`: the wrapped value is odd (hence non-zero)
pub fn inv_odd<T: Val>(what: &str, o: &Odd<T>) -> CaseResult {
    let l = (**o).words();
    vensure!(!l.is_empty() && l[0] & 1 == 1, "{what}: obtained an Odd holding an even value ({})", hex(&l));
    Ok(())
}
/// invariant + exact value (same width)
pub fn chk_nz<T: Val>(what: &str, nz: &NonZero<T>, want: &[u64]) -> CaseResult {
    inv_nz(what, nz)?;
    veq!((**nz).words(), want.to_vec(), "{what}: wrapped value");
    Ok(())
}
pub fn chk_odd<T: Val>(what: &str, o: &Odd<T>, want: &[u64]) -> CaseResult {
    inv_odd(what, o)?;
    veq!((**o).words(), want.to_vec(), "{what}: wrapped value");
    Ok(())
}

/// A producer that reports failure (none / panic / error => `None` here): it must succeed exactly
/// when the argument is valid, and then hold exactly `want`.
pub fn expect_nz<T: Val>(what: &str, got: Option<NonZero<T>>, valid: bool, want: &[u64]) -> CaseResult {
    match (got, valid) {
        (Some(w), true) => chk_nz(what, &w, want),
        (None, false) => Ok(()),
        (Some(w), false) => {
            inv_nz(what, &w)?;
            vfail!("{what}: succeeded with {} although the argument is zero", hex(&(*w).words()))
        }
        (None, true) => vfail!("{what}: failed although the argument {} is non-zero", hex(want)),
    }
}
pub fn expect_odd<T: Val>(what: &str, got: Option<Odd<T>>, valid: bool, want: &[u64]) -> CaseResult {
    match (got, valid) {
        (Some(w), true) => chk_odd(what, &w, want),
        (None, false) => Ok(()),
        (Some(w), false) => {
            inv_odd(what, &w)?;
            vfail!("{what}: succeeded with {} although the argument is even", hex(&(*w).words()))
        }
        (None, true) => vfail!("{what}: failed although the argument {} is odd", hex(want)),
    }
}

// ------------------------------------------------------------------------------------------------
// argument generators

pub const M: u64 = u64::MAX;

/// The argument of a case: the boundary and adversarial shapes named by the quantifier.
pub fn value(t: &mut Tape, n: usize) -> Limbs {
    let mut v = vec![0u64; n];
    match t.weighted(&[2, 2, 2, 2, 2, 3, 3, 4, 3, 2, 3, 5, 4]) {
        0 => {}
        1 => v[0] = 1,
        2 => v[0] = 2,
        3 => v.iter_mut().for_each(|w| *w = M),
        4 => {
            v.iter_mut().for_each(|w| *w = M);
            v[0] = M - 1;
        }
        5 => {
            // only the top limb is non-zero (zero test must look at every limb, parity only at limb 0)
            v[n - 1] = match t.below(5) {
                0 => 1,
                1 => 2,
                2 => 1 << 63,
                3 => M,
                _ => gen::word(t) | 1,
            };
        }
        6 => {
            // only the most significant byte is non-zero: reads as a small value in the other byte order
            let b = match t.below(6) {
                0 => 1u64,
                1 => 2,
                2 => 0x80,
                3 => 0xff,
                4 => 3,
                _ => t.range(1, 255),
            };
            v[n - 1] = b << 56;
        }
        7 => {
            // even, arbitrary (odd-looking) high limbs
            v = gen::limbs(t, n);
            v[0] &= !1;
            if n > 1 && t.bool() {
                v[n - 1] |= 1;
            }
        }
        8 => v = gen::odd(t, n),
        9 => {
            let k = t.edgy(64 * n as u64 - 1);
            v[(k / 64) as usize] = 1 << (k % 64);
        }
        10 => {
            // bit 0 / bit 1 patterns (a parity test reading the wrong bit)
            v[0] = t.pick(&[1u64, 2, 3, 5, 6, 9, 10, 0x8000_0000_0000_0002, 0x8000_0000_0000_0001, 0xffff_ffff_ffff_fffd, 0x0100_0000_0000_0000, 0x0200_0000_0000_0001]);
            if n > 1 && t.bool() {
                v[n - 1] = t.pick(&[1u64, 2, 1 << 63, M]);
            }
        }
        11 => v = gen::limbs(t, n),
        _ => {
            // lowest byte and highest byte of opposite parity: valid in one byte order only
            v = gen::shape_u(t, n);
            let p = t.below(2);
            v[0] = (v[0] & !1) | p;
            v[n - 1] = (v[n - 1] & !(1 << 56)) | ((1 - p) << 56);
        }
    }
    v
}

pub fn valid_nz(t: &mut Tape, n: usize) -> Limbs {
    let mut v = value(t, n);
    if is_zero(&v) {
        if t.bool() {
            v[n - 1] = 1 << 63;
        } else {
            v[0] = 1;
        }
    }
    v
}

pub fn valid_odd(t: &mut Tape, n: usize) -> Limbs {
    let mut v = value(t, n);
    v[0] |= 1;
    v
}

pub fn be_bytes(l: &[u64]) -> Vec<u8> {
    l.iter().rev().flat_map(|w| w.to_be_bytes()).collect()
}
pub fn le_bytes(l: &[u64]) -> Vec<u8> {
    l.iter().flat_map(|w| w.to_le_bytes()).collect()
}
/// positional value of a byte string read big-endian, as limbs (len must be 8n)
pub fn limbs_from_be(b: &[u8]) -> Limbs {
    limbs_of(&num_bigint::BigUint::from_bytes_be(b), b.len() / 8)
}
pub fn limbs_from_le(b: &[u8]) -> Limbs {
    limbs_of(&num_bigint::BigUint::from_bytes_le(b), b.len() / 8)
}
pub fn hex_lower(b: &[u8]) -> String {
    b.iter().map(|x| format!("{:02x}", x)).collect()
}

pub struct ArgClass {
    pub zero: bool,
    pub odd: bool,
    pub boundary: bool,
    pub asym: bool,
}

/// Labels the argument and returns its classification. `decoding`: the sub-check reads byte/hex
/// strings, so byte-order asymmetry counts for non-triviality.
pub fn classify(c: &mut Case, a: &[u64], decoding: bool) -> ArgClass {
    let n = a.len();
    let zero = is_zero(a);
    let odd = a[0] & 1 == 1;
    let max = a.iter().all(|&w| w == M);
    let max1 = a[0] == M - 1 && a[1..].iter().all(|&w| w == M);
    let small = a[1..].iter().all(|&w| w == 0);
    let boundary = zero || max || max1 || (small && (a[0] == 1 || a[0] == 2));
    let rev = limbs_from_le(&be_bytes(a));
    let asym = rev != a;
    c.label(if zero {
        "arg: zero"
    } else if odd {
        "arg: odd"
    } else {
        "arg: even non-zero"
    });
    if small && a[0] == 1 {
        c.label("arg: one");
    }
    if small && a[0] == 2 {
        c.label("arg: two");
    }
    if max {
        c.label("arg: MAX");
    }
    if max1 {
        c.label("arg: MAX-1");
    }
    if n > 1 && a[0] == 0 && !zero {
        c.label("arg: low limb zero, value non-zero");
    }
    if !zero && a[..n - 1].iter().all(|&w| w == 0) && a[n - 1] & 0x00ff_ffff_ffff_ffff == 0 {
        c.label("arg: only the top byte set");
    }
    if a[0] & 3 == 2 {
        c.label("arg: bit1 set, bit0 clear");
    }
    if a[0] & 3 == 1 {
        c.label("arg: bit0 set, bit1 clear");
    }
    if decoding {
        if (rev[0] & 1 == 1) != odd {
            c.label("arg: byte orders differ in parity");
        }
        if asym {
            c.label("arg: byte orders differ in value");
        }
    }
    c.nontrivial(boundary || !odd || (decoding && asym));
    ArgClass { zero, odd, boundary, asym }
}

// ------------------------------------------------------------------------------------------------

macro_rules! sub_n {
    ($v:ident, $name:literal, $q:expr, $f:ident; $($n:literal),*) => { $(
        $v.push(SubCheck::new(format!(concat!($name, "/{}"), 64 * $n), $q, $f::<$n>).tape(40 + 12 * $n));
    )* };
}

fn subchecks(ctx: &Ctx) -> Vec<SubCheck> {
    let mut v = vec![];
    v.push(SubCheck::new("limb/producers", 300_000, fixed::limb_case).tape(40));
    sub_n!(v, "uint/producers", 100_000, uint_core_case; 1, 2, 3, 4);
    sub_n!(v, "uint/producers", 62_500, uint_core_case; 5, 8);
    sub_n!(v, "uint/producers", 30_000, uint_core_case; 16);
    v.push(SubCheck::new("uint/decode+monty/64", 100_000, fixed::uint_enc_case::<1, 8, 2>).tape(64));
    v.push(SubCheck::new("uint/decode+monty/128", 100_000, fixed::uint_enc_case::<2, 16, 4>).tape(64));
    v.push(SubCheck::new("uint/decode+monty/192", 75_000, fixed::uint_enc_case::<3, 24, 6>).tape(72));
    v.push(SubCheck::new("uint/decode+monty/256", 75_000, fixed::uint_enc_case::<4, 32, 8>).tape(80));
    v.push(SubCheck::new("uint/decode+monty/512", 37_500, fixed::uint_enc_case::<8, 64, 16>).tape(100));
    v.push(SubCheck::new("uint/serde/64", 100_000, serde_c::uint_serde_case::<1, 8>).tape(48));
    v.push(SubCheck::new("uint/serde/128", 75_000, serde_c::uint_serde_case::<2, 16>).tape(48));
    v.push(SubCheck::new("uint/serde/256", 75_000, serde_c::uint_serde_case::<4, 32>).tape(64));
    v.push(SubCheck::new("limb/serde", 100_000, serde_c::limb_serde_case).tape(32));
    sub_n!(v, "int/producers", 100_000, int_case; 1, 2, 4);
    sub_n!(v, "random/fixed", 100_000, random_fixed_case; 1, 2, 4);
    sub_n!(v, "random/fixed", 50_000, random_fixed_case; 3, 8);
    v.push(SubCheck::new("random/boxed-odd", 100_000, random::boxed_odd_case).tape(140));
    let bmax = if ctx.thorough() { 40 } else { 20 };
    v.push(SubCheck::new("boxed/producers", 100_000, boxed_c::boxed_case(bmax)).tape(60 + 9 * bmax));
    sub_n!(v, "zeroize/fixed", 4_000, wipe_fixed_case; 1, 4);
    v.push(SubCheck::new("zeroize/boxed", 4_000, wipe::wipe_boxed_case).tape(64));
    v.push(SubCheck::new("const/static-table", 512, consts::const_case).tape(8).thorough(2));
    v.push(SubCheck::new("scan/producer-registry", 1, scan::scan_case).tape(4).thorough(1));
    v.extend(surface::subchecks(ctx));
    if ctx.thorough() {
        sub_n!(v, "uint/producers", 400, uint_core_case; 32, 64);
        v.push(SubCheck::new("uint/decode+monty/1024", 300, fixed::uint_enc_case::<16, 128, 32>).tape(160));
        v.push(SubCheck::new("uint/serde/1024", 300, serde_c::uint_serde_case::<16, 128>).tape(140));
        sub_n!(v, "int/producers", 1_000, int_case; 3, 8, 16);
        sub_n!(v, "random/fixed", 500, random_fixed_case; 16);
    }
    v
}

use fixed::{int_case, uint_core_case};
use random::random_fixed_case;
use wipe::wipe_fixed_case;
