//! Random::{random, try_random} for Limb, Uint, Int, Wrapping, NonZero, Odd on scripted streams.

use crate::model;
use crate::rng::Stream;
use crate::*;
use crypto_bigint::rand_core::RngCore;
use crypto_bigint::{BoxedUint, Int, Limb, NonZero, Odd, Random, RandomBits, Uint, Wrapping};

/// Word script with zero blocks in front (NonZero rejection) and near-zero blocks.
pub(crate) fn plain_script(t: &mut Tape, n: usize, c: &mut Case) -> Vec<u64> {
    let mut out = vec![];
    match t.weighted(&[1, 3, 2, 1, 2]) {
        0 => c.label("stream: ChaCha only"),
        1 => {
            c.label("stream: zero words then a near-zero block");
            let z = t.usize_in(1, 3 * n + 1);
            out.resize(z, 0);
            let mut blk = vec![0u64; n];
            let i = t.index(n);
            blk[i] = t.pick(&[1u64, 1 << 63, u64::MAX, 2]);
            out.extend(blk);
        }
        2 => {
            c.label("stream: zero words only");
            out.resize(t.usize_in(1, 3 * n + 1), 0);
        }
        3 => {
            c.label("stream: all-ones words");
            out.resize(t.usize_in(1, 2 * n + 1), u64::MAX);
        }
        _ => {
            c.label("stream: patterned words");
            for _ in 0..t.usize_in(1, 2 * n + 1) {
                out.push(gen::limb_word(t));
            }
        }
    }
    out
}

pub(crate) fn plain_case<const N: usize>(t: &mut Tape, c: &mut Case) -> CaseResult {
    let d = 1 + t.weighted(&[3, 2, 1]);
    let script = words_to_bytes(&plain_script(t, N, c));
    let seed = t.u64();
    let cut = gen_cut(t, script.len());
    c.bytes("script", &script);
    c.num("draws", d as u64);
    c.num("tail_seed", seed);
    c.num("cut", cut as u64);
    let inf = Stream::new(script.clone(), Some(seed));
    let fal = Stream::new(script[..script.len() - cut].to_vec(), None);

    // ---------- Limb ----------
    let (w1, w1p) = model_seq(&inf, d, |s| model::words(s, 1));
    let (w1f, w1fp) = model_seq(&fal, d, |s| model::words(s, 1));
    let o = run_inf("Limb::random", &inf, d, |r| vec![Limb::random(r).0])?;
    check_inf("Limb::random", &o, &w1, w1p)?;
    let o2 = run_inf("Limb::try_random", &inf, d, |r| {
        let Ok(v) = Limb::try_random(r);
        vec![v.0]
    })?;
    check_twin("Limb::random vs try_random", &o, &o2)?;
    let o3 = run_inf("Wrapping::<Limb>::random", &inf, d, |r| vec![Wrapping::<Limb>::random(r).0 .0])?;
    check_twin("Limb::random vs Wrapping<Limb>::random", &o, &o3)?;
    let f = run_fail("Limb::try_random (failing rng)", &fal, d, |r| Limb::try_random(r).map(|v| vec![v.0]).map_err(|e| e.to_string()))?;
    check_fail("Limb::try_random (failing rng)", &f, &w1f, w1fp)?;
    // NonZero<Limb>
    let mut rej1 = 0u64;
    let (nz1, nz1p) = model_seq(&inf, d, |s| model::nonzero_words(s, 1, &mut rej1));
    if nz1.iter().any(|w| w.is_none()) {
        c.skip();
        return Ok(());
    }
    let o = run_inf("NonZero::<Limb>::random", &inf, d, |r| vec![NonZero::<Limb>::random(r).get().0])?;
    for v in &o.vals {
        vensure!(v[0] != 0, "NonZero::<Limb>::random returned zero");
    }
    check_inf("NonZero::<Limb>::random", &o, &nz1, nz1p)?;
    let mut rej1f = 0u64;
    let (nz1f, nz1fp) = model_seq(&fal, d, |s| model::nonzero_words(s, 1, &mut rej1f));
    let f = run_fail("NonZero::<Limb>::try_random (failing rng)", &fal, d, |r| NonZero::<Limb>::try_random(r).map(|v| vec![v.get().0]).map_err(|e| e.to_string()))?;
    check_fail("NonZero::<Limb>::try_random (failing rng)", &f, &nz1f, nz1fp)?;

    // ---------- Uint<N> / Int<N> / Wrapping ----------
    let (w, wp) = model_seq(&inf, d, |s| model::words(s, N));
    let (wf, wfp) = model_seq(&fal, d, |s| model::words(s, N));
    if wf.iter().any(|x| x.is_none()) {
        c.label("fallible run: RNG error");
    }
    let u = run_inf("Uint::random", &inf, d, |r| ul(&Uint::<N>::random(r)))?;
    check_inf("Uint::random", &u, &w, wp)?;
    let u2 = run_inf("Uint::try_random", &inf, d, |r| {
        let Ok(v) = Uint::<N>::try_random(r);
        ul(&v)
    })?;
    check_twin("Uint::random vs try_random", &u, &u2)?;
    let u3 = run_inf("Uint::random (&mut dyn RngCore)", &inf, d, |r| {
        let r: &mut dyn RngCore = r;
        ul(&Uint::<N>::random(r))
    })?;
    check_inf("Uint::random (&mut dyn RngCore)", &u3, &w, wp)?;
    let i = run_inf("Int::random", &inf, d, |r| il(&Int::<N>::random(r)))?;
    check_twin("Uint::random vs Int::random", &u, &i)?;
    let wr = run_inf("Wrapping::<Uint>::random", &inf, d, |r| ul(&Wrapping::<Uint<N>>::random(r).0))?;
    check_twin("Uint::random vs Wrapping<Uint>::random", &u, &wr)?;
    let f = run_fail("Uint::try_random (failing rng)", &fal, d, |r| Uint::<N>::try_random(r).map(|v| ul(&v)).map_err(|e| e.to_string()))?;
    check_fail("Uint::try_random (failing rng)", &f, &wf, wfp)?;
    let f = run_fail("Int::try_random (failing rng)", &fal, d, |r| Int::<N>::try_random(r).map(|v| il(&v)).map_err(|e| e.to_string()))?;
    check_fail("Int::try_random (failing rng)", &f, &wf, wfp)?;
    let f = run_fail("Wrapping::<Uint>::try_random (failing rng)", &fal, d, |r| Wrapping::<Uint<N>>::try_random(r).map(|v| ul(&v.0)).map_err(|e| e.to_string()))?;
    check_fail("Wrapping::<Uint>::try_random (failing rng)", &f, &wf, wfp)?;

    // width independence: Uint::random, Uint::random_bits(BITS) and BoxedUint::random_bits(BITS)
    // return the same value and consume the same number of bytes of the same stream
    let ub = run_inf("Uint::random_bits(BITS)", &inf, d, |r| ul(&Uint::<N>::random_bits(r, 64 * N as u32)))?;
    let bb = run_inf("BoxedUint::random_bits(BITS)", &inf, d, |r| bl(&BoxedUint::random_bits(r, 64 * N as u32)))?;
    for (name, o) in [("Uint::random_bits(BITS)", &ub), ("BoxedUint::random_bits(BITS)", &bb)] {
        for (k, (x, y)) in u.vals.iter().zip(o.vals.iter()).enumerate() {
            veq!(*y, *x, "Uint::random vs {name}: draw {k}");
        }
        vensure!(o.pos == u.pos, "Uint::random vs {name}: bytes consumed differ: {} vs {}", u.pos, o.pos);
    }

    // ---------- NonZero<Uint<N>> / NonZero<Int<N>> ----------
    let mut rej = 0u64;
    let (nz, nzp) = model_seq(&inf, d, |s| model::nonzero_words(s, N, &mut rej));
    if nz.iter().any(|w| w.is_none()) {
        c.skip();
        return Ok(());
    }
    if rej > 0 {
        c.label("model: >=1 zero candidate rejected (NonZero<Uint>)");
    }
    if rej1 > 0 {
        c.label("model: >=1 zero candidate rejected (NonZero<Limb>)");
    }
    c.nontrivial(rej > 0 || rej1 > 0);
    let mut rejf = 0u64;
    let (nzf, nzfp) = model_seq(&fal, d, |s| model::nonzero_words(s, N, &mut rejf));
    let o = run_inf("NonZero::<Uint>::random", &inf, d, |r| ul(&NonZero::<Uint<N>>::random(r).get()))?;
    for v in &o.vals {
        vensure!(!is_zero(v), "NonZero::<Uint>::random returned zero");
    }
    check_inf("NonZero::<Uint>::random", &o, &nz, nzp)?;
    let oi = run_inf("NonZero::<Int>::random", &inf, d, |r| il(&NonZero::<Int<N>>::random(r).get()))?;
    for v in &oi.vals {
        vensure!(!is_zero(v), "NonZero::<Int>::random returned zero");
    }
    check_twin("NonZero<Uint>::random vs NonZero<Int>::random", &o, &oi)?;
    let f = run_fail("NonZero::<Uint>::try_random (failing rng)", &fal, d, |r| NonZero::<Uint<N>>::try_random(r).map(|v| ul(&v.get())).map_err(|e| e.to_string()))?;
    for v in f.0.iter().flatten() {
        vensure!(!is_zero(v), "NonZero::<Uint>::try_random returned zero");
    }
    check_fail("NonZero::<Uint>::try_random (failing rng)", &f, &nzf, nzfp)?;

    // ---------- Odd<Uint<N>> ----------
    let set_odd = |v: &[Option<Limbs>]| -> Vec<Option<Limbs>> {
        v.iter()
            .map(|o| {
                o.as_ref().map(|l| {
                    let mut l = l.clone();
                    l[0] |= 1;
                    l
                })
            })
            .collect()
    };
    let o = run_inf("Odd::<Uint>::random", &inf, d, |r| ul(Odd::<Uint<N>>::random(r).as_ref()))?;
    for v in &o.vals {
        vensure!(v[0] & 1 == 1, "Odd::<Uint>::random returned an even value {}", hex(v));
    }
    check_inf("Odd::<Uint>::random", &o, &set_odd(&w), wp)?;
    let f = run_fail("Odd::<Uint>::try_random (failing rng)", &fal, d, |r| Odd::<Uint<N>>::try_random(r).map(|v| ul(v.as_ref())).map_err(|e| e.to_string()))?;
    for v in f.0.iter().flatten() {
        vensure!(v[0] & 1 == 1, "Odd::<Uint>::try_random returned an even value {}", hex(v));
    }
    check_fail("Odd::<Uint>::try_random (failing rng)", &f, &set_odd(&wf), wfp)?;
    Ok(())
}

macro_rules! fixed {
    ($v:ident, $q:expr; $($n:literal),*) => { $(
        $v.push(SubCheck::new(format!("random/limb+uint+int+nonzero+odd/U{}", 64*$n), $q, plain_case::<$n>).tape(48 + 4 * $n));
    )* };
}

pub(crate) fn register(v: &mut Vec<SubCheck>, ctx: &Ctx) {
    fixed!(v, 30000; 1, 2);
    fixed!(v, 20000; 3, 4, 8);
    if ctx.thorough() {
        fixed!(v, 2000; 6, 16, 32);
    }
}
