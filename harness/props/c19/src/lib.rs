//! C19 — random sampling respects its range, is unbiased, and is width-independent.
//!
//! Oracles: (1) model-free range / invariant checks for every stream, (2) documented error
//! conditions, (3) fixed vs boxed differential (value, bytes consumed, call sequence), (4) reference
//! samplers over the scripted byte stream (`model.rs`), (5) exact and statistical uniformity
//! (`uniform.rs`).

pub mod model;
pub mod rng;

mod bits;
mod modsample;
mod plain;
mod surface;
mod uniform;

use crate::rng::{Call, FailRng, ScriptRng, Stream};
use vmodel::*;

pub fn spec() -> PropSpec {
    PropSpec {
        id: "C19",
        rule: "cases: (modulus | bit length | precision, RNG stream, number of sequential draws). Moduli: significant limbs 1..=N inside an N-limb type, top limb in {1, 2^j, 2^j-1, 2^j+1, MAX, MAX-1, random}, low limbs all-0 / all-MAX / 0-MAX mix / random. Bit lengths: uniform over 0..=BITS plus limb/32-bit boundaries, BITS+1.., 2^31, u32::MAX (error path); precisions equal / unequal. Streams: a recorded byte script (all-zero, all-ones, counting bytes, candidates built relative to the modulus: m-1, 0, m, m+1, top limb equal with low limbs 0/MAX, top limb one above, junk above the mask, alternating reject/accept) followed by a ChaCha8 tail (infallible forms) or by an RNG error after a cut (fallible forms). Every API form is run on the same stream and compared with the reference sampler, the range, the documented error condition and the fixed/boxed twin (value, bytes consumed, call sequence). Uniformity: exhaustive enumeration of all 1-byte (moduli 1..=255) and 2-byte (moduli up to 16 bits) streams for Limb, of all masked top-word values for Uint/BoxedUint with moduli <= 2^10, chi-square on 2^20 ChaCha draws per small modulus (m <= 1024; Laurent-Massart bound, false alarm <= 1e-12 per case) and a 64-bin chi-square on 2^18 draws for multi-limb moduli. non-trivial: modular / non-zero sampling: the stream (for uniformity cases: the enumerated or drawn streams) contains >= 1 rejected candidate; bit-bounded sampling: the bit length is not a multiple of 32 (all-lengths cases: always, they contain such lengths); ConstMontyForm: >= 1 rejected candidate. surface/* sub-checks: the same case kinds (same rules) at 5, 6, 7 limbs and with 3-, 5-, 7-limb ConstMontyForm moduli; generic-impl instantiations Wrapping<Int>, NonZero<Wrapping<Uint>>, NonZero<Wrapping<Limb>>, NonZero<ConstMontyForm> and generic-function / dyn RngCore routes (non-trivial: >= 1 rejected zero / candidate, or a bit length that is not a multiple of 32). distinct by modulus / bit length / precisions / script / tail seed / draws. Since seeding round 4: candidates whose comparison with the modulus is decided at a chosen limb (all higher limbs tie, lower limbs free).",
        assumptions: vec![
            "an RNG is modelled as a byte stream: next_u32 / next_u64 read 4 / 8 bytes little-endian, fill_bytes(n) reads n bytes (ChaCha block RNGs behave this way on 4-byte boundaries)".into(),
            "the reference samplers follow the algorithm documented in the source comments of random_mod_core / random_bits_core / Limb::try_random_mod (high word first with early rejection, little-endian low limbs, 4-byte tail rule); they use only u64 / byte arithmetic".into(),
            "chi-square thresholds use the Laurent-Massart tail bound P(X - k >= 2 sqrt(kx) + 2x) <= exp(-x) with x = ln(1e12); expected counts per cell are >= 1000 so the Pearson statistic is close to chi-square".into(),
            "uniformity beyond the sampled / enumerated moduli is not decided (statistical)".into(),
        ],
        subchecks,
    }
}

// ------------------------------------------------------------------------------------------------
// running API forms on a stream

pub(crate) struct Obs {
    pub vals: Vec<Limbs>,
    pub pos: usize,
    pub calls: Vec<Call>,
}

/// `d` sequential draws from a fresh infallible copy of `stream`; a panic is a failure.
pub(crate) fn run_inf(name: &str, stream: &Stream, d: usize, f: impl Fn(&mut ScriptRng) -> Limbs) -> Result<Obs, Fail> {
    let mut r = ScriptRng::new(stream);
    let mut vals = vec![];
    for i in 0..d {
        vals.push(total(&format!("{name} (draw {i})"), || f(&mut r))?);
    }
    Ok(Obs { vals, pos: r.0.pos, calls: r.0.calls })
}

/// `d` sequential draws from a fresh fallible copy of `stream`; a panic is a failure.
pub(crate) fn run_fail(
    name: &str,
    stream: &Stream,
    d: usize,
    f: impl Fn(&mut FailRng) -> Result<Limbs, String>,
) -> Result<(Vec<Result<Limbs, String>>, usize), Fail> {
    let mut r = FailRng::new(stream);
    let mut vals = vec![];
    for i in 0..d {
        vals.push(total(&format!("{name} (draw {i})"), || f(&mut r))?);
    }
    Ok((vals, r.0.pos))
}

/// model results of `d` sequential draws
pub(crate) fn model_seq(
    stream: &Stream,
    d: usize,
    mut f: impl FnMut(&mut Stream) -> Result<Limbs, rng::Exhausted>,
) -> (Vec<Option<Limbs>>, usize) {
    let mut s = stream.clone();
    let mut v = vec![];
    for _ in 0..d {
        v.push(f(&mut s).ok());
    }
    (v, s.pos)
}

pub(crate) fn check_inf(name: &str, obs: &Obs, want: &[Option<Limbs>], want_pos: usize) -> CaseResult {
    for (i, (g, w)) in obs.vals.iter().zip(want.iter()).enumerate() {
        let w = w.as_ref().expect("harness: infallible model");
        veq!(*g, *w, "{name}: draw {i} differs from the reference sampler");
    }
    vensure!(obs.pos == want_pos, "{name}: consumed {} bytes of the stream, the reference sampler {}", obs.pos, want_pos);
    Ok(())
}

/// fallible forms: `Ok(v)` with the model value iff the script suffices, `Err` otherwise
pub(crate) fn check_fail(name: &str, got: &(Vec<Result<Limbs, String>>, usize), want: &[Option<Limbs>], want_pos: usize) -> CaseResult {
    for (i, (g, w)) in got.0.iter().zip(want.iter()).enumerate() {
        match (g, w) {
            (Ok(g), Some(w)) => veq!(*g, *w, "{name}: draw {i} differs from the reference sampler"),
            (Err(_), None) => {}
            (Ok(g), None) => vfail!("{name}: draw {i} returned {} although the RNG fails before a candidate is accepted", hex(g)),
            (Err(e), Some(w)) => vfail!("{name}: draw {i} returned Err({e}) although the script yields {}", hex(w)),
        }
    }
    if want.iter().all(|w| w.is_some()) {
        vensure!(got.1 == want_pos, "{name}: consumed {} bytes of the stream, the reference sampler {}", got.1, want_pos);
    }
    Ok(())
}

/// same consumption (bytes and call sequence) and values as the twin form
pub(crate) fn check_twin(name: &str, a: &Obs, b: &Obs) -> CaseResult {
    for (i, (x, y)) in a.vals.iter().zip(b.vals.iter()).enumerate() {
        vensure!(model::cmp_limbs(x, y) == std::cmp::Ordering::Equal, "{name}: draw {i}: values differ: {} vs {}", hex(x), hex(y));
    }
    vensure!(a.pos == b.pos, "{name}: bytes consumed differ: {} vs {}", a.pos, b.pos);
    vensure!(a.calls == b.calls, "{name}: RNG call sequences differ: {:?} vs {:?}", &a.calls[..a.calls.len().min(12)], &b.calls[..b.calls.len().min(12)]);
    Ok(())
}

pub(crate) fn words_to_bytes(w: &[u64]) -> Vec<u8> {
    w.iter().flat_map(|x| x.to_le_bytes()).collect()
}

/// How many bytes to cut from the end of a script for the fallible run.
pub(crate) fn gen_cut(t: &mut Tape, len: usize) -> usize {
    let c = match t.weighted(&[3, 1, 1, 1, 1, 2]) {
        0 => 0,
        1 => 1,
        2 => 4,
        3 => 8,
        4 => 9,
        _ => t.usize_in(0, len),
    };
    c.min(len)
}

fn subchecks(ctx: &Ctx) -> Vec<SubCheck> {
    let mut v = vec![];
    // the chi-square sub-checks have few, long cases (one shard each): start them first
    uniform::register(&mut v, ctx);
    modsample::register(&mut v, ctx);
    bits::register(&mut v, ctx);
    plain::register(&mut v, ctx);
    surface::register(&mut v, ctx);
    v
}
