//! RandomBits (Uint, Int, BoxedUint) and Odd::<BoxedUint>::random on scripted streams.

use crate::model;
use crate::rng::Stream;
use crate::*;
use crypto_bigint::rand_core::RngCore;
use crypto_bigint::{BoxedUint, Int, Odd, RandomBits, RandomBitsError, Uint};

/// A byte script of roughly `need` bytes.
pub(crate) fn byte_script(t: &mut Tape, need: usize, c: &mut Case) -> Vec<u8> {
    let len = match t.weighted(&[4, 1, 1, 1, 1]) {
        0 => need,
        1 => need.saturating_sub(1),
        2 => need.saturating_sub(4),
        3 => need + t.usize_in(1, 9),
        _ => t.usize_in(0, need + 8),
    };
    match t.weighted(&[1, 2, 2, 3]) {
        0 => {
            c.label("stream: all-zero bytes");
            vec![0; len]
        }
        1 => {
            c.label("stream: all-ones bytes");
            vec![0xff; len]
        }
        2 => {
            c.label("stream: counting bytes (byte-order sensitive)");
            (0..len).map(|i| (i as u8).wrapping_mul(7).wrapping_add(1)).collect()
        }
        _ => {
            c.label("stream: random bytes");
            words_to_bytes(&t.expand(len.div_ceil(8)))[..len].to_vec()
        }
    }
}

fn gen_bit_length(t: &mut Tape, bits: u32, c: &mut Case) -> u32 {
    let bl = match t.weighted(&[6, 2, 1]) {
        0 => t.u32_in(0, bits),
        1 => {
            let base = 64 * t.u32_in(0, bits / 64);
            (base + t.pick(&[0u32, 1, 31, 32, 33, 63])).min(bits)
        }
        _ => t.pick(&[bits + 1, bits + 31, bits + 32, bits + 33, bits + 64, 1 << 31, u32::MAX - 1, u32::MAX]),
    };
    if bl > bits {
        c.label("bit length: > BITS (error path)");
    } else {
        c.label(match bl % 64 {
            0 => "bit length: multiple of 64",
            32 => "bit length: = 32 mod 64",
            1..=31 => "bit length: 1..=31 mod 64 (4-byte tail)",
            _ => "bit length: 33..=63 mod 64 (8-byte tail)",
        });
        if bl == 0 {
            c.label("bit length: 0");
        }
        if bl == bits {
            c.label("bit length: = BITS");
        }
    }
    bl
}

fn below_pow2(name: &str, v: &[u64], bl: u32) -> CaseResult {
    vensure!(bit_len(v) <= bl as u64, "{name}: returned {} which is not below 2^{bl}", hex(v));
    Ok(())
}

#[derive(Clone, Copy, PartialEq, Debug)]
enum Expect {
    Value,
    Mismatch,
    TooLarge,
    /// both error conditions hold: either documented variant is acceptable
    AnyError,
}

fn fixed_expect(bl: u32, prec: u32, bits: u32) -> Expect {
    match (prec != bits, bl > prec) {
        (false, false) => Expect::Value,
        (true, false) => Expect::Mismatch,
        (false, true) => Expect::TooLarge,
        (true, true) => Expect::AnyError,
    }
}

/// Compare a `try_random_bits*` result from an infallible stream with the documented outcome.
fn check_bits_result<E: std::fmt::Debug>(
    name: &str,
    got: &Result<Limbs, RandomBitsError<E>>,
    exp: Expect,
    want: &[u64],
    bl: u32,
    prec: u32,
    bits: u32,
) -> CaseResult {
    match (got, exp) {
        (Ok(v), Expect::Value) => {
            below_pow2(name, v, bl)?;
            veq!(v.as_slice(), want, "{name}: differs from the reference (little-endian bytes of the stream mod 2^{bl})");
        }
        (Ok(v), _) => vfail!("{name}: returned Ok({}) for bit_length {bl}, precision {prec}, BITS {bits}; documented: an error", hex(v)),
        (Err(e), Expect::Value) => vfail!("{name}: returned Err({e:?}) for bit_length {bl}, precision {prec}, BITS {bits}; documented: a value"),
        (Err(RandomBitsError::BitsPrecisionMismatch { bits_precision, integer_bits }), Expect::Mismatch | Expect::AnyError) => {
            veq!((*bits_precision, *integer_bits), (prec, bits), "{name}: BitsPrecisionMismatch fields");
        }
        (Err(RandomBitsError::BitLengthTooLarge { bit_length, bits_precision }), Expect::TooLarge | Expect::AnyError) => {
            veq!((*bit_length, *bits_precision), (bl, prec), "{name}: BitLengthTooLarge fields");
        }
        (Err(e), _) => vfail!("{name}: wrong error {e:?} for bit_length {bl}, precision {prec}, BITS {bits} (expected {exp:?})"),
    }
    Ok(())
}

fn gen_fixed_precision(t: &mut Tape, bl: u32, bits: u32) -> u32 {
    match t.weighted(&[4, 1, 1, 1, 1, 1, 1]) {
        0 => bits,
        1 => bits - 1,
        2 => bits + 1,
        3 => bits.saturating_sub(64),
        4 => bits + 64,
        5 => bl,
        _ => t.pick(&[0u32, 1, u32::MAX]),
    }
}

/// boxed precision: small enough to allocate (<= bits + 130)
fn gen_boxed_precision(t: &mut Tape, bl: u32, bits: u32) -> u32 {
    let cap = bits + 130;
    let p = match t.weighted(&[3, 2, 2, 1, 1, 1, 1]) {
        0 => bl,
        1 => bl.div_ceil(64).saturating_mul(64),
        2 => bits,
        3 => bl.saturating_add(1),
        4 => bl.saturating_sub(1),
        5 => 0,
        _ => t.u32_in(0, cap),
    };
    if p > cap {
        t.u32_in(0, cap)
    } else {
        p
    }
}

fn boxed_limbs_for(prec: u32) -> usize {
    (prec as usize).div_ceil(64).max(1)
}

pub(crate) fn bits_case<const N: usize>(t: &mut Tape, c: &mut Case) -> CaseResult {
    let bits = 64 * N as u32;
    let bl = gen_bit_length(t, bits, c);
    let d = 1 + t.weighted(&[2, 1]);
    let need = if bl <= bits { model::bits_need(bl) * d } else { 8 };
    let script = byte_script(t, need, c);
    let seed = t.u64();
    let fprec = gen_fixed_precision(t, bl, bits);
    let bprec = gen_boxed_precision(t, bl, bits);
    c.num("bit_length", bl as u64);
    c.bytes("script", &script);
    c.num("draws", d as u64);
    c.num("tail_seed", seed);
    c.num("fixed_precision", fprec as u64);
    c.num("boxed_precision", bprec as u64);
    c.nontrivial(bl <= bits && bl % 32 != 0);
    let inf = Stream::new(script.clone(), Some(seed));
    let fal = Stream::new(script.clone(), None);

    // ---------------- fixed: Uint / Int ----------------
    if bl <= bits {
        let (want, want_pos) = model_seq(&inf, d, |s| model::random_bits(s, N, bl));
        let (wantf, wantf_pos) = model_seq(&fal, d, |s| model::random_bits(s, N, bl));
        if wantf.iter().any(|w| w.is_none()) {
            c.label("fallible run: RNG error");
        }

        let o1 = run_inf("Uint::random_bits", &inf, d, |r| ul(&Uint::<N>::random_bits(r, bl)))?;
        for v in &o1.vals {
            below_pow2("Uint::random_bits", v, bl)?;
        }
        check_inf("Uint::random_bits", &o1, &want, want_pos)?;
        let o2 = run_inf("Uint::try_random_bits", &inf, d, |r| ul(&Uint::<N>::try_random_bits(r, bl).expect("harness: checked below")));
        // an Err here shows up as a panic message; re-run without expect for a precise message
        let o2 = match o2 {
            Ok(o) => o,
            Err(_) => {
                let mut r = ScriptRng::new(&inf);
                let e = Uint::<N>::try_random_bits(&mut r, bl).map(|v| ul(&v));
                vfail!("Uint::try_random_bits({bl}) on an infallible rng: {:?}; documented: a value (bit_length <= BITS)", e.map_err(|e| format!("{e:?}")))
            }
        };
        check_inf("Uint::try_random_bits", &o2, &want, want_pos)?;
        check_twin("Uint::random_bits vs try_random_bits", &o1, &o2)?;
        let o3 = run_inf("Uint::random_bits_with_precision(BITS)", &inf, d, |r| ul(&Uint::<N>::random_bits_with_precision(r, bl, bits)))?;
        check_inf("Uint::random_bits_with_precision(BITS)", &o3, &want, want_pos)?;
        check_twin("Uint::random_bits vs random_bits_with_precision", &o1, &o3)?;
        let o4 = run_inf("Uint::random_bits (&mut dyn RngCore)", &inf, d, |r| {
            let r: &mut dyn RngCore = r;
            ul(&Uint::<N>::random_bits(r, bl))
        })?;
        check_inf("Uint::random_bits (&mut dyn RngCore)", &o4, &want, want_pos)?;

        let i1 = run_inf("Int::random_bits", &inf, d, |r| il(&Int::<N>::random_bits(r, bl)))?;
        check_inf("Int::random_bits", &i1, &want, want_pos)?;
        check_twin("Uint::random_bits vs Int::random_bits", &o1, &i1)?;
        let i2 = run_inf("Int::random_bits_with_precision(BITS)", &inf, d, |r| il(&Int::<N>::random_bits_with_precision(r, bl, bits)))?;
        check_inf("Int::random_bits_with_precision(BITS)", &i2, &want, want_pos)?;
        if bl < bits {
            for v in &i1.vals {
                vensure!(v[N - 1] >> 63 == 0, "Int::random_bits({bl}) returned a negative value {}", hex(v));
            }
        }

        // failing rng
        let f = run_fail("Uint::try_random_bits (failing rng)", &fal, d, |r| Uint::<N>::try_random_bits(r, bl).map(|v| ul(&v)).map_err(|e| format!("{e:?}")))?;
        check_fail("Uint::try_random_bits (failing rng)", &f, &wantf, wantf_pos)?;
        for (g, w) in f.0.iter().zip(wantf.iter()) {
            if let (Err(e), None) = (g, w) {
                vensure!(e.starts_with("RandCore("), "Uint::try_random_bits (failing rng): error must be RandCore(..), got {e}");
            }
        }
        let f = run_fail("Int::try_random_bits (failing rng)", &fal, d, |r| Int::<N>::try_random_bits(r, bl).map(|v| il(&v)).map_err(|e| format!("{e:?}")))?;
        check_fail("Int::try_random_bits (failing rng)", &f, &wantf, wantf_pos)?;
        // documented: the non-try wrappers panic on error
        {
            let mut r = FailRng::new(&fal);
            let g = guard(|| ul(&Uint::<N>::random_bits(&mut r, bl)));
            match (g, &wantf[0]) {
                (Ok(v), Some(w)) => veq!(v, *w, "Uint::random_bits (failing rng, enough bytes)"),
                (Err(_), None) => {}
                (Ok(v), None) => vfail!("Uint::random_bits returned {} although the RNG failed (documented: panics on error)", hex(&v)),
                (Err(p), Some(_)) => vfail!("Uint::random_bits panicked ({p}) although the script suffices"),
            }
        }

        // ---------------- boxed twin at the same precision ----------------
        let b1 = run_inf("BoxedUint::random_bits_with_precision(BITS)", &inf, d, |r| bl_(&BoxedUint::random_bits_with_precision(r, bl, bits)))?;
        check_inf("BoxedUint::random_bits_with_precision(BITS)", &b1, &want, want_pos)?;
        check_twin("Uint::random_bits vs BoxedUint::random_bits_with_precision(BITS)", &o1, &b1)?;
    } else {
        // bit_length > BITS: error for every precision, from every form, panic from the wrappers
        let mut r = ScriptRng::new(&inf);
        let g = total("Uint::try_random_bits", || Uint::<N>::try_random_bits(&mut r, bl).map(|v| ul(&v)))?;
        check_bits_result("Uint::try_random_bits", &g, Expect::TooLarge, &[], bl, bits, bits)?;
        let g = total("Int::try_random_bits", || Int::<N>::try_random_bits(&mut r, bl).map(|v| il(&v)))?;
        check_bits_result("Int::try_random_bits", &g, Expect::TooLarge, &[], bl, bits, bits)?;
        must_panic("Uint::random_bits(bit_length > BITS)", || Uint::<N>::random_bits(&mut r, bl))?;
        must_panic("Int::random_bits(bit_length > BITS)", || Int::<N>::random_bits(&mut r, bl))?;
        let mut fr = FailRng::new(&fal);
        let g = total("Uint::try_random_bits (failing rng)", || Uint::<N>::try_random_bits(&mut fr, bl).map(|v| ul(&v)))?;
        check_bits_result("Uint::try_random_bits (failing rng)", &g, Expect::TooLarge, &[], bl, bits, bits)?;
    }

    // ---------------- fixed with an explicit precision ----------------
    {
        let exp = fixed_expect(bl, fprec, bits);
        c.label(match exp {
            Expect::Value => "fixed precision: = BITS",
            Expect::Mismatch => "fixed precision: mismatch (error path)",
            Expect::TooLarge => "fixed precision: bit length too large (error path)",
            Expect::AnyError => "fixed precision: mismatch and too large (error path)",
        });
        let want = if exp == Expect::Value { model_seq(&inf, 1, |s| model::random_bits(s, N, bl)).0[0].clone().unwrap() } else { vec![] };
        let mut r = ScriptRng::new(&inf);
        let g = total("Uint::try_random_bits_with_precision", || Uint::<N>::try_random_bits_with_precision(&mut r, bl, fprec).map(|v| ul(&v)))?;
        check_bits_result("Uint::try_random_bits_with_precision", &g, exp, &want, bl, fprec, bits)?;
        let mut r = ScriptRng::new(&inf);
        let g = total("Int::try_random_bits_with_precision", || Int::<N>::try_random_bits_with_precision(&mut r, bl, fprec).map(|v| il(&v)))?;
        check_bits_result("Int::try_random_bits_with_precision", &g, exp, &want, bl, fprec, bits)?;
        let mut r = ScriptRng::new(&inf);
        let g = guard(|| ul(&Uint::<N>::random_bits_with_precision(&mut r, bl, fprec)));
        match (g, exp) {
            (Ok(v), Expect::Value) => veq!(v, want, "Uint::random_bits_with_precision"),
            (Err(_), Expect::Value) => vfail!("Uint::random_bits_with_precision({bl}, {fprec}) panicked although the arguments are valid"),
            (Ok(v), _) => vfail!("Uint::random_bits_with_precision({bl}, {fprec}) returned {} (documented: panics on error)", hex(&v)),
            (Err(_), _) => {}
        }
    }

    // ---------------- boxed with a runtime precision ----------------
    {
        let nl = boxed_limbs_for(bprec);
        let ok = bl <= bprec;
        c.label(if ok { "boxed precision: >= bit length" } else { "boxed precision: < bit length (error path)" });
        if ok && bprec % 64 != 0 {
            c.label("boxed precision: not a multiple of 64");
        }
        let want = if ok { model_seq(&inf, 1, |s| model::random_bits(s, nl, bl)).0[0].clone().unwrap() } else { vec![] };
        let mut r = ScriptRng::new(&inf);
        let g = total("BoxedUint::try_random_bits_with_precision", || BoxedUint::try_random_bits_with_precision(&mut r, bl, bprec).map(|v| bl_(&v)))?;
        check_bits_result("BoxedUint::try_random_bits_with_precision", &g, if ok { Expect::Value } else { Expect::TooLarge }, &want, bl, bprec, bprec)?;
        if let Ok(v) = &g {
            veq!(v.len(), nl, "BoxedUint::try_random_bits_with_precision({bl}, {bprec}): result limbs (closest size to bits_precision)");
        }
        let mut r = ScriptRng::new(&inf);
        let g = guard(|| bl_(&BoxedUint::random_bits_with_precision(&mut r, bl, bprec)));
        match (g, ok) {
            (Ok(v), true) => veq!(v, want, "BoxedUint::random_bits_with_precision"),
            (Err(p), true) => vfail!("BoxedUint::random_bits_with_precision({bl}, {bprec}) panicked: {p}"),
            (Ok(v), false) => vfail!("BoxedUint::random_bits_with_precision({bl}, {bprec}) returned {} (documented: panics on error)", hex(&v)),
            (Err(_), false) => {}
        }
        if ok {
            let fal1 = Stream::new(script.clone(), None);
            let wf = model_seq(&fal1, 1, |s| model::random_bits(s, nl, bl));
            let f = run_fail("BoxedUint::try_random_bits_with_precision (failing rng)", &fal1, 1, |r| {
                BoxedUint::try_random_bits_with_precision(r, bl, bprec).map(|v| bl_(&v)).map_err(|e| format!("{e:?}"))
            })?;
            check_fail("BoxedUint::try_random_bits_with_precision (failing rng)", &f, &wf.0, wf.1)?;
        }
    }

    // ---------------- boxed: precision = bit length; Odd<BoxedUint>::random ----------------
    if bl <= bits {
        let nl = boxed_limbs_for(bl);
        let (want, want_pos) = model_seq(&inf, d, |s| model::random_bits(s, nl, bl));
        let b = run_inf("BoxedUint::random_bits", &inf, d, |r| bl_(&BoxedUint::random_bits(r, bl)))?;
        for v in &b.vals {
            below_pow2("BoxedUint::random_bits", v, bl)?;
            veq!(v.len(), nl, "BoxedUint::random_bits({bl}): result limbs");
        }
        check_inf("BoxedUint::random_bits", &b, &want, want_pos)?;
        let b2 = run_inf("BoxedUint::try_random_bits", &inf, d, |r| bl_(&BoxedUint::try_random_bits(r, bl).expect("never fails: precision = bit_length")))?;
        check_twin("BoxedUint::random_bits vs try_random_bits", &b, &b2)?;
        // Odd::<BoxedUint>::random(bit_length) = random_bits | 1
        let want_odd: Vec<Option<Limbs>> = want
            .iter()
            .map(|w| {
                w.as_ref().map(|l| {
                    let mut l = l.clone();
                    l[0] |= 1;
                    l
                })
            })
            .collect();
        let o = run_inf("Odd::<BoxedUint>::random", &inf, d, |r| bl_(Odd::<BoxedUint>::random(r, bl).as_ref()))?;
        for v in &o.vals {
            vensure!(v[0] & 1 == 1, "Odd::<BoxedUint>::random({bl}) returned an even value {}", hex(v));
            // 1 is the only odd value of bit length <= 1, so the bound is 2^max(bl,1)
            below_pow2("Odd::<BoxedUint>::random", v, bl.max(1))?;
        }
        check_inf("Odd::<BoxedUint>::random", &o, &want_odd, want_pos)?;
        // failing rng: cannot return a value, so it must panic; otherwise the value must be odd
        let mut fr = FailRng::new(&fal);
        let wf = model_seq(&fal, 1, |s| model::random_bits(s, nl, bl));
        match (guard(|| bl_(Odd::<BoxedUint>::random(&mut fr, bl).as_ref())), &wf.0[0]) {
            (Ok(v), Some(w)) => {
                let mut w = w.clone();
                w[0] |= 1;
                veq!(v, w, "Odd::<BoxedUint>::random (failing rng, enough bytes)");
            }
            (Err(_), None) => {}
            (Ok(v), None) => vfail!("Odd::<BoxedUint>::random returned {} although the RNG failed", hex(&v)),
            (Err(p), Some(_)) => vfail!("Odd::<BoxedUint>::random panicked ({p}) although the script suffices"),
        }
    }
    Ok(())
}

fn bl_(v: &BoxedUint) -> Limbs {
    vmodel::bl(v)
}

/// One stream, every bit length 0..=BITS (+1): fixed, boxed at BITS, boxed at precision = length.
pub(crate) fn all_lengths_case<const N: usize>(t: &mut Tape, c: &mut Case) -> CaseResult {
    let bits = 64 * N as u32;
    let script = byte_script(t, 8 * N, c);
    let seed = t.u64();
    c.bytes("script", &script);
    c.num("tail_seed", seed);
    c.label("all bit lengths 0..=BITS exhaustively");
    c.nontrivial(true);
    let inf = Stream::new(script, Some(seed));
    for bl in 0..=bits {
        let (want, want_pos) = model_seq(&inf, 2, |s| model::random_bits(s, N, bl));
        let o = run_inf("Uint::try_random_bits", &inf, 2, |r| ul(&Uint::<N>::try_random_bits(r, bl).expect("bit_length <= BITS must not fail")))?;
        for v in &o.vals {
            below_pow2(&format!("Uint::try_random_bits({bl})"), v, bl)?;
        }
        check_inf(&format!("Uint::try_random_bits({bl})"), &o, &want, want_pos)?;
        let b = run_inf("BoxedUint::try_random_bits_with_precision", &inf, 2, |r| {
            bl_(&BoxedUint::try_random_bits_with_precision(r, bl, bits).expect("bit_length <= precision must not fail"))
        })?;
        check_twin(&format!("Uint vs BoxedUint random_bits({bl}) at precision {bits}"), &o, &b)?;
        let nl = boxed_limbs_for(bl);
        let bn = run_inf("BoxedUint::try_random_bits", &inf, 2, |r| bl_(&BoxedUint::try_random_bits(r, bl).expect("precision = bit_length must not fail")))?;
        for v in &bn.vals {
            veq!(v.len(), nl, "BoxedUint::try_random_bits({bl}): result limbs");
        }
        check_twin(&format!("Uint vs BoxedUint::try_random_bits({bl})"), &o, &bn)?;
    }
    let mut r = ScriptRng::new(&inf);
    let g = total("Uint::try_random_bits(BITS+1)", || Uint::<N>::try_random_bits(&mut r, bits + 1).map(|v| ul(&v)))?;
    check_bits_result("Uint::try_random_bits(BITS+1)", &g, Expect::TooLarge, &[], bits + 1, bits, bits)?;
    Ok(())
}

macro_rules! fixed {
    ($v:ident, $q:expr, $qa:expr; $($n:literal),*) => { $(
        $v.push(SubCheck::new(format!("bits/uint+int+boxed/U{}", 64*$n), $q, bits_case::<$n>).tape(48));
        $v.push(SubCheck::new(format!("bits/all-lengths/U{}", 64*$n), $qa, all_lengths_case::<$n>).tape(16).thorough(10));
    )* };
}

pub(crate) fn register(v: &mut Vec<SubCheck>, ctx: &Ctx) {
    fixed!(v, 40000, 600; 1, 2);
    fixed!(v, 30000, 300; 3, 4);
    fixed!(v, 20000, 100; 8);
    if ctx.thorough() {
        fixed!(v, 3000, 20; 6, 16, 32);
    }
}
