fn main() {
    vmodel::cli_main(c19::spec())
}
