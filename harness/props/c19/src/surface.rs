//! API-surface audit (see /verif/audit/F.md): instantiation families of the sampling traits that the
//! other modules do not reach.
//!
//! * limb counts: every const-generic sampler ran at 1, 2, 3, 4, 8 limbs in the quick tier (6, 16, 32 only
//!   in the thorough tier). The same case functions are registered at 5, 6 and 7 limbs, and
//!   `ConstMontyForm::random` with 5- and 7-limb moduli.
//! * generic impls with inner types that were never used: `Random for Wrapping<T>` with T = `Int`,
//!   `Random for NonZero<T>` with T = `Wrapping<Uint>`, `Wrapping<Limb>`, `ConstMontyForm`;
//!   `NonZero<Int>::try_random` on a failing generator.
//! * routes: functions generic over `Random` / `RandomBits` / `RandomMod` (instead of the method on
//!   the concrete type) and `&mut dyn RngCore` receivers for `Limb`, `Int`, `NonZero`, `Odd`.
//!
//! Oracles: the reference samplers of `model.rs`; "Random for NonZero<T>: This uses rejection sampling
//! to avoid zero" (first non-zero draw of T on the same stream); C19: "random non-zero and odd values
//! satisfy their invariant".

use crate::bits::{all_lengths_case, bits_case};
use crate::model::{self, ModStats};
use crate::modsample::{cmf_case, label_stats, mod_case, mod_script};
use crate::plain::{plain_case, plain_script};
use crate::rng::Stream;
use crate::*;
use crypto_bigint::modular::{ConstMontyForm, ConstMontyParams};
use crypto_bigint::rand_core::{RngCore, TryRngCore};
use crypto_bigint::{impl_modulus, BoxedUint, Int, Limb, NonZero, Odd, Random, RandomBits, RandomMod, Uint, Wrapping, U192, U320, U448};

fn draw<T: Random, R: RngCore + ?Sized>(r: &mut R) -> T {
    T::random(r)
}
fn try_draw<T: Random, R: TryRngCore + ?Sized>(r: &mut R) -> Result<T, R::Error> {
    T::try_random(r)
}
fn draw_bits<T: RandomBits, R: TryRngCore + ?Sized>(r: &mut R, bits: u32) -> T {
    T::random_bits(r, bits)
}
fn draw_mod<T: RandomMod, R: RngCore + ?Sized>(r: &mut R, m: &NonZero<T>) -> T {
    T::random_mod(r, m)
}

fn set_odd(v: &[Option<Limbs>]) -> Vec<Option<Limbs>> {
    v.iter()
        .map(|o| {
            o.as_ref().map(|l| {
                let mut l = l.clone();
                l[0] |= 1;
                l
            })
        })
        .collect()
}

fn forms_case<const N: usize>(t: &mut Tape, c: &mut Case) -> CaseResult {
    let d = 1 + t.weighted(&[3, 2, 1]);
    let script = words_to_bytes(&plain_script(t, N, c));
    let seed = t.u64();
    let cut = gen_cut(t, script.len());
    let bl = t.u32_in(0, 64 * N as u32);
    c.bytes("script", &script);
    c.num("draws", d as u64);
    c.num("tail_seed", seed);
    c.num("cut", cut as u64);
    c.num("bit_length", bl as u64);
    let inf = Stream::new(script.clone(), Some(seed));
    let fal = Stream::new(script[..script.len() - cut].to_vec(), None);

    let (w1, w1p) = model_seq(&inf, d, |s| model::words(s, 1));
    let (w, wp) = model_seq(&inf, d, |s| model::words(s, N));
    let (wf, wfp) = model_seq(&fal, d, |s| model::words(s, N));

    // ---- Random for Wrapping<T>, T = Int
    let o = run_inf("Wrapping::<Int>::random", &inf, d, |r| il(&Wrapping::<Int<N>>::random(r).0))?;
    check_inf("Wrapping::<Int>::random", &o, &w, wp)?;
    let f = run_fail("Wrapping::<Int>::try_random (failing rng)", &fal, d, |r| Wrapping::<Int<N>>::try_random(r).map(|v| il(&v.0)).map_err(|e| e.to_string()))?;
    check_fail("Wrapping::<Int>::try_random (failing rng)", &f, &wf, wfp)?;

    // ---- generic-function and dyn routes
    let o = run_inf("fn draw<T: Random> with T = Limb (&mut dyn RngCore)", &inf, d, |r| {
        let r: &mut dyn RngCore = r;
        vec![draw::<Limb, _>(r).0]
    })?;
    check_inf("draw::<Limb> (dyn)", &o, &w1, w1p)?;
    let o = run_inf("fn draw<T: Random> with T = Int (&mut dyn RngCore)", &inf, d, |r| {
        let r: &mut dyn RngCore = r;
        il(&draw::<Int<N>, _>(r))
    })?;
    check_inf("draw::<Int> (dyn)", &o, &w, wp)?;
    let o = run_inf("fn draw<T: Random> with T = Uint", &inf, d, |r| ul(&draw::<Uint<N>, _>(r)))?;
    check_inf("draw::<Uint>", &o, &w, wp)?;
    let o = run_inf("fn draw<T: Random> with T = Odd<Uint> (&mut dyn RngCore)", &inf, d, |r| {
        let r: &mut dyn RngCore = r;
        ul(draw::<Odd<Uint<N>>, _>(r).as_ref())
    })?;
    for v in &o.vals {
        vensure!(v[0] & 1 == 1, "draw::<Odd<Uint>> returned an even value {}", hex(v));
    }
    check_inf("draw::<Odd<Uint>> (dyn)", &o, &set_odd(&w), wp)?;
    let f = run_fail("fn try_draw<T: Random> with T = Odd<Uint> (failing rng)", &fal, d, |r| try_draw::<Odd<Uint<N>>, _>(r).map(|v| ul(v.as_ref())).map_err(|e| e.to_string()))?;
    check_fail("try_draw::<Odd<Uint>> (failing rng)", &f, &set_odd(&wf), wfp)?;

    // RandomBits through a generic function (T = Int, Uint, BoxedUint)
    if bl <= 64 * N as u32 {
        let (wb, wbp) = model_seq(&inf, d, |s| model::random_bits(s, N, bl));
        let o = run_inf("fn draw_bits<T: RandomBits> with T = Int", &inf, d, |r| il(&draw_bits::<Int<N>, _>(r, bl)))?;
        check_inf("draw_bits::<Int>", &o, &wb, wbp)?;
        let o2 = run_inf("fn draw_bits<T: RandomBits> with T = Uint (&mut dyn RngCore)", &inf, d, |r| {
            let r: &mut dyn RngCore = r;
            ul(&draw_bits::<Uint<N>, _>(r, bl))
        })?;
        check_inf("draw_bits::<Uint> (dyn)", &o2, &wb, wbp)?;
        let nl = (bl as usize).div_ceil(64).max(1);
        let (wbb, wbbp) = model_seq(&inf, d, |s| model::random_bits(s, nl, bl));
        let o3 = run_inf("fn draw_bits<T: RandomBits> with T = BoxedUint", &inf, d, |r| vmodel::bl(&draw_bits::<BoxedUint, _>(r, bl)))?;
        check_inf("draw_bits::<BoxedUint>", &o3, &wbb, wbbp)?;
    }

    // ---- Random for NonZero<T>: T = Wrapping<Uint>, Wrapping<Limb>; NonZero<Int> on a failing generator
    let mut rej = 0u64;
    let (nz, nzp) = model_seq(&inf, d, |s| model::nonzero_words(s, N, &mut rej));
    let mut rej1 = 0u64;
    let (nz1, nz1p) = model_seq(&inf, d, |s| model::nonzero_words(s, 1, &mut rej1));
    if nz.iter().any(|w| w.is_none()) || nz1.iter().any(|w| w.is_none()) {
        c.skip();
        return Ok(());
    }
    if rej > 0 || rej1 > 0 {
        c.label("model: >=1 zero candidate rejected");
    }
    c.nontrivial(rej > 0 || rej1 > 0 || bl % 32 != 0);
    let o = run_inf("NonZero::<Wrapping<Uint>>::random", &inf, d, |r| ul(&NonZero::<Wrapping<Uint<N>>>::random(r).get().0))?;
    for v in &o.vals {
        vensure!(!is_zero(v), "NonZero::<Wrapping<Uint>>::random returned zero");
    }
    check_inf("NonZero::<Wrapping<Uint>>::random", &o, &nz, nzp)?;
    let o = run_inf("NonZero::<Wrapping<Limb>>::random", &inf, d, |r| vec![NonZero::<Wrapping<Limb>>::random(r).get().0 .0])?;
    for v in &o.vals {
        vensure!(v[0] != 0, "NonZero::<Wrapping<Limb>>::random returned zero");
    }
    check_inf("NonZero::<Wrapping<Limb>>::random", &o, &nz1, nz1p)?;
    let o = run_inf("fn draw<T: Random> with T = NonZero<Uint> (&mut dyn RngCore)", &inf, d, |r| {
        let r: &mut dyn RngCore = r;
        ul(&draw::<NonZero<Uint<N>>, _>(r).get())
    })?;
    check_inf("draw::<NonZero<Uint>> (dyn)", &o, &nz, nzp)?;
    let mut rejf = 0u64;
    let (nzf, nzfp) = model_seq(&fal, d, |s| model::nonzero_words(s, N, &mut rejf));
    let f = run_fail("NonZero::<Int>::try_random (failing rng)", &fal, d, |r| NonZero::<Int<N>>::try_random(r).map(|v| il(&v.get())).map_err(|e| e.to_string()))?;
    for v in f.0.iter().flatten() {
        vensure!(!is_zero(v), "NonZero::<Int>::try_random returned zero");
    }
    check_fail("NonZero::<Int>::try_random (failing rng)", &f, &nzf, nzfp)?;
    let f = run_fail("NonZero::<Wrapping<Uint>>::try_random (failing rng)", &fal, d, |r| NonZero::<Wrapping<Uint<N>>>::try_random(r).map(|v| ul(&v.get().0)).map_err(|e| e.to_string()))?;
    check_fail("NonZero::<Wrapping<Uint>>::try_random (failing rng)", &f, &nzf, nzfp)?;
    Ok(())
}

// ------------------------------------------------------------------------------------------------
// NonZero<ConstMontyForm>::random: rejection sampling on top of the modular sampler; RandomMod
// through a generic function

impl_modulus!(S192, U192, "fffffffffffffffffffffffffffffffeffffffffffffffff");
impl_modulus!(S320Small, U320, "0000000000000000000000000000000000000000000000000000000000000001000000000000000d");
impl_modulus!(S320, U320, "80000000000000000000000000000000000000000000000000000000000000000000000000000001");
impl_modulus!(S448, U448, "fffffffffffffffffffffffffffffffffffffffffffffffffffffffeffffffffffffffffffffffffffffffffffffffffffffffffffffffff");
impl_modulus!(S448TopOne, U448, "0000000000000001ffffffffffffffffffffffffffffffffffffffffffffffffffffffffffffffffffffffffffffffffffffffffffffffff");

fn nz_cmf_case<MOD: ConstMontyParams<N>, const N: usize>(t: &mut Tape, c: &mut Case) -> CaseResult {
    let m: Limbs = MOD::MODULUS.as_ref().as_words().to_vec();
    let k = (bit_len(&m) as usize).div_ceil(64);
    let d = 1 + t.weighted(&[3, 2, 1]);
    // zero candidates first (all-zero words are accepted by the modular sampler as the value 0)
    let mut words = vec![0u64; t.pick(&[0usize, 0, k, 2 * k, 3 * k])];
    words.extend(mod_script(t, &m, k, c));
    let script = words_to_bytes(&words);
    let seed = t.u64();
    let cut = gen_cut(t, script.len());
    c.limbs("modulus", &m);
    c.bytes("script", &script);
    c.num("draws", d as u64);
    c.num("tail_seed", seed);
    c.num("cut", cut as u64);
    let inf = Stream::new(script.clone(), Some(seed));
    let fal = Stream::new(script[..script.len() - cut].to_vec(), None);
    let mut st = ModStats::default();
    let mut zero_rejects = 0u64;
    let mut nz_model = |s: &mut Stream| -> Result<Limbs, crate::rng::Exhausted> {
        loop {
        let v = model::random_mod(s, &m, &mut st)?;
        if !is_zero(&v) {
                return Ok(v);
            }
            zero_rejects += 1;
        }
    };
    let (want, want_pos) = model_seq(&inf, d, &mut nz_model);
    if want.iter().any(|w| w.is_none()) {
        c.skip();
        return Ok(());
    }
    let (wantf, wantf_pos) = model_seq(&fal, d, &mut nz_model);
    label_stats(c, &st);
    if zero_rejects > 0 {
        c.label("model: >=1 zero residue rejected (NonZero<ConstMontyForm>)");
        c.nontrivial(true);
    }
    let name = "NonZero::<ConstMontyForm>::random (retrieve)";
    let o = run_inf(name, &inf, d, |r| ul(&NonZero::<ConstMontyForm<MOD, N>>::random(r).get().retrieve()))?;
    for v in &o.vals {
        vensure!(!is_zero(v), "{name} returned the zero residue");
    }
    check_inf(name, &o, &want, want_pos)?;
    let name = "NonZero::<ConstMontyForm>::try_random (failing rng)";
    let f = run_fail(name, &fal, d, |r| NonZero::<ConstMontyForm<MOD, N>>::try_random(r).map(|v| ul(&v.get().retrieve())).map_err(|e| e.to_string()))?;
    for v in f.0.iter().flatten() {
        vensure!(!is_zero(v), "{name} returned the zero residue");
    }
    check_fail(name, &f, &wantf, wantf_pos)?;

    // RandomMod through a generic function: same stream, plain modular model
    let mut st2 = ModStats::default();
    let (wm, wmp) = model_seq(&inf, d, |s| model::random_mod(s, &m, &mut st2));
    if wm.iter().all(|w| w.is_some()) {
        let nzm = NonZero::new(uint::<N>(&m)).unwrap();
        let o = run_inf("fn draw_mod<T: RandomMod> with T = Uint (&mut dyn RngCore)", &inf, d, |r| {
            let r: &mut dyn RngCore = r;
            ul(&draw_mod::<Uint<N>, _>(r, &nzm))
        })?;
        check_inf("draw_mod::<Uint> (dyn)", &o, &wm, wmp)?;
        let nzb = NonZero::new(boxed(&m)).unwrap();
        let o = run_inf("fn draw_mod<T: RandomMod> with T = BoxedUint", &inf, d, |r| bl(&draw_mod::<BoxedUint, _>(r, &nzb)))?;
        check_inf("draw_mod::<BoxedUint>", &o, &wm, wmp)?;
    }
    Ok(())
}

// ------------------------------------------------------------------------------------------------

macro_rules! widths {
    ($v:ident; $($n:literal),*) => { $(
        $v.push(SubCheck::new(format!("surface/widths/random/limb+uint+int+nonzero+odd/U{}", 64*$n), 6000, plain_case::<$n>).tape(48 + 4 * $n).thorough(10));
        $v.push(SubCheck::new(format!("surface/widths/bits/uint+int+boxed/U{}", 64*$n), 8000, bits_case::<$n>).tape(48).thorough(10));
        $v.push(SubCheck::new(format!("surface/widths/bits/all-lengths/U{}", 64*$n), 40, all_lengths_case::<$n>).tape(16).thorough(10));
        $v.push(SubCheck::new(format!("surface/widths/mod/uint+boxed/U{}", 64*$n), 6000, mod_case::<$n>).tape(64 + 8 * $n).thorough(10));
    )* };
}
macro_rules! cmf {
    ($v:ident, $q:expr; $(($m:ident, $n:literal)),*) => { $(
        $v.push(SubCheck::new(format!("surface/widths/mod/const-monty/{}", stringify!($m)), $q, cmf_case::<$m, $n>).tape(64 + 8 * $n).thorough(10));
        $v.push(SubCheck::new(format!("surface/forms/nonzero-const-monty+generic-mod/{}", stringify!($m)), $q, nz_cmf_case::<$m, $n>).tape(80 + 8 * $n).thorough(10));
    )* };
}

pub(crate) fn register(v: &mut Vec<SubCheck>, _ctx: &Ctx) {
    widths!(v; 5, 6, 7);
    cmf!(v, 3000; (S192, 3), (S320Small, 5), (S320, 5), (S448, 7), (S448TopOne, 7));
    v.push(SubCheck::new("surface/forms/wrapping-int+nonzero-wrapping+generic-routes/U128", 10000, forms_case::<2>).tape(64).thorough(10));
    v.push(SubCheck::new("surface/forms/wrapping-int+nonzero-wrapping+generic-routes/U192", 8000, forms_case::<3>).tape(64).thorough(10));
    v.push(SubCheck::new("surface/forms/wrapping-int+nonzero-wrapping+generic-routes/U320", 6000, forms_case::<5>).tape(72).thorough(10));
}
