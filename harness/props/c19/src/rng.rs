//! Scripted random number generators.
//!
//! A [`Stream`] is a *byte stream*: a recorded script (from the case generator) followed either by
//! nothing (the generator then fails: [`FailRng`]) or by a ChaCha8 tail ([`ScriptRng`]). All three
//! `rand_core` entry points read from the same stream: `next_u32` = 4 bytes little-endian,
//! `next_u64` = 8 bytes little-endian, `fill_bytes(n)` = n bytes. The number of bytes consumed and
//! the sequence of calls are recorded, so two samplers can be compared for "consume the stream
//! identically".
//!
//! [`CountRng`] wraps a real ChaCha generator and counts what is requested from it (uniformity runs).

use rand_chacha::ChaCha8Rng;
use rand_core::{RngCore, SeedableRng, TryRngCore};
use std::fmt;

/// An infallible generator that is asked for more than this many bytes past its script panics
/// instead of looping forever (a sampler that never accepts is a failure, not a hang).
pub const TAIL_CAP: usize = 1 << 16;
const LOG_CAP: usize = 1 << 12;

#[derive(Clone, Copy, Debug, PartialEq, Eq)]
pub enum Call {
    U32,
    U64,
    Fill(usize),
}

#[derive(Debug, Clone, PartialEq, Eq)]
pub struct Exhausted {
    pub at: usize,
    pub wanted: usize,
}

impl fmt::Display for Exhausted {
    fn fmt(&self, f: &mut fmt::Formatter<'_>) -> fmt::Result {
        write!(f, "scripted rng exhausted at byte {} (wanted {} more)", self.at, self.wanted)
    }
}
impl std::error::Error for Exhausted {}

#[derive(Clone)]
pub struct Stream {
    bytes: Vec<u8>,
    script_len: usize,
    tail: Option<ChaCha8Rng>,
    pub pos: usize,
    pub calls: Vec<Call>,
    pub ncalls: usize,
    pub failed: bool,
}

impl Stream {
    pub fn new(script: Vec<u8>, tail_seed: Option<u64>) -> Self {
        Stream {
            script_len: script.len(),
            bytes: script,
            tail: tail_seed.map(ChaCha8Rng::seed_from_u64),
            pos: 0,
            calls: Vec::new(),
            ncalls: 0,
            failed: false,
        }
    }
    pub fn has_tail(&self) -> bool {
        self.tail.is_some()
    }
    /// bytes consumed past the script (i.e. from the ChaCha tail)
    pub fn tail_used(&self) -> usize {
        self.pos.saturating_sub(self.script_len)
    }
    fn log(&mut self, c: Call) {
        self.ncalls += 1;
        if self.calls.len() < LOG_CAP {
            self.calls.push(c);
        }
    }
    /// Take the next `n` bytes. A failure is sticky and consumes nothing.
    pub fn take(&mut self, n: usize, call: Call) -> Result<&[u8], Exhausted> {
        if self.failed {
            return Err(Exhausted { at: self.pos, wanted: n });
        }
        let end = self.pos + n;
        if end > self.bytes.len() {
            match self.tail.as_mut() {
                Some(rng) if end <= self.script_len + TAIL_CAP => {
                    let mut chunk = [0u8; 64];
                    while self.bytes.len() < end {
                        rng.fill_bytes(&mut chunk);
                        self.bytes.extend_from_slice(&chunk);
                    }
                }
                _ => {
                    self.failed = true;
                    return Err(Exhausted { at: self.pos, wanted: n });
                }
            }
        }
        self.log(call);
        let s = &self.bytes[self.pos..end];
        self.pos = end;
        Ok(s)
    }
    pub fn take_u64(&mut self) -> Result<u64, Exhausted> {
        let b = self.take(8, Call::U64)?;
        Ok(u64::from_le_bytes(b.try_into().unwrap()))
    }
    pub fn take_u32(&mut self) -> Result<u32, Exhausted> {
        let b = self.take(4, Call::U32)?;
        Ok(u32::from_le_bytes(b.try_into().unwrap()))
    }
    pub fn take_fill(&mut self, dst: &mut [u8]) -> Result<(), Exhausted> {
        let b = self.take(dst.len(), Call::Fill(dst.len()))?;
        dst.copy_from_slice(b);
        Ok(())
    }
}

/// Infallible: script then ChaCha tail. Panics when more than [`TAIL_CAP`] tail bytes are requested.
pub struct ScriptRng(pub Stream);

impl ScriptRng {
    pub fn new(s: &Stream) -> Self {
        assert!(s.has_tail(), "harness: ScriptRng needs a tail");
        ScriptRng(s.clone())
    }
}

fn runaway(e: Exhausted) -> ! {
    panic!("ScriptRng: sampler asked for more than {} bytes past the script ({e}): it does not terminate", TAIL_CAP)
}

impl RngCore for ScriptRng {
    fn next_u32(&mut self) -> u32 {
        self.0.take_u32().unwrap_or_else(|e| runaway(e))
    }
    fn next_u64(&mut self) -> u64 {
        self.0.take_u64().unwrap_or_else(|e| runaway(e))
    }
    fn fill_bytes(&mut self, dst: &mut [u8]) {
        self.0.take_fill(dst).unwrap_or_else(|e| runaway(e))
    }
}

/// Fallible: script, then every call fails.
pub struct FailRng(pub Stream);

impl FailRng {
    pub fn new(s: &Stream) -> Self {
        assert!(!s.has_tail(), "harness: FailRng has no tail");
        FailRng(s.clone())
    }
}

impl TryRngCore for FailRng {
    type Error = Exhausted;
    fn try_next_u32(&mut self) -> Result<u32, Exhausted> {
        self.0.take_u32()
    }
    fn try_next_u64(&mut self) -> Result<u64, Exhausted> {
        self.0.take_u64()
    }
    fn try_fill_bytes(&mut self, dst: &mut [u8]) -> Result<(), Exhausted> {
        self.0.take_fill(dst)
    }
}

/// ChaCha8 with request counters (uniformity runs: fast, no recording).
pub struct CountRng {
    pub rng: ChaCha8Rng,
    pub bytes: u64,
    pub calls: u64,
}

impl CountRng {
    pub fn new(seed: u64) -> Self {
        CountRng { rng: ChaCha8Rng::seed_from_u64(seed), bytes: 0, calls: 0 }
    }
}

impl RngCore for CountRng {
    #[inline]
    fn next_u32(&mut self) -> u32 {
        self.bytes += 4;
        self.calls += 1;
        self.rng.next_u32()
    }
    #[inline]
    fn next_u64(&mut self) -> u64 {
        self.bytes += 8;
        self.calls += 1;
        self.rng.next_u64()
    }
    #[inline]
    fn fill_bytes(&mut self, dst: &mut [u8]) {
        self.bytes += dst.len() as u64;
        self.calls += 1;
        self.rng.fill_bytes(dst)
    }
}
