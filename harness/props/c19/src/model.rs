//! Reference samplers over a scripted byte stream. Plain `u64` / byte arithmetic only (no
//! crypto-bigint code), following the rules the crate documents:
//!
//! * `Random for Uint`: limbs in little-endian order, each limb one 64-bit word of the stream
//!   ("platform independence" golden test of `src/uint/rand.rs`), i.e. the value is the little-endian
//!   integer made of the next `8·LIMBS` bytes.
//! * `random_bits_core` doc comment: "4-byte sequential" and platform independent, i.e. the value is
//!   the little-endian integer made of the next `4·ceil(bit_length/32)` bytes, reduced mod
//!   `2^bit_length`.
//! * `RandomMod`: "uses rejection sampling"; `random_mod_core` documents the candidate layout: the
//!   high word (masked to the bit length of the modulus' top limb) is drawn first and rejected early
//!   while it exceeds the modulus' top limb, then the low limbs follow in little-endian order, and the
//!   candidate is accepted iff it is `< modulus`.
//! * `RandomMod for Limb`: candidates of `ceil(bits/8)` bytes, little-endian, top byte masked.
//! * `Random for NonZero<T>`: rejection sampling of `T::random` until non-zero.

use crate::rng::{Call, Exhausted, Stream};
use std::cmp::Ordering;
use vmodel::Limbs;

pub fn cmp_limbs(a: &[u64], b: &[u64]) -> Ordering {
    let n = a.len().max(b.len());
    for i in (0..n).rev() {
        let x = a.get(i).copied().unwrap_or(0);
        let y = b.get(i).copied().unwrap_or(0);
        if x != y {
            return x.cmp(&y);
        }
    }
    Ordering::Equal
}

pub fn words(s: &mut Stream, n: usize) -> Result<Limbs, Exhausted> {
    let b = s.take(8 * n, Call::Fill(8 * n))?;
    Ok(b.chunks(8).map(|c| u64::from_le_bytes(c.try_into().unwrap())).collect())
}

/// Number of stream bytes `random_bits(bit_length)` consumes.
pub fn bits_need(bit_length: u32) -> usize {
    4 * (bit_length as usize).div_ceil(32)
}

/// `[0, 2^bit_length)` value in `out_limbs` limbs.
pub fn random_bits(s: &mut Stream, out_limbs: usize, bit_length: u32) -> Result<Limbs, Exhausted> {
    let need = bits_need(bit_length);
    let mut out = vec![0u64; out_limbs];
    if need == 0 {
        return Ok(out);
    }
    let b = s.take(need, Call::Fill(need))?.to_vec();
    for (i, byte) in b.iter().enumerate() {
        out[i / 8] |= (*byte as u64) << (8 * (i % 8));
    }
    // reduce mod 2^bit_length
    let bl = bit_length as usize;
    for (i, w) in out.iter_mut().enumerate() {
        if 64 * i >= bl {
            *w = 0;
        } else if bl - 64 * i < 64 {
            *w &= (1u64 << (bl - 64 * i)) - 1;
        }
    }
    Ok(out)
}

#[derive(Default, Clone, Debug)]
pub struct ModStats {
    /// high words rejected before the low limbs were drawn
    pub early_rejects: u64,
    /// full candidates rejected by the `< modulus` comparison
    pub full_rejects: u64,
    /// … of which the candidate was exactly the modulus
    pub rejected_equal: u64,
    /// accepted candidates whose top limb equals the modulus' top limb (multi-limb)
    pub accepted_top_equal: u64,
    /// high words that had bits above the mask set (must be ignored)
    pub junk_masked: u64,
    pub accepted_zero: u64,
    pub accepted_m_minus_1: u64,
}

impl ModStats {
    pub fn rejected(&self) -> u64 {
        self.early_rejects + self.full_rejects
    }
}

/// `modulus` non-zero; result has `modulus.len()` limbs.
pub fn random_mod(s: &mut Stream, m: &[u64], st: &mut ModStats) -> Result<Limbs, Exhausted> {
    let bits = vmodel::bit_len(m);
    assert!(bits > 0, "harness: zero modulus");
    let k = (bits as usize).div_ceil(64);
    let hi_mod = m[k - 1];
    let mask = u64::MAX >> hi_mod.leading_zeros();
    let mut m_minus_1 = m.to_vec();
    vmodel::gen::dec(&mut m_minus_1);
    loop {
        let w = s.take_u64()?;
        if w & !mask != 0 {
            st.junk_masked += 1;
        }
        let hi = w & mask;
        if hi > hi_mod {
            st.early_rejects += 1;
            continue;
        }
        let mut cand = vec![0u64; m.len()];
        cand[k - 1] = hi;
        for limb in cand.iter_mut().take(k - 1) {
            *limb = s.take_u64()?;
        }
        match cmp_limbs(&cand, m) {
            Ordering::Less => {
                if k > 1 && hi == hi_mod {
                    st.accepted_top_equal += 1;
                }
                if vmodel::is_zero(&cand) {
                    st.accepted_zero += 1;
                }
                if cand == m_minus_1 {
                    st.accepted_m_minus_1 += 1;
                }
                return Ok(cand);
            }
            Ordering::Equal => {
                st.full_rejects += 1;
                st.rejected_equal += 1;
            }
            Ordering::Greater => st.full_rejects += 1,
        }
    }
}

pub fn limb_random_mod(s: &mut Stream, m: u64, st: &mut ModStats) -> Result<u64, Exhausted> {
    assert!(m != 0, "harness: zero modulus");
    let bits = 64 - m.leading_zeros() as usize;
    let n_bytes = bits.div_ceil(8);
    let top_mask = 0xffu8 >> (8 * n_bytes - bits);
    loop {
        let mut buf = [0u8; 8];
        s.take_fill(&mut buf[..n_bytes])?;
        if buf[n_bytes - 1] & !top_mask != 0 {
            st.junk_masked += 1;
        }
        buf[n_bytes - 1] &= top_mask;
        let v = u64::from_le_bytes(buf);
        if v < m {
            if v == 0 {
                st.accepted_zero += 1;
            }
            if v == m - 1 {
                st.accepted_m_minus_1 += 1;
            }
            return Ok(v);
        }
        st.full_rejects += 1;
        if v == m {
            st.rejected_equal += 1;
        }
    }
}

/// `NonZero<T>::random` where `T::random` reads `n` words: first non-zero block; returns the number
/// of rejected (zero) blocks too.
pub fn nonzero_words(s: &mut Stream, n: usize, rejected: &mut u64) -> Result<Limbs, Exhausted> {
    loop {
        let w = words(s, n)?;
        if !vmodel::is_zero(&w) {
            return Ok(w);
        }
        *rejected += 1;
    }
}
