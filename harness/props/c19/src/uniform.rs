//! Uniformity: exhaustive enumeration of short streams and chi-square tests on ChaCha draws.

use crate::model::cmp_limbs;
use crate::rng::{CountRng, Stream};
use crate::*;
use crypto_bigint::{BoxedUint, Limb, NonZero, RandomBits, RandomMod, Uint};
use num_bigint::BigUint;
use num_traits::ToPrimitive;
use std::cmp::Ordering;

// ------------------------------------------------------------------------------------------------
// exhaustive: Limb, all 1-byte / 2-byte streams

/// Every stream of `nb` bytes followed by an RNG error: the accepted first candidates must cover
/// every value below `m` equally often and nothing else.
fn limb_exhaustive(m: u64, nb: usize, c: &mut Case) -> CaseResult {
    let nz = NonZero::new(Limb(m)).unwrap();
    let mut tally = vec![0u32; m as usize];
    let mut rejected = 0u32;
    for x in 0..(1u32 << (8 * nb)) {
        let script = x.to_le_bytes()[..nb].to_vec();
        let mut r = FailRng::new(&Stream::new(script, None));
        match total("Limb::try_random_mod", || Limb::try_random_mod(&mut r, &nz))? {
            Ok(v) => {
                vensure!(v.0 < m, "Limb::try_random_mod: stream {x:#x} gave {} which is not below {m}", v.0);
                vensure!(r.0.pos == nb, "Limb::try_random_mod(m={m}): consumed {} bytes for an accepted first candidate, expected {nb}", r.0.pos);
                tally[v.0 as usize] += 1;
            }
            Err(_) => rejected += 1,
        }
    }
    let first = tally[0];
    vensure!(first >= 1, "Limb::random_mod(m={m}): value 0 is never produced by any {nb}-byte stream");
    for (v, &n) in tally.iter().enumerate() {
        vensure!(n == first, "Limb::random_mod(m={m}): over all {nb}-byte streams value {v} is produced {n} times but value 0 {first} times (biased)");
    }
    // documented candidate width: ceil(bits/8) bytes with the top byte masked to the bit length
    let bits = 64 - m.leading_zeros();
    let per = (1u64 << (8 * nb)) >> bits;
    vensure!(first as u64 == per, "Limb::random_mod(m={m}): every value is accepted from {first} of the {nb}-byte streams, expected {per} (candidates of {bits} bits)");
    c.nontrivial(rejected > 0);
    Ok(())
}

fn limb_1byte_case(t: &mut Tape, c: &mut Case) -> CaseResult {
    let m = t.range(1, 255);
    c.num("modulus", m);
    c.label("exhaustive: all 256 one-byte streams");
    limb_exhaustive(m, 1, c)
}

fn limb_2byte_case(t: &mut Tape, c: &mut Case) -> CaseResult {
    let m = match t.weighted(&[2, 1]) {
        0 => t.pick(&[256u64, 257, 258, 511, 512, 513, 1000, 1023, 1024, 1025, 4095, 4096, 4097, 32767, 32768, 32769, 65534, 65535]),
        _ => t.range(256, 65535),
    };
    c.num("modulus", m);
    c.label("exhaustive: all 65536 two-byte streams");
    limb_exhaustive(m, 2, c)
}

// ------------------------------------------------------------------------------------------------
// exhaustive: Uint / BoxedUint, all values of the masked bits of the first word

fn small_modulus(t: &mut Tape) -> u64 {
    match t.weighted(&[2, 2, 3]) {
        0 => t.pick(&[1u64, 2, 3, 4, 5, 7, 8, 9, 255, 256, 257, 511, 512, 513, 1000, 1023, 1024]),
        1 => {
            let j = t.below(11);
            let d = t.below(3);
            ((1u64 << j) + d).saturating_sub(1).clamp(1, 1024)
        }
        _ => t.range(1, 1024),
    }
}

fn word_exhaustive<const N: usize>(t: &mut Tape, c: &mut Case) -> CaseResult {
    let m = small_modulus(t);
    let junk = t.u64();
    let boxed_limbs = t.usize_in(1, 5);
    c.num("modulus", m);
    c.num("junk", junk);
    c.num("boxed_limbs", boxed_limbs as u64);
    c.label("exhaustive: all values of the masked bits of the first word");
    let bits = 64 - m.leading_zeros();
    let mut ml = vec![0u64; N];
    ml[0] = m;
    let nz = NonZero::new(uint::<N>(&ml)).unwrap();
    let mut mb = vec![0u64; boxed_limbs];
    mb[0] = m;
    let nzb = NonZero::new(boxed(&mb)).unwrap();
    let mut tally = vec![0u32; m as usize];
    let mut tally_b = vec![0u32; m as usize];
    let mut rejected = 0u32;
    // two laps over the masked bits with different junk above them
    for x in 0..(2u64 << bits) {
        let low = x & ((1u64 << bits) - 1);
        let hi = if x >> bits == 0 { junk } else { !junk };
        let w = low | (hi << bits);
        let s = Stream::new(w.to_le_bytes().to_vec(), None);
        let mut r = FailRng::new(&s);
        match total("Uint::try_random_mod", || Uint::<N>::try_random_mod(&mut r, &nz))? {
            Ok(v) => {
                let v = ul(&v);
                vensure!(cmp_limbs(&v, &ml) == Ordering::Less, "Uint::try_random_mod: word {w:#x} gave {} which is not below {m}", hex(&v));
                tally[v[0] as usize] += 1;
            }
            Err(_) => rejected += 1,
        }
        let mut r = FailRng::new(&s);
        if let Ok(v) = total("BoxedUint::try_random_mod", || BoxedUint::try_random_mod(&mut r, &nzb))? {
            let v = bl(&v);
            vensure!(cmp_limbs(&v, &mb) == Ordering::Less, "BoxedUint::try_random_mod: word {w:#x} gave {} which is not below {m}", hex(&v));
            tally_b[v[0] as usize] += 1;
        }
    }
    for (name, tl) in [("Uint", &tally), ("BoxedUint", &tally_b)] {
        for (v, &n) in tl.iter().enumerate() {
            vensure!(n == 2, "{name}::random_mod(m={m}): over all values of the low {bits} bits of the first word (two laps) value {v} is produced {n} times, expected 2 (every admissible value equally often)");
        }
    }
    c.nontrivial(rejected > 0);
    Ok(())
}

// ------------------------------------------------------------------------------------------------
// chi-square

/// Upper bound of the (1 - 1e-12) quantile of chi-square with `df` degrees of freedom
/// (Laurent-Massart: P(X - k >= 2 sqrt(k x) + 2 x) <= exp(-x)).
fn chi2_limit(df: f64) -> f64 {
    let x = (1e12f64).ln();
    df + 2.0 * (df * x).sqrt() + 2.0 * x
}

fn chi2(counts: &[u64], probs: &[f64], n: u64) -> f64 {
    counts
        .iter()
        .zip(probs.iter())
        .map(|(&o, &p)| {
            let e = p * n as f64;
            (o as f64 - e) * (o as f64 - e) / e
        })
        .sum()
}

#[derive(Clone, Copy, Debug)]
enum Kind {
    Limb,
    U1,
    U2,
    U4,
    Boxed,
    Bits,
}

const DRAWS_SMALL: u64 = 1 << 20;
const DRAWS_BINNED: u64 = 1 << 18;

fn low_of(name: &str, v: &[u64]) -> Result<u64, Fail> {
    vensure!(v[1..].iter().all(|&w| w == 0), "{name}: returned {} for a single-limb modulus", hex(v));
    Ok(v[0])
}

/// 2^20 ChaCha draws for one small modulus; Pearson chi-square over the m cells.
fn chi2_small(kind: Kind) -> impl Fn(&mut Tape, &mut Case) -> CaseResult {
    move |t, c| {
        let seed = t.u64();
        let mut rng = CountRng::new(seed);
        let cells: usize;
        let min_bytes: u64;
        let mut counts: Vec<u64>;
        let what: String;
        match kind {
            Kind::Bits => {
                let blen = t.u32_in(1, 10);
                let boxed_form = t.bool();
                c.num("bit_length", blen as u64);
                c.num("boxed", boxed_form as u64);
                c.num("chacha_seed", seed);
                cells = 1 << blen;
                counts = vec![0; cells];
                min_bytes = 4;
                what = format!("random_bits({blen})");
                for _ in 0..DRAWS_SMALL {
                    let v = if boxed_form {
                        low_of("BoxedUint::random_bits", &bl(&BoxedUint::random_bits_with_precision(&mut rng, blen, 128)))?
                    } else {
                        low_of("Uint::random_bits", &ul(&Uint::<2>::random_bits(&mut rng, blen)))?
                    };
                    vensure!(v < cells as u64, "random_bits({blen}) returned {v}");
                    counts[v as usize] += 1;
                }
                c.nontrivial(true); // bit length 1..=10 is never a multiple of 32
            }
            _ => {
                let m = small_modulus(t).max(2);
                c.num("modulus", m);
                c.num("chacha_seed", seed);
                cells = m as usize;
                counts = vec![0; cells];
                what = format!("{kind:?} random_mod(m={m})");
                macro_rules! fixed {
                    ($n:literal) => {{
                        let mut ml = [0u64; $n];
                        ml[0] = m;
                        let nz = NonZero::new(Uint::<$n>::from_words(ml)).unwrap();
                        for _ in 0..DRAWS_SMALL {
                            let v = low_of("Uint::random_mod", Uint::<$n>::random_mod(&mut rng, &nz).as_words())?;
                            vensure!(v < m, "Uint::random_mod(m={m}) returned {v}");
                            counts[v as usize] += 1;
                        }
                        8
                    }};
                }
                min_bytes = match kind {
                    Kind::Limb => {
                        let nz = NonZero::new(Limb(m)).unwrap();
                        for _ in 0..DRAWS_SMALL {
                            let v = Limb::random_mod(&mut rng, &nz).0;
                            vensure!(v < m, "Limb::random_mod(m={m}) returned {v}");
                            counts[v as usize] += 1;
                        }
                        (64 - m.leading_zeros() as u64).div_ceil(8)
                    }
                    Kind::U1 => fixed!(1),
                    Kind::U2 => fixed!(2),
                    Kind::U4 => fixed!(4),
                    _ => {
                        let n = t.usize_in(1, 4);
                        c.num("boxed_limbs", n as u64);
                        let mut ml = vec![0u64; n];
                        ml[0] = m;
                        let nz = NonZero::new(boxed(&ml)).unwrap();
                        for _ in 0..DRAWS_SMALL {
                            let v = low_of("BoxedUint::random_mod", BoxedUint::random_mod(&mut rng, &nz).as_words())?;
                            vensure!(v < m, "BoxedUint::random_mod(m={m}) returned {v}");
                            counts[v as usize] += 1;
                        }
                        8
                    }
                };
                c.nontrivial(rng.bytes > DRAWS_SMALL * min_bytes);
            }
        }
        let _ = min_bytes;
        c.label("chi-square: 2^20 ChaCha draws, one cell per value");
        for (v, &n) in counts.iter().enumerate() {
            vensure!(n > 0, "{what}: value {v} never occurs in {DRAWS_SMALL} draws (expected about {})", DRAWS_SMALL / cells as u64);
        }
        if cells >= 2 {
            let probs = vec![1.0 / cells as f64; cells];
            let stat = chi2(&counts, &probs, DRAWS_SMALL);
            let lim = chi2_limit((cells - 1) as f64);
            c.note("chi2", || format!("{stat:.1} (limit {lim:.1}, df {})", cells - 1));
            vensure!(stat <= lim, "{what}: chi-square {stat:.1} over {cells} cells exceeds {lim:.1} (1e-12 bound): not uniform; counts[..8] = {:?}", &counts[..cells.min(8)]);
        }
        Ok(())
    }
}

/// 2^18 ChaCha draws for a large (possibly multi-limb) modulus; chi-square over 64 equal-width bins.
fn chi2_binned<const N: usize>(t: &mut Tape, c: &mut Case) -> CaseResult {
    const K: usize = 64;
    // modulus: top limb biased to small values, so that "top limb equal" is a sizeable class
    let k = if N == 1 { 1 } else { t.usize_in(2, N) };
    let mut m = vec![0u64; N];
    m[k - 1] = match t.weighted(&[3, 2, 2]) {
        0 => t.pick(&[1u64, 2, 3, 4, 5, 7, 8, 9]),
        1 => crate::modsample::gen_top_limb(t, c),
        _ => t.u64().max(1),
    };
    if k == 1 {
        m[0] = m[0].max(1 << 12);
    }
    if k > 1 {
        let low = match t.weighted(&[2, 1, 2]) {
            0 => vec![u64::MAX; k - 1],
            1 => vec![0; k - 1],
            _ => t.expand(k - 1),
        };
        m[..k - 1].copy_from_slice(&low);
        // avoid a negligible top-equal class only partly: keep whatever came out
    }
    let seed = t.u64();
    let use_boxed = t.bool();
    c.limbs("modulus", &m);
    c.num("chacha_seed", seed);
    c.num("boxed", use_boxed as u64);
    c.label("chi-square: 2^18 ChaCha draws, 64 bins");
    c.label(if k > 1 { "binned: multi-limb modulus" } else { "binned: single-limb modulus" });
    let mb = big(&m);
    let bounds: Vec<Limbs> = (0..=K).map(|i| limbs_of(&((&mb * BigUint::from(i) + BigUint::from(K - 1)) / BigUint::from(K)), N)).collect();
    let mf = mb.to_f64().unwrap();
    let probs: Vec<f64> = (0..K).map(|i| (big(&bounds[i + 1]) - big(&bounds[i])).to_f64().unwrap() / mf).collect();
    let bin_of = |v: &[u64]| -> usize {
        // largest i with bounds[i] <= v
        let (mut lo, mut hi) = (0usize, K);
        while hi - lo > 1 {
            let mid = (lo + hi) / 2;
            if cmp_limbs(&bounds[mid], v) != Ordering::Greater {
                lo = mid;
            } else {
                hi = mid;
            }
        }
        lo
    };
    let mut rng = CountRng::new(seed);
    let mut counts = vec![0u64; K];
    if use_boxed {
        let nz = NonZero::new(boxed(&m)).unwrap();
        for _ in 0..DRAWS_BINNED {
            let v = BoxedUint::random_mod(&mut rng, &nz);
            let w = v.as_words();
            vensure!(cmp_limbs(w, &m) == Ordering::Less, "BoxedUint::random_mod returned {} which is not below {}", hex(w), hex(&m));
            counts[bin_of(w)] += 1;
        }
    } else if N == 1 && t.bool() {
        let nz = NonZero::new(Limb(m[0])).unwrap();
        for _ in 0..DRAWS_BINNED {
            let v = Limb::random_mod(&mut rng, &nz).0;
            vensure!(v < m[0], "Limb::random_mod returned {v} which is not below {}", m[0]);
            counts[bin_of(&[v])] += 1;
        }
    } else {
        let nz = NonZero::new(uint::<N>(&m)).unwrap();
        for _ in 0..DRAWS_BINNED {
            let v = Uint::<N>::random_mod(&mut rng, &nz);
            let w = v.as_words();
            vensure!(cmp_limbs(w, &m) == Ordering::Less, "Uint::random_mod returned {} which is not below {}", hex(w), hex(&m));
            counts[bin_of(w)] += 1;
        }
    }
    c.nontrivial(rng.calls > DRAWS_BINNED * k as u64);
    let stat = chi2(&counts, &probs, DRAWS_BINNED);
    let lim = chi2_limit((K - 1) as f64);
    c.note("chi2", || format!("{stat:.1} (limit {lim:.1}, df {})", K - 1));
    vensure!(stat <= lim, "random_mod({}): chi-square {stat:.1} over {K} equal-width bins exceeds {lim:.1} (1e-12 bound): not uniform; counts = {:?}", hex(&m), counts);
    Ok(())
}

// ------------------------------------------------------------------------------------------------

pub(crate) fn register(v: &mut Vec<SubCheck>, _ctx: &Ctx) {
    for (name, kind) in [("limb", Kind::Limb), ("U64", Kind::U1), ("U128", Kind::U2), ("U256", Kind::U4), ("boxed", Kind::Boxed), ("random_bits", Kind::Bits)] {
        v.push(SubCheck::new(format!("uniform/chi2-small/{name}"), 16, chi2_small(kind)).tape(8).thorough(7).timeout(300));
    }
    v.push(SubCheck::new("uniform/chi2-binned/U64+limb", 32, chi2_binned::<1>).tape(16).thorough(7).timeout(300));
    v.push(SubCheck::new("uniform/chi2-binned/U128", 32, chi2_binned::<2>).tape(16).thorough(7).timeout(300));
    v.push(SubCheck::new("uniform/chi2-binned/U192", 32, chi2_binned::<3>).tape(16).thorough(7).timeout(300));
    v.push(SubCheck::new("uniform/chi2-binned/U256", 32, chi2_binned::<4>).tape(16).thorough(7).timeout(300));
    v.push(SubCheck::new("uniform/limb/exhaustive-1-byte", 4000, limb_1byte_case).tape(4).thorough(3));
    v.push(SubCheck::new("uniform/limb/exhaustive-2-byte", 400, limb_2byte_case).tape(4).thorough(10));
    v.push(SubCheck::new("uniform/uint+boxed/exhaustive-first-word/U64", 1200, word_exhaustive::<1>).tape(8).thorough(10));
    v.push(SubCheck::new("uniform/uint+boxed/exhaustive-first-word/U128", 1200, word_exhaustive::<2>).tape(8).thorough(10));
    v.push(SubCheck::new("uniform/uint+boxed/exhaustive-first-word/U256", 1200, word_exhaustive::<4>).tape(8).thorough(10));
}
