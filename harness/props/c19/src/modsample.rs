//! RandomMod (Limb, Uint, BoxedUint) and ConstMontyForm::random on scripted streams.

use crate::model::{self, cmp_limbs, ModStats};
use crate::rng::Stream;
use crate::*;
use crypto_bigint::modular::{ConstMontyForm, ConstMontyParams};
use crypto_bigint::rand_core::RngCore;
use crypto_bigint::{impl_modulus, BoxedUint, Limb, NonZero, Random, RandomMod, Uint, U128, U192, U256, U64};
use std::cmp::Ordering;

const M: u64 = u64::MAX;

// ------------------------------------------------------------------------------------------------
// generators

pub(crate) fn gen_top_limb(t: &mut Tape, c: &mut Case) -> u64 {
    let (w, lab) = match t.weighted(&[2, 3, 3, 3, 2, 1, 3]) {
        0 => (1, "modulus top limb: 1"),
        1 => (1u64 << t.below(64), "modulus top limb: 2^j"),
        2 => {
            let j = 1 + t.below(64);
            (if j == 64 { M } else { (1u64 << j) - 1 }, "modulus top limb: 2^j-1")
        }
        3 => ((1u64 << (1 + t.below(63))) + 1, "modulus top limb: 2^j+1"),
        4 => (M, "modulus top limb: MAX"),
        5 => (M - 1, "modulus top limb: MAX-1"),
        _ => (t.u64(), "modulus top limb: random"),
    };
    c.label(lab);
    w.max(1)
}

/// A non-zero modulus in `n` limbs with `k` significant limbs (returned).
pub(crate) fn gen_modulus(t: &mut Tape, n: usize, c: &mut Case) -> (Limbs, usize) {
    let k = if n == 1 {
        1
    } else {
        match t.weighted(&[3, 1, 2]) {
            0 => n,
            1 => 1,
            _ => t.usize_in(1, n),
        }
    };
    let mut m = vec![0u64; n];
    m[k - 1] = gen_top_limb(t, c);
    if k > 1 {
        let (lab, low): (&str, Limbs) = match t.weighted(&[2, 2, 2, 2, 1]) {
            0 => ("modulus low limbs: all 0", vec![0; k - 1]),
            1 => ("modulus low limbs: all MAX", vec![M; k - 1]),
            2 => {
                let bits = t.u64();
                ("modulus low limbs: 0/MAX mix", (0..k - 1).map(|i| if bits >> (i % 64) & 1 == 1 { M } else { 0 }).collect())
            }
            3 => ("modulus low limbs: random", t.expand(k - 1)),
            _ => {
                let mut v = vec![0; k - 1];
                v[0] = t.pick(&[1u64, M - 1, 1 << 63]);
                ("modulus low limbs: single edge limb", v)
            }
        };
        c.label(lab);
        m[..k - 1].copy_from_slice(&low);
        c.label(if k == n { "modulus: multi-limb, full width" } else { "modulus: multi-limb, zero high limbs" });
    } else {
        c.label(if n == 1 { "modulus: single limb" } else { "modulus: single limb in a multi-limb type" });
    }
    (m, k)
}

fn junk(t: &mut Tape, mask: u64) -> u64 {
    match t.weighted(&[2, 2, 1]) {
        0 => 0,
        1 => !mask,
        _ => t.u64() & !mask,
    }
}

/// One candidate built relative to the modulus, as stream words (high word first).
fn attempt(t: &mut Tape, m: &[u64], k: usize, accept: Option<bool>, out: &mut Vec<u64>) {
    let hi_mod = m[k - 1];
    let mask = M >> hi_mod.leading_zeros();
    let ms = &m[..k];
    let mut cand: Limbs = ms.to_vec();
    let acc_kinds = 5;
    let rej_kinds = 5;
    // two more kinds (ids 10, 11): the comparison with the modulus is decided at a chosen limb, with
    // every limb above it equal to the modulus' and the limbs below it free — the partition of a
    // lexicographic comparison by its deciding position
    let kind = match accept {
        Some(true) => {
            if t.chance(1, 3) {
                10
            } else {
                t.below(acc_kinds)
            }
        }
        Some(false) => {
            if t.chance(1, 3) {
                11
            } else {
                acc_kinds + t.below(rej_kinds)
            }
        }
        None => {
            if t.chance(1, 3) {
                10 + t.below(2)
            } else {
                t.below(acc_kinds + rej_kinds)
            }
        }
    };
    if kind >= 10 {
        let less = kind == 10;
        // deciding limbs that can move in the wanted direction
        let ok: Vec<usize> = (0..k).filter(|&i| if less { ms[i] > 0 } else { ms[i] < if i == k - 1 { mask } else { M } }).collect();
        if ok.is_empty() {
            // nothing smaller (m = 0 cannot happen) / nothing greater under the mask: fall back
            if less {
                cand.iter_mut().for_each(|w| *w = 0);
            }
        } else {
            let i = ok[t.index(ok.len())];
            cand[i] = match (less, t.below(3)) {
                (true, 0) => ms[i] - 1,
                (true, 1) => 0,
                (true, _) => t.range(0, ms[i] - 1),
                (false, 0) => ms[i] + 1,
                (false, 1) => {
                    if i == k - 1 {
                        mask
                    } else {
                        M
                    }
                }
                (false, _) => t.range(ms[i] + 1, if i == k - 1 { mask } else { M }),
            };
            let below = t.below(5);
            for j in 0..i {
                cand[j] = match below {
                    0 => 0,
                    1 => M,
                    2 => ms[j],
                    3 => t.pick(&[0u64, M, 1, ms[j], ms[j].wrapping_add(1), ms[j].wrapping_sub(1)]),
                    _ => t.u64(),
                };
            }
        }
    }
    match kind {
        10 | 11 => {}
        0 => gen::dec(&mut cand), // m-1
        1 => cand.iter_mut().for_each(|w| *w = 0),
        2 => {
            // top limb equal, low limbs zero (accepted unless the modulus' low limbs are zero)
            cand.iter_mut().take(k - 1).for_each(|w| *w = 0);
        }
        3 => {
            cand = t.expand(k);
            cand[k - 1] = t.range(0, hi_mod);
        }
        4 => {
            // top limb one below, low limbs MAX
            cand.iter_mut().take(k - 1).for_each(|w| *w = M);
            cand[k - 1] = hi_mod.saturating_sub(1);
        }
        5 => {} // == m
        6 => gen::inc(&mut cand),
        7 => cand.iter_mut().take(k - 1).for_each(|w| *w = M), // top equal, lows MAX
        8 => cand[k - 1] = hi_mod.wrapping_add(1),             // one above the top limb
        _ => cand.iter_mut().for_each(|w| *w = M),            // all ones
    }
    let hi = cand[k - 1];
    out.push((hi & mask) | junk(t, mask));
    if hi & mask <= hi_mod {
        out.extend_from_slice(&cand[..k - 1]);
    }
}

/// Script (as words) for word-oriented modular sampling.
pub(crate) fn mod_script(t: &mut Tape, m: &[u64], k: usize, c: &mut Case) -> Vec<u64> {
    let mut out = vec![];
    match t.weighted(&[1, 1, 1, 5, 3]) {
        0 => c.label("stream: ChaCha only"),
        1 => {
            c.label("stream: all-zero words");
            out.resize(t.usize_in(1, 2 * k + 2), 0);
        }
        2 => {
            c.label("stream: all-ones words");
            out.resize(t.usize_in(1, 2 * k + 2), M);
        }
        3 => {
            c.label("stream: candidates built around the modulus");
            for _ in 0..t.usize_in(1, 5) {
                attempt(t, m, k, None, &mut out);
            }
        }
        _ => {
            c.label("stream: alternating reject/accept");
            for i in 0..t.usize_in(2, 6) {
                attempt(t, m, k, Some(i % 2 == 1), &mut out);
            }
        }
    }
    out
}

pub(crate) fn label_stats(c: &mut Case, st: &ModStats) {
    if st.early_rejects > 0 {
        c.label("model: >=1 high word rejected early");
    }
    if st.full_rejects > 0 {
        c.label("model: >=1 full candidate rejected");
    }
    if st.rejected_equal > 0 {
        c.label("model: candidate == modulus rejected");
    }
    if st.accepted_top_equal > 0 {
        c.label("model: accepted with top limb equal to the modulus' top limb");
    }
    if st.junk_masked > 0 {
        c.label("model: bits above the mask were set in a high word");
    }
    if st.accepted_zero > 0 {
        c.label("model: accepted 0");
    }
    if st.accepted_m_minus_1 > 0 {
        c.label("model: accepted m-1");
    }
    c.nontrivial(st.rejected() > 0);
}

fn in_range(name: &str, vals: &[Limbs], m: &[u64]) -> CaseResult {
    for v in vals {
        vensure!(cmp_limbs(v, m) == Ordering::Less, "{name}: returned {} which is not below the modulus {}", hex(v), hex(m));
    }
    Ok(())
}

fn in_range_res(name: &str, vals: &[Result<Limbs, String>], m: &[u64]) -> CaseResult {
    for v in vals.iter().flatten() {
        vensure!(cmp_limbs(v, m) == Ordering::Less, "{name}: returned {} which is not below the modulus {}", hex(v), hex(m));
    }
    Ok(())
}

struct ModCase {
    m: Limbs,
    d: usize,
    inf: Stream,
    fal: Stream,
    want: Vec<Option<Limbs>>,
    want_pos: usize,
    wantf: Vec<Option<Limbs>>,
    wantf_pos: usize,
}

/// Common front half: generate modulus / script / draws, record, run the model.
fn mod_setup(t: &mut Tape, c: &mut Case, n: usize) -> Option<ModCase> {
    let (m, k) = gen_modulus(t, n, c);
    let d = 1 + t.weighted(&[3, 2, 1]);
    let script = words_to_bytes(&mod_script(t, &m, k, c));
    let seed = t.u64();
    let cut = gen_cut(t, script.len());
    c.limbs("modulus", &m);
    c.bytes("script", &script);
    c.num("draws", d as u64);
    c.num("tail_seed", seed);
    c.num("cut", cut as u64);
    let inf = Stream::new(script.clone(), Some(seed));
    let fal = Stream::new(script[..script.len() - cut].to_vec(), None);
    let mut st = ModStats::default();
    let (want, want_pos) = model_seq(&inf, d, |s| model::random_mod(s, &m, &mut st));
    if want.iter().any(|w| w.is_none()) {
        // the ChaCha tail did not produce an acceptable candidate within 64 KiB: cannot happen in practice
        c.skip();
        return None;
    }
    label_stats(c, &st);
    let mut stf = ModStats::default();
    let (wantf, wantf_pos) = model_seq(&fal, d, |s| model::random_mod(s, &m, &mut stf));
    if wantf.iter().any(|w| w.is_none()) {
        c.label("fallible run: RNG error before acceptance");
    }
    Some(ModCase { m, d, inf, fal, want, want_pos, wantf, wantf_pos })
}

fn pad(v: &[Option<Limbs>], n: usize) -> Vec<Option<Limbs>> {
    v.iter()
        .map(|o| {
            o.as_ref().map(|l| {
                let mut l = l.clone();
                assert!(l[n.min(l.len())..].iter().all(|&w| w == 0));
                l.resize(n, 0);
                l
            })
        })
        .collect()
}

/// BoxedUint forms for a modulus given in `m.len()` limbs; returns the infallible observation.
fn boxed_forms(tag: &str, m: &[u64], mc: &ModCase) -> Result<Obs, Fail> {
    let n = m.len();
    let nz = NonZero::new(boxed(m)).unwrap();
    let want = pad(&mc.want, n);
    let wantf = pad(&mc.wantf, n);
    let prec = |name: &str, v: &BoxedUint| -> Result<Limbs, Fail> {
        veq!(v.nlimbs(), n, "{name}: result precision (limbs) must equal the modulus precision");
        Ok(bl(v))
    };
    let name = format!("BoxedUint::random_mod [{tag}]");
    let o1 = run_inf(&name, &mc.inf, mc.d, |r| bl(&BoxedUint::random_mod(r, &nz)))?;
    in_range(&name, &o1.vals, m)?;
    check_inf(&name, &o1, &want, mc.want_pos)?;
    // precision of the result
    {
        let mut r = ScriptRng::new(&mc.inf);
        let v = total(&name, || BoxedUint::random_mod(&mut r, &nz))?;
        prec(&name, &v)?;
    }
    let name = format!("BoxedUint::try_random_mod (infallible rng) [{tag}]");
    let o2 = run_inf(&name, &mc.inf, mc.d, |r| {
        let Ok(v) = BoxedUint::try_random_mod(r, &nz);
        bl(&v)
    })?;
    in_range(&name, &o2.vals, m)?;
    check_inf(&name, &o2, &want, mc.want_pos)?;
    check_twin(&name, &o1, &o2)?;
    let name = format!("BoxedUint::random_mod (&mut dyn RngCore) [{tag}]");
    let o3 = run_inf(&name, &mc.inf, mc.d, |r| {
        let r: &mut dyn RngCore = r;
        bl(&BoxedUint::random_mod(r, &nz))
    })?;
    check_inf(&name, &o3, &want, mc.want_pos)?;
    let name = format!("BoxedUint::try_random_mod (failing rng) [{tag}]");
    let f = run_fail(&name, &mc.fal, mc.d, |r| BoxedUint::try_random_mod(r, &nz).map(|v| bl(&v)).map_err(|e| e.to_string()))?;
    in_range_res(&name, &f.0, m)?;
    check_fail(&name, &f, &wantf, mc.wantf_pos)?;
    Ok(o1)
}

// ------------------------------------------------------------------------------------------------
// Uint<N> + BoxedUint twin

pub(crate) fn mod_case<const N: usize>(t: &mut Tape, c: &mut Case) -> CaseResult {
    let Some(mc) = mod_setup(t, c, N) else { return Ok(()) };
    let extra = t.usize_in(1, 2);
    let m = &mc.m;
    let nz = NonZero::new(uint::<N>(m)).unwrap();

    let name = format!("Uint::<{N}>::random_mod");
    let o1 = run_inf(&name, &mc.inf, mc.d, |r| ul(&Uint::<N>::random_mod(r, &nz)))?;
    in_range(&name, &o1.vals, m)?;
    check_inf(&name, &o1, &mc.want, mc.want_pos)?;

    let name = format!("Uint::<{N}>::try_random_mod (infallible rng)");
    let o2 = run_inf(&name, &mc.inf, mc.d, |r| {
        let Ok(v) = Uint::<N>::try_random_mod(r, &nz);
        ul(&v)
    })?;
    in_range(&name, &o2.vals, m)?;
    check_inf(&name, &o2, &mc.want, mc.want_pos)?;
    check_twin(&name, &o1, &o2)?;

    let name = format!("<Uint<{N}> as RandomMod>::random_mod (&mut dyn RngCore)");
    let o3 = run_inf(&name, &mc.inf, mc.d, |r| {
        let r: &mut dyn RngCore = r;
        ul(&<Uint<N> as RandomMod>::random_mod(r, &nz))
    })?;
    check_inf(&name, &o3, &mc.want, mc.want_pos)?;

    let name = format!("Uint::<{N}>::try_random_mod (failing rng)");
    let f = run_fail(&name, &mc.fal, mc.d, |r| Uint::<N>::try_random_mod(r, &nz).map(|v| ul(&v)).map_err(|e| e.to_string()))?;
    in_range_res(&name, &f.0, m)?;
    check_fail(&name, &f, &mc.wantf, mc.wantf_pos)?;

    // boxed twin of the same width: same values, same consumption, same call sequence
    let b = boxed_forms("same width", m, &mc)?;
    check_twin(&format!("Uint<{N}> vs BoxedUint ({N} limbs) random_mod"), &o1, &b)?;
    // boxed with a wider precision (zero high limbs)
    let mut wide = m.clone();
    wide.resize(N + extra, 0);
    let bw = boxed_forms("wider precision", &wide, &mc)?;
    check_twin(&format!("Uint<{N}> vs BoxedUint ({} limbs) random_mod", N + extra), &o1, &bw)?;
    // boxed with the narrowest precision that holds the modulus
    let k = (bit_len(m) as usize).div_ceil(64);
    if k < N {
        let bn = boxed_forms("narrowest precision", &m[..k], &mc)?;
        check_twin(&format!("Uint<{N}> vs BoxedUint ({k} limbs) random_mod"), &o1, &bn)?;
    }
    Ok(())
}

/// BoxedUint with runtime limb counts that have no fixed twin instantiated.
fn boxed_mod_case(max: usize) -> impl Fn(&mut Tape, &mut Case) -> CaseResult {
    move |t, c| {
        let n = match t.weighted(&[2, 1]) {
            0 => t.pick(&[5usize, 6, 7, 9, 10, 12, 15, 16, 17, 24, 31, 32, 33]).min(max),
            _ => t.usize_in(1, max),
        };
        c.num("limbs", n as u64);
        let Some(mc) = mod_setup(t, c, n) else { return Ok(()) };
        boxed_forms("runtime width", &mc.m, &mc)?;
        Ok(())
    }
}

// ------------------------------------------------------------------------------------------------
// Limb (byte-oriented sampler)

fn limb_attempt(t: &mut Tape, m: u64, accept: Option<bool>, out: &mut Vec<u8>) {
    let bits = 64 - m.leading_zeros() as usize;
    let nb = bits.div_ceil(8);
    let mask = if bits == 64 { M } else { (1u64 << bits) - 1 };
    let kind = match accept {
        Some(true) => t.below(3),
        Some(false) => 3 + t.below(4),
        None => t.below(7),
    };
    let v = match kind {
        0 => m - 1,
        1 => 0,
        2 => t.range(0, m - 1),
        3 => m,
        4 => m.wrapping_add(1) & mask,
        5 => mask,
        _ => t.range(m, mask),
    };
    let w = (v & mask) | junk(t, mask);
    out.extend_from_slice(&w.to_le_bytes()[..nb]);
}

fn limb_mod_case(t: &mut Tape, c: &mut Case) -> CaseResult {
    let m = gen_top_limb(t, c);
    let d = 1 + t.weighted(&[3, 2, 1]);
    let mut script = vec![];
    match t.weighted(&[1, 1, 1, 5, 3]) {
        0 => c.label("stream: ChaCha only"),
        1 => {
            c.label("stream: all-zero bytes");
            script.resize(t.usize_in(1, 20), 0);
        }
        2 => {
            c.label("stream: all-ones bytes");
            script.resize(t.usize_in(1, 20), 0xff);
        }
        3 => {
            c.label("stream: candidates built around the modulus");
            for _ in 0..t.usize_in(1, 5) {
                limb_attempt(t, m, None, &mut script);
            }
        }
        _ => {
            c.label("stream: alternating reject/accept");
            for i in 0..t.usize_in(2, 6) {
                limb_attempt(t, m, Some(i % 2 == 1), &mut script);
            }
        }
    }
    let seed = t.u64();
    let cut = gen_cut(t, script.len());
    c.num("modulus", m);
    c.bytes("script", &script);
    c.num("draws", d as u64);
    c.num("tail_seed", seed);
    c.num("cut", cut as u64);
    let inf = Stream::new(script.clone(), Some(seed));
    let fal = Stream::new(script[..script.len() - cut].to_vec(), None);
    let mut st = ModStats::default();
    let (want, want_pos) = model_seq(&inf, d, |s| model::limb_random_mod(s, m, &mut st).map(|v| vec![v]));
    if want.iter().any(|w| w.is_none()) {
        c.skip();
        return Ok(());
    }
    label_stats(c, &st);
    let mut stf = ModStats::default();
    let (wantf, wantf_pos) = model_seq(&fal, d, |s| model::limb_random_mod(s, m, &mut stf).map(|v| vec![v]));
    if wantf.iter().any(|w| w.is_none()) {
        c.label("fallible run: RNG error before acceptance");
    }
    let ml = [m];
    let nz = NonZero::new(Limb(m)).unwrap();

    let o1 = run_inf("Limb::random_mod", &inf, d, |r| vec![Limb::random_mod(r, &nz).0])?;
    in_range("Limb::random_mod", &o1.vals, &ml)?;
    check_inf("Limb::random_mod", &o1, &want, want_pos)?;
    let o2 = run_inf("Limb::try_random_mod (infallible rng)", &inf, d, |r| {
        let Ok(v) = Limb::try_random_mod(r, &nz);
        vec![v.0]
    })?;
    in_range("Limb::try_random_mod", &o2.vals, &ml)?;
    check_inf("Limb::try_random_mod (infallible rng)", &o2, &want, want_pos)?;
    check_twin("Limb::random_mod vs try_random_mod", &o1, &o2)?;
    let o3 = run_inf("Limb::random_mod (&mut dyn RngCore)", &inf, d, |r| {
        let r: &mut dyn RngCore = r;
        vec![Limb::random_mod(r, &nz).0]
    })?;
    check_inf("Limb::random_mod (&mut dyn RngCore)", &o3, &want, want_pos)?;
    let f = run_fail("Limb::try_random_mod (failing rng)", &fal, d, |r| Limb::try_random_mod(r, &nz).map(|v| vec![v.0]).map_err(|e| e.to_string()))?;
    in_range_res("Limb::try_random_mod (failing rng)", &f.0, &ml)?;
    check_fail("Limb::try_random_mod (failing rng)", &f, &wantf, wantf_pos)?;
    Ok(())
}

// ------------------------------------------------------------------------------------------------
// ConstMontyForm::random = new(random_mod(MODULUS))

impl_modulus!(Q64Small, U64, "000000000000fff1");
impl_modulus!(Q64Top, U64, "ffffffffffffffc5");
impl_modulus!(Q128TopOne, U128, "0000000000000001ffffffffffffffff");
impl_modulus!(Q128Pow, U128, "80000000000000000000000000000001");
impl_modulus!(Q192Narrow, U192, "000000000000000000000000000000030000000000000001");
impl_modulus!(Q256P, U256, "ffffffff00000001000000000000000000000000ffffffffffffffffffffffff");
impl_modulus!(Q256Low, U256, "0000000000000001000000000000000000000000000000000000000000000001");
impl_modulus!(Q256Max, U256, "ffffffffffffffffffffffffffffffffffffffffffffffffffffffffffffffff");

pub(crate) fn cmf_case<MOD: ConstMontyParams<N>, const N: usize>(t: &mut Tape, c: &mut Case) -> CaseResult {
    let m: Limbs = MOD::MODULUS.as_ref().as_words().to_vec();
    let k = (bit_len(&m) as usize).div_ceil(64);
    let d = 1 + t.weighted(&[3, 2, 1]);
    let script = words_to_bytes(&mod_script(t, &m, k, c));
    let seed = t.u64();
    let cut = gen_cut(t, script.len());
    c.limbs("modulus", &m);
    c.bytes("script", &script);
    c.num("draws", d as u64);
    c.num("tail_seed", seed);
    c.num("cut", cut as u64);
    let inf = Stream::new(script.clone(), Some(seed));
    let fal = Stream::new(script[..script.len() - cut].to_vec(), None);
    let mut st = ModStats::default();
    let (want, want_pos) = model_seq(&inf, d, |s| model::random_mod(s, &m, &mut st));
    if want.iter().any(|w| w.is_none()) {
        c.skip();
        return Ok(());
    }
    label_stats(c, &st);
    let mut stf = ModStats::default();
    let (wantf, wantf_pos) = model_seq(&fal, d, |s| model::random_mod(s, &m, &mut stf));

    let name = "ConstMontyForm::random (retrieve)";
    let o1 = run_inf(name, &inf, d, |r| ul(&ConstMontyForm::<MOD, N>::random(r).retrieve()))?;
    in_range(name, &o1.vals, &m)?;
    check_inf(name, &o1, &want, want_pos)?;
    let name = "ConstMontyForm::try_random (infallible rng)";
    let o2 = run_inf(name, &inf, d, |r| {
        let Ok(v) = ConstMontyForm::<MOD, N>::try_random(r);
        ul(&v.retrieve())
    })?;
    check_inf(name, &o2, &want, want_pos)?;
    check_twin(name, &o1, &o2)?;
    let name = "ConstMontyForm::try_random (failing rng)";
    let f = run_fail(name, &fal, d, |r| ConstMontyForm::<MOD, N>::try_random(r).map(|v| ul(&v.retrieve())).map_err(|e| e.to_string()))?;
    in_range_res(name, &f.0, &m)?;
    check_fail(name, &f, &wantf, wantf_pos)?;
    // same stream through Uint::random_mod: same consumption
    let nz = NonZero::new(uint::<N>(&m)).unwrap();
    let o3 = run_inf("Uint::random_mod (twin of ConstMontyForm::random)", &inf, d, |r| ul(&Uint::<N>::random_mod(r, &nz)))?;
    check_twin("ConstMontyForm::random vs Uint::random_mod", &o1, &o3)?;
    Ok(())
}

// ------------------------------------------------------------------------------------------------

macro_rules! fixed {
    ($v:ident, $q:expr; $($n:literal),*) => { $(
        $v.push(SubCheck::new(format!("mod/uint+boxed/U{}", 64*$n), $q, mod_case::<$n>).tape(64 + 8 * $n));
    )* };
}
macro_rules! cmf {
    ($v:ident, $q:expr; $(($m:ident, $n:literal)),*) => { $(
        $v.push(SubCheck::new(format!("mod/const-monty/{}", stringify!($m)), $q, cmf_case::<$m, $n>).tape(64 + 8 * $n));
    )* };
}

pub(crate) fn register(v: &mut Vec<SubCheck>, ctx: &Ctx) {
    v.push(SubCheck::new("mod/limb", 60000, limb_mod_case).tape(48));
    fixed!(v, 30000; 1, 2);
    fixed!(v, 20000; 3, 4);
    fixed!(v, 10000; 8);
    if ctx.thorough() {
        fixed!(v, 2000; 6, 16, 32);
    }
    v.push(SubCheck::new("mod/boxed/1..=33", 20000, boxed_mod_case(33)).tape(400));
    cmf!(v, 4000; (Q64Small, 1), (Q64Top, 1), (Q128TopOne, 2), (Q128Pow, 2), (Q192Narrow, 3), (Q256P, 4), (Q256Low, 4), (Q256Max, 4));
}
