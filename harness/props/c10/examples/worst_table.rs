//! prints the steps-per-bit ratio reached by the beam search (diagnostic, not a check)
use vmodel::Tape;
fn main() {
    let t0 = std::time::Instant::now();
    for n in [1usize, 2, 3, 4, 8, 16, 17, 33] {
        let mut tape = Tape::new(vec![0; 8]);
        match c10::worst::pair(&mut tape, n, false) {
            Some(w) => println!("limbs {n}: bits {} steps {} ratio {:.3} g<f {} t={:?}", w.bits, w.steps, w.steps as f64 / w.bits as f64, w.g < w.f, t0.elapsed()),
            None => println!("limbs {n}: none"),
        }
    }
}
