fn main() {
    let l = vmodel::gen::source_literals();
    println!("{} literals", l.len());
    for v in l.iter().take(60) { print!("{v:#x} "); }
    println!();
}
