//! C10 API-surface audit (see /verif/audit/E.md): instantiation families of the inversion / gcd
//! APIs that no other sub-check of this crate calls.
//!
//!  * limb counts outside the property's list (5, 7 and 12 limbs) for every fixed-width form
//!    (`surface/fixed/{inv,mod2k,gcd,monty}/U…`, incl. the `Int` forms, `SafeGcdInverter<L, U>` at
//!    its (5,7), (7,9), (12,14) limb pairs and `MontyParams::precompute_inverter`) and compile-time
//!    moduli at 5 and 7 limbs (`surface/const_monty/…`);
//!  * Montgomery-form inversion with a parameter set / a value that went through constant-time
//!    selection (`MontyParams::conditional_select`, `ConstantTimeSelect::ct_select`,
//!    `conditional_assign`, `MontyForm::conditional_select`) against those of a decoy modulus
//!    (`surface/fixed/monty-inv-through-selection/…`): `inv` builds its inverter from the selected
//!    set's modulus and R^2;
//!  * the generic-function routes `fn f<T: InvMod<R>>`, `fn f<T: Gcd<R>>`, `fn f<T: Invert>`,
//!    `fn f<P: PrecomputeInverter>` (+ `Inverter`) for `Uint`, `Int`, `Odd<Uint>`, `MontyForm`,
//!    `MontyParams`, `BoxedUint`, `Odd<BoxedUint>`, `BoxedMontyForm`, `BoxedMontyParams`
//!    (`surface/generic-route/…`);
//!  * `BoxedSafeGcdInverter::new` with an adjuster of smaller precision than the modulus (the form
//!    `Odd<BoxedUint>::precompute_inverter` itself uses with the one-limb `BoxedUint::one()`), for
//!    adjusters other than 1 (`surface/boxed/adjuster-narrower/…`; struct documentation: "computing
//!    (1 / x) * A (mod M)");
//!  * the documented failure behaviour of `BoxedUint::inv_mod`: "`self` and `modulus` must have the
//!    same number of limbs, or the function will panic" (`surface/panics/boxed-inv_mod-limb-mismatch`)
//!    (finding F-11d, fixed: it was a debug assertion only).

use crate::common::*;
use crate::fixed::{self, Pm, PreMonty};
use crate::gens::{self, gcd_big};
use crate::{boxed as bx, cmonty};
use crypto_bigint::modular::{BoxedMontyForm, BoxedMontyParams, BoxedSafeGcdInverter, MontyForm, MontyParams, SafeGcdInverter};
use crypto_bigint::{impl_modulus, BoxedUint, ConstantTimeSelect, Gcd, Int, InvMod, Invert, Inverter, NonZero, Odd, PrecomputeInverter, Uint, U320, U448};
use num_bigint::BigUint;
use num_traits::One;
use subtle::{Choice, ConditionallySelectable, CtOption};
use vmodel::gen;
use vmodel::*;

// ------------------------------------------------------------------------------------------------
// widths 5, 7, 12: `PrecomputeInverter for MontyParams<L>` can only be named at concrete widths

macro_rules! impl_pre_monty {
    ($($n:literal),*) => { $(
        impl PreMonty<$n> for Pm {
            fn params(m: Odd<Uint<$n>>, vartime: bool) -> MontyParams<$n> {
                if vartime { MontyParams::new_vartime(m) } else { MontyParams::new(m) }
            }
            fn pre_invert(p: &MontyParams<$n>, x: &MontyForm<$n>) -> (CtOption<MontyForm<$n>>, CtOption<MontyForm<$n>>) {
                let inv = p.precompute_inverter();
                (inv.invert(x), inv.invert_vartime(x))
            }
        }
    )* };
}
impl_pre_monty!(5, 7, 12);

impl_modulus!(S320Pq, U320, "3bcaba723e2eeb260794371b1e52596c934b036d9678b6abbe3d77fc523b0960a6ae871ea51ceb79");
impl_modulus!(
    S448Max,
    U448,
    "ffffffffffffffffffffffffffffffffffffffffffffffffffffffffffffffffffffffffffffffffffffffffffffffffffffffffffffffff"
);

// ------------------------------------------------------------------------------------------------
// inversion after constant-time selection

fn optu<const L: usize>(x: impl Into<Option<MontyForm<L>>>) -> Option<BigUint> {
    x.into().map(|v| ubig(&v.retrieve()))
}

pub fn monty_inv_selected<const L: usize, const U: usize>(t: &mut Tape, c: &mut Case) -> CaseResult
where
    Odd<Uint<L>>: PrecomputeInverter<Inverter = SafeGcdInverter<L, U>, Output = Uint<L>>,
    Pm: PreMonty<L>,
{
    let md = gens::modulus(t, L, true);
    let decoy_md = gens::modulus(t, L, true);
    let (al, acl) = gens::residue_value(t, L, &md);
    let ml = limbs_exact(&md.m, L);
    let dl = limbs_exact(&decoy_md.m, L);
    c.limbs("a", &al);
    c.limbs("m", &ml);
    c.limbs("decoy modulus", &dl);
    let m = &md.m;
    let a_big = big(&al);
    let g = gcd_big(&a_big, m);
    classify_as(c, &md, acl, &a_big, &g, &((&a_big << (64 * L)) % m));
    let params = total("MontyParams::new_vartime", || MontyParams::<L>::new_vartime(Odd::new(uint::<L>(&ml)).unwrap()))?;
    let decoy = total("MontyParams::new_vartime (decoy)", || MontyParams::<L>::new_vartime(Odd::new(uint::<L>(&dl)).unwrap()))?;
    let (yes, no) = (Choice::from(1u8), Choice::from(0u8));
    let assigned = {
        let mut q = decoy;
        q.conditional_assign(&params, yes);
        q
    };
    let sel = [
        ("MontyParams::conditional_select(decoy, p, 1)", MontyParams::conditional_select(&decoy, &params, yes)),
        ("MontyParams::conditional_select(p, decoy, 0)", MontyParams::conditional_select(&params, &decoy, no)),
        ("ConstantTimeSelect::ct_select(decoy, p, 1)", <MontyParams<L> as ConstantTimeSelect>::ct_select(&decoy, &params, yes)),
        ("MontyParams::conditional_assign(decoy <- p, 1)", assigned),
    ];
    let au = uint::<L>(&al);
    let x0 = total("MontyForm::new", || MontyForm::new(&au, params))?;
    let xr = ubig(&x0.retrieve());
    vensure!(xr == a_big, "MontyForm::new(a).retrieve() = {:x} is not a", xr);
    for (name, ps) in sel.iter() {
        let x = total("MontyForm::new (selected params)", || MontyForm::new(&au, *ps))?;
        check_monty(&format!("MontyForm::inv with {name}"), optu(total("inv", || x.inv())?), &xr, m, &g, false)?;
        check_monty(&format!("MontyForm::inv_vartime with {name}"), optu(total("inv_vartime", || x.inv_vartime())?), &xr, m, &g, false)?;
        let (p, pv) = total("MontyParams::precompute_inverter (selected params)", || Pm::pre_invert(ps, &x))?;
        check_monty(&format!("MontyFormInverter::invert with {name}"), optu(p), &xr, m, &g, true)?;
        check_monty(&format!("MontyFormInverter::invert_vartime with {name}"), optu(pv), &xr, m, &g, true)?;
    }
    // the value itself selected against one living under the decoy parameters
    let dz = total("MontyForm::new (decoy)", || MontyForm::new(&au, decoy))?;
    let fsel = [
        ("MontyForm::conditional_select(decoy value, x, 1)", MontyForm::conditional_select(&dz, &x0, yes)),
        ("MontyForm::conditional_select(x, decoy value, 0)", MontyForm::conditional_select(&x0, &dz, no)),
        ("ConstantTimeSelect::ct_select(decoy value, x, 1)", <MontyForm<L> as ConstantTimeSelect>::ct_select(&dz, &x0, yes)),
    ];
    for (name, x) in fsel.iter() {
        check_monty(&format!("MontyForm::inv on {name}"), optu(total("inv", || x.inv())?), &xr, m, &g, false)?;
        check_monty(&format!("Invert::invert on {name}"), optu(total("Invert::invert", || Invert::invert(x))?), &xr, m, &g, false)?;
        check_monty(&format!("Invert::invert_vartime on {name}"), optu(total("Invert::invert_vartime", || Invert::invert_vartime(x))?), &xr, m, &g, false)?;
    }
    Ok(())
}

// ------------------------------------------------------------------------------------------------
// generic-function routes: the callee only knows the trait bound

fn g_inv_mod<T: InvMod<R>, R>(a: &T, m: &R) -> CtOption<T::Output> {
    a.inv_mod(m)
}
fn g_gcd<T: Gcd<R>, R>(a: &T, b: &R) -> (T::Output, T::Output) {
    (a.gcd(b), a.gcd_vartime(b))
}
fn g_invert<T: Invert>(x: &T) -> (T::Output, T::Output) {
    (x.invert(), x.invert_vartime())
}
fn g_pre<P: PrecomputeInverter>(p: &P, v: &P::Output) -> (CtOption<P::Output>, CtOption<P::Output>) {
    let inv = p.precompute_inverter();
    (Inverter::invert(&inv, v), Inverter::invert_vartime(&inv, v))
}

fn ou<const L: usize>(x: CtOption<Uint<L>>) -> Option<BigUint> {
    Option::<Uint<L>>::from(x).map(|v| ubig(&v))
}
fn ob(x: CtOption<BoxedUint>) -> Option<BigUint> {
    Option::<BoxedUint>::from(x).map(|v| bbig(&v))
}

pub fn generic_fixed<const L: usize, const U: usize>(t: &mut Tape, c: &mut Case) -> CaseResult
where
    Odd<Uint<L>>: PrecomputeInverter<Inverter = SafeGcdInverter<L, U>, Output = Uint<L>>,
    Pm: PreMonty<L>,
    MontyParams<L>: PrecomputeInverter<Output = MontyForm<L>>,
{
    let md = gens::modulus(t, L, false);
    let (al, acl) = gens::value(t, L, &md);
    let ml = limbs_exact(&md.m, L);
    c.limbs("a", &al);
    c.limbs("m", &ml);
    let m = &md.m;
    let a_big = big(&al);
    let g = gcd_big(&a_big, m);
    classify(c, &md, acl, &a_big, &g);
    let one = BigUint::one();
    let ar = &a_big % m;
    let (a, mu) = (uint::<L>(&al), uint::<L>(&ml));
    check_inv("fn<T: InvMod>(a, m) with T = Uint", ou(total("generic InvMod", || g_inv_mod(&a, &mu))?), &ar, m, &g, &one, false)?;
    // signed reading of the same limbs
    let ai = int::<L>(&al);
    let sa = sbig(&al);
    let sg = gcd_big(sa.magnitude(), m);
    let sar = signed_residue(&sa, m);
    let nz = NonZero::new(mu).unwrap();
    check_inv("fn<T: InvMod<NonZero<Uint>>>(a, m) with T = Int", ou(total("generic InvMod (Int)", || g_inv_mod(&ai, &nz))?), &sar, m, &sg, &one, false)?;
    // gcd(a, m) through the generic Gcd routes (every impl block of the width)
    let gs = gcd_big(sa.magnitude(), m);
    let (r, rv) = total("generic Gcd (Uint, Uint)", || g_gcd::<Uint<L>, Uint<L>>(&a, &mu))?;
    vensure!(ubig(&r) == g && ubig(&rv) == g, "fn<T: Gcd>(a, m), T = Uint: got {:x} / {:x} (vartime), want {:x}", ubig(&r), ubig(&rv), g);
    let (r, rv) = total("generic Gcd (Int, Uint)", || g_gcd::<Int<L>, Uint<L>>(&ai, &mu))?;
    vensure!(ubig(&r) == gs && ubig(&rv) == gs, "fn<T: Gcd<Uint>>(a, m), T = Int: got {:x} / {:x} (vartime), want {:x}", ubig(&r), ubig(&rv), gs);
    let mi = int::<L>(&ml);
    let sm = sbig(&ml);
    let gum = gcd_big(&a_big, sm.magnitude());
    let (r, rv) = total("generic Gcd (Uint, Int)", || g_gcd::<Uint<L>, Int<L>>(&a, &mi))?;
    vensure!(ubig(&r) == gum && ubig(&rv) == gum, "fn<T: Gcd<Int>>(a, m), T = Uint: got {:x} / {:x} (vartime), want {:x}", ubig(&r), ubig(&rv), gum);
    let gim = gcd_big(sa.magnitude(), sm.magnitude());
    let (r, rv) = total("generic Gcd (Int, Int)", || g_gcd::<Int<L>, Int<L>>(&ai, &mi))?;
    vensure!(ubig(&r) == gim && ubig(&rv) == gim, "fn<T: Gcd>(a, m), T = Int: got {:x} / {:x} (vartime), want {:x}", ubig(&r), ubig(&rv), gim);
    if md.is_odd() {
        let odd = Odd::new(mu).unwrap();
        // the Inverter trait documents "none if value is zero": for a = 0, m = 1 both answers are documented
        let (p, pv) = total("generic PrecomputeInverter (Odd<Uint>)", || g_pre(&odd, &a))?;
        check_inv("fn<P: PrecomputeInverter> invert, P = Odd<Uint>", ou(p), &ar, m, &g, &one, true)?;
        check_inv("fn<P: PrecomputeInverter> invert_vartime, P = Odd<Uint>", ou(pv), &ar, m, &g, &one, true)?;
        // Montgomery form of a mod m through the generic Invert / PrecomputeInverter routes
        let vt = a_big.bit(1);
        let params = total("MontyParams::new / new_vartime", || <Pm as PreMonty<L>>::params(odd, vt))?;
        let x = total("MontyForm::new", || MontyForm::new(&a, params))?;
        let xr = ubig(&x.retrieve());
        vensure!(xr == ar, "MontyForm::new(a).retrieve() = {:x}, want a mod m = {:x}", xr, ar);
        let (i, iv) = total("generic Invert (MontyForm)", || g_invert(&x))?;
        check_monty("fn<T: Invert> invert, T = MontyForm", optu(i), &xr, m, &g, false)?;
        check_monty("fn<T: Invert> invert_vartime, T = MontyForm", optu(iv), &xr, m, &g, false)?;
        let (p, pv) = total("generic PrecomputeInverter (MontyParams)", || g_pre(&params, &x))?;
        check_monty("fn<P: PrecomputeInverter> invert, P = MontyParams", optu(p), &xr, m, &g, true)?;
        check_monty("fn<P: PrecomputeInverter> invert_vartime, P = MontyParams", optu(pv), &xr, m, &g, true)?;
    }
    Ok(())
}

pub fn generic_boxed(range: (usize, usize)) -> impl Fn(&mut Tape, &mut Case) -> CaseResult {
    move |t, c| {
        let n = bx::boxed_len(t, range);
        let md = gens::modulus(t, n, false);
        let (al, acl) = gens::value(t, n, &md);
        let ml = limbs_exact(&md.m, n);
        c.limbs("a", &al);
        c.limbs("m", &ml);
        let m = &md.m;
        let a_big = big(&al);
        let g = gcd_big(&a_big, m);
        classify(c, &md, acl, &a_big, &g);
        let one = BigUint::one();
        let ar = &a_big % m;
        let (a, mb) = (boxed(&al), boxed(&ml));
        check_inv("fn<T: InvMod>(a, m) with T = BoxedUint", ob(total("generic InvMod", || g_inv_mod(&a, &mb))?), &ar, m, &g, &one, false)?;
        let (r, rv) = total("generic Gcd (BoxedUint)", || g_gcd::<BoxedUint, BoxedUint>(&a, &mb))?;
        vensure!(bbig(&r) == g && bbig(&rv) == g, "fn<T: Gcd>(a, m), T = BoxedUint: got {:x} / {:x} (vartime), want {:x}", bbig(&r), bbig(&rv), g);
        if md.is_odd() {
            let odd = Odd::new(mb.clone()).unwrap();
            let (r, rv) = total("generic Gcd (Odd<BoxedUint>)", || g_gcd::<Odd<BoxedUint>, BoxedUint>(&odd, &a))?;
            vensure!(bbig(&r) == g && bbig(&rv) == g, "fn<T: Gcd<BoxedUint>>(m, a), T = Odd<BoxedUint>: got {:x} / {:x} (vartime), want {:x}", bbig(&r), bbig(&rv), g);
            let (p, pv) = total("generic PrecomputeInverter (Odd<BoxedUint>)", || g_pre(&odd, &a))?;
            check_inv("fn<P: PrecomputeInverter> invert, P = Odd<BoxedUint>", ob(p), &ar, m, &g, &one, true)?;
            check_inv("fn<P: PrecomputeInverter> invert_vartime, P = Odd<BoxedUint>", ob(pv), &ar, m, &g, &one, true)?;
            let params = if a_big.bit(1) {
                total("BoxedMontyParams::new_vartime", || BoxedMontyParams::new_vartime(odd.clone()))?
            } else {
                total("BoxedMontyParams::new", || BoxedMontyParams::new(odd.clone()))?
            };
            let x = total("BoxedMontyForm::new", || BoxedMontyForm::new(boxed(&limbs_exact(&ar, n)), params.clone()))?;
            let xr = bbig(&x.retrieve());
            vensure!(xr == ar, "BoxedMontyForm::new(a mod m).retrieve() = {:x}, want {:x}", xr, ar);
            let om = |r: CtOption<BoxedMontyForm>| Option::<BoxedMontyForm>::from(r).map(|v| bbig(&v.retrieve()));
            let (i, iv) = total("generic Invert (BoxedMontyForm)", || g_invert(&x))?;
            check_monty("fn<T: Invert> invert, T = BoxedMontyForm", om(i), &xr, m, &g, false)?;
            check_monty("fn<T: Invert> invert_vartime, T = BoxedMontyForm", om(iv), &xr, m, &g, false)?;
            let (p, pv) = total("generic PrecomputeInverter (BoxedMontyParams)", || g_pre(&params, &x))?;
            check_monty("fn<P: PrecomputeInverter> invert, P = BoxedMontyParams", om(p), &xr, m, &g, true)?;
            check_monty("fn<P: PrecomputeInverter> invert_vartime, P = BoxedMontyParams", om(pv), &xr, m, &g, true)?;
        }
        Ok(())
    }
}

// ------------------------------------------------------------------------------------------------
// boxed inverter with an adjuster of smaller precision

/// `BoxedSafeGcdInverter::new(modulus, adjuster)` widens the adjuster to the modulus' precision
/// (that is how `precompute_inverter` passes the one-limb `BoxedUint::one()`); struct documentation
/// (shared with `SafeGcdInverter`): "for computing (1 / x) * A (mod M)".
pub fn boxed_adjuster_narrower(range: (usize, usize)) -> impl Fn(&mut Tape, &mut Case) -> CaseResult {
    move |t, c| {
        let n = bx::boxed_len(t, range).max(2);
        let md = gens::modulus(t, n, true);
        let (al, acl) = gens::value(t, n, &md);
        let ml = limbs_exact(&md.m, n);
        let na = t.usize_in(1, n - 1);
        // an adjuster that fits in `na` limbs and is < m (A < m as in the equal-precision check)
        let bound = md.m.clone().min(pow2(64 * na as u64));
        let adj = gen::residue(t, &bound);
        let adjl = limbs_exact(&adj, na);
        c.limbs("a", &al);
        c.limbs("m", &ml);
        c.limbs("adjuster", &adjl);
        c.label("boxed inverter: adjuster of smaller precision than the modulus");
        let m = &md.m;
        let a_big = big(&al);
        let g = gcd_big(&a_big, m);
        classify(c, &md, acl, &a_big, &g);
        let ar = &a_big % m;
        let odd = Odd::new(boxed(&ml)).unwrap();
        let a = boxed(&al);
        let inv = total("BoxedSafeGcdInverter::new (narrower adjuster)", || BoxedSafeGcdInverter::new(&odd, &boxed(&adjl)))?;
        check_inv("BoxedSafeGcdInverter(narrower adjuster)::invert", ob(total("invert", || inv.invert(&a))?), &ar, m, &g, &adj, true)?;
        check_inv("BoxedSafeGcdInverter(narrower adjuster)::invert_vartime", ob(total("invert_vartime", || inv.invert_vartime(&a))?), &ar, m, &g, &adj, true)?;
        Ok(())
    }
}

// ------------------------------------------------------------------------------------------------
// documented panic: BoxedUint::inv_mod with different limb counts

pub fn boxed_inv_mod_limb_mismatch(t: &mut Tape, c: &mut Case) -> CaseResult {
    let n = t.usize_in(1, 6);
    let mut k = t.usize_in(1, 6);
    if k == n {
        k = if n == 6 { 5 } else { n + 1 };
    }
    let md = gens::modulus(t, k, false);
    let al = gen::limbs(t, n);
    let ml = limbs_exact(&md.m, k);
    c.limbs("a", &al);
    c.limbs("m", &ml);
    c.label(if n < k { "limb mismatch: self narrower than the modulus" } else { "limb mismatch: self wider than the modulus" });
    // rule: the documented-panic case is non-trivial (the whole case is about the panic)
    c.nontrivial(true);
    let (a, mb) = (boxed(&al), boxed(&ml));
    // "`self` and `modulus` must have the same number of limbs, or the function will panic". Finding
    // F-11d (fixed): the guard was a debug assertion, so the optimized build returned a value.
    must_panic("BoxedUint::inv_mod with different limb counts (documented: panics)", || a.inv_mod(&mb).is_some())?;
    must_panic("<BoxedUint as InvMod>::inv_mod with different limb counts (documented: panics)", || InvMod::inv_mod(&a, &mb).is_some())?;
    Ok(())
}

// ------------------------------------------------------------------------------------------------

macro_rules! widths {
    ($v:ident, $qi:expr, $qk:expr, $qg:expr, $qm:expr; $(($l:literal, $u:literal)),*) => { $(
        $v.push(SubCheck::new(format!("surface/fixed/inv/U{}", 64 * $l), $qi, fixed::fixed_inv::<$l, $u>).tape(64 + 7 * $l));
        $v.push(SubCheck::new(format!("surface/fixed/mod2k/U{}", 64 * $l), $qk, fixed::fixed_mod2k::<$l>).tape(24 + 3 * $l));
        $v.push(SubCheck::new(format!("surface/fixed/gcd/U{}", 64 * $l), $qg, fixed::fixed_gcd::<$l, $u>).tape(48 + 5 * $l));
        $v.push(SubCheck::new(format!("surface/fixed/monty/U{}", 64 * $l), $qm, fixed::fixed_monty::<$l, $u>).tape(64 + 6 * $l));
    )* };
}

pub fn subchecks() -> Vec<SubCheck> {
    let mut v = vec![];
    widths!(v, 2000, 200, 1800, 2000; (5, 7), (7, 9));
    widths!(v, 600, 120, 600, 500; (12, 14));
    v.push(SubCheck::new("surface/const_monty/U320/p*q composite", 1500, cmonty::cmonty_case::<S320Pq, 5, 7>("const m: p*q composite", &[4294967291])).tape(94));
    v.push(SubCheck::new("surface/const_monty/U448/2^B-1", 1500, cmonty::cmonty_case::<S448Max, 7, 9>("const m: 2^B-1", &[3, 5, 17, 257, 641, 65537, 6700417])).tape(106));
    v.push(SubCheck::new("surface/fixed/monty-inv-through-selection/U128", 1500, monty_inv_selected::<2, 4>).tape(64 + 9 * 2));
    v.push(SubCheck::new("surface/fixed/monty-inv-through-selection/U256", 1200, monty_inv_selected::<4, 6>).tape(64 + 9 * 4));
    v.push(SubCheck::new("surface/fixed/monty-inv-through-selection/U320", 800, monty_inv_selected::<5, 7>).tape(64 + 9 * 5));
    v.push(SubCheck::new("surface/generic-route/U64", 2000, generic_fixed::<1, 3>).tape(64 + 7));
    v.push(SubCheck::new("surface/generic-route/U128", 2000, generic_fixed::<2, 4>).tape(64 + 7 * 2));
    v.push(SubCheck::new("surface/generic-route/U192", 1500, generic_fixed::<3, 5>).tape(64 + 7 * 3));
    v.push(SubCheck::new("surface/generic-route/U320", 800, generic_fixed::<5, 7>).tape(64 + 7 * 5));
    v.push(SubCheck::new("surface/generic-route/boxed/1..=8", 1500, generic_boxed((1, 8))).tape(80 + 7 * 8));
    v.push(SubCheck::new("surface/boxed/adjuster-narrower/2..=9", 2000, boxed_adjuster_narrower((1, 9))).tape(80 + 8 * 9));
    v.push(SubCheck::new("surface/panics/boxed-inv_mod-limb-mismatch", 300, boxed_inv_mod_limb_mismatch).tape(64));
    v
}
