//! Fixed-width (`Uint<L>`, `Int<L>`, `MontyForm<L>`) inversion and gcd checks.

use crate::common::*;
use crate::gens::{self, gcd_big};
use crypto_bigint::modular::{MontyForm, MontyParams, SafeGcdInverter};
use crypto_bigint::{Gcd, Int, InvMod, Invert, Inverter, NonZero, Odd, PrecomputeInverter, Uint};
use num_bigint::BigUint;
use num_traits::One;
use subtle::CtOption;
use vmodel::gen;
use vmodel::*;

fn opt<const L: usize>(x: impl Into<Option<Uint<L>>>) -> Option<BigUint> {
    x.into().map(|v| ubig(&v))
}

// ------------------------------------------------------------------------------------------------
// inv_mod / inv_odd_mod / SafeGcdInverter / Int

pub fn fixed_inv<const L: usize, const U: usize>(t: &mut Tape, c: &mut Case) -> CaseResult
where
    Odd<Uint<L>>: PrecomputeInverter<Inverter = SafeGcdInverter<L, U>, Output = Uint<L>>,
{
    let (md, al, acl) = gens::modulus_value(t, L, false);
    let ml = limbs_exact(&md.m, L);
    c.limbs("a", &al);
    c.limbs("m", &ml);
    let m = &md.m;
    let a_big = big(&al);
    let g = gcd_big(&a_big, m);
    classify(c, &md, acl, &a_big, &g);
    let one = BigUint::one();
    let ar = &a_big % m;
    let (a, mu) = (uint::<L>(&al), uint::<L>(&ml));

    // general modulus, inherent + trait
    let general = opt(total("Uint::inv_mod", || a.inv_mod(&mu))?);
    check_inv("Uint::inv_mod", general.clone(), &ar, m, &g, &one, false)?;
    let r: CtOption<Uint<L>> = total("InvMod for Uint", || InvMod::inv_mod(&a, &mu))?;
    check_inv("<Uint as InvMod>::inv_mod", opt(r), &ar, m, &g, &one, false)?;

    // signed: the same limbs read as two's complement
    let ai = int::<L>(&al);
    let sa = sbig(&al);
    let sg = gcd_big(sa.magnitude(), m);
    let sar = signed_residue(&sa, m);
    if sa.sign() == num_bigint::Sign::Minus {
        c.label("Int: negative value");
        c.nontrivial(!sg.is_one());
    }
    let nz = NonZero::new(mu).unwrap();
    let r: CtOption<Uint<L>> = total("InvMod<NonZero<Uint>> for Int", || InvMod::inv_mod(&ai, &nz))?;
    check_inv("<Int as InvMod<NonZero<Uint>>>::inv_mod", opt(r), &sar, m, &sg, &one, false)?;

    if md.is_odd() {
        let odd = Odd::new(mu).unwrap();
        let r = total("Uint::inv_odd_mod", || a.inv_odd_mod(&odd))?;
        check_inv("Uint::inv_odd_mod", opt(r), &ar, m, &g, &one, false)?;
        let r = total("Int::inv_odd_mod", || ai.inv_odd_mod(&odd))?;
        check_inv("Int::inv_odd_mod", opt(r), &sar, m, &sg, &one, false)?;

        let inv = total("SafeGcdInverter::new", || SafeGcdInverter::<L, U>::new(&odd, &Uint::ONE))?;
        check_inv("SafeGcdInverter::inv", opt(total("SafeGcdInverter::inv", || inv.inv(&a))?), &ar, m, &g, &one, false)?;
        check_inv("SafeGcdInverter::inv_vartime", opt(total("SafeGcdInverter::inv_vartime", || inv.inv_vartime(&a))?), &ar, m, &g, &one, false)?;
        // the Inverter trait documents "none if value is zero": for a = 0, m = 1 both answers are documented
        let pre = total("precompute_inverter", || odd.precompute_inverter())?;
        check_inv("Inverter::invert (Odd<Uint>::precompute_inverter)", opt(total("Inverter::invert", || pre.invert(&a))?), &ar, m, &g, &one, true)?;
        check_inv("Inverter::invert_vartime (Odd<Uint>::precompute_inverter)", opt(total("Inverter::invert_vartime", || pre.invert_vartime(&a))?), &ar, m, &g, &one, true)?;

        // adjusted inverse (1/a)*A mod m (struct documentation of SafeGcdInverter), A < m
        let adj = gen::residue(t, m);
        let adjl = limbs_exact(&adj, L);
        c.limbs("adjuster", &adjl);
        let inv = total("SafeGcdInverter::new(adjuster)", || SafeGcdInverter::<L, U>::new(&odd, &uint::<L>(&adjl)))?;
        check_inv("SafeGcdInverter(adjuster)::inv", opt(total("inv", || inv.inv(&a))?), &ar, m, &g, &adj, false)?;
        check_inv("SafeGcdInverter(adjuster)::inv_vartime", opt(total("inv_vartime", || inv.inv_vartime(&a))?), &ar, m, &g, &adj, false)?;
        check_inv("SafeGcdInverter(adjuster) Inverter::invert", opt(total("invert", || inv.invert(&a))?), &ar, m, &g, &adj, true)?;
        check_inv("SafeGcdInverter(adjuster) Inverter::invert_vartime", opt(total("invert_vartime", || inv.invert_vartime(&a))?), &ar, m, &g, &adj, true)?;
    }
    if md.class == "m=2^k" {
        // m = 2^k: the dedicated routines must agree with the general one
        let k = m.bits() as u32 - 1;
        let r = opt(total("inv_mod2k", || a.inv_mod2k(k))?);
        let rv = opt(total("inv_mod2k_vartime", || a.inv_mod2k_vartime(k))?);
        check_inv("Uint::inv_mod2k", r.clone(), &ar, m, &g, &one, false)?;
        check_inv("Uint::inv_mod2k_vartime", rv, &ar, m, &g, &one, false)?;
        if k >= 1 {
            veq!(r, general, "inv_mod2k({k}) vs inv_mod(2^{k})");
        }
    }
    Ok(())
}

// ------------------------------------------------------------------------------------------------
// mod 2^k

fn k_sweep(bits: u32, all: bool) -> Vec<u32> {
    if all {
        return (0..=bits).collect();
    }
    let mut v = vec![0, 1, 2, 61, 62, 63, 64, 65, 127, 128, 129, bits / 2, bits - 65, bits - 64, bits - 63, bits - 2, bits - 1, bits];
    v.retain(|&k| k <= bits);
    v.sort();
    v.dedup();
    v
}

pub fn mod2k_value(t: &mut Tape, n: usize) -> (Limbs, &'static str) {
    let b = 64 * n as u64;
    match t.weighted(&[5, 2, 2, 2, 1]) {
        0 => (gen::odd(t, n), "a odd"),
        1 => {
            // even: a = u * 2^j
            let j = t.range(1, b - 1);
            let v = (big(&gen::odd(t, n)) << j) & mask(b);
            (limbs_of(&v, n), "a even")
        }
        2 => (gen::limbs(t, n), "a any shape"),
        3 => {
            // a = 1 + c * 2^j (inverse has a long carry structure), a = -1, a = 2^j - 1
            let j = t.range(1, b - 1);
            let v = match t.below(3) {
                0 => (pow2(j) + BigUint::one()) & mask(b),
                1 => mask(b),
                _ => mask(j),
            };
            (limbs_of(&v, n), "a = 2^j±1 / -1")
        }
        _ => (vec![0; n], "a=0"),
    }
}

pub fn fixed_mod2k<const L: usize>(t: &mut Tape, c: &mut Case) -> CaseResult {
    let bits = 64 * L as u32;
    let (al, acl) = mod2k_value(t, L);
    let k0 = match t.weighted(&[3, 1]) {
        0 => t.range(0, bits as u64) as u32,
        _ => t.edgy(bits as u64) as u32,
    };
    c.limbs("a", &al);
    c.num("k", k0 as u64);
    c.label(acl);
    let a_big = big(&al);
    let a_odd = a_big.bit(0);
    // NT (design rule with m = 2^k): non-invertible, or m even (k >= 1), or a >= m, or >= 62 trailing zeros
    c.nontrivial(k0 >= 1 || !a_odd);
    c.label(if a_odd { "mod 2^k: invertible" } else { "mod 2^k: a even" });
    if a_big.bits() > k0 as u64 {
        c.label("mod 2^k: a >= 2^k");
    }
    let a = uint::<L>(&al);
    let mut ks = k_sweep(bits, L <= 4);
    ks.push(k0);
    let one = BigUint::one();
    for k in ks {
        let m = pow2(k as u64);
        let g = if k == 0 {
            one.clone()
        } else if a_odd {
            one.clone()
        } else {
            BigUint::from(2u32) // any value != 1: reported only
        };
        let ar = &a_big % &m;
        let r = opt(total("Uint::inv_mod2k", || a.inv_mod2k(k))?);
        let rv = opt(total("Uint::inv_mod2k_vartime", || a.inv_mod2k_vartime(k))?);
        check_inv(&format!("Uint::inv_mod2k({k})"), r.clone(), &ar, &m, &g, &one, false)?;
        check_inv(&format!("Uint::inv_mod2k_vartime({k})"), rv.clone(), &ar, &m, &g, &one, false)?;
        if k >= 1 {
            veq!(r, rv, "inv_mod2k({k}) vs inv_mod2k_vartime({k})");
        }
    }
    Ok(())
}

// ------------------------------------------------------------------------------------------------
// gcd

pub fn fixed_gcd<const L: usize, const U: usize>(t: &mut Tape, c: &mut Case) -> CaseResult
where
    Odd<Uint<L>>: PrecomputeInverter<Inverter = SafeGcdInverter<L, U>, Output = Uint<L>>,
{
    let (xl, yl, class) = gens::gcd_pair_w(t, L);
    c.limbs("x", &xl);
    c.limbs("y", &yl);
    let (xb, yb) = (big(&xl), big(&yl));
    let g = gcd_big(&xb, &yb);
    let (sx, sy) = (sbig(&xl), sbig(&yl));
    let gs = gcd_big(sx.magnitude(), sy.magnitude());
    let gsu = gcd_big(sx.magnitude(), &yb);
    let gus = gcd_big(&xb, sy.magnitude());
    classify_gcd(c, class, &xb, &yb, &g, sx.sign() == num_bigint::Sign::Minus || sy.sign() == num_bigint::Sign::Minus);
    let (x, y) = (uint::<L>(&xl), uint::<L>(&yl));
    let (xi, yi) = (int::<L>(&xl), int::<L>(&yl));

    let r = ubig(&total("Uint::gcd", || x.gcd(&y))?);
    vensure!(r == g, "Uint::gcd: got {:x}, want {:x}", r, g);
    let r = ubig(&total("Uint::gcd commuted", || y.gcd(&x))?);
    vensure!(r == g, "Uint::gcd (commuted): got {:x}, want {:x}", r, g);
    let r = ubig(&total("Gcd::gcd", || Gcd::gcd(&x, &y))?);
    vensure!(r == g, "<Uint as Gcd>::gcd: got {:x}, want {:x}", r, g);
    let rv = ubig(&total("Gcd::gcd_vartime", || Gcd::gcd_vartime(&x, &y))?);
    vensure!(rv == g, "<Uint as Gcd>::gcd_vartime: got {:x}, want {:x}", rv, g);
    let rv = ubig(&total("Gcd::gcd_vartime commuted", || Gcd::gcd_vartime(&y, &x))?);
    vensure!(rv == g, "<Uint as Gcd>::gcd_vartime (commuted): got {:x}, want {:x}", rv, g);
    if xb.bit(0) {
        let odd = Odd::new(x).unwrap();
        let rv = ubig(&total("Odd<Uint>::gcd_vartime", || odd.gcd_vartime(&y))?);
        vensure!(rv == g, "Odd<Uint>::gcd_vartime: got {:x}, want {:x}", rv, g);
    }
    if yb.bit(0) {
        let odd = Odd::new(y).unwrap();
        let rv = ubig(&total("Odd<Uint>::gcd_vartime", || odd.gcd_vartime(&x))?);
        vensure!(rv == g, "Odd<Uint>::gcd_vartime (commuted): got {:x}, want {:x}", rv, g);
    }
    // signed forms: gcd of the magnitudes, always a Uint
    let r = ubig(&total("<Int as Gcd>::gcd", || Gcd::gcd(&xi, &yi))?);
    vensure!(r == gs, "<Int as Gcd>::gcd: got {:x}, want {:x}", r, gs);
    let r = ubig(&total("<Int as Gcd>::gcd_vartime", || Gcd::gcd_vartime(&xi, &yi))?);
    vensure!(r == gs, "<Int as Gcd>::gcd_vartime: got {:x}, want {:x}", r, gs);
    let r = ubig(&total("<Int as Gcd<Uint>>::gcd", || <Int<L> as Gcd<Uint<L>>>::gcd(&xi, &y))?);
    vensure!(r == gsu, "<Int as Gcd<Uint>>::gcd: got {:x}, want {:x}", r, gsu);
    let r = ubig(&total("<Int as Gcd<Uint>>::gcd_vartime", || <Int<L> as Gcd<Uint<L>>>::gcd_vartime(&xi, &y))?);
    vensure!(r == gsu, "<Int as Gcd<Uint>>::gcd_vartime: got {:x}, want {:x}", r, gsu);
    let r = ubig(&total("<Uint as Gcd<Int>>::gcd", || <Uint<L> as Gcd<Int<L>>>::gcd(&x, &yi))?);
    vensure!(r == gus, "<Uint as Gcd<Int>>::gcd: got {:x}, want {:x}", r, gus);
    let r = ubig(&total("<Uint as Gcd<Int>>::gcd_vartime", || <Uint<L> as Gcd<Int<L>>>::gcd_vartime(&x, &yi))?);
    vensure!(r == gus, "<Uint as Gcd<Int>>::gcd_vartime: got {:x}, want {:x}", r, gus);
    Ok(())
}

// ------------------------------------------------------------------------------------------------
// MontyForm (runtime modulus)

/// `PrecomputeInverter for MontyParams<L>` is bounded by a crate-private trait, so it can only be
/// named at concrete widths.
pub trait PreMonty<const L: usize> {
    /// `MontyParams::new` needs `Concat` (even widths only); `new_vartime` exists for every width.
    fn params(m: Odd<Uint<L>>, vartime: bool) -> MontyParams<L>;
    fn pre_invert(p: &MontyParams<L>, x: &MontyForm<L>) -> (CtOption<MontyForm<L>>, CtOption<MontyForm<L>>);
}
pub struct Pm;
macro_rules! impl_pre_monty {
    ($ct:tt; $($n:literal),*) => { $(
        impl PreMonty<$n> for Pm {
            fn params(m: Odd<Uint<$n>>, vartime: bool) -> MontyParams<$n> {
                impl_pre_monty!(@new $ct, m, vartime)
            }
            fn pre_invert(p: &MontyParams<$n>, x: &MontyForm<$n>) -> (CtOption<MontyForm<$n>>, CtOption<MontyForm<$n>>) {
                let inv = p.precompute_inverter();
                (inv.invert(x), inv.invert_vartime(x))
            }
        }
    )* };
    (@new true, $m:ident, $v:ident) => { if $v { MontyParams::new_vartime($m) } else { MontyParams::new($m) } };
    (@new false, $m:ident, $v:ident) => { { let _ = $v; MontyParams::new_vartime($m) } };
}
impl_pre_monty!(false; 1, 3);
impl_pre_monty!(true; 2, 4, 6, 8, 16, 32);

pub fn fixed_monty<const L: usize, const U: usize>(t: &mut Tape, c: &mut Case) -> CaseResult
where
    Odd<Uint<L>>: PrecomputeInverter<Inverter = SafeGcdInverter<L, U>, Output = Uint<L>>,
    Pm: PreMonty<L>,
{
    let (md, al, acl) = gens::modulus_residue(t, L);
    let ml = limbs_exact(&md.m, L);
    let vartime_params = t.bool();
    c.limbs("a", &al);
    c.limbs("m", &ml);
    c.num("params_vartime", vartime_params as u64);
    let m = &md.m;
    let a_big = big(&al);
    let g = gcd_big(&a_big, m);
    classify_as(c, &md, acl, &a_big, &g, &((&a_big << (64 * L)) % m));
    let odd = Odd::new(uint::<L>(&ml)).unwrap();
    let params = total("MontyParams::new / new_vartime", || Pm::params(odd, vartime_params))?;
    let x = total("MontyForm::new", || MontyForm::new(&uint::<L>(&al), params))?;
    let xr = ubig(&x.retrieve());
    vensure!(&xr % m == a_big, "MontyForm::new(a).retrieve() = {:x} is not a (mod m)", xr);
    let chk = |name: &str, r: Option<MontyForm<L>>| -> CaseResult {
        let r = r.map(|v| ubig(&v.retrieve()));
        // MontyFormInverter goes through the Inverter trait ("none if value is zero")
        check_monty(name, r, &xr, m, &g, name.starts_with("MontyFormInverter"))
    };
    chk("MontyForm::inv", total("MontyForm::inv", || x.inv())?.into())?;
    chk("MontyForm::inv_vartime", total("MontyForm::inv_vartime", || x.inv_vartime())?.into())?;
    chk("<MontyForm as Invert>::invert", total("Invert::invert", || Invert::invert(&x))?.into())?;
    chk("<MontyForm as Invert>::invert_vartime", total("Invert::invert_vartime", || Invert::invert_vartime(&x))?.into())?;
    let (p, pv) = total("MontyParams::precompute_inverter", || Pm::pre_invert(&params, &x))?;
    chk("MontyFormInverter::invert", p.into())?;
    chk("MontyFormInverter::invert_vartime", pv.into())?;
    Ok(())
}
