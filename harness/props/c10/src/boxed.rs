//! `BoxedUint` / `BoxedMontyForm` inversion and gcd checks (runtime precisions 1..=33 limbs).

use crate::common::*;
use crate::fixed::mod2k_value;
use crate::gens::{self, gcd_big};
use crypto_bigint::modular::{BoxedMontyForm, BoxedMontyParams, BoxedSafeGcdInverter};
use crypto_bigint::{BoxedUint, Gcd, InvMod, Invert, Inverter, Odd, PrecomputeInverter};
use num_bigint::BigUint;
use num_traits::One;
use subtle::{Choice, CtOption};
use vmodel::gen;
use vmodel::*;

const BIASED: [usize; 12] = [1, 2, 3, 4, 5, 8, 15, 16, 17, 31, 32, 33];

pub(crate) fn boxed_len(t: &mut Tape, (lo, hi): (usize, usize)) -> usize {
    let biased: Vec<usize> = BIASED.iter().copied().filter(|&n| lo <= n && n <= hi).collect();
    match t.weighted(&[1, 1]) {
        0 if !biased.is_empty() => t.pick(&biased),
        _ => t.usize_in(lo, hi),
    }
}

fn opt(x: CtOption<BoxedUint>) -> Option<BigUint> {
    Option::<BoxedUint>::from(x).map(|v| bbig(&v))
}
fn opt2(x: (BoxedUint, Choice)) -> Option<BigUint> {
    if bool::from(x.1) {
        Some(bbig(&x.0))
    } else {
        None
    }
}

pub fn boxed_inv(range: (usize, usize)) -> impl Fn(&mut Tape, &mut Case) -> CaseResult {
    move |t, c| {
        let n = boxed_len(t, range);
        let (md, al, acl) = gens::modulus_value(t, n, false);
        let ml = limbs_exact(&md.m, n);
        c.limbs("a", &al);
        c.limbs("m", &ml);
        let m = &md.m;
        let a_big = big(&al);
        let g = gcd_big(&a_big, m);
        classify(c, &md, acl, &a_big, &g);
        c.label(match n {
            1 => "boxed: 1 limb",
            2..=4 => "boxed: 2..=4 limbs",
            5..=16 => "boxed: 5..=16 limbs",
            _ => "boxed: 17..=33 limbs",
        });
        let one = BigUint::one();
        let ar = &a_big % m;
        let (a, mb) = (boxed(&al), boxed(&ml));

        let r = total("BoxedUint::inv_mod", || a.inv_mod(&mb))?;
        let general = opt(r);
        check_inv("BoxedUint::inv_mod", general.clone(), &ar, m, &g, &one, false)?;
        let r = total("InvMod for BoxedUint", || InvMod::inv_mod(&a, &mb))?;
        check_inv("<BoxedUint as InvMod>::inv_mod", opt(r), &ar, m, &g, &one, false)?;

        if md.is_odd() {
            let odd = Odd::new(mb.clone()).unwrap();
            let r = total("BoxedUint::inv_odd_mod", || a.inv_odd_mod(&odd))?;
            check_inv("BoxedUint::inv_odd_mod", opt(r), &ar, m, &g, &one, false)?;
            let pre = total("Odd<BoxedUint>::precompute_inverter", || odd.precompute_inverter())?;
            check_inv("BoxedSafeGcdInverter::invert", opt(total("invert", || pre.invert(&a))?), &ar, m, &g, &one, true)?;
            check_inv("BoxedSafeGcdInverter::invert_vartime", opt(total("invert_vartime", || pre.invert_vartime(&a))?), &ar, m, &g, &one, true)?;
            // adjusted inverse (1/a)*A mod m, A < m, same precision
            let adj = gen::residue(t, m);
            let adjl = limbs_exact(&adj, n);
            c.limbs("adjuster", &adjl);
            let inv = total("BoxedSafeGcdInverter::new", || BoxedSafeGcdInverter::new(&odd, &boxed(&adjl)))?;
            check_inv("BoxedSafeGcdInverter(adjuster)::invert", opt(total("invert", || inv.invert(&a))?), &ar, m, &g, &adj, true)?;
            check_inv("BoxedSafeGcdInverter(adjuster)::invert_vartime", opt(total("invert_vartime", || inv.invert_vartime(&a))?), &ar, m, &g, &adj, true)?;
        }
        if md.class == "m=2^k" {
            let k = m.bits() as u32 - 1;
            let r = opt2(total("BoxedUint::inv_mod2k", || a.inv_mod2k(k))?);
            let rv = opt2(total("BoxedUint::inv_mod2k_vartime", || a.inv_mod2k_vartime(k))?);
            check_inv("BoxedUint::inv_mod2k", r.clone(), &ar, m, &g, &one, false)?;
            check_inv("BoxedUint::inv_mod2k_vartime", rv, &ar, m, &g, &one, false)?;
            if k >= 1 {
                veq!(r, general, "BoxedUint::inv_mod2k({k}) vs inv_mod(2^{k})");
            }
        }
        Ok(())
    }
}

pub fn boxed_mod2k(range: (usize, usize)) -> impl Fn(&mut Tape, &mut Case) -> CaseResult {
    move |t, c| {
        let n = boxed_len(t, range);
        let bits = 64 * n as u32;
        let (al, acl) = mod2k_value(t, n);
        let k0 = match t.weighted(&[3, 1]) {
            0 => t.range(0, bits as u64) as u32,
            _ => t.edgy(bits as u64) as u32,
        };
        c.limbs("a", &al);
        c.num("k", k0 as u64);
        c.label(acl);
        let a_big = big(&al);
        let a_odd = a_big.bit(0);
        c.nontrivial(k0 >= 1 || !a_odd);
        c.label(if a_odd { "mod 2^k: invertible" } else { "mod 2^k: a even" });
        if a_big.bits() > k0 as u64 {
            c.label("mod 2^k: a >= 2^k");
        }
        let a = boxed(&al);
        let mut ks: Vec<u32> = if n <= 2 {
            (0..=bits).collect()
        } else {
            let mut v = vec![0, 1, 2, 62, 63, 64, 65, bits / 2, bits - 65, bits - 64, bits - 63, bits - 1, bits];
            v.sort();
            v.dedup();
            v
        };
        ks.push(k0);
        let one = BigUint::one();
        for k in ks {
            let m = pow2(k as u64);
            let g = if k == 0 || a_odd { one.clone() } else { BigUint::from(2u32) };
            let ar = &a_big % &m;
            let r = opt2(total("BoxedUint::inv_mod2k", || a.inv_mod2k(k))?);
            let rv = opt2(total("BoxedUint::inv_mod2k_vartime", || a.inv_mod2k_vartime(k))?);
            check_inv(&format!("BoxedUint::inv_mod2k({k})"), r.clone(), &ar, &m, &g, &one, false)?;
            check_inv(&format!("BoxedUint::inv_mod2k_vartime({k})"), rv.clone(), &ar, &m, &g, &one, false)?;
            if k >= 1 {
                veq!(r, rv, "BoxedUint::inv_mod2k({k}) vs inv_mod2k_vartime({k})");
            }
        }
        Ok(())
    }
}

pub fn boxed_gcd(range: (usize, usize)) -> impl Fn(&mut Tape, &mut Case) -> CaseResult {
    move |t, c| {
        let n = boxed_len(t, range);
        let (xl, yl, class) = gens::gcd_pair_w(t, n);
        c.limbs("x", &xl);
        c.limbs("y", &yl);
        let (xb, yb) = (big(&xl), big(&yl));
        let g = gcd_big(&xb, &yb);
        classify_gcd(c, class, &xb, &yb, &g, false);
        let (x, y) = (boxed(&xl), boxed(&yl));
        let r = bbig(&total("<BoxedUint as Gcd>::gcd", || Gcd::gcd(&x, &y))?);
        vensure!(r == g, "<BoxedUint as Gcd>::gcd: got {:x}, want {:x}", r, g);
        let r = bbig(&total("<BoxedUint as Gcd>::gcd commuted", || Gcd::gcd(&y, &x))?);
        vensure!(r == g, "<BoxedUint as Gcd>::gcd (commuted): got {:x}, want {:x}", r, g);
        let r = bbig(&total("<BoxedUint as Gcd>::gcd_vartime", || Gcd::gcd_vartime(&x, &y))?);
        vensure!(r == g, "<BoxedUint as Gcd>::gcd_vartime: got {:x}, want {:x}", r, g);
        let r = bbig(&total("<BoxedUint as Gcd>::gcd_vartime commuted", || Gcd::gcd_vartime(&y, &x))?);
        vensure!(r == g, "<BoxedUint as Gcd>::gcd_vartime (commuted): got {:x}, want {:x}", r, g);
        for (u, v, ul_, vl_, tag) in [(&x, &y, &xl, &yl, ""), (&y, &x, &yl, &xl, " (commuted)")] {
            if ul_[0] & 1 == 1 {
                let odd = Odd::new(u.clone()).unwrap();
                let r = bbig(&total("<Odd<BoxedUint> as Gcd>::gcd", || Gcd::gcd(&odd, v))?);
                vensure!(r == g, "<Odd<BoxedUint> as Gcd<BoxedUint>>::gcd{tag}: got {:x}, want {:x}", r, g);
                let r = bbig(&total("<Odd<BoxedUint> as Gcd>::gcd_vartime", || Gcd::gcd_vartime(&odd, v))?);
                vensure!(r == g, "<Odd<BoxedUint> as Gcd<BoxedUint>>::gcd_vartime{tag}: got {:x}, want {:x}", r, g);
                // rhs of smaller precision (exercised by the crate's own unit tests gcd_different_sizes)
                if n >= 2 && tag.is_empty() {
                    let ny = 1 + (vl_[0] as usize % (n - 1));
                    let v2 = &vl_[..ny];
                    let g2 = gcd_big(&big(ul_), &big(v2));
                    c.label("boxed gcd: rhs of smaller precision");
                    let r = bbig(&total("<Odd<BoxedUint> as Gcd>::gcd narrower rhs", || Gcd::gcd(&odd, &boxed(v2)))?);
                    vensure!(r == g2, "<Odd<BoxedUint> as Gcd<BoxedUint>>::gcd ({n} vs {ny} limbs): got {:x}, want {:x}", r, g2);
                    let r = bbig(&total("<Odd<BoxedUint> as Gcd>::gcd_vartime narrower rhs", || Gcd::gcd_vartime(&odd, &boxed(v2)))?);
                    vensure!(r == g2, "<Odd<BoxedUint> as Gcd<BoxedUint>>::gcd_vartime ({n} vs {ny} limbs): got {:x}, want {:x}", r, g2);
                }
            }
        }
        Ok(())
    }
}

pub fn boxed_monty(range: (usize, usize)) -> impl Fn(&mut Tape, &mut Case) -> CaseResult {
    move |t, c| {
        let n = boxed_len(t, range);
        let (md, al, acl) = gens::modulus_residue(t, n);
        let ml = limbs_exact(&md.m, n);
        let vartime_params = t.bool();
        c.limbs("a", &al);
        c.limbs("m", &ml);
        c.num("params_vartime", vartime_params as u64);
        let m = &md.m;
        let a_big = big(&al);
        let g = gcd_big(&a_big, m);
        classify_as(c, &md, acl, &a_big, &g, &((&a_big << (64 * n)) % m));
        let odd = Odd::new(boxed(&ml)).unwrap();
        let params = if vartime_params {
            total("BoxedMontyParams::new_vartime", || BoxedMontyParams::new_vartime(odd))?
        } else {
            total("BoxedMontyParams::new", || BoxedMontyParams::new(odd))?
        };
        let x = total("BoxedMontyForm::new", || BoxedMontyForm::new(boxed(&al), params.clone()))?;
        let xr = bbig(&x.retrieve());
        vensure!(&xr % m == a_big, "BoxedMontyForm::new(a).retrieve() = {:x} is not a (mod m)", xr);
        let chk = |name: &str, r: CtOption<BoxedMontyForm>, lenient: bool| -> CaseResult {
            let r = Option::<BoxedMontyForm>::from(r).map(|v| bbig(&v.retrieve()));
            check_monty(name, r, &xr, m, &g, lenient)
        };
        chk("BoxedMontyForm::invert", total("BoxedMontyForm::invert", || x.invert())?, false)?;
        chk("BoxedMontyForm::invert_vartime", total("BoxedMontyForm::invert_vartime", || x.invert_vartime())?, false)?;
        chk("<BoxedMontyForm as Invert>::invert", total("Invert::invert", || Invert::invert(&x))?, false)?;
        chk("<BoxedMontyForm as Invert>::invert_vartime", total("Invert::invert_vartime", || Invert::invert_vartime(&x))?, false)?;
        let pre = total("BoxedMontyParams::precompute_inverter", || params.precompute_inverter())?;
        chk("BoxedMontyFormInverter::invert", total("invert", || pre.invert(&x))?, true)?;
        chk("BoxedMontyFormInverter::invert_vartime", total("invert_vartime", || pre.invert_vartime(&x))?, true)?;
        Ok(())
    }
}
