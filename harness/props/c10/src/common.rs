//! Shared verdict helpers and case classification.

use crate::gens::{trailing_zeros, Modulus};
use num_bigint::{BigInt, BigUint, Sign};
use num_traits::{One, Zero};
use vmodel::*;

/// `sa mod m` as a non-negative residue.
pub fn signed_residue(sa: &BigInt, m: &BigUint) -> BigUint {
    let mi = BigInt::from_biguint(Sign::Plus, m.clone());
    let mut r = sa % &mi;
    if r.sign() == Sign::Minus {
        r += &mi;
    }
    r.to_biguint().unwrap()
}

/// One inversion result against the oracle: `is_some ⇔ gcd = 1`; then `a·x ≡ target (mod m)` and,
/// for m >= 2, `x < m` (which together pin x uniquely). `ar` = a mod m, `g` = gcd(a, m),
/// `target` = 1 (or the adjuster A). `zero_may_be_none`: the `Inverter` trait documents "none if
/// value is zero", which conflicts with gcd(0, 1) = 1 only for a = 0, m = 1: accept both there.
pub fn check_inv(name: &str, got: Option<BigUint>, ar: &BigUint, m: &BigUint, g: &BigUint, target: &BigUint, zero_may_be_none: bool) -> CaseResult {
    let unit = g.is_one();
    match got {
        None => {
            if zero_may_be_none && m.is_one() {
                return Ok(());
            }
            vensure!(!unit, "{name}: returned none although gcd(a, m) = 1 (a mod m = {:x}, m = {:x})", ar, m);
        }
        Some(x) => {
            vensure!(unit, "{name}: returned some({:x}) although gcd(a, m) = {:x} != 1 (m = {:x})", x, g, m);
            let lhs = (ar * &x) % m;
            let rhs = target % m;
            vensure!(lhs == rhs, "{name}: a*x mod m = {:x}, want {:x} (x = {:x}, a mod m = {:x}, m = {:x})", lhs, rhs, x, ar, m);
            if !m.is_one() {
                vensure!(&x < m, "{name}: result {:x} is not reduced below m = {:x}", x, m);
            }
        }
    }
    Ok(())
}

/// Montgomery forms: `is_some ⇔ gcd = 1` and the retrieved values multiply to 1 (mod m).
pub fn check_monty(name: &str, got_retrieved: Option<BigUint>, xr: &BigUint, m: &BigUint, g: &BigUint, zero_may_be_none: bool) -> CaseResult {
    let unit = g.is_one();
    match got_retrieved {
        None => {
            if zero_may_be_none && m.is_one() {
                return Ok(());
            }
            vensure!(!unit, "{name}: returned none although gcd(a, m) = 1 (a = {:x}, m = {:x})", xr, m);
        }
        Some(y) => {
            vensure!(unit, "{name}: returned some (retrieved {:x}) although gcd(a, m) = {:x} != 1 (m = {:x})", y, g, m);
            let lhs = (xr * &y) % m;
            let rhs = BigUint::one() % m;
            vensure!(lhs == rhs, "{name}: retrieve(a) * retrieve(a^-1) mod m = {:x}, want {:x} (a = {:x}, a^-1 = {:x}, m = {:x})", lhs, rhs, xr, y, m);
        }
    }
    Ok(())
}

/// Labels + the non-triviality rule of an (a, m) case.
pub fn classify(c: &mut Case, md: &Modulus, a_class: &'static str, a: &BigUint, g: &BigUint) {
    classify_as(c, md, a_class, a, g, a)
}

/// `seen`: the number the Bernstein-Yang iteration actually starts from (a itself, or the
/// Montgomery representation a*2^B mod m for Montgomery forms): its trailing zeros drive the jump.
pub fn classify_as(c: &mut Case, md: &Modulus, a_class: &'static str, a: &BigUint, g: &BigUint, seen: &BigUint) {
    let m = &md.m;
    c.label(md.class);
    c.label(a_class);
    let unit = g.is_one();
    let m_even = !m.bit(0);
    let tz = if seen.is_zero() { 0 } else { trailing_zeros(seen) };
    let k = trailing_zeros(m);
    c.label(if unit { "invertible" } else { "non-invertible" });
    if !unit && !a.is_zero() && (g.clone() >> trailing_zeros(g)).is_one() {
        c.label("non-invertible: gcd is a power of two (shares only 2)");
    }
    if !unit && !a.is_zero() && g.bit(0) {
        c.label("non-invertible: odd common factor");
    }
    if m.is_one() {
        c.label("m = 1");
    } else if m_even {
        if (m.clone() >> k).is_one() {
            c.label("m = 2^k, k >= 1");
        } else {
            c.label("m = s*2^k, s >= 3, k >= 1");
        }
        c.label(match k {
            1 => "k = 1",
            2..=61 => "k in 2..62",
            62..=64 => "k in 62..=64",
            _ => "k > 64",
        });
    }
    if a >= m {
        c.label("a >= m (actual)");
    }
    if tz >= 62 {
        c.label("inverted number has >= 62 trailing zeros (long jump)");
    }
    if a.is_zero() {
        c.label("a = 0 (actual)");
    }
    c.nontrivial(!unit || m_even || a >= m || tz >= 62);
}

pub fn classify_gcd(c: &mut Case, class: &'static str, x: &BigUint, y: &BigUint, g: &BigUint, negative: bool) {
    c.label(class);
    let (zx, zy) = (x.is_zero(), y.is_zero());
    if zx || zy {
        c.label("gcd: a zero operand");
    }
    let (ex, ey) = (!x.bit(0), !y.bit(0));
    c.label(match (ex, ey) {
        (false, false) => "gcd: both odd",
        (true, true) => "gcd: both even (shift-back)",
        _ => "gcd: one even",
    });
    if !zx && !zy && ex && ey && trailing_zeros(x) != trailing_zeros(y) {
        c.label("gcd: both even, different trailing zeros");
    }
    if g.is_one() {
        c.label("gcd = 1");
    } else if !g.is_zero() {
        c.label("gcd > 1");
    }
    if negative {
        c.label("gcd: negative two's-complement operand");
    }
    let tz = |v: &BigUint| if v.is_zero() { 0 } else { trailing_zeros(v) };
    c.nontrivial(!g.is_one() || ex || ey || negative || tz(x) >= 62 || tz(y) >= 62);
}
