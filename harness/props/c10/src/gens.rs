//! Oracle (own Euclid on BigUint) and the property-specific generators for C10.

use num_bigint::BigUint;
use num_traits::{One, Zero};
use vmodel::gen;
use vmodel::*;

// ------------------------------------------------------------------------------------------------
// oracle

/// Euclid's algorithm; gcd(0, 0) = 0.
pub fn gcd_big(a: &BigUint, b: &BigUint) -> BigUint {
    let (mut x, mut y) = (a.clone(), b.clone());
    while !y.is_zero() {
        let r = &x % &y;
        x = y;
        y = r;
    }
    x
}

pub fn trailing_zeros(a: &BigUint) -> u64 {
    a.trailing_zeros().unwrap_or(0)
}

/// r with every factor shared with m divided out (result coprime to m, >= 1).
pub fn coprime_part(r: &BigUint, m: &BigUint) -> BigUint {
    let mut r = r.clone();
    if r.is_zero() {
        return BigUint::one();
    }
    loop {
        let g = gcd_big(&r, m);
        if g.is_one() {
            return r;
        }
        r /= g;
    }
}

const TRIAL_PRIMES: [u32; 16] = [3, 5, 7, 11, 13, 17, 19, 23, 29, 31, 37, 41, 43, 47, 53, 59];

// ------------------------------------------------------------------------------------------------
// moduli

pub struct Modulus {
    pub m: BigUint,
    pub class: &'static str,
    /// known odd prime factors of m (constructed or found by trial division)
    pub factors: Vec<BigUint>,
}

impl Modulus {
    pub fn of(m: BigUint, class: &'static str, mut factors: Vec<BigUint>) -> Self {
        for p in TRIAL_PRIMES {
            let p = BigUint::from(p);
            if (&m % &p).is_zero() && !factors.contains(&p) {
                factors.push(p);
            }
        }
        Modulus { m, class, factors }
    }
    pub fn is_odd(&self) -> bool {
        self.m.bit(0)
    }
}

/// exponent k in lo..=hi, mostly uniform (every k reachable), sometimes at limb boundaries
fn pick_k(t: &mut Tape, lo: u64, hi: u64) -> u64 {
    if lo >= hi {
        return lo;
    }
    match t.weighted(&[3, 1]) {
        0 => t.range(lo, hi),
        _ => t.edgy(hi).max(lo),
    }
}

/// a listed prime that fits in `bits` bits (3 always does for bits >= 2)
fn small_prime(t: &mut Tape, bits: u64) -> BigUint {
    for _ in 0..4 {
        let p = BigUint::from(t.pick(&gen::SMALL_PRIMES));
        if p.bits() <= bits {
            return p;
        }
    }
    BigUint::from(3u32)
}

/// odd value with at most `bits` bits (>= 1)
fn odd_with_bits(t: &mut Tape, n: usize, bits: u64) -> BigUint {
    let v = big(&gen::limbs(t, n));
    let b = 64 * n as u64;
    let v = if bits >= b { v } else { v >> (b - bits) };
    v | BigUint::one()
}

/// Modulus m >= 1 in n limbs. `odd_only` restricts to odd moduli (Montgomery forms, inv_odd_mod).
pub fn modulus(t: &mut Tape, n: usize, odd_only: bool) -> Modulus {
    let b = 64 * n as u64;
    let w_even = if odd_only { 0 } else { 1 };
    match t.weighted(&[4, 3 * w_even, 5 * w_even, 3, 2, 3 * w_even, 2, w_even]) {
        0 => {
            let (l, class) = gen::odd_modulus(t, n);
            let m = big(&l);
            let mut f = vec![];
            if class == "m=2^B-1" {
                // 2^(64n) - 1 is divisible by 2^64 - 1 = 3*5*17*257*641*65537*6700417
                f = [3u32, 5, 17, 257, 641, 65537, 6700417].iter().map(|&p| BigUint::from(p)).collect();
            }
            Modulus::of(m, class, f)
        }
        1 => {
            let k = pick_k(t, 0, b - 1);
            Modulus::of(pow2(k), "m=2^k", vec![])
        }
        2 => {
            // s * 2^k, s odd, every k in 1..B
            let k = pick_k(t, 1, b - 1);
            let s = odd_with_bits(t, n, b - k);
            Modulus::of(s << k, "m=s*2^k", vec![])
        }
        3 => {
            // odd composite p*q with a known prime factor
            let p = small_prime(t, b / 2);
            let q = odd_with_bits(t, n, b - p.bits());
            Modulus::of(&p * q, "m=p*q odd composite", vec![p])
        }
        4 => {
            // product of two listed primes (p^2 when they coincide)
            let p = small_prime(t, b / 2);
            let q = small_prime(t, b / 2);
            Modulus::of(&p * &q, "m=p1*p2 (listed primes)", vec![p, q])
        }
        5 => {
            // even composite p*q*2^k
            let k = pick_k(t, 1, b - 3);
            let p = small_prime(t, ((b - k) / 2).max(2));
            let q = odd_with_bits(t, n, (b - k).saturating_sub(p.bits()).max(1));
            let m = (&p * q) << k;
            if m.bits() > b {
                Modulus::of(BigUint::from(6u32), "m small even", vec![])
            } else {
                Modulus::of(m, "m=p*q*2^k", vec![p])
            }
        }
        6 => {
            let mut l = gen::nonzero(t, n);
            if odd_only {
                l[0] |= 1;
            }
            Modulus::of(big(&l), "m random", vec![])
        }
        _ => Modulus::of(BigUint::from(t.pick(&[2u32, 4, 6, 10, 12, 30, 210])), "m small even", vec![]),
    }
}

// ------------------------------------------------------------------------------------------------
// values to invert

/// Inverse of a modulo m by the extended Euclidean algorithm (None when gcd != 1); m >= 1.
pub fn modinv(a: &BigUint, m: &BigUint) -> Option<BigUint> {
    use num_bigint::{BigInt, Sign};
    let mi = BigInt::from_biguint(Sign::Plus, m.clone());
    let (mut r0, mut r1) = (mi.clone(), BigInt::from_biguint(Sign::Plus, a % m));
    let (mut t0, mut t1) = (BigInt::zero(), BigInt::one());
    while !r1.is_zero() {
        let q = &r0 / &r1;
        let r2 = &r0 - &q * &r1;
        r0 = std::mem::replace(&mut r1, r2);
        let t2 = &t0 - &q * &t1;
        t0 = std::mem::replace(&mut t1, t2);
    }
    if !r0.is_one() {
        return None;
    }
    let mut x = t0 % &mi;
    if x.sign() == Sign::Minus {
        x += &mi;
    }
    Some(x.to_biguint().unwrap())
}

/// Value a in n limbs (any value of the width, not necessarily reduced) with its class.
pub fn value(t: &mut Tape, n: usize, md: &Modulus) -> (Limbs, &'static str) {
    value_mode(t, n, md, false)
}

/// `residue`: reduced values for Montgomery forms (no a >= m; more non-units; values whose
/// Montgomery representation a*2^B mod m — the number safegcd actually sees — has >= 62 trailing zeros).
fn value_mode(t: &mut Tape, n: usize, md: &Modulus, residue: bool) -> (Limbs, &'static str) {
    let b = 64 * n as u64;
    let m = &md.m;
    let max = mask(b);
    let weights: [u32; 12] = if residue { [1, 1, 2, 0, 9, 2, 0, 3, 2, 2, 2, 4] } else { [1, 1, 2, 4, 4, 3, 3, 4, 2, 2, 3, 0] };
    let (v, class): (BigUint, &'static str) = match t.weighted(&weights) {
        0 => (BigUint::zero(), "a=0"),
        1 => (BigUint::one(), "a=1"),
        2 => (m - BigUint::one(), "a=m-1"),
        3 => {
            // a >= m
            let v = match t.weighted(&[1, 1, 1, 3, 3]) {
                0 => m.clone(),
                1 => m + BigUint::one(),
                2 => max.clone(),
                3 => m + gen::residue(t, m),
                _ => {
                    // the largest lift of a random value
                    let r = big(&gen::limbs(t, n));
                    if &r >= m {
                        r
                    } else {
                        let q = (&max - &r) / m;
                        &r + q * m
                    }
                }
            };
            let v = if v > max || &v < m { max.clone() } else { v };
            (v, "a>=m")
        }
        4 => {
            // multiple of a prime factor of m (of m itself when none is known)
            if md.factors.is_empty() && residue {
                (gen::residue(t, m), "a residue class")
            } else if md.factors.is_empty() {
                if !md.is_odd() {
                    let v = big(&gen::limbs(t, n));
                    (v.clone() - (v & BigUint::one()), "a even, m even")
                } else {
                    let q = &max / m;
                    let k = gen::below_big(t, &(q + BigUint::one()));
                    (k * m, "a=k*m")
                }
            } else {
                let p = &md.factors[t.index(md.factors.len())];
                let r = big(&gen::limbs(t, n)) >> p.bits().min(b - 1);
                let v = p * r;
                let v = if t.bool() { v % m } else { v };
                (v, "a multiple of a prime factor of m")
            }
        }
        5 => {
            // shares only the factor 2 with m (m even); a unit times 2^j otherwise
            let u = coprime_part(&big(&gen::limbs(t, n)), m);
            let u = &u >> trailing_zeros(&u);
            let room = b - u.bits();
            if room == 0 {
                (u, "a unit (constructed)")
            } else {
                let cap = if t.bool() { 3 } else { room };
                let j = t.range(1, room.min(cap));
                (u << j, if md.is_odd() { "a = unit * 2^j, m odd" } else { "a shares only 2 with m" })
            }
        }
        6 => {
            // many trailing zeros: the first jump shifts by all 62 steps
            let z = if b > 63 && t.chance(2, 3) { t.range(62, (b - 1).min(130)) } else { t.range(62, b - 1) };
            let r = big(&gen::limbs(t, n)) | BigUint::one();
            ((r << z) & &max, "a trailing zeros >= 62")
        }
        7 => (coprime_part(&big(&gen::limbs(t, n)), m), "a unit (constructed)"),
        8 => (big(&gen::related(t, &limbs_of(m, n))), "a related to m"),
        9 => (gen::residue(t, m), "a residue class"),
        10 => (big(&gen::limbs(t, n)), "a random"),
        _ => {
            // Montgomery representation r * 2^z (z >= 62) below m: a = r * 2^z * R^-1 mod m
            let mb = m.bits();
            if mb < 64 {
                (gen::residue(t, m), "a residue class")
            } else {
                let cap = if t.bool() { 130 } else { mb };
                let z = t.range(62, (mb - 2).min(cap));
                let r = (big(&gen::limbs(t, n)) | BigUint::one()) >> (b - (mb - 1 - z));
                let mont = (r | BigUint::one()) << z;
                let rinv = modinv(&pow2(b), m).expect("odd modulus");
                ((mont * rinv) % m, "Montgomery form r*2^z, z >= 62")
            }
        }
    };
    (limbs_exact(&v, n), class)
}

/// Reduced value for Montgomery forms (odd moduli): biased to non-units.
pub fn residue_value(t: &mut Tape, n: usize, md: &Modulus) -> (Limbs, &'static str) {
    let (v, class) = value_mode(t, n, md, true);
    (limbs_exact(&(big(&v) % &md.m), n), class)
}

// ------------------------------------------------------------------------------------------------
// gcd pairs

fn fib_pair(k: u64) -> (BigUint, BigUint) {
    let (mut a, mut b) = (BigUint::zero(), BigUint::one());
    for _ in 0..k {
        let c = &a + &b;
        a = b;
        b = c;
    }
    (a, b)
}

pub fn gcd_pair(t: &mut Tape, n: usize) -> (Limbs, Limbs, &'static str) {
    let b = 64 * n as u64;
    let max = mask(b);
    let fit = |v: BigUint| limbs_of(&v, n);
    let (x, y, class): (Limbs, Limbs, &'static str) = match t.weighted(&[1, 2, 2, 3, 5, 2, 2, 2, 3, 2, 4]) {
        0 => (vec![0; n], vec![0; n], "gcd(0,0)"),
        1 => {
            let v = gen::limbs(t, n);
            if t.bool() {
                (vec![0; n], v, "gcd(0,y)")
            } else {
                (v, vec![0; n], "gcd(x,0)")
            }
        }
        2 => {
            let v = gen::limbs(t, n);
            (v.clone(), v, "gcd(x,x)")
        }
        3 => {
            let (i, j) = (pick_k(t, 0, b - 1), pick_k(t, 0, b - 1));
            let (mut x, mut y) = (pow2(i), pow2(j));
            // 2^i, 2^i ± 1, 3 * 2^i
            match t.below(4) {
                0 => {}
                1 => y = (y * 3u32) & &max,
                2 => x -= 1u32,
                _ => y += 1u32,
            }
            (fit(x), fit(y), "powers of two")
        }
        4 => {
            // common odd factor d and independent powers of two: x = d*u*2^i, y = d*v*2^j
            let db = t.range(1, b - 1);
            let d = odd_with_bits(t, n, db);
            let rest = b - d.bits();
            let (u, v) = if rest == 0 {
                (BigUint::one(), BigUint::one())
            } else {
                let (ub, vb) = (t.range(1, rest), t.range(1, rest));
                (odd_with_bits(t, n, ub), odd_with_bits(t, n, vb))
            };
            let (x, y) = (&d * u, &d * v);
            let (i, j) = (t.range(0, b - x.bits()), t.range(0, b - y.bits()));
            let (i, j) = if t.bool() { (i.min(3), j.min(3)) } else { (i, j) };
            (fit(x << i), fit(y << j), "common factor d*2^min(i,j)")
        }
        5 => {
            let v = gen::limbs(t, n);
            let mut w = v.clone();
            if t.bool() {
                gen::inc(&mut w)
            } else {
                gen::dec(&mut w)
            }
            (v, w, "gcd(x,x±1)")
        }
        6 => {
            // consecutive Fibonacci numbers: the longest Euclid chains
            let kmax = (b as f64 / 0.6943).floor() as u64 - 1;
            let k = if t.bool() { kmax - t.below(3) } else { t.range(1, kmax) };
            let (f0, f1) = fib_pair(k);
            let s = t.range(0, b - f1.bits());
            let s = if t.bool() { 0 } else { s };
            if t.bool() {
                (fit(f0 << s), fit(f1 << s), "Fibonacci pair")
            } else {
                (fit(f1 << s), fit(f0 << s), "Fibonacci pair")
            }
        }
        7 => {
            // y = k * x
            let x = big(&gen::limbs(t, n)) >> t.range(0, b - 1);
            let x = if x.is_zero() { BigUint::one() } else { x };
            let q = &max / &x;
            let k = gen::below_big(t, &(q + BigUint::one()));
            let y = &x * k;
            if t.bool() {
                (fit(x), fit(y), "y = k*x")
            } else {
                (fit(y), fit(x), "y = k*x")
            }
        }
        8 => {
            // negative two's complement operands of small magnitude: -(d*u), -(d*v)
            let h = (b - 4) / 2;
            let (db, ub, vb) = (t.range(1, h), t.range(1, h), t.range(1, h));
            let d = odd_with_bits(t, n, db);
            let u = odd_with_bits(t, n, ub) << t.range(0, 2);
            let v = odd_with_bits(t, n, vb) << t.range(0, 2);
            let (mut x, mut y) = (fit(&d * u), fit(&d * v));
            match t.below(3) {
                0 => gen::neg(&mut x),
                1 => gen::neg(&mut y),
                _ => {
                    gen::neg(&mut x);
                    gen::neg(&mut y)
                }
            }
            (x, y, "small magnitude negatives")
        }
        9 => {
            // signed extremes: MIN = 2^(B-1), MAX, -1
            let mut xs = vec![vec![0u64; n], vec![u64::MAX; n], vec![u64::MAX; n]];
            xs[0][n - 1] = 1 << 63;
            xs[1][n - 1] = u64::MAX >> 1;
            let x = t.pick(&xs);
            let y = if t.bool() { t.pick(&xs) } else { gen::limbs(t, n) };
            if t.bool() {
                (x, y, "signed extremes")
            } else {
                (y, x, "signed extremes")
            }
        }
        _ => {
            let (x, y) = gen::pair(t, n);
            (x, y, "pair (shapes/related)")
        }
    };
    (x, y, class)
}

// ------------------------------------------------------------------------------------------------
// worst-case divstep pairs (see worst.rs) mixed into the ordinary generators

/// (modulus, value): one case in six is a constructed pair needing close to the maximal number of
/// divsteps for its size (modulus = f odd, value = g), otherwise `modulus` + `value`.
pub fn modulus_value(t: &mut Tape, n: usize, odd_only: bool) -> (Modulus, Limbs, &'static str) {
    if t.chance(1, 10) {
        if let Some(w) = crate::worst::pair(t, n, false) {
            let al = limbs_exact(&w.g, n);
            return (Modulus::of(w.f, "m: worst-case divstep pair", vec![]), al, "a: worst-case divstep pair (beam search)");
        }
    }
    if t.chance(1, 16) {
        let m = sparse62(t, n, true);
        let a = sparse62(t, n, false);
        return (Modulus::of(m, "m: sparse 62-bit windows", vec![]), limbs_exact(&a, n), "a: sparse 62-bit windows");
    }
    let md = modulus(t, n, odd_only);
    let (al, acl) = value(t, n, &md);
    (md, al, acl)
}

/// (odd modulus, residue) for Montgomery forms: one case in six is a constructed pair such that the
/// Montgomery representation a * 2^(64n) mod m — the number safegcd sees — is the g of a worst-case
/// pair with modulus f.
pub fn modulus_residue(t: &mut Tape, n: usize) -> (Modulus, Limbs, &'static str) {
    if t.chance(1, 10) {
        if let Some(w) = crate::worst::pair(t, n, true) {
            let r = pow2(64 * n as u64) % &w.f;
            if let Some(rinv) = modinv(&r, &w.f) {
                let a = (&w.g * rinv) % &w.f;
                let al = limbs_exact(&a, n);
                return (Modulus::of(w.f, "m: worst-case divstep pair", vec![]), al, "a: Montgomery representation is the g of a worst-case divstep pair");
            }
        }
    }
    if t.chance(1, 16) {
        // the Montgomery representation (what safegcd sees) is sparse in 62-bit windows
        let m = sparse62(t, n, true);
        let g = sparse62(t, n, false) % &m;
        let r = pow2(64 * n as u64) % &m;
        if let Some(rinv) = modinv(&r, &m) {
            let a = (&g * rinv) % &m;
            return (Modulus::of(m, "m: sparse 62-bit windows", vec![]), limbs_exact(&a, n), "a: Montgomery representation sparse in 62-bit windows");
        }
    }
    let md = modulus(t, n, true);
    let (al, acl) = residue_value(t, n, &md);
    (md, al, acl)
}

/// gcd operands: one case in six a worst-case divstep pair (either order), otherwise `gcd_pair`.
pub fn gcd_pair_w(t: &mut Tape, n: usize) -> (Limbs, Limbs, &'static str) {
    if t.chance(1, 10) {
        if let Some(w) = crate::worst::pair(t, n, false) {
            let (fl, gl) = (limbs_exact(&w.f, n), limbs_exact(&w.g, n));
            return if t.bool() { (fl, gl, "worst-case divstep pair") } else { (gl, fl, "worst-case divstep pair") };
        }
    }
    if t.chance(1, 16) {
        let (ox, oy) = (t.bool(), t.bool());
        let (x, y) = (sparse62(t, n, ox), sparse62(t, n, oy));
        return (limbs_exact(&x, n), limbs_exact(&y, n), "sparse 62-bit windows");
    }
    gcd_pair(t, n)
}

/// A value whose 62-bit windows (the limb size of the unsaturated safegcd representation) are all
/// non-zero but tiny: sum of c_i * 2^(62 i), c_i in 1..=15 (top window possibly larger). Such a value has
/// a large bit length but almost empty limbs in the 62-bit representation — a bit-length estimate
/// that looks at windows instead of the whole number goes wrong here (seeded change C10-I, round 5).
pub fn sparse62(t: &mut Tape, n: usize, odd: bool) -> BigUint {
    let windows = ((64 * n) / 62).max(1);
    let used = match t.weighted(&[3, 1]) {
        0 => windows,
        _ => t.usize_in(1, windows),
    };
    let mut v = BigUint::zero();
    for i in 0..used {
        let c = 1 + t.below(15);
        v += BigUint::from(c) << (62 * i);
    }
    if odd {
        v |= BigUint::one();
    }
    v
}
