//! Inputs that need (close to) the largest number of `divstep` iterations for their size.
//!
//! safegcd (Bernstein–Yang) runs a fixed number of divsteps derived from the operand bit lengths; the
//! number a given pair (f odd, g) needs is about 2.07 per bit on random operands but up to ≈ 2.83 per
//! bit in the worst case. A budget that is too small is invisible on random and edge-shaped operands
//! (6 or more standard deviations away), so such pairs are *constructed*: a beam search walks the
//! divstep map **backwards** from the terminal states (δ, ±1, 0), keeping for every δ the `BEAM`
//! states of smallest norm, and records, for every bit length, the pair with δ = 1 (the start value
//! used by the crate) that needs the most steps. With BEAM = 32 this reaches ≈ 2.75 steps per bit.
//!
//! The table is an oracle-side construction; verdicts come from the Euclid oracle as for every other
//! input. `steps` is re-derived by a forward model run (debug builds assert it).

use num_bigint::{BigInt, BigUint, Sign};
use num_traits::{One, Signed, Zero};
use std::collections::HashSet;
use std::sync::OnceLock;
use vmodel::*;

#[derive(Clone, Debug)]
pub struct Witness {
    pub bits: u64,
    pub steps: u32,
    pub f: BigUint,
    pub g: BigUint,
}

const BEAM: usize = 32;
const DELTA_RANGE: i64 = 4;

/// forward model: number of divsteps (δ starting at 1) until g = 0
pub fn divsteps_needed(f: &BigUint, g: &BigUint) -> u32 {
    let (mut f, mut g) = (BigInt::from_biguint(Sign::Plus, f.clone()), BigInt::from_biguint(Sign::Plus, g.clone()));
    let mut delta = 1i64;
    let mut n = 0;
    while !g.is_zero() {
        let odd = g.bit(0);
        if delta > 0 && odd {
            let ng: BigInt = (&g - &f) >> 1u32;
            f = std::mem::replace(&mut g, ng);
            delta = 1 - delta;
        } else if odd {
            g = (&g + &f) >> 1u32;
            delta += 1;
        } else {
            g >>= 1u32;
            delta += 1;
        }
        n += 1;
    }
    n
}

/// norm for beam selection: f^2 + 8 g^2 in floating point on a scale common to the whole bucket
fn norm(f: &BigInt, g: &BigInt, sh: u64) -> f64 {
    let to = |x: &BigInt| -> f64 {
        let m: BigInt = x.abs() >> sh;
        let d = m.to_u64_digits().1;
        match d.len() {
            0 => 0.0,
            1 => d[0] as f64,
            _ => d[0] as f64 + d[1] as f64 * 18446744073709551616.0,
        }
    };
    let (a, b) = (to(f), to(g));
    a * a + 8.0 * b * b
}

type State = (i64, BigInt, BigInt);

fn build(max_bits: u64) -> Vec<Vec<Witness>> {
    // table[b] = up to two witnesses with max(bits(f), bits(g)) = b: the best with g < f, the best overall
    let mut table: Vec<Vec<Witness>> = vec![vec![]; max_bits as usize + 1];
    let mut beam: Vec<Vec<State>> = vec![];
    for d in -DELTA_RANGE..=DELTA_RANGE {
        beam.push(vec![(d, BigInt::one(), BigInt::zero()), (d, -BigInt::one(), BigInt::zero())]);
    }
    let idx = |d: i64| (d + DELTA_RANGE) as usize;
    let mut n: u32 = 0;
    loop {
        n += 1;
        let mut cand: Vec<HashSet<State>> = vec![HashSet::new(); (2 * DELTA_RANGE + 1) as usize];
        let mut push = |s: State| {
            if s.0.abs() <= DELTA_RANGE {
                cand[idx(s.0)].insert(s);
            }
        };
        for lst in beam.iter() {
            for (d, f, g) in lst.iter() {
                // predecessor through "g even": (d-1, f, 2g)
                if !g.is_zero() {
                    push((d - 1, f.clone(), g << 1u32));
                }
                // predecessor through "g odd, delta <= 0": (d-1, f, 2g - f)
                if d - 1 <= 0 {
                    push((d - 1, f.clone(), (g << 1u32) - f));
                }
                // predecessor through the swap branch "delta > 0, g odd": (1-d, f - 2g, f)
                if *d <= 0 {
                    push((1 - d, f - (g << 1u32), f.clone()));
                }
            }
        }
        let mut smallest = u64::MAX;
        beam = cand
            .into_iter()
            .map(|set| {
                let emax = set.iter().map(|s| s.1.bits().max(s.2.bits())).max().unwrap_or(0);
                let sh = emax.saturating_sub(60);
                let mut v: Vec<(f64, u64, State)> = set
                    .into_iter()
                    .map(|s| {
                        let e = s.1.bits().max(s.2.bits());
                        (norm(&s.1, &s.2, sh), e, s)
                    })
                    .collect();
                // total order (ties broken on the state itself): the table must not depend on the hash
                // set's iteration order, which differs from process to process
                v.sort_by(|a, b| a.0.partial_cmp(&b.0).unwrap().then(a.1.cmp(&b.1)).then_with(|| a.2.cmp(&b.2)));
                v.truncate(BEAM);
                for x in v.iter() {
                    smallest = smallest.min(x.1);
                }
                v.into_iter().map(|x| x.2).collect()
            })
            .collect();
        for (_, f, g) in beam[idx(1)].iter() {
            if (f.is_positive() && g.is_positive()) || (f.is_negative() && g.is_negative()) {
                let (ff, gg) = (f.magnitude().clone(), g.magnitude().clone());
                let b = ff.bits().max(gg.bits());
                if b > max_bits || b < 2 {
                    continue;
                }
                let slot = &mut table[b as usize];
                let lt = gg < ff;
                // slot[0]: best with g < f; slot[1]: best overall
                let w = Witness { bits: b, steps: n, f: ff, g: gg };
                if slot.is_empty() {
                    slot.push(w.clone());
                    slot.push(w);
                } else {
                    if lt && (slot[0].g >= slot[0].f || slot[0].steps < n) {
                        slot[0] = w.clone();
                    }
                    if slot[1].steps < n {
                        slot[1] = w;
                    }
                }
            }
        }
        if smallest > max_bits + 2 {
            break;
        }
    }
    // self-check of the construction against the forward model on a sample of entries
    for (i, slot) in table.iter().enumerate() {
        if i % 37 == 5 || i + 1 == table.len() {
            for w in slot {
                assert_eq!(divsteps_needed(&w.f, &w.g), w.steps, "harness: worst-case table entry does not need the recorded number of divsteps");
                assert!(w.f.bit(0), "harness: f must be odd");
            }
        }
    }
    table
}

fn table(max_bits: u64) -> &'static Vec<Vec<Witness>> {
    static SMALL: OnceLock<Vec<Vec<Witness>>> = OnceLock::new();
    static LARGE: OnceLock<Vec<Vec<Witness>>> = OnceLock::new();
    if max_bits <= 1100 {
        SMALL.get_or_init(|| build(1100))
    } else {
        LARGE.get_or_init(|| build(2200))
    }
}

/// A pair (f odd, g) with max(bits) <= 64 n needing many divsteps; `None` if the table has no entry.
/// Bit lengths: mostly the full width, sometimes 150..=175 bits (where a per-bit budget is tightest
/// after rounding to batches of 62), sometimes anywhere.
pub fn pair(t: &mut Tape, n: usize, want_reduced: bool) -> Option<Witness> {
    if vmodel::engine::in_fuzz_host() {
        // the table is built by a search of several seconds (minutes under ASan): not fuzz material
        return None;
    }
    let maxb = 64 * n as u64;
    let tb = table(maxb);
    let b = match t.weighted(&[4, 2, 2]) {
        0 => maxb - t.below(12.min(maxb - 2)),
        1 => {
            if maxb >= 176 {
                t.range(150, 175)
            } else {
                maxb - t.below(4.min(maxb - 2))
            }
        }
        _ => t.range(2, maxb),
    };
    // nearest bit length with an entry, going down
    let mut b = b.min(tb.len() as u64 - 1);
    while b >= 2 && tb[b as usize].is_empty() {
        b -= 1;
    }
    if b < 2 {
        return None;
    }
    let slot = &tb[b as usize];
    let w = if want_reduced || t.bool() { &slot[0] } else { &slot[1] };
    if want_reduced && w.g >= w.f {
        return None;
    }
    Some(w.clone())
}
