//! C10 — modular inversion and gcd: invertibility decided exactly, results exact.
//!
//! Oracle: own Euclid on `num_bigint::BigUint` for `gcd(a, m)`; a returned inverse `x` is verified
//! by `a·x ≡ 1 (mod m)` and `x < m` (m ≥ 2), which pins it uniquely, so no second inversion
//! algorithm is needed on the oracle side.

pub mod boxed;
pub mod cmonty;
pub mod common;
pub mod fixed;
pub mod gens;
pub mod surface;
pub mod worst;

use vmodel::*;

pub fn spec() -> PropSpec {
    PropSpec {
        id: "C10",
        rule: "cases: (a, m) with m >= 1 drawn from modulus classes {vmodel odd classes (1, 3, 2^B-1, 2^(B-1)+1, ~2^B/3, small primes, zero high limbs, 2^B-c, top-limb edges, random odd), 2^k and s*2^k with k uniform over 0..B (plus limb-boundary bias), p*q / p1*p2 / p*q*2^k with a known prime factor, small even, random} and a from {0, 1, m-1, a >= m (m, m+1, MAX, m+r, largest lift), multiple of a known prime factor of m, unit*2^j (shares only 2 with an even m), r*2^z with z >= 62, constructed unit, related to m, residue classes, random}; every inversion API form of the width is checked on the same (a, m) against gcd by Euclid (is_some <=> gcd = 1) and a*x = 1 (mod m), x < m for m >= 2 (Montgomery forms: retrieved values multiply to 1 mod m; adjusted inverter: a*x = A mod m). mod-2^k sub-checks: (a, k) with k uniform in 0..=B plus a sweep of k (all k for <= 256 bits, limb-boundary set otherwise). gcd sub-checks: pairs {(0,0), (0,y), (x,x), powers of two, d*u*2^i / d*v*2^j, x and x±1, Fibonacci pairs, y=k*x, small-magnitude negatives, signed extremes, related shapes}, every gcd form (Uint, Odd<Uint>, Int, Int x Uint, Uint x Int, BoxedUint, Odd<BoxedUint>) against Euclid on the magnitudes, ct == vartime. non-trivial (inversion): gcd(a,m) != 1 (also for the two's-complement reading of the same limbs used by the Int forms), or m even (k >= 1), or a >= m, or the number handed to the Bernstein-Yang iteration (a; for Montgomery forms the representation a*2^B mod m) has >= 62 trailing zeros (mod 2^k sub-checks: k >= 1 or a even); (gcd): gcd != 1, or an operand even or zero or negative (two's complement), or >= 62 trailing zeros. distinct by the operand limbs (+ k / adjuster / params flavour). surface/* sub-checks (API-surface audit): the same generators, oracle and rules at 5, 7 and 12 limbs, two more compile-time moduli, Montgomery-form inversion with parameter sets / values that went through constant-time selection against a decoy modulus, generic functions bounded by InvMod / Gcd / Invert / PrecomputeInverter, the boxed inverter with an adjuster of smaller precision; the documented panic of BoxedUint::inv_mod on different limb counts counts as non-trivial. Since seeding round 4: one case in ten of the inv / gcd / Montgomery-inverse sub-checks is a worst-case divstep pair (backward beam search over the divstep map, about 2.75 divsteps per bit; for Montgomery forms the representation is the g of the pair).",
        assumptions: vec![
            "num-bigint division / multiplication are correct (the oracle is Euclid's algorithm written in the harness on BigUint)".into(),
            "bridging uses from_words/as_words only".into(),
            "the Inverter trait documents 'none if value is zero' while gcd(0, 1) = 1: for a = 0, m = 1 both answers are accepted on Inverter trait methods only".into(),
            "BoxedUint operands have equal precision (as the code requires), except Odd<BoxedUint>::gcd with a narrower rhs, which the crate's own unit tests exercise".into(),
        ],
        subchecks,
    }
}

macro_rules! fixed_width {
    ($v:ident, $qi:expr, $qk:expr, $qg:expr, $qm:expr; $(($l:literal, $u:literal)),*) => { $(
        $v.push(SubCheck::new(format!("fixed/inv/U{}", 64 * $l), $qi, fixed::fixed_inv::<$l, $u>).tape(64 + 7 * $l));
        $v.push(SubCheck::new(format!("fixed/mod2k/U{}", 64 * $l), $qk, fixed::fixed_mod2k::<$l>).tape(24 + 3 * $l));
        $v.push(SubCheck::new(format!("fixed/gcd/U{}", 64 * $l), $qg, fixed::fixed_gcd::<$l, $u>).tape(48 + 5 * $l));
        $v.push(SubCheck::new(format!("fixed/monty/U{}", 64 * $l), $qm, fixed::fixed_monty::<$l, $u>).tape(64 + 6 * $l));
    )* };
}

fn subchecks(_ctx: &Ctx) -> Vec<SubCheck> {
    let mut v = vec![];
    // the expensive sub-checks first (one shard each: they bound the wall time)
    for (range, qi, qg, qm) in [((26, 33), 120, 120, 100), ((17, 25), 200, 200, 150), ((5, 16), 900, 900, 600), ((1, 4), 4000, 4000, 3000)] {
        let tape = 80 + 7 * range.1;
        let tag = format!("{}..={}", range.0, range.1);
        v.push(SubCheck::new(format!("boxed/inv/{tag}"), qi, boxed::boxed_inv(range)).tape(tape));
        v.push(SubCheck::new(format!("boxed/gcd/{tag}"), qg, boxed::boxed_gcd(range)).tape(tape));
        v.push(SubCheck::new(format!("boxed/monty/{tag}"), qm, boxed::boxed_monty(range)).tape(tape));
    }
    v.push(SubCheck::new("boxed/mod2k/1..=33", 400, boxed::boxed_mod2k((1, 33))).tape(130));
    fixed_width!(v, 120, 60, 120, 100; (32, 35));
    fixed_width!(v, 500, 150, 500, 400; (16, 18));
    fixed_width!(v, 2000, 400, 2000, 1500; (8, 10), (6, 8));
    fixed_width!(v, 5000, 300, 5000, 4000; (4, 6), (3, 5));
    fixed_width!(v, 10000, 600, 10000, 6000; (2, 4), (1, 3));
    cmonty::register(&mut v, 3000);
    // API-surface audit (/verif/audit/E.md): appended last so that existing sub-check indices stay stable
    v.extend(surface::subchecks());
    v
}
