fn main() {
    vmodel::cli_main(c10::spec())
}
