//! `ConstMontyForm` inversion checks over a fixed list of compile-time moduli.

use crate::common::*;
use crate::gens::{self, gcd_big, Modulus};
use crypto_bigint::modular::{ConstMontyForm, ConstMontyFormInverter, ConstMontyParams, SafeGcdInverter};
use crypto_bigint::{impl_modulus, Invert, Inverter, Odd, PrecomputeInverter, Uint};
use crypto_bigint::{U1024, U128, U192, U2048, U256, U384, U512, U64};
use num_bigint::BigUint;
use vmodel::*;

pub fn cmonty_case<MOD: ConstMontyParams<L>, const L: usize, const U: usize>(class: &'static str, factors: &'static [u64]) -> impl Fn(&mut Tape, &mut Case) -> CaseResult
where
    Odd<Uint<L>>: PrecomputeInverter<Inverter = SafeGcdInverter<L, U>, Output = Uint<L>>,
{
    move |t, c| {
        let m_big = ubig(MOD::MODULUS.as_ref());
        let md = Modulus::of(m_big, class, factors.iter().map(|&p| BigUint::from(p)).collect());
        let (al, acl) = gens::residue_value(t, L, &md);
        c.limbs("a", &al);
        let m = &md.m;
        let a_big = big(&al);
        let g = gcd_big(&a_big, m);
        classify_as(c, &md, acl, &a_big, &g, &((&a_big << (64 * L)) % m));
        let x = total("ConstMontyForm::new", || ConstMontyForm::<MOD, L>::new(&uint::<L>(&al)))?;
        let xr = ubig(&x.retrieve());
        vensure!(&xr % m == a_big, "ConstMontyForm::new(a).retrieve() = {:x} is not a (mod m)", xr);
        let chk = |name: &str, r: Option<ConstMontyForm<MOD, L>>, lenient: bool| -> CaseResult {
            let r = r.map(|v| ubig(&v.retrieve()));
            check_monty(name, r, &xr, m, &g, lenient)
        };
        chk("ConstMontyForm::inv", total("ConstMontyForm::inv", || x.inv())?.into(), false)?;
        chk("ConstMontyForm::inv_vartime", total("ConstMontyForm::inv_vartime", || x.inv_vartime())?.into(), false)?;
        chk("<ConstMontyForm as Invert>::invert", total("Invert::invert", || Invert::invert(&x))?.into(), false)?;
        chk("<ConstMontyForm as Invert>::invert_vartime", total("Invert::invert_vartime", || Invert::invert_vartime(&x))?.into(), false)?;
        let inv = total("ConstMontyFormInverter::new", || ConstMontyFormInverter::<MOD, L>::new())?;
        chk("ConstMontyFormInverter::inv", total("ConstMontyFormInverter::inv", || inv.inv(&x))?.into(), false)?;
        chk("ConstMontyFormInverter::inv_vartime", total("ConstMontyFormInverter::inv_vartime", || inv.inv_vartime(&x))?.into(), false)?;
        chk("ConstMontyFormInverter Inverter::invert", total("Inverter::invert", || Inverter::invert(&inv, &x))?.into(), true)?;
        chk("ConstMontyFormInverter Inverter::invert_vartime", total("Inverter::invert_vartime", || Inverter::invert_vartime(&inv, &x))?.into(), true)?;
        let pre = total("ConstMontyParams::precompute_inverter", || MOD::precompute_inverter::<U>())?;
        chk("ConstMontyParams::precompute_inverter().invert", total("invert", || pre.invert(&x))?.into(), true)?;
        chk("ConstMontyParams::precompute_inverter().invert_vartime", total("invert_vartime", || pre.invert_vartime(&x))?.into(), true)?;
        Ok(())
    }
}

impl_modulus!(C64Max, U64, "ffffffffffffffff");
impl_modulus!(C64Pq, U64, "9df4a4be91d546d1");
impl_modulus!(C128Max, U128, "ffffffffffffffffffffffffffffffff");
impl_modulus!(C128Pq, U128, "e9248f628794371b1e52596c5410d9e7");
impl_modulus!(C192Max, U192, "ffffffffffffffffffffffffffffffffffffffffffffffff");
impl_modulus!(C192Pq, U192, "b6f0569b6ff23c879fdf6e23c5fdcf923fbbfc4b751a4a31");
impl_modulus!(C256Max, U256, "ffffffffffffffffffffffffffffffffffffffffffffffffffffffffffffffff");
impl_modulus!(C256Pq, U256, "db2cbb7d398242341dd81b304abfb03c2e58f4e62e738f60efe47fc67732c4fb");
impl_modulus!(C384Max, U384, "ffffffffffffffffffffffffffffffffffffffffffffffffffffffffffffffffffffffffffffffffffffffffffffffff");
impl_modulus!(C384Pq, U384, "84c3651b5e4c1dc92156e69409b78a90a6154e5a03f1963ee4e4f8d8f864f5f591d2d36ff404c73e07767bb20ae02ef9");
impl_modulus!(C512Max, U512, "ffffffffffffffffffffffffffffffffffffffffffffffffffffffffffffffffffffffffffffffffffffffffffffffffffffffffffffffffffffffffffffffff");
impl_modulus!(C512Pq, U512, "7fcfac12570813a148a35e82e19564375988fd038d978eb3e045b8896277193a0e2d18503f95c98a7e2ef37b22ccf1c427da1f381617186f7cd5f976f296eee9");
impl_modulus!(C1024Max, U1024, "ffffffffffffffffffffffffffffffffffffffffffffffffffffffffffffffffffffffffffffffffffffffffffffffffffffffffffffffffffffffffffffffffffffffffffffffffffffffffffffffffffffffffffffffffffffffffffffffffffffffffffffffffffffffffffffffffffffffffffffffffffffffffffffffff");
impl_modulus!(C1024Pq, U1024, "9d3bef54990bd76c398585ab3fc0a883cd5c6b993f29559d77c231e7d7b157769480b907806ab5e9a9b17f233f9b0c8cfb204ac2c5dfd50542e2236d457ffe7745c75d873b1b22c00ee0a3ec6eac2737ee3688db6db174e9b5ef1c92d0bb08c342fe16685b7c660498ea08cecf37a797a5534ebfa614089f86bf7f1423d74b29");
impl_modulus!(C2048Max, U2048, "ffffffffffffffffffffffffffffffffffffffffffffffffffffffffffffffffffffffffffffffffffffffffffffffffffffffffffffffffffffffffffffffffffffffffffffffffffffffffffffffffffffffffffffffffffffffffffffffffffffffffffffffffffffffffffffffffffffffffffffffffffffffffffffffffffffffffffffffffffffffffffffffffffffffffffffffffffffffffffffffffffffffffffffffffffffffffffffffffffffffffffffffffffffffffffffffffffffffffffffffffffffffffffffffffffffffffffffffffffffffffffffffffffffffffffffffffffffffffffffffffffffffffffffffffffffffffffffffff");
impl_modulus!(C2048Pq, U2048, "4db84bda2247dede6153f45c1681d1f88bb5dc80f29681b9082f01abb8cc47415720c3d80abfa9335884c5dc4b4b5286b917e1d276076952a4ded7f71fc7c5303b4f8b14947e3421a4339e0240d66c0cda48361116bd9ef0e047fbeac293e64738ada10aeba905548acf4de641aceb4703251325deabc93c30d17155895a21cb89051ab0c4492cff7c424b396f0d814a0dda8b0e6dd9d59fe7045a5c8a09a4b755da876095cd408929bc80fe6db50385782afac782d283f91f0551f013f17cc7fa2c8a9cea38370e28cc86e964823633549487c4a8b885e8286bb8e20bf8ceb96debbb0da01d087b04c413d5279f6d404518fcdb16f77ba8ca485690a1d76775");
impl_modulus!(C64One, U64, "0000000000000001");
impl_modulus!(C64Prime, U64, "ffffffffffffffc5");
impl_modulus!(C64Small, U64, "0000000000003aa7");
impl_modulus!(C256One, U256, "0000000000000000000000000000000000000000000000000000000000000001");
impl_modulus!(C256Nine, U256, "0000000000000000000000000000000000000000000000000000000000000009");
impl_modulus!(C256K1, U256, "fffffffffffffffffffffffffffffffffffffffffffffffffffffffefffffc2f");
impl_modulus!(C256Sq, U256, "00000000000000000000000000000002fffffffffffffe9e00000000000028cb");

/// quick-tier case counts by width
fn cases(bits: usize, q: u64) -> u64 {
    match bits {
        0..=256 => q,
        257..=512 => q / 2,
        1024 => q / 6,
        _ => q / 20,
    }
}

pub fn register(v: &mut Vec<SubCheck>, q: u64) {
    v.push(SubCheck::new("const_monty/U64/2^B-1", cases(64, q), cmonty_case::<C64Max, 1, 3>("const m: 2^B-1", &[3, 5, 17, 257, 641, 65537, 6700417])).tape(70));
    v.push(SubCheck::new("const_monty/U64/p*q composite", cases(64, q), cmonty_case::<C64Pq, 1, 3>("const m: p*q composite", &[3])).tape(70));
    v.push(SubCheck::new("const_monty/U128/2^B-1", cases(128, q), cmonty_case::<C128Max, 2, 4>("const m: 2^B-1", &[3, 5, 17, 257, 641, 65537, 6700417])).tape(76));
    v.push(SubCheck::new("const_monty/U128/p*q composite", cases(128, q), cmonty_case::<C128Pq, 2, 4>("const m: p*q composite", &[4294967291])).tape(76));
    v.push(SubCheck::new("const_monty/U192/2^B-1", cases(192, q), cmonty_case::<C192Max, 3, 5>("const m: 2^B-1", &[3, 5, 17, 257, 641, 65537, 6700417])).tape(82));
    v.push(SubCheck::new("const_monty/U192/p*q composite", cases(192, q), cmonty_case::<C192Pq, 3, 5>("const m: p*q composite", &[251])).tape(82));
    v.push(SubCheck::new("const_monty/U256/2^B-1", cases(256, q), cmonty_case::<C256Max, 4, 6>("const m: 2^B-1", &[3, 5, 17, 257, 641, 65537, 6700417])).tape(88));
    v.push(SubCheck::new("const_monty/U256/p*q composite", cases(256, q), cmonty_case::<C256Pq, 4, 6>("const m: p*q composite", &[4294967291])).tape(88));
    v.push(SubCheck::new("const_monty/U384/2^B-1", cases(384, q), cmonty_case::<C384Max, 6, 8>("const m: 2^B-1", &[3, 5, 17, 257, 641, 65537, 6700417])).tape(100));
    v.push(SubCheck::new("const_monty/U384/p*q composite", cases(384, q), cmonty_case::<C384Pq, 6, 8>("const m: p*q composite", &[18446744073709551557])).tape(100));
    v.push(SubCheck::new("const_monty/U512/2^B-1", cases(512, q), cmonty_case::<C512Max, 8, 10>("const m: 2^B-1", &[3, 5, 17, 257, 641, 65537, 6700417])).tape(112));
    v.push(SubCheck::new("const_monty/U512/p*q composite", cases(512, q), cmonty_case::<C512Pq, 8, 10>("const m: p*q composite", &[65537])).tape(112));
    v.push(SubCheck::new("const_monty/U1024/2^B-1", cases(1024, q), cmonty_case::<C1024Max, 16, 18>("const m: 2^B-1", &[3, 5, 17, 257, 641, 65537, 6700417])).tape(160));
    v.push(SubCheck::new("const_monty/U1024/p*q composite", cases(1024, q), cmonty_case::<C1024Pq, 16, 18>("const m: p*q composite", &[9223372036854775783])).tape(160));
    v.push(SubCheck::new("const_monty/U2048/2^B-1", cases(2048, q), cmonty_case::<C2048Max, 32, 35>("const m: 2^B-1", &[3, 5, 17, 257, 641, 65537, 6700417])).tape(256));
    v.push(SubCheck::new("const_monty/U2048/p*q composite", cases(2048, q), cmonty_case::<C2048Pq, 32, 35>("const m: p*q composite", &[65537])).tape(256));
    v.push(SubCheck::new("const_monty/U64/m=1", 40, cmonty_case::<C64One, 1, 3>("const m: m=1", &[])).tape(70));
    v.push(SubCheck::new("const_monty/U64/prime 2^64-59", cases(64, q) / 5, cmonty_case::<C64Prime, 1, 3>("const m: prime 2^64-59", &[])).tape(70));
    v.push(SubCheck::new("const_monty/U64/m=15015", cases(64, q), cmonty_case::<C64Small, 1, 3>("const m: m=15015", &[])).tape(70));
    v.push(SubCheck::new("const_monty/U256/m=1", 40, cmonty_case::<C256One, 4, 6>("const m: m=1", &[])).tape(88));
    v.push(SubCheck::new("const_monty/U256/m=9 in a wide type", 60, cmonty_case::<C256Nine, 4, 6>("const m: m=9 in a wide type", &[])).tape(88));
    v.push(SubCheck::new("const_monty/U256/secp256k1 prime", cases(256, q) / 5, cmonty_case::<C256K1, 4, 6>("const m: secp256k1 prime", &[])).tape(88));
    v.push(SubCheck::new("const_monty/U256/3*p^2", cases(256, q), cmonty_case::<C256Sq, 4, 6>("const m: 3*p^2", &[18446744073709551557])).tape(88));
}
