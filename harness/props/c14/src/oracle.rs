//! BigInt oracle for the three division conventions. Never touches crypto-bigint.

use num_bigint::BigInt;
use num_traits::{Signed, Zero};

/// All expected results for n / d (d != 0).
pub struct Want {
    /// truncating: q = trunc(n/d), sign(r) ∈ {0, sign n}
    pub qt: BigInt,
    pub rt: BigInt,
    /// flooring: q = floor(n/d), sign(r) ∈ {0, sign d}
    pub qf: BigInt,
    pub rf: BigInt,
}

impl Want {
    pub fn new(n: &BigInt, d: &BigInt) -> Want {
        assert!(!d.is_zero(), "harness: oracle called with d = 0");
        // magnitudes first (unsigned division is convention-free), then signs by definition
        let qm = n.magnitude() / d.magnitude();
        let rm = n.magnitude() % d.magnitude();
        let q_neg = n.is_negative() != d.is_negative();
        let qt = if q_neg { -BigInt::from(qm) } else { BigInt::from(qm) };
        let rt = if n.is_negative() { -BigInt::from(rm) } else { BigInt::from(rm) };
        // floor: one step down when the truncated remainder is non-zero and its sign differs from d's
        let (qf, rf) = if !rt.is_zero() && rt.is_negative() != d.is_negative() {
            (&qt - 1, &rt + d)
        } else {
            (qt.clone(), rt.clone())
        };
        let w = Want { qt, rt, qf, rf };
        w.self_check(n, d);
        w
    }

    /// The oracle must itself satisfy the property statement (guards against a harness mistake).
    fn self_check(&self, n: &BigInt, d: &BigInt) {
        assert!(*n == &self.qt * d + &self.rt, "harness oracle: trunc identity");
        assert!(*n == &self.qf * d + &self.rf, "harness oracle: floor identity");
        assert!(self.rt.magnitude() < d.magnitude() && self.rf.magnitude() < d.magnitude(), "harness oracle: |r| < |d|");
        assert!(self.rt.is_zero() || self.rt.is_negative() == n.is_negative(), "harness oracle: trunc sign");
        assert!(self.rf.is_zero() || self.rf.is_negative() == d.is_negative(), "harness oracle: floor sign");
        // cross-check against num-bigint's own truncating operators and the floor definition
        assert!(self.qt == n / d && self.rt == n % d, "harness oracle: num-bigint trunc");
        // floor(n/d) is the unique q with q*d <= n < (q+1)*d for d > 0, and q*d >= n > (q+1)*d for d < 0
        let lo = &self.qf * d;
        let hi = (&self.qf + 1) * d;
        if d.is_positive() {
            assert!(lo <= *n && *n < hi, "harness oracle: floor bracket");
        } else {
            assert!(lo >= *n && *n > hi, "harness oracle: floor bracket");
        }
    }
}
