//! API-surface audit (see /verif/audit/A.md): the `impl` blocks / instantiation families of signed
//! division that the first version of this crate reached only through an equivalent sibling.
//!
//! * `surface/checked-wrapper/*` — `Checked<Int<L>>` `/` (src/checked.rs:204-262 instantiated with
//!   `T = Int<L>`, which sits on `<Int as CheckedDiv>::checked_div`) in all four receiver / operand
//!   forms and every operand state (some, none, some(0), MIN / -1).
//! * `surface/generic-routes/*` — `DivVartime` and `CheckedDiv` for `Int` through generic functions.
//! * `surface/divisor-routes/*` — divisors that reached the division through a constant-time selection
//!   or another constructor (`NonZero::conditional_select` against a decoy of the other sign,
//!   `CtOption::unwrap_or`, `new_unwrap`, `Odd::as_nz_ref`, `From<NonZeroU64>`).
//! * `surface/width/*` — the existing all-forms case functions at 5 and 7 limbs and mixed pairs with them.

use super::*;
use crypto_bigint::subtle::{Choice, ConditionallySelectable, CtOption};
use crypto_bigint::{Checked, Odd};

// ------------------------------------------------------------------------------------------------
// Checked<Int<L>>

/// Expectation. Property statement: "The quotient is reported as none exactly for a zero divisor or
/// for MIN / -1"; `Int::checked_div` (src/int/div.rs:64): "is_some if the rhs != 0, and self != MIN or
/// rhs != MINUS_ONE. Note: this operation rounds towards zero"; `CheckedDiv` (src/traits.rs:511);
/// `Checked` (src/checked.rs:10) "intentionally-checked arithmetic … leverages CtOption … to handle
/// overflows": a none operand stays none. So: some(trunc(n/d)) iff both operands are some, d != 0 and
/// the quotient fits; otherwise none; never a panic.
fn checked_wrapper<const L: usize>(t: &mut Tape, c: &mut Case) -> CaseResult {
    let (nl, dl, kind) = gens::spair(t, L, L);
    let lhs_none = t.chance(1, 5);
    let rhs_none = t.chance(1, 5);
    c.limbs("n", &nl);
    c.limbs("d", &dl);
    c.num("lhs_none", lhs_none as u64);
    c.num("rhs_none", rhs_none as u64);
    c.label(gens::SKINDS[kind]);
    let (nb, db) = (sbig(&nl), sbig(&dl));
    let (n, d) = (int::<L>(&nl), int::<L>(&dl));
    let want: Option<BigInt> = if db.is_zero() {
        c.label("d = 0");
        None
    } else {
        let w = Want::new(&nb, &db);
        classify(c, &nb, &db, &w, L, L, true);
        if fits_signed(&w.qt, L) { Some(w.qt) } else { None }
    };
    let want = if lhs_none || rhs_none {
        c.label(match (lhs_none, rhs_none) {
            (true, false) => "checked wrapper: none / some",
            (false, true) => "checked wrapper: some / none",
            _ => "checked wrapper: none / none",
        });
        None
    } else {
        c.label(if want.is_some() { "checked wrapper: some / some, quotient representable" } else { "checked wrapper: some / some, d = 0 or MIN / -1" });
        want
    };
    let mk = |x: Int<L>, none: bool| if none { Checked::<Int<L>>(CtOption::new(x, 0.into())) } else { Checked::new(x) };
    let (cn, cd) = (mk(n, lhs_none), mk(d, rhs_none));
    let forms: [(&str, Box<dyn Fn() -> Checked<Int<L>>>); 4] = [
        ("Checked<Int> / Checked<Int>", Box::new(move || cn / cd)),
        ("Checked<Int> / &Checked<Int>", Box::new(move || cn / &cd)),
        ("&Checked<Int> / Checked<Int>", Box::new(move || &cn / cd)),
        ("&Checked<Int> / &Checked<Int>", Box::new(move || &cn / &cd)),
    ];
    for (name, f) in forms.iter() {
        let got: Option<Int<L>> = total(name, || f())?.0.into();
        match (&got, &want) {
            (Some(g), Some(w)) => ieq(name, g, w)?,
            (None, None) => {}
            (Some(g), None) => vfail!("{name}: is some({:#x}) although an operand is none, d = 0 or the quotient does not fit (lhs_none={lhs_none}, rhs_none={rhs_none})", ibig(g)),
            (None, Some(w)) => vfail!("{name}: is none although both operands are some and the quotient {w:#x} fits"),
        }
    }
    Ok(())
}

// ------------------------------------------------------------------------------------------------
// generic-function routes

fn g_div_vartime<T: DivVartime>(a: &T, b: &NonZero<T>) -> T {
    a.div_vartime(b)
}
fn g_checked_div<T: CheckedDiv>(a: &T, b: &T) -> CtOption<T> {
    a.checked_div(b)
}
/// the bound `Checked<T>`'s `Div` impls ask for
fn g_checked_wrapper<T: CheckedDiv + ConditionallySelectable + Default>(a: T, b: T) -> Checked<T> {
    Checked::new(a) / Checked::new(b)
}

fn generic_routes<const L: usize>(t: &mut Tape, c: &mut Case) -> CaseResult {
    let (nl, dl, kind) = gens::spair(t, L, L);
    c.limbs("n", &nl);
    c.limbs("d", &dl);
    c.label(gens::SKINDS[kind]);
    let (nb, db) = (sbig(&nl), sbig(&dl));
    let (n, d) = (int::<L>(&nl), int::<L>(&dl));
    if db.is_zero() {
        c.label("d = 0");
        is_none("fn<T: CheckedDiv>(n, 0)", total("fn<T: CheckedDiv> by 0", || g_checked_div(&n, &d))?)?;
        is_none("fn<T>: Checked(n) / Checked(0)", total("fn<T>: Checked / Checked(0)", || g_checked_wrapper(n, d))?.0)?;
        return Ok(());
    }
    let w = Want::new(&nb, &db);
    classify(c, &nb, &db, &w, L, L, true);
    let dnz: NonZero<Int<L>> = match Option::from(d.to_nz()) {
        Some(x) => x,
        None => vfail!("Int::to_nz returned none for the non-zero value {db:#x}"),
    };
    // `DivVartime::div_vartime` returns a plain Int: MIN / -1 cannot be represented, acceptable = {panic}
    qplain("fn<T: DivVartime>", guard(|| g_div_vartime(&n, &dnz)), &w.qt, Unrep::MustPanic)?;
    qopt("fn<T: CheckedDiv>", total("fn<T: CheckedDiv>", || g_checked_div(&n, &d))?, &w.qt)?;
    qopt("fn<T>: Checked(n) / Checked(d)", total("fn<T>: Checked / Checked", || g_checked_wrapper(n, d))?.0, &w.qt)?;
    Ok(())
}

// ------------------------------------------------------------------------------------------------
// divisors that arrived through another route

/// Every route yields a `NonZero` holding the same value d (subtle `conditional_select`: "Select a or b
/// according to choice"; `NonZero::new`: "Returns none if the value is zero, some otherwise";
/// `to_nz`: "Convert to a NonZero<_>. Returns some if the original value is non-zero"), so each
/// division flavour must give the exact oracle values for d. The decoy is −d or a value of another
/// magnitude, so that a selection mixing the candidates (or keeping the decoy's sign) is visible.
fn divisor_routes_int<const L: usize>(t: &mut Tape, c: &mut Case) -> CaseResult {
    let (nl, dl, kind) = gens::spair(t, L, L);
    let (nl, dl) = if is_zero(&dl) { (nl, gens::int_l(3, L)) } else { (nl, dl) };
    let decoy = match t.weighted(&[2, 2]) {
        0 => {
            let mut v = dl.clone();
            gen::neg(&mut v); // -d (MIN stays MIN: then the decoy equals d, which is harmless)
            v
        }
        _ => gens::signed_nonzero(t, L),
    };
    c.limbs("n", &nl);
    c.limbs("d", &dl);
    c.limbs("decoy", &decoy);
    c.label(gens::SKINDS[kind]);
    let (nb, db) = (sbig(&nl), sbig(&dl));
    let w = Want::new(&nb, &db);
    classify(c, &nb, &db, &w, L, L, true);
    if sbig(&decoy).is_negative() != db.is_negative() {
        c.label("divisor routes: decoy of the other sign");
    }
    let n_neg = nb.is_negative();
    let mut known: Option<Fail> = None;
    let (n, d, dc) = (int::<L>(&nl), int::<L>(&dl), int::<L>(&decoy));
    let nz: NonZero<Int<L>> = match Option::from(NonZero::new(d)) {
        Some(x) => x,
        None => vfail!("NonZero::new returned none for the non-zero value {db:#x}"),
    };
    let dz: NonZero<Int<L>> = match Option::from(NonZero::new(dc)) {
        Some(x) => x,
        None => vfail!("NonZero::new returned none for the non-zero decoy"),
    };
    let routes: [(&str, NonZero<Int<L>>); 8] = [
        ("NonZero::conditional_select(decoy, d, 1)", NonZero::conditional_select(&dz, &nz, Choice::from(1))),
        ("NonZero::conditional_select(d, decoy, 0)", NonZero::conditional_select(&nz, &dz, Choice::from(0))),
        ("conditional_assign(d, 1)", { let mut x = dz; x.conditional_assign(&nz, Choice::from(1)); x }),
        ("conditional_assign(decoy, 0)", { let mut x = nz; x.conditional_assign(&dz, Choice::from(0)); x }),
        ("conditional_swap(1).0", { let (mut x, mut y) = (dz, nz); NonZero::conditional_swap(&mut x, &mut y, Choice::from(1)); x }),
        ("CtOption::new(d, 1).unwrap_or(decoy)", CtOption::new(nz, Choice::from(1)).unwrap_or(dz)),
        ("CtOption::new(decoy, 0).unwrap_or(d)", CtOption::new(dz, Choice::from(0)).unwrap_or(nz)),
        ("Int::to_nz()", match Option::from(total("Int::to_nz", || d.to_nz())?) {
            Some(x) => x,
            None => vfail!("Int::to_nz returned none for the non-zero value {db:#x}"),
        }),
    ];
    for (name, dv) in routes.iter() {
        veq!(il(&dv.get()), dl, "{name}: the selected divisor is not d");
        let (q, r) = total(name, || n.checked_div_rem(dv))?;
        qopt(&format!("checked_div_rem by {name} quotient"), q, &w.qt)?;
        ieq(&format!("checked_div_rem by {name} remainder"), &r, &w.rt)?;
        let (q, r) = total(name, || n.checked_div_rem_vartime(dv))?;
        qopt(&format!("checked_div_rem_vartime by {name} quotient"), q, &w.qt)?;
        ieq(&format!("checked_div_rem_vartime by {name} remainder"), &r, &w.rt)?;
        let (q, r) = total(name, || n.checked_div_rem_floor(dv))?;
        qopt(&format!("checked_div_rem_floor by {name} quotient"), q, &w.qf)?;
        floor_rem(&format!("checked_div_rem_floor by {name} remainder"), &r, &w, n_neg, &mut known)?;
        qopt(&format!("Int / &{name}"), total(name, || n / dv)?, &w.qt)?;
        ieq(&format!("Int % &{name}"), &total(name, || n % dv)?, &w.rt)?;
    }
    finish(known)
}

/// Unsigned divisor routes; additionally `Odd::as_nz_ref` ("All odd integers are definitionally
/// non-zero, so we can also obtain a reference to the equivalent NonZero") and, for single-limb
/// divisors, `NonZero::<Uint>::from_u64` / `From<NonZeroU64>` ("Create a NonZero<Uint> from a NonZeroU64").
fn divisor_routes_uint<const L: usize>(t: &mut Tape, c: &mut Case) -> CaseResult {
    let (nl, dl, kind) = gens::upair(t, L, L);
    let decoy = gens::udiv_val(t, L);
    c.limbs("n", &nl);
    c.limbs("d", &dl);
    c.limbs("decoy", &decoy);
    c.label(gens::UKINDS[kind]);
    let (nb, db) = (sbig(&nl), pos(&dl));
    let w = Want::new(&nb, &db);
    classify(c, &nb, &db, &w, L, L, false);
    let (n, d) = (int::<L>(&nl), uint::<L>(&dl));
    let nz: NonZero<Uint<L>> = match Option::from(NonZero::new(d)) {
        Some(x) => x,
        None => vfail!("NonZero::new returned none for the non-zero value {db:#x}"),
    };
    let dz: NonZero<Uint<L>> = match Option::from(NonZero::new(uint::<L>(&decoy))) {
        Some(x) => x,
        None => vfail!("NonZero::new returned none for the non-zero decoy"),
    };
    let mut routes: Vec<(&'static str, NonZero<Uint<L>>)> = vec![
        ("NonZero::conditional_select(decoy, d, 1)", NonZero::conditional_select(&dz, &nz, Choice::from(1))),
        ("NonZero::conditional_select(d, decoy, 0)", NonZero::conditional_select(&nz, &dz, Choice::from(0))),
        ("conditional_assign(d, 1)", { let mut x = dz; x.conditional_assign(&nz, Choice::from(1)); x }),
        ("CtOption::new(decoy, 0).unwrap_or(d)", CtOption::new(dz, Choice::from(0)).unwrap_or(nz)),
        ("Uint::to_nz().unwrap()", total("Uint::to_nz", || d.to_nz().expect("to_nz of a non-zero value"))?),
        ("NonZero::<Uint>::new_unwrap", total("NonZero::new_unwrap", || NonZero::<Uint<L>>::new_unwrap(d))?),
    ];
    if dl[0] & 1 == 1 {
        c.label("divisor routes: odd divisor (Odd::as_nz_ref)");
        let odd: Odd<Uint<L>> = match Option::from(Odd::new(d)) {
            Some(o) => o,
            None => vfail!("Odd::new(d) is none although d is odd"),
        };
        routes.push(("Odd::as_nz_ref", *odd.as_nz_ref()));
        routes.push(("AsRef<NonZero<Uint>> for Odd", *AsRef::<NonZero<Uint<L>>>::as_ref(&odd)));
    }
    if dl[1..].iter().all(|&x| x == 0) {
        c.label("divisor routes: single-limb divisor (from_u64)");
        let p = core::num::NonZeroU64::new(dl[0]).expect("harness: non-zero word");
        routes.push(("NonZero::<Uint>::from_u64", NonZero::<Uint<L>>::from_u64(p)));
        routes.push(("From<NonZeroU64> for NonZero<Uint>", NonZero::<Uint<L>>::from(p)));
    }
    for (name, dv) in routes.iter() {
        veq!(ul(&dv.get()), dl, "{name}: the selected divisor is not d");
        let (q, r) = total(name, || n.div_rem_uint(dv))?;
        ieq(&format!("div_rem_uint by {name} quotient"), &q, &w.qt)?;
        ieq(&format!("div_rem_uint by {name} remainder"), &r, &w.rt)?;
        let (q, r) = total(name, || n.div_rem_floor_uint(dv))?;
        ieq(&format!("div_rem_floor_uint by {name} quotient"), &q, &w.qf)?;
        ueq(&format!("div_rem_floor_uint by {name} remainder"), &r, &w.rf)?;
        let (q, r) = total(name, || n.div_rem_floor_uint_vartime(dv))?;
        ieq(&format!("div_rem_floor_uint_vartime by {name} quotient"), &q, &w.qf)?;
        ueq(&format!("div_rem_floor_uint_vartime by {name} remainder"), &r, &w.rf)?;
        ieq(&format!("Int / &{name}"), &total(name, || n / dv)?, &w.qt)?;
        ieq(&format!("Int % &{name}"), &total(name, || n % dv)?, &w.rt)?;
    }
    Ok(())
}

// ------------------------------------------------------------------------------------------------

macro_rules! eq_widths {
    ($v:ident, $q:expr, $th:expr; $($n:literal),*) => { $(
        $v.push(SubCheck::new(format!("surface/width/int-divisor/all-forms/I{}", 64*$n), $q, sdiv_eq::<$n>).tape(40 + 10 * $n).thorough($th));
        $v.push(SubCheck::new(format!("surface/width/uint-divisor/all-forms/I{}", 64*$n), $q, udiv_eq::<$n>).tape(40 + 10 * $n).thorough($th));
    )* };
}
macro_rules! mixed_widths {
    ($v:ident, $q:expr, $th:expr; $(($l:literal, $r:literal)),*) => { $(
        $v.push(SubCheck::new(format!("surface/width/int-divisor/vartime-mixed/I{}-by-I{}", 64*$l, 64*$r), $q, sdiv_mixed::<$l, $r>).tape(40 + 6 * ($l + $r)).thorough($th));
        $v.push(SubCheck::new(format!("surface/width/uint-divisor/vartime-mixed/I{}-by-U{}", 64*$l, 64*$r), $q, udiv_mixed::<$l, $r>).tape(40 + 6 * ($l + $r)).thorough($th));
    )* };
}

pub(crate) fn subchecks(ctx: &Ctx) -> Vec<SubCheck> {
    let mut v = vec![];
    v.push(SubCheck::new("surface/checked-wrapper/I64", 60_000, checked_wrapper::<1>).tape(64).thorough(30));
    v.push(SubCheck::new("surface/checked-wrapper/I128", 60_000, checked_wrapper::<2>).tape(72).thorough(30));
    v.push(SubCheck::new("surface/checked-wrapper/I192", 40_000, checked_wrapper::<3>).tape(80).thorough(30));
    v.push(SubCheck::new("surface/checked-wrapper/I320", 30_000, checked_wrapper::<5>).tape(100).thorough(30));

    v.push(SubCheck::new("surface/generic-routes/I128", 60_000, generic_routes::<2>).tape(72).thorough(30));
    v.push(SubCheck::new("surface/generic-routes/I320", 30_000, generic_routes::<5>).tape(100).thorough(30));

    v.push(SubCheck::new("surface/divisor-routes/int/I128", 40_000, divisor_routes_int::<2>).tape(96).thorough(30));
    v.push(SubCheck::new("surface/divisor-routes/int/I192", 30_000, divisor_routes_int::<3>).tape(110).thorough(30));
    v.push(SubCheck::new("surface/divisor-routes/uint/I128", 40_000, divisor_routes_uint::<2>).tape(96).thorough(30));
    v.push(SubCheck::new("surface/divisor-routes/uint/I192", 30_000, divisor_routes_uint::<3>).tape(110).thorough(30));

    // limb counts that no sub-check instantiated (the crate ran 1, 2, 3, 4, 8 and 6 / 16 in the thorough tier)
    eq_widths!(v, 30_000, 15; 5, 7);
    mixed_widths!(v, 15_000, 15; (5, 3), (3, 5), (7, 4), (4, 7), (7, 5), (5, 7));
    if ctx.thorough() {
        eq_widths!(v, 4_000, 15; 9, 11, 12, 13);
        mixed_widths!(v, 2_000, 15; (9, 5), (5, 9), (12, 7), (7, 12), (13, 11));
    }
    v
}
