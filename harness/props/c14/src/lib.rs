//! C14 — every signed division flavour satisfies n = q*d + r with its sign convention.
//!
//! Oracle: `num_bigint::BigInt` (see `oracle.rs`): truncating (q = trunc(n/d), sign r ∈ {0, sign n}),
//! flooring (q = floor(n/d), sign r ∈ {0, sign d}), normalised remainder in [0, d). Every returned
//! quotient / remainder is compared *exactly* with the oracle value, which itself is asserted to
//! satisfy n = q·d + r ∧ |r| < |d| ∧ the sign rule, so a pass implies the identity of the statement.
//!
//! Documented behaviours relied on (src/int/div.rs, src/int/div_uint.rs):
//! * `checked_div_rem`: "Returns none for the quotient when Int::MIN / Int::MINUS_ONE"; doc examples fix
//!   the truncating convention; `checked_div`: is_some iff rhs != 0 and not MIN / -1, "rounds towards zero".
//! * `checked_div(_rem)_floor`: is_some only if rhs != 0 and not MIN / -1, "rounds down".
//! * `div_rem_uint`/`div_uint`/`rem_uint`: truncating, "remainder will have the same sign as self (or be zero)".
//! * `div_rem_floor_uint`: "computes q and r s.t. n = qd + r and q = ⌊n/d⌋"; `normalized_rem`: result in [0, rhs).
//! * the `_vartime` forms are documented as "Variable time equivalent of" the above.
//! * Operator forms that return a plain `Int` (`/=`, `Wrapping /`, `DivVartime`) cannot represent MIN / -1:
//!   acceptable = {panic} (Wrapping: panic or the wrapped value MIN); everywhere else a panic is a failure.

mod gens;
mod oracle;
mod surface;

use crypto_bigint::{CheckedDiv, ConstChoice, ConstCtOption, DivVartime, Int, NonZero, Uint, Wrapping};
use num_bigint::{BigInt, Sign};
use num_traits::{Signed, Zero as _};
use oracle::Want;
use vmodel::*;

pub fn spec() -> PropSpec {
    PropSpec {
        id: "C14",
        rule: "cases: (dividend n, divisor d) pairs in two's-complement limbs: doc-example sized values, constructed n = ±(q·|d| + r) with r ∈ {0, 1, |d|−1, ⌊|d|/2⌋, random} and q ∈ {0, 1, 2, qmax, qmax−1, 2^k, random}, independent edge-shaped operands of both signs, |n| < |d|, d = ±1, n = MIN, d = MIN, MIN / −1, n = ±k·d + {0, ±1}, d = 0 (checked forms only), unsigned divisors ≥ 2^(B−1); every division form of the width pair is checked on each pair against the BigInt oracle. non-trivial: (sign(n) ≠ sign(d) as negative/non-negative and the truncated remainder ≠ 0) or n = MIN of its width or (signed divisor) d = MIN of its width; distinct by the limbs of n and d (per sub-check, i.e. per width pair and divisor signedness). surface/* sub-checks apply the same rule on the same generators to Checked<Int> (plus the none-operand flags), generic-function routes, divisors that went through a constant-time selection / another constructor (plus the decoy), and 5- / 7-limb widths.",
        assumptions: vec![
            "num-bigint magnitude division / multiplication is correct (independent implementation); the oracle re-asserts n = q*d + r, |r| < |d| and the sign rules on its own outputs for every case".into(),
            "bridging uses from_words / as_words only".into(),
            "ConstCtOption / CtOption are read through their From<_> for Option<_> conversions".into(),
        ],
        subchecks,
    }
}

// ------------------------------------------------------------------------------------------------
// comparison helpers

fn pos(l: &[u64]) -> BigInt {
    BigInt::from_biguint(Sign::Plus, big(l))
}

fn ieq<const N: usize>(what: &str, got: &Int<N>, want: &BigInt) -> CaseResult {
    let g = ibig(got);
    if &g != want {
        vfail!("{what}: got {g:#x}, want {want:#x}");
    }
    Ok(())
}

fn ueq<const N: usize>(what: &str, got: &Uint<N>, want: &BigInt) -> CaseResult {
    let g = BigInt::from_biguint(Sign::Plus, ubig(got));
    if &g != want {
        vfail!("{what}: got {g:#x}, want {want:#x}");
    }
    Ok(())
}

/// The two option types of the crate, read through their `From<_> for Option<_>` conversions.
trait Opt<T> {
    fn opt(self) -> Option<T>;
}
impl<T> Opt<T> for subtle::CtOption<T> {
    fn opt(self) -> Option<T> {
        self.into()
    }
}
impl<T> Opt<T> for ConstCtOption<T> {
    fn opt(self) -> Option<T> {
        self.into()
    }
}

/// An optional quotient: some(exact) iff the exact quotient fits `Int<N>` (both directions).
fn qopt<const N: usize>(what: &str, got: impl Opt<Int<N>>, want: &BigInt) -> CaseResult {
    let fits = fits_signed(want, N);
    match got.opt() {
        Some(v) => {
            vensure!(fits, "{what}: returned some({:#x}) although the exact value {want:#x} does not fit", ibig(&v));
            ieq(what, &v, want)
        }
        None => {
            vensure!(!fits, "{what}: returned none although the exact value {want:#x} fits");
            Ok(())
        }
    }
}

fn is_none<T>(what: &str, got: impl Opt<T>) -> CaseResult {
    vensure!(got.opt().is_none(), "{what}: returned some for a zero divisor");
    Ok(())
}

#[derive(Clone, Copy, PartialEq)]
enum Unrep {
    /// the form has no way to report MIN / -1: it must panic there
    MustPanic,
    /// Wrapping: panic or the wrapped quotient (MIN)
    PanicOrWrap,
}

/// A form returning a plain `Int<N>` quotient that may panic only when the quotient is unrepresentable.
fn qplain<const N: usize>(what: &str, got: Result<Int<N>, String>, want: &BigInt, rule: Unrep) -> CaseResult {
    let fits = fits_signed(want, N);
    match (got, fits) {
        (Ok(v), true) => ieq(what, &v, want),
        (Err(m), true) => vfail!("{what}: panicked ({m}) although the exact quotient {want:#x} fits"),
        (Err(_), false) => Ok(()),
        (Ok(v), false) => {
            if rule == Unrep::PanicOrWrap {
                veq!(il(&v), twos(want, N), "{what}: MIN / -1 neither panicked nor wrapped");
                Ok(())
            } else {
                vfail!("{what}: returned {:#x} although the exact quotient {want:#x} does not fit (expected a panic)", ibig(&v))
            }
        }
    }
}

/// Floor remainder with a signed divisor. Exact match, else the exact F-14 signature, else failure.
///
/// F-14: `checked_div_rem_floor(_vartime)` negates the remainder when the signs of n and d oppose
/// instead of when d is negative, so for n < 0 with a non-zero remainder the returned remainder is
/// the negation of the floor remainder (the quotient is correct and has been checked before).
fn floor_rem<const N: usize>(what: &str, got: &Int<N>, w: &Want, n_neg: bool, known: &mut Option<Fail>) -> CaseResult {
    let g = ibig(got);
    if g == w.rf {
        return Ok(());
    }
    if n_neg && !w.rf.is_zero() && g == -&w.rf {
        if known.is_none() {
            *known = Some(Fail::known(
                "F-14",
                format!("{what}: floor remainder has the wrong sign for n < 0, d ∤ n: got {g:#x}, want {:#x} (floor quotient {:#x} is correct)", w.rf, w.qf),
            ));
        }
        return Ok(());
    }
    vfail!("{what}: got {g:#x}, want {:#x}", w.rf);
}

/// Truncated remainder returned as `Int<R>` by the unsigned-divisor vartime forms.
///
/// F-14a: with RHS_LIMBS < LIMBS and d > 2^(64·RHS_LIMBS − 1) the true remainder (|r| < d) may not fit
/// `Int<RHS_LIMBS>`; `div_rem_uint_vartime` / `rem_uint_vartime` then return it reduced mod 2^(64·RHS_LIMBS)
/// (`remainder.as_int()`), i.e. a value with the wrong sign / magnitude. Signature: the exact remainder does
/// not fit Int<R> and the returned bits are its two's-complement wrap.
fn trunc_rem_narrow<const R: usize>(what: &str, got: &Int<R>, w: &Want, known: &mut Option<Fail>) -> CaseResult {
    if fits_signed(&w.rt, R) {
        return ieq(what, got, &w.rt);
    }
    if il(got) == twos(&w.rt, R) {
        if known.is_none() {
            *known = Some(Fail::known(
                "F-14a",
                format!("{what}: exact remainder {:#x} does not fit Int<{R}>; returned its wrap {:#x}, so n != q*d + r", w.rt, ibig(got)),
            ));
        }
        return Ok(());
    }
    vfail!("{what}: got {:#x}, want {:#x} (which does not fit Int<{R}>; not the wrapped value either)", ibig(got), w.rt);
}

fn finish(known: Option<Fail>) -> CaseResult {
    match known {
        Some(k) => Err(k),
        None => Ok(()),
    }
}

fn choice(b: bool) -> ConstChoice {
    if b {
        ConstChoice::TRUE
    } else {
        ConstChoice::FALSE
    }
}

// ------------------------------------------------------------------------------------------------
// classification (class histogram + the NT rule of the design)

fn classify(c: &mut Case, n: &BigInt, d: &BigInt, w: &Want, l: usize, r: usize, signed_divisor: bool) {
    let n_min = *n == smin(l);
    let d_min = signed_divisor && *d == smin(r);
    let signs_differ = n.is_negative() != d.is_negative();
    c.nontrivial((signs_differ && !w.rt.is_zero()) || n_min || d_min);

    c.label(match (n.is_negative(), d.is_negative()) {
        (false, false) => "signs: n >= 0, d > 0",
        (true, false) => "signs: n < 0, d > 0",
        (false, true) => "signs: n >= 0, d < 0",
        (true, true) => "signs: n < 0, d < 0",
    });
    c.label(if w.rt.is_zero() { "exact (r = 0)" } else { "inexact (r != 0)" });
    if n.magnitude() < d.magnitude() {
        c.label("|n| < |d|");
    }
    if w.qf != w.qt {
        c.label("floor quotient = trunc quotient - 1");
    }
    if n.is_negative() && !w.rt.is_zero() {
        c.label("n < 0 and d does not divide n (F-14 input class for signed floor forms)");
    }
    if d.magnitude() == &num_bigint::BigUint::from(1u32) {
        c.label(if d.is_negative() { "d = -1" } else { "d = 1" });
    }
    if n_min {
        c.label("n = MIN");
    }
    if d_min {
        c.label("d = MIN");
    }
    if *n == smax(l) {
        c.label("n = MAX");
    }
    if !fits_signed(&w.qt, l) {
        c.label("MIN / -1 (quotient unrepresentable)");
    }
    if !signed_divisor && d.bits() == 64 * r as u64 {
        c.label("unsigned d >= 2^(B-1)");
    }
    if !signed_divisor && !fits_signed(&w.rt, r) {
        c.label("unsigned d: truncated remainder does not fit Int<RHS> (F-14a input class)");
    }
    if w.rt.magnitude() + 1u32 == *d.magnitude() {
        c.label("|r| = |d| - 1");
    }
}

// ------------------------------------------------------------------------------------------------
// signed divisor, equal widths: every form

fn sign_rs_checks<const L: usize>(n: &Int<L>, nb: &BigInt, dl: &[u64]) -> CaseResult {
    // src/int/sign.rs: abs_sign / abs / is_negative / is_positive / new_from_abs_sign
    let (a, s) = total("Int::abs_sign", || n.abs_sign())?;
    veq!(ubig(&a), nb.magnitude().clone(), "Int::abs_sign magnitude");
    veq!(bool::from(s), nb.is_negative(), "Int::abs_sign sign");
    veq!(ubig(&n.abs()), nb.magnitude().clone(), "Int::abs");
    veq!(bool::from(n.is_negative()), nb.is_negative(), "Int::is_negative");
    veq!(bool::from(n.is_positive()), nb.is_positive(), "Int::is_positive");
    qopt("Int::new_from_abs_sign(abs_sign(n))", Int::new_from_abs_sign(a, s), nb)?;
    // arbitrary magnitude (the divisor's bits read as unsigned) with both signs:
    // "Returns None when the absolute value does not fit in an Int<LIMBS>"
    let u = uint::<L>(dl);
    for neg in [false, true] {
        let want = if neg { -pos(dl) } else { pos(dl) };
        qopt("Int::new_from_abs_sign(arbitrary)", Int::new_from_abs_sign(u, choice(neg)), &want)?;
    }
    Ok(())
}

fn sdiv_eq<const L: usize>(t: &mut Tape, c: &mut Case) -> CaseResult {
    let (nl, dl, kind) = gens::spair(t, L, L);
    c.limbs("n", &nl);
    c.limbs("d", &dl);
    c.label(gens::SKINDS[kind]);
    let (nb, db) = (sbig(&nl), sbig(&dl));
    let (n, d) = (int::<L>(&nl), int::<L>(&dl));
    sign_rs_checks(&n, &nb, &dl)?;

    if db.is_zero() {
        // "The quotient is reported as none exactly for a zero divisor or for MIN / -1"
        c.label("d = 0");
        is_none("Int::to_nz(0)", d.to_nz())?;
        is_none("NonZero::new(0)", NonZero::new(d))?;
        is_none("checked_div(n, 0)", total("checked_div by 0", || n.checked_div(&d))?)?;
        is_none("checked_div_vartime(n, 0)", total("checked_div_vartime by 0", || n.checked_div_vartime(&d))?)?;
        is_none("checked_div_floor(n, 0)", total("checked_div_floor by 0", || n.checked_div_floor(&d))?)?;
        is_none("checked_div_floor_vartime(n, 0)", total("checked_div_floor_vartime by 0", || n.checked_div_floor_vartime(&d))?)?;
        is_none("CheckedDiv::checked_div(n, 0)", total("CheckedDiv by 0", || CheckedDiv::checked_div(&n, &d))?)?;
        return Ok(());
    }

    let w = Want::new(&nb, &db);
    classify(c, &nb, &db, &w, L, L, true);
    let n_neg = nb.is_negative();
    let mut known: Option<Fail> = None;

    let dnz: NonZero<Int<L>> = match Option::from(d.to_nz()) {
        Some(x) => x,
        None => vfail!("Int::to_nz returned none for the non-zero value {db:#x}"),
    };
    match Option::<NonZero<Int<L>>>::from(NonZero::new(d)) {
        Some(x) => veq!(il(&x.get()), dl, "NonZero::new(d).get()"),
        None => vfail!("NonZero::new returned none for the non-zero value {db:#x}"),
    }
    let (dm, ds) = total("NonZero<Int>::abs_sign", || dnz.abs_sign())?;
    veq!(ubig(&dm.get()), db.magnitude().clone(), "NonZero<Int>::abs_sign magnitude");
    veq!(bool::from(ds), db.is_negative(), "NonZero<Int>::abs_sign sign");

    // ---- truncating, constant-time
    let (q, r) = total("checked_div_rem", || n.checked_div_rem(&dnz))?;
    qopt("checked_div_rem quotient", q, &w.qt)?;
    ieq("checked_div_rem remainder", &r, &w.rt)?;
    qopt("checked_div", total("checked_div", || n.checked_div(&d))?, &w.qt)?;
    qopt("CheckedDiv::checked_div", total("CheckedDiv::checked_div", || CheckedDiv::checked_div(&n, &d))?, &w.qt)?;
    ieq("rem", &total("rem", || n.rem(&dnz))?, &w.rt)?;

    // ---- truncating, vartime (same width)
    let (q, r) = total("checked_div_rem_vartime", || n.checked_div_rem_vartime(&dnz))?;
    qopt("checked_div_rem_vartime quotient", q, &w.qt)?;
    ieq("checked_div_rem_vartime remainder", &r, &w.rt)?;
    qopt("checked_div_vartime", total("checked_div_vartime", || n.checked_div_vartime(&d))?, &w.qt)?;
    ieq("rem_vartime", &total("rem_vartime", || n.rem_vartime(&dnz))?, &w.rt)?;
    qplain("DivVartime::div_vartime", guard(|| DivVartime::div_vartime(&n, &dnz)), &w.qt, Unrep::MustPanic)?;

    // ---- flooring
    let (q, r) = total("checked_div_rem_floor", || n.checked_div_rem_floor(&dnz))?;
    qopt("checked_div_rem_floor quotient", q, &w.qf)?;
    floor_rem("checked_div_rem_floor remainder", &r, &w, n_neg, &mut known)?;
    qopt("checked_div_floor", total("checked_div_floor", || n.checked_div_floor(&d))?, &w.qf)?;
    let (q, r) = total("checked_div_rem_floor_vartime", || n.checked_div_rem_floor_vartime(&dnz))?;
    qopt("checked_div_rem_floor_vartime quotient", q, &w.qf)?;
    floor_rem("checked_div_rem_floor_vartime remainder", &r, &w, n_neg, &mut known)?;
    qopt("checked_div_floor_vartime", total("checked_div_floor_vartime", || n.checked_div_floor_vartime(&d))?, &w.qf)?;

    // ---- operators: Int / NonZero<Int> -> CtOption<Int>
    let divs = total("Int / NonZero<Int>", || [n / dnz, n / &dnz, &n / dnz, &n / &dnz])?;
    for (i, v) in divs.into_iter().enumerate() {
        qopt(["Int / NonZero<Int>", "Int / &NonZero<Int>", "&Int / NonZero<Int>", "&Int / &NonZero<Int>"][i], v, &w.qt)?;
    }
    qplain("Int /= NonZero<Int>", guard(|| { let mut x = n; x /= dnz; x }), &w.qt, Unrep::MustPanic)?;
    qplain("Int /= &NonZero<Int>", guard(|| { let mut x = n; x /= &dnz; x }), &w.qt, Unrep::MustPanic)?;
    let rems = total("Int % NonZero<Int>", || [n % dnz, n % &dnz, &n % dnz, &n % &dnz])?;
    for (i, v) in rems.iter().enumerate() {
        ieq(["Int % NonZero<Int>", "Int % &NonZero<Int>", "&Int % NonZero<Int>", "&Int % &NonZero<Int>"][i], v, &w.rt)?;
    }
    ieq("Int %= NonZero<Int>", &total("Int %= NonZero<Int>", || { let mut x = n; x %= dnz; x })?, &w.rt)?;
    ieq("Int %= &NonZero<Int>", &total("Int %= &NonZero<Int>", || { let mut x = n; x %= &dnz; x })?, &w.rt)?;

    // ---- operators: Wrapping<Int>
    let wn = Wrapping(n);
    let wforms: [(&str, Result<Wrapping<Int<L>>, String>); 6] = [
        ("Wrapping<Int> / NonZero<Int>", guard(|| wn / dnz)),
        ("Wrapping<Int> / &NonZero<Int>", guard(|| wn / &dnz)),
        ("&Wrapping<Int> / NonZero<Int>", guard(|| &wn / dnz)),
        ("&Wrapping<Int> / &NonZero<Int>", guard(|| &wn / &dnz)),
        ("Wrapping<Int> /= NonZero<Int>", guard(|| { let mut x = wn; x /= dnz; x })),
        ("Wrapping<Int> /= &NonZero<Int>", guard(|| { let mut x = wn; x /= &dnz; x })),
    ];
    for (name, res) in wforms {
        qplain(name, res.map(|x| x.0), &w.qt, Unrep::PanicOrWrap)?;
    }
    let wrems = total("Wrapping<Int> % NonZero<Int>", || {
        [wn % dnz, wn % &dnz, &wn % dnz, &wn % &dnz, { let mut x = wn; x %= dnz; x }, { let mut x = wn; x %= &dnz; x }]
    })?;
    for (i, v) in wrems.iter().enumerate() {
        ieq(
            ["Wrapping<Int> % NonZero<Int>", "Wrapping<Int> % &NonZero<Int>", "&Wrapping<Int> % NonZero<Int>", "&Wrapping<Int> % &NonZero<Int>", "Wrapping<Int> %= NonZero<Int>", "Wrapping<Int> %= &NonZero<Int>"][i],
            &v.0,
            &w.rt,
        )?;
    }
    finish(known)
}

// ------------------------------------------------------------------------------------------------
// signed divisor, mixed widths: the vartime forms

fn sdiv_mixed<const L: usize, const R: usize>(t: &mut Tape, c: &mut Case) -> CaseResult {
    let (nl, dl, kind) = gens::spair(t, L, R);
    c.limbs("n", &nl);
    c.limbs("d", &dl);
    c.label(gens::SKINDS[kind]);
    let (nb, db) = (sbig(&nl), sbig(&dl));
    let (n, d) = (int::<L>(&nl), int::<R>(&dl));
    if db.is_zero() {
        c.label("d = 0");
        is_none("checked_div_vartime(n, 0) mixed", total("checked_div_vartime by 0", || n.checked_div_vartime(&d))?)?;
        is_none("checked_div_floor_vartime(n, 0) mixed", total("checked_div_floor_vartime by 0", || n.checked_div_floor_vartime(&d))?)?;
        return Ok(());
    }
    let w = Want::new(&nb, &db);
    classify(c, &nb, &db, &w, L, R, true);
    let n_neg = nb.is_negative();
    let mut known: Option<Fail> = None;
    let dnz: NonZero<Int<R>> = match Option::from(d.to_nz()) {
        Some(x) => x,
        None => vfail!("Int::to_nz returned none for the non-zero value {db:#x}"),
    };

    let (q, r) = total("checked_div_rem_vartime", || n.checked_div_rem_vartime(&dnz))?;
    qopt("checked_div_rem_vartime quotient (mixed)", q, &w.qt)?;
    ieq("checked_div_rem_vartime remainder (mixed)", &r, &w.rt)?;
    qopt("checked_div_vartime (mixed)", total("checked_div_vartime", || n.checked_div_vartime(&d))?, &w.qt)?;
    ieq("rem_vartime (mixed)", &total("rem_vartime", || n.rem_vartime(&dnz))?, &w.rt)?;

    let (q, r) = total("checked_div_rem_floor_vartime", || n.checked_div_rem_floor_vartime(&dnz))?;
    qopt("checked_div_rem_floor_vartime quotient (mixed)", q, &w.qf)?;
    floor_rem("checked_div_rem_floor_vartime remainder (mixed)", &r, &w, n_neg, &mut known)?;
    qopt("checked_div_floor_vartime (mixed)", total("checked_div_floor_vartime", || n.checked_div_floor_vartime(&d))?, &w.qf)?;
    finish(known)
}

// ------------------------------------------------------------------------------------------------
// unsigned divisor, equal widths: every form

fn udiv_eq<const L: usize>(t: &mut Tape, c: &mut Case) -> CaseResult {
    let (nl, dl, kind) = gens::upair(t, L, L);
    c.limbs("n", &nl);
    c.limbs("d", &dl);
    c.label(gens::UKINDS[kind]);
    let (nb, db) = (sbig(&nl), pos(&dl));
    let (n, d) = (int::<L>(&nl), uint::<L>(&dl));
    let w = Want::new(&nb, &db);
    classify(c, &nb, &db, &w, L, L, false);
    // harness sanity: with an unsigned divisor of the same width everything is representable
    assert!(fits_signed(&w.qt, L) && fits_signed(&w.qf, L) && fits_signed(&w.rt, L) && !w.rf.is_negative());
    let mut known: Option<Fail> = None;
    let unz: NonZero<Uint<L>> = match Option::from(d.to_nz()) {
        Some(x) => x,
        None => vfail!("Uint::to_nz returned none for the non-zero value {db:#x}"),
    };

    // ---- truncating
    let (q, r) = total("div_rem_uint", || n.div_rem_uint(&unz))?;
    ieq("div_rem_uint quotient", &q, &w.qt)?;
    ieq("div_rem_uint remainder", &r, &w.rt)?;
    ieq("div_uint", &total("div_uint", || n.div_uint(&unz))?, &w.qt)?;
    ieq("rem_uint", &total("rem_uint", || n.rem_uint(&unz))?, &w.rt)?;
    let (q, r) = total("div_rem_uint_vartime", || n.div_rem_uint_vartime(&unz))?;
    ieq("div_rem_uint_vartime quotient", &q, &w.qt)?;
    trunc_rem_narrow("div_rem_uint_vartime remainder", &r, &w, &mut known)?;
    ieq("div_uint_vartime", &total("div_uint_vartime", || n.div_uint_vartime(&unz))?, &w.qt)?;
    trunc_rem_narrow("rem_uint_vartime", &total("rem_uint_vartime", || n.rem_uint_vartime(&unz))?, &w, &mut known)?;

    // ---- flooring / normalised
    let (q, r) = total("div_rem_floor_uint", || n.div_rem_floor_uint(&unz))?;
    ieq("div_rem_floor_uint quotient", &q, &w.qf)?;
    ueq("div_rem_floor_uint remainder", &r, &w.rf)?;
    ieq("div_floor_uint", &total("div_floor_uint", || n.div_floor_uint(&unz))?, &w.qf)?;
    ueq("normalized_rem", &total("normalized_rem", || n.normalized_rem(&unz))?, &w.rf)?;
    let (q, r) = total("div_rem_floor_uint_vartime", || n.div_rem_floor_uint_vartime(&unz))?;
    ieq("div_rem_floor_uint_vartime quotient", &q, &w.qf)?;
    ueq("div_rem_floor_uint_vartime remainder", &r, &w.rf)?;
    ieq("div_floor_uint_vartime", &total("div_floor_uint_vartime", || n.div_floor_uint_vartime(&unz))?, &w.qf)?;
    ueq("normalized_rem_vartime", &total("normalized_rem_vartime", || n.normalized_rem_vartime(&unz))?, &w.rf)?;

    // ---- operators on Int
    let divs = total("Int / NonZero<Uint>", || {
        [n / unz, n / &unz, &n / unz, &n / &unz, { let mut x = n; x /= unz; x }, { let mut x = n; x /= &unz; x }]
    })?;
    for (i, v) in divs.iter().enumerate() {
        ieq(["Int / NonZero<Uint>", "Int / &NonZero<Uint>", "&Int / NonZero<Uint>", "&Int / &NonZero<Uint>", "Int /= NonZero<Uint>", "Int /= &NonZero<Uint>"][i], v, &w.qt)?;
    }
    let rems = total("Int % NonZero<Uint>", || {
        [n % unz, n % &unz, &n % unz, &n % &unz, { let mut x = n; x %= unz; x }, { let mut x = n; x %= &unz; x }]
    })?;
    for (i, v) in rems.iter().enumerate() {
        ieq(["Int % NonZero<Uint>", "Int % &NonZero<Uint>", "&Int % NonZero<Uint>", "&Int % &NonZero<Uint>", "Int %= NonZero<Uint>", "Int %= &NonZero<Uint>"][i], v, &w.rt)?;
    }
    // ---- operators on Wrapping<Int>
    let wn = Wrapping(n);
    let divs = total("Wrapping<Int> / NonZero<Uint>", || {
        [wn / unz, wn / &unz, &wn / unz, &wn / &unz, { let mut x = wn; x /= unz; x }, { let mut x = wn; x /= &unz; x }]
    })?;
    for (i, v) in divs.iter().enumerate() {
        ieq(
            ["Wrapping<Int> / NonZero<Uint>", "Wrapping<Int> / &NonZero<Uint>", "&Wrapping<Int> / NonZero<Uint>", "&Wrapping<Int> / &NonZero<Uint>", "Wrapping<Int> /= NonZero<Uint>", "Wrapping<Int> /= &NonZero<Uint>"][i],
            &v.0,
            &w.qt,
        )?;
    }
    let rems = total("Wrapping<Int> % NonZero<Uint>", || {
        [wn % unz, wn % &unz, &wn % unz, &wn % &unz, { let mut x = wn; x %= unz; x }, { let mut x = wn; x %= &unz; x }]
    })?;
    for (i, v) in rems.iter().enumerate() {
        ieq(
            ["Wrapping<Int> % NonZero<Uint>", "Wrapping<Int> % &NonZero<Uint>", "&Wrapping<Int> % NonZero<Uint>", "&Wrapping<Int> % &NonZero<Uint>", "Wrapping<Int> %= NonZero<Uint>", "Wrapping<Int> %= &NonZero<Uint>"][i],
            &v.0,
            &w.rt,
        )?;
    }
    finish(known)
}

// ------------------------------------------------------------------------------------------------
// unsigned divisor, mixed widths: the vartime forms

fn udiv_mixed<const L: usize, const R: usize>(t: &mut Tape, c: &mut Case) -> CaseResult {
    let (nl, dl, kind) = gens::upair(t, L, R);
    c.limbs("n", &nl);
    c.limbs("d", &dl);
    c.label(gens::UKINDS[kind]);
    let (nb, db) = (sbig(&nl), pos(&dl));
    let (n, d) = (int::<L>(&nl), uint::<R>(&dl));
    let w = Want::new(&nb, &db);
    classify(c, &nb, &db, &w, L, R, false);
    assert!(fits_signed(&w.qt, L) && fits_signed(&w.qf, L) && !w.rf.is_negative());
    let mut known: Option<Fail> = None;
    let unz: NonZero<Uint<R>> = match Option::from(d.to_nz()) {
        Some(x) => x,
        None => vfail!("Uint::to_nz returned none for the non-zero value {db:#x}"),
    };

    let (q, r) = total("div_rem_uint_vartime", || n.div_rem_uint_vartime(&unz))?;
    ieq("div_rem_uint_vartime quotient (mixed)", &q, &w.qt)?;
    trunc_rem_narrow("div_rem_uint_vartime remainder (mixed)", &r, &w, &mut known)?;
    ieq("div_uint_vartime (mixed)", &total("div_uint_vartime", || n.div_uint_vartime(&unz))?, &w.qt)?;
    trunc_rem_narrow("rem_uint_vartime (mixed)", &total("rem_uint_vartime", || n.rem_uint_vartime(&unz))?, &w, &mut known)?;

    let (q, r) = total("div_rem_floor_uint_vartime", || n.div_rem_floor_uint_vartime(&unz))?;
    ieq("div_rem_floor_uint_vartime quotient (mixed)", &q, &w.qf)?;
    ueq("div_rem_floor_uint_vartime remainder (mixed)", &r, &w.rf)?;
    ieq("div_floor_uint_vartime (mixed)", &total("div_floor_uint_vartime", || n.div_floor_uint_vartime(&unz))?, &w.qf)?;
    ueq("normalized_rem_vartime (mixed)", &total("normalized_rem_vartime", || n.normalized_rem_vartime(&unz))?, &w.rf)?;
    finish(known)
}

// ------------------------------------------------------------------------------------------------

macro_rules! eq_widths {
    ($v:ident, $q:expr; $($n:literal),*) => { $(
        $v.push(SubCheck::new(format!("int-divisor/all-forms/I{}", 64*$n), $q, sdiv_eq::<$n>).tape(40 + 10 * $n).thorough(15));
        $v.push(SubCheck::new(format!("uint-divisor/all-forms/I{}", 64*$n), $q, udiv_eq::<$n>).tape(40 + 10 * $n).thorough(15));
    )* };
}
macro_rules! mixed_widths {
    ($v:ident, $q:expr; $(($l:literal, $r:literal)),*) => { $(
        $v.push(SubCheck::new(format!("int-divisor/vartime-mixed/I{}-by-I{}", 64*$l, 64*$r), $q, sdiv_mixed::<$l, $r>).tape(40 + 6 * ($l + $r)).thorough(15));
        $v.push(SubCheck::new(format!("uint-divisor/vartime-mixed/I{}-by-U{}", 64*$l, 64*$r), $q, udiv_mixed::<$l, $r>).tape(40 + 6 * ($l + $r)).thorough(15));
    )* };
}

fn subchecks(ctx: &Ctx) -> Vec<SubCheck> {
    let mut v = vec![];
    eq_widths!(v, 300000; 1, 2);
    eq_widths!(v, 200000; 4);
    eq_widths!(v, 120000; 8);
    mixed_widths!(v, 120000; (1, 2), (2, 1), (2, 4), (4, 2), (1, 4), (4, 1));
    mixed_widths!(v, 70000; (4, 8), (8, 4), (1, 8), (8, 1), (2, 8), (8, 2));
    // widths that are not a power of two are outside the property's quantifier (1,2,4,8) but cost
    // little; in the quick tier since the round-2 seeded change C14-D (ct shift ladder wrong only for
    // non-power-of-two widths, hence ct division at I192) was missed
    eq_widths!(v, 60000; 3);
    mixed_widths!(v, 30000; (3, 2), (2, 3));
    if ctx.thorough() {
        eq_widths!(v, 8000; 6, 16);
        mixed_widths!(v, 5000; (16, 8), (8, 16), (16, 1), (1, 16), (6, 3), (3, 6));
    }
    // API-surface audit (/verif/audit/A.md): forms, routes and widths reached only through a sibling before
    v.extend(surface::subchecks(ctx));
    v
}
