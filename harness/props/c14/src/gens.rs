//! Operand generators for signed division: (dividend, divisor) pairs in two's-complement limbs.
//!
//! Everything draws from the tape; index 0 of every weighted choice is the simplest shape (the
//! doc-example sized `8 / 3` family), so failing cases shrink towards it.

use num_bigint::{BigInt, BigUint, Sign};
use num_traits::{One, Signed, Zero};
use vmodel::gen;
use vmodel::*;

pub fn min_l(n: usize) -> Limbs {
    let mut v = vec![0u64; n];
    v[n - 1] = 1 << 63;
    v
}
pub fn max_l(n: usize) -> Limbs {
    let mut v = vec![u64::MAX; n];
    v[n - 1] = u64::MAX >> 1;
    v
}
pub fn minus_one_l(n: usize) -> Limbs {
    vec![u64::MAX; n]
}
pub fn int_l(x: i64, n: usize) -> Limbs {
    twos(&BigInt::from(x), n)
}

fn pos(x: BigUint) -> BigInt {
    BigInt::from_biguint(Sign::Plus, x)
}

/// An arbitrary signed value of `n` limbs (two's complement), edge-biased on both signs.
pub fn signed_val(t: &mut Tape, n: usize) -> Limbs {
    match t.weighted(&[2, 4, 4, 1, 1, 1, 1, 5]) {
        0 => {
            // small magnitude with either sign
            let m = match t.weighted(&[1, 1]) {
                0 => t.below(17),
                _ => gen::word(t),
            };
            let v = BigInt::from(m);
            twos(&if t.bool() { -v } else { v }, n)
        }
        1 => gen::limbs(t, n),
        2 => {
            // the negation of an edge-shaped value: -1, -2, -3, -2^k, -(2^k ± 1), -(small in wide type)
            let mut v = gen::limbs(t, n);
            gen::neg(&mut v);
            v
        }
        3 => min_l(n),
        4 => max_l(n),
        5 => minus_one_l(n),
        6 => {
            let mut v = min_l(n);
            gen::inc(&mut v);
            v
        }
        _ => gen::shape_u(t, n),
    }
}

pub fn signed_nonzero(t: &mut Tape, n: usize) -> Limbs {
    let mut v = signed_val(t, n);
    if is_zero(&v) {
        v[0] = 1;
    }
    v
}

/// An unsigned non-zero divisor of `n` limbs; values >= 2^(B-1) (not representable as a positive
/// `Int` of the same width) are over-weighted.
pub fn udiv_val(t: &mut Tape, n: usize) -> Limbs {
    let mut v = match t.weighted(&[3, 4, 3, 1, 1, 1, 1]) {
        0 => {
            let mut v = vec![0u64; n];
            v[0] = 1 + t.below(8);
            v
        }
        1 => gen::limbs(t, n),
        2 => {
            let mut v = gen::limbs(t, n);
            v[n - 1] |= 1 << 63;
            v
        }
        3 => min_l(n), // 2^(B-1)
        4 => vec![u64::MAX; n],
        5 => {
            let mut v = min_l(n);
            gen::inc(&mut v);
            v
        }
        _ => max_l(n), // 2^(B-1) - 1
    };
    if is_zero(&v) {
        v[0] = 1;
    }
    v
}

/// |n| <= cap where cap = 2^(64 l - 1) (the magnitude of MIN).
fn cap(l: usize) -> BigUint {
    pow2(64 * l as u64 - 1)
}

fn signed_from_mag(t: &mut Tape, mag: BigUint, l: usize, d_neg: bool) -> Limbs {
    let c = cap(l);
    let mag = if mag > c { c.clone() } else { mag };
    // n takes the sign opposite to d's with probability 5/8 (the half of the domain where the
    // conventions differ); +2^(B-1) is not representable, so that magnitude is always MIN
    let opposite = t.chance(5, 8);
    let neg = (opposite != d_neg) || mag == c;
    let v = pos(mag);
    twos(&if neg { -v } else { v }, l)
}

/// n := ±(q·D + r) with r ∈ {0, 1, D−1, ⌊D/2⌋, random < D} and q ∈ {0, 1, 2, qmax, qmax−1, 2^k, random},
/// clamped so that n fits `l` limbs.
pub fn construct_n(t: &mut Tape, l: usize, d_mag: &BigUint, d_neg: bool) -> Limbs {
    debug_assert!(!d_mag.is_zero());
    let c = cap(l);
    let qmax = &c / d_mag;
    let one = BigUint::one();
    let q = if qmax.is_zero() {
        BigUint::zero()
    } else {
        match t.weighted(&[2, 1, 1, 2, 2, 10]) {
            0 => one.clone(),
            1 => BigUint::zero(),
            2 => BigUint::from(2u32).min(qmax.clone()),
            3 => qmax.clone(),
            4 => &qmax - &one,
            _ => {
                if t.chance(1, 4) {
                    pow2(t.edgy(qmax.bits().saturating_sub(1)))
                } else {
                    gen::below_big(t, &(&qmax + &one))
                }
            }
        }
    };
    let r = match t.weighted(&[3, 1, 3, 1, 8]) {
        0 => BigUint::zero(),
        1 => one.clone().min(d_mag - &one),
        2 => d_mag - &one,
        3 => d_mag >> 1u32,
        _ => gen::below_big(t, d_mag),
    };
    let base = &q * d_mag;
    let room = &c - &base; // >= 0 because q <= qmax
    let r = if r > room { r % (&room + &one) } else { r };
    signed_from_mag(t, base + r, l, d_neg)
}

/// 0 <= |n| < D
fn below_mag(t: &mut Tape, l: usize, d_mag: &BigUint, d_neg: bool) -> Limbs {
    let one = BigUint::one();
    let m = match t.weighted(&[1, 3, 1, 6]) {
        0 => one.clone().min(d_mag - &one),
        1 => d_mag - &one,
        2 => d_mag >> 1u32,
        _ => gen::below_big(t, d_mag),
    };
    // keep |n| < D also after clamping to the dividend width
    let c = cap(l);
    let m = if m > c { c } else { m };
    signed_from_mag(t, m, l, d_neg)
}

fn related_n(t: &mut Tape, l: usize, d: &BigInt) -> Limbs {
    let k = BigInt::from(t.pick(&[1i32, -1, 2, -2, 3, -3]));
    let off = BigInt::from(t.pick(&[0i32, 1, -1]));
    // wraps when it does not fit: still a valid dividend, just less related
    twos(&(d * k + off), l)
}

pub const SKINDS: [&str; 10] = [
    "gen: small (doc-example sized)",
    "gen: constructed n = q*d + r",
    "gen: independent operands",
    "gen: |n| < |d|",
    "gen: d = +-1",
    "gen: n = MIN",
    "gen: d = MIN",
    "gen: MIN / -1",
    "gen: n related to d (+-k*d + {0,+-1})",
    "gen: d = 0",
];

/// (n, d, generator kind) with n of `l` limbs and a signed divisor of `r` limbs. d = 0 only for kind 9.
pub fn spair(t: &mut Tape, l: usize, r: usize) -> (Limbs, Limbs, usize) {
    let k = t.weighted(&[6, 40, 24, 16, 3, 3, 3, 1, 8, 2]);
    let (n, d) = match k {
        0 => {
            let n = t.below(201) as i64;
            let d = 1 + t.below(16) as i64;
            let n = if t.bool() { -n } else { n };
            let d = if t.bool() { -d } else { d };
            (int_l(n, l), int_l(d, r))
        }
        1 => {
            let d = signed_nonzero(t, r);
            let n = construct_n(t, l, sbig(&d).magnitude(), sbig(&d).is_negative());
            (n, d)
        }
        2 => (signed_val(t, l), signed_nonzero(t, r)),
        3 => {
            let d = signed_nonzero(t, r);
            let n = below_mag(t, l, sbig(&d).magnitude(), sbig(&d).is_negative());
            (n, d)
        }
        4 => {
            let d = if t.bool() { minus_one_l(r) } else { int_l(1, r) };
            (signed_val(t, l), d)
        }
        5 => {
            let d = match t.weighted(&[3, 1, 1, 1, 1, 1, 1]) {
                0 => signed_nonzero(t, r),
                1 => int_l(1, r),
                2 => int_l(2, r),
                3 => int_l(-2, r),
                4 => min_l(r),
                5 => max_l(r),
                _ => int_l(3, r),
            };
            (min_l(l), d)
        }
        6 => {
            let d = min_l(r);
            let n = match t.weighted(&[3, 2, 2, 2]) {
                0 => signed_val(t, l),
                1 => construct_n(t, l, sbig(&d).magnitude(), true),
                2 => related_n(t, l, &sbig(&d)),
                _ => max_l(l),
            };
            (n, d)
        }
        7 => (min_l(l), minus_one_l(r)),
        8 => {
            let d = signed_nonzero(t, r);
            let n = related_n(t, l, &sbig(&d));
            (n, d)
        }
        _ => (signed_val(t, l), vec![0u64; r]),
    };
    debug_assert!(k == 9 || !is_zero(&d));
    (n, d, k)
}

pub const UKINDS: [&str; 8] = [
    "gen: small (doc-example sized)",
    "gen: constructed n = q*d + r",
    "gen: independent operands",
    "gen: |n| < d",
    "gen: d = 1",
    "gen: n = MIN",
    "gen: unsigned d >= 2^(B-1), constructed n",
    "gen: n related to d (+-k*d + {0,+-1})",
];

/// (n, d, generator kind) with n a signed value of `l` limbs and d a non-zero unsigned value of `r` limbs.
pub fn upair(t: &mut Tape, l: usize, r: usize) -> (Limbs, Limbs, usize) {
    let k = t.weighted(&[6, 40, 24, 16, 2, 3, 24, 8]);
    let (n, d) = match k {
        0 => {
            let n = t.below(201) as i64;
            let d = 1 + t.below(16) as i64;
            (int_l(if t.bool() { -n } else { n }, l), int_l(d, r))
        }
        1 => {
            let d = udiv_val(t, r);
            (construct_n(t, l, &big(&d), false), d)
        }
        2 => (signed_val(t, l), udiv_val(t, r)),
        3 => {
            let d = udiv_val(t, r);
            (below_mag(t, l, &big(&d), false), d)
        }
        4 => (signed_val(t, l), int_l(1, r)),
        5 => {
            let d = match t.weighted(&[3, 1, 1, 1, 1, 1]) {
                0 => udiv_val(t, r),
                1 => int_l(1, r),
                2 => int_l(2, r),
                3 => min_l(r),
                4 => vec![u64::MAX; r],
                _ => int_l(3, r),
            };
            (min_l(l), d)
        }
        6 => {
            let mut d = gen::limbs(t, r);
            d[r - 1] |= 1 << 63;
            (construct_n(t, l, &big(&d), false), d)
        }
        _ => {
            let d = udiv_val(t, r);
            let n = related_n(t, l, &pos(big(&d)));
            (n, d)
        }
    };
    debug_assert!(!is_zero(&d));
    (n, d, k)
}

#[allow(dead_code)]
pub fn is_neg(x: &BigInt) -> bool {
    x.is_negative()
}
