fn main() {
    vmodel::cli_main(c14::spec())
}
