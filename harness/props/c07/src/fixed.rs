//! Fixed-width (`Uint<N>`) sub-checks of C07.

use crate::cgen::*;
use crypto_bigint::modular::{ConstMontyForm, ConstMontyParams, MontyForm, MontyParams};
use crypto_bigint::{AddMod, Concat, Limb, Monty, MulMod, NegMod, NonZero, Odd, Split, SubMod, Uint};
use num_bigint::BigUint;
use vmodel::*;

/// run one operation (a panic is a failure: all inputs are inside the documented preconditions)
/// and compare its limbs with the oracle value
macro_rules! chk {
    ($n:expr, $name:expr, $op:expr, $want:expr) => {{
        let got = total($name, || $op)?;
        veq!(ul(&got), limbs_of($want, $n), "{} (U{})", $name, 64 * $n);
    }};
}

fn u<const N: usize>(x: &BigUint) -> Uint<N> {
    uint::<N>(&limbs_exact(x, N))
}

/// add / sub / neg / double, inherent and trait forms, any modulus p >= 1, a, b < p.
pub fn check_linear<const N: usize>(a: &BigUint, b: &BigUint, p: &BigUint) -> CaseResult {
    let w = lin(a, b, p);
    let (ua, ub, up) = (u::<N>(a), u::<N>(b), u::<N>(p));
    chk!(N, "Uint::add_mod(a,b)", ua.add_mod(&ub, &up), &w.add);
    chk!(N, "Uint::add_mod(b,a)", ub.add_mod(&ua, &up), &w.add);
    chk!(N, "AddMod::add_mod(a,b)", AddMod::add_mod(&ua, &ub, &up), &w.add);
    chk!(N, "Uint::sub_mod(a,b)", ua.sub_mod(&ub, &up), &w.sub_ab);
    chk!(N, "Uint::sub_mod(b,a)", ub.sub_mod(&ua, &up), &w.sub_ba);
    chk!(N, "SubMod::sub_mod(a,b)", SubMod::sub_mod(&ua, &ub, &up), &w.sub_ab);
    chk!(N, "SubMod::sub_mod(b,a)", SubMod::sub_mod(&ub, &ua, &up), &w.sub_ba);
    chk!(N, "Uint::neg_mod(a)", ua.neg_mod(&up), &w.neg_a);
    chk!(N, "Uint::neg_mod(b)", ub.neg_mod(&up), &w.neg_b);
    chk!(N, "NegMod::neg_mod(a)", NegMod::neg_mod(&ua, &up), &w.neg_a);
    chk!(N, "NegMod::neg_mod(b)", NegMod::neg_mod(&ub, &up), &w.neg_b);
    chk!(N, "Uint::double_mod(a)", ua.double_mod(&up), &w.dbl_a);
    chk!(N, "Uint::double_mod(b)", ub.double_mod(&up), &w.dbl_b);
    chk!(N, "Uint::add_mod(a,a)", ua.add_mod(&ua, &up), &w.dbl_a);
    chk!(N, "Uint::sub_mod(a,a)", ua.sub_mod(&ua, &up), &BigUint::default());
    Ok(())
}

/// `mul_mod_special` with the exact F-07 signature matcher.
fn special_mul<const N: usize>(name: &str, x: &BigUint, y: &BigUint, cw: u64, p: &BigUint) -> CaseResult {
    let (ux, uy) = (u::<N>(x), u::<N>(y));
    let want = limbs_of(&((x * y) % p), N);
    match guard(|| ux.mul_mod_special(&uy, Limb(cw))) {
        Ok(got) => {
            let got = ul(&got);
            if got != want {
                if let Some(wrong) = f07_wrong(x, y, cw, N) {
                    if PROFILE == "rel" && got == limbs_of(&wrong, N) {
                        return Err(Fail::known(
                            "F-07",
                            format!("{name} (U{}), c = Limb::MAX, reduction carry = MAX: got {}, want {} ((carry + 1) wrapped to 0)", 64 * N, hex(&got), hex(&want)),
                        ));
                    }
                }
                vfail!("{name} (U{}): got {}, want {}", 64 * N, hex(&got), hex(&want));
            }
        }
        Err(m) => {
            if PROFILE == "dbg" && f07_wrong(x, y, cw, N).is_some() && m.contains("attempt to add with overflow") {
                return Err(Fail::known("F-07", format!("{name} (U{}), c = Limb::MAX, reduction carry = MAX: panic: {m}", 64 * N)));
            }
            vfail!("{name} (U{}): unexpected panic: {m}", 64 * N);
        }
    }
    Ok(())
}

/// all special-modulus forms for p = 2^B - cw
pub fn check_special<const N: usize>(a: &BigUint, b: &BigUint, p: &BigUint, cw: u64) -> CaseResult {
    let w = lin(a, b, p);
    let (ua, ub) = (u::<N>(a), u::<N>(b));
    let c = Limb(cw);
    chk!(N, "Uint::add_mod_special(a,b)", ua.add_mod_special(&ub, c), &w.add);
    chk!(N, "Uint::add_mod_special(b,a)", ub.add_mod_special(&ua, c), &w.add);
    chk!(N, "Uint::add_mod_special(a,a)", ua.add_mod_special(&ua, c), &w.dbl_a);
    chk!(N, "Uint::add_mod_special(b,b)", ub.add_mod_special(&ub, c), &w.dbl_b);
    chk!(N, "Uint::sub_mod_special(a,b)", ua.sub_mod_special(&ub, c), &w.sub_ab);
    chk!(N, "Uint::sub_mod_special(b,a)", ub.sub_mod_special(&ua, c), &w.sub_ba);
    chk!(N, "Uint::sub_mod_special(a,a)", ua.sub_mod_special(&ua, c), &BigUint::default());
    chk!(N, "Uint::neg_mod_special(a)", ua.neg_mod_special(c), &w.neg_a);
    chk!(N, "Uint::neg_mod_special(b)", ub.neg_mod_special(c), &w.neg_b);
    special_mul::<N>("Uint::mul_mod_special(a,b)", a, b, cw, p)?;
    special_mul::<N>("Uint::mul_mod_special(b,a)", b, a, cw, p)?;
    special_mul::<N>("Uint::mul_mod_special(a,a)", a, a, cw, p)?;
    special_mul::<N>("Uint::mul_mod_special(b,b)", b, b, cw, p)?;
    Ok(())
}

/// mul_mod / mul_mod_vartime / MulMod for odd p
pub fn check_mul<const N: usize, const W: usize>(a: &BigUint, b: &BigUint, p: &BigUint) -> CaseResult
where
    Uint<N>: Concat<Output = Uint<W>>,
    Uint<W>: Split<Output = Uint<N>>,
{
    let (ua, ub, up) = (u::<N>(a), u::<N>(b), u::<N>(p));
    let nz = NonZero::new(up).unwrap();
    let ab = (a * b) % p;
    let aa = (a * a) % p;
    let bb = (b * b) % p;
    chk!(N, "Uint::mul_mod(a,b)", ua.mul_mod(&ub, &nz), &ab);
    chk!(N, "Uint::mul_mod(b,a)", ub.mul_mod(&ua, &nz), &ab);
    chk!(N, "Uint::mul_mod(a,a)", ua.mul_mod(&ua, &nz), &aa);
    chk!(N, "Uint::mul_mod_vartime(a,b)", ua.mul_mod_vartime(&ub, &nz), &ab);
    chk!(N, "Uint::mul_mod_vartime(b,a)", ub.mul_mod_vartime(&ua, &nz), &ab);
    chk!(N, "Uint::mul_mod_vartime(a,a)", ua.mul_mod_vartime(&ua, &nz), &aa);
    chk!(N, "Uint::mul_mod_vartime(b,b)", ub.mul_mod_vartime(&ub, &nz), &bb);
    chk!(N, "MulMod::mul_mod(a,b)", MulMod::mul_mod(&ua, &ub, &up), &ab);
    chk!(N, "MulMod::mul_mod(b,b)", MulMod::mul_mod(&ub, &ub, &up), &bb);
    Ok(())
}

/// halving through the dynamic Montgomery form (modular/div_by_2.rs), odd p
pub fn check_halve<const N: usize, const W: usize>(a: &BigUint, b: &BigUint, p: &BigUint, vartime_params: bool) -> CaseResult
where
    Uint<N>: Concat<Output = Uint<W>>,
    Uint<W>: Split<Output = Uint<N>>,
{
    let up = u::<N>(p);
    let odd = Odd::new(up).unwrap();
    let params = if vartime_params {
        // alternate between the inherent and the trait constructor (both "vartime in the modulus")
        if p.bit(1) {
            total("MontyParams::new_vartime", || MontyParams::<N>::new_vartime(odd))?
        } else {
            total("Monty::new_params_vartime", || <MontyForm<N> as Monty>::new_params_vartime(odd))?
        }
    } else {
        total("MontyParams::new", || MontyParams::<N>::new(odd))?
    };
    for (nm, x) in [("a", a), ("b", b)] {
        let ux = u::<N>(x);
        let h = halve(x, p);
        // directly on the stored residue: the stored value x stands for x * R^-1, and halving it
        // must give the canonical residue h with h + h = x (mod p)
        let m = MontyForm::from_montgomery(ux, params);
        let r = total("MontyForm::div_by_2", || m.div_by_2())?;
        veq!(ul(&r.to_montgomery()), limbs_of(&h, N), "MontyForm::from_montgomery({nm}).div_by_2().to_montgomery() (U{})", 64 * N);
        veq!(ul(r.as_montgomery()), limbs_of(&h, N), "MontyForm::from_montgomery({nm}).div_by_2().as_montgomery() (U{})", 64 * N);
        // documented contract: returns x such that x + x = self
        vensure!(r.double() == m, "MontyForm: div_by_2({nm}).double() != {nm} (U{})", 64 * N);
        vensure!(&r + &r == m, "MontyForm: div_by_2({nm}) + div_by_2({nm}) != {nm} (U{})", 64 * N);
        // trait forms
        let r2 = total("Monty::div_by_2", || Monty::div_by_2(&m))?;
        veq!(ul(&r2.to_montgomery()), limbs_of(&h, N), "Monty::div_by_2 on from_montgomery({nm}) (U{})", 64 * N);
        let mut r3 = m;
        total("Monty::div_by_2_assign", || Monty::div_by_2_assign(&mut r3))?;
        veq!(ul(&r3.to_montgomery()), limbs_of(&h, N), "Monty::div_by_2_assign on from_montgomery({nm}) (U{})", 64 * N);
        // through conversion: new(x).div_by_2().retrieve() = x / 2 mod p
        let mx = total("MontyForm::new", || MontyForm::new(&ux, params))?;
        let hx = total("MontyForm::div_by_2", || mx.div_by_2())?;
        chk!(N, "MontyForm::new(x).div_by_2().retrieve()", hx.retrieve(), &h);
        vensure!(hx.double() == mx, "MontyForm::new({nm}).div_by_2().double() != new({nm}) (U{})", 64 * N);
        let mut my = <MontyForm<N> as Monty>::new(ux, params);
        Monty::div_by_2_assign(&mut my);
        chk!(N, "Monty::new(x) div_by_2_assign retrieve", my.retrieve(), &h);
    }
    Ok(())
}

// ------------------------------------------------------------------------------------------------
// case functions

fn record(c: &mut Case, a: &BigUint, b: &BigUint, p: &BigUint, n: usize) {
    c.limbs("p", &limbs_exact(p, n));
    c.limbs("a", &limbs_exact(a, n));
    c.limbs("b", &limbs_exact(b, n));
}

/// add/sub/neg/double for any modulus (even ones too)
pub fn linear_case<const N: usize>(t: &mut Tape, c: &mut Case) -> CaseResult {
    let p = modulus(t, N, false);
    let (a, b) = pair(t, &p, N);
    record(c, &a, &b, &p, N);
    label_modulus(c, &p, N);
    let nt = label_pair(c, &a, &b, &p, N);
    c.nontrivial(nt);
    check_linear::<N>(&a, &b, &p)?;
    if let Some(cw) = special_of(&p, N) {
        // the generic modulus happens to be of the special form: the special forms must agree
        label_c(c, cw);
        c.nontrivial(cw >= 1 << 63);
        check_special::<N>(&a, &b, &p, cw)?;
    }
    Ok(())
}

/// special-modulus forms, p = 2^B - c
pub fn special_case<const N: usize>(t: &mut Tape, c: &mut Case) -> CaseResult {
    let cw = special_c(t);
    let p = pow2(64 * N as u64) - bu(cw);
    let (a, b) = pair(t, &p, N);
    c.num("c", cw);
    record(c, &a, &b, &p, N);
    label_modulus(c, &p, N);
    label_c(c, cw);
    label_special_mul(c, &a, &b, cw, N);
    let nt = label_pair(c, &a, &b, &p, N);
    c.nontrivial(nt || cw >= 1 << 63);
    check_special::<N>(&a, &b, &p, cw)?;
    check_linear::<N>(&a, &b, &p)?;
    Ok(())
}

/// multiplication forms and halving, odd p
pub fn mul_case<const N: usize, const W: usize>(t: &mut Tape, c: &mut Case) -> CaseResult
where
    Uint<N>: Concat<Output = Uint<W>>,
    Uint<W>: Split<Output = Uint<N>>,
{
    let p = modulus(t, N, true);
    let (a, b) = pair(t, &p, N);
    let vt = t.bool();
    record(c, &a, &b, &p, N);
    c.num("params_vartime", vt as u64);
    label_modulus(c, &p, N);
    let bits = 64 * N as u64;
    let nt = label_pair(c, &a, &b, &p, N);
    let big_prod = (&a * &b).bits() > bits;
    if big_prod {
        c.label("a*b>=2^B");
    }
    if &a * &b < p {
        c.label("a*b<p (no reduction)");
    }
    let mut carry_in = false;
    for x in [&a, &b] {
        if x.bit(0) {
            c.label("halve: odd operand");
            if (x + &p).bits() > bits {
                c.label("halve: odd operand and x+p>=2^B (carry re-inserted)");
                carry_in = true;
            }
        }
    }
    c.nontrivial(nt || big_prod || carry_in);
    check_mul::<N, W>(&a, &b, &p)?;
    check_halve::<N, W>(&a, &b, &p, vt)?;
    check_linear::<N>(&a, &b, &p)?;
    if let Some(cw) = special_of(&p, N) {
        label_c(c, cw);
        label_special_mul(c, &a, &b, cw, N);
        c.nontrivial(cw >= 1 << 63);
        check_special::<N>(&a, &b, &p, cw)?;
    }
    Ok(())
}

// ------------------------------------------------------------------------------------------------
// ConstMontyForm halving: compile-time moduli

pub mod cm {
    use crypto_bigint::{impl_modulus, U1024, U128, U192, U256, U384, U64};
    impl_modulus!(M64x3, U64, "0000000000000003");
    impl_modulus!(M64Max, U64, "ffffffffffffffff");
    impl_modulus!(M64Half, U64, "8000000000000001");
    impl_modulus!(M128One, U128, "00000000000000000000000000000001");
    impl_modulus!(M128Max, U128, "ffffffffffffffffffffffffffffffff");
    impl_modulus!(M192P, U192, "fffffffffffffffffffffffffffffffeffffffffffffffff");
    impl_modulus!(M256N, U256, "ffffffff00000000ffffffffffffffffbce6faada7179e84f3b9cac2fc632551");
    impl_modulus!(M256Half, U256, "8000000000000000000000000000000000000000000000000000000000000001");
    impl_modulus!(
        M384Small,
        U384,
        "00000000000000000000000000000000000000000000000000000000000000000000000000000001ffffffffffffffff"
    );
    impl_modulus!(
        M1024Top,
        U1024,
        "ffffffffffffffffffffffffffffffffffffffffffffffffffffffffffffffffffffffffffffffffffffffffffffffffffffffffffffffffffffffffffffffffffffffffffffffffffffffffffffffffffffffffffffffffffffffffffffffffffffffffffffffffffffffffffffffffffffffffffffffffffffffffffffff61"
    );
}

/// halving through `ConstMontyForm<M, N>`
pub fn const_halve_case<M: ConstMontyParams<N>, const N: usize>(t: &mut Tape, c: &mut Case) -> CaseResult {
    let p = ubig(M::MODULUS.as_ref());
    let (a, b) = pair(t, &p, N);
    record(c, &a, &b, &p, N);
    label_modulus(c, &p, N);
    let nt = label_pair(c, &a, &b, &p, N);
    let bits = 64 * N as u64;
    let mut carry_in = false;
    for (nm, x) in [("a", &a), ("b", &b)] {
        if x.bit(0) {
            c.label("halve: odd operand");
            if (x + &p).bits() > bits {
                c.label("halve: odd operand and x+p>=2^B (carry re-inserted)");
                carry_in = true;
            }
        }
        let ux = u::<N>(x);
        let h = halve(x, &p);
        let m = ConstMontyForm::<M, N>::from_montgomery(ux);
        let r = total("ConstMontyForm::div_by_2", || m.div_by_2())?;
        veq!(ul(&r.to_montgomery()), limbs_of(&h, N), "ConstMontyForm::from_montgomery({nm}).div_by_2().to_montgomery() (U{})", 64 * N);
        vensure!(r.double() == m, "ConstMontyForm: div_by_2({nm}).double() != {nm} (U{})", 64 * N);
        vensure!(r + r == m, "ConstMontyForm: div_by_2({nm}) + div_by_2({nm}) != {nm} (U{})", 64 * N);
        let mx = ConstMontyForm::<M, N>::new(&ux);
        let hx = total("ConstMontyForm::div_by_2", || mx.div_by_2())?;
        chk!(N, "ConstMontyForm::new(x).div_by_2().retrieve()", hx.retrieve(), &h);
        vensure!(hx.double() == mx, "ConstMontyForm::new({nm}).div_by_2().double() != new({nm}) (U{})", 64 * N);
    }
    c.nontrivial(nt || carry_in);
    Ok(())
}
