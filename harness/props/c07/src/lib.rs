//! C07 — modular add / sub / neg / double / mul / halve return the canonical residue.
//!
//! Oracle: `num_bigint::BigUint` `(a ∘ b) mod p` (halving: the unique h < p with 2h ≡ a), compared
//! limb for limb, which also asserts `result < p`. Only documented preconditions are generated:
//! `a, b < p` (built as `x mod p`), `p ≥ 1`, odd `p` for every multiplication form and for halving,
//! `p = 2^BITS − c` with `1 ≤ c ≤ Limb::MAX` for the special-modulus forms, equal precisions for boxed
//! operands. Even moduli are generated for add / sub / neg / double only (no oddness is documented
//! there); `MulMod`/`mul_mod_vartime` are only exercised with odd `p` because `mul_mod_vartime` is
//! documented "for odd p" and the boxed `mul_mod` panics on even `p` by documentation.

pub mod boxedc;
pub mod cgen;
mod zdiv;
pub mod fixed;
pub mod surface;

use vmodel::*;

pub fn spec() -> PropSpec {
    PropSpec {
        id: "C07",
        rule: "cases: a modulus p from the classes {1, 2, 3, 2^B-1, 2^(B-1), 2^(B-1)±1, MAX-1, ~2^B/3, small primes, zero high limbs, 2^B-c (c in {1,2,3,2^32,2^63(±1),MAX-1,MAX,primes,edge words,uniform}), top-limb edge, patterned/random, uniform with top bit set} (forced odd for mul/halve sub-checks) and a residue pair a,b<p built as x mod p from {0,1,p-1,floor/ceil(p/2),p-2,random} x itself, a=b, a+b=p, a+b=p±1, patterned value + related value (±1, !, -, >>1, <<1), both operands p-1-small (sums that overflow 2^B), a=p-1 with patterned b, a=0; every form of the width (inherent, trait, by either operand order, squares/doubles, special-modulus forms whenever p=2^B-c with one-limb c, Monty/ConstMonty/BoxedMonty div_by_2) is checked against the BigUint residue. non-trivial: a+b >= 2^B (the unreduced sum overflows the width), or a+b == p, or a negated operand is 0, or p has at least one zero high limb (width >= 2 limbs), or a special-modulus form runs with c >= 2^63; additionally, in mul/halve sub-checks: a*b >= 2^B, or a halved operand x is odd with x+p >= 2^B (carry re-inserted). distinct by (width, [c,] p, a, b[, params constructor]). surface/* sub-checks (API-surface audit): the same generators, oracle and rule at 5 and 7 limbs, through generic functions bounded by the traits, and for the documented panic of Uint::mul_mod / BoxedUint::mul_mod on an even p (every documented-panic case counts as non-trivial).",
        assumptions: vec![
            "num-bigint add / mul / rem are correct (independent implementation)".into(),
            "bridging uses from_words / as_words only".into(),
            "multiplication forms and halving are only exercised with odd p (documented domain); special forms only with 1 <= c <= Limb::MAX".into(),
            "boxed results are compared by value (their precision is C15's subject)".into(),
        ],
        subchecks,
    }
}

macro_rules! fixed_lin {
    ($v:ident, $q:expr, $qs:expr; $($n:literal),*) => { $(
        $v.push(SubCheck::new(format!("fixed/linear/U{}", 64*$n), $q, fixed::linear_case::<$n>).tape(64 + 6 * $n).thorough(10));
        $v.push(SubCheck::new(format!("fixed/special/U{}", 64*$n), $qs, fixed::special_case::<$n>).tape(64 + 6 * $n).thorough(10));
    )* };
}
macro_rules! fixed_mul {
    ($v:ident, $q:expr; $(($n:literal, $w:literal)),*) => { $(
        $v.push(SubCheck::new(format!("fixed/mul+halve/U{}", 64*$n), $q, fixed::mul_case::<$n, $w>).tape(64 + 6 * $n).thorough(10));
    )* };
}
macro_rules! const_halve {
    ($v:ident, $q:expr; $(($m:ident, $n:literal)),*) => { $(
        $v.push(SubCheck::new(format!("const/halve/{}", stringify!($m)), $q, fixed::const_halve_case::<fixed::cm::$m, $n>).tape(64 + 6 * $n).thorough(10));
    )* };
}

fn subchecks(_ctx: &Ctx) -> Vec<SubCheck> {
    let mut v = vec![];
    fixed_lin!(v, 400000, 300000; 1, 2, 3, 4);
    fixed_lin!(v, 250000, 200000; 6, 8);
    fixed_lin!(v, 150000, 120000; 12, 16);
    fixed_mul!(v, 200000; (1, 2), (2, 4), (3, 6), (4, 8));
    fixed_mul!(v, 100000; (6, 12), (8, 16));
    fixed_mul!(v, 50000; (12, 24), (16, 32));
    // compile-time moduli; the two tiny ones only have 9 / 1 distinct residue pairs
    const_halve!(v, 300; (M64x3, 1), (M128One, 2));
    const_halve!(v, 25000; (M64Max, 1), (M64Half, 1), (M128Max, 2), (M192P, 3), (M256N, 4), (M256Half, 4), (M384Small, 6), (M1024Top, 16));
    v.push(SubCheck::new("boxed/linear/1..=20", 600000, boxedc::linear_case).tape(200).thorough(10));
    v.push(SubCheck::new("boxed/special/1..=20", 600000, boxedc::special_case).tape(200).thorough(10));
    v.push(SubCheck::new("boxed/mul+halve/1..=20", 400000, boxedc::mul_case).tape(200).thorough(10));
    v.extend(zdiv::subchecks());
    // API-surface audit (/verif/audit/E.md): appended last so that existing sub-check indices stay stable
    v.extend(surface::subchecks());
    v
}
