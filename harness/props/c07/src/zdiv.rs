//! Modular multiplication on ZERO DIVISORS of composite moduli, near the modulus (added after the
//! round-2 seeded change C07-C, which made `BoxedUint::mul_mod` return `p` instead of 0 only when the
//! unreduced Montgomery product is exactly 2p: composite p with one leading zero bit, a·b ≡ 0 (mod p),
//! a and b close to p). The generic residue generators never produce zero divisors of large
//! composites, so this sub-check constructs them: p = f·g, a a multiple of f, b a multiple of g.
//!
//! Oracle: (a·b) mod p in BigUint (0 for the constructed pairs, arbitrary for the control pairs) and
//! result < p. Non-trivial: a, b != 0 and a·b ≡ 0 (mod p).
use crypto_bigint::{BoxedUint, Concat, MulMod, NonZero, Split, Uint};
use num_bigint::BigUint;
use num_traits::{One, Zero};
use vmodel::gen;
use vmodel::*;

/// (p, a, b) with p = f·g odd composite in n limbs, a multiple of f, b multiple of g, both < p
fn triple(t: &mut Tape, n: usize, c: &mut Case) -> (BigUint, BigUint, BigUint) {
    let bits = 64 * n as u64;
    // target magnitude of p: mostly [0.47, 0.5)·2^B (exactly one leading zero bit), else anywhere
    let target: BigUint = match t.weighted(&[6, 2, 2]) {
        0 => {
            c.label("p in [0.47R, 0.5R)");
            let lo = (pow2(bits) * BigUint::from(47u32)) / BigUint::from(100u32);
            let span = (pow2(bits) * BigUint::from(3u32)) / BigUint::from(100u32);
            lo + gen::below_big(t, &span)
        }
        1 => {
            c.label("p in [0.5R, R)");
            pow2(bits - 1) + gen::below_big(t, &pow2(bits - 1))
        }
        _ => {
            c.label("p anywhere");
            big(&gen::limbs(t, n)) | BigUint::from(9u32)
        }
    };
    // small odd factor f (>= 3), cofactor g = target / f (odd)
    let f: BigUint = match t.weighted(&[4, 2, 3]) {
        0 => BigUint::from(t.pick(&[3u64, 5, 7, 9, 15, 17, 255, 257, 65535, 65537])),
        1 => (BigUint::one() << t.range(2, (bits / 2).max(3))) + BigUint::one(),
        _ => {
            let fb = t.range(2, (bits / 2).max(3));
            (gen::below_big(t, &pow2(fb)) | BigUint::from(3u32)).max(BigUint::from(3u32))
        }
    };
    let mut g = (&target / &f) | BigUint::one();
    if g < BigUint::from(3u32) {
        g = BigUint::from(3u32);
    }
    let mut p = &f * &g;
    while p.bits() > bits {
        g -= BigUint::from(2u32);
        p = &f * &g;
    }
    // zero divisors close to p (small i, j) or anywhere
    let i = match t.weighted(&[5, 2]) {
        0 => BigUint::from(t.range(1, 40)),
        _ => gen::below_big(t, &g),
    };
    let j = match t.weighted(&[5, 2]) {
        0 => BigUint::from(t.range(1, 40)),
        _ => gen::below_big(t, &f),
    };
    let a = (&p - (&f * &i) % &p) % &p; // multiple of f
    let b = (&p - (&g * &j) % &p) % &p; // multiple of g
    (p, a, b)
}

pub fn boxed_case(max: usize) -> impl Fn(&mut Tape, &mut Case) -> CaseResult {
    move |t, c| {
        let n = t.usize_in(1, max);
        let (p, a, b) = triple(t, n, c);
        let (pl, al, bl_) = (limbs_exact(&p, n), limbs_exact(&a, n), limbs_exact(&b, n));
        c.limbs("p", &pl);
        c.limbs("a", &al);
        c.limbs("b", &bl_);
        let want = (&a * &b) % &p;
        c.nontrivial(!a.is_zero() && !b.is_zero() && want.is_zero());
        let (bp, ba, bb) = (boxed(&pl), boxed(&al), boxed(&bl_));
        let r = total("BoxedUint::mul_mod", || ba.mul_mod(&bb, &bp))?;
        vensure!(bbig(&r) == want, "BoxedUint::mul_mod ({n} limbs): got {}, want {} (p = {})", hex(r.as_words()), hex(&limbs_of(&want, n)), hex(&pl));
        let r = total("MulMod for BoxedUint", || MulMod::mul_mod(&ba, &bb, &bp))?;
        vensure!(bbig(&r) == want, "<BoxedUint as MulMod>::mul_mod ({n} limbs): got {}, want {} (p = {})", hex(r.as_words()), hex(&limbs_of(&want, n)), hex(&pl));
        let r = total("BoxedUint::mul_mod commuted", || bb.mul_mod(&ba, &bp))?;
        vensure!(bbig(&r) == want, "BoxedUint::mul_mod commuted ({n} limbs): got {}, want {}", hex(r.as_words()), hex(&limbs_of(&want, n)));
        // squares of zero divisors of p = f^2 * g' are covered by a = b when f | g
        let sq = (&a * &a) % &p;
        let r = total("BoxedUint::mul_mod(a, a)", || ba.mul_mod(&ba, &bp))?;
        vensure!(bbig(&r) == sq, "BoxedUint::mul_mod(a, a) ({n} limbs): got {}, want {}", hex(r.as_words()), hex(&limbs_of(&sq, n)));
        Ok(())
    }
}

pub fn fixed_case<const N: usize, const W: usize>(t: &mut Tape, c: &mut Case) -> CaseResult
where
    Uint<N>: Concat<Output = Uint<W>>,
    Uint<W>: Split<Output = Uint<N>>,
{
    let (p, a, b) = triple(t, N, c);
    let (pl, al, bl_) = (limbs_exact(&p, N), limbs_exact(&a, N), limbs_exact(&b, N));
    c.limbs("p", &pl);
    c.limbs("a", &al);
    c.limbs("b", &bl_);
    let want = limbs_of(&((&a * &b) % &p), N);
    c.nontrivial(!a.is_zero() && !b.is_zero() && is_zero(&want));
    let (up, ua, ub) = (uint::<N>(&pl), uint::<N>(&al), uint::<N>(&bl_));
    let nz = NonZero::new(up).unwrap();
    veq!(ul(&total("Uint::mul_mod", || ua.mul_mod(&ub, &nz))?), want, "Uint::mul_mod (U{})", 64 * N);
    veq!(ul(&total("Uint::mul_mod_vartime", || ua.mul_mod_vartime(&ub, &nz))?), want, "Uint::mul_mod_vartime (U{})", 64 * N);
    veq!(ul(&total("MulMod for Uint", || MulMod::mul_mod(&ua, &ub, &up))?), want, "<Uint as MulMod>::mul_mod (U{})", 64 * N);
    let bx = BoxedUint::from_words(al.iter().copied()).mul_mod(&BoxedUint::from_words(bl_.iter().copied()), &BoxedUint::from_words(pl.iter().copied()));
    veq!(bl(&bx), want, "BoxedUint::mul_mod at the same width ({} limbs)", N);
    Ok(())
}

pub fn subchecks() -> Vec<SubCheck> {
    vec![
        SubCheck::new("zero-divisors/boxed/mul_mod/1..=8", 400_000, boxed_case(8)).tape(64).thorough(10),
        SubCheck::new("zero-divisors/fixed/mul_mod/U64", 150_000, fixed_case::<1, 2>).tape(48).thorough(10),
        SubCheck::new("zero-divisors/fixed/mul_mod/U128", 150_000, fixed_case::<2, 4>).tape(48).thorough(10),
        SubCheck::new("zero-divisors/fixed/mul_mod/U256", 100_000, fixed_case::<4, 8>).tape(48).thorough(10),
    ]
}
