//! `BoxedUint` sub-checks of C07 (runtime precisions 1..=20 limbs; operands and modulus always have
//! the same precision, as the operations require).

use crate::cgen::*;
use crypto_bigint::modular::{BoxedMontyForm, BoxedMontyParams};
use crypto_bigint::{AddMod, BoxedUint, Limb, Monty, MulMod, NegMod, Odd, SubMod};
use num_bigint::BigUint;
use vmodel::*;

/// value comparison (the result precision is C15's business, not C07's)
macro_rules! chkb {
    ($n:expr, $name:expr, $op:expr, $want:expr) => {{
        let got = total($name, || $op)?;
        let (g, w) = (bbig(&got), $want);
        vensure!(g == *w, "{} ({} limbs): got {:#x}, want {:#x}", $name, $n, g, w);
    }};
}

fn bx(x: &BigUint, n: usize) -> BoxedUint {
    boxed(&limbs_exact(x, n))
}

const LENS: [usize; 10] = [1, 2, 3, 4, 5, 8, 9, 16, 17, 20];

pub fn boxed_len(t: &mut Tape) -> usize {
    match t.weighted(&[2, 3]) {
        0 => t.pick(&LENS),
        _ => t.usize_in(1, 20),
    }
}

pub fn check_linear(a: &BigUint, b: &BigUint, p: &BigUint, n: usize) -> CaseResult {
    let w = lin(a, b, p);
    let (xa, xb, xp) = (bx(a, n), bx(b, n), bx(p, n));
    chkb!(n, "BoxedUint::add_mod(a,b)", xa.add_mod(&xb, &xp), &w.add);
    chkb!(n, "BoxedUint::add_mod(b,a)", xb.add_mod(&xa, &xp), &w.add);
    chkb!(n, "BoxedUint::add_mod(a,a)", xa.add_mod(&xa, &xp), &w.dbl_a);
    chkb!(n, "AddMod::add_mod(a,b) for BoxedUint", AddMod::add_mod(&xa, &xb, &xp), &w.add);
    chkb!(
        n,
        "BoxedUint::add_mod_assign(a,b)",
        {
            let mut x = xa.clone();
            x.add_mod_assign(&xb, &xp);
            x
        },
        &w.add
    );
    chkb!(
        n,
        "BoxedUint::add_mod_assign(b,b)",
        {
            let mut x = xb.clone();
            x.add_mod_assign(&xb, &xp);
            x
        },
        &w.dbl_b
    );
    chkb!(n, "BoxedUint::double_mod(a)", xa.double_mod(&xp), &w.dbl_a);
    chkb!(n, "BoxedUint::double_mod(b)", xb.double_mod(&xp), &w.dbl_b);
    chkb!(n, "BoxedUint::sub_mod(a,b)", xa.sub_mod(&xb, &xp), &w.sub_ab);
    chkb!(n, "BoxedUint::sub_mod(b,a)", xb.sub_mod(&xa, &xp), &w.sub_ba);
    chkb!(n, "BoxedUint::sub_mod(a,a)", xa.sub_mod(&xa, &xp), &BigUint::default());
    chkb!(n, "SubMod::sub_mod(a,b) for BoxedUint", SubMod::sub_mod(&xa, &xb, &xp), &w.sub_ab);
    chkb!(n, "SubMod::sub_mod(b,a) for BoxedUint", SubMod::sub_mod(&xb, &xa, &xp), &w.sub_ba);
    chkb!(n, "BoxedUint::neg_mod(a)", xa.neg_mod(&xp), &w.neg_a);
    chkb!(n, "BoxedUint::neg_mod(b)", xb.neg_mod(&xp), &w.neg_b);
    chkb!(n, "NegMod::neg_mod(a) for BoxedUint", NegMod::neg_mod(&xa, &xp), &w.neg_a);
    chkb!(n, "NegMod::neg_mod(b) for BoxedUint", NegMod::neg_mod(&xb, &xp), &w.neg_b);
    Ok(())
}

fn special_mul(name: &str, x: &BigUint, y: &BigUint, cw: u64, p: &BigUint, n: usize) -> CaseResult {
    let (xx, xy) = (bx(x, n), bx(y, n));
    let want = (x * y) % p;
    match guard(|| xx.mul_mod_special(&xy, Limb(cw))) {
        Ok(got) => {
            let got = bbig(&got);
            if got != want {
                if let Some(wrong) = f07_wrong(x, y, cw, n) {
                    if PROFILE == "rel" && got == wrong {
                        return Err(Fail::known(
                            "F-07",
                            format!("{name} ({n} limbs), c = Limb::MAX, reduction carry = MAX: got {got:#x}, want {want:#x} ((carry + 1) wrapped to 0)"),
                        ));
                    }
                }
                vfail!("{name} ({n} limbs): got {got:#x}, want {want:#x}");
            }
        }
        Err(m) => {
            if PROFILE == "dbg" && f07_wrong(x, y, cw, n).is_some() && m.contains("attempt to add with overflow") {
                return Err(Fail::known("F-07", format!("{name} ({n} limbs), c = Limb::MAX, reduction carry = MAX: panic: {m}")));
            }
            vfail!("{name} ({n} limbs): unexpected panic: {m}");
        }
    }
    Ok(())
}

pub fn check_special(a: &BigUint, b: &BigUint, p: &BigUint, cw: u64, n: usize) -> CaseResult {
    let w = lin(a, b, p);
    let (xa, xb) = (bx(a, n), bx(b, n));
    let c = Limb(cw);
    chkb!(n, "BoxedUint::sub_mod_special(a,b)", xa.sub_mod_special(&xb, c), &w.sub_ab);
    chkb!(n, "BoxedUint::sub_mod_special(b,a)", xb.sub_mod_special(&xa, c), &w.sub_ba);
    chkb!(n, "BoxedUint::sub_mod_special(a,a)", xa.sub_mod_special(&xa, c), &BigUint::default());
    chkb!(n, "BoxedUint::neg_mod_special(a)", xa.neg_mod_special(c), &w.neg_a);
    chkb!(n, "BoxedUint::neg_mod_special(b)", xb.neg_mod_special(c), &w.neg_b);
    special_mul("BoxedUint::mul_mod_special(a,b)", a, b, cw, p, n)?;
    special_mul("BoxedUint::mul_mod_special(b,a)", b, a, cw, p, n)?;
    special_mul("BoxedUint::mul_mod_special(a,a)", a, a, cw, p, n)?;
    special_mul("BoxedUint::mul_mod_special(b,b)", b, b, cw, p, n)?;
    Ok(())
}

pub fn check_mul(a: &BigUint, b: &BigUint, p: &BigUint, n: usize) -> CaseResult {
    let (xa, xb, xp) = (bx(a, n), bx(b, n), bx(p, n));
    let ab = (a * b) % p;
    chkb!(n, "BoxedUint::mul_mod(a,b)", xa.mul_mod(&xb, &xp), &ab);
    chkb!(n, "BoxedUint::mul_mod(b,a)", xb.mul_mod(&xa, &xp), &ab);
    chkb!(n, "BoxedUint::mul_mod(a,a)", xa.mul_mod(&xa, &xp), &((a * a) % p));
    chkb!(n, "MulMod::mul_mod(a,b) for BoxedUint", MulMod::mul_mod(&xa, &xb, &xp), &ab);
    chkb!(n, "MulMod::mul_mod(b,b) for BoxedUint", MulMod::mul_mod(&xb, &xb, &xp), &((b * b) % p));
    Ok(())
}

pub fn check_halve(a: &BigUint, b: &BigUint, p: &BigUint, n: usize, vartime_params: bool) -> CaseResult {
    let odd = Odd::new(bx(p, n)).unwrap();
    let params = if vartime_params {
        // alternate between the inherent and the trait constructor (both "vartime in the modulus")
        if p.bit(1) {
            total("BoxedMontyParams::new_vartime", || BoxedMontyParams::new_vartime(odd))?
        } else {
            total("Monty::new_params_vartime", || <BoxedMontyForm as Monty>::new_params_vartime(odd))?
        }
    } else {
        total("BoxedMontyParams::new", || BoxedMontyParams::new(odd))?
    };
    for (nm, x) in [("a", a), ("b", b)] {
        let h = halve(x, p);
        let m = BoxedMontyForm::from_montgomery(bx(x, n), params.clone());
        let r = total("BoxedMontyForm::div_by_2", || m.div_by_2())?;
        vensure!(bbig(&r.to_montgomery()) == h, "BoxedMontyForm::from_montgomery({nm}).div_by_2().to_montgomery() ({n} limbs): got {:#x}, want {:#x}", bbig(&r.to_montgomery()), h);
        vensure!(r.double() == m, "BoxedMontyForm: div_by_2({nm}).double() != {nm} ({n} limbs)");
        vensure!(&r + &r == m, "BoxedMontyForm: div_by_2({nm}) + div_by_2({nm}) != {nm} ({n} limbs)");
        let mut r1 = m.clone();
        total("BoxedMontyForm::div_by_2_assign", || r1.div_by_2_assign())?;
        vensure!(bbig(&r1.to_montgomery()) == h, "BoxedMontyForm::div_by_2_assign on from_montgomery({nm}) ({n} limbs): got {:#x}, want {:#x}", bbig(&r1.to_montgomery()), h);
        let r2 = total("Monty::div_by_2", || Monty::div_by_2(&m))?;
        vensure!(bbig(&r2.to_montgomery()) == h, "Monty::div_by_2 for BoxedMontyForm on from_montgomery({nm}) ({n} limbs): got {:#x}, want {:#x}", bbig(&r2.to_montgomery()), h);
        let mut r3 = m.clone();
        total("Monty::div_by_2_assign", || Monty::div_by_2_assign(&mut r3))?;
        vensure!(bbig(&r3.to_montgomery()) == h, "Monty::div_by_2_assign for BoxedMontyForm on from_montgomery({nm}) ({n} limbs): got {:#x}, want {:#x}", bbig(&r3.to_montgomery()), h);
        // through conversion
        let mx = total("BoxedMontyForm::new", || BoxedMontyForm::new(bx(x, n), params.clone()))?;
        let hx = total("BoxedMontyForm::div_by_2", || mx.div_by_2())?;
        chkb!(n, "BoxedMontyForm::new(x).div_by_2().retrieve()", hx.retrieve(), &h);
        vensure!(hx.double() == mx, "BoxedMontyForm::new({nm}).div_by_2().double() != new({nm}) ({n} limbs)");
        let mut my = <BoxedMontyForm as Monty>::new(bx(x, n), params.clone());
        total("Monty::div_by_2_assign", || Monty::div_by_2_assign(&mut my))?;
        chkb!(n, "Monty::new(x) div_by_2_assign retrieve (boxed)", my.retrieve(), &h);
    }
    Ok(())
}

// ------------------------------------------------------------------------------------------------

fn record(c: &mut Case, a: &BigUint, b: &BigUint, p: &BigUint, n: usize) {
    c.num("limbs", n as u64);
    c.limbs("p", &limbs_exact(p, n));
    c.limbs("a", &limbs_exact(a, n));
    c.limbs("b", &limbs_exact(b, n));
}

fn label_len(c: &mut Case, n: usize) {
    c.label(match n {
        1 => "boxed: 1 limb",
        2 => "boxed: 2 limbs",
        3..=4 => "boxed: 3-4 limbs",
        5..=8 => "boxed: 5-8 limbs",
        9..=16 => "boxed: 9-16 limbs",
        _ => "boxed: 17-20 limbs",
    });
}

pub fn linear_case(t: &mut Tape, c: &mut Case) -> CaseResult {
    let n = boxed_len(t);
    let p = modulus(t, n, false);
    let (a, b) = pair(t, &p, n);
    record(c, &a, &b, &p, n);
    label_len(c, n);
    label_modulus(c, &p, n);
    let nt = label_pair(c, &a, &b, &p, n);
    c.nontrivial(nt);
    check_linear(&a, &b, &p, n)?;
    if let Some(cw) = special_of(&p, n) {
        label_c(c, cw);
        c.nontrivial(cw >= 1 << 63);
        check_special(&a, &b, &p, cw, n)?;
    }
    Ok(())
}

pub fn special_case(t: &mut Tape, c: &mut Case) -> CaseResult {
    let n = boxed_len(t);
    let cw = special_c(t);
    let p = pow2(64 * n as u64) - bu(cw);
    let (a, b) = pair(t, &p, n);
    c.num("c", cw);
    record(c, &a, &b, &p, n);
    label_len(c, n);
    label_modulus(c, &p, n);
    label_c(c, cw);
    label_special_mul(c, &a, &b, cw, n);
    let nt = label_pair(c, &a, &b, &p, n);
    c.nontrivial(nt || cw >= 1 << 63);
    check_special(&a, &b, &p, cw, n)?;
    check_linear(&a, &b, &p, n)?;
    Ok(())
}

pub fn mul_case(t: &mut Tape, c: &mut Case) -> CaseResult {
    let n = boxed_len(t);
    let p = modulus(t, n, true);
    let (a, b) = pair(t, &p, n);
    let vt = t.bool();
    record(c, &a, &b, &p, n);
    c.num("params_vartime", vt as u64);
    label_len(c, n);
    label_modulus(c, &p, n);
    let bits = 64 * n as u64;
    let nt = label_pair(c, &a, &b, &p, n);
    let big_prod = (&a * &b).bits() > bits;
    if big_prod {
        c.label("a*b>=2^B");
    }
    if &a * &b < p {
        c.label("a*b<p (no reduction)");
    }
    let mut carry_in = false;
    for x in [&a, &b] {
        if x.bit(0) {
            c.label("halve: odd operand");
            if (x + &p).bits() > bits {
                c.label("halve: odd operand and x+p>=2^B (carry re-inserted)");
                carry_in = true;
            }
        }
    }
    c.nontrivial(nt || big_prod || carry_in);
    check_mul(&a, &b, &p, n)?;
    check_halve(&a, &b, &p, n, vt)?;
    check_linear(&a, &b, &p, n)?;
    if let Some(cw) = special_of(&p, n) {
        label_c(c, cw);
        label_special_mul(c, &a, &b, cw, n);
        c.nontrivial(cw >= 1 << 63);
        check_special(&a, &b, &p, cw, n)?;
    }
    Ok(())
}
