//! Generators, oracle and classification shared by the fixed and boxed C07 sub-checks.
//!
//! Everything here is on the oracle side: `BigUint` only, no crypto-bigint arithmetic.

use num_bigint::BigUint;
use num_traits::{One, Zero};
use vmodel::gen;
use vmodel::*;

pub const MAXW: u64 = u64::MAX;

pub fn b1() -> BigUint {
    BigUint::one()
}
pub fn bu(x: u64) -> BigUint {
    BigUint::from(x)
}

// ------------------------------------------------------------------------------------------------
// moduli

/// `c` of the special modulus `p = 2^BITS - c` (never 0: `2^BITS` is not a value of the type).
pub fn special_c(t: &mut Tape) -> u64 {
    let c = match t.weighted(&[3, 2, 2, 2, 2, 4, 3, 2, 2, 3, 3]) {
        0 => 1,
        1 => 2,
        2 => 3,
        3 => 1 << 32,
        4 => MAXW - 1,
        5 => MAXW,
        6 => t.pick(&[1u64 << 63, (1 << 63) - 1, (1 << 63) + 1, MAXW - 2, (1 << 32) - 1, (1 << 32) + 1]),
        7 => gen::SMALL_PRIMES[t.index(gen::SMALL_PRIMES.len())],
        8 => gen::word(t),
        9 => t.u64() | (1 << 63),
        _ => t.u64(),
    };
    c.max(1)
}

/// A modulus in `[1, 2^(64 n))`; `odd` forces an odd one. Classes of DESIGN §2.3 plus the even
/// and special-form ones of the C07 quantifier. The class label is derived afterwards from the value.
pub fn modulus(t: &mut Tape, n: usize, odd: bool) -> BigUint {
    let b = 64 * n as u64;
    let p: BigUint = match t.weighted(&[1, 1, 1, 4, 4, 4, 2, 8, 8, 4, 10, 2, 2, 2, 6]) {
        0 => b1(),
        1 => bu(2),
        2 => bu(3),
        3 => mask(b),
        4 => pow2(b - 1) + b1(),
        5 => pow2(b - 1) - b1(),
        6 => pow2(b - 1),
        7 => {
            // small modulus in a wide type: whole zero high limbs (for one limb: a narrow word)
            if n == 1 {
                bu(gen::word(t) >> t.pick(&[32u32, 33, 48, 56, 62]))
            } else {
                let k = t.usize_in(1, n - 1);
                big(&gen::nonzero(t, k))
            }
        }
        8 => pow2(b) - bu(special_c(t)),
        9 => {
            let mut v = gen::limbs(t, n);
            v[n - 1] = t.pick(&[MAXW, 1, 1 << 63, (1 << 63) - 1, (1 << 63) + 1, MAXW - 1]);
            big(&v)
        }
        10 => big(&gen::nonzero(t, n)),
        11 => mask(b) - b1(),
        12 => (pow2(b) / bu(3)) | b1(),
        13 => bu(t.pick(&gen::SMALL_PRIMES)),
        _ => {
            // uniform with the top bit set: sums of residues overflow the width
            let mut v = gen::shape_u(t, n);
            v[n - 1] |= 1 << 63;
            big(&v)
        }
    };
    let p = if odd { p | b1() } else { p };
    if p.is_zero() {
        b1()
    } else {
        p
    }
}

pub fn label_modulus(c: &mut Case, p: &BigUint, n: usize) {
    let b = 64 * n as u64;
    if p.is_one() {
        c.label("p=1");
    } else if *p == bu(2) {
        c.label("p=2");
    } else if *p == bu(3) {
        c.label("p=3");
    }
    if *p == mask(b) {
        c.label("p=2^B-1");
    }
    if *p == pow2(b - 1) {
        c.label("p=2^(B-1)");
    } else if *p == pow2(b - 1) + b1() {
        c.label("p=2^(B-1)+1");
    } else if *p == pow2(b - 1) - b1() {
        c.label("p=2^(B-1)-1");
    }
    if n >= 2 && p.bits() <= b - 64 {
        c.label("p has zero high limb(s)");
    }
    if p.bits() == b {
        c.label("p has the top bit set");
    }
    if (pow2(b) - p).bits() <= 64 {
        c.label("p=2^B-c, c one limb");
    }
    if !p.bit(0) {
        c.label("p even");
    }
}

pub fn label_c(c: &mut Case, cw: u64) {
    match cw {
        1 => c.label("c=1"),
        2 => c.label("c=2"),
        3 => c.label("c=3"),
        x if x == 1 << 32 => c.label("c=2^32"),
        x if x == MAXW - 1 => c.label("c=MAX-1"),
        MAXW => c.label("c=MAX"),
        _ => {}
    }
    if cw >= 1 << 63 {
        c.label("c>=2^63");
    }
}

// ------------------------------------------------------------------------------------------------
// residues

/// A small offset (a few limbs at most, strictly narrower than n limbs when n >= 2).
fn offset(t: &mut Tape, n: usize) -> BigUint {
    if n == 1 {
        return bu(match t.weighted(&[2, 2, 2]) {
            0 => t.below(4),
            1 => gen::word(t) >> 33,
            _ => gen::word(t) >> 1,
        });
    }
    match t.weighted(&[2, 3, 3]) {
        0 => bu(t.below(4)),
        1 => bu(gen::word(t)),
        _ => {
            let k = t.usize_in(1, n - 1);
            big(&gen::limbs(t, k))
        }
    }
}

/// A pair of residues `a, b < p` (always reduced — a = 1 is out of domain for p = 1).
pub fn pair(t: &mut Tape, p: &BigUint, n: usize) -> (BigUint, BigUint) {
    let one = b1();
    let (a, b) = match t.weighted(&[5, 2, 4, 2, 2, 4, 5, 3, 2, 1]) {
        0 => (gen::residue(t, p), gen::residue(t, p)),
        1 => {
            let a = gen::residue(t, p);
            (a.clone(), a)
        }
        2 => {
            // a + b = p
            let a = match t.weighted(&[2, 2]) {
                0 => gen::residue(t, p),
                _ => big(&gen::limbs(t, n)) % p,
            };
            let b = p - &a;
            (a, b)
        }
        3 => {
            // a + b = p + 1
            let a = gen::residue(t, p);
            let b = p + &one - &a;
            (a, b)
        }
        4 => {
            // a + b = p - 1 (largest sum that needs no reduction)
            let a = gen::residue(t, p);
            let b = (p + p - &one - &a) % p;
            (a, b)
        }
        5 => {
            // patterned value and a related one
            let al = gen::limbs(t, n);
            let bl_ = gen::related(t, &al);
            (big(&al), big(&bl_))
        }
        6 => {
            // both just below p: with the top bit of p set the sum overflows the width; for the
            // special modulus with c = MAX this is where the reduction carry reaches MAX
            let x = offset(t, n);
            let y = offset(t, n);
            ((p + p - &one - x % p) % p, (p + p - &one - y % p) % p)
        }
        7 => (big(&gen::limbs(t, n)), big(&gen::limbs(t, n))),
        8 => {
            // a = p - 1 with patterned b
            (p - &one, big(&gen::limbs(t, n)))
        }
        _ => (BigUint::zero(), gen::residue(t, p)),
    };
    let (a, b) = (a % p, b % p);
    if t.bool() {
        (a, b)
    } else {
        (b, a)
    }
}

/// Labels of the operand pair; returns the base non-triviality of the design rule:
/// unreduced sum >= 2^B, or == p, or a negated operand is 0, or p has zero high limbs.
pub fn label_pair(c: &mut Case, a: &BigUint, b: &BigUint, p: &BigUint, n: usize) -> bool {
    let bits = 64 * n as u64;
    let s = a + b;
    let one = b1();
    if a.is_zero() || b.is_zero() {
        c.label("an operand is 0 (negation of 0)");
    }
    if a.is_one() || b.is_one() {
        c.label("an operand is 1");
    }
    if !p.is_one() && (*a == p - &one || *b == p - &one) {
        c.label("an operand is p-1");
    }
    let half = p >> 1u32;
    if *a == half || *b == half {
        c.label("an operand is floor(p/2)");
    }
    if *a == (p + &one) >> 1u32 || *b == (p + &one) >> 1u32 {
        c.label("an operand is ceil(p/2)");
    }
    if a == b {
        c.label("a=b");
    }
    if s == *p {
        c.label("a+b=p");
    } else if s == p + &one {
        c.label("a+b=p+1");
    } else if &s + &one == *p {
        c.label("a+b=p-1");
    }
    if s >= *p {
        c.label("a+b>=p (reduced)");
    }
    if s.bits() > bits {
        c.label("a+b>=2^B (sum overflows the width)");
    }
    if (a + a).bits() > bits || (b + b).bits() > bits {
        c.label("2a>=2^B (double overflows the width)");
    }
    if a != b {
        c.label("a-b or b-a borrows");
    }
    s.bits() > bits || s == *p || a.is_zero() || b.is_zero() || (n >= 2 && p.bits() <= bits - 64)
}

// ------------------------------------------------------------------------------------------------
// oracle

pub struct Lin {
    pub add: BigUint,
    pub sub_ab: BigUint,
    pub sub_ba: BigUint,
    pub neg_a: BigUint,
    pub neg_b: BigUint,
    pub dbl_a: BigUint,
    pub dbl_b: BigUint,
}

pub fn lin(a: &BigUint, b: &BigUint, p: &BigUint) -> Lin {
    Lin {
        add: (a + b) % p,
        sub_ab: (p + a - b) % p,
        sub_ba: (p + b - a) % p,
        neg_a: (p - a) % p,
        neg_b: (p - b) % p,
        dbl_a: (a + a) % p,
        dbl_b: (b + b) % p,
    }
}

/// The unique h in [0, p) with 2h = a (mod p), p odd.
pub fn halve(a: &BigUint, p: &BigUint) -> BigUint {
    debug_assert!(p.bit(0));
    if a.bit(0) {
        (a + p) >> 1u32
    } else {
        a >> 1u32
    }
}

/// `Some(c)` when `p = 2^(64 n) - c` with `1 <= c <= u64::MAX`.
pub fn special_of(p: &BigUint, n: usize) -> Option<u64> {
    let d = pow2(64 * n as u64) - p;
    if d.bits() <= 64 && !d.is_zero() {
        Some(d.to_u64_digits()[0])
    } else {
        None
    }
}

/// F-07 signature, input side: `mul_mod_special` with `c = Limb::MAX` on >= 2 limbs where the carry
/// out of `lo + hi*c` (HAC 14.47, first step) equals `Word::MAX`. Returns the value the defective
/// code computes in a build without overflow checks: `(carry + 1)` wraps to 0, nothing is added,
/// no carry appears, so `c` is subtracted: `lo' - c mod 2^B`.
pub fn f07_wrong(a: &BigUint, b: &BigUint, cw: u64, n: usize) -> Option<BigUint> {
    if n < 2 || cw != MAXW {
        return None;
    }
    let bits = 64 * n as u64;
    let prod = a * b;
    let lo = &prod & mask(bits);
    let hi = &prod >> bits;
    let t = hi * bu(cw) + lo;
    let carry = &t >> bits;
    if carry != bu(MAXW) {
        return None;
    }
    let lo2 = t & mask(bits);
    Some((lo2 + pow2(bits) - bu(cw)) & mask(bits))
}

/// Which branch HAC 14.47's final correction takes (oracle-side classification only).
pub fn label_special_mul(c: &mut Case, a: &BigUint, b: &BigUint, cw: u64, n: usize) {
    if n < 2 {
        return;
    }
    let bits = 64 * n as u64;
    let prod = a * b;
    let t = (&prod >> bits) * bu(cw) + (&prod & mask(bits));
    let carry = &t >> bits;
    let lo2 = &t & mask(bits);
    if carry == bu(MAXW) {
        c.label("special mul: reduction carry = MAX");
    } else if !carry.is_zero() {
        c.label("special mul: reduction carry > 0");
    }
    if (lo2 + (carry + b1()) * bu(cw)).bits() > bits {
        c.label("special mul: final add overflows (no subtract)");
    } else {
        c.label("special mul: final subtract of c");
    }
}
