fn main() {
    vmodel::cli_main(c07::spec())
}
