//! C07 API-surface audit (see /verif/audit/E.md): instantiation families of the modular
//! add / sub / neg / double / mul / halve APIs that no other sub-check of this crate calls.
//!
//!  * limb counts outside the property's list (5 and 7 limbs: `U320`, `U448`) for every fixed-width
//!    form (`surface/fixed/{linear,special,mul+halve}/U…`) and for `ConstMontyForm::div_by_2`
//!    (`surface/const/halve/…`): the code is generic over `LIMBS`, the existing sub-checks only
//!    instantiate 1, 2, 3, 4, 6, 8, 12, 16;
//!  * the generic-function route (`fn f<T: AddMod<Output = T>>`, `fn f<T: Integer>`) for `Uint<N>`
//!    and `BoxedUint` (`surface/generic-route/…`): the existing code names the trait with UFCS on a
//!    concrete type only;
//!  * the documented failure behaviour of the two multiplication forms that state one
//!    (`surface/panics/mul_mod-even-p/…`): `Uint::mul_mod` — "Panics if `p` is even.",
//!    `BoxedUint::mul_mod` — "Panics if `p` is even." — in both build profiles.
//!
//! Oracle, generators, labels and the non-triviality rule are the crate's own (`cgen`).

use crate::cgen::*;
use crate::{boxedc, fixed};
use crypto_bigint::modular::ConstMontyParams;
use crypto_bigint::{AddMod, BoxedUint, Concat, Integer, MulMod, NegMod, NonZero, Split, SubMod, Uint};
use num_bigint::BigUint;
use num_traits::Zero;
use vmodel::*;

// ------------------------------------------------------------------------------------------------
// compile-time moduli at 5 and 7 limbs

pub mod sm {
    use crypto_bigint::{impl_modulus, U320, U448};
    impl_modulus!(S320Max, U320, "ffffffffffffffffffffffffffffffffffffffffffffffffffffffffffffffffffffffffffffffff");
    impl_modulus!(S320Top, U320, "fffffffffffffffffffffffffffffffffffffffffffffffffffffffffffffffffffffffffffffff5");
    impl_modulus!(
        S448Half,
        U448,
        "8000000000000000000000000000000000000000000000000000000000000000000000000000000000000000000000000000000000000001"
    );
    impl_modulus!(
        S448ZeroHigh,
        U448,
        "00000000000000000000000000000001ffffffffffffffffffffffffffffffffffffffffffffffffffffffffffffffffffffffffffffffff"
    );
}

// ------------------------------------------------------------------------------------------------
// generic-function route: the callee only knows the trait bound

fn g_add<T: AddMod<Output = T>>(a: &T, b: &T, p: &T) -> T {
    a.add_mod(b, p)
}
fn g_sub<T: SubMod<Output = T>>(a: &T, b: &T, p: &T) -> T {
    a.sub_mod(b, p)
}
fn g_neg<T: NegMod<Output = T>>(a: &T, p: &T) -> T {
    a.neg_mod(p)
}
fn g_mul<T: MulMod<Output = T>>(a: &T, b: &T, p: &T) -> T {
    a.mul_mod(b, p)
}
/// the same four through the super-trait bounds of `Integer`
fn g_integer<T: Integer>(a: &T, b: &T, p: &T) -> (T, T, T, T) {
    (a.add_mod(b, p), a.sub_mod(b, p), a.neg_mod(p), a.mul_mod(b, p))
}

struct Want {
    w: Lin,
    ab: BigUint,
    ba_sub: BigUint,
}

fn want(a: &BigUint, b: &BigUint, p: &BigUint) -> Want {
    let w = lin(a, b, p);
    Want { ba_sub: w.sub_ba.clone(), ab: (a * b) % p, w }
}

/// labels + non-triviality exactly as `fixed::mul_case` (odd p, a, b < p)
fn classify(c: &mut Case, a: &BigUint, b: &BigUint, p: &BigUint, n: usize) {
    label_modulus(c, p, n);
    let nt = label_pair(c, a, b, p, n);
    let big_prod = (a * b).bits() > 64 * n as u64;
    if big_prod {
        c.label("a*b>=2^B");
    }
    c.nontrivial(nt || big_prod);
}

pub fn generic_fixed<const N: usize>(t: &mut Tape, c: &mut Case) -> CaseResult {
    let p = modulus(t, N, true);
    let (a, b) = pair(t, &p, N);
    c.limbs("p", &limbs_exact(&p, N));
    c.limbs("a", &limbs_exact(&a, N));
    c.limbs("b", &limbs_exact(&b, N));
    classify(c, &a, &b, &p, N);
    let x = want(&a, &b, &p);
    let u = |v: &BigUint| uint::<N>(&limbs_exact(v, N));
    let (ua, ub, up) = (u(&a), u(&b), u(&p));
    macro_rules! chk {
        ($name:expr, $op:expr, $want:expr) => {{
            let got = total($name, || $op)?;
            veq!(ul(&got), limbs_of($want, N), "{} (U{})", $name, 64 * N);
        }};
    }
    chk!("fn<T: AddMod>(a,b) with T = Uint", g_add(&ua, &ub, &up), &x.w.add);
    chk!("fn<T: AddMod>(b,a) with T = Uint", g_add(&ub, &ua, &up), &x.w.add);
    chk!("fn<T: SubMod>(a,b) with T = Uint", g_sub(&ua, &ub, &up), &x.w.sub_ab);
    chk!("fn<T: SubMod>(b,a) with T = Uint", g_sub(&ub, &ua, &up), &x.ba_sub);
    chk!("fn<T: NegMod>(a) with T = Uint", g_neg(&ua, &up), &x.w.neg_a);
    chk!("fn<T: NegMod>(b) with T = Uint", g_neg(&ub, &up), &x.w.neg_b);
    chk!("fn<T: MulMod>(a,b) with T = Uint", g_mul(&ua, &ub, &up), &x.ab);
    chk!("fn<T: MulMod>(b,a) with T = Uint", g_mul(&ub, &ua, &up), &x.ab);
    let (s, d, ng, m) = total("fn<T: Integer> with T = Uint", || g_integer(&ua, &ub, &up))?;
    veq!(ul(&s), limbs_of(&x.w.add, N), "fn<T: Integer>: add_mod (U{})", 64 * N);
    veq!(ul(&d), limbs_of(&x.w.sub_ab, N), "fn<T: Integer>: sub_mod (U{})", 64 * N);
    veq!(ul(&ng), limbs_of(&x.w.neg_a, N), "fn<T: Integer>: neg_mod (U{})", 64 * N);
    veq!(ul(&m), limbs_of(&x.ab, N), "fn<T: Integer>: mul_mod (U{})", 64 * N);
    Ok(())
}

pub fn generic_boxed(t: &mut Tape, c: &mut Case) -> CaseResult {
    let n = boxedc::boxed_len(t);
    let p = modulus(t, n, true);
    let (a, b) = pair(t, &p, n);
    c.num("limbs", n as u64);
    c.limbs("p", &limbs_exact(&p, n));
    c.limbs("a", &limbs_exact(&a, n));
    c.limbs("b", &limbs_exact(&b, n));
    classify(c, &a, &b, &p, n);
    let x = want(&a, &b, &p);
    let bx = |v: &BigUint| boxed(&limbs_exact(v, n));
    let (xa, xb, xp) = (bx(&a), bx(&b), bx(&p));
    // value comparison (the result precision is C15's subject)
    macro_rules! chk {
        ($name:expr, $op:expr, $want:expr) => {{
            let got: BoxedUint = total($name, || $op)?;
            let g = bbig(&got);
            vensure!(g == *$want, "{} ({} limbs): got {:#x}, want {:#x}", $name, n, g, $want);
        }};
    }
    chk!("fn<T: AddMod>(a,b) with T = BoxedUint", g_add(&xa, &xb, &xp), &x.w.add);
    chk!("fn<T: AddMod>(b,a) with T = BoxedUint", g_add(&xb, &xa, &xp), &x.w.add);
    chk!("fn<T: SubMod>(a,b) with T = BoxedUint", g_sub(&xa, &xb, &xp), &x.w.sub_ab);
    chk!("fn<T: SubMod>(b,a) with T = BoxedUint", g_sub(&xb, &xa, &xp), &x.ba_sub);
    chk!("fn<T: NegMod>(a) with T = BoxedUint", g_neg(&xa, &xp), &x.w.neg_a);
    chk!("fn<T: NegMod>(b) with T = BoxedUint", g_neg(&xb, &xp), &x.w.neg_b);
    chk!("fn<T: MulMod>(a,b) with T = BoxedUint", g_mul(&xa, &xb, &xp), &x.ab);
    chk!("fn<T: MulMod>(b,a) with T = BoxedUint", g_mul(&xb, &xa, &xp), &x.ab);
    let (s, d, ng, m) = total("fn<T: Integer> with T = BoxedUint", || g_integer(&xa, &xb, &xp))?;
    chk!("fn<T: Integer>: add_mod (BoxedUint)", s, &x.w.add);
    chk!("fn<T: Integer>: sub_mod (BoxedUint)", d, &x.w.sub_ab);
    chk!("fn<T: Integer>: neg_mod (BoxedUint)", ng, &x.w.neg_a);
    chk!("fn<T: Integer>: mul_mod (BoxedUint)", m, &x.ab);
    Ok(())
}

// ------------------------------------------------------------------------------------------------
// documented panics: even modulus in the Montgomery-based multiplication forms

/// an even modulus p >= 2 in n limbs and residues a, b < p
fn even_case(t: &mut Tape, c: &mut Case, n: usize) -> (BigUint, BigUint, BigUint) {
    let mut p = modulus(t, n, false);
    if p.bit(0) {
        // p odd: p + 1 (or p - 1 at the top of the range) is even and >= 2
        p = if (&p + b1()).bits() > 64 * n as u64 { p - b1() } else { p + b1() };
    }
    if p.is_zero() {
        p = bu(2);
    }
    let (a, b) = pair(t, &p, n);
    c.limbs("p", &limbs_exact(&p, n));
    c.limbs("a", &limbs_exact(&a, n));
    c.limbs("b", &limbs_exact(&b, n));
    label_modulus(c, &p, n);
    c.label("documented panic: even p");
    // rule: every documented-panic case is non-trivial (the whole case is about the panic)
    c.nontrivial(true);
    (p, a, b)
}

/// `Uint::mul_mod`: "Computes `self * rhs mod p` for odd `p`. Panics if `p` is even."
pub fn even_p_fixed<const N: usize, const W: usize>(t: &mut Tape, c: &mut Case) -> CaseResult
where
    Uint<N>: Concat<Output = Uint<W>>,
    Uint<W>: Split<Output = Uint<N>>,
{
    let (p, a, b) = even_case(t, c, N);
    let u = |v: &BigUint| uint::<N>(&limbs_exact(v, N));
    let (ua, ub) = (u(&a), u(&b));
    let nz = NonZero::new(u(&p)).unwrap();
    must_panic("Uint::mul_mod with an even p (documented: panics)", || ua.mul_mod(&ub, &nz))?;
    must_panic("Uint::mul_mod(a, a) with an even p (documented: panics)", || ua.mul_mod(&ua, &nz))?;
    Ok(())
}

/// `BoxedUint::mul_mod`: "Computes `self * rhs mod p` for odd `p`. Panics if `p` is even."
/// `<BoxedUint as MulMod>::mul_mod` is that function; the trait itself documents nothing about
/// even moduli, so its behaviour is only recorded.
pub fn even_p_boxed(t: &mut Tape, c: &mut Case) -> CaseResult {
    let n = boxedc::boxed_len(t);
    c.num("limbs", n as u64);
    let (p, a, b) = even_case(t, c, n);
    let bx = |v: &BigUint| boxed(&limbs_exact(v, n));
    let (xa, xb, xp) = (bx(&a), bx(&b), bx(&p));
    must_panic("BoxedUint::mul_mod with an even p (documented: panics)", || xa.mul_mod(&xb, &xp))?;
    c.label(match guard(|| MulMod::mul_mod(&xa, &xb, &xp)) {
        Ok(_) => "<BoxedUint as MulMod>::mul_mod with an even p: returns",
        Err(_) => "<BoxedUint as MulMod>::mul_mod with an even p: panics",
    });
    Ok(())
}

// ------------------------------------------------------------------------------------------------

fn const_halve<M: ConstMontyParams<N>, const N: usize>(v: &mut Vec<SubCheck>, name: &str, q: u64) {
    v.push(SubCheck::new(format!("surface/const/halve/{name}"), q, fixed::const_halve_case::<M, N>).tape(64 + 6 * N).thorough(10));
}

macro_rules! widths {
    ($v:ident, $q:expr, $qm:expr; $(($n:literal, $w:literal)),*) => { $(
        $v.push(SubCheck::new(format!("surface/fixed/linear/U{}", 64 * $n), $q, fixed::linear_case::<$n>).tape(64 + 6 * $n).thorough(10));
        $v.push(SubCheck::new(format!("surface/fixed/special/U{}", 64 * $n), $q, fixed::special_case::<$n>).tape(64 + 6 * $n).thorough(10));
        $v.push(SubCheck::new(format!("surface/fixed/mul+halve/U{}", 64 * $n), $qm, fixed::mul_case::<$n, $w>).tape(64 + 6 * $n).thorough(10));
    )* };
}

pub fn subchecks() -> Vec<SubCheck> {
    let mut v = vec![];
    widths!(v, 80_000, 50_000; (5, 10), (7, 14));
    const_halve::<sm::S320Max, 5>(&mut v, "S320Max", 15_000);
    const_halve::<sm::S320Top, 5>(&mut v, "S320Top", 15_000);
    const_halve::<sm::S448Half, 7>(&mut v, "S448Half", 15_000);
    const_halve::<sm::S448ZeroHigh, 7>(&mut v, "S448ZeroHigh", 15_000);
    v.push(SubCheck::new("surface/generic-route/U128", 60_000, generic_fixed::<2>).tape(80).thorough(10));
    v.push(SubCheck::new("surface/generic-route/U192", 60_000, generic_fixed::<3>).tape(90).thorough(10));
    v.push(SubCheck::new("surface/generic-route/U320", 40_000, generic_fixed::<5>).tape(100).thorough(10));
    v.push(SubCheck::new("surface/generic-route/boxed/1..=20", 80_000, generic_boxed).tape(200).thorough(10));
    v.push(SubCheck::new("surface/panics/mul_mod-even-p/U64", 3_000, even_p_fixed::<1, 2>).tape(80).thorough(5));
    v.push(SubCheck::new("surface/panics/mul_mod-even-p/U192", 3_000, even_p_fixed::<3, 6>).tape(90).thorough(5));
    v.push(SubCheck::new("surface/panics/mul_mod-even-p/U320", 3_000, even_p_fixed::<5, 10>).tape(100).thorough(5));
    v.push(SubCheck::new("surface/panics/mul_mod-even-p/boxed/1..=20", 6_000, even_p_boxed).tape(200).thorough(5));
    v
}
