//! Generates `$OUT_DIR/constcases.rs`: a few hundred self-contained functions, each holding `const`
//! items whose values rustc's compile-time evaluator (CTFE) computes from operands fixed by a
//! compile-time seed, plus the same expression recomputed at run time on `black_box`ed operands.
//! The run-time sub-check `const/...` compares the two outcomes bit for bit.

use std::fmt::Write as _;

struct Rng(u64);
impl Rng {
    fn next(&mut self) -> u64 {
        self.0 = self.0.wrapping_add(0x9E37_79B9_7F4A_7C15);
        let mut z = self.0;
        z = (z ^ (z >> 30)).wrapping_mul(0xBF58_476D_1CE4_E5B9);
        z = (z ^ (z >> 27)).wrapping_mul(0x94D0_49BB_1331_11EB);
        z ^ (z >> 31)
    }
    fn below(&mut self, n: u64) -> u64 {
        ((self.next() as u128 * n as u128) >> 64) as u64
    }
    fn limb(&mut self) -> u64 {
        const A: [u64; 8] = [0, u64::MAX, 1, 1 << 63, u64::MAX - 1, (1 << 32) - 1, 1 << 32, 0x5555_5555_5555_5555];
        if self.below(3) == 0 {
            A[self.below(8) as usize]
        } else {
            self.next()
        }
    }
    /// value shapes: uniform, patterned limbs, all ones, small in wide type, single bit +- 1
    fn value(&mut self, n: usize) -> Vec<u64> {
        match self.below(6) {
            0 | 1 => (0..n).map(|_| self.next()).collect(),
            2 => (0..n).map(|_| self.limb()).collect(),
            3 => vec![u64::MAX; n],
            4 => {
                let mut v = vec![0u64; n];
                v[0] = self.next();
                if n > 1 && self.below(2) == 0 {
                    v[1] = self.limb();
                }
                v
            }
            _ => {
                let k = self.below(64 * n as u64);
                let mut v = vec![0u64; n];
                v[(k / 64) as usize] = 1 << (k % 64);
                match self.below(3) {
                    0 => {}
                    1 => {
                        // minus one
                        for w in v.iter_mut() {
                            let (r, b) = w.overflowing_sub(1);
                            *w = r;
                            if !b {
                                break;
                            }
                        }
                    }
                    _ => {
                        for w in v.iter_mut() {
                            let (r, c) = w.overflowing_add(1);
                            *w = r;
                            if !c {
                                break;
                            }
                        }
                    }
                }
                v
            }
        }
    }
    fn nonzero(&mut self, n: usize) -> Vec<u64> {
        let mut v = self.value(n);
        if v.iter().all(|&w| w == 0) {
            v[0] = 1;
        }
        v
    }
    /// odd modulus with a large top limb, so that values with a smaller top limb are reduced
    fn modulus(&mut self, n: usize) -> Vec<u64> {
        let mut v: Vec<u64> = (0..n).map(|_| self.limb()).collect();
        match self.below(6) {
            0 => v[n - 1] = u64::MAX,
            1 => v[n - 1] = (1 << 63) | self.next(),
            2 => v[n - 1] = 0x4000_0000_0000_0000 | (self.next() >> 2),
            // leading-zero classes (added after the round-2 seeded change C15-C: the clamp of the
            // leading-zero count in impl_modulus! differs from the run-time constructors only for a
            // modulus with exactly 64 leading zero bits)
            3 if n >= 2 => {
                v[n - 1] = 0;
                v[n - 2] |= 1 << 63;
            }
            4 => {
                let sh = 1 + self.below(62);
                v[n - 1] = ((self.next() | (1 << 63)) >> sh).max(2);
            }
            5 if n >= 2 => {
                v[n - 1] = 0;
                v[n - 2] = (self.next() >> self.below(63)).max(2);
            }
            _ => v[n - 1] = (1 << 63) | self.next(),
        }
        v[0] |= 1;
        if n == 1 && v[0] < 8 {
            v[0] = 0x8000_0000_0000_001d;
        }
        v
    }
    /// a value below the modulus produced by `modulus`
    fn residue(&mut self, m: &[u64]) -> Vec<u64> {
        let n = m.len();
        let mut v: Vec<u64> = match self.below(4) {
            0 => vec![0; n],
            1 => {
                let mut v = vec![0; n];
                v[0] = 1 + self.below(5);
                v
            }
            _ => (0..n).map(|_| self.limb()).collect(),
        };
        if n == 1 {
            v[0] %= m[0];
        } else {
            // below the modulus: clear everything above its top non-zero limb, and draw that limb below it
            let t = (0..n).rev().find(|&i| m[i] != 0).unwrap_or(0);
            for w in v.iter_mut().skip(t + 1) {
                *w = 0;
            }
            v[t] = if m[t] > 1 { self.below(m[t]) } else { 0 };
            if t == 0 {
                v[0] %= m[0];
            }
        }
        v
    }
}

fn words(v: &[u64]) -> String {
    let items: Vec<String> = v.iter().map(|w| format!("{:#018x}", w)).collect();
    format!("[{}]", items.join(", "))
}
fn be_hex(v: &[u64]) -> String {
    v.iter().rev().map(|w| format!("{:016x}", w)).collect()
}

struct Gen {
    out: String,
    names: Vec<String>,
    mods: String,
}

impl Gen {
    /// `consts`: lines of const items (operands named A, B, ...; results R). `rt`: run-time expression using
    /// lower-case black-boxed copies. `args`: (name, words) pairs recorded as inputs.
    fn case(&mut self, op: &str, decls: &str, konst_ty: &str, konst_expr: &str, lets: &str, run_expr: &str, args: &[(&str, &[u64])]) {
        let id = self.names.len();
        let name = format!("case_{id}");
        let mut a = String::new();
        for (n, w) in args {
            write!(a, "(\"{}\", vec!{}), ", n, words(w)).unwrap();
        }
        write!(
            self.out,
            "fn {name}() -> ConstRun {{\n{decls}    const R: {konst_ty} = {konst_expr};\n{lets}    ConstRun {{ op: \"{op}\", args: vec![{a}], konst: out(Ok(R)), run: out(guard(|| {run_expr})) }}\n}}\n\n"
        )
        .unwrap();
        self.names.push(name);
    }
}

fn main() {
    println!("cargo:rerun-if-changed=build.rs");
    let mut rng = Rng(0xC15C_0575_EED0_0001);
    let mut g = Gen { out: String::new(), names: vec![], mods: String::new() };
    // (type alias, limbs, double-width alias)
    let widths: [(&str, usize, &str); 6] = [("U64", 1, "U128"), ("U128", 2, "U256"), ("U192", 3, "U384"), ("U256", 4, "U512"), ("U512", 8, "U1024"), ("U1024", 16, "U2048")];

    for &(ty, n, wide) in widths.iter() {
        let reps = if n <= 4 { 3 } else { 2 };
        for _ in 0..reps {
            let a = rng.value(n);
            let b = rng.value(n);
            let d = rng.nonzero(n);
            let dw = rng.limb().max(1);
            let k = match rng.below(4) {
                0 => rng.below(4) as u32,
                1 => 64 * rng.below(n as u64) as u32,
                2 => 64 * n as u32 - 1 - rng.below(3) as u32,
                _ => rng.below(64 * n as u64) as u32,
            };
            let ab = format!("    const A: {ty} = {ty}::from_words({});\n    const B: {ty} = {ty}::from_words({});\n", words(&a), words(&b));
            let lab = "    let (a, b) = (black_box(A), black_box(B));\n";
            let args2: [(&str, &[u64]); 2] = [("a", &a), ("b", &b)];
            // arithmetic
            g.case(&format!("{ty}::wrapping_add"), &ab, ty, "A.wrapping_add(&B)", lab, "a.wrapping_add(&b)", &args2);
            g.case(&format!("{ty}::adc"), &ab, &format!("({ty}, Limb)"), "A.adc(&B, Limb::ONE)", lab, "a.adc(&b, black_box(Limb::ONE))", &args2);
            g.case(&format!("{ty}::sbb"), &ab, &format!("({ty}, Limb)"), "A.sbb(&B, Limb::ZERO)", lab, "a.sbb(&b, black_box(Limb::ZERO))", &args2);
            g.case(&format!("{ty}::saturating_sub"), &ab, ty, "A.saturating_sub(&B)", lab, "a.saturating_sub(&b)", &args2);
            g.case(&format!("{ty}::wrapping_neg"), &ab, ty, "A.wrapping_neg()", lab, "a.wrapping_neg()", &args2);
            g.case(&format!("{ty}::wrapping_mul"), &ab, ty, "A.wrapping_mul(&B)", lab, "a.wrapping_mul(&b)", &args2);
            g.case(&format!("{ty}::split_mul"), &ab, &format!("({ty}, {ty})"), "A.split_mul(&B)", lab, "a.split_mul(&b)", &args2);
            g.case(&format!("{ty}::widening_mul"), &ab, wide, "A.widening_mul(&B)", lab, "a.widening_mul(&b)", &args2);
            g.case(&format!("{ty}::saturating_mul"), &ab, ty, "A.saturating_mul(&B)", lab, "a.saturating_mul(&b)", &args2);
            g.case(&format!("{ty}::square_wide"), &ab, &format!("({ty}, {ty})"), "A.square_wide()", lab, "a.square_wide()", &args2);
            g.case(&format!("{ty}::checked_square"), &ab, &format!("ConstCtOption<{ty}>"), "B.checked_square()", lab, "b.checked_square()", &args2);
            g.case(&format!("{ty}::concat + split"), &ab, &format!("({wide}, ({ty}, {ty}))"), &format!("{{ let w: {wide} = A.concat(&B); (w, w.split()) }}"), lab, &format!("{{ let w: {wide} = a.concat(&b); (w, w.split()) }}"), &args2);
            // bitwise / bits
            g.case(&format!("{ty}::bitand/bitor/bitxor/not"), &ab, &format!("({ty}, {ty}, {ty})"), "(A.bitand(&B), A.bitor(&B), A.bitxor(&B.not()))", lab, "(a.bitand(&b), a.bitor(&b), a.bitxor(&b.not()))", &args2);
            g.case(&format!("{ty}::bits/leading_zeros/trailing_zeros/trailing_ones"), &ab, "(u32, u32, u32, u32)", "(A.bits(), A.leading_zeros(), B.trailing_zeros(), B.trailing_ones())", lab, "(a.bits(), a.leading_zeros(), b.trailing_zeros(), b.trailing_ones())", &args2);
            g.case(&format!("{ty}::bits_vartime/..._vartime"), &ab, "(u32, u32, u32, u32)", "(A.bits_vartime(), A.leading_zeros_vartime(), B.trailing_zeros_vartime(), B.trailing_ones_vartime())", lab, "(a.bits_vartime(), a.leading_zeros_vartime(), b.trailing_zeros_vartime(), b.trailing_ones_vartime())", &args2);
            g.case(&format!("{ty}::cmp_vartime"), &ab, "i8", "A.cmp_vartime(&B) as i8", lab, "a.cmp_vartime(&b) as i8", &args2);
            // shifts
            let abk = format!("{ab}    const K: u32 = {k};\n");
            let labk = "    let (a, b, k) = (black_box(A), black_box(B), black_box(K));\n";
            let kk = [k as u64];
            let args3: [(&str, &[u64]); 3] = [("a", &a), ("b", &b), ("k", &kk)];
            g.case(&format!("{ty}::shl"), &abk, ty, "A.shl(K)", labk, "{ let _ = &b; a.shl(k) }", &args3);
            g.case(&format!("{ty}::shr_vartime"), &abk, ty, "A.shr_vartime(K)", labk, "{ let _ = &b; a.shr_vartime(k) }", &args3);
            g.case(&format!("{ty}::overflowing_shl / overflowing_shr"), &abk, &format!("(ConstCtOption<{ty}>, ConstCtOption<{ty}>)"), "(A.overflowing_shl(K), B.overflowing_shr(K + 64))", labk, "(a.overflowing_shl(k), b.overflowing_shr(k + 64))", &args3);
            g.case(&format!("{ty}::wrapping_shl_vartime / wrapping_shr"), &abk, &format!("({ty}, {ty})"), "(A.wrapping_shl_vartime(K + 1), B.wrapping_shr(K))", labk, "(a.wrapping_shl_vartime(k + 1), b.wrapping_shr(k))", &args3);
            g.case(&format!("{ty}::overflowing_shl_vartime_wide"), &abk, &format!("ConstCtOption<({ty}, {ty})>"), &format!("{ty}::overflowing_shl_vartime_wide((A, B), K)"), labk, &format!("{ty}::overflowing_shl_vartime_wide((a, b), k)"), &args3);
            g.case(&format!("{ty}::rem2k_vartime"), &abk, ty, "A.rem2k_vartime(K)", labk, "{ let _ = &b; a.rem2k_vartime(k) }", &args3);
            g.case(&format!("{ty}::inv_mod2k"), &abk, &format!("(ConstCtOption<{ty}>, ConstCtOption<{ty}>)"), "(A.inv_mod2k(K), B.inv_mod2k(K))", labk, "(a.inv_mod2k(k), b.inv_mod2k(k))", &args3);
            g.case(&format!("{ty}::inv_mod2k_vartime"), &abk, &format!("(ConstCtOption<{ty}>, ConstCtOption<{ty}>)"), "(A.inv_mod2k_vartime(K), B.inv_mod2k_vartime(K))", labk, "(a.inv_mod2k_vartime(k), b.inv_mod2k_vartime(k))", &args3);
            // division
            let ad = format!(
                "    const A: {ty} = {ty}::from_words({});\n    const B: {ty} = {ty}::from_words({});\n    const D: NonZero<{ty}> = NonZero::<{ty}>::new_unwrap({ty}::from_words({}));\n    const L: NonZero<Limb> = NonZero::<Limb>::new_unwrap(Limb({:#x}));\n",
                words(&a),
                words(&b),
                words(&d),
                dw
            );
            let lad = "    let (a, b, d, l) = (black_box(A), black_box(B), black_box(D), black_box(L));\n";
            let dww = [dw];
            let args4: [(&str, &[u64]); 4] = [("a", &a), ("b", &b), ("d", &d), ("limb", &dww)];
            g.case(&format!("{ty}::div_rem"), &ad, &format!("({ty}, {ty})"), "A.div_rem(&D)", lad, "{ let _ = (&b, &l); a.div_rem(&d) }", &args4);
            g.case(&format!("{ty}::div_rem_vartime"), &ad, &format!("({ty}, {ty})"), "A.div_rem_vartime(&D)", lad, "{ let _ = (&b, &l); a.div_rem_vartime(&d) }", &args4);
            g.case(&format!("{ty}::rem / rem_vartime"), &ad, &format!("({ty}, {ty})"), "(B.rem(&D), B.rem_vartime(&D))", lad, "{ let _ = (&a, &l); (b.rem(&d), b.rem_vartime(&d)) }", &args4);
            g.case(&format!("{ty}::rem_wide_vartime"), &ad, ty, &format!("{ty}::rem_wide_vartime((A, B), &D)"), lad, &format!("{{ let _ = &l; {ty}::rem_wide_vartime((a, b), &d) }}"), &args4);
            g.case(&format!("{ty}::wrapping_div / wrapping_rem_vartime"), &ad, &format!("({ty}, {ty})"), "(A.wrapping_div(&D), A.wrapping_rem_vartime(D.as_ref()))", lad, "{ let _ = (&b, &l); (a.wrapping_div(&d), a.wrapping_rem_vartime(d.as_ref())) }", &args4);
            g.case(&format!("{ty}::div_rem_limb"), &ad, &format!("({ty}, Limb)"), "A.div_rem_limb(L)", lad, "{ let _ = (&b, &d); a.div_rem_limb(l) }", &args4);
            g.case(&format!("{ty}::rem_limb_with_reciprocal"), &ad, "Limb", "B.rem_limb_with_reciprocal(&Reciprocal::new(L))", lad, "{ let _ = (&a, &d); b.rem_limb_with_reciprocal(&Reciprocal::new(l)) }", &args4);
            // square roots
            g.case(&format!("{ty}::sqrt / sqrt_vartime"), &ab, &format!("({ty}, {ty})"), "(A.sqrt(), B.sqrt_vartime())", lab, "(a.sqrt(), b.sqrt_vartime())", &args2);
            // encoding
            let hex = be_hex(&a);
            let ah = format!("{ab}    const H: &str = \"{hex}\";\n");
            g.case(&format!("{ty}::from_be_hex / from_be_slice / from_le_slice"), &ah, &format!("({ty}, {ty}, {ty})"), &format!("({ty}::from_be_hex(H), {ty}::from_be_slice(&A.to_be_bytes()), {ty}::from_le_slice(&B.to_le_bytes()))"), "    let (a, b, h) = (black_box(A), black_box(B), black_box(H));\n", &format!("({ty}::from_be_hex(h), {ty}::from_be_slice(&a.to_be_bytes()), {ty}::from_le_slice(&b.to_le_bytes()))"), &args2);
            // signed
            let iab = format!("    const A: Int<{n}> = Int::<{n}>::from_words({});\n    const B: Int<{n}> = Int::<{n}>::from_words({});\n", words(&a), words(&b));
            g.case(&format!("Int<{n}>::checked_add / wrapping_add / overflowing_add"), &iab, &format!("(ConstCtOption<Int<{n}>>, Int<{n}>, (Int<{n}>, ConstChoice))"), "(A.checked_add(&B), A.wrapping_add(&B), A.overflowing_add(&B))", lab, "(a.checked_add(&b), a.wrapping_add(&b), a.overflowing_add(&b))", &args2);
            g.case(&format!("Int<{n}>::abs_sign / checked_neg / split_mul"), &iab, &format!("((Uint<{n}>, ConstChoice), ConstCtOption<Int<{n}>>, (Uint<{n}>, Uint<{n}>, ConstChoice))"), "(A.abs_sign(), B.checked_neg(), A.split_mul(&B))", lab, "(a.abs_sign(), b.checked_neg(), a.split_mul(&b))", &args2);
            let iad = format!(
                "    const A: Int<{n}> = Int::<{n}>::from_words({});\n    const D: NonZero<Uint<{n}>> = NonZero::<Uint<{n}>>::new_unwrap(Uint::<{n}>::from_words({}));\n",
                words(&a),
                words(&d)
            );
            let args_ad: [(&str, &[u64]); 2] = [("a", &a), ("d", &d)];
            g.case(&format!("Int<{n}>::div_rem_uint / div_rem_uint_vartime"), &iad, &format!("((Int<{n}>, Int<{n}>), (Int<{n}>, Int<{n}>))"), "(A.div_rem_uint(&D), A.div_rem_uint_vartime(&D))", "    let (a, d) = (black_box(A), black_box(D));\n", "(a.div_rem_uint(&d), a.div_rem_uint_vartime(&d))", &args_ad);
            g.case(&format!("Int<{n}>::shr / shl_vartime"), &format!("{iab}    const K: u32 = {k};\n"), &format!("(Int<{n}>, Int<{n}>)"), "(A.shr(K), B.shl_vartime(K))", labk, "(a.shr(k), b.shl_vartime(k))", &args3);
        }

        // modular: reduced operands below an odd modulus
        let mreps = if n <= 4 { 3 } else { 1 };
        for _ in 0..mreps {
            let m = rng.modulus(n);
            let x = rng.residue(&m);
            let y = rng.residue(&m);
            let cw = rng.limb().max(1);
            let decl = format!(
                "    const M: {ty} = {ty}::from_words({});\n    const X: {ty} = {ty}::from_words({});\n    const Y: {ty} = {ty}::from_words({});\n    const C: Limb = Limb({:#x});\n",
                words(&m),
                words(&x),
                words(&y),
                cw
            );
            let lets = "    let (m, x, y, c) = (black_box(M), black_box(X), black_box(Y), black_box(C));\n";
            let cww = [cw];
            let args: [(&str, &[u64]); 4] = [("m", &m), ("x", &x), ("y", &y), ("c", &cww)];
            g.case(&format!("{ty}::add_mod / sub_mod / neg_mod / double_mod"), &decl, &format!("({ty}, {ty}, {ty}, {ty})"), "(X.add_mod(&Y, &M), X.sub_mod(&Y, &M), X.neg_mod(&M), Y.double_mod(&M))", lets, "{ let _ = &c; (x.add_mod(&y, &m), x.sub_mod(&y, &m), x.neg_mod(&m), y.double_mod(&m)) }", &args);
            // special modulus 2^B - c: operands below it are obtained by reducing modulo it at both times
            g.case(
                &format!("{ty}::*_mod_special"),
                &decl,
                &format!("({ty}, {ty}, {ty}, {ty})"),
                &format!("{{ let p = NonZero::<{ty}>::new_unwrap({ty}::ZERO.wrapping_sub(&{ty}::from_word(C.0))); let (x, y) = (X.rem_vartime(&p), Y.rem_vartime(&p)); (x.add_mod_special(&y, C), x.sub_mod_special(&y, C), x.neg_mod_special(C), x.mul_mod_special(&y, C)) }}"),
                lets,
                &format!("{{ let _ = &m; let p = NonZero::<{ty}>::new_unwrap({ty}::ZERO.wrapping_sub(&{ty}::from_word(c.0))); let (x, y) = (x.rem_vartime(&p), y.rem_vartime(&p)); (x.add_mod_special(&y, c), x.sub_mod_special(&y, c), x.neg_mod_special(c), x.mul_mod_special(&y, c)) }}"),
                &args,
            );
            if n <= 8 {
                g.case(&format!("{ty}::inv_odd_mod / inv_mod / gcd"), &decl, &format!("(ConstCtOption<{ty}>, ConstCtOption<{ty}>, {ty})"), "(X.inv_odd_mod(&M.to_odd().expect(\"odd\")), Y.inv_mod(&M), X.gcd(&Y))", lets, "{ let _ = &c; (x.inv_odd_mod(&m.to_odd().expect(\"odd\")), y.inv_mod(&m), x.gcd(&y)) }", &args);
                g.case(&format!("{ty}::inv_mod (even modulus)"), &decl, &format!("ConstCtOption<{ty}>"), "X.inv_mod(&M.wrapping_add(&M))", lets, "{ let _ = (&c, &y); x.inv_mod(&m.wrapping_add(&m)) }", &args);
            }
            // Montgomery parameters and forms
            g.case(
                &format!("MontyParams<{n}>::new / new_vartime"),
                &decl,
                &format!("(MontyParams<{n}>, MontyParams<{n}>)"),
                "(MontyParams::new(M.to_odd().expect(\"odd\")), MontyParams::new_vartime(M.to_odd().expect(\"odd\")))",
                lets,
                "{ let _ = (&x, &y, &c); (MontyParams::new(m.to_odd().expect(\"odd\")), MontyParams::new_vartime(m.to_odd().expect(\"odd\"))) }",
                &args,
            );
            g.case(
                &format!("MontyForm<{n}>::new / retrieve / add / sub / mul / neg / square / div_by_2"),
                &decl,
                &format!("(MontyForm<{n}>, {ty}, MontyForm<{n}>, MontyForm<{n}>, MontyForm<{n}>, MontyForm<{n}>, MontyForm<{n}>, MontyForm<{n}>)"),
                "{ let p = MontyParams::new(M.to_odd().expect(\"odd\")); let (a, b) = (MontyForm::new(&X, p), MontyForm::new(&Y, p)); (a, a.retrieve(), a.add(&b), a.sub(&b), a.mul(&b), a.neg(), b.square(), b.div_by_2()) }",
                lets,
                "{ let _ = &c; let p = MontyParams::new(m.to_odd().expect(\"odd\")); let (a, b) = (MontyForm::new(&x, p), MontyForm::new(&y, p)); (a, a.retrieve(), a.add(&b), a.sub(&b), a.mul(&b), a.neg(), b.square(), b.div_by_2()) }",
                &args,
            );
            if n <= 4 {
                g.case(
                    &format!("MontyForm<{n}>::pow / pow_bounded_exp / inv"),
                    &decl,
                    &format!("(MontyForm<{n}>, MontyForm<{n}>, ConstCtOption<MontyForm<{n}>>, ConstCtOption<MontyForm<{n}>>)"),
                    "{ let p = MontyParams::new_vartime(M.to_odd().expect(\"odd\")); let a = MontyForm::new(&X, p); (a.pow(&Y), a.pow_bounded_exp(&Y, 37), a.inv(), a.inv_vartime()) }",
                    lets,
                    "{ let _ = &c; let p = MontyParams::new_vartime(m.to_odd().expect(\"odd\")); let a = MontyForm::new(&x, p); (a.pow(&y), a.pow_bounded_exp(&y, 37), a.inv(), a.inv_vartime()) }",
                    &args,
                );
            }
            // the macro route: impl_modulus! + ConstMontyForm against the run-time parameters
            let id = g.names.len();
            let modname = format!("Mod{id}");
            writeln!(g.mods, "impl_modulus!({modname}, {ty}, \"{}\");", be_hex(&m)).unwrap();
            g.case(
                &format!("impl_modulus!({ty}) constants vs MontyParams::new"),
                &decl,
                &format!("MontyParams<{n}>"),
                &format!("MontyParams::<{n}>::from_const_params::<{modname}>()"),
                lets,
                "{ let _ = (&x, &y, &c); MontyParams::new(m.to_odd().expect(\"odd\")) }",
                &args,
            );
            g.case(
                &format!("impl_modulus!({ty}) constants vs BoxedMontyParams::new"),
                &decl,
                "u8",
                "0",
                lets,
                &format!("{{ let _ = (&x, &y, &c); (BoxedMontyParams::from_const_params::<{n}, {modname}>() != BoxedMontyParams::new(Odd::new(BoxedUint::from(m)).unwrap())) as u8 }}"),
                &args,
            );
            let heavy = if n <= 4 { "F::pow(&a, &Y), F::double(&a)" } else { "F::square(&a), F::double(&a)" };
            let heavy_rt = if n <= 4 { "a.pow(&y), a.double()" } else { "a.square(), a.double()" };
            g.case(
                &format!("ConstMontyForm<{ty}> (const) vs MontyForm (run time)"),
                &format!("{decl}    type F = ConstMontyForm<{modname}, {n}>;\n"),
                &format!("({ty}, {ty}, {ty}, {ty}, {ty}, {ty}, {ty}, {ty})"),
                &format!("{{ let (a, b) = (F::new(&X), const_monty_form!(Y, {modname})); let (h0, h1) = ({}); (a.to_montgomery(), a.retrieve(), F::add(&a, &b).to_montgomery(), F::sub(&a, &b).to_montgomery(), F::mul(&a, &b).to_montgomery(), F::neg(&a).to_montgomery(), h0.to_montgomery(), h1.to_montgomery()) }}", heavy),
                lets,
                &format!("{{ let _ = &c; let p = MontyParams::new(m.to_odd().expect(\"odd\")); let (a, b) = (MontyForm::new(&x, p), MontyForm::new(&y, p)); let (h0, h1) = ({heavy_rt}); (a.to_montgomery(), a.retrieve(), a.add(&b).to_montgomery(), a.sub(&b).to_montgomery(), a.mul(&b).to_montgomery(), a.neg().to_montgomery(), h0.to_montgomery(), h1.to_montgomery()) }}"),
                &args,
            );
        }
    }

    // Limb constants
    for _ in 0..6 {
        let a = [rng.limb()];
        let b = [rng.limb()];
        let decl = format!("    const A: Limb = Limb({:#x});\n    const B: Limb = Limb({:#x});\n", a[0], b[0]);
        let lets = "    let (a, b) = (black_box(A), black_box(B));\n";
        let args: [(&str, &[u64]); 2] = [("a", &a), ("b", &b)];
        g.case("Limb::adc / sbb / mac", &decl, "((Limb, Limb), (Limb, Limb), (Limb, Limb))", "(A.adc(B, Limb::ONE), A.sbb(B, Limb::MAX), A.mac(B, A, B))", lets, "(a.adc(b, Limb::ONE), a.sbb(b, Limb::MAX), a.mac(b, a, b))", &args);
        g.case("Limb::wrapping_* / saturating_*", &decl, "(Limb, Limb, Limb, Limb, Limb)", "(A.wrapping_add(B), A.wrapping_sub(B), A.wrapping_mul(B), A.saturating_add(B), A.saturating_mul(B))", lets, "(a.wrapping_add(b), a.wrapping_sub(b), a.wrapping_mul(b), a.saturating_add(b), a.saturating_mul(b))", &args);
    }

    let mut file = String::new();
    file.push_str("// @generated by build.rs — do not edit\n\n");
    file.push_str(&g.mods);
    file.push('\n');
    file.push_str(&g.out);
    write!(file, "pub static CASES: [fn() -> ConstRun; {}] = [{}];\n", g.names.len(), g.names.join(", ")).unwrap();
    let out_dir = std::env::var("OUT_DIR").unwrap();
    std::fs::write(std::path::Path::new(&out_dir).join("constcases.rs"), file).unwrap();
}
