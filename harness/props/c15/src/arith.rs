//! add / sub / neg / mul / square: every form of `Uint<N>` and of `BoxedUint` (precision 64·N)
//! against the reference routes `Uint::adc`, `Uint::sbb`, `Uint::split_mul`.

use crate::out::*;
use crate::{outcome, rt};
use crypto_bigint::{
    Checked, CheckedAdd, CheckedMul, CheckedSub, Limb, Uint, WideningMul, Wrapping, WrappingAdd, WrappingMul, WrappingNeg,
    WrappingSub,
};
use vmodel::gen;
use vmodel::*;

fn operands(t: &mut Tape, n: usize) -> (Limbs, Limbs) {
    match t.weighted(&[3, 2, 1]) {
        0 => gen::pair(t, n),
        1 => (gen::limbs(t, n), gen::limbs(t, n)),
        _ => {
            // a + b = 2^B - 1, 2^B, 2^B + 1 (carry boundary) / a - b = 0, ±1
            let a = gen::limbs(t, n);
            let mut b = a.clone();
            gen::not(&mut b); // a + b = MAX
            match t.below(3) {
                0 => {}
                1 => gen::inc(&mut b),
                _ => {
                    gen::inc(&mut b);
                    gen::inc(&mut b)
                }
            }
            (a, b)
        }
    }
}

/// The six operator forms of a `Copy` type that implements all of them.
macro_rules! ops6_copy {
    ($r:expr, $ty:literal, $op:tt, $opa:tt, $a:expr, $b:expr) => {{
        let (a, b) = ($a, $b);
        rt!($r, concat!($ty, " ", stringify!($op), " ", $ty), a $op b);
        rt!($r, concat!($ty, " ", stringify!($op), " &", $ty), a $op &b);
        rt!($r, concat!("&", $ty, " ", stringify!($op), " ", $ty), &a $op b);
        rt!($r, concat!("&", $ty, " ", stringify!($op), " &", $ty), &a $op &b);
        rt!($r, concat!($ty, " ", stringify!($opa), " ", $ty), { let mut x = a; x $opa b; x });
        rt!($r, concat!($ty, " ", stringify!($opa), " &", $ty), { let mut x = a; x $opa &b; x });
    }};
}
/// `T op T`, `T op &T`, `T op= T`, `T op= &T`
macro_rules! ops4_copy {
    ($r:expr, $ty:literal, $op:tt, $opa:tt, $a:expr, $b:expr) => {{
        let (a, b) = ($a, $b);
        rt!($r, concat!($ty, " ", stringify!($op), " ", $ty), a $op b);
        rt!($r, concat!($ty, " ", stringify!($op), " &", $ty), a $op &b);
        rt!($r, concat!($ty, " ", stringify!($opa), " ", $ty), { let mut x = a; x $opa b; x });
        rt!($r, concat!($ty, " ", stringify!($opa), " &", $ty), { let mut x = a; x $opa &b; x });
    }};
}
/// six forms of a `Clone` type
macro_rules! ops6_clone {
    ($r:expr, $ty:literal, $op:tt, $opa:tt, $a:expr, $b:expr) => {{
        let (a, b) = (&$a, &$b);
        rt!($r, concat!($ty, " ", stringify!($op), " ", $ty), a.clone() $op b.clone());
        rt!($r, concat!($ty, " ", stringify!($op), " &", $ty), a.clone() $op b);
        rt!($r, concat!("&", $ty, " ", stringify!($op), " ", $ty), a $op b.clone());
        rt!($r, concat!("&", $ty, " ", stringify!($op), " &", $ty), a $op b);
        rt!($r, concat!($ty, " ", stringify!($opa), " ", $ty), { let mut x = a.clone(); x $opa b.clone(); x });
        rt!($r, concat!($ty, " ", stringify!($opa), " &", $ty), { let mut x = a.clone(); x $opa b; x });
    }};
}
pub(crate) use {ops4_copy, ops6_clone, ops6_copy};

pub fn addsub<const N: usize>(t: &mut Tape, c: &mut Case) -> CaseResult {
    let (al, bl_) = operands(t, N);
    let cin = t.chance(1, 3) as u64;
    c.limbs("a", &al);
    c.limbs("b", &bl_);
    c.num("carry_in", cin);
    let (a, b) = (uint::<N>(&al), uint::<N>(&bl_));
    let (ba, bb) = (boxed(&al), boxed(&bl_));
    c.nontrivial(bit_len(&al) >= 2 && bit_len(&bl_) >= 2);

    // ---------------- addition: reference Uint::adc(a, b, 0) ----------------
    let (sum, carry) = total("Uint::adc", || a.adc(&b, Limb::ZERO))?;
    let ov = carry.0 != 0;
    c.label(if ov { "add: carries out" } else { "add: fits" });
    let w_wrap = Out::val(ul(&sum));
    let w_chk = if ov { Out::none() } else { w_wrap.clone() };
    let w_op = if ov { Out::Panic } else { w_wrap.clone() };
    let w_sat = if ov { Out::val(vec![u64::MAX; N]) } else { w_wrap.clone() };

    let r = Routes::new("add (wrapping)", "Uint::adc(a, b, 0).0", w_wrap.clone());
    rt!(r, "Uint::wrapping_add", a.wrapping_add(&b));
    rt!(r, "<Uint as WrappingAdd>::wrapping_add", WrappingAdd::wrapping_add(&a, &b));
    ops6_copy!(r, "Wrapping<Uint>", +, +=, Wrapping(a), Wrapping(b));
    rt!(r, "BoxedUint::wrapping_add", ba.wrapping_add(&bb));
    rt!(r, "<BoxedUint as WrappingAdd>::wrapping_add", WrappingAdd::wrapping_add(&ba, &bb));
    ops6_clone!(r, "Wrapping<BoxedUint>", +, +=, Wrapping(ba.clone()), Wrapping(bb.clone()));

    let r = Routes::new("add (saturating)", "Uint::adc(a, b, 0)", w_sat);
    rt!(r, "Uint::saturating_add", a.saturating_add(&b));

    let r = Routes::new("add (checked)", "Uint::adc(a, b, 0)", w_chk);
    rt!(r, "<Uint as CheckedAdd>::checked_add", CheckedAdd::checked_add(&a, &b));
    ops6_copy!(r, "Checked<Uint>", +, +=, Checked::new(a), Checked::new(b));
    rt!(r, "<BoxedUint as CheckedAdd>::checked_add", CheckedAdd::checked_add(&ba, &bb));

    let r = Routes::new("add (operator: panics on overflow)", "Uint::adc(a, b, 0)", w_op);
    ops4_copy!(r, "Uint", +, +=, a, b);
    ops6_clone!(r, "BoxedUint", +, +=, ba, bb);
    rt!(r, "BoxedUint + Uint", ba.clone() + b);
    rt!(r, "BoxedUint + &Uint", ba.clone() + &b);
    rt!(r, "&BoxedUint + Uint", &ba + b);
    rt!(r, "&BoxedUint + &Uint", &ba + &b);
    rt!(r, "BoxedUint += Uint", { let mut x = ba.clone(); x += b; x });
    rt!(r, "BoxedUint += &Uint", { let mut x = ba.clone(); x += &b; x });

    // with carry-in: fixed vs boxed adc / adc_assign
    let r = crate::reference!("adc with carry", "Uint::adc", a.adc(&b, Limb(cin)));
    rt!(r, "BoxedUint::adc", ba.adc(&bb, Limb(cin)));
    rt!(r, "BoxedUint::adc_assign(&BoxedUint)", { let mut x = ba.clone(); let k = x.adc_assign(&bb, Limb(cin)); (x, k) });
    rt!(r, "BoxedUint::adc_assign(&Uint)", { let mut x = ba.clone(); let k = x.adc_assign(&b, Limb(cin)); (x, k) });

    // ---------------- subtraction: reference Uint::sbb(a, b, 0) ----------------
    let (diff, borrow) = total("Uint::sbb", || a.sbb(&b, Limb::ZERO))?;
    let un = borrow.0 != 0;
    c.label(if un { "sub: borrows" } else { "sub: fits" });
    let w_wrap = Out::val(ul(&diff));
    let w_chk = if un { Out::none() } else { w_wrap.clone() };
    let w_op = if un { Out::Panic } else { w_wrap.clone() };
    let w_sat = if un { Out::val(vec![0; N]) } else { w_wrap.clone() };

    let r = Routes::new("sub (wrapping)", "Uint::sbb(a, b, 0).0", w_wrap);
    rt!(r, "Uint::wrapping_sub", a.wrapping_sub(&b));
    rt!(r, "<Uint as WrappingSub>::wrapping_sub", WrappingSub::wrapping_sub(&a, &b));
    ops6_copy!(r, "Wrapping<Uint>", -, -=, Wrapping(a), Wrapping(b));
    rt!(r, "BoxedUint::wrapping_sub", ba.wrapping_sub(&bb));
    rt!(r, "<BoxedUint as WrappingSub>::wrapping_sub", WrappingSub::wrapping_sub(&ba, &bb));
    ops6_clone!(r, "Wrapping<BoxedUint>", -, -=, Wrapping(ba.clone()), Wrapping(bb.clone()));

    let r = Routes::new("sub (saturating)", "Uint::sbb(a, b, 0)", w_sat);
    rt!(r, "Uint::saturating_sub", a.saturating_sub(&b));

    let r = Routes::new("sub (checked)", "Uint::sbb(a, b, 0)", w_chk);
    rt!(r, "<Uint as CheckedSub>::checked_sub", CheckedSub::checked_sub(&a, &b));
    ops6_copy!(r, "Checked<Uint>", -, -=, Checked::new(a), Checked::new(b));
    rt!(r, "<BoxedUint as CheckedSub>::checked_sub", CheckedSub::checked_sub(&ba, &bb));

    let r = Routes::new("sub (operator: panics on underflow)", "Uint::sbb(a, b, 0)", w_op);
    ops4_copy!(r, "Uint", -, -=, a, b);
    ops6_clone!(r, "BoxedUint", -, -=, ba, bb);
    rt!(r, "BoxedUint - Uint", ba.clone() - b);
    rt!(r, "BoxedUint - &Uint", ba.clone() - &b);
    rt!(r, "&BoxedUint - Uint", &ba - b);
    rt!(r, "&BoxedUint - &Uint", &ba - &b);
    rt!(r, "BoxedUint -= Uint", { let mut x = ba.clone(); x -= b; x });
    rt!(r, "BoxedUint -= &Uint", { let mut x = ba.clone(); x -= &b; x });

    let bin = if cin == 1 { Limb::MAX } else { Limb::ZERO };
    let r = crate::reference!("sbb with borrow", "Uint::sbb", a.sbb(&b, bin));
    rt!(r, "BoxedUint::sbb", ba.sbb(&bb, bin));
    rt!(r, "BoxedUint::sbb_assign(&BoxedUint)", { let mut x = ba.clone(); let k = x.sbb_assign(&bb, bin); (x, k) });
    rt!(r, "BoxedUint::sbb_assign(&Uint)", { let mut x = ba.clone(); let k = x.sbb_assign(&b, bin); (x, k) });

    // ---------------- negation: reference Uint::wrapping_neg ----------------
    let r = crate::reference!("neg", "Uint::wrapping_neg", a.wrapping_neg());
    rt!(r, "<Uint as WrappingNeg>::wrapping_neg", WrappingNeg::wrapping_neg(&a));
    rt!(r, "-Wrapping<Uint>", -Wrapping(a));
    rt!(r, "-&Wrapping<Uint>", -&Wrapping(a));
    rt!(r, "Uint::carrying_neg().0", a.carrying_neg().0);
    rt!(r, "Uint::wrapping_neg_if(true)", a.wrapping_neg_if(crypto_bigint::ConstChoice::TRUE));
    rt!(r, "0.wrapping_sub(a)", Uint::<N>::ZERO.wrapping_sub(&a));
    rt!(r, "BoxedUint::wrapping_neg", ba.wrapping_neg());
    rt!(r, "<BoxedUint as WrappingNeg>::wrapping_neg", WrappingNeg::wrapping_neg(&ba));
    rt!(r, "-Wrapping<BoxedUint>", -Wrapping(ba.clone()));
    rt!(r, "-&Wrapping<BoxedUint>", -&Wrapping(ba.clone()));
    rt!(r, "BoxedUint::conditional_negate(1)", {
        let mut x = ba.clone();
        subtle::ConditionallyNegatable::conditional_negate(&mut x, 1.into());
        x
    });
    let r = Routes::new("neg_if(false)", "identity", Out::val(al.clone()));
    rt!(r, "Uint::wrapping_neg_if(false)", a.wrapping_neg_if(crypto_bigint::ConstChoice::FALSE));
    rt!(r, "BoxedUint::conditional_negate(0)", {
        let mut x = ba.clone();
        subtle::ConditionallyNegatable::conditional_negate(&mut x, 0.into());
        x
    });

    // ---------------- primitives as right operands (boxed) ----------------
    let p = gen::word(t);
    c.num("prim", p);
    let r = crate::reference!("add primitive", "Uint + Uint::from(u64)", a + Uint::<N>::from(p));
    rt!(r, "BoxedUint + u64", ba.clone() + p);
    rt!(r, "&BoxedUint + u64", &ba + p);
    rt!(r, "BoxedUint += u64", { let mut x = ba.clone(); x += p; x });
    let r = crate::reference!("sub primitive", "Uint - Uint::from(u64)", a - Uint::<N>::from(p));
    rt!(r, "BoxedUint - u64", ba.clone() - p);
    rt!(r, "&BoxedUint - u64", &ba - p);
    rt!(r, "BoxedUint -= u64", { let mut x = ba.clone(); x -= p; x });
    let r = crate::reference!("add u32", "Uint + Uint::from(u32)", a + Uint::<N>::from(p as u32));
    rt!(r, "BoxedUint + u32", ba.clone() + (p as u32));
    let r = crate::reference!("add u16", "Uint + Uint::from(u16)", a + Uint::<N>::from(p as u16));
    rt!(r, "BoxedUint + u16", ba.clone() + (p as u16));
    rt!(r, "&BoxedUint + u16", &ba + (p as u16));
    let r = crate::reference!("sub u8", "Uint - Uint::from(u8)", a - Uint::<N>::from(p as u8));
    rt!(r, "BoxedUint - u8", ba.clone() - (p as u8));
    rt!(r, "BoxedUint -= u8", { let mut x = ba.clone(); x -= p as u8; x });
    if N >= 2 {
        let q = (p as u128) << 64 | bl_[0] as u128;
        let r = crate::reference!("add u128", "Uint + Uint::from(u128)", a + Uint::<N>::from(q));
        rt!(r, "BoxedUint + u128", ba.clone() + q);
        rt!(r, "&BoxedUint + u128", &ba + q);
        rt!(r, "BoxedUint += u128", { let mut x = ba.clone(); x += q; x });
        let r = crate::reference!("sub u128", "Uint - Uint::from(u128)", a - Uint::<N>::from(q));
        rt!(r, "BoxedUint - u128", ba.clone() - q);
        rt!(r, "&BoxedUint - u128", &ba - q);
        rt!(r, "BoxedUint -= u128", { let mut x = ba.clone(); x -= q; x });
    }
    let _ = outcome!(0u32);
    Ok(())
}

pub fn mul<const N: usize>(t: &mut Tape, c: &mut Case) -> CaseResult {
    let (al, bl_) = operands(t, N);
    c.limbs("a", &al);
    c.limbs("b", &bl_);
    let (a, b) = (uint::<N>(&al), uint::<N>(&bl_));
    let (ba, bb) = (boxed(&al), boxed(&bl_));

    // reference: Uint::split_mul
    let (lo, hi) = total("Uint::split_mul", || a.split_mul(&b))?;
    let ov = !is_zero(&ul(&hi));
    c.label(if ov { "mul: overflows the width" } else { "mul: fits" });
    c.nontrivial(bit_len(&al) >= 2 && bit_len(&bl_) >= 2 && (ov || bit_len(&ul(&lo)) > 64));
    let wide: Limbs = [ul(&lo), ul(&hi)].concat();
    let w_wrap = Out::val(ul(&lo));
    let w_chk = if ov { Out::none() } else { w_wrap.clone() };
    let w_op = if ov { Out::Panic } else { w_wrap.clone() };
    let w_sat = if ov { Out::val(vec![u64::MAX; N]) } else { w_wrap.clone() };

    let r = Routes::new("mul (wrapping)", "Uint::split_mul(a, b).0", w_wrap);
    rt!(r, "Uint::wrapping_mul", a.wrapping_mul(&b));
    rt!(r, "<Uint as WrappingMul>::wrapping_mul", WrappingMul::wrapping_mul(&a, &b));
    ops6_copy!(r, "Wrapping<Uint>", *, *=, Wrapping(a), Wrapping(b));
    rt!(r, "BoxedUint::wrapping_mul", ba.wrapping_mul(&bb));
    rt!(r, "<BoxedUint as WrappingMul>::wrapping_mul", WrappingMul::wrapping_mul(&ba, &bb));
    ops6_clone!(r, "Wrapping<BoxedUint>", *, *=, Wrapping(ba.clone()), Wrapping(bb.clone()));

    let r = Routes::new("mul (saturating)", "Uint::split_mul(a, b)", w_sat);
    rt!(r, "Uint::saturating_mul", a.saturating_mul(&b));

    let r = Routes::new("mul (checked)", "Uint::split_mul(a, b)", w_chk);
    rt!(r, "<Uint as CheckedMul>::checked_mul", CheckedMul::checked_mul(&a, &b));
    ops6_copy!(r, "Checked<Uint>", *, *=, Checked::new(a), Checked::new(b));
    rt!(r, "<BoxedUint as CheckedMul>::checked_mul", CheckedMul::checked_mul(&ba, &bb));

    let r = Routes::new("mul (operator: panics on overflow)", "Uint::split_mul(a, b)", w_op);
    ops6_copy!(r, "Uint", *, *=, a, b);
    rt!(r, "&BoxedUint * &BoxedUint", &ba * &bb);
    // the by-value / assigning boxed operator forms are checked in boxed/mul-operators (finding F-15)

    let r = Routes::new("mul (widening)", "Uint::split_mul(a, b) as lo||hi", Out::val(wide));
    rt!(r, "BoxedUint::mul", ba.mul(&bb));
    rt!(r, "<BoxedUint as WideningMul<&BoxedUint>>::widening_mul", WideningMul::widening_mul(&ba, &bb));
    rt!(r, "<BoxedUint as WideningMul<BoxedUint>>::widening_mul", WideningMul::widening_mul(&ba, bb.clone()));
    rt!(r, "commuted Uint::split_mul(b, a)", { let (l, h) = b.split_mul(&a); [ul(&l), ul(&h)].concat() });
    rt!(r, "commuted BoxedUint::mul(b, a)", bb.mul(&ba));

    // ---------------- squaring: reference Uint::square_wide ----------------
    let (slo, shi) = total("Uint::square_wide", || a.square_wide())?;
    let sov = !is_zero(&ul(&shi));
    let swide: Limbs = [ul(&slo), ul(&shi)].concat();
    let r = Routes::new("square (widening)", "Uint::square_wide(a) as lo||hi", Out::val(swide));
    rt!(r, "Uint::split_mul(a, a)", { let (l, h) = a.split_mul(&a); [ul(&l), ul(&h)].concat() });
    rt!(r, "BoxedUint::square", ba.square());
    rt!(r, "BoxedUint::mul(a, a)", ba.mul(&ba));
    let r = Routes::new("square (wrapping)", "Uint::square_wide(a).0", Out::val(ul(&slo)));
    rt!(r, "Uint::wrapping_square", a.wrapping_square());
    rt!(r, "Uint::wrapping_mul(a, a)", a.wrapping_mul(&a));
    let r = Routes::new("square (checked)", "Uint::square_wide(a)", if sov { Out::none() } else { Out::val(ul(&slo)) });
    rt!(r, "Uint::checked_square", a.checked_square());
    rt!(r, "<Uint as CheckedMul>::checked_mul(a, a)", CheckedMul::checked_mul(&a, &a));
    let r = Routes::new("square (saturating)", "Uint::square_wide(a)", if sov { Out::val(vec![u64::MAX; N]) } else { Out::val(ul(&slo)) });
    rt!(r, "Uint::saturating_square", a.saturating_square());
    rt!(r, "Uint::saturating_mul(a, a)", a.saturating_mul(&a));
    Ok(())
}

/// forms that need a `Concat` impl (W = 2N)
pub fn mul_wide<const N: usize, const W: usize>(t: &mut Tape, c: &mut Case) -> CaseResult
where
    Uint<N>: crypto_bigint::Concat<Output = Uint<W>>,
    Uint<N>: crypto_bigint::ConcatMixed<Uint<N>, MixedOutput = Uint<W>>,
{
    let (al, bl_) = operands(t, N);
    c.limbs("a", &al);
    c.limbs("b", &bl_);
    let (a, b) = (uint::<N>(&al), uint::<N>(&bl_));
    let (ba, bb) = (boxed(&al), boxed(&bl_));
    c.nontrivial(bit_len(&al) >= 2 && bit_len(&bl_) >= 2);
    let r = crate::reference!("mul (widening, Concat widths)", "Uint::split_mul as lo||hi", {
        let (l, h) = a.split_mul(&b);
        [ul(&l), ul(&h)].concat()
    });
    rt!(r, "Uint::widening_mul", a.widening_mul(&b));
    rt!(r, "<Uint as WideningMul<Uint>>::widening_mul", WideningMul::widening_mul(&a, b));
    rt!(r, "<Uint as WideningMul<&Uint>>::widening_mul", WideningMul::widening_mul(&a, &b));
    rt!(r, "BoxedUint::mul", ba.mul(&bb));
    let r = crate::reference!("square (widening, Concat widths)", "Uint::square_wide as lo||hi", {
        let (l, h) = a.square_wide();
        [ul(&l), ul(&h)].concat()
    });
    rt!(r, "Uint::square", a.square());
    rt!(r, "Uint::widening_square", a.widening_square());
    rt!(r, "BoxedUint::square", ba.square());
    Ok(())
}

/// Boxed multiplication operator forms at equal and mixed precisions; finding F-15: the by-value and
/// assigning forms return the widened product and never panic, `&a * &b` is the same-width checked
/// product.
pub fn boxed_mul_ops(max: usize) -> impl Fn(&mut Tape, &mut Case) -> CaseResult {
    move |t, c| {
        let l = t.usize_in(1, max);
        let r_ = match t.weighted(&[3, 2]) {
            0 => l,
            _ => t.usize_in(1, max),
        };
        let al = gen::limbs(t, l);
        let bl_ = match t.weighted(&[2, 1]) {
            0 => gen::limbs(t, r_),
            _ => gen::shape_z(t, r_),
        };
        c.limbs("a", &al);
        c.limbs("b", &bl_);
        c.label(if l == r_ { "boxed mul ops: equal precision" } else { "boxed mul ops: mixed precision" });
        let (ba, bb) = (boxed(&al), boxed(&bl_));
        // reference routes: the documented inherent / trait methods
        let wide = total("BoxedUint::mul", || ba.mul(&bb))?;
        veq!(wide.nlimbs(), l + r_, "BoxedUint::mul: documented limb count = sum of the input limb counts");
        let widel = bl(&wide);
        let ov = !is_zero(&widel[l..]);
        c.label(if ov { "boxed mul ops: product overflows lhs width" } else { "boxed mul ops: product fits lhs width" });
        c.nontrivial(bit_len(&al) >= 2 && bit_len(&bl_) >= 2);
        let lo = widel[..l].to_vec();
        let r = Routes::new("boxed mul (wrapping to the width of self)", "BoxedUint::mul low limbs", Out::val(lo.clone()));
        rt!(r, "BoxedUint::wrapping_mul", ba.wrapping_mul(&bb));
        rt!(r, "<BoxedUint as WrappingMul>::wrapping_mul", WrappingMul::wrapping_mul(&ba, &bb));
        ops6_clone!(r, "Wrapping<BoxedUint>", *, *=, Wrapping(ba.clone()), Wrapping(bb.clone()));
        let r = Routes::new("boxed mul (checked)", "BoxedUint::mul", if ov { Out::none() } else { Out::val(lo.clone()) });
        rt!(r, "<BoxedUint as CheckedMul>::checked_mul", CheckedMul::checked_mul(&ba, &bb));
        let w_op = if ov { Out::Panic } else { Out::val(lo.clone()) };
        let r = Routes::new("boxed mul (operator)", "BoxedUint::mul / checked_mul", w_op.clone());
        rt!(r, "&BoxedUint * &BoxedUint", &ba * &bb);
        let r = Routes::new("boxed mul (widening)", "BoxedUint::mul", Out::val(widel.clone()));
        rt!(r, "<BoxedUint as WideningMul<&BoxedUint>>", WideningMul::widening_mul(&ba, &bb));
        rt!(r, "<BoxedUint as WideningMul<BoxedUint>>", WideningMul::widening_mul(&ba, bb.clone()));

        // operator forms by value / assigning: must behave like `&a * &b` (and like every Uint operator form)
        let forms: Vec<(&str, Out)> = vec![
            ("BoxedUint * BoxedUint", outcome!(ba.clone() * bb.clone())),
            ("BoxedUint * &BoxedUint", outcome!(ba.clone() * &bb)),
            ("&BoxedUint * BoxedUint", outcome!(&ba * bb.clone())),
            ("BoxedUint *= BoxedUint", outcome!({ let mut x = ba.clone(); x *= bb.clone(); x })),
            ("BoxedUint *= &BoxedUint", outcome!({ let mut x = ba.clone(); x *= &bb; x })),
        ];
        let widened = Out::val(widel.clone());
        let mut f15 = vec![];
        for (name, got) in &forms {
            if *got == w_op {
                continue;
            }
            if *got == widened {
                // exact F-15 signature: no panic, limb count = l + r, value = the exact widened product
                f15.push(*name);
                continue;
            }
            vfail!("boxed mul (operator): route `{name}` gives {:?} but reference route `&BoxedUint * &BoxedUint` gives {:?}", got, w_op);
        }
        if !f15.is_empty() {
            return Err(Fail::known(
                "F-15",
                format!(
                    "{} return(s) the widened {}-limb product without panicking, while `&BoxedUint * &BoxedUint` gives {:?} ({}x{} limbs)",
                    f15.join(", "),
                    l + r_,
                    w_op,
                    l,
                    r_
                ),
            ));
        }
        Ok(())
    }
}

/// fixed mixed-width `Uint<L>::split_mul(&Uint<R>)` versus `BoxedUint::mul` at the same precisions
/// (the boxed Karatsuba path with trailing limbs; finding F-03)
pub fn mul_mixed<const L: usize, const R: usize>(t: &mut Tape, c: &mut Case) -> CaseResult {
    fn operand(t: &mut Tape, n: usize) -> Limbs {
        match t.weighted(&[3, 2, 2, 2]) {
            0 => {
                // every limb 0 or MAX: long carry chains through the trailing-limb rows
                let bits = t.expand(n.div_ceil(64));
                (0..n).map(|i| if (bits[i / 64] >> (i % 64)) & 1 == 1 { u64::MAX } else { 0 }).collect()
            }
            1 => vec![u64::MAX; n],
            2 => gen::shape_l(t, n),
            _ => gen::limbs(t, n),
        }
    }
    let al = operand(t, L);
    let bl_ = operand(t, R);
    c.limbs("a", &al);
    c.limbs("b", &bl_);
    c.nontrivial(bit_len(&al) >= 2 && bit_len(&bl_) >= 2);
    if al.iter().chain(bl_.iter()).all(|&w| w == 0 || w == u64::MAX) {
        c.label("mixed mul: all limbs in {0,MAX}");
    }
    let (a, b) = (uint::<L>(&al), uint::<R>(&bl_));
    let (ba, bb) = (boxed(&al), boxed(&bl_));
    let (lo, hi) = total("Uint::split_mul", || a.split_mul(&b))?;
    let want: Limbs = [ul(&lo), ul(&hi)].concat();
    // F-03 signature: both operands >= 32 limbs, unequal lengths, the boxed product is too small by a
    // sum of a few dropped carries 2^(64k); any other deviation is an ordinary failure
    let check_boxed = |name: &str, gotl: Limbs| -> CaseResult {
        if gotl == want {
            return Ok(());
        }
        let (w, g) = (big(&want), big(&gotl));
        if L.min(R) >= 32 && L != R && gotl.len() == want.len() && w > g {
            let d = &w - &g;
            let dl = limbs_of(&d, L + R);
            let ones = dl.iter().filter(|&&x| x != 0).count();
            if dl.iter().all(|&x| x <= 1) && ones <= 8 {
                return Err(Fail::known("F-03", format!("{name} ({L}x{R} limbs) is smaller than Uint::split_mul by dropped carries at limb boundaries (difference {:x})", d)));
            }
        }
        Err(Fail::new(format!("mul (widening, mixed widths {L}x{R}): route `{name}` gives {} but reference route `Uint::split_mul` gives {}", hex(&gotl), hex(&want))))
    };
    check_boxed("BoxedUint::mul", bl(&total("BoxedUint::mul", || ba.mul(&bb))?))?;
    check_boxed("BoxedUint::mul commuted", bl(&total("BoxedUint::mul commuted", || bb.mul(&ba))?))?;
    let r = Routes::new("mul mixed (wrapping)", "Uint::split_mul(a, b).0", Out::val(ul(&lo)));
    rt!(r, "Uint::wrapping_mul (mixed)", a.wrapping_mul(&b));
    rt!(r, "BoxedUint::wrapping_mul (mixed)", ba.wrapping_mul(&bb));
    let r = Routes::new("mul mixed (commuted)", "Uint::split_mul(a, b)", Out::val(want.clone()));
    rt!(r, "Uint::split_mul(b, a)", { let (l, h) = b.split_mul(&a); [ul(&l), ul(&h)].concat() });
    Ok(())
}
