//! C15 — all routes to the same operation give bit-identical results.
//!
//! Every API form ("route") of an operation is executed on the same operands under `guard`; its
//! outcome (panic / none / limb vectors *with their length*, i.e. precision) is compared with the
//! outcome of one reference route of that operation (`out.rs`). No arithmetic oracle decides a
//! verdict here: exactness belongs to C02..C10/C13/C14/C20; num-bigint is used only to construct
//! in-domain inputs (reduced residues, n = q·d + r, t²±1 …) and to classify cases.
#![allow(long_running_const_eval)]
pub mod arith;
pub mod boxedprec;
pub mod constcases;
pub mod divs;
pub mod enc;
pub mod gens;
pub mod modular;
pub mod monty;
pub mod out;
pub mod recip;
pub mod shifts;
pub mod small;

use vmodel::*;

pub fn spec() -> PropSpec {
    PropSpec {
        id: "C15",
        rule: "cases: for each operation family and each width N in {1,2,3,4,8,16,32,64} limbs one generated operand tuple (the generators of the corresponding exactness property: edge shapes K/P/L/R/T/U/Z and related pairs; carry-boundary pairs a+b = 2^B-1, 2^B, 2^B+1; division pairs n = q*d + r with r in {0,1,d-1,rand}, Knuth 3-by-2 overestimate divisors, single-limb / normalised / 2^k(+-1) divisors, dividend ~ divisor; shift amounts biased to 0, multiples of 64 +-1, BITS-1, BITS, 2*BITS, u32::MAX; perfect squares t^2, t^2+-1; odd-modulus classes, even s*2^k moduli, residues {0,1,m-1,m/2,random}, special moduli 2^B-c incl. c = MAX; gcd pairs with a common factor and powers of two; k in 0..=BITS and k > BITS for inversion mod 2^k; exponent windows) is fed to EVERY route of the operation: inherent ct method, `_vartime` variant, trait method (Integer, Checked*, Wrapping*, DivRemLimb, RemLimb, DivVartime, RemMixed, ShlVartime/ShrVartime, BitOps, Gcd, InvMod, Inverter/PrecomputeInverter, SquareRoot, Monty, MontyMultiplier, Square*, Pow*, Invert, Retrieve, Encoding, ArrayEncoding/ArrayDecoding, RandomMod, RandomBits, ConstantTimeSelect, subtle comparisons), operators by value / by reference / assigning (u32, i32, usize shift operands; Uint and primitive right operands for BoxedUint), the Wrapping and Checked wrappers, Reciprocal::new + *_with_reciprocal, precomputed inverters (reused on a second value), MontyParams::new vs new_vartime vs Monty::new_params_vartime vs impl_modulus!, each on Uint<N> AND on BoxedUint of 64*N bits (results compared as limb vectors including their length = precision), plus Int<N> and Limb forms, mixed-precision boxed forms (mul 33x36/32x35/36x33 limbs, div_rem_vartime, cmp across precisions, mul operators), boxed constructors with documented precision rounding, and 400+ expressions evaluated by rustc's CTFE in `const` items (operands fixed by a build-time seed) versus the same expression at run time on black_box'ed operands. Verdict per route: outcome (panic class / is_some / value / precision) equals the outcome of the family's reference route (Uint::adc, sbb, split_mul, div_rem, div_rem_limb, overflowing_shl/shr, inherent bit queries, Ord::cmp, add_mod..., inv_mod, inv_odd_mod, inv_mod2k, gcd, sqrt, MontyForm inherent methods, from_be_slice, to_be_bytes, to_string_radix_vartime, RandomMod on the same ChaCha8 stream incl. the next word of the stream). non-trivial: the rule of the underlying exactness property — add/sub/cmp/bit ops: both operands have >= 2 significant bits (non-zero, not equal for bit ops); mul: additionally the product overflows the width or needs > 1 limb; div: divisor >= 2 bits and dividend > divisor; div by limb: dividend > 1 limb (one-limb type: dividend > divisor) and divisor >= 2; shifts: value non-zero and shift >= 1; bit queries: value neither 0 nor MAX; modular: modulus >= 2 bits and operands non-zero (mul_mod: product >= modulus); inversion: gcd != 1 or even modulus or a >= m; inv mod 2^k: k >= 1; gcd: gcd != 1; sqrt: >= 3 bits; Montgomery: modulus >= 3 bits, values non-zero; encoding: neither 0 nor all-ones; radix: > 64 bits (one-limb type: > 32 bits); random: modulus >= 2 bits; precision: requested bits or growth not a multiple of 64; mixed precision: precisions differ and operands non-zero; const cases: always (each is a fixed non-degenerate expression). distinct by the recorded operands (limbs, shift / k / radix / seed / const-case index). Since seeding round 4: one monty case in eight uses a tuple on which the boxed ladder ends >= 2m (model search) or on exactly 0 / m / 2m (late zero), from c09::model.",
        assumptions: vec![
            "the reference route of each family is not itself a verdict on exactness (that is C02-C10, C13, C14, C20): a defect shared by all routes of an operation is invisible here by design".into(),
            "num-bigint is used only to construct in-domain inputs and to classify cases; bridging uses from_words/as_words only".into(),
            "inputs stay inside documented preconditions: residues reduced, moduli odd where documented, non-zero divisors, equal boxed precisions where the code asserts it, Limb shifts < 64, set_bit indices in range, Montgomery moduli >= 3 (modulus 1 belongs to C08), borrow words 0/MAX, carry words 0/1".into(),
            "where two documents disagree the check accepts both: wrapping shifts by >= BITS only have to agree between routes (all documented variants coincide with the reference today); overflowing_sh*_vartime_wide may return none for BITS <= shift < 2*BITS (its doc) or the shifted value (its code); Inverter trait routes are skipped for modulus 1; DecodeError::InputSize and ::Precision are one class".into(),
            "const-vs-runtime compares rustc's compile-time evaluation of the crate's const fns with the optimized machine code of the same source; operands come from a fixed build-time seed (build.rs), so this sub-check enumerates a fixed list rather than searching".into(),
            "formatting (Display/LowerHex/Binary) and serde are not treated as mathematical operations and are left to C16/C17/C18".into(),
        ],
        subchecks,
    }
}

macro_rules! paste_inv {
    (1) => { monty::params_inv_1 };
    (2) => { monty::params_inv_2 };
    (3) => { monty::params_inv_3 };
    (4) => { monty::params_inv_4 };
    (8) => { monty::params_inv_8 };
    (16) => { monty::params_inv_16 };
    (32) => { monty::params_inv_32 };
    (64) => { monty::params_inv_64 };
}

/// (limbs, double width, safegcd unsaturated limbs, exponent limbs); $q cheap cases, $h heavy
/// cases (safegcd / Montgomery), $tm thorough multiplier of the heavy ones
macro_rules! per_width {
    ($v:ident, $q:expr, $h:expr, $tm:expr; $(($n:tt, $w:literal, $u:literal, $e:literal)),*) => { $(
        $v.push(SubCheck::new(format!("inv/U{}", 64 * $n), $h, modular::inv::<$n, $u>).tape(60 + 10 * $n).thorough($tm));
        $v.push(SubCheck::new(format!("gcd/U{}", 64 * $n), $h, modular::gcd::<$n, $u>).tape(60 + 10 * $n).thorough($tm));
        $v.push(SubCheck::new(format!("monty/U{}", 64 * $n), $h, |t: &mut Tape, c: &mut Case| monty::monty::<$n, $w, $u, $e>(t, c, paste_inv!($n))).tape(80 + 12 * $n).thorough($tm));
        $v.push(SubCheck::new(format!("inv2k/U{}", 64 * $n), $h, modular::inv2k::<$n, $u>).tape(40 + 6 * $n).thorough($tm));
        $v.push(SubCheck::new(format!("addsub/U{}", 64 * $n), $q, arith::addsub::<$n>).tape(40 + 6 * $n));
        $v.push(SubCheck::new(format!("mul/U{}", 64 * $n), $q, arith::mul::<$n>).tape(40 + 6 * $n));
        $v.push(SubCheck::new(format!("mul-wide/U{}", 64 * $n), $q / 2, arith::mul_wide::<$n, $w>).tape(40 + 6 * $n));
        $v.push(SubCheck::new(format!("div/U{}", 64 * $n), $q, divs::div::<$n>).tape(60 + 8 * $n));
        $v.push(SubCheck::new(format!("div-limb/U{}", 64 * $n), $q, divs::div_limb::<$n>).tape(40 + 3 * $n));
        $v.push(SubCheck::new(format!("shift/U{}", 64 * $n), $q, shifts::shift::<$n>).tape(40 + 6 * $n));
        $v.push(SubCheck::new(format!("bits/U{}", 64 * $n), $q, shifts::bits::<$n>).tape(40 + 3 * $n));
        $v.push(SubCheck::new(format!("bitops/U{}", 64 * $n), $q / 2, shifts::bitops::<$n>).tape(40 + 6 * $n));
        $v.push(SubCheck::new(format!("cmp/U{}", 64 * $n), $q, shifts::cmp::<$n>).tape(40 + 6 * $n));
        $v.push(SubCheck::new(format!("modarith/U{}", 64 * $n), $q, modular::modarith::<$n>).tape(60 + 10 * $n));
        $v.push(SubCheck::new(format!("mulmod-wide/U{}", 64 * $n), $q / 4, modular::mulmod_wide::<$n, $w>).tape(60 + 10 * $n));
        $v.push(SubCheck::new(format!("modarith-special/U{}", 64 * $n), $q / 2, modular::special::<$n>).tape(60 + 10 * $n));
        $v.push(SubCheck::new(format!("sqrt/U{}", 64 * $n), $q / 4, modular::sqrt::<$n>).tape(40 + 6 * $n));
        $v.push(SubCheck::new(format!("bytes/U{}", 64 * $n), $q / 2, enc::bytes::<$n>).tape(40 + 3 * $n));
        $v.push(SubCheck::new(format!("radix/U{}", 64 * $n), $q / 4, enc::radix::<$n>).tape(40 + 3 * $n));
        $v.push(SubCheck::new(format!("random/U{}", 64 * $n), $q / 2, enc::random::<$n>).tape(40 + 3 * $n));
    )* };
}

fn subchecks(_ctx: &Ctx) -> Vec<SubCheck> {
    let mut v = vec![];
    // widest first: their heavy sub-checks (safegcd, Montgomery) are single shards and bound the wall time
    per_width!(v, 600, 24, 6; (64, 128, 68, 1));
    per_width!(v, 1200, 60, 8; (32, 64, 35, 1));
    per_width!(v, 2500, 200, 10; (16, 32, 18, 1));
    per_width!(v, 4000, 600, 20; (8, 16, 10, 2));
    per_width!(v, 6000, 1500, 30; (4, 8, 6, 4), (3, 6, 5, 3), (2, 4, 4, 2), (1, 2, 3, 1));
    v.push(SubCheck::new("limb", 20000, small::limb).tape(16));
    // routes with / without the 64-bit reciprocal on every slim-margin divisor prefix (recip.rs)
    v.push(SubCheck::new("mul_mod-routes/reciprocal-margins", 8000, recip::mul_mod_routes).tape(12).thorough(2));
    v.push(SubCheck::new("int-arith/I64", 4000, small::int_arith::<1>).tape(60));
    v.push(SubCheck::new("int-arith/I128", 4000, small::int_arith::<2>).tape(70));
    v.push(SubCheck::new("int-arith/I256", 4000, small::int_arith::<4>).tape(80));
    v.push(SubCheck::new("int-arith/I1024", 2000, small::int_arith::<16>).tape(160));
    v.push(SubCheck::new("int-div/I64", 4000, small::int_div::<1>).tape(60));
    v.push(SubCheck::new("int-div/I128", 4000, small::int_div::<2>).tape(70));
    v.push(SubCheck::new("int-div/I256", 4000, small::int_div::<4>).tape(80));
    v.push(SubCheck::new("int-div/I1024", 2000, small::int_div::<16>).tape(160));
    v.push(SubCheck::new("const-vs-runtime", 6 * constcases::ncases() as u64, constcases::case).tape(4).thorough(2));
    v.push(SubCheck::new("boxed/precision/1..=6", 6000, boxedprec::precision(6)).tape(60));
    v.push(SubCheck::new("boxed/mul-operators/1..=8", 4000, arith::boxed_mul_ops(8)).tape(80));
    v.push(SubCheck::new("boxed/mul-operators/1..=40", 1000, arith::boxed_mul_ops(40)).tape(260));
    v.push(SubCheck::new("boxed/cmp-mixed/1..=8", 6000, shifts::boxed_cmp_mixed(8)).tape(80));
    v.push(SubCheck::new("mul-mixed/33x36", 1500, arith::mul_mixed::<33, 36>).tape(120));
    v.push(SubCheck::new("mul-mixed/36x33", 1000, arith::mul_mixed::<36, 33>).tape(120));
    v.push(SubCheck::new("mul-mixed/32x35", 1000, arith::mul_mixed::<32, 35>).tape(120));
    v.push(SubCheck::new("mul-mixed/33x34", 1000, arith::mul_mixed::<33, 34>).tape(120));
    v.push(SubCheck::new("mul-mixed/3x5", 2000, arith::mul_mixed::<3, 5>).tape(60));
    v.push(SubCheck::new("div-mixed/4x2", 3000, divs::div_mixed::<4, 2>).tape(80));
    v.push(SubCheck::new("div-mixed/2x4", 3000, divs::div_mixed::<2, 4>).tape(80));
    v.push(SubCheck::new("div-mixed/8x3", 2000, divs::div_mixed::<8, 3>).tape(100));
    v.push(SubCheck::new("rem-mixed/U256xU192", 2000, divs::rem_mixed_fixed::<4, 3>).tape(80));
    v.push(SubCheck::new("rem-mixed/U512xU192", 2000, divs::rem_mixed_fixed::<8, 3>).tape(100));
    v
}
