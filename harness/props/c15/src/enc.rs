//! byte / hex / radix conversions and random sampling: fixed vs boxed, inherent vs `Encoding` /
//! `ArrayEncoding` / `ArrayDecoding` / `RandomMod` / `RandomBits` traits.

use crate::gens;
use crate::out::*;
use crate::{outcome, rt};
use crypto_bigint::{ArrayDecoding, ArrayEncoding, BoxedUint, ByteArray, DecodeError, Encoding, NonZero, RandomBits, RandomMod, Uint};
use rand_chacha::ChaCha8Rng;
use rand_core::{RngCore, SeedableRng};
use vmodel::gen;
use vmodel::*;

fn be_bytes(l: &[u64]) -> Vec<u8> {
    l.iter().rev().flat_map(|w| w.to_be_bytes()).collect()
}
fn hexs(b: &[u8], upper: bool) -> String {
    b.iter().map(|x| if upper { format!("{:02X}", x) } else { format!("{:02x}", x) }).collect()
}

pub fn bytes<const N: usize>(t: &mut Tape, c: &mut Case) -> CaseResult
where
    Uint<N>: Encoding + ArrayEncoding,
    ByteArray<Uint<N>>: ArrayDecoding<Output = Uint<N>>,
{
    let al = gen::limbs(t, N);
    let upper = t.bool();
    c.limbs("a", &al);
    c.num("upper_hex", upper as u64);
    c.nontrivial(!is_zero(&al) && al.iter().any(|&w| w != u64::MAX));
    let be = be_bytes(&al);
    let le: Vec<u8> = be.iter().rev().copied().collect();
    let bits = 64 * N as u32;
    let a = uint::<N>(&al);
    let ba = boxed(&al);
    let repr = |b: &[u8]| <Uint<N> as Encoding>::Repr::try_from(b).expect("harness: repr length");
    let arr = |b: &[u8]| ByteArray::<Uint<N>>::try_from(b).expect("harness: array length");

    // decoding
    let r = crate::reference!("decode big endian", "Uint::from_be_slice", Uint::<N>::from_be_slice(&be));
    veq!(r.want, Out::val(al.clone()), "Uint::from_be_slice of the big-endian bytes of the limbs");
    rt!(r, "<Uint as Encoding>::from_be_bytes", <Uint<N> as Encoding>::from_be_bytes(repr(&be)));
    rt!(r, "<Uint as ArrayEncoding>::from_be_byte_array", <Uint<N> as ArrayEncoding>::from_be_byte_array(arr(&be)));
    rt!(r, "<Array as ArrayDecoding>::into_uint_be", arr(&be).into_uint_be());
    rt!(r, "Uint::from_be_hex", Uint::<N>::from_be_hex(&hexs(&be, upper)));
    rt!(r, "BoxedUint::from_be_slice(.., 64N)", BoxedUint::from_be_slice(&be, bits).ok());
    rt!(r, "BoxedUint::from_be_hex(.., 64N)", BoxedUint::from_be_hex(&hexs(&be, upper), bits));
    rt!(r, "Uint::from_le_slice", Uint::<N>::from_le_slice(&le));
    rt!(r, "<Uint as Encoding>::from_le_bytes", <Uint<N> as Encoding>::from_le_bytes(repr(&le)));
    rt!(r, "<Uint as ArrayEncoding>::from_le_byte_array", <Uint<N> as ArrayEncoding>::from_le_byte_array(arr(&le)));
    rt!(r, "<Array as ArrayDecoding>::into_uint_le", arr(&le).into_uint_le());
    rt!(r, "Uint::from_le_hex", Uint::<N>::from_le_hex(&hexs(&le, upper)));
    rt!(r, "BoxedUint::from_le_slice(.., 64N)", BoxedUint::from_le_slice(&le, bits).ok());
    rt!(r, "BoxedUint::from(Uint)", BoxedUint::from(a));
    rt!(r, "BoxedUint::from(&Uint)", BoxedUint::from(&a));
    rt!(r, "Uint::from(&Uint) (same width)", Uint::<N>::from(&a));
    rt!(r, "Uint::resize (same width)", a.resize::<N>());
    // a shorter big-endian string is zero-extended by the boxed decoder (length <= precision is documented as accepted)
    let lead = be.iter().take_while(|&&b| b == 0).count();
    if lead > 0 && lead < be.len() {
        c.label("bytes: leading zero bytes stripped for the boxed decoder");
        rt!(r, "BoxedUint::from_be_slice(stripped, 64N)", BoxedUint::from_be_slice(&be[lead..], bits).ok());
        rt!(r, "BoxedUint::from_le_slice(stripped, 64N)", BoxedUint::from_le_slice(&le[..le.len() - lead], bits).ok());
    }

    // encoding
    let r = crate::reference!("encode big endian", "<Uint as Encoding>::to_be_bytes", <Uint<N> as Encoding>::to_be_bytes(&a).as_ref().to_vec());
    veq!(r.want, outcome!(be.clone()), "<Uint as Encoding>::to_be_bytes of from_words(limbs)");
    rt!(r, "<Uint as ArrayEncoding>::to_be_byte_array", a.to_be_byte_array().to_vec());
    rt!(r, "BoxedUint::to_be_bytes", ba.to_be_bytes().to_vec());
    rt!(r, "reversed <Uint as Encoding>::to_le_bytes", { let mut v = <Uint<N> as Encoding>::to_le_bytes(&a).as_ref().to_vec(); v.reverse(); v });
    rt!(r, "reversed <Uint as ArrayEncoding>::to_le_byte_array", { let mut v = a.to_le_byte_array().to_vec(); v.reverse(); v });
    rt!(r, "reversed BoxedUint::to_le_bytes", { let mut v = ba.to_le_bytes().to_vec(); v.reverse(); v });
    Ok(())
}

pub fn radix<const N: usize>(t: &mut Tape, c: &mut Case) -> CaseResult {
    let al = match t.weighted(&[3, 1]) {
        0 => gen::limbs(t, N),
        _ => gen::shape_z(t, N),
    };
    let radix = match t.weighted(&[2, 2]) {
        0 => t.pick(&[2u32, 4, 8, 10, 16, 32, 36, 3]),
        _ => t.u32_in(2, 36),
    };
    c.limbs("a", &al);
    c.num("radix", radix as u64);
    c.nontrivial(bit_len(&al) > if N == 1 { 32 } else { 64 });
    let bits = 64 * N as u32;
    let a = uint::<N>(&al);
    let ba = boxed(&al);

    let r = crate::reference!("to_string_radix", "Uint::to_string_radix_vartime", a.to_string_radix_vartime(radix));
    rt!(r, "BoxedUint::to_string_radix_vartime", ba.to_string_radix_vartime(radix));
    let s = total("Uint::to_string_radix_vartime", || a.to_string_radix_vartime(radix))?;

    // decorate: optional '+', underscores between digits, upper case
    let deco = t.weighted(&[2, 1, 1, 1]);
    let mut text = s.clone();
    match deco {
        1 => text = format!("+{s}"),
        2 => {
            let mut o = String::new();
            for (i, ch) in s.chars().enumerate() {
                if i > 0 && i % 3 == 0 {
                    o.push('_');
                }
                o.push(ch);
            }
            text = o;
        }
        3 => text = s.to_uppercase(),
        _ => {}
    }
    c.text("text", &text);
    let parse_class = |r: Result<Limbs, DecodeError>| -> Out {
        match r {
            Ok(v) => Out::val(v),
            // the size-related variants are documented differently for the two types
            Err(DecodeError::InputSize) | Err(DecodeError::Precision) => Out::vals(vec![vec![0xE0]]),
            Err(DecodeError::InvalidDigit) => Out::vals(vec![vec![0xE1]]),
            Err(DecodeError::Empty) => Out::vals(vec![vec![0xE2]]),
        }
    };
    let r = Routes::new("from_str_radix", "Uint::from_str_radix_vartime", match guard(|| Uint::<N>::from_str_radix_vartime(&text, radix)) {
        Ok(x) => parse_class(x.map(|v| ul(&v))),
        Err(_) => Out::Panic,
    });
    veq!(r.want, Out::val(al.clone()), "Uint::from_str_radix_vartime(to_string_radix_vartime(a))");
    let chk = |name: &str, g: Result<Result<Limbs, DecodeError>, String>| -> CaseResult {
        r.check(name, match g {
            Ok(x) => parse_class(x),
            Err(_) => Out::Panic,
        })
    };
    chk("<Uint as num_traits::Num>::from_str_radix", guard(|| <Uint<N> as num_traits::Num>::from_str_radix(&text, radix).map(|v| ul(&v))))?;
    chk("BoxedUint::from_str_radix_with_precision_vartime(.., 64N)", guard(|| BoxedUint::from_str_radix_with_precision_vartime(&text, radix, bits).map(|v| bl(&v))))?;
    chk("BoxedUint::from_str_radix_vartime + widen", guard(|| {
        BoxedUint::from_str_radix_vartime(&text, radix).map(|v| if v.bits_precision() <= bits { bl(&v.widen(bits)) } else { bl(&v) })
    }))?;

    // error classes agree: a value of B+1 .. bits, an invalid digit
    if t.chance(1, 4) {
        c.label("radix: oversized / invalid strings");
        let big_s = {
            let v = pow2(bits as u64) + big(&al);
            v.to_str_radix(radix)
        };
        let r = Routes::new("from_str_radix (value >= 2^BITS)", "Uint::from_str_radix_vartime", match guard(|| Uint::<N>::from_str_radix_vartime(&big_s, radix)) {
            Ok(x) => parse_class(x.map(|v| ul(&v))),
            Err(_) => Out::Panic,
        });
        r.check("BoxedUint::from_str_radix_with_precision_vartime", match guard(|| BoxedUint::from_str_radix_with_precision_vartime(&big_s, radix, bits)) {
            Ok(x) => parse_class(x.map(|v| bl(&v))),
            Err(_) => Out::Panic,
        })?;
        vensure!(r.want == Out::vals(vec![vec![0xE0]]), "Uint::from_str_radix_vartime accepted a value >= 2^BITS: {:?}", r.want);
        let bad_digit = std::char::from_digit(radix, 36).unwrap_or('~');
        let bad = format!("{s}{bad_digit}");
        let r = Routes::new("from_str_radix (invalid digit)", "Uint::from_str_radix_vartime", match guard(|| Uint::<N>::from_str_radix_vartime(&bad, radix)) {
            Ok(x) => parse_class(x.map(|v| ul(&v))),
            Err(_) => Out::Panic,
        });
        r.check("BoxedUint::from_str_radix_with_precision_vartime", match guard(|| BoxedUint::from_str_radix_with_precision_vartime(&bad, radix, bits)) {
            Ok(x) => parse_class(x.map(|v| bl(&v))),
            Err(_) => Out::Panic,
        })?;
        r.check("BoxedUint::from_str_radix_vartime", match guard(|| BoxedUint::from_str_radix_vartime(&bad, radix)) {
            Ok(x) => parse_class(x.map(|_| vec![])),
            Err(_) => Out::Panic,
        })?;
    }
    Ok(())
}

pub fn random<const N: usize>(t: &mut Tape, c: &mut Case) -> CaseResult {
    let bits = 64 * N as u32;
    let seed = t.u64();
    let (ml, class) = match t.weighted(&[3, 2, 1]) {
        0 => gens::any_modulus(t, N),
        1 => (gen::nonzero(t, N), "m any shape"),
        _ => {
            // modulus with a small top limb: many rejections
            let mut v = gen::nonzero(t, N);
            let k = gens::sig_limbs(&v);
            v[k - 1] = t.pick(&[1u64, 2, 3, 1 << 32, (1 << 63) + 1]);
            (v, "m small top limb")
        }
    };
    let bl_ = gens::shift_in(t, bits);
    c.num("seed", seed);
    c.limbs("m", &ml);
    c.num("bit_length", bl_ as u64);
    c.label(class);
    c.nontrivial(bit_len(&ml) >= 2);
    let m = NonZero::new(uint::<N>(&ml)).unwrap();
    let bm = NonZero::new(boxed(&ml)).unwrap();
    let rng = || ChaCha8Rng::seed_from_u64(seed);
    // value and the next word of the stream (consumption)
    let r = crate::reference!("random_mod", "<Uint as RandomMod>::random_mod", { let mut g = rng(); let v = Uint::<N>::random_mod(&mut g, &m); (v, g.next_u64()) });
    rt!(r, "<Uint as RandomMod>::try_random_mod", { let mut g = rng(); let v = Uint::<N>::try_random_mod(&mut g, &m).unwrap(); (v, g.next_u64()) });
    rt!(r, "<BoxedUint as RandomMod>::random_mod", { let mut g = rng(); let v = BoxedUint::random_mod(&mut g, &bm); (v, g.next_u64()) });
    rt!(r, "<BoxedUint as RandomMod>::try_random_mod", { let mut g = rng(); let v = BoxedUint::try_random_mod(&mut g, &bm).unwrap(); (v, g.next_u64()) });

    let r = crate::reference!("random_bits", "<Uint as RandomBits>::try_random_bits", { let mut g = rng(); let v = Uint::<N>::try_random_bits(&mut g, bl_).ok(); (v, g.next_u64()) });
    rt!(r, "<Uint as RandomBits>::random_bits", { let mut g = rng(); let v = Uint::<N>::random_bits(&mut g, bl_); (v, g.next_u64()) });
    rt!(r, "<Uint as RandomBits>::try_random_bits_with_precision", { let mut g = rng(); let v = Uint::<N>::try_random_bits_with_precision(&mut g, bl_, bits).ok(); (v, g.next_u64()) });
    rt!(r, "<Uint as RandomBits>::random_bits_with_precision", { let mut g = rng(); let v = Uint::<N>::random_bits_with_precision(&mut g, bl_, bits); (v, g.next_u64()) });
    rt!(r, "<BoxedUint as RandomBits>::try_random_bits_with_precision", { let mut g = rng(); let v = BoxedUint::try_random_bits_with_precision(&mut g, bl_, bits).ok(); (v, g.next_u64()) });
    rt!(r, "<BoxedUint as RandomBits>::random_bits_with_precision", { let mut g = rng(); let v = BoxedUint::random_bits_with_precision(&mut g, bl_, bits); (v, g.next_u64()) });
    // error class: bit_length above the precision
    let r = crate::reference!("random_bits (bit_length > precision)", "<Uint as RandomBits>::try_random_bits", { let mut g = rng(); Uint::<N>::try_random_bits(&mut g, bits + 1).ok() });
    rt!(r, "<BoxedUint as RandomBits>::try_random_bits_with_precision", { let mut g = rng(); BoxedUint::try_random_bits_with_precision(&mut g, bits + 1, bits).ok() });
    vensure!(r.want == Out::none(), "try_random_bits(BITS + 1) must be an error (documented BitLengthTooLarge)");
    Ok(())
}
