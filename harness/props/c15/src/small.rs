//! `Limb` and `Int<N>`: operators / wrappers / traits versus the inherent methods, ct vs vartime.

use crate::arith::{ops4_copy, ops6_copy};
use crate::out::*;
use crate::{outcome, rt};
use crypto_bigint::{
    Checked, CheckedAdd, CheckedDiv, CheckedMul, CheckedSub, ConstChoice, DivVartime, Int, Limb, NonZero, ShlVartime, ShrVartime, Uint,
    Wrapping, WrappingAdd, WrappingMul, WrappingNeg, WrappingShl, WrappingShr, WrappingSub,
};
use std::cmp::Ordering;
use subtle::{ConstantTimeEq, ConstantTimeGreater, ConstantTimeLess};
use vmodel::gen;
use vmodel::*;

pub fn limb(t: &mut Tape, c: &mut Case) -> CaseResult {
    let (aw, bw) = match t.weighted(&[3, 1, 1]) {
        0 => (gen::word(t), gen::word(t)),
        1 => {
            let a = gen::word(t);
            (a, (!a).wrapping_add(t.below(3))) // a + b = MAX, MAX+1, MAX+2
        }
        _ => {
            let a = gen::word(t);
            (a, a.wrapping_add(t.below(3)).wrapping_sub(1)) // b = a-1, a, a+1
        }
    };
    let s = t.below(64) as u32;
    c.num("a", aw);
    c.num("b", bw);
    c.num("shift", s as u64);
    c.nontrivial(aw >= 2 && bw >= 2);
    let (a, b) = (Limb(aw), Limb(bw));

    // add
    let (sum, carry) = a.overflowing_add(b);
    let ov = carry.0 != 0;
    let w = Out::val(vec![sum.0]);
    let r = Routes::new("limb add (wrapping)", "Limb::overflowing_add", w.clone());
    rt!(r, "Limb::adc(.., 0).0", a.adc(b, Limb::ZERO).0);
    rt!(r, "Limb::wrapping_add", a.wrapping_add(b));
    rt!(r, "<Limb as WrappingAdd>::wrapping_add", WrappingAdd::wrapping_add(&a, &b));
    ops6_copy!(r, "Wrapping<Limb>", +, +=, Wrapping(a), Wrapping(b));
    let r = Routes::new("limb add (carry)", "Limb::overflowing_add", Out::val(vec![carry.0]));
    rt!(r, "Limb::adc(.., 0).1", a.adc(b, Limb::ZERO).1);
    let r = Routes::new("limb add (checked)", "Limb::overflowing_add", if ov { Out::none() } else { w.clone() });
    rt!(r, "<Limb as CheckedAdd>::checked_add", CheckedAdd::checked_add(&a, &b));
    ops6_copy!(r, "Checked<Limb>", +, +=, Checked::new(a), Checked::new(b));
    let r = Routes::new("limb add (saturating)", "Limb::overflowing_add", if ov { Out::val(vec![u64::MAX]) } else { w.clone() });
    rt!(r, "Limb::saturating_add", a.saturating_add(b));
    let r = Routes::new("limb add (operator)", "Limb::overflowing_add", if ov { Out::Panic } else { w });
    rt!(r, "Limb + Limb", a + b);

    // sub
    let (diff, borrow) = a.sbb(b, Limb::ZERO);
    let un = borrow.0 != 0;
    let w = Out::val(vec![diff.0]);
    let r = Routes::new("limb sub (wrapping)", "Limb::sbb(.., 0)", w.clone());
    rt!(r, "Limb::wrapping_sub", a.wrapping_sub(b));
    rt!(r, "<Limb as WrappingSub>::wrapping_sub", WrappingSub::wrapping_sub(&a, &b));
    ops6_copy!(r, "Wrapping<Limb>", -, -=, Wrapping(a), Wrapping(b));
    let r = Routes::new("limb sub (checked)", "Limb::sbb(.., 0)", if un { Out::none() } else { w.clone() });
    rt!(r, "<Limb as CheckedSub>::checked_sub", CheckedSub::checked_sub(&a, &b));
    ops6_copy!(r, "Checked<Limb>", -, -=, Checked::new(a), Checked::new(b));
    let r = Routes::new("limb sub (saturating)", "Limb::sbb(.., 0)", if un { Out::val(vec![0]) } else { w.clone() });
    rt!(r, "Limb::saturating_sub", a.saturating_sub(b));
    let r = Routes::new("limb sub (operator)", "Limb::sbb(.., 0)", if un { Out::Panic } else { w });
    rt!(r, "Limb - Limb", a - b);
    rt!(r, "Limb - &Limb", a - &b);

    // mul
    let (lo, hi) = Limb::ZERO.mac(a, b, Limb::ZERO);
    let ov = hi.0 != 0;
    let w = Out::val(vec![lo.0]);
    let r = Routes::new("limb mul (wrapping)", "Limb::mac(0, a, b, 0).0", w.clone());
    rt!(r, "Limb::wrapping_mul", a.wrapping_mul(b));
    rt!(r, "<Limb as WrappingMul>::wrapping_mul", WrappingMul::wrapping_mul(&a, &b));
    ops6_copy!(r, "Wrapping<Limb>", *, *=, Wrapping(a), Wrapping(b));
    let r = Routes::new("limb mul (checked)", "Limb::mac(0, a, b, 0)", if ov { Out::none() } else { w.clone() });
    rt!(r, "<Limb as CheckedMul>::checked_mul", CheckedMul::checked_mul(&a, &b));
    ops6_copy!(r, "Checked<Limb>", *, *=, Checked::new(a), Checked::new(b));
    let r = Routes::new("limb mul (saturating)", "Limb::mac(0, a, b, 0)", if ov { Out::val(vec![u64::MAX]) } else { w.clone() });
    rt!(r, "Limb::saturating_mul", a.saturating_mul(b));
    let r = Routes::new("limb mul (operator)", "Limb::mac(0, a, b, 0)", if ov { Out::Panic } else { w });
    rt!(r, "Limb * Limb", a * b);
    rt!(r, "Limb * &Limb", a * &b);
    rt!(r, "&Limb * Limb", &a * b);
    rt!(r, "&Limb * &Limb", &a * &b);
    // fixed one-limb Uint agrees with Limb
    let r = Routes::new("limb mul (wide)", "Limb::mac(0, a, b, 0)", Out::vals(vec![vec![lo.0], vec![hi.0]]));
    rt!(r, "Uint<1>::split_mul", Uint::<1>::from(a).split_mul(&Uint::<1>::from(b)));

    // neg, bit ops
    let r = crate::reference!("limb neg", "Limb::wrapping_neg", a.wrapping_neg());
    rt!(r, "<Limb as WrappingNeg>::wrapping_neg", WrappingNeg::wrapping_neg(&a));
    rt!(r, "-Wrapping<Limb>", -Wrapping(a));
    rt!(r, "0.wrapping_sub(a)", Limb::ZERO.wrapping_sub(a));
    let r = crate::reference!("limb and", "Limb::bitand", a.bitand(b));
    rt!(r, "Limb & Limb", a & b);
    rt!(r, "Limb &= Limb", { let mut x = a; x &= b; x });
    rt!(r, "Limb &= &Limb", { let mut x = a; x &= &b; x });
    let r = crate::reference!("limb or", "Limb::bitor", a.bitor(b));
    rt!(r, "Limb | Limb", a | b);
    rt!(r, "Limb |= Limb", { let mut x = a; x |= b; x });
    let r = crate::reference!("limb xor", "Limb::bitxor", a.bitxor(b));
    rt!(r, "Limb ^ Limb", a ^ b);
    rt!(r, "Limb ^= Limb", { let mut x = a; x ^= b; x });
    let r = crate::reference!("limb not", "Limb::not", a.not());
    rt!(r, "!Limb", !a);

    // shifts (shift < 64: the documented domain of the panicking forms)
    let r = crate::reference!("limb shl", "Limb::shl", a.shl(s));
    rt!(r, "Limb << u32", a << s);
    rt!(r, "&Limb << u32", &a << s);
    rt!(r, "Limb << usize", a << (s as usize));
    rt!(r, "Limb << i32", a << (s as i32));
    rt!(r, "Limb <<= u32", { let mut x = a; x <<= s; x });
    rt!(r, "<Limb as WrappingShl>::wrapping_shl", WrappingShl::wrapping_shl(&a, s));
    rt!(r, "Wrapping<Limb> << u32", Wrapping(a) << s);
    rt!(r, "Uint<1>::shl", Uint::<1>::from(a).shl(s));
    let r = crate::reference!("limb shr", "Limb::shr", a.shr(s));
    rt!(r, "Limb >> u32", a >> s);
    rt!(r, "&Limb >> u32", &a >> s);
    rt!(r, "Limb >> usize", a >> (s as usize));
    rt!(r, "Limb >> i32", a >> (s as i32));
    rt!(r, "Limb >>= u32", { let mut x = a; x >>= s; x });
    rt!(r, "<Limb as WrappingShr>::wrapping_shr", WrappingShr::wrapping_shr(&a, s));
    rt!(r, "Wrapping<Limb> >> u32", Wrapping(a) >> s);
    rt!(r, "Uint<1>::shr", Uint::<1>::from(a).shr(s));

    // bit counts against the one-limb Uint
    let u = Uint::<1>::from(a);
    let r = crate::reference!("limb bits", "Limb::bits", a.bits());
    rt!(r, "Uint<1>::bits", u.bits());
    let r = crate::reference!("limb leading_zeros", "Limb::leading_zeros", a.leading_zeros());
    rt!(r, "Uint<1>::leading_zeros", u.leading_zeros());
    let r = crate::reference!("limb trailing_zeros", "Limb::trailing_zeros", a.trailing_zeros());
    rt!(r, "Uint<1>::trailing_zeros", u.trailing_zeros());
    let r = crate::reference!("limb trailing_ones", "Limb::trailing_ones", a.trailing_ones());
    rt!(r, "Uint<1>::trailing_ones", u.trailing_ones());

    // comparisons
    let ord = Ord::cmp(&a, &b);
    let r = Routes::new("limb cmp", "<Limb as Ord>::cmp", outcome!(ord));
    rt!(r, "Limb::cmp_vartime", a.cmp_vartime(&b));
    rt!(r, "<Limb as PartialOrd>::partial_cmp", a.partial_cmp(&b).unwrap());
    rt!(r, "Uint<1> cmp", Ord::cmp(&Uint::<1>::from(a), &Uint::<1>::from(b)));
    let r = Routes::new("limb eq", "<Limb as Ord>::cmp", outcome!(ord == Ordering::Equal));
    rt!(r, "Limb == Limb", a == b);
    rt!(r, "Limb::eq_vartime", a.eq_vartime(&b));
    rt!(r, "<Limb as ConstantTimeEq>::ct_eq", a.ct_eq(&b));
    let r = Routes::new("limb lt", "<Limb as Ord>::cmp", outcome!(ord == Ordering::Less));
    rt!(r, "Limb < Limb", a < b);
    rt!(r, "<Limb as ConstantTimeLess>::ct_lt", a.ct_lt(&b));
    rt!(r, "<Limb as ConstantTimeGreater>::ct_gt (swapped)", b.ct_gt(&a));
    Ok(())
}

/// signed operands: extremes (MIN, MAX, -1, 0, 1), small magnitudes of both signs, shapes
fn int_operand(t: &mut Tape, n: usize) -> Limbs {
    match t.weighted(&[3, 2, 2, 1]) {
        0 => gen::limbs(t, n),
        1 => {
            // extremes
            let mut v = vec![0u64; n];
            match t.below(6) {
                0 => v[n - 1] = 1 << 63,                 // MIN
                1 => {
                    v.iter_mut().for_each(|w| *w = u64::MAX);
                    v[n - 1] = u64::MAX >> 1               // MAX
                }
                2 => v.iter_mut().for_each(|w| *w = u64::MAX), // -1
                3 => v[0] = 1,
                4 => {
                    v[n - 1] = 1 << 63;
                    gen::inc(&mut v)                       // MIN + 1
                }
                _ => {}
            }
            v
        }
        2 => {
            // small magnitude, either sign
            let mut v = gen::shape_z(t, n.max(1));
            v.truncate(n);
            if t.bool() {
                gen::neg(&mut v);
            }
            v
        }
        _ => {
            let mut v = gen::limbs(t, n);
            v[n - 1] |= 1 << 63; // negative
            v
        }
    }
}

pub fn int_arith<const N: usize>(t: &mut Tape, c: &mut Case) -> CaseResult {
    let al = int_operand(t, N);
    let bl_ = match t.weighted(&[3, 1, 1]) {
        0 => int_operand(t, N),
        1 => gen::related(t, &al),
        _ => {
            let mut v = al.clone();
            gen::neg(&mut v);
            v
        }
    };
    c.limbs("a", &al);
    c.limbs("b", &bl_);
    let (a, b) = (int::<N>(&al), int::<N>(&bl_));
    let (sa, sb) = (sbig(&al), sbig(&bl_));
    c.nontrivial(!is_zero(&al) && !is_zero(&bl_));
    c.label(match (al[N - 1] >> 63, bl_[N - 1] >> 63) {
        (0, 0) => "int: + +",
        (1, 1) => "int: - -",
        _ => "int: mixed signs",
    });
    if !fits_signed(&(&sa + &sb), N) {
        c.label("int: add overflows");
    }
    if !fits_signed(&(&sa * &sb), N) {
        c.label("int: mul overflows");
    }

    // add: reference overflowing_add
    let (v, ov) = total("Int::overflowing_add", || a.overflowing_add(&b))?;
    let ov = bool::from(ov);
    let w = Out::val(il(&v));
    let r = Routes::new("int add (wrapping)", "Int::overflowing_add", w.clone());
    rt!(r, "Int::wrapping_add", a.wrapping_add(&b));
    rt!(r, "<Int as WrappingAdd>::wrapping_add", WrappingAdd::wrapping_add(&a, &b));
    ops6_copy!(r, "Wrapping<Int>", +, +=, Wrapping(a), Wrapping(b));
    rt!(r, "Uint::wrapping_add on the same limbs", a.as_uint().wrapping_add(b.as_uint()));
    let r = Routes::new("int add (checked)", "Int::overflowing_add", if ov { Out::none() } else { w.clone() });
    rt!(r, "Int::checked_add", a.checked_add(&b));
    rt!(r, "<Int as CheckedAdd>::checked_add", CheckedAdd::checked_add(&a, &b));
    ops6_copy!(r, "Checked<Int>", +, +=, Checked::new(a), Checked::new(b));
    let r = Routes::new("int add (operator)", "Int::overflowing_add", if ov { Out::Panic } else { w });
    ops4_copy!(r, "Int", +, +=, a, b);

    // sub: reference CheckedSub + wrapping on limbs
    let wrap = total("Uint::wrapping_sub", || a.as_uint().wrapping_sub(b.as_uint()))?;
    let chk: Option<Int<N>> = total("<Int as CheckedSub>::checked_sub", || CheckedSub::checked_sub(&a, &b))?.into();
    let w = Out::val(ul(&wrap));
    let r = Routes::new("int sub (wrapping)", "Uint::wrapping_sub on the same limbs", w.clone());
    rt!(r, "<Int as WrappingSub>::wrapping_sub", WrappingSub::wrapping_sub(&a, &b));
    ops6_copy!(r, "Wrapping<Int>", -, -=, Wrapping(a), Wrapping(b));
    if let Some(v) = &chk {
        rt!(r, "<Int as CheckedSub>::checked_sub (some)", *v);
    }
    let r = Routes::new("int sub (checked)", "<Int as CheckedSub>::checked_sub", if chk.is_none() { Out::none() } else { w.clone() });
    ops6_copy!(r, "Checked<Int>", -, -=, Checked::new(a), Checked::new(b));
    let r = Routes::new("int sub (operator)", "<Int as CheckedSub>::checked_sub", if chk.is_none() { Out::Panic } else { w });
    rt!(r, "Int - Int", a - b);
    rt!(r, "Int - &Int", a - &b);

    // neg: reference overflowing_neg
    let (v, ov) = total("Int::overflowing_neg", || a.overflowing_neg())?;
    let ov = bool::from(ov);
    let w = Out::val(il(&v));
    let r = Routes::new("int neg (wrapping)", "Int::overflowing_neg", w.clone());
    rt!(r, "Int::wrapping_neg", a.wrapping_neg());
    rt!(r, "Int::wrapping_neg_if(true)", a.wrapping_neg_if(ConstChoice::TRUE));
    rt!(r, "Uint::wrapping_neg on the same limbs", a.as_uint().wrapping_neg());
    let r = Routes::new("int neg (checked)", "Int::overflowing_neg", if ov { Out::none() } else { w });
    rt!(r, "Int::checked_neg", a.checked_neg());
    let r = Routes::new("int neg_if(false)", "identity", Out::val(al.clone()));
    rt!(r, "Int::wrapping_neg_if(false)", a.wrapping_neg_if(ConstChoice::FALSE));
    // abs / sign decomposition round trip
    let r = Routes::new("int abs_sign", "Int::abs_sign", outcome!(a.abs_sign()));
    rt!(r, "(Int::abs, Int::is_negative)", (a.abs(), a.is_negative()));
    let (mag, sgn) = a.abs_sign();
    let r = Routes::new("int from abs/sign", "identity", Out::val(al.clone()));
    rt!(r, "Int::new_from_abs_sign(abs_sign)", Int::<N>::new_from_abs_sign(mag, sgn));

    // mul: reference CheckedMul trait
    let chk: Option<Int<N>> = total("<Int as CheckedMul>::checked_mul", || CheckedMul::checked_mul(&a, &b))?.into();
    let w = match &chk {
        Some(v) => Out::val(il(v)),
        None => Out::none(),
    };
    let r = Routes::new("int mul (checked)", "<Int as CheckedMul>::checked_mul", w.clone());
    ops6_copy!(r, "Checked<Int>", *, *=, Checked::new(a), Checked::new(b));
    rt!(r, "commuted checked_mul", CheckedMul::checked_mul(&b, &a));
    let r = Routes::new("int mul (operator)", "<Int as CheckedMul>::checked_mul", if chk.is_none() { Out::Panic } else { w });
    rt!(r, "Int * Int", a * b);
    rt!(r, "Int * &Int", a * &b);
    rt!(r, "&Int * Int", &a * b);
    rt!(r, "&Int * &Int", &a * &b);
    // split_mul: (lo, hi, negative) versus the magnitudes
    let r = Routes::new("int split_mul", "Uint::split_mul of the magnitudes + sign", outcome!({
        let (l, h) = a.abs().split_mul(&b.abs());
        let neg = bool::from(a.is_negative()) != bool::from(b.is_negative());
        (l, h, neg)
    }));
    rt!(r, "Int::split_mul", a.split_mul(&b));

    // comparisons
    let ord = Ord::cmp(&a, &b);
    let r = Routes::new("int cmp", "<Int as Ord>::cmp", outcome!(ord));
    rt!(r, "Int::cmp_vartime", a.cmp_vartime(&b));
    rt!(r, "<Int as PartialOrd>::partial_cmp", a.partial_cmp(&b).unwrap());
    rt!(r, "from ct_lt / ct_gt", if bool::from(a.ct_lt(&b)) { Ordering::Less } else if bool::from(a.ct_gt(&b)) { Ordering::Greater } else { Ordering::Equal });
    let r = Routes::new("int eq", "<Int as Ord>::cmp", outcome!(ord == Ordering::Equal));
    rt!(r, "Int == Int", a == b);
    rt!(r, "<Int as ConstantTimeEq>::ct_eq", a.ct_eq(&b));

    // bit operations
    let r = crate::reference!("int and", "Int::bitand", a.bitand(&b));
    rt!(r, "Int::wrapping_and", a.wrapping_and(&b));
    rt!(r, "Int::checked_and", a.checked_and(&b));
    ops6_copy!(r, "Int", &, &=, a, b);
    ops6_copy!(r, "Wrapping<Int>", &, &=, Wrapping(a), Wrapping(b));
    rt!(r, "Uint::bitand on the same limbs", a.as_uint().bitand(b.as_uint()));
    let r = crate::reference!("int or", "Int::bitor", a.bitor(&b));
    rt!(r, "Int::wrapping_or", a.wrapping_or(&b));
    ops6_copy!(r, "Int", |, |=, a, b);
    ops6_copy!(r, "Wrapping<Int>", |, |=, Wrapping(a), Wrapping(b));
    let r = crate::reference!("int xor", "Int::bitxor", a.bitxor(&b));
    rt!(r, "Int::wrapping_xor", a.wrapping_xor(&b));
    ops6_copy!(r, "Int", ^, ^=, a, b);
    ops6_copy!(r, "Wrapping<Int>", ^, ^=, Wrapping(a), Wrapping(b));
    let r = crate::reference!("int not", "Int::not", a.not());
    rt!(r, "!Int", !a);
    rt!(r, "!Wrapping<Int>", !Wrapping(a));

    // shifts
    let bits = 64 * N as u32;
    let s = gen::shift_amount(t, bits as u64) as u32;
    c.num("shift", s as u64);
    macro_rules! dir {
        ($shl:ident, $shl_vartime:ident, $overflowing_shl:ident, $overflowing_shl_vartime:ident, $wrapping_shl:ident, $wrapping_shl_vartime:ident, $W:ident, $V:ident, $op:tt, $opa:tt, $tag:literal) => {{
            let refv: Option<Int<N>> = total(concat!("Int::", stringify!($overflowing_shl)), || a.$overflowing_shl(s))?.into();
            vensure!(refv.is_some() == (s < bits), concat!("Int::", stringify!($overflowing_shl), ": is_some must be shift < BITS"));
            let w_opt = match &refv { Some(v) => Out::val(il(v)), None => Out::none() };
            let w_panic = match &refv { Some(v) => Out::val(il(v)), None => Out::Panic };
            let r = Routes::new(concat!("int ", $tag, " (overflowing)"), concat!("Int::", stringify!($overflowing_shl)), w_opt);
            rt!(r, concat!("Int::", stringify!($overflowing_shl_vartime)), a.$overflowing_shl_vartime(s));
            rt!(r, concat!("<Int as ", stringify!($V), ">::", stringify!($overflowing_shl_vartime)), $V::$overflowing_shl_vartime(&a, s));
            let r = Routes::new(concat!("int ", $tag, " (panicking)"), concat!("Int::", stringify!($overflowing_shl)), w_panic);
            rt!(r, concat!("Int::", stringify!($shl)), a.$shl(s));
            rt!(r, concat!("Int::", stringify!($shl_vartime)), a.$shl_vartime(s));
            rt!(r, concat!("Int ", stringify!($op), " u32"), a $op s);
            rt!(r, concat!("&Int ", stringify!($op), " u32"), &a $op s);
            rt!(r, concat!("Int ", stringify!($op), " usize"), a $op (s as usize));
            rt!(r, concat!("Int ", stringify!($opa), " u32"), { let mut x = a; x $opa s; x });
            // wrapping: all routes agree with the inherent one
            let r = crate::reference!(concat!("int ", $tag, " (wrapping)"), "Int (inherent wrapping)", a.$wrapping_shl(s));
            rt!(r, concat!("Int::", stringify!($wrapping_shl_vartime)), a.$wrapping_shl_vartime(s));
            rt!(r, concat!("<Int as ", stringify!($W), ">"), $W::$wrapping_shl(&a, s));
            rt!(r, concat!("<Int as ", stringify!($V), ">::", stringify!($wrapping_shl_vartime)), $V::$wrapping_shl_vartime(&a, s));
            rt!(r, concat!("Wrapping<Int> ", stringify!($op), " u32"), Wrapping(a) $op s);
            if s < bits {
                rt!(r, concat!("Int::", stringify!($shl), " (in range)"), a.$shl(s));
            }
        }};
    }
    dir!(shl, shl_vartime, overflowing_shl, overflowing_shl_vartime, wrapping_shl, wrapping_shl_vartime, WrappingShl, ShlVartime, <<, <<=, "shl");
    dir!(shr, shr_vartime, overflowing_shr, overflowing_shr_vartime, wrapping_shr, wrapping_shr_vartime, WrappingShr, ShrVartime, >>, >>=, "shr");
    // shl on Int is the shift of the limbs
    if s < bits {
        let r = crate::reference!("int shl vs uint", "Uint::shl on the same limbs", a.as_uint().shl(s));
        rt!(r, "Int::shl", a.shl(s));
    }
    Ok(())
}

pub fn int_div<const N: usize>(t: &mut Tape, c: &mut Case) -> CaseResult {
    let nl = int_operand(t, N);
    let dl = {
        let mut v = match t.weighted(&[3, 2, 1]) {
            0 => int_operand(t, N),
            1 => {
                // small divisor of either sign
                let mut v = vec![0u64; N];
                v[0] = gen::word(t).max(1);
                if N == 1 {
                    v[0] &= u64::MAX >> 1;
                    v[0] = v[0].max(1);
                }
                if t.bool() {
                    gen::neg(&mut v);
                }
                v
            }
            _ => vec![u64::MAX; N], // -1
        };
        if is_zero(&v) {
            v[0] = 1;
        }
        v
    };
    c.limbs("n", &nl);
    c.limbs("d", &dl);
    let (n, d) = (int::<N>(&nl), int::<N>(&dl));
    let dz = NonZero::new(d).unwrap();
    let (sn, sd) = (sbig(&nl), sbig(&dl));
    c.nontrivial(sn.magnitude() > sd.magnitude() && sd.magnitude().bits() >= 2);
    c.label(match (nl[N - 1] >> 63, dl[N - 1] >> 63) {
        (0, 0) => "int div: + / +",
        (1, 0) => "int div: - / +",
        (0, 1) => "int div: + / -",
        _ => "int div: - / -",
    });
    let min_by_minus1 = sn == smin(N) && dl.iter().all(|&w| w == u64::MAX);
    if min_by_minus1 {
        c.label("int div: MIN / -1");
    }

    // truncating division: reference checked_div_rem
    let r = crate::reference!("int div_rem (trunc)", "Int::checked_div_rem", n.checked_div_rem(&dz));
    rt!(r, "Int::checked_div_rem_vartime", n.checked_div_rem_vartime(&dz));
    vensure!(r.want.is_none() == min_by_minus1, "Int::checked_div_rem: quotient documented none iff MIN / -1, got {:?}", r.want);
    let r = crate::reference!("int div (trunc)", "Int::checked_div_rem(..).0", n.checked_div_rem(&dz).0);
    rt!(r, "Int::checked_div", n.checked_div(&d));
    rt!(r, "Int::checked_div_vartime", n.checked_div_vartime(&d));
    rt!(r, "<Int as CheckedDiv>::checked_div", CheckedDiv::checked_div(&n, &d));
    rt!(r, "Int / NonZero<Int>", n / dz);
    rt!(r, "Int / &NonZero<Int>", n / &dz);
    rt!(r, "&Int / NonZero<Int>", &n / dz);
    rt!(r, "&Int / &NonZero<Int>", &n / &dz);
    rt!(r, "Checked<Int> / Checked<Int>", Checked::new(n) / Checked::new(d));
    rt!(r, "&Checked<Int> / &Checked<Int>", &Checked::new(n) / &Checked::new(d));
    if !min_by_minus1 {
        // forms documented to panic / wrap only for MIN / -1
        rt!(r, "<Int as DivVartime>::div_vartime", DivVartime::div_vartime(&n, &dz));
        rt!(r, "Int /= NonZero<Int>", { let mut x = n; x /= dz; x });
        rt!(r, "Int /= &NonZero<Int>", { let mut x = n; x /= &dz; x });
        rt!(r, "Wrapping<Int> / NonZero<Int>", Wrapping(n) / dz);
        rt!(r, "Wrapping<Int> / &NonZero<Int>", Wrapping(n) / &dz);
        rt!(r, "&Wrapping<Int> / NonZero<Int>", &Wrapping(n) / dz);
        rt!(r, "&Wrapping<Int> / &NonZero<Int>", &Wrapping(n) / &dz);
        rt!(r, "Wrapping<Int> /= NonZero<Int>", { let mut x = Wrapping(n); x /= dz; x });
        rt!(r, "Wrapping<Int> /= &NonZero<Int>", { let mut x = Wrapping(n); x /= &dz; x });
    }
    let r = crate::reference!("int rem (trunc)", "Int::checked_div_rem(..).1", n.checked_div_rem(&dz).1);
    rt!(r, "Int::rem", n.rem(&dz));
    rt!(r, "Int::rem_vartime", n.rem_vartime(&dz));
    rt!(r, "Int % NonZero<Int>", n % dz);
    rt!(r, "Int % &NonZero<Int>", n % &dz);
    rt!(r, "&Int % NonZero<Int>", &n % dz);
    rt!(r, "&Int % &NonZero<Int>", &n % &dz);
    rt!(r, "Int %= NonZero<Int>", { let mut x = n; x %= dz; x });
    rt!(r, "Int %= &NonZero<Int>", { let mut x = n; x %= &dz; x });
    rt!(r, "Wrapping<Int> % NonZero<Int>", Wrapping(n) % dz);
    rt!(r, "Wrapping<Int> % &NonZero<Int>", Wrapping(n) % &dz);
    rt!(r, "&Wrapping<Int> % NonZero<Int>", &Wrapping(n) % dz);
    rt!(r, "&Wrapping<Int> % &NonZero<Int>", &Wrapping(n) % &dz);
    rt!(r, "Wrapping<Int> %= NonZero<Int>", { let mut x = Wrapping(n); x %= dz; x });
    rt!(r, "Wrapping<Int> %= &NonZero<Int>", { let mut x = Wrapping(n); x %= &dz; x });

    // flooring division: ct vs vartime
    let r = crate::reference!("int div_rem (floor)", "Int::checked_div_rem_floor", n.checked_div_rem_floor(&dz));
    rt!(r, "Int::checked_div_rem_floor_vartime", n.checked_div_rem_floor_vartime(&dz));
    let r = crate::reference!("int div (floor)", "Int::checked_div_rem_floor(..).0", n.checked_div_rem_floor(&dz).0);
    rt!(r, "Int::checked_div_floor", n.checked_div_floor(&d));
    rt!(r, "Int::checked_div_floor_vartime", n.checked_div_floor_vartime(&d));

    // division by an unsigned divisor
    let ul_ = {
        let mut v = gen::nonzero(t, N);
        if t.chance(1, 3) {
            v = vec![0; N];
            v[0] = gen::word(t).max(1);
        }
        v
    };
    c.limbs("u", &ul_);
    let u = NonZero::new(uint::<N>(&ul_)).unwrap();
    let r = crate::reference!("int div_rem_uint", "Int::div_rem_uint", n.div_rem_uint(&u));
    rt!(r, "Int::div_rem_uint_vartime", n.div_rem_uint_vartime(&u));
    rt!(r, "(Int::div_uint, Int::rem_uint)", (n.div_uint(&u), n.rem_uint(&u)));
    rt!(r, "(Int::div_uint_vartime, Int::rem_uint_vartime)", (n.div_uint_vartime(&u), n.rem_uint_vartime(&u)));
    rt!(r, "(Int / NonZero<Uint>, Int % NonZero<Uint>)", (n / u, n % u));
    rt!(r, "(&Int / &NonZero<Uint>, &Int % &NonZero<Uint>)", (&n / &u, &n % &u));
    rt!(r, "(Int / &NonZero<Uint>, Int % &NonZero<Uint>)", (n / &u, n % &u));
    rt!(r, "(&Int / NonZero<Uint>, &Int % NonZero<Uint>)", (&n / u, &n % u));
    rt!(r, "(Int /= NonZero<Uint>, Int %= NonZero<Uint>)", ({ let mut x = n; x /= u; x }, { let mut x = n; x %= u; x }));
    rt!(r, "(Int /= &NonZero<Uint>, Int %= &NonZero<Uint>)", ({ let mut x = n; x /= &u; x }, { let mut x = n; x %= &u; x }));
    rt!(r, "(Wrapping<Int> / NonZero<Uint>, Wrapping<Int> % NonZero<Uint>)", (Wrapping(n) / u, Wrapping(n) % u));
    rt!(r, "(&Wrapping<Int> / &NonZero<Uint>, &Wrapping<Int> % &NonZero<Uint>)", (&Wrapping(n) / &u, &Wrapping(n) % &u));
    let r = crate::reference!("int div_rem_floor_uint", "Int::div_rem_floor_uint", n.div_rem_floor_uint(&u));
    rt!(r, "Int::div_rem_floor_uint_vartime", n.div_rem_floor_uint_vartime(&u));
    rt!(r, "(Int::div_floor_uint, Int::normalized_rem)", (n.div_floor_uint(&u), n.normalized_rem(&u)));
    rt!(r, "(Int::div_floor_uint_vartime, Int::normalized_rem_vartime)", (n.div_floor_uint_vartime(&u), n.normalized_rem_vartime(&u)));
    Ok(())
}
