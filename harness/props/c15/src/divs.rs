//! division / remainder: ct vs vartime, inherent vs trait vs operators vs wrappers, fixed vs boxed,
//! one-shot vs precomputed `Reciprocal`. Reference routes: `Uint::div_rem`, `Uint::div_rem_limb`.

use crate::gens;
use crate::out::*;
use crate::rt;
use crypto_bigint::{
    BoxedUint, Checked, CheckedDiv, DivRemLimb, DivVartime, Limb, NonZero, Reciprocal, RemLimb, RemMixed, Uint, Wrapping,
};
use vmodel::gen;
use vmodel::*;

fn bnz(l: &[u64]) -> NonZero<BoxedUint> {
    NonZero::new(boxed(l)).unwrap()
}

pub fn div<const N: usize>(t: &mut Tape, c: &mut Case) -> CaseResult {
    let (nl, dl, class) = gens::div_pair(t, N);
    c.limbs("n", &nl);
    c.limbs("d", &dl);
    c.label(class);
    let (n, d) = (uint::<N>(&nl), uint::<N>(&dl));
    let dz = NonZero::new(d).unwrap();
    let (bn, bd) = (boxed(&nl), boxed(&dl));
    let bdz = bnz(&dl);
    let (nb, db) = (big(&nl), big(&dl));
    c.nontrivial(bit_len(&dl) >= 2 && nb > db);
    if gens::sig_limbs(&dl) == 1 {
        c.label("div: divisor fits one limb");
    }
    if nb < db {
        c.label("div: dividend < divisor");
    }

    let (q, r) = total("Uint::div_rem", || n.div_rem(&dz))?;
    let (ql, rl) = (ul(&q), ul(&r));
    if gens::sig_limbs(&ql) >= 2 {
        c.label("div: quotient >= 2 limbs");
    }

    let rr = Routes::new("div_rem", "Uint::div_rem", Out::vals(vec![ql.clone(), rl.clone()]));
    rt!(rr, "Uint::div_rem_vartime", n.div_rem_vartime(&dz));
    rt!(rr, "BoxedUint::div_rem", bn.div_rem(&bdz));
    rt!(rr, "BoxedUint::div_rem_vartime", bn.div_rem_vartime(&bdz));

    let rq = Routes::new("div (quotient)", "Uint::div_rem(..).0", Out::val(ql.clone()));
    rt!(rq, "Uint::wrapping_div", n.wrapping_div(&dz));
    rt!(rq, "Uint::wrapping_div_vartime", n.wrapping_div_vartime(&dz));
    rt!(rq, "Uint::checked_div", n.checked_div(&d));
    rt!(rq, "<Uint as CheckedDiv>::checked_div", CheckedDiv::checked_div(&n, &d));
    rt!(rq, "<Uint as DivVartime>::div_vartime", DivVartime::div_vartime(&n, &dz));
    rt!(rq, "Uint / NonZero<Uint>", n / dz);
    rt!(rq, "Uint / &NonZero<Uint>", n / &dz);
    rt!(rq, "&Uint / NonZero<Uint>", &n / dz);
    rt!(rq, "&Uint / &NonZero<Uint>", &n / &dz);
    rt!(rq, "Uint /= NonZero<Uint>", { let mut x = n; x /= dz; x });
    rt!(rq, "Uint /= &NonZero<Uint>", { let mut x = n; x /= &dz; x });
    rt!(rq, "Uint / Uint", n / d);
    rt!(rq, "&Uint / Uint", &n / d);
    rt!(rq, "Wrapping<Uint> / NonZero<Uint>", Wrapping(n) / dz);
    rt!(rq, "Wrapping<Uint> / &NonZero<Uint>", Wrapping(n) / &dz);
    rt!(rq, "&Wrapping<Uint> / NonZero<Uint>", &Wrapping(n) / dz);
    rt!(rq, "&Wrapping<Uint> / &NonZero<Uint>", &Wrapping(n) / &dz);
    rt!(rq, "Wrapping<Uint> /= NonZero<Uint>", { let mut x = Wrapping(n); x /= dz; x });
    rt!(rq, "Wrapping<Uint> /= &NonZero<Uint>", { let mut x = Wrapping(n); x /= &dz; x });
    rt!(rq, "Checked<Uint> / Checked<Uint>", Checked::new(n) / Checked::new(d));
    rt!(rq, "Checked<Uint> / &Checked<Uint>", Checked::new(n) / &Checked::new(d));
    rt!(rq, "&Checked<Uint> / Checked<Uint>", &Checked::new(n) / Checked::new(d));
    rt!(rq, "&Checked<Uint> / &Checked<Uint>", &Checked::new(n) / &Checked::new(d));
    rt!(rq, "BoxedUint::wrapping_div", bn.wrapping_div(&bdz));
    rt!(rq, "BoxedUint::wrapping_div_vartime", bn.wrapping_div_vartime(&bdz));
    rt!(rq, "BoxedUint::checked_div", bn.checked_div(&bd));
    rt!(rq, "<BoxedUint as CheckedDiv>::checked_div", CheckedDiv::checked_div(&bn, &bd));
    rt!(rq, "<BoxedUint as DivVartime>::div_vartime", DivVartime::div_vartime(&bn, &bdz));
    rt!(rq, "BoxedUint / NonZero<BoxedUint>", bn.clone() / bdz.clone());
    rt!(rq, "BoxedUint / &NonZero<BoxedUint>", bn.clone() / &bdz);
    rt!(rq, "&BoxedUint / NonZero<BoxedUint>", &bn / bdz.clone());
    rt!(rq, "&BoxedUint / &NonZero<BoxedUint>", &bn / &bdz);
    rt!(rq, "BoxedUint /= NonZero<BoxedUint>", { let mut x = bn.clone(); x /= bdz.clone(); x });
    rt!(rq, "BoxedUint /= &NonZero<BoxedUint>", { let mut x = bn.clone(); x /= &bdz; x });
    rt!(rq, "Wrapping<BoxedUint> / NonZero<BoxedUint>", Wrapping(bn.clone()) / bdz.clone());
    rt!(rq, "Wrapping<BoxedUint> / &NonZero<BoxedUint>", Wrapping(bn.clone()) / &bdz);
    rt!(rq, "&Wrapping<BoxedUint> / NonZero<BoxedUint>", &Wrapping(bn.clone()) / bdz.clone());
    rt!(rq, "&Wrapping<BoxedUint> / &NonZero<BoxedUint>", &Wrapping(bn.clone()) / &bdz);
    rt!(rq, "Wrapping<BoxedUint> /= NonZero<BoxedUint>", { let mut x = Wrapping(bn.clone()); x /= bdz.clone(); x });
    rt!(rq, "Wrapping<BoxedUint> /= &NonZero<BoxedUint>", { let mut x = Wrapping(bn.clone()); x /= &bdz; x });

    let rm = Routes::new("rem", "Uint::div_rem(..).1", Out::val(rl.clone()));
    rt!(rm, "Uint::rem", n.rem(&dz));
    rt!(rm, "Uint::rem_vartime", n.rem_vartime(&dz));
    rt!(rm, "Uint::checked_rem", n.checked_rem(&d));
    rt!(rm, "Uint::wrapping_rem_vartime", n.wrapping_rem_vartime(&d));
    rt!(rm, "Uint::rem_wide_vartime((n, 0), d)", Uint::<N>::rem_wide_vartime((n, Uint::<N>::ZERO), &dz));
    rt!(rm, "Uint % NonZero<Uint>", n % dz);
    rt!(rm, "Uint % &NonZero<Uint>", n % &dz);
    rt!(rm, "&Uint % NonZero<Uint>", &n % dz);
    rt!(rm, "&Uint % &NonZero<Uint>", &n % &dz);
    rt!(rm, "Uint %= NonZero<Uint>", { let mut x = n; x %= dz; x });
    rt!(rm, "Uint %= &NonZero<Uint>", { let mut x = n; x %= &dz; x });
    rt!(rm, "Uint % Uint", n % d);
    rt!(rm, "&Uint % Uint", &n % d);
    rt!(rm, "Wrapping<Uint> % NonZero<Uint>", Wrapping(n) % dz);
    rt!(rm, "Wrapping<Uint> % &NonZero<Uint>", Wrapping(n) % &dz);
    rt!(rm, "&Wrapping<Uint> % NonZero<Uint>", &Wrapping(n) % dz);
    rt!(rm, "&Wrapping<Uint> % &NonZero<Uint>", &Wrapping(n) % &dz);
    rt!(rm, "Wrapping<Uint> %= NonZero<Uint>", { let mut x = Wrapping(n); x %= dz; x });
    rt!(rm, "Wrapping<Uint> %= &NonZero<Uint>", { let mut x = Wrapping(n); x %= &dz; x });
    rt!(rm, "BoxedUint::rem", bn.rem(&bdz));
    rt!(rm, "BoxedUint::rem_vartime", bn.rem_vartime(&bdz));
    rt!(rm, "<BoxedUint as RemMixed>::rem_mixed", RemMixed::rem_mixed(&bn, &bdz));
    rt!(rm, "BoxedUint % NonZero<BoxedUint>", bn.clone() % bdz.clone());
    rt!(rm, "BoxedUint % &NonZero<BoxedUint>", bn.clone() % &bdz);
    rt!(rm, "&BoxedUint % NonZero<BoxedUint>", &bn % bdz.clone());
    rt!(rm, "&BoxedUint % &NonZero<BoxedUint>", &bn % &bdz);
    rt!(rm, "BoxedUint %= NonZero<BoxedUint>", { let mut x = bn.clone(); x %= bdz.clone(); x });
    rt!(rm, "BoxedUint %= &NonZero<BoxedUint>", { let mut x = bn.clone(); x %= &bdz; x });

    // zero divisor: is_none / panic class agree between the forms that accept a plain divisor
    if t.chance(1, 16) {
        c.label("div: zero divisor forms");
        let z = Uint::<N>::ZERO;
        let bz = BoxedUint::zero_with_precision(64 * N as u32);
        let r0 = Routes::new("div by zero (checked forms)", "documented: none", Out::none());
        rt!(r0, "Uint::checked_div(0)", n.checked_div(&z));
        rt!(r0, "<Uint as CheckedDiv>::checked_div(0)", CheckedDiv::checked_div(&n, &z));
        rt!(r0, "Uint::checked_rem(0)", n.checked_rem(&z));
        rt!(r0, "Checked<Uint> / Checked(0)", Checked::new(n) / Checked::new(z));
        rt!(r0, "BoxedUint::checked_div(0)", bn.checked_div(&bz));
        rt!(r0, "<BoxedUint as CheckedDiv>::checked_div(0)", CheckedDiv::checked_div(&bn, &bz));
        let r0 = Routes::new("div by zero (panicking forms)", "documented: panic", Out::Panic);
        rt!(r0, "Uint / Uint(0)", n / z);
        rt!(r0, "&Uint / Uint(0)", &n / z);
        rt!(r0, "Uint % Uint(0)", n % z);
        rt!(r0, "&Uint % Uint(0)", &n % z);
        rt!(r0, "Uint::wrapping_rem_vartime(0)", n.wrapping_rem_vartime(&z));
    }
    Ok(())
}

/// fixed `Uint<L>::div_rem_vartime(&Uint<R>)` (mixed widths) versus the boxed forms at the same precisions
pub fn div_mixed<const L: usize, const R: usize>(t: &mut Tape, c: &mut Case) -> CaseResult {
    let nl = gen::limbs(t, L);
    let dl = match t.weighted(&[3, 1, 1]) {
        0 => gen::nonzero(t, R),
        1 => {
            let mut v = vec![0u64; R];
            v[0] = gen::word(t).max(1);
            v
        }
        _ => {
            // significant limbs of d exceed those of n where possible
            let mut v = gen::nonzero(t, R);
            v[R - 1] |= 1;
            v
        }
    };
    c.limbs("n", &nl);
    c.limbs("d", &dl);
    let (n, d) = (uint::<L>(&nl), uint::<R>(&dl));
    let dz = NonZero::new(d).unwrap();
    let (bn, bdz) = (boxed(&nl), bnz(&dl));
    c.nontrivial(bit_len(&dl) >= 2 && big(&nl) > big(&dl));
    if gens::sig_limbs(&dl) > L {
        c.label("div mixed: divisor has more significant limbs than the dividend type");
    }
    let rr = crate::reference!("div_rem_vartime (mixed widths)", "Uint::<L>::div_rem_vartime::<R>", n.div_rem_vartime(&dz));
    rt!(rr, "BoxedUint::div_rem_vartime (mixed precision)", bn.div_rem_vartime(&bdz));
    let rm = crate::reference!("rem_vartime (mixed widths)", "Uint::<L>::div_rem_vartime::<R>().1", n.div_rem_vartime(&dz).1);
    rt!(rm, "BoxedUint::rem_vartime (mixed precision)", bn.rem_vartime(&bdz));
    rt!(rm, "<BoxedUint as RemMixed>::rem_mixed", RemMixed::rem_mixed(&bn, &bdz));
    let rq = crate::reference!("wrapping_div_vartime (mixed widths)", "Uint::<L>::div_rem_vartime::<R>().0", n.div_rem_vartime(&dz).0);
    rt!(rq, "Uint::wrapping_div_vartime::<R>", n.wrapping_div_vartime(&dz));
    rt!(rq, "BoxedUint::wrapping_div_vartime (mixed precision)", bn.wrapping_div_vartime(&bdz));
    Ok(())
}

/// `RemMixed` for the fixed widths that have it
pub fn rem_mixed_fixed<const L: usize, const R: usize>(t: &mut Tape, c: &mut Case) -> CaseResult
where
    Uint<L>: RemMixed<Uint<R>>,
{
    let nl = gen::limbs(t, L);
    let dl = gen::nonzero(t, R);
    c.limbs("n", &nl);
    c.limbs("d", &dl);
    let (n, d) = (uint::<L>(&nl), uint::<R>(&dl));
    let dz = NonZero::new(d).unwrap();
    c.nontrivial(bit_len(&dl) >= 2 && big(&nl) > big(&dl));
    let rm = crate::reference!("rem_mixed", "Uint::<L>::div_rem_vartime::<R>().1", n.div_rem_vartime(&dz).1);
    rt!(rm, "<Uint<L> as RemMixed<Uint<R>>>::rem_mixed", RemMixed::rem_mixed(&n, &dz));
    rt!(rm, "<BoxedUint as RemMixed>::rem_mixed", RemMixed::rem_mixed(&boxed(&nl), &bnz(&dl)));
    Ok(())
}

pub fn div_limb<const N: usize>(t: &mut Tape, c: &mut Case) -> CaseResult {
    let nl = gen::limbs(t, N);
    let dw = match t.weighted(&[3, 1, 1]) {
        0 => gen::word(t).max(1),
        1 => t.u64() | (1 << 63),
        _ => t.pick(&[1u64, 2, 3, u64::MAX, u64::MAX - 1, 1 << 63, (1 << 63) + 1, (1 << 32) - 1, 1 << 32, 10, 1_000_000_007]),
    };
    c.limbs("n", &nl);
    c.num("d", dw);
    c.nontrivial(if N == 1 { nl[0] > dw && dw >= 2 } else { bit_len(&nl) > 64 && dw >= 2 });
    c.label(if dw >> 63 == 1 { "div_limb: normalised divisor" } else { "div_limb: divisor needs shift" });
    let n = uint::<N>(&nl);
    let bn = boxed(&nl);
    let d = NonZero::new(Limb(dw)).unwrap();
    let recip = total("Reciprocal::new", || Reciprocal::new(d))?;

    let rr = crate::reference!("div_rem_limb", "Uint::div_rem_limb", n.div_rem_limb(d));
    rt!(rr, "Uint::div_rem_limb_with_reciprocal", n.div_rem_limb_with_reciprocal(&recip));
    rt!(rr, "<Uint as DivRemLimb>::div_rem_limb", DivRemLimb::div_rem_limb(&n, d));
    rt!(rr, "<Uint as DivRemLimb>::div_rem_limb_with_reciprocal", DivRemLimb::div_rem_limb_with_reciprocal(&n, &recip));
    rt!(rr, "BoxedUint::div_rem_limb", bn.div_rem_limb(d));
    rt!(rr, "BoxedUint::div_rem_limb_with_reciprocal", bn.div_rem_limb_with_reciprocal(&recip));
    rt!(rr, "<BoxedUint as DivRemLimb>::div_rem_limb", DivRemLimb::div_rem_limb(&bn, d));
    rt!(rr, "<BoxedUint as DivRemLimb>::div_rem_limb_with_reciprocal", DivRemLimb::div_rem_limb_with_reciprocal(&bn, &recip));
    // the multi-limb division with the same single-limb divisor
    let mut dl = vec![0u64; N];
    dl[0] = dw;
    let dz = NonZero::new(uint::<N>(&dl)).unwrap();
    rt!(rr, "Uint::div_rem (divisor widened)", { let (q, r) = n.div_rem(&dz); (q, Limb(r.as_words()[0])) });
    rt!(rr, "Uint::div_rem_vartime (divisor widened)", { let (q, r) = n.div_rem_vartime(&dz); (q, Limb(r.as_words()[0])) });

    let (q, r) = n.div_rem_limb(d);
    let rq = Routes::new("div by limb (quotient)", "Uint::div_rem_limb(..).0", Out::val(ul(&q)));
    rt!(rq, "Uint / NonZero<Limb>", n / d);
    rt!(rq, "Uint / &NonZero<Limb>", n / &d);
    rt!(rq, "&Uint / NonZero<Limb>", &n / d);
    rt!(rq, "&Uint / &NonZero<Limb>", &n / &d);
    rt!(rq, "Uint /= NonZero<Limb>", { let mut x = n; x /= d; x });
    rt!(rq, "Uint /= &NonZero<Limb>", { let mut x = n; x /= &d; x });
    rt!(rq, "Wrapping<Uint> / NonZero<Limb>", Wrapping(n) / d);
    rt!(rq, "Wrapping<Uint> / &NonZero<Limb>", Wrapping(n) / &d);
    rt!(rq, "&Wrapping<Uint> / NonZero<Limb>", &Wrapping(n) / d);
    rt!(rq, "&Wrapping<Uint> / &NonZero<Limb>", &Wrapping(n) / &d);
    rt!(rq, "Wrapping<Uint> /= NonZero<Limb>", { let mut x = Wrapping(n); x /= d; x });
    rt!(rq, "Wrapping<Uint> /= &NonZero<Limb>", { let mut x = Wrapping(n); x /= &d; x });

    let rm = Routes::new("rem by limb", "Uint::div_rem_limb(..).1", Out::val(vec![r.0]));
    rt!(rm, "Uint::rem_limb", n.rem_limb(d));
    rt!(rm, "Uint::rem_limb_with_reciprocal", n.rem_limb_with_reciprocal(&recip));
    rt!(rm, "<Uint as RemLimb>::rem_limb", RemLimb::rem_limb(&n, d));
    rt!(rm, "<Uint as RemLimb>::rem_limb_with_reciprocal", RemLimb::rem_limb_with_reciprocal(&n, &recip));
    rt!(rm, "BoxedUint::rem_limb", bn.rem_limb(d));
    rt!(rm, "BoxedUint::rem_limb_with_reciprocal", bn.rem_limb_with_reciprocal(&recip));
    rt!(rm, "<BoxedUint as RemLimb>::rem_limb", RemLimb::rem_limb(&bn, d));
    rt!(rm, "<BoxedUint as RemLimb>::rem_limb_with_reciprocal", RemLimb::rem_limb_with_reciprocal(&bn, &recip));
    rt!(rm, "Uint % NonZero<Limb>", n % d);
    rt!(rm, "Uint % &NonZero<Limb>", n % &d);
    rt!(rm, "&Uint % NonZero<Limb>", &n % d);
    rt!(rm, "&Uint % &NonZero<Limb>", &n % &d);
    rt!(rm, "Wrapping<Uint> % NonZero<Limb>", Wrapping(n) % d);
    rt!(rm, "Wrapping<Uint> % &NonZero<Limb>", Wrapping(n) % &d);
    rt!(rm, "&Wrapping<Uint> % NonZero<Limb>", &Wrapping(n) % d);
    rt!(rm, "&Wrapping<Uint> % &NonZero<Limb>", &Wrapping(n) % &d);
    let rw = Routes::new("rem by limb (assigning: widened to Uint)", "Uint::div_rem_limb(..).1", {
        let mut v = vec![0u64; N];
        v[0] = r.0;
        Out::val(v)
    });
    rt!(rw, "Uint %= NonZero<Limb>", { let mut x = n; x %= d; x });
    rt!(rw, "Uint %= &NonZero<Limb>", { let mut x = n; x %= &d; x });
    rt!(rw, "Wrapping<Uint> %= NonZero<Limb>", { let mut x = Wrapping(n); x %= d; x });
    rt!(rw, "Wrapping<Uint> %= &NonZero<Limb>", { let mut x = Wrapping(n); x %= &d; x });

    // rem2k_vartime vs masking
    let k = gens::shift_in(t, 64 * N as u32 + 64);
    c.num("k", k as u64);
    let r2 = Routes::new("rem 2^k", "n & (2^k - 1) by limbs", {
        let mut v = nl.clone();
        for (i, w) in v.iter_mut().enumerate() {
            let lo = 64 * i as u32;
            if lo >= k {
                *w = 0;
            } else if k - lo < 64 {
                *w &= (1u64 << (k - lo)) - 1;
            }
        }
        Out::val(v)
    });
    rt!(r2, "Uint::rem2k_vartime", n.rem2k_vartime(k));
    Ok(())
}
