//! Routes through the 64-bit reciprocal versus routes that never use it, on every divisor whose
//! 40-bit prefix sits next to 2^60 / t (t a 21-bit integer) — the slim-margin inputs of the Newton
//! refinement in `reciprocal()` (see props/c02/src/recip.rs; added after seeded changes C15-I / C15-J of
//! round 5, whose 37 resp. 289 affected prefixes out of 2^39 all lie in this family).
//!
//! For a two-limb odd modulus p whose top limb carries such a prefix: `Uint::mul_mod` (Montgomery, no
//! division by p) is the reference route; `mul_mod_vartime`, `MulMod::mul_mod`, `rem_vartime` of the wide
//! product and the boxed forms (Knuth division with the reciprocal of the top limb) must agree.
//! One case = one block of 512 values of t.

use crypto_bigint::{BoxedUint, MulMod, NonZero, Odd, U128, U256};
use vmodel::*;

pub fn mul_mod_routes(t: &mut Tape, c: &mut Case) -> CaseResult {
    let b = t.below(2048);
    let low = t.u64() | 1;
    let fill = t.below(1 << 24);
    let (al, bl_) = (vec![t.u64(), t.u64()], vec![t.u64(), t.u64()]);
    c.num("block", b);
    c.num("low limb", low);
    c.limbs("a", &al);
    c.limbs("b", &bl_);
    c.nontrivial(true);
    let mut n = 0u64;
    for tt in ((1u64 << 20) + 512 * b)..((1u64 << 20) + 512 * (b + 1)) {
        let cpre = (1u64 << 60) / tt;
        for h in cpre.saturating_sub(3)..=cpre + 1 {
            if !((1u64 << 39)..(1u64 << 40)).contains(&h) {
                continue;
            }
            n += 1;
            let pl = vec![low, (h << 24) | fill];
            let p = uint::<2>(&pl);
            let (a, bb) = (uint::<2>(&al).rem_vartime(&NonZero::new(p).unwrap()), uint::<2>(&bl_).rem_vartime(&NonZero::new(p).unwrap()));
            let odd = Odd::new(p).unwrap();
            let nz = NonZero::new(p).unwrap();
            let reference: U128 = total("Uint::mul_mod", || a.mul_mod(&bb, odd.as_nz_ref()))?;
            let vt = total("Uint::mul_mod_vartime", || a.mul_mod_vartime(&bb, &nz))?;
            vensure!(vt == reference, "mul_mod routes disagree for p = {}: Uint::mul_mod_vartime gives {}, Uint::mul_mod gives {} (a = {}, b = {})", hex(&pl), hex(&ul(&vt)), hex(&ul(&reference)), hex(&ul(&a)), hex(&ul(&bb)));
            let tr = total("<Uint as MulMod>::mul_mod", || MulMod::mul_mod(&a, &bb, &nz))?;
            vensure!(tr == reference, "mul_mod routes disagree for p = {}: <Uint as MulMod>::mul_mod gives {}, Uint::mul_mod gives {}", hex(&pl), hex(&ul(&tr)), hex(&ul(&reference)));
            let wide: U256 = a.widening_mul(&bb);
            let rw = total("Uint::rem_vartime (wide product)", || wide.rem_vartime(&NonZero::new(p.resize::<4>()).unwrap()))?;
            vensure!(rw.resize::<2>() == reference, "wide product rem_vartime {} differs from Uint::mul_mod {} for p = {}", hex(&ul(&rw)), hex(&ul(&reference)), hex(&pl));
            if h & 7 == 0 {
                let (ba, bbb, bp) = (boxed(&ul(&a)), boxed(&ul(&bb)), boxed(&pl));
                let bm = total("BoxedUint rem of the product", || ba.mul(&bbb).rem_vartime(&NonZero::new(bp.widen(256)).unwrap()))?;
                vensure!(bbig(&bm) == ubig(&reference), "boxed product rem_vartime differs from Uint::mul_mod for p = {}", hex(&pl));
                let _ = BoxedUint::zero();
            }
        }
    }
    c.num("moduli checked", n);
    Ok(())
}
