fn main() {
    vmodel::cli_main(c15::spec())
}
