//! Route outcomes: every API form ("route") of an operation is run under `guard` and its result is
//! normalised to an [`Out`]: a panic, or a list of parts (limb vectors / "none" markers). Limb
//! vectors keep their length, so a boxed result only equals a fixed one when it also has the same
//! precision. All routes of one operation are compared with the outcome of a *reference route*.

use crypto_bigint::{BoxedUint, Checked, ConstChoice, ConstCtOption, Int, Limb, NonZero, Odd, Uint, Wrapping};
use std::cmp::Ordering;
use subtle::{Choice, CtOption};
use vmodel::*;

#[derive(Clone, PartialEq, Eq)]
pub enum Part {
    L(Limbs),
    NoneMark,
}

impl std::fmt::Debug for Part {
    fn fmt(&self, f: &mut std::fmt::Formatter<'_>) -> std::fmt::Result {
        match self {
            Part::L(l) => write!(f, "{}[{} limbs]", hex(l), l.len()),
            Part::NoneMark => write!(f, "none"),
        }
    }
}

#[derive(Clone, PartialEq, Eq)]
pub enum Out {
    Panic,
    Parts(Vec<Part>),
}

impl std::fmt::Debug for Out {
    fn fmt(&self, f: &mut std::fmt::Formatter<'_>) -> std::fmt::Result {
        match self {
            Out::Panic => write!(f, "PANIC"),
            Out::Parts(p) => write!(f, "{:?}", p),
        }
    }
}

impl Out {
    pub fn is_panic(&self) -> bool {
        matches!(self, Out::Panic)
    }
    pub fn is_none(&self) -> bool {
        matches!(self, Out::Parts(p) if p.iter().any(|x| *x == Part::NoneMark))
    }
    /// first limb vector, if any
    pub fn first(&self) -> Option<&Limbs> {
        match self {
            Out::Parts(p) => p.iter().find_map(|x| if let Part::L(l) = x { Some(l) } else { None }),
            _ => None,
        }
    }
    pub fn val(l: Limbs) -> Out {
        Out::Parts(vec![Part::L(l)])
    }
    pub fn vals(ls: Vec<Limbs>) -> Out {
        Out::Parts(ls.into_iter().map(Part::L).collect())
    }
    pub fn none() -> Out {
        Out::Parts(vec![Part::NoneMark])
    }
}

pub trait IntoParts {
    fn parts(self, v: &mut Vec<Part>);
}

impl<const N: usize> IntoParts for Uint<N> {
    fn parts(self, v: &mut Vec<Part>) {
        v.push(Part::L(ul(&self)))
    }
}
impl<const N: usize> IntoParts for Int<N> {
    fn parts(self, v: &mut Vec<Part>) {
        v.push(Part::L(il(&self)))
    }
}
impl IntoParts for BoxedUint {
    fn parts(self, v: &mut Vec<Part>) {
        v.push(Part::L(bl(&self)))
    }
}
impl IntoParts for &BoxedUint {
    fn parts(self, v: &mut Vec<Part>) {
        v.push(Part::L(bl(self)))
    }
}
impl IntoParts for Limb {
    fn parts(self, v: &mut Vec<Part>) {
        v.push(Part::L(vec![self.0]))
    }
}
impl IntoParts for u64 {
    fn parts(self, v: &mut Vec<Part>) {
        v.push(Part::L(vec![self]))
    }
}
impl IntoParts for u32 {
    fn parts(self, v: &mut Vec<Part>) {
        v.push(Part::L(vec![self as u64]))
    }
}
impl IntoParts for usize {
    fn parts(self, v: &mut Vec<Part>) {
        v.push(Part::L(vec![self as u64]))
    }
}
impl IntoParts for bool {
    fn parts(self, v: &mut Vec<Part>) {
        v.push(Part::L(vec![self as u64]))
    }
}
impl IntoParts for Choice {
    fn parts(self, v: &mut Vec<Part>) {
        v.push(Part::L(vec![self.unwrap_u8() as u64]))
    }
}
impl IntoParts for ConstChoice {
    fn parts(self, v: &mut Vec<Part>) {
        v.push(Part::L(vec![bool::from(self) as u64]))
    }
}
impl IntoParts for Ordering {
    fn parts(self, v: &mut Vec<Part>) {
        v.push(Part::L(vec![(self as i8 + 1) as u64]))
    }
}
impl IntoParts for Limbs {
    fn parts(self, v: &mut Vec<Part>) {
        v.push(Part::L(self))
    }
}
impl IntoParts for String {
    fn parts(self, v: &mut Vec<Part>) {
        v.push(Part::L(self.bytes().map(|b| b as u64).collect()))
    }
}
impl IntoParts for Vec<u8> {
    fn parts(self, v: &mut Vec<Part>) {
        v.push(Part::L(self.iter().map(|b| *b as u64).collect()))
    }
}
impl<T: IntoParts> IntoParts for Wrapping<T> {
    fn parts(self, v: &mut Vec<Part>) {
        self.0.parts(v)
    }
}
impl<T: IntoParts> IntoParts for NonZero<T> {
    fn parts(self, v: &mut Vec<Part>) {
        self.get().parts(v)
    }
}
impl<T: IntoParts> IntoParts for Odd<T> {
    fn parts(self, v: &mut Vec<Part>) {
        self.get().parts(v)
    }
}
impl<T: IntoParts> IntoParts for Option<T> {
    fn parts(self, v: &mut Vec<Part>) {
        match self {
            Some(x) => x.parts(v),
            None => v.push(Part::NoneMark),
        }
    }
}
impl<T: IntoParts> IntoParts for CtOption<T> {
    fn parts(self, v: &mut Vec<Part>) {
        Option::<T>::from(self).parts(v)
    }
}
impl<T: IntoParts> IntoParts for ConstCtOption<T> {
    fn parts(self, v: &mut Vec<Part>) {
        Option::<T>::from(self).parts(v)
    }
}
impl<T: IntoParts> IntoParts for Checked<T> {
    fn parts(self, v: &mut Vec<Part>) {
        self.0.parts(v)
    }
}
impl<A: IntoParts, B: IntoParts> IntoParts for (A, B) {
    fn parts(self, v: &mut Vec<Part>) {
        self.0.parts(v);
        self.1.parts(v);
    }
}
impl<A: IntoParts, B: IntoParts, C: IntoParts> IntoParts for (A, B, C) {
    fn parts(self, v: &mut Vec<Part>) {
        self.0.parts(v);
        self.1.parts(v);
        self.2.parts(v);
    }
}

pub fn out<T: IntoParts>(r: Result<T, String>) -> Out {
    match r {
        Ok(x) => {
            let mut v = Vec::new();
            x.parts(&mut v);
            Out::Parts(v)
        }
        Err(_) => Out::Panic,
    }
}

/// A set of routes compared with one reference outcome.
pub struct Routes {
    pub op: String,
    pub refname: &'static str,
    pub want: Out,
    pub checked: std::cell::Cell<u32>,
}

impl Routes {
    pub fn new(op: impl Into<String>, refname: &'static str, want: Out) -> Routes {
        Routes { op: op.into(), refname, want, checked: std::cell::Cell::new(0) }
    }
    pub fn check(&self, name: &str, got: Out) -> CaseResult {
        self.checked.set(self.checked.get() + 1);
        if got != self.want {
            return Err(Fail::new(format!(
                "{}: route `{}` gives {:?} but reference route `{}` gives {:?}",
                self.op, name, got, self.refname, self.want
            )));
        }
        Ok(())
    }
}

/// `rt!(routes, "name", expr)`: run `expr` under `guard`, normalise, compare with the reference.
#[macro_export]
macro_rules! rt {
    ($r:expr, $name:expr, $e:expr) => {
        $r.check($name, $crate::out::out(vmodel::guard(|| $e)))?
    };
}

/// outcome of an expression
#[macro_export]
macro_rules! outcome {
    ($e:expr) => {
        $crate::out::out(vmodel::guard(|| $e))
    };
}

/// reference routes must never panic unless stated; helper to build Routes from an expression
#[macro_export]
macro_rules! reference {
    ($op:expr, $name:literal, $e:expr) => {
        $crate::out::Routes::new($op, $name, $crate::out::out(vmodel::guard(|| $e)))
    };
}

impl IntoParts for i8 {
    fn parts(self, v: &mut Vec<Part>) {
        v.push(Part::L(vec![self as i64 as u64]))
    }
}
impl IntoParts for u8 {
    fn parts(self, v: &mut Vec<Part>) {
        v.push(Part::L(vec![self as u64]))
    }
}
macro_rules! tuple_parts {
    ($(($($t:ident . $i:tt),+)),*) => { $(
        impl<$($t: IntoParts),+> IntoParts for ($($t,)+) {
            fn parts(self, v: &mut Vec<Part>) { $( self.$i.parts(v); )+ }
        }
    )* };
}
tuple_parts!(
    (A.0, B.1, C.2, D.3),
    (A.0, B.1, C.2, D.3, E.4),
    (A.0, B.1, C.2, D.3, E.4, F.5),
    (A.0, B.1, C.2, D.3, E.4, F.5, G.6),
    (A.0, B.1, C.2, D.3, E.4, F.5, G.6, H.7)
);
impl<const N: usize> IntoParts for crypto_bigint::modular::MontyParams<N> {
    fn parts(self, v: &mut Vec<Part>) {
        format!("{:?}", self).parts(v)
    }
}
