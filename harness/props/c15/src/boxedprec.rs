//! "Results of boxed operations always have the documented precision": constructors documented to
//! round `at_least_bits_precision` up to a multiple of `Limb::BITS`, widen / shorten, the `*_like`
//! constructors of `Integer` / `Zero`, mixed-precision multiplication, and the constructor routes
//! among themselves.

use crate::out::*;
use crate::rt;
use crypto_bigint::{BoxedUint, Integer, Limb, RandomBits, Zero};
use rand_chacha::ChaCha8Rng;
use rand_core::SeedableRng;
use vmodel::gen;
use vmodel::*;

pub fn precision(max_limbs: usize) -> impl Fn(&mut Tape, &mut Case) -> CaseResult {
    move |t, c| {
        let maxb = 64 * max_limbs as u64;
        let b = (t.edgy(maxb - 1) + 1) as u32; // 1..=maxb
        let n = (b as usize + 63) / 64;
        let al = gen::limbs(t, n);
        let lw = gen::limb_word(t);
        let grow = t.edgy(130) as u32;
        c.num("bits", b as u64);
        c.limbs("a", &al);
        c.num("limb", lw);
        c.num("grow", grow as u64);
        c.nontrivial(b % 64 != 0 || grow % 64 != 0);
        c.label(if b % 64 == 0 { "precision: multiple of 64" } else { "precision: rounded up" });
        let a = boxed(&al);

        let r = Routes::new("zero with precision", "documented: 0 with bits rounded up to a multiple of 64", Out::val(vec![0; n]));
        rt!(r, "BoxedUint::zero_with_precision", BoxedUint::zero_with_precision(b));
        rt!(r, "<BoxedUint as Zero>::zero_like", <BoxedUint as Zero>::zero_like(&a));
        rt!(r, "<BoxedUint as Zero>::set_zero", { let mut x = a.clone(); Zero::set_zero(&mut x); x });
        rt!(r, "BoxedUint::from_be_slice(&[], bits)", BoxedUint::from_be_slice(&[], b).ok());
        rt!(r, "BoxedUint::from_le_slice(&[], bits)", BoxedUint::from_le_slice(&[], b).ok());
        rt!(r, "BoxedUint::zero().widen(bits)", BoxedUint::zero().widen(b.max(64)));
        rt!(r, "BoxedUint::from_str_radix_with_precision_vartime(\"0\")", BoxedUint::from_str_radix_with_precision_vartime("0", 10, b).ok());
        rt!(r, "BoxedUint::try_random_bits_with_precision(0 bits)", { let mut g = ChaCha8Rng::seed_from_u64(1); BoxedUint::try_random_bits_with_precision(&mut g, 0, b).ok() });
        let mut one = vec![0u64; n];
        one[0] = 1;
        let r = Routes::new("one with precision", "documented: 1 with bits rounded up", Out::val(one));
        rt!(r, "BoxedUint::one_with_precision", BoxedUint::one_with_precision(b));
        rt!(r, "<BoxedUint as Integer>::one_like", <BoxedUint as Integer>::one_like(&a));
        rt!(r, "<BoxedUint as Integer>::from_limb_like(1)", <BoxedUint as Integer>::from_limb_like(Limb::ONE, &a));
        rt!(r, "BoxedUint::one().widen(bits)", BoxedUint::one().widen(b.max(64)));
        let mut lv = vec![0u64; n];
        lv[0] = lw;
        let r = Routes::new("limb with precision", "documented: first limb set, same precision as other", Out::val(lv));
        rt!(r, "<BoxedUint as Integer>::from_limb_like", <BoxedUint as Integer>::from_limb_like(Limb(lw), &a));
        rt!(r, "BoxedUint::from(Limb).widen", BoxedUint::from(Limb(lw)).widen(b.max(64)));
        rt!(r, "BoxedUint::from(u64).widen", BoxedUint::from(lw).widen(b.max(64)));
        let r = Routes::new("max with precision", "documented: 2^bits_precision - 1", Out::val(vec![u64::MAX; n]));
        rt!(r, "BoxedUint::max", BoxedUint::max(b));
        rt!(r, "!BoxedUint::zero_with_precision", !BoxedUint::zero_with_precision(b));
        rt!(r, "zero.wrapping_sub(one)", BoxedUint::zero_with_precision(b).wrapping_sub(&BoxedUint::one()));

        // widen / shorten
        let wb = 64 * n as u32 + grow;
        let wn = (wb as usize + 63) / 64;
        let mut wl = al.clone();
        wl.resize(wn, 0);
        let r = Routes::new("widen", "documented: same value, precision rounded up", Out::val(wl.clone()));
        rt!(r, "BoxedUint::widen", a.widen(wb));
        rt!(r, "BoxedUint::from_words(padded)", boxed(&wl));
        rt!(r, "zero_with_precision(wide).wrapping_add(a)", BoxedUint::zero_with_precision(wb).wrapping_add(&a));
        rt!(r, "zero_with_precision(wide) | a", BoxedUint::zero_with_precision(wb).bitor(&a));
        let sb = (64 * n as u32).saturating_sub(grow).max(1);
        let sn = (sb as usize + 63) / 64;
        let r = Routes::new("shorten", "documented: low limbs, precision rounded up", Out::val(al[..sn].to_vec()));
        rt!(r, "BoxedUint::shorten", a.shorten(sb));
        rt!(r, "BoxedUint::widen(..).shorten(..)", a.widen(wb).shorten(sb));
        // documented panics
        if grow >= 64 {
            let r = Routes::new("widen / shorten (documented panics)", "documented: panic", Out::Panic);
            if n >= 2 {
                rt!(r, "BoxedUint::widen(smaller)", a.widen(64 * (n as u32 - 1)));
            }
            rt!(r, "BoxedUint::shorten(larger)", a.shorten(64 * n as u32 + grow));
        }

        // constructor routes
        let r = Routes::new("from words", "BoxedUint::from_words", Out::val(al.clone()));
        rt!(r, "BoxedUint::from(Vec<Word>)", BoxedUint::from(al.clone()));
        rt!(r, "BoxedUint::from(Vec<Limb>)", BoxedUint::from(al.iter().map(|&w| Limb(w)).collect::<Vec<_>>()));
        rt!(r, "BoxedUint::from(&[Limb])", BoxedUint::from(&al.iter().map(|&w| Limb(w)).collect::<Vec<_>>()[..]));
        rt!(r, "BoxedUint::from(Box<[Limb]>)", BoxedUint::from(al.iter().map(|&w| Limb(w)).collect::<Vec<_>>().into_boxed_slice()));
        rt!(r, "BoxedUint::to_words round trip", BoxedUint::from_words(a.to_words().iter().copied()));
        rt!(r, "BoxedUint::to_limbs round trip", BoxedUint::from(a.to_limbs()));
        rt!(r, "BoxedUint::into_limbs round trip", BoxedUint::from(a.clone().into_limbs()));
        rt!(r, "BoxedUint::as_limbs", a.as_limbs().iter().map(|l| l.0).collect::<Vec<u64>>());
        rt!(r, "BoxedUint::from_be_slice(to_be_bytes)", BoxedUint::from_be_slice(&a.to_be_bytes(), 64 * n as u32).ok());
        rt!(r, "BoxedUint::from_le_slice(to_le_bytes)", BoxedUint::from_le_slice(&a.to_le_bytes(), 64 * n as u32).ok());
        Ok(())
    }
}
