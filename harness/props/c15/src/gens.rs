//! Property-specific input constructions (the inputs of the corresponding exactness properties).

use num_bigint::BigUint;
use num_traits::{One, Zero};
use vmodel::gen;
use vmodel::*;

pub const M: u64 = u64::MAX;

/// Number of significant limbs.
pub fn sig_limbs(l: &[u64]) -> usize {
    ((bit_len(l) + 63) / 64) as usize
}

/// (dividend, divisor != 0, class) in `n` limbs each.
pub fn div_pair(t: &mut Tape, n: usize) -> (Limbs, Limbs, &'static str) {
    let b = 64 * n as u64;
    match t.weighted(&[3, 3, 2, 2, 2, 2, 2, 1, 1]) {
        0 => {
            // independent shapes
            let a = gen::limbs(t, n);
            let d = gen::nonzero(t, n);
            (a, d, "div: independent shapes")
        }
        1 => {
            // n = q*d + r with r in {0, 1, d-1, random < d}
            let dl = if n > 1 { t.usize_in(1, n) } else { 1 };
            let mut d = gen::nonzero(t, dl);
            d.resize(n, 0);
            let dbig = big(&d);
            let ql = (n + 1).saturating_sub(sig_limbs(&d)).max(1).min(n);
            let q = big(&gen::limbs(t, ql));
            let r = match t.below(4) {
                0 => BigUint::zero(),
                1 => BigUint::one() % &dbig,
                2 => &dbig - BigUint::one(),
                _ => gen::below_big(t, &dbig),
            };
            let mut v = &q * &dbig + r;
            if v.bits() > b {
                v = v & mask(b);
            }
            (limbs_of(&v, n), d, "div: n = q*d + r")
        }
        2 if n >= 4 => {
            // Knuth overestimate: divisor = [MAX.. | v0 | v1] with v1 normalised, dividend = qhat*(v1:v0)*B^(k-2) + small
            let k = t.usize_in(3, n - 1);
            let v1 = t.u64() | (1 << 63);
            let v0 = gen::limb_word(t);
            let mut d = vec![M; k - 2];
            d.push(v0);
            d.push(v1);
            d.resize(n, 0);
            let qhat = match t.below(3) {
                0 => M,
                1 => gen::word(t) | 1,
                _ => t.u64() | 1,
            };
            let top = (BigUint::from(v1) << 64u32) | BigUint::from(v0);
            let small = big(&gen::limbs(t, k - 2));
            let v = ((BigUint::from(qhat) * top) << (64 * (k as u64 - 2))) + small;
            let v = v & mask(b);
            (limbs_of(&v, n), d, "div: Knuth estimate off by one (3-by-2 overestimates)")
        }
        3 => {
            // single-limb divisor in a multi-limb type
            let a = gen::limbs(t, n);
            let mut d = vec![0u64; n];
            d[0] = gen::word(t).max(1);
            (a, d, "div: single-limb divisor")
        }
        4 => {
            // divisor bit length a multiple of 64 (normalised top limb), second limb 0 / MAX
            let k = if n > 1 { t.usize_in(1, n) } else { 1 };
            let mut d = gen::limbs(t, k);
            d[k - 1] = match t.below(3) {
                0 => M,
                1 => 1 << 63,
                _ => t.u64() | (1 << 63),
            };
            if k >= 2 {
                d[k - 2] = t.pick(&[0u64, M, 1, d[k - 2]]);
            }
            d.resize(n, 0);
            let a = gen::limbs(t, n);
            (a, d, "div: divisor bit length = 0 mod 64")
        }
        5 => {
            // dividend below / equal / just above the divisor
            let d = gen::nonzero(t, n);
            let mut a = d.clone();
            match t.below(4) {
                0 => {}
                1 => gen::dec(&mut a),
                2 => {
                    if !d.iter().all(|&w| w == M) {
                        gen::inc(&mut a)
                    }
                }
                _ => {
                    a = limbs_of(&(big(&d) >> 1u32), n);
                }
            }
            (a, d, "div: dividend ~ divisor")
        }
        6 => {
            // full-width dividend, divisor with few significant limbs: long quotient
            let mut a = gen::limbs(t, n);
            a[n - 1] |= 1 << 63;
            let k = if n > 2 { t.usize_in(1, 2) } else { 1 };
            let mut d = gen::nonzero(t, k);
            d.resize(n, 0);
            (a, d, "div: long quotient")
        }
        7 => {
            let (a, mut d) = gen::pair(t, n);
            if is_zero(&d) {
                d[0] = 1;
            }
            (a, d, "div: related operands")
        }
        _ => {
            // divisor = 2^k or 2^k ± 1
            let mut d = gen::shape_p(t, n);
            if is_zero(&d) {
                d[0] = 1;
            }
            (gen::limbs(t, n), d, "div: divisor 2^k(+-1)")
        }
    }
}

/// Inputs for square roots: perfect squares and neighbours.
pub fn sqrt_input(t: &mut Tape, n: usize) -> (Limbs, &'static str) {
    let b = 64 * n as u64;
    match t.weighted(&[3, 4, 2, 1]) {
        0 => (gen::limbs(t, n), "sqrt: shape mixture"),
        1 => {
            // t^2, t^2 +- 1 for t = 2^j, 2^j +- 1, random half-width value
            let half = b / 2;
            let r = match t.below(3) {
                0 => {
                    let j = t.edgy(half - 1);
                    let base = pow2(j);
                    match t.below(3) {
                        0 => base,
                        1 => &base - BigUint::one(),
                        _ => base + BigUint::one(),
                    }
                }
                1 => mask(half),
                _ => {
                    let hl = ((n + 1) / 2).max(1);
                    big(&gen::limbs(t, hl)) & mask(half)
                }
            };
            let sq = &r * &r;
            let v = match t.below(3) {
                0 => sq,
                1 => {
                    if sq.is_zero() {
                        sq
                    } else {
                        sq - BigUint::one()
                    }
                }
                _ => sq + BigUint::one(),
            };
            (limbs_of(&(v & mask(b)), n), "sqrt: t^2 / t^2 +- 1")
        }
        2 => (vec![M; n], "sqrt: MAX"),
        _ => (gen::shape_z(t, n.max(1)), "sqrt: small value in wide type"),
    }
}

/// shift amount biased to limb boundaries, in 0..=max
pub fn shift_in(t: &mut Tape, max: u32) -> u32 {
    t.edgy(max as u64) as u32
}

/// an odd modulus >= 3 in n limbs with class name
pub fn odd_modulus3(t: &mut Tape, n: usize) -> (Limbs, &'static str) {
    let (m, class) = gen::odd_modulus(t, n);
    if big(&m).is_one() {
        let mut v = vec![0u64; n];
        v[0] = 3;
        return (v, "m=3");
    }
    (m, class)
}

/// any modulus >= 1 (odd classes, even s*2^k, powers of two)
pub fn any_modulus(t: &mut Tape, n: usize) -> (Limbs, &'static str) {
    let b = 64 * n as u64;
    match t.weighted(&[4, 2, 1, 1]) {
        0 => gen::odd_modulus(t, n),
        1 => {
            // s * 2^k
            let k = t.edgy(b - 1);
            let s = big(&gen::odd(t, n));
            let v = (s << k) & mask(b);
            let v = if v.is_zero() { pow2(b - 1) } else { v };
            (limbs_of(&v, n), "m = s*2^k")
        }
        2 => {
            let k = t.edgy(b - 1);
            (limbs_of(&pow2(k), n), "m = 2^k")
        }
        _ => (gen::nonzero(t, n), "m any shape"),
    }
}

pub fn gcd_big(a: &BigUint, b: &BigUint) -> BigUint {
    let (mut a, mut b) = (a.clone(), b.clone());
    while !b.is_zero() {
        let r = &a % &b;
        a = b;
        b = r;
    }
    a
}
