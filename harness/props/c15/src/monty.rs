//! Montgomery forms: `MontyParams::new` vs `new_vartime` vs the trait constructor, fixed vs boxed,
//! inherent vs `Monty` / `Square` / `Pow*` / `Invert` / `Inverter` traits, operators by value / by
//! reference / assigning, prepared multiplier vs `mul`.
//! Domain: odd modulus >= 3 (the degenerate modulus 1 belongs to C08), values reduced.

use crate::arith::ops6_clone;
use crate::gens;
use crate::out::*;
use crate::rt;
use crypto_bigint::modular::{BoxedMontyForm, BoxedMontyParams, MontyForm, MontyParams, Retrieve, SafeGcdInverter};
use crypto_bigint::{
    BoxedUint, Invert, Inverter, Monty, MontyMultiplier, Odd, Pow, PowBoundedExp, PrecomputeInverter, Square, SquareAssign, Uint,
};
use std::sync::Arc;
use vmodel::gen;
use vmodel::*;

impl<const N: usize> IntoParts for MontyForm<N> {
    fn parts(self, v: &mut Vec<Part>) {
        v.push(Part::L(ul(&self.to_montgomery())))
    }
}
impl IntoParts for BoxedMontyForm {
    fn parts(self, v: &mut Vec<Part>) {
        v.push(Part::L(bl(Monty::as_montgomery(&self))))
    }
}

fn via_multiplier<M: Monty>(x: &M, y: &M) -> (M, M) {
    let mut mm = <M::Multiplier<'_> as From<&M::Params>>::from(x.params());
    let mut p = x.clone();
    mm.mul_assign(&mut p, y);
    let mut s = x.clone();
    mm.square_assign(&mut s);
    (p, s)
}

/// everything reachable through the `Monty` trait alone, generically
fn trait_routes<M: Monty + IntoParts>(
    tag: &str,
    modulus: Odd<M::Integer>,
    xi: M::Integer,
    yi: M::Integer,
    rs: &[(&str, &Routes)],
) -> CaseResult
where
    M::Integer: Clone,
{
    let params = M::new_params_vartime(modulus);
    let x = M::new(xi.clone(), params.clone());
    let y = M::new(yi, params.clone());
    for (op, r) in rs.iter() {
        let name = format!("<{tag} as Monty> {op}");
        let got = match *op {
            "new" => out(guard(|| x.clone())),
            "zero" => out(guard(|| M::zero(params.clone()))),
            "one" => out(guard(|| M::one(params.clone()))),
            "add" => out(guard(|| x.clone() + y.clone())),
            "add&" => out(guard(|| x.clone() + &y)),
            "add=" => out(guard(|| { let mut z = x.clone(); z += y.clone(); z })),
            "add=&" => out(guard(|| { let mut z = x.clone(); z += &y; z })),
            "sub" => out(guard(|| x.clone() - y.clone())),
            "sub&" => out(guard(|| x.clone() - &y)),
            "sub=" => out(guard(|| { let mut z = x.clone(); z -= y.clone(); z })),
            "sub=&" => out(guard(|| { let mut z = x.clone(); z -= &y; z })),
            "mul" => out(guard(|| x.clone() * y.clone())),
            "mul&" => out(guard(|| x.clone() * &y)),
            "mul=" => out(guard(|| { let mut z = x.clone(); z *= y.clone(); z })),
            "mul=&" => out(guard(|| { let mut z = x.clone(); z *= &y; z })),
            "neg" => out(guard(|| -x.clone())),
            "double" => out(guard(|| x.double())),
            "div_by_2" => out(guard(|| x.div_by_2())),
            "div_by_2_assign" => out(guard(|| { let mut z = x.clone(); z.div_by_2_assign(); z })),
            "square" => out(guard(|| Square::square(&x))),
            "square_assign" => out(guard(|| { let mut z = x.clone(); SquareAssign::square_assign(&mut z); z })),
            "multiplier mul" => out(guard(|| via_multiplier(&x, &y).0)),
            "multiplier square" => out(guard(|| via_multiplier(&x, &y).1)),
            "lincomb" => out(guard(|| M::lincomb_vartime(&[(&x, &y), (&y, &x)]))),
            "copy_montgomery_from" => out(guard(|| { let mut z = M::zero(params.clone()); z.copy_montgomery_from(&x); z })),
            other => panic!("harness: unknown op {other}"),
        };
        r.check(&name, got)?;
    }
    Ok(())
}

/// `MontyParams: PrecomputeInverter` is bounded by a sealed trait, so it can only be used at concrete
/// widths: (invert(x), invert_vartime(x), invert(y) through the same inverter)
pub type ParamsInv<const N: usize> = fn(&MontyParams<N>, &MontyForm<N>, &MontyForm<N>) -> [Out; 3];

macro_rules! params_inv {
    ($($name:ident: $n:literal),*) => { $(
        pub fn $name(p: &MontyParams<$n>, x: &MontyForm<$n>, y: &MontyForm<$n>) -> [Out; 3] {
            match guard(|| PrecomputeInverter::precompute_inverter(p)) {
                Err(_) => [Out::Panic, Out::Panic, Out::Panic],
                Ok(pre) => [
                    out(guard(|| Inverter::invert(&pre, x))),
                    out(guard(|| Inverter::invert_vartime(&pre, x))),
                    out(guard(|| Inverter::invert(&pre, y))),
                ],
            }
        }
    )* };
}
params_inv!(params_inv_1: 1, params_inv_2: 2, params_inv_3: 3, params_inv_4: 4, params_inv_8: 8, params_inv_16: 16, params_inv_32: 32, params_inv_64: 64);

pub fn monty<const N: usize, const W: usize, const U: usize, const E: usize>(t: &mut Tape, c: &mut Case, pinv: ParamsInv<N>) -> CaseResult
where
    Uint<N>: crypto_bigint::Concat<Output = Uint<W>>,
    Uint<W>: crypto_bigint::Split<Output = Uint<N>>,
    Odd<Uint<N>>: PrecomputeInverter<Inverter = SafeGcdInverter<N, U>, Output = Uint<N>>,
{
    let (ml, class) = gens::odd_modulus3(t, N);
    let mb = big(&ml);
    let xl = limbs_exact(&gen::residue(t, &mb), N);
    let yl = match t.weighted(&[3, 1]) {
        0 => limbs_exact(&gen::residue(t, &mb), N),
        _ => xl.clone(),
    };
    let el = gen::limbs(t, E);
    let eb = gens::shift_in(t, 64 * E as u32);
    // one case in eight: a tuple on which the boxed (almost-Montgomery) ladder ends in one of its rare
    // states — accumulator >= 2m (model search), or exactly 0 / m / 2m (late zero) — see c09::model
    let (ml, class, mb, xl, yl, el, eb) = if t.chance(1, 8) {
        let special = if t.bool() {
            let (ml, base, e, _found) = c09::model::double_reduction_tuple(t, N);
            Some((ml, base, e, "m in [0.42R, 0.495R): boxed ladder accumulator >= 2m (model search)"))
        } else {
            c09::model::late_zero_tuple(t, N).map(|(ml, base, e)| (ml, base, e, "m = p^k c: base^e = 0 through the last window only"))
        };
        match special {
            Some((ml, base, e, class)) => {
                let mb = big(&ml);
                let xl = limbs_exact(&base, N);
                let mut el2 = vec![0u64; E];
                el2[0] = e;
                let eb = t.pick(&[12u32, 16, 64 * E as u32]).min(64 * E as u32);
                (ml, class, mb, xl.clone(), xl, el2, eb)
            }
            None => (ml, class, mb, xl, yl, el, eb),
        }
    } else {
        (ml, class, mb, xl, yl, el, eb)
    };
    c.limbs("m", &ml);
    c.limbs("x", &xl);
    c.limbs("y", &yl);
    c.limbs("e", &el);
    c.num("exponent_bits", eb as u64);
    c.label(class);
    c.nontrivial(mb.bits() >= 3 && !is_zero(&xl) && !is_zero(&yl));
    let g = gens::gcd_big(&big(&xl), &mb);
    c.label(if num_traits::One::is_one(&g) { "monty: x invertible" } else { "monty: x not invertible" });

    let m = Odd::new(uint::<N>(&ml)).unwrap();
    let bm = Odd::new(boxed(&ml)).unwrap();
    let (xu, yu, eu) = (uint::<N>(&xl), uint::<N>(&yl), uint::<E>(&el));
    let (bxu, byu, beu) = (boxed(&xl), boxed(&yl), boxed(&el));

    // ---- parameters ----
    let p = total("MontyParams::new", || MontyParams::<N>::new(m))?;
    let pv = total("MontyParams::new_vartime", || MontyParams::<N>::new_vartime(m))?;
    vensure!(p == pv, "MontyParams::new != MontyParams::new_vartime: {:?} vs {:?}", p, pv);
    let pt = total("Monty::new_params_vartime", || <MontyForm<N> as Monty>::new_params_vartime(m))?;
    vensure!(p == pt, "MontyParams::new != <MontyForm as Monty>::new_params_vartime: {:?} vs {:?}", p, pt);
    vensure!(p.modulus() == &m, "MontyParams::modulus() differs from the modulus given");
    let bp = total("BoxedMontyParams::new", || BoxedMontyParams::new(bm.clone()))?;
    let bpv = total("BoxedMontyParams::new_vartime", || BoxedMontyParams::new_vartime(bm.clone()))?;
    vensure!(bp == bpv, "BoxedMontyParams::new != BoxedMontyParams::new_vartime: {:?} vs {:?}", bp, bpv);
    let bpt = total("Monty::new_params_vartime (boxed)", || <BoxedMontyForm as Monty>::new_params_vartime(bm.clone()))?;
    vensure!(bp == bpt, "BoxedMontyParams::new != <BoxedMontyForm as Monty>::new_params_vartime");
    veq!(bl(bp.modulus().as_ref()), ml, "BoxedMontyParams::modulus()");
    veq!(bp.bits_precision(), 64 * N as u32, "BoxedMontyParams::bits_precision()");

    // ---- construction / constants ----
    let x = total("MontyForm::new", || MontyForm::new(&xu, p))?;
    let y = total("MontyForm::new", || MontyForm::new(&yu, p))?;
    let bx = total("BoxedMontyForm::new", || BoxedMontyForm::new(bxu.clone(), bp.clone()))?;
    let by = total("BoxedMontyForm::new", || BoxedMontyForm::new(byu.clone(), bp.clone()))?;

    let r_new = Routes::new("monty new", "MontyForm::new", out(Ok(x)));
    rt!(r_new, "BoxedMontyForm::new", bx.clone());
    rt!(r_new, "BoxedMontyForm::new_with_arc", BoxedMontyForm::new_with_arc(bxu.clone(), Arc::new(bp.clone())));
    rt!(r_new, "MontyForm::from_montgomery(to_montgomery)", MontyForm::from_montgomery(x.to_montgomery(), p));
    rt!(r_new, "BoxedMontyForm::from_montgomery(to_montgomery)", BoxedMontyForm::from_montgomery(bx.to_montgomery(), bp.clone()));
    rt!(r_new, "MontyForm::as_montgomery", *x.as_montgomery());
    rt!(r_new, "BoxedMontyForm::as_montgomery", bx.as_montgomery().clone());
    rt!(r_new, "MontyForm::as_montgomery_mut", { let mut z = x; *z.as_montgomery_mut() });
    let r_zero = crate::reference!("monty zero", "MontyForm::zero", MontyForm::zero(p));
    rt!(r_zero, "BoxedMontyForm::zero", BoxedMontyForm::zero(bp.clone()));
    rt!(r_zero, "MontyForm::new(0)", MontyForm::new(&Uint::ZERO, p));
    let r_one = crate::reference!("monty one", "MontyForm::one", MontyForm::one(p));
    rt!(r_one, "BoxedMontyForm::one", BoxedMontyForm::one(bp.clone()));
    rt!(r_one, "MontyForm::new(1)", MontyForm::new(&Uint::ONE, p));
    rt!(r_one, "BoxedMontyForm::new(1)", BoxedMontyForm::new(BoxedUint::one_with_precision(64 * N as u32), bp.clone()));

    let r = crate::reference!("monty retrieve", "MontyForm::retrieve", x.retrieve());
    rt!(r, "<MontyForm as Retrieve>::retrieve", Retrieve::retrieve(&x));
    rt!(r, "BoxedMontyForm::retrieve", bx.retrieve());
    rt!(r, "<BoxedMontyForm as Retrieve>::retrieve", Retrieve::retrieve(&bx));

    // ---- ring operations ----
    let r_add = crate::reference!("monty add", "MontyForm::add", x.add(&y));
    ops6_clone!(r_add, "MontyForm", +, +=, x, y);
    rt!(r_add, "BoxedMontyForm::add", bx.add(&by));
    ops6_clone!(r_add, "BoxedMontyForm", +, +=, bx, by);
    let r_sub = crate::reference!("monty sub", "MontyForm::sub", x.sub(&y));
    ops6_clone!(r_sub, "MontyForm", -, -=, x, y);
    rt!(r_sub, "BoxedMontyForm::sub", bx.sub(&by));
    ops6_clone!(r_sub, "BoxedMontyForm", -, -=, bx, by);
    let r_mul = crate::reference!("monty mul", "MontyForm::mul", x.mul(&y));
    ops6_clone!(r_mul, "MontyForm", *, *=, x, y);
    rt!(r_mul, "BoxedMontyForm::mul", bx.mul(&by));
    ops6_clone!(r_mul, "BoxedMontyForm", *, *=, bx, by);
    let r_neg = crate::reference!("monty neg", "MontyForm::neg", x.neg());
    rt!(r_neg, "-MontyForm", -x);
    rt!(r_neg, "-&MontyForm", -&x);
    rt!(r_neg, "MontyForm::zero - x", MontyForm::zero(p) - x);
    rt!(r_neg, "BoxedMontyForm::neg", bx.neg());
    rt!(r_neg, "-BoxedMontyForm", -bx.clone());
    rt!(r_neg, "-&BoxedMontyForm", -&bx);
    let r_dbl = crate::reference!("monty double", "MontyForm::double", x.double());
    rt!(r_dbl, "MontyForm::add(x, x)", x.add(&x));
    rt!(r_dbl, "BoxedMontyForm::double", bx.double());
    let r_half = crate::reference!("monty div_by_2", "MontyForm::div_by_2", x.div_by_2());
    rt!(r_half, "BoxedMontyForm::div_by_2", bx.div_by_2());
    rt!(r_half, "BoxedMontyForm::div_by_2_assign", { let mut z = bx.clone(); z.div_by_2_assign(); z });
    let r_sq = crate::reference!("monty square", "MontyForm::square", x.square());
    rt!(r_sq, "MontyForm::mul(x, x)", x.mul(&x));
    rt!(r_sq, "BoxedMontyForm::square", bx.square());
    rt!(r_sq, "BoxedMontyForm::mul(x, x)", bx.mul(&bx));
    let r_lin = crate::reference!("monty lincomb", "MontyForm::lincomb_vartime", MontyForm::lincomb_vartime(&[(&x, &y), (&y, &x)]));
    rt!(r_lin, "x*y + y*x", x * y + y * x);
    rt!(r_lin, "BoxedMontyForm::lincomb_vartime", BoxedMontyForm::lincomb_vartime(&[(&bx, &by), (&by, &bx)]));
    let r_copy = Routes::new("monty copy", "MontyForm::new", out(Ok(x)));

    // ---- the Monty trait, generically, for both representations ----
    let table: Vec<(&str, &Routes)> = vec![
        ("new", &r_new),
        ("zero", &r_zero),
        ("one", &r_one),
        ("add", &r_add),
        ("add&", &r_add),
        ("add=", &r_add),
        ("add=&", &r_add),
        ("sub", &r_sub),
        ("sub&", &r_sub),
        ("sub=", &r_sub),
        ("sub=&", &r_sub),
        ("mul", &r_mul),
        ("mul&", &r_mul),
        ("mul=", &r_mul),
        ("mul=&", &r_mul),
        ("multiplier mul", &r_mul),
        ("neg", &r_neg),
        ("double", &r_dbl),
        ("div_by_2", &r_half),
        ("div_by_2_assign", &r_half),
        ("square", &r_sq),
        ("square_assign", &r_sq),
        ("multiplier square", &r_sq),
        ("lincomb", &r_lin),
        ("copy_montgomery_from", &r_copy),
    ];
    trait_routes::<MontyForm<N>>("MontyForm", m, xu, yu, &table)?;
    trait_routes::<BoxedMontyForm>("BoxedMontyForm", bm.clone(), bxu.clone(), byu.clone(), &table)?;

    // ---- exponentiation ----
    let r = crate::reference!("monty pow", "MontyForm::pow", x.pow(&eu));
    rt!(r, "MontyForm::pow_bounded_exp(e, BITS)", x.pow_bounded_exp(&eu, 64 * E as u32));
    rt!(r, "<MontyForm as Pow>::pow", Pow::pow(&x, &eu));
    rt!(r, "<MontyForm as PowBoundedExp>::pow_bounded_exp(e, BITS)", PowBoundedExp::pow_bounded_exp(&x, &eu, 64 * E as u32));
    rt!(r, "BoxedMontyForm::pow", bx.pow(&beu));
    rt!(r, "BoxedMontyForm::pow_bounded_exp(e, BITS)", bx.pow_bounded_exp(&beu, 64 * E as u32));
    rt!(r, "<BoxedMontyForm as PowBoundedExp>::pow_bounded_exp(e, BITS)", PowBoundedExp::pow_bounded_exp(&bx, &beu, 64 * E as u32));
    let r = crate::reference!("monty pow_bounded_exp", "MontyForm::pow_bounded_exp", x.pow_bounded_exp(&eu, eb));
    rt!(r, "<MontyForm as PowBoundedExp>::pow_bounded_exp", PowBoundedExp::pow_bounded_exp(&x, &eu, eb));
    rt!(r, "BoxedMontyForm::pow_bounded_exp", bx.pow_bounded_exp(&beu, eb));
    rt!(r, "<BoxedMontyForm as PowBoundedExp>::pow_bounded_exp", PowBoundedExp::pow_bounded_exp(&bx, &beu, eb));
    {
        // the low `eb` bits of the exponent as a full-width exponent
        let low = limbs_of(&(big(&el) & mask(eb as u64)), E);
        rt!(r, "MontyForm::pow(e mod 2^bits)", x.pow(&uint::<E>(&low)));
    }

    // ---- inversion ----
    let r = crate::reference!("monty inv", "MontyForm::inv", x.inv());
    rt!(r, "MontyForm::inv_vartime", x.inv_vartime());
    rt!(r, "<MontyForm as Invert>::invert", Invert::invert(&x));
    rt!(r, "<MontyForm as Invert>::invert_vartime", Invert::invert_vartime(&x));
    let [pi_x, pi_xv, pi_y] = pinv(&p, &x, &y);
    r.check("MontyParams::precompute_inverter().invert", pi_x)?;
    r.check("MontyParams::precompute_inverter().invert_vartime", pi_xv)?;
    rt!(r, "BoxedMontyForm::invert", bx.invert());
    rt!(r, "BoxedMontyForm::invert_vartime", bx.invert_vartime());
    rt!(r, "<BoxedMontyForm as Invert>::invert", Invert::invert(&bx));
    rt!(r, "<BoxedMontyForm as Invert>::invert_vartime", Invert::invert_vartime(&bx));
    let bpre = total("BoxedMontyParams::precompute_inverter", || PrecomputeInverter::precompute_inverter(&bp))?;
    rt!(r, "BoxedMontyParams::precompute_inverter().invert", Inverter::invert(&bpre, &bx));
    rt!(r, "BoxedMontyParams::precompute_inverter().invert_vartime", Inverter::invert_vartime(&bpre, &bx));
    // reuse of the precomputed inverter on a second value
    let r = crate::reference!("monty inv (second value, reused inverter)", "MontyForm::inv", y.inv());
    r.check("reused MontyParams::precompute_inverter().invert", pi_y)?;
    rt!(r, "reused BoxedMontyParams::precompute_inverter().invert", Inverter::invert(&bpre, &by));
    Ok(())
}
